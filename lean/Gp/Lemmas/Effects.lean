import Gp.Model.Effects
/-
  Helper lemmas for Gp/Props/C02/Effects.lean: laws of `Prog.run`, preservation of read-only-ness,
  the interleaving invariant, and the effect logs of the transcribed functions.
-/
namespace Gp.Effects
open Gp

/-! ## Logs -/

theorem writesOf_append (a b : Log) : writesOf (a ++ b) = writesOf a ++ writesOf b := by
  induction a with
  | nil => rfl
  | cons x xs ih => cases x <;> simp [writesOf, ih]

theorem mem_writesOf {l : Log} {r : Region} : r ∈ writesOf l ↔ Access.write r ∈ l := by
  induction l with
  | nil => simp [writesOf]
  | cons x xs ih => cases x <;> simp [writesOf, ih]

/-! ## Running programs -/

namespace Prog

@[simp] theorem run_done {α} (a : α) (h : Heap) : (Prog.done a).run h = (a, h, []) := rfl

theorem run_bind {α β} (p : Prog α) (f : α → Prog β) (h : Heap) :
    (p.bind f).run h =
      (((f (p.run h).1).run (p.run h).2.1).1, ((f (p.run h).1).run (p.run h).2.1).2.1,
        (p.run h).2.2 ++ ((f (p.run h).1).run (p.run h).2.1).2.2) := by
  induction p generalizing h with
  | done a => simp [bind, run]
  | read r k ih => simp [bind, run, ih]
  | write b off bs k ih => simp [bind, run, ih]
  | alloc n k ih => simp [bind, run, ih]

theorem log_bind {α β} (p : Prog α) (f : α → Prog β) (h : Heap) :
    (p.bind f).log h = p.log h ++ (f (p.answer h)).log (p.final h) := by
  simp [log, answer, final, run_bind]

theorem answer_bind {α β} (p : Prog α) (f : α → Prog β) (h : Heap) :
    (p.bind f).answer h = (f (p.answer h)).answer (p.final h) := by
  simp [answer, final, run_bind]

theorem final_bind {α β} (p : Prog α) (f : α → Prog β) (h : Heap) :
    (p.bind f).final h = (f (p.answer h)).final (p.final h) := by
  simp [answer, final, run_bind]

@[simp] theorem log_done {α} (a : α) (h : Heap) : (Prog.done a).log h = [] := rfl
@[simp] theorem answer_done {α} (a : α) (h : Heap) : (Prog.done a).answer h = a := rfl
@[simp] theorem final_done {α} (a : α) (h : Heap) : (Prog.done a).final h = h := rfl

@[simp] theorem log_read {α} (r : Region) (k : Bytes → Prog α) (h : Heap) :
    (Prog.read r k).log h = .read r :: (k (h.read r)).log h := rfl
@[simp] theorem answer_read {α} (r : Region) (k : Bytes → Prog α) (h : Heap) :
    (Prog.read r k).answer h = (k (h.read r)).answer h := rfl
@[simp] theorem final_read {α} (r : Region) (k : Bytes → Prog α) (h : Heap) :
    (Prog.read r k).final h = (k (h.read r)).final h := rfl

@[simp] theorem log_write {α} (b : Buf) (off : Nat) (bs : Bytes) (k : Prog α) (h : Heap) :
    (Prog.write b off bs k).log h = .write ⟨b, off, bs.length⟩ :: k.log (h.write b off bs) := rfl
@[simp] theorem answer_write {α} (b : Buf) (off : Nat) (bs : Bytes) (k : Prog α) (h : Heap) :
    (Prog.write b off bs k).answer h = k.answer (h.write b off bs) := rfl
@[simp] theorem final_write {α} (b : Buf) (off : Nat) (bs : Bytes) (k : Prog α) (h : Heap) :
    (Prog.write b off bs k).final h = k.final (h.write b off bs) := rfl

@[simp] theorem log_alloc {α} (n : Nat) (k : Buf → Prog α) (h : Heap) :
    (Prog.alloc n k).log h = .alloc (h.alloc n).2 n :: (k (h.alloc n).2).log (h.alloc n).1 := rfl
@[simp] theorem answer_alloc {α} (n : Nat) (k : Buf → Prog α) (h : Heap) :
    (Prog.alloc n k).answer h = (k (h.alloc n).2).answer (h.alloc n).1 := rfl
@[simp] theorem final_alloc {α} (n : Nat) (k : Buf → Prog α) (h : Heap) :
    (Prog.alloc n k).final h = (k (h.alloc n).2).final (h.alloc n).1 := rfl

end Prog

/-! ## Heap facts -/

@[simp] theorem Heap.write_priv_shared (h : Heap) (i off : Nat) (bs : Bytes) :
    (h.write (.priv i) off bs).shared = h.shared := rfl

@[simp] theorem Heap.alloc_shared (h : Heap) (n : Nat) : (h.alloc n).1.shared = h.shared := rfl

@[simp] theorem Heap.alloc_buf (h : Heap) (n : Nat) : (h.alloc n).2 = .priv h.priv.length := rfl

theorem Heap.write_shared_of_not_shared (h : Heap) (b : Buf) (off : Nat) (bs : Bytes)
    (hb : b.isShared = false) : (h.write b off bs).shared = h.shared := by
  cases b with
  | shared i => simp [Buf.isShared] at hb
  | priv i => rfl

/-! ## Read-only programs -/

theorem ROFrom_done {α} (a : α) (sh pv : Mem) : ROFrom (Prog.done a) sh pv := by
  intro r hr; simp [writesOf] at hr

theorem ROFrom_read {α} (r : Region) (k : Bytes → Prog α) (sh pv : Mem) :
    ROFrom (Prog.read r k) sh pv ↔ ROFrom (k ((Heap.mk sh pv).read r)) sh pv := by
  simp [ROFrom, writesOf]

theorem ROFrom_alloc {α} (n : Nat) (k : Buf → Prog α) (sh pv : Mem) :
    ROFrom (Prog.alloc n k) sh pv ↔
      ROFrom (k (.priv pv.length)) sh (pv ++ [List.replicate n 0]) := by
  simp [ROFrom, writesOf, Heap.alloc]

theorem ROFrom_write {α} (b : Buf) (off : Nat) (bs : Bytes) (k : Prog α) (sh pv : Mem) :
    ROFrom (Prog.write b off bs k) sh pv ↔
      b.isShared = false ∧ ROFrom k ((Heap.mk sh pv).write b off bs).shared ((Heap.mk sh pv).write b off bs).priv := by
  simp [ROFrom, writesOf]

/-- A program that is read-only on shared memory leaves the shared heap as it was. -/
theorem final_shared_of_ROFrom {α} (p : Prog α) (sh pv : Mem) (h : ROFrom p sh pv) :
    (p.final ⟨sh, pv⟩).shared = sh := by
  induction p generalizing pv with
  | done a => rfl
  | read r k ih => exact ih _ pv ((ROFrom_read r k sh pv).1 h)
  | write b off bs k ih =>
    have h' := (ROFrom_write b off bs k sh pv).1 h
    have hs : ((Heap.mk sh pv).write b off bs).shared = sh :=
      Heap.write_shared_of_not_shared _ b off bs h'.1
    have := ih ((Heap.mk sh pv).write b off bs).priv (by rw [hs] at h'; exact h'.2)
    simp only [Prog.final_write]
    rw [show (Heap.mk sh pv).write b off bs = ⟨sh, ((Heap.mk sh pv).write b off bs).priv⟩ from by
      cases hb : b <;> simp [Heap.write, hb] at hs ⊢ <;> simp_all]
    exact this
  | alloc n k ih =>
    have h' := (ROFrom_alloc n k sh pv).1 h
    exact ih _ _ h'

theorem RO_done {α} (a : α) (sh : Mem) : RO (Prog.done a) sh := fun pv => ROFrom_done a sh pv

theorem RO_read {α} (r : Region) (k : Bytes → Prog α) (sh : Mem) (h : ∀ bs, RO (k bs) sh) :
    RO (Prog.read r k) sh := fun pv => (ROFrom_read r k sh pv).2 (h _ pv)

theorem RO_alloc {α} (n : Nat) (k : Buf → Prog α) (sh : Mem) (h : ∀ i, RO (k (.priv i)) sh) :
    RO (Prog.alloc n k) sh := fun pv => (ROFrom_alloc n k sh pv).2 (h _ _)

theorem RO_write_priv {α} (i off : Nat) (bs : Bytes) (k : Prog α) (sh : Mem) (h : RO k sh) :
    RO (Prog.write (.priv i) off bs k) sh := fun pv =>
  (ROFrom_write (.priv i) off bs k sh pv).2 ⟨rfl, h _⟩

theorem RO_bind {α β} (p : Prog α) (f : α → Prog β) (sh : Mem) (hp : RO p sh)
    (hf : ∀ a, RO (f a) sh) : RO (p.bind f) sh := by
  intro pv r hr
  rw [Prog.log_bind, writesOf_append] at hr
  rcases List.mem_append.1 hr with h | h
  · exact hp pv r h
  · have hs := final_shared_of_ROFrom p sh pv (hp pv)
    have : p.final ⟨sh, pv⟩ = ⟨sh, (p.final ⟨sh, pv⟩).priv⟩ := by
      generalize p.final ⟨sh, pv⟩ = hf at hs ⊢
      cases hf; simp at hs; simp [hs]
    rw [this] at h
    exact hf _ _ r h

theorem RO_readAll (rs : List Region) (sh : Mem) : RO (readAll rs) sh := by
  induction rs with
  | nil => exact RO_done _ _
  | cons r rs ih =>
    exact RO_read _ _ _ fun bs => RO_bind _ _ _ ih fun _ => RO_done _ _

theorem RO_seq {α} (ps : List (Prog α)) (sh : Mem) (h : ∀ p ∈ ps, RO p sh) : RO (Prog.seq ps) sh := by
  induction ps with
  | nil => exact RO_done _ _
  | cons p ps ih =>
    refine RO_bind _ _ _ (h p (List.mem_cons_self ..)) fun a => ?_
    exact RO_bind _ _ _ (ih fun q hq => h q (List.mem_cons_of_mem _ hq)) fun _ => RO_done _ _

/-! ## Interleavings -/

/-- One memory operation of a read-only goroutine: the shared heap is untouched, the goroutine
    stays read-only, what it would answer alone is unchanged, and a write is private. -/
theorem Thread.step_ro {α} (sh : Mem) (t t' : Thread α) (sh' : Mem) (a : Access)
    (hs : t.step sh = some (sh', t', a)) (hro : ROFrom t.prog sh t.priv) :
    sh' = sh ∧ ROFrom t'.prog sh t'.priv ∧
      t'.prog.answer ⟨sh, t'.priv⟩ = t.prog.answer ⟨sh, t.priv⟩ ∧
      (∀ r, a = .write r → r.buf.isShared = false) := by
  cases t with
  | mk prog pv =>
    cases prog with
    | done x => simp [Thread.step] at hs
    | read r k =>
      simp only [Thread.step, Option.some.injEq, Prod.mk.injEq] at hs
      obtain ⟨rfl, rfl, rfl⟩ := hs
      exact ⟨rfl, (ROFrom_read r k sh pv).1 hro, rfl, by intro r h; cases h⟩
    | write b off bs k =>
      simp only [Thread.step, Option.some.injEq, Prod.mk.injEq] at hs
      obtain ⟨rfl, rfl, rfl⟩ := hs
      have h' := (ROFrom_write b off bs k sh pv).1 hro
      have hsh := Heap.write_shared_of_not_shared ⟨sh, pv⟩ b off bs h'.1
      refine ⟨hsh, ?_, ?_, ?_⟩
      · have := h'.2; rw [hsh] at this; exact this
      · simp only [Prog.answer_write]
        congr 1
        cases b with
        | shared i => simp [Buf.isShared] at h'
        | priv i => rfl
      · intro r h; cases h; exact h'.1
    | alloc n k =>
      simp only [Thread.step, Option.some.injEq, Prod.mk.injEq] at hs
      obtain ⟨rfl, rfl, rfl⟩ := hs
      exact ⟨rfl, (ROFrom_alloc n k sh pv).1 hro, rfl, by intro r h; cases h⟩

/-- Every goroutine of the system is read-only on the shared heap from its current state. -/
def AllRO {α} (s : Sys α) : Prop := ∀ t ∈ s.threads, ROFrom t.prog s.shared t.priv

theorem Sys.step_ro {α} (s : Sys α) (i : Nat) (h : AllRO s) :
    (s.step i).1.shared = s.shared ∧ AllRO (s.step i).1 ∧ (s.step i).1.answers = s.answers ∧
      (∀ e ∈ (s.step i).2, ∀ r, e.2 = .write r → r.buf.isShared = false) := by
  unfold Sys.step
  cases hti : s.threads[i]? with
  | none => simp [h]
  | some t =>
    simp only
    cases hst : t.step s.shared with
    | none => simp [h]
    | some x =>
      obtain ⟨sh', t', a⟩ := x
      have htm : t ∈ s.threads := List.mem_of_getElem? hti
      obtain ⟨h1, h2, h3, h4⟩ := Thread.step_ro s.shared t t' sh' a hst (h t htm)
      subst h1
      refine ⟨rfl, ?_, ?_, ?_⟩
      · intro u hu
        rcases List.mem_or_eq_of_mem_set hu with hu | hu
        · exact h u hu
        · subst hu; exact h2
      · simp only [Sys.answers]
        apply List.ext_getElem?
        intro j
        simp only [List.getElem?_map, List.getElem?_set]
        by_cases hij : i = j
        · subst hij
          have hlt : i < s.threads.length := by
            rcases List.getElem?_eq_some_iff.1 hti with ⟨hlt, _⟩; exact hlt
          have hget : s.threads[i] = t := by
            have := List.getElem?_eq_getElem hlt
            rw [hti] at this
            exact (Option.some.inj this).symm
          simp [hlt, h3, hget]
        · simp [hij]
      · intro e he r hr
        simp only [Option.mem_def, Option.some.injEq] at he
        subst he
        exact h4 r hr

theorem Sys.exec_ro {α} (s : Sys α) (sched : List Nat) (h : AllRO s) :
    (s.exec sched).1.shared = s.shared ∧ AllRO (s.exec sched).1 ∧
      (s.exec sched).1.answers = s.answers ∧
      (∀ e ∈ (s.exec sched).2, ∀ r, e.2 = .write r → r.buf.isShared = false) := by
  induction sched generalizing s with
  | nil => exact ⟨rfl, h, rfl, by intro e he; cases he⟩
  | cons i is ih =>
    obtain ⟨h1, h2, h3, h4⟩ := Sys.step_ro s i h
    obtain ⟨g1, g2, g3, g4⟩ := ih (s.step i).1 h2
    simp only [Sys.exec]
    refine ⟨g1.trans h1, g2, g3.trans h3, ?_⟩
    intro e he r hr
    rcases List.mem_append.1 he with he | he
    · exact h4 e (by simpa using he) r hr
    · exact g4 e he r hr

/-- A trace in which every write is private has no conflicting pair. -/
theorem noConflict_of_private_writes (tr : List (Nat × Access))
    (h : ∀ e ∈ tr, ∀ r, e.2 = .write r → r.buf.isShared = false) : NoConflict tr := by
  intro e₁ h₁ e₂ h₂ _ hc
  unfold conflict at hc
  cases ha : e₁.2 with
  | alloc b n => simp [ha, Access.touches] at hc
  | read ra =>
    cases hb : e₂.2 with
    | alloc b n => simp [ha, hb, Access.touches] at hc
    | read rb => simp [ha, hb, Access.touches, Access.isWrite] at hc
    | write rb =>
      simp only [ha, hb, Access.touches, Access.isWrite] at hc
      have := h e₂ h₂ rb hb
      rw [← hc.2.1.1] at this
      rw [this] at hc
      exact Bool.noConfusion hc.1
  | write ra =>
    have := h e₁ h₁ ra ha
    cases hb : e₂.2 with
    | alloc b n => simp [ha, hb, Access.touches] at hc
    | read rb =>
      simp only [ha, hb, Access.touches] at hc
      rw [this] at hc; exact Bool.noConfusion hc.1
    | write rb =>
      simp only [ha, hb, Access.touches] at hc
      rw [this] at hc; exact Bool.noConfusion hc.1

theorem hasConflict_iff (tr : List (Nat × Access)) : hasConflict tr = true ↔ ¬ NoConflict tr := by
  unfold hasConflict NoConflict
  simp only [List.any_eq_true, Bool.and_eq_true, decide_eq_true_eq]
  constructor
  · rintro ⟨e₁, h₁, e₂, h₂, hne, hc⟩ hn
    exact hn e₁ h₁ e₂ h₂ hne hc
  · intro hn
    apply Classical.byContradiction
    intro hno
    apply hn
    intro e₁ h₁ e₂ h₂ hne hc
    exact hno ⟨e₁, h₁, e₂, h₂, hne, hc⟩

theorem AllRO_start {α} (sh : Mem) (ps : List (Prog α)) (h : ∀ p ∈ ps, RO p sh) :
    AllRO (Sys.start sh ps) := by
  intro t ht
  simp only [Sys.start, List.mem_map] at ht
  obtain ⟨p, hp, rfl⟩ := ht
  exact h p hp []

theorem finished_answer {α} (s : Sys α) (i : Nat) (a : α) (h : s.finished i = some a) :
    s.answers[i]? = some a := by
  unfold Sys.finished at h
  unfold Sys.answers
  cases hti : s.threads[i]? with
  | none => simp [hti] at h
  | some t =>
    obtain ⟨prog, pv⟩ := t
    cases prog with
    | done x =>
      simp [hti] at h
      simp [hti, h, Prog.answer]
    | read r k => simp [hti] at h
    | write b off bs k => simp [hti] at h
    | alloc n k => simp [hti] at h


/-! ## Memory: lengths, and storing what is already there -/

theorem Mem.read_length (m : Mem) (i off len : Nat) (h : off + len ≤ m.size i) :
    (m.read i off len).length = len := by
  unfold Mem.read Mem.size at *
  rw [List.length_take, List.length_drop]; omega

theorem Heap.read_length (h : Heap) (r : Region) (hb : r.inBounds h) : (h.read r).length = r.len := by
  unfold Region.inBounds Heap.size at hb
  unfold Heap.read
  cases hbuf : r.buf with
  | shared i => simp only [hbuf] at hb ⊢; exact Mem.read_length _ _ _ _ hb
  | priv i => simp only [hbuf] at hb ⊢; exact Mem.read_length _ _ _ _ hb

theorem splice_self (b : Bytes) (off n : Nat) :
    splice b off ((b.drop off).take n) = b := by
  unfold splice
  rw [List.length_take, List.length_drop]
  have h1 : b.drop (off + min n (b.length - off)) = (b.drop off).drop n := by
    rw [List.drop_drop]
    by_cases h : n ≤ b.length - off
    · rw [Nat.min_eq_left h]
    · have h' : b.length - off ≤ n := by omega
      rw [Nat.min_eq_right h']
      rw [List.drop_eq_nil_of_le (by omega), List.drop_eq_nil_of_le (by omega)]
  rw [h1, List.append_assoc, List.take_append_drop, List.take_append_drop]

theorem Mem.write_read_self (m : Mem) (i off len : Nat) (hi : i < m.length) :
    m.write i off (m.read i off len) = m := by
  unfold Mem.write Mem.read
  rw [splice_self]
  apply List.ext_getElem?
  intro j
  rw [List.getElem?_set]
  by_cases hij : i = j
  · subst hij
    simp [hi, List.getD_eq_getElem?_getD]
  · simp [hij]

/-- Storing into a region the bytes it already holds leaves the heap exactly as it was
    (the VALUES do not change — the store is a write all the same). -/
theorem Heap.write_read_self (h : Heap) (r : Region) (hb : 0 < h.size r.buf) :
    h.write r.buf r.off (h.read r) = h := by
  unfold Heap.write Heap.read
  cases hbuf : r.buf with
  | shared i =>
    simp only
    have hi : i < h.shared.length := by
      unfold Heap.size Mem.size at hb
      rw [hbuf] at hb
      apply Classical.byContradiction; intro hn
      simp [List.getD_eq_getElem?_getD, List.getElem?_eq_none (Nat.le_of_not_lt hn)] at hb
    rw [Mem.write_read_self _ _ _ _ hi]
  | priv i =>
    simp only
    have hi : i < h.priv.length := by
      unfold Heap.size Mem.size at hb
      rw [hbuf] at hb
      apply Classical.byContradiction; intro hn
      simp [List.getD_eq_getElem?_getD, List.getElem?_eq_none (Nat.le_of_not_lt hn)] at hb
    rw [Mem.write_read_self _ _ _ _ hi]

theorem Heap.has_of_size_pos (h : Heap) (b : Buf) (hb : 0 < h.size b) : h.has b := by
  cases b with
  | shared i =>
    unfold Heap.size Mem.size at hb
    unfold Heap.has
    apply Classical.byContradiction; intro hn
    simp [List.getD_eq_getElem?_getD, List.getElem?_eq_none (Nat.le_of_not_lt hn)] at hb
  | priv i =>
    unfold Heap.size Mem.size at hb
    unfold Heap.has
    apply Classical.byContradiction; intro hn
    simp [List.getD_eq_getElem?_getD, List.getElem?_eq_none (Nat.le_of_not_lt hn)] at hb

/-! ## slicing -/

theorem slice3_self (s : Slice) (h : s.len ≤ s.cap) : s.slice3 0 s.len s.len = .ok s.capToLen := by
  simp [Slice.slice3, Slice.capToLen, h]

theorem split_ok (data : Slice) (h e : Nat) (h1 : h ≤ e) (h2 : e ≤ data.cap) :
    split data h e =
      .ok (⟨data.buf, data.off, h, data.cap⟩, ⟨data.buf, data.off + h, e - h, data.cap - h⟩) := by
  have : h ≤ data.cap := Nat.le_trans h1 h2
  simp [split, Slice.slice, h1, h2, this]

/-! ## append -/

theorem goAppend_nop (x y : Slice) (slack : Nat) (h : Heap) (hy : y.len = 0) :
    (goAppend x y slack).run h = (x, h, []) := by
  simp [goAppend, hy]

theorem goAppend_inplace (x y : Slice) (slack : Nat) (h : Heap) (hy : y.len ≠ 0)
    (hc : x.len + y.len ≤ x.cap) :
    (goAppend x y slack).run h =
      ({ x with len := x.len + y.len }, h.write x.buf (x.off + x.len) (h.read y.region),
        [.read y.region, .write ⟨x.buf, x.off + x.len, (h.read y.region).length⟩]) := by
  simp [goAppend, hy, hc, Prog.run]

theorem goAppend_grow (x y : Slice) (slack : Nat) (h : Heap) (hy : y.len ≠ 0)
    (hc : ¬ x.len + y.len ≤ x.cap) :
    (goAppend x y slack).log h =
      [.alloc (.priv h.priv.length) (x.len + y.len + slack), .read x.region,
       .write ⟨.priv h.priv.length, 0, ((h.alloc (x.len + y.len + slack)).1.read x.region).length⟩,
       .read y.region,
       .write ⟨.priv h.priv.length, x.len,
         (((h.alloc (x.len + y.len + slack)).1.write (.priv h.priv.length) 0
            ((h.alloc (x.len + y.len + slack)).1.read x.region)).read y.region).length⟩] := by
  simp [goAppend, hy, hc]

/-- An append whose first operand has no spare capacity (or that adds nothing) never writes into
    shared memory: it allocates and fills a private buffer. -/
theorem RO_goAppend_capped (x y : Slice) (slack : Nat) (sh : Mem) (hx : x.cap = x.len) :
    RO (goAppend x y slack) sh := by
  unfold goAppend
  by_cases hy : y.len = 0
  · simp [hy]; exact RO_done _ _
  · have hc : ¬ x.len + y.len ≤ x.cap := by omega
    simp only [hy, hc, if_false]
    refine RO_alloc _ _ _ fun i => RO_read _ _ _ fun xs => RO_write_priv _ _ _ _ _ ?_
    exact RO_read _ _ _ fun ys => RO_write_priv _ _ _ _ _ (RO_done _ _)

theorem RO_concat_capped (c p : Slice) (slack : Nat) (sh : Mem) :
    RO (concat .capped c p slack) sh :=
  RO_goAppend_capped _ _ _ _ rfl

theorem RO_pseudoheader_false (n : NetView) (sh : Mem) : RO (pseudoheader false n) sh := by
  unfold pseudoheader
  refine RO_read _ _ _ fun hs => RO_read _ _ _ fun hd => ?_
  simp only [Bool.false_eq_true, if_false]
  exact RO_read _ _ _ fun s => RO_read _ _ _ fun d => RO_done _ _

/-- With a capped concatenation and a pseudo-header that does not store into the network layer,
    verification is read-only on shared memory. -/
theorem RO_verify (F : Facts) (L : LayerView) (slack : Nat) (sh : Mem)
    (h1 : F.appendDst = .capped) (h2 : F.ip4PseudoWrites = false) (h3 : F.ip6PseudoWrites = false) :
    RO (verify F L slack) sh := by
  unfold verify
  rw [h1]
  refine RO_bind _ _ _ (RO_concat_capped _ _ _ _) fun bytes => ?_
  by_cases hp : L.kind.usesPseudo = true
  · simp only [hp, if_true]
    cases hn : L.net with
    | none => exact RO_done _ _
    | some n =>
      have : F.pseudoWrites n.kind = false := by
        cases hk : n.kind <;> simp [Facts.pseudoWrites, h2, h3]
      simp only [this]
      exact RO_bind _ _ _ (RO_pseudoheader_false _ _) fun ps =>
        RO_read _ _ _ fun bs => RO_done _ _
  · simp only [hp]
    exact RO_read _ _ _ fun bs => RO_done _ _

theorem RO_verifyProg (F : VKind → Facts) (slack : Nat) (sh : Mem) (l : LayerObj)
    (hF : ∀ k, (F k).appendDst = .capped ∧ (F k).ip4PseudoWrites = false ∧ (F k).ip6PseudoWrites = false) :
    RO (l.verifyProg F slack) sh := by
  unfold LayerObj.verifyProg
  cases hv : l.verifiable with
  | some L => exact RO_verify _ _ _ _ (hF _).1 (hF _).2.1 (hF _).2.2
  | none =>
    simp only
    by_cases hp : l.plainChecksum = true
    · simp only [hp, if_true]; exact RO_bind _ _ _ (RO_readAll _ _) fun _ => RO_done _ _
    · simp only [hp]; exact RO_done _ _

theorem RO_verifyAll (F : VKind → Facts) (slack : Nat) (sh : Mem) (ls : List LayerObj)
    (hF : ∀ k, (F k).appendDst = .capped ∧ (F k).ip4PseudoWrites = false ∧ (F k).ip6PseudoWrites = false) :
    RO (verifyAll F slack ls) sh := by
  induction ls with
  | nil => exact RO_done _ _
  | cons l ls ih =>
    unfold verifyAll
    refine RO_bind _ _ _ (RO_verifyProg F slack sh l hF) fun r => ?_
    cases r with
    | none => exact RO_done _ _
    | some a => exact RO_bind _ _ _ ih fun _ => RO_done _ _

theorem RO_accessor (F : VKind → Facts) (slack : Nat) (sh : Mem) (p : PacketView) (a : Accessor)
    (hF : ∀ k, (F k).appendDst = .capped ∧ (F k).ip4PseudoWrites = false ∧ (F k).ip6PseudoWrites = false) :
    RO (accessor F slack p a) sh := by
  cases a <;> simp only [accessor] <;> (try exact RO_readAll _ _)
  all_goals
    first
    | (split <;> exact RO_readAll _ _)
    | (split
       · exact RO_bind _ _ _ (RO_readAll _ _) fun _ =>
           RO_bind _ _ _ (RO_verifyProg F slack sh _ hF) fun _ => RO_done _ _
       · exact RO_readAll _ _)
    | exact RO_bind _ _ _ (RO_readAll _ _) fun _ =>
        RO_bind _ _ _ (RO_verifyAll F slack sh _ hF) fun _ => RO_done _ _

theorem RO_reader (F : VKind → Facts) (slack : Nat) (sh : Mem) (p : PacketView) (as : List Accessor)
    (hF : ∀ k, (F k).appendDst = .capped ∧ (F k).ip4PseudoWrites = false ∧ (F k).ip6PseudoWrites = false) :
    RO (reader F slack p as) sh := by
  unfold reader
  apply RO_seq
  intro q hq
  obtain ⟨a, _, rfl⟩ := List.mem_map.1 hq
  exact RO_accessor F slack sh p a hF


/-! ## The code as written: effects of `append(l.Contents, l.Payload...)` inside the packet buffer -/

/-- Contents and Payload as cut by the decoders: adjacent in one buffer, Contents reaching at
    least to the end of Payload. -/
def Adjacent (c p : Slice) : Prop :=
  p.buf = c.buf ∧ p.off = c.off + c.len ∧ c.len + p.len ≤ c.cap

instance (c p : Slice) : Decidable (Adjacent c p) := by
  unfold Adjacent; exact inferInstance

theorem adjacent_of_split (data c p : Slice) (h e : Nat) (h1 : h ≤ e) (h2 : e ≤ data.cap)
    (hs : split data h e = .ok (c, p)) : Adjacent c p := by
  rw [split_ok data h e h1 h2] at hs
  cases hs
  exact ⟨rfl, rfl, by simp; omega⟩

/-- The plain append of an adjacent, non-empty payload: it loads the payload and stores it over
    itself; the heap's VALUES are unchanged. -/
theorem concat_plain_adjacent (c p : Slice) (slack : Nat) (h : Heap) (ha : Adjacent c p)
    (hp : p.len ≠ 0) (hb : p.region.inBounds h) :
    (concat .plain c p slack).run h =
      ({ c with len := c.len + p.len }, h, [.read p.region, .write p.region]) := by
  obtain ⟨hbuf, hoff, hcap⟩ := ha
  unfold concat
  rw [goAppend_inplace c p slack h hp hcap]
  have hlen := Heap.read_length h p.region hb
  have hpos : 0 < h.size p.region.buf := by
    unfold Region.inBounds at hb
    simp only [Slice.region] at hb ⊢
    omega
  have hw := Heap.write_read_self h p.region hpos
  simp only [Slice.region] at hw hlen ⊢
  rw [← hbuf, ← hoff, hw, hlen]

theorem pseudoheader_true_run (n : NetView) (h : Heap) (hs : 0 < h.size n.obj) :
    (pseudoheader true n).run h =
      ([h.read n.src, h.read n.dst], h,
        [.read n.hdrSrc, .read n.hdrDst, .write ⟨n.obj, 0, (h.read n.hdrSrc).length⟩,
         .write ⟨n.obj, 24, (h.read n.hdrDst).length⟩, .read n.src, .read n.dst]) := by
  have w1 : h.write n.obj 0 (h.read n.hdrSrc) = h := Heap.write_read_self h n.hdrSrc hs
  have w2 : h.write n.obj 24 (h.read n.hdrDst) = h := Heap.write_read_self h n.hdrDst hs
  simp [pseudoheader, Prog.run, w1, w2]

theorem pseudoheader_false_run (n : NetView) (h : Heap) :
    (pseudoheader false n).run h =
      ([h.read n.src, h.read n.dst], h,
        [.read n.hdrSrc, .read n.hdrDst, .read n.src, .read n.dst]) := by
  simp [pseudoheader, Prog.run]

/-- What the pseudo-header step of the code as written stores (IPv4: the two address fields). -/
def pseudoStores (L : LayerView) (h : Heap) : List Region :=
  if L.kind.usesPseudo then
    match L.net with
    | some n =>
      match n.kind with
      | .ip4 => [⟨n.obj, 0, (h.read n.hdrSrc).length⟩, ⟨n.obj, 24, (h.read n.hdrDst).length⟩]
      | .ip6 => []
    | none => []
  else []

theorem verify_asWritten_writes (L : LayerView) (slack : Nat) (h : Heap)
    (ha : Adjacent L.contents L.payload) (hp : L.payload.len ≠ 0)
    (hb : L.payload.region.inBounds h) (hn : ∀ n, L.net = some n → 0 < h.size n.obj) :
    writesOf ((verify asWritten L slack).log h) = L.payload.region :: pseudoStores L h ∧
      (verify asWritten L slack).final h = h := by
  have hc := concat_plain_adjacent L.contents L.payload slack h ha hp hb
  unfold verify pseudoStores
  simp only [asWritten]
  constructor
  · rw [Prog.log_bind]
    simp only [Prog.log, Prog.answer, Prog.final, hc, writesOf_append, writesOf]
    by_cases hu : L.kind.usesPseudo = true
    · simp only [hu, if_true]
      cases hnet : L.net with
      | none => simp [Prog.run, writesOf]
      | some n =>
        simp only
        cases hk : n.kind with
        | ip4 =>
          simp only [Facts.pseudoWrites]
          rw [Prog.run_bind, pseudoheader_true_run n h (hn n hnet)]
          simp [Prog.run, writesOf]
        | ip6 =>
          simp only [Facts.pseudoWrites]
          rw [Prog.run_bind, pseudoheader_false_run n h]
          simp [Prog.run, writesOf]
    · simp [hu, Prog.run, writesOf]
  · rw [Prog.final_bind]
    simp only [Prog.answer, Prog.final, hc]
    by_cases hu : L.kind.usesPseudo = true
    · simp only [hu, if_true]
      cases hnet : L.net with
      | none => simp [Prog.run]
      | some n =>
        simp only
        cases hk : n.kind with
        | ip4 =>
          simp only [Facts.pseudoWrites]
          rw [Prog.run_bind, pseudoheader_true_run n h (hn n hnet)]
          simp [Prog.run]
        | ip6 =>
          simp only [Facts.pseudoWrites]
          rw [Prog.run_bind, pseudoheader_false_run n h]
          simp [Prog.run]
    · simp [hu, Prog.run]

/-! ## NewPacket -/

theorem newPacketData_nocopy (input : Slice) (o : Opts) (blk : Buf) (h : Heap) (hn : o.noCopy = true) :
    (newPacketData input o blk).run h = (input, h, []) := by
  simp [newPacketData, hn]

theorem newPacketData_pool (input : Slice) (o : Opts) (blk : Buf) (h : Heap) (hn : o.noCopy = false)
    (hp : o.pool = true) (hl : input.len ≤ Gp.Gen.Effects.maximumMTU) :
    (newPacketData input o blk).run h =
      (⟨blk, 0, input.len, Gp.Gen.Effects.maximumMTU⟩, h.write blk 0 (h.read input.region),
        [.read input.region, .write ⟨blk, 0, (h.read input.region).length⟩]) := by
  simp [newPacketData, hn, hp, hl, Prog.run]

theorem newPacketData_copy (input : Slice) (o : Opts) (blk : Buf) (h : Heap) (hn : o.noCopy = false)
    (hp : ¬ (o.pool = true ∧ input.len ≤ Gp.Gen.Effects.maximumMTU)) :
    (newPacketData input o blk).run h =
      (⟨.priv h.priv.length, 0, input.len, input.len⟩,
        (h.alloc input.len).1.write (.priv h.priv.length) 0 ((h.alloc input.len).1.read input.region),
        [.alloc (.priv h.priv.length) input.len, .read input.region,
         .write ⟨.priv h.priv.length, 0, ((h.alloc input.len).1.read input.region).length⟩]) := by
  simp [newPacketData, hn, hp, Prog.run]

/-! ## The repair preserves the answers -/

theorem Mem.read_append_left (m : Mem) (x : Bytes) (i off len : Nat) (hi : i < m.length) :
    Mem.read (m ++ [x]) i off len = Mem.read m i off len := by
  unfold Mem.read
  simp [List.getD_eq_getElem?_getD, List.getElem?_append_left hi]

theorem Mem.read_append_last (m : Mem) (x : Bytes) (off len : Nat) :
    Mem.read (m ++ [x]) m.length off len = (x.drop off).take len := by
  unfold Mem.read
  simp [List.getD_eq_getElem?_getD]

theorem Mem.write_append_last (m : Mem) (x bs : Bytes) (off : Nat) :
    Mem.write (m ++ [x]) m.length off bs = m ++ [splice x off bs] := by
  unfold Mem.write
  simp [List.getD_eq_getElem?_getD]

theorem splice_zero (z xs : Bytes) : splice z 0 xs = xs ++ z.drop xs.length := by
  simp [splice]

theorem splice_after (xs d ys : Bytes) : splice (xs ++ d) xs.length ys = xs ++ ys ++ d.drop ys.length := by
  simp [splice, List.drop_append]

theorem take_two (xs ys rest : Bytes) : (xs ++ ys ++ rest).take (xs.length + ys.length) = xs ++ ys := by
  rw [← List.length_append, List.take_left']
  rfl

theorem Mem.read_add (m : Mem) (i off a b : Nat) :
    Mem.read m i off (a + b) = Mem.read m i off a ++ Mem.read m i (off + a) b := by
  unfold Mem.read
  rw [List.take_add, List.drop_drop]

theorem Heap.read_add (h : Heap) (b : Buf) (off n m : Nat) :
    h.read ⟨b, off, n + m⟩ = h.read ⟨b, off, n⟩ ++ h.read ⟨b, off + n, m⟩ := by
  unfold Heap.read
  cases b <;> simp [Mem.read_add]

/-- Reading an existing buffer is not affected by a new private buffer at the end. -/
theorem Heap.read_ext (sh pv : Mem) (x : Bytes) (r : Region) (hr : (Heap.mk sh pv).has r.buf) :
    (Heap.mk sh (pv ++ [x])).read r = (Heap.mk sh pv).read r := by
  unfold Heap.read
  cases hb : r.buf with
  | shared i => rfl
  | priv i =>
    rw [hb] at hr
    exact Mem.read_append_left pv x i _ _ hr

theorem goAppend_grow_run (x y : Slice) (slack : Nat) (h : Heap) (hy : y.len ≠ 0)
    (hc : ¬ x.len + y.len ≤ x.cap) :
    (goAppend x y slack).answer h = ⟨.priv h.priv.length, 0, x.len + y.len, x.len + y.len + slack⟩ ∧
    (goAppend x y slack).final h =
      (((h.alloc (x.len + y.len + slack)).1.write (.priv h.priv.length) 0
          ((h.alloc (x.len + y.len + slack)).1.read x.region)).write (.priv h.priv.length) x.len
        ((((h.alloc (x.len + y.len + slack)).1.write (.priv h.priv.length) 0
          ((h.alloc (x.len + y.len + slack)).1.read x.region))).read y.region)) := by
  simp [goAppend, hy, hc]

/-- The repaired concatenation: the result is a fresh private buffer holding Contents ++ Payload
    (++ slack zero bytes); nothing else changed. -/
theorem concat_capped_run (c p : Slice) (slack : Nat) (h : Heap) (hp : p.len ≠ 0)
    (hc : c.region.inBounds h) (hb : p.region.inBounds h) (hcb : h.has c.buf) (hpb : h.has p.buf) :
    (concat .capped c p slack).answer h = ⟨.priv h.priv.length, 0, c.len + p.len, c.len + p.len + slack⟩ ∧
    (concat .capped c p slack).final h =
      ⟨h.shared, h.priv ++ [h.read c.region ++ h.read p.region ++ List.replicate slack 0]⟩ := by
  have hx : ¬ c.capToLen.len + p.len ≤ c.capToLen.cap := by
    show ¬ c.len + p.len ≤ c.len
    omega
  have lc := Heap.read_length h c.region hc
  have lp := Heap.read_length h p.region hb
  obtain ⟨g1, g2⟩ := goAppend_grow_run c.capToLen p slack h hp hx
  unfold concat
  refine ⟨g1, ?_⟩
  rw [g2]
  obtain ⟨sh, pv⟩ := h
  have e1 : (Heap.mk sh (pv ++ [List.replicate (c.len + p.len + slack) 0])).read c.region = (Heap.mk sh pv).read c.region :=
    Heap.read_ext sh pv _ c.region hcb
  simp only [Heap.alloc, Slice.capToLen]
  have e0 : (⟨c.buf, c.off, c.len, c.len⟩ : Slice).region = c.region := rfl
  rw [e0, e1]
  simp only [Heap.write, Mem.write_append_last, splice_zero]
  have e2 : ∀ x, (Heap.mk sh (pv ++ [x])).read p.region = (Heap.mk sh pv).read p.region :=
    fun x => Heap.read_ext sh pv x p.region hpb
  rw [e2]
  have e3 : c.len = ((Heap.mk sh pv).read c.region).length := lc.symm
  conv => lhs; rw [e3]
  rw [splice_after]
  simp only [List.drop_replicate, lc, lp]
  have e4 : c.region.len + p.len + slack - c.region.len - p.region.len = slack := by
    show c.len + p.len + slack - c.len - p.len = slack
    omega
  rw [e4]


theorem pseudoheader_answer (b : Bool) (n : NetView) (g : Heap) (hs : 0 < g.size n.obj) :
    (pseudoheader b n).answer g = [g.read n.src, g.read n.dst] ∧ (pseudoheader b n).final g = g := by
  cases b with
  | true => simp [Prog.answer, Prog.final, pseudoheader_true_run n g hs]
  | false => simp [Prog.answer, Prog.final, pseudoheader_false_run n g]

theorem Heap.size_ext (sh pv : Mem) (x : Bytes) (b : Buf) (hb : (Heap.mk sh pv).has b) :
    (Heap.mk sh (pv ++ [x])).size b = (Heap.mk sh pv).size b := by
  cases b with
  | shared i => rfl
  | priv i =>
    simp only [Heap.size, Mem.size, List.getD_eq_getElem?_getD]
    rw [List.getElem?_append_left hb]

/-- The repair does not change what verification computes: on every layer cut out of the packet
    data the way the decoders do it, the repaired code and the code as found return the same
    answer. -/
theorem verify_fixed_same_answer' (L : LayerView) (slack : Nat) (h : Heap)
    (ha : Adjacent L.contents L.payload) (hp : L.payload.len ≠ 0)
    (hc : L.contents.region.inBounds h) (hb : L.payload.region.inBounds h)
    (hcb : h.has L.contents.buf)
    (hn : ∀ n, L.net = some n → 0 < h.size n.obj ∧ h.has n.src.buf ∧ h.has n.dst.buf) :
    (verify asFixed L slack).answer h = (verify asWritten L slack).answer h := by
  have hpb : h.has L.payload.buf := by rw [ha.1]; exact hcb
  have hw := concat_plain_adjacent L.contents L.payload slack h ha hp hb
  have hwa : (concat .plain L.contents L.payload slack).answer h = { L.contents with len := L.contents.len + L.payload.len } := by
    simp [Prog.answer, hw]
  have hwf : (concat .plain L.contents L.payload slack).final h = h := by simp [Prog.final, hw]
  obtain ⟨hfa, hff⟩ := concat_capped_run L.contents L.payload slack h hp hc hb hcb hpb
  have lc := Heap.read_length h L.contents.region hc
  have lp := Heap.read_length h L.payload.region hb
  -- the bytes both versions checksum
  have bw : h.read (⟨L.contents.buf, L.contents.off, L.contents.len + L.payload.len⟩ : Region) =
      h.read L.contents.region ++ h.read L.payload.region := by
    rw [Heap.read_add]
    have : (⟨L.contents.buf, L.contents.off + L.contents.len, L.payload.len⟩ : Region) = L.payload.region := by
      simp [Slice.region, ha.1, ha.2.1]
    rw [this]; rfl
  obtain ⟨sh, pv⟩ := h
  have bf : (Heap.mk sh (pv ++ [(Heap.mk sh pv).read L.contents.region ++ (Heap.mk sh pv).read L.payload.region ++ List.replicate slack 0])).read
      (⟨.priv pv.length, 0, L.contents.len + L.payload.len⟩ : Region) =
      (Heap.mk sh pv).read L.contents.region ++ (Heap.mk sh pv).read L.payload.region := by
    simp only [Heap.read, Mem.read_append_last, List.drop_zero]
    have := take_two ((Heap.mk sh pv).read L.contents.region) ((Heap.mk sh pv).read L.payload.region) (List.replicate slack 0)
    rw [lc, lp] at this
    exact this
  simp only [verify, asFixed, asWritten, Prog.answer_bind, hwa, hwf, hfa, hff]
  by_cases hu : L.kind.usesPseudo = true
  · simp only [hu, if_true]
    cases hnet : L.net with
    | none => rfl
    | some n =>
      obtain ⟨h1, h2, h3⟩ := hn n hnet
      simp only [Prog.answer_bind]
      have hsz : 0 < (Heap.mk sh (pv ++ [(Heap.mk sh pv).read L.contents.region ++ (Heap.mk sh pv).read L.payload.region ++ List.replicate slack 0])).size n.obj := by
        rw [Heap.size_ext sh pv _ n.obj (Heap.has_of_size_pos _ _ h1)]; exact h1
      obtain ⟨pa, pf⟩ := pseudoheader_answer (Facts.pseudoWrites ⟨.capped, false, false⟩ n.kind) n _ hsz
      obtain ⟨qa, qf⟩ := pseudoheader_answer (Facts.pseudoWrites ⟨.plain, true, false⟩ n.kind) n _ h1
      rw [pa, pf, qa, qf]
      simp only [Prog.answer_read, Prog.answer_done, Slice.region]
      rw [Heap.read_ext sh pv _ n.src h2, Heap.read_ext sh pv _ n.dst h3]
      simp only [Slice.region] at bf bw
      rw [bf, bw]
  · simp only [hu]
    simp only [Prog.answer_read, Prog.answer_done, Slice.region, Bool.false_eq_true, if_false]
    simp only [Slice.region] at bf bw
    rw [bf, bw]

/-! ## The modelled programs stay inside their buffers -/

/-- Every load and store of a log lies inside a buffer of the heap. -/
def LogInBounds (l : Log) (h : Heap) : Prop :=
  ∀ a ∈ l, ∀ r, a.touches = some r → r.inBounds h

theorem Heap.size_ext_last (sh pv : Mem) (x : Bytes) :
    (Heap.mk sh (pv ++ [x])).size (.priv pv.length) = x.length := by
  simp [Heap.size, Mem.size, List.getD_eq_getElem?_getD]

theorem inBounds_ext (sh pv : Mem) (x : Bytes) (r : Region) (hr : r.inBounds ⟨sh, pv⟩)
    (hb : (Heap.mk sh pv).has r.buf) : r.inBounds ⟨sh, pv ++ [x]⟩ := by
  unfold Region.inBounds at *
  rw [Heap.size_ext sh pv x r.buf hb]; exact hr

/-- The repaired verification never leaves its buffers: every access of its log is in bounds of the
    final heap (so the clipping of the model's total read/write functions is not exercised). -/
theorem verify_fixed_inBounds (L : LayerView) (slack : Nat) (h : Heap) (hp : L.payload.len ≠ 0)
    (hc : L.contents.region.inBounds h) (hb : L.payload.region.inBounds h)
    (hcb : h.has L.contents.buf) (hpb : h.has L.payload.buf)
    (hn : ∀ n, L.net = some n →
      (n.hdrSrc.inBounds h ∧ n.hdrDst.inBounds h ∧ n.src.inBounds h ∧ n.dst.inBounds h) ∧
      (h.has n.obj ∧ h.has n.src.buf ∧ h.has n.dst.buf)) :
    LogInBounds ((verify asFixed L slack).log h) ((verify asFixed L slack).final h) := by
  obtain ⟨hfa, hff⟩ := concat_capped_run L.contents L.payload slack h hp hc hb hcb hpb
  have lc := Heap.read_length h L.contents.region hc
  have lp := Heap.read_length h L.payload.region hb
  have hx : ¬ L.contents.capToLen.len + L.payload.len ≤ L.contents.capToLen.cap := by
    show ¬ L.contents.len + L.payload.len ≤ L.contents.len
    omega
  have hlog := goAppend_grow L.contents.capToLen L.payload slack h hp hx
  obtain ⟨sh, pv⟩ := h
  -- the final heap of every branch is the heap after the concatenation
  have hfin : (verify asFixed L slack).final ⟨sh, pv⟩ =
      ⟨sh, pv ++ [(Heap.mk sh pv).read L.contents.region ++ (Heap.mk sh pv).read L.payload.region ++ List.replicate slack 0]⟩ := by
    simp only [verify, asFixed, Prog.final_bind, hfa, hff]
    by_cases hu : L.kind.usesPseudo = true
    · simp only [hu, if_true]
      cases hnet : L.net with
      | none => rfl
      | some n =>
        simp only [Prog.final_bind, Facts.pseudoWrites]
        cases n.kind <;> simp [Prog.final, pseudoheader_false_run, Prog.run]
    · simp [hu]
  rw [hfin]
  have hxlen : ((Heap.mk sh pv).read L.contents.region ++ (Heap.mk sh pv).read L.payload.region ++ List.replicate slack 0).length
      = L.contents.len + L.payload.len + slack := by
    simp only [List.length_append, List.length_replicate, lc, lp]; rfl
  generalize (Heap.mk sh pv).read L.contents.region ++ (Heap.mk sh pv).read L.payload.region ++ List.replicate slack 0 = x at hxlen ⊢
  have hfresh : ∀ off len, off + len ≤ L.contents.len + L.payload.len + slack →
      (⟨.priv pv.length, off, len⟩ : Region).inBounds ⟨sh, pv ++ [x]⟩ := by
    intro off len hle
    unfold Region.inBounds
    rw [Heap.size_ext_last, hxlen]; exact hle
  have hcI : L.contents.region.inBounds ⟨sh, pv ++ [x]⟩ := inBounds_ext sh pv x _ hc hcb
  have hpI : L.payload.region.inBounds ⟨sh, pv ++ [x]⟩ := inBounds_ext sh pv x _ hb hpb
  -- log = concat log ++ rest
  intro a ha r hr
  simp only [verify, asFixed, Prog.log_bind, hfa, hff] at ha
  rcases List.mem_append.1 ha with ha | ha
  · -- the concatenation
    simp only [concat] at ha
    rw [hlog] at ha
    have e1 : (Heap.mk sh (pv ++ [List.replicate (L.contents.len + L.payload.len + slack) 0])).read L.contents.region = (Heap.mk sh pv).read L.contents.region :=
      Heap.read_ext sh pv _ _ hcb
    simp only [List.mem_cons, List.not_mem_nil, or_false] at ha
    rcases ha with rfl | rfl | rfl | rfl | rfl
    · simp [Access.touches] at hr
    · simp only [Access.touches, Option.some.injEq] at hr; subst hr; exact hcI
    · simp only [Access.touches, Option.some.injEq] at hr; subst hr
      apply hfresh
      simp only [Heap.alloc, Slice.capToLen]
      have : (⟨L.contents.buf, L.contents.off, L.contents.len, L.contents.len⟩ : Slice).region = L.contents.region := rfl
      rw [this, e1, lc]; simp [Slice.region]; omega
    · simp only [Access.touches, Option.some.injEq] at hr; subst hr; exact hpI
    · simp only [Access.touches, Option.some.injEq] at hr; subst hr
      apply hfresh
      have hl : ∀ g : Heap, (g.read L.payload.region).length ≤ L.payload.len := by
        intro g
        unfold Heap.read Mem.read
        cases L.payload.region.buf <;> simp [Slice.region, List.length_take] <;> omega
      have := hl (((Heap.mk sh pv).alloc (L.contents.capToLen.len + L.payload.len + slack)).1.write (.priv pv.length) 0
        (((Heap.mk sh pv).alloc (L.contents.capToLen.len + L.payload.len + slack)).1.read L.contents.capToLen.region))
      simp only [Slice.capToLen] at this ⊢
      omega
  · -- pseudo-header loads and the final load of the concatenation
    by_cases hu : L.kind.usesPseudo = true
    · simp only [hu, if_true] at ha
      cases hnet : L.net with
      | none => simp [hnet] at ha
      | some n =>
        obtain ⟨⟨b1, b2, b3, b4⟩, ⟨o1, o2, o3⟩⟩ := hn n hnet
        simp only [hnet, Prog.log_bind] at ha
        have hps : ∀ g, (pseudoheader false n).log g = [.read n.hdrSrc, .read n.hdrDst, .read n.src, .read n.dst] := by
          intro g; simp [Prog.log, pseudoheader_false_run]
        have hpf : ∀ g, (pseudoheader false n).final g = g := by
          intro g; simp [Prog.final, pseudoheader_false_run]
        have hkind : Facts.pseudoWrites ⟨.capped, false, false⟩ n.kind = false := by cases n.kind <;> rfl
        simp only [hkind, hps, hpf] at ha
        simp only [Prog.log_read, Prog.log_done, List.mem_append, List.mem_cons, List.not_mem_nil, or_false] at ha
        rcases ha with (rfl | rfl | rfl | rfl) | rfl
        · simp only [Access.touches, Option.some.injEq] at hr; subst hr
          exact inBounds_ext sh pv x _ b1 o1
        · simp only [Access.touches, Option.some.injEq] at hr; subst hr
          exact inBounds_ext sh pv x _ b2 o1
        · simp only [Access.touches, Option.some.injEq] at hr; subst hr
          exact inBounds_ext sh pv x _ b3 o2
        · simp only [Access.touches, Option.some.injEq] at hr; subst hr
          exact inBounds_ext sh pv x _ b4 o3
        · simp only [Access.touches, Option.some.injEq] at hr; subst hr
          apply hfresh; simp
    · simp only [hu] at ha
      simp only [Bool.false_eq_true, if_false, Prog.log_read, Prog.log_done, List.mem_cons, List.not_mem_nil, or_false] at ha
      subst ha
      simp only [Access.touches, Option.some.injEq] at hr; subst hr
      apply hfresh; simp

end Gp.Effects
