/-
  Pool level: a per-stream invariant indexed by the items delivered so far to that stream is lifted
  to whole histories of the assembler (any number of connections, any interleaving of Assemble /
  Flush* / FlushAll, connections closing and re-opening under fresh stream ids).
-/
import Gp.Model.AsmSpec
import Gp.Lemmas.AsmPool

namespace Gp.Asm

/-! ### the association list `StreamPool.conns` -/

def KeysSorted (cs : List (Nat × Conn)) : Prop := cs.Pairwise (fun a b => a.1 < b.1)

theorem lookup_upsert (k k0 : Nat) (c : Conn) (cs : List (Nat × Conn)) :
    lookup k (upsert k0 c cs) = if k = k0 then some c else lookup k cs := by
  induction cs with
  | nil => simp [upsert, lookup]
  | cons x cs ih =>
    obtain ⟨k', c'⟩ := x
    simp only [upsert]
    split
    · rename_i e
      simp only [lookup]
      by_cases h : k = k0
      · simp [h]
      · have : ¬ k = k' := by rw [← e]; exact h
        simp [h, this]
    · split
      · simp only [lookup]
      · simp only [lookup, ih]
        by_cases h : k = k'
        · have : ¬ k' = k0 := by rename_i h1 _; intro e; apply h1; rw [e]
          subst h
          simp [this]
        · simp [h]

theorem mem_upsert_key {k : Nat} {c : Conn} {cs : List (Nat × Conn)} {x : Nat × Conn}
    (h : x ∈ upsert k c cs) : x.1 = k ∨ x ∈ cs := by
  rcases mem_upsert h with h | h
  · left; rw [h]
  · right; exact h

theorem sorted_upsert (k : Nat) (c : Conn) (cs : List (Nat × Conn)) (h : KeysSorted cs) :
    KeysSorted (upsert k c cs) := by
  induction cs with
  | nil => simp [upsert, KeysSorted]
  | cons x cs ih =>
    obtain ⟨k', c'⟩ := x
    unfold KeysSorted at h ⊢
    rw [List.pairwise_cons] at h
    simp only [upsert]
    split
    · rename_i e
      rw [List.pairwise_cons]
      exact ⟨fun a ha => by rw [e]; exact h.1 a ha, h.2⟩
    · split
      · rename_i hlt
        rw [List.pairwise_cons, List.pairwise_cons]
        refine ⟨?_, h⟩
        intro a ha
        rcases List.mem_cons.1 ha with ha | ha
        · rw [ha]; exact hlt
        · exact Nat.lt_trans hlt (h.1 a ha)
      · rename_i hne hnlt
        rw [List.pairwise_cons]
        refine ⟨?_, ih h.2⟩
        intro a ha
        rcases mem_upsert_key ha with ha | ha
        · rw [ha]; omega
        · exact h.1 a ha

theorem sorted_remove (k : Nat) (cs : List (Nat × Conn)) (h : KeysSorted cs) :
    KeysSorted (remove k cs) := by
  induction cs with
  | nil => simp [remove, KeysSorted]
  | cons x cs ih =>
    obtain ⟨k', c'⟩ := x
    unfold KeysSorted at h ⊢
    rw [List.pairwise_cons] at h
    simp only [remove]
    split
    · exact h.2
    · rw [List.pairwise_cons]
      exact ⟨fun a ha => h.1 a (mem_remove ha), ih h.2⟩

theorem lookup_none_of_lt (k : Nat) (cs : List (Nat × Conn)) (h : ∀ a ∈ cs, k < a.1) :
    lookup k cs = none := by
  induction cs with
  | nil => rfl
  | cons x cs ih =>
    obtain ⟨k', c'⟩ := x
    simp only [lookup]
    have := h (k', c') List.mem_cons_self
    rw [if_neg (by simp at this; omega)]
    exact ih (fun a ha => h a (List.mem_cons_of_mem _ ha))

theorem lookup_remove (k k0 : Nat) (cs : List (Nat × Conn)) (h : KeysSorted cs) :
    lookup k (remove k0 cs) = if k = k0 then none else lookup k cs := by
  induction cs with
  | nil => simp [remove, lookup]
  | cons x cs ih =>
    obtain ⟨k', c'⟩ := x
    unfold KeysSorted at h
    rw [List.pairwise_cons] at h
    simp only [remove]
    split
    · rename_i e
      by_cases hk : k = k0
      · rw [if_pos hk, hk, e]
        exact lookup_none_of_lt k' cs h.1
      · rw [if_neg hk]
        simp only [lookup]
        rw [if_neg (by rw [← e]; exact hk)]
    · rename_i hne
      simp only [lookup]
      rw [ih h.2]
      by_cases hk' : k = k'
      · have : ¬ k' = k0 := by intro e; apply hne; rw [e]
        subst hk'
        simp [this]
      · simp [hk']

theorem lookup_of_mem (k : Nat) (c : Conn) (cs : List (Nat × Conn)) (h : KeysSorted cs)
    (hm : (k, c) ∈ cs) : lookup k cs = some c := by
  induction cs with
  | nil => simp at hm
  | cons x cs ih =>
    obtain ⟨k', c'⟩ := x
    unfold KeysSorted at h
    rw [List.pairwise_cons] at h
    simp only [lookup]
    rcases List.mem_cons.1 hm with hm | hm
    · cases hm; simp
    · have := h.1 (k, c) hm
      rw [if_neg (by simp at this; omega)]
      exact ih h.2 hm

/-! ### items of one stream in an event log -/

theorem itemsOf_append (k sid : Nat) (l1 l2 : List Ev) :
    itemsOf k sid (l1 ++ l2) = itemsOf k sid l1 ++ itemsOf k sid l2 := by
  induction l1 with
  | nil => rfl
  | cons e l1 ih =>
    cases e with
    | new a b => simpa [itemsOf] using ih
    | complete a b => simpa [itemsOf] using ih
    | data a b items =>
      simp only [List.cons_append, itemsOf]
      split
      · rw [ih, List.append_assoc]
      · exact ih

theorem itemsOf_data_map (k sid k' sid' : Nat) (calls : List (List Reasm)) :
    itemsOf k sid (calls.map (Ev.data k' sid')) = if k' = k ∧ sid' = sid then calls.flatten else [] := by
  induction calls with
  | nil => simp [itemsOf]
  | cons x xs ih =>
    simp only [List.map_cons, itemsOf, ih]
    by_cases h : k' = k ∧ sid' = sid
    · simp [h]
    · simp [h]

theorem itemsOf_evsOf (k sid k' : Nat) (st : Step) :
    itemsOf k sid (evsOf k' st) = if k' = k ∧ st.conn.sid = sid then st.calls.flatten else [] := by
  unfold evsOf
  rw [itemsOf_append, itemsOf_data_map]
  have : itemsOf k sid (if st.closed then [Ev.complete k' st.conn.sid] else []) = [] := by
    split <;> simp [itemsOf]
  rw [this, List.append_nil]

/-! ### per-stream invariants lifted to histories -/

/-- `R k c items`: invariant of the live connection `c` of key `k` whose stream has received `items`;
    `D k items`: what then holds of the items of ANY stream of key `k`, live or completed. -/
structure StreamInv (A : SeqArith) (R : Nat → Conn → List Reasm → Prop)
    (D : Nat → List Reasm → Prop) (Pre : Seg → Prop) : Prop where
  dead : ∀ k c items, R k c items → D k items
  nil : ∀ k, D k []
  fresh : ∀ k ts sid, R k ⟨invalidSeq, [], 0, ts, sid⟩ []
  asm : ∀ L c used s items, R s.key c items → Pre s →
    ∃ st, assembleConn A L c used s = .ok st ∧ R s.key st.conn (items ++ st.calls.flatten)
  flush : ∀ k T ca c used items, R k c items →
    R k (flushConn A T ca c used).1.conn (items ++ (flushConn A T ca c used).1.calls.flatten)
  flushAll : ∀ k c used items, R k c items →
    R k (flushAllConn A c used).conn (items ++ (flushAllConn A c used).calls.flatten)

structure LogInv (R : Nat → Conn → List Reasm → Prop) (D : Nat → List Reasm → Prop)
    (P : Pool) (log : List Ev) : Prop where
  sorted : KeysSorted P.conns
  live : ∀ k c, lookup k P.conns = some c → c.sid < P.nextSid ∧ R k c (itemsOf k c.sid log)
  all : ∀ k sid, D k (itemsOf k sid log)
  unused : ∀ k sid, P.nextSid ≤ sid → itemsOf k sid log = []

theorem lookup_putBack_ne (P : Pool) (k k' : Nat) (st : Step) (hs : KeysSorted P.conns) (hne : k' ≠ k) :
    lookup k' (putBack P k st).conns = lookup k' P.conns := by
  unfold putBack
  split
  · show lookup k' (remove k P.conns) = _
    rw [lookup_remove k' k _ hs, if_neg hne]
  · show lookup k' (upsert k st.conn P.conns) = _
    rw [lookup_upsert, if_neg hne]

theorem lookup_putBack_self (P : Pool) (k : Nat) (st : Step) (hs : KeysSorted P.conns) :
    lookup k (putBack P k st).conns = if st.closed then none else some st.conn := by
  unfold putBack
  split
  · show lookup k (remove k P.conns) = _
    rw [lookup_remove k k _ hs]; simp
  · show lookup k (upsert k st.conn P.conns) = _
    rw [lookup_upsert]; simp

theorem putBack_nextSid (P : Pool) (k : Nat) (st : Step) : (putBack P k st).nextSid = P.nextSid := by
  unfold putBack; split <;> rfl

theorem putBack_lim (P : Pool) (k : Nat) (st : Step) : (putBack P k st).lim = P.lim := by
  unfold putBack; split <;> rfl

/-- writing back the result of a step of the stream `(k, sid)` -/
theorem putBack_logInv {R : Nat → Conn → List Reasm → Prop} {D : Nat → List Reasm → Prop}
    (hdead : ∀ k c items, R k c items → D k items)
    (P : Pool) (log : List Ev) (k sid : Nat) (st : Step) (h : LogInv R D P log)
    (hsid : st.conn.sid = sid) (hlt : sid < P.nextSid)
    (hR : R k st.conn (itemsOf k sid log ++ st.calls.flatten)) :
    LogInv R D (putBack P k st) (log ++ evsOf k st) := by
  have hitems : ∀ k' sid', itemsOf k' sid' (log ++ evsOf k st) =
      itemsOf k' sid' log ++ (if k = k' ∧ st.conn.sid = sid' then st.calls.flatten else []) := by
    intro k' sid'; rw [itemsOf_append, itemsOf_evsOf]
  refine ⟨?_, ?_, ?_, ?_⟩
  · unfold putBack
    split
    · exact sorted_remove _ _ h.sorted
    · exact sorted_upsert _ _ _ h.sorted
  · intro k' c' hl
    rw [putBack_nextSid]
    by_cases hk : k' = k
    · subst hk
      unfold putBack at hl
      split at hl
      · have : lookup k' (remove k' P.conns) = none := by rw [lookup_remove _ _ _ h.sorted]; simp
        rw [show ({ P with conns := remove k' P.conns, used := st.used } : Pool).conns = remove k' P.conns from rfl, this] at hl
        cases hl
      · rw [show ({ P with conns := upsert k' st.conn P.conns, used := st.used } : Pool).conns
            = upsert k' st.conn P.conns from rfl, lookup_upsert] at hl
        simp only [if_true] at hl
        cases hl
        rw [hsid]
        refine ⟨hlt, ?_⟩
        rw [hitems, if_pos ⟨rfl, hsid⟩]
        exact hR
    · rw [lookup_putBack_ne P k k' st h.sorted hk] at hl
      obtain ⟨a1, a2⟩ := h.live k' c' hl
      refine ⟨a1, ?_⟩
      rw [hitems, if_neg (fun hh => hk hh.1.symm), List.append_nil]
      exact a2
  · intro k' sid'
    rw [hitems]
    by_cases hc : k = k' ∧ st.conn.sid = sid'
    · rw [if_pos hc]
      obtain ⟨e1, e2⟩ := hc
      subst e1
      rw [← e2, hsid]
      exact hdead _ _ _ hR
    · rw [if_neg hc, List.append_nil]
      exact h.all k' sid'
  · intro k' sid' hle
    rw [putBack_nextSid] at hle
    rw [hitems, h.unused k' sid' hle, if_neg (by intro hh; rw [hsid] at hh; omega)]
    rfl

theorem assemble_logInv {A : SeqArith} {R : Nat → Conn → List Reasm → Prop}
    {D : Nat → List Reasm → Prop} {Pre : Seg → Prop} (hI : StreamInv A R D Pre)
    (P : Pool) (log : List Ev) (s : Seg) (h : LogInv R D P log) (hs : Pre s) :
    ∃ x, assemble A P s = .ok x ∧ LogInv R D x.1 (log ++ x.2) := by
  unfold assemble
  split
  · exact ⟨_, rfl, by simpa using h⟩
  · split
    · rename_i c hl
      obtain ⟨a1, a2⟩ := h.live _ _ hl
      obtain ⟨st, hst, hR⟩ := hI.asm P.lim c P.used s _ a2 hs
      rw [hst]
      refine ⟨_, rfl, ?_⟩
      exact putBack_logInv hI.dead P log s.key c.sid st h (assembleConn_sid A _ _ _ _ _ hst) a1 hR
    · split
      · exact ⟨_, rfl, by simpa using h⟩
      · dsimp only
        have hP1 : LogInv R D (newConn P s.ts).2 (log ++ [Ev.new s.key P.nextSid]) := by
          have hit : ∀ k sid, itemsOf k sid (log ++ [Ev.new s.key P.nextSid]) = itemsOf k sid log := by
            intro k sid; rw [itemsOf_append]; simp [itemsOf]
          refine ⟨h.sorted, ?_, ?_, ?_⟩
          · intro k c hl
            obtain ⟨a1, a2⟩ := h.live k c hl
            refine ⟨Nat.lt_succ_of_lt a1, ?_⟩
            rw [hit]; exact a2
          · intro k sid; rw [hit]; exact h.all k sid
          · intro k sid hle
            rw [hit]
            exact h.unused k sid (Nat.le_of_succ_le hle)
        have hR0 : R s.key (newConn P s.ts).1 (itemsOf s.key P.nextSid (log ++ [Ev.new s.key P.nextSid])) := by
          rw [itemsOf_append, h.unused s.key P.nextSid (Nat.le_refl _)]
          simp only [itemsOf, List.append_nil]
          exact hI.fresh _ _ _
        obtain ⟨st, hst, hR⟩ := hI.asm (newConn P s.ts).2.lim (newConn P s.ts).1 (newConn P s.ts).2.used s _ hR0 hs
        rw [hst]
        refine ⟨_, rfl, ?_⟩
        have := putBack_logInv hI.dead (newConn P s.ts).2 _ s.key P.nextSid st hP1
          (assembleConn_sid A _ _ _ _ _ hst) (Nat.lt_succ_self _) hR
        have hsid0 : (newConn P s.ts).1.sid = P.nextSid := rfl
        rw [hsid0]
        simpa [List.append_assoc] using this

theorem flushWithList_logInv {A : SeqArith} {R : Nat → Conn → List Reasm → Prop}
    {D : Nat → List Reasm → Prop} {Pre : Seg → Prop} (hI : StreamInv A R D Pre)
    (T : Int) (ca : Bool) (log : List Ev) (cs : List (Nat × Conn)) (acc : FlushRes)
    (hcs : KeysSorted cs) (hin : ∀ k c, (k, c) ∈ cs → lookup k acc.pool.conns = some c)
    (h : LogInv R D acc.pool (log ++ acc.evs)) :
    LogInv R D (flushWithList A T ca cs acc).pool (log ++ (flushWithList A T ca cs acc).evs) := by
  induction cs generalizing acc with
  | nil => exact h
  | cons x cs ih =>
    obtain ⟨k, c⟩ := x
    unfold KeysSorted at hcs
    rw [List.pairwise_cons] at hcs
    simp only [flushWithList]
    apply ih _ hcs.2
    · intro k' c' hm
      have hlt := hcs.1 (k', c') hm
      have hne : k' ≠ k := by simp at hlt; omega
      show lookup k' (putBack acc.pool k _).conns = some c'
      rw [lookup_putBack_ne _ _ _ _ h.sorted hne]
      exact hin k' c' (List.mem_cons_of_mem _ hm)
    · obtain ⟨a1, a2⟩ := h.live k c (hin k c List.mem_cons_self)
      have := putBack_logInv hI.dead acc.pool (log ++ acc.evs) k c.sid
        (flushConn A T ca c acc.pool.used).1 h (flushConn_sid A T ca c _) a1 (hI.flush k T ca c _ _ a2)
      simpa [List.append_assoc] using this

theorem flushAllList_logInv {A : SeqArith} {R : Nat → Conn → List Reasm → Prop}
    {D : Nat → List Reasm → Prop} {Pre : Seg → Prop} (hI : StreamInv A R D Pre)
    (log : List Ev) (cs : List (Nat × Conn)) (acc : FlushRes)
    (hcs : KeysSorted cs) (hin : ∀ k c, (k, c) ∈ cs → lookup k acc.pool.conns = some c)
    (h : LogInv R D acc.pool (log ++ acc.evs)) :
    LogInv R D (flushAllList A cs acc).pool (log ++ (flushAllList A cs acc).evs) := by
  induction cs generalizing acc with
  | nil => exact h
  | cons x cs ih =>
    obtain ⟨k, c⟩ := x
    unfold KeysSorted at hcs
    rw [List.pairwise_cons] at hcs
    simp only [flushAllList]
    apply ih _ hcs.2
    · intro k' c' hm
      have hlt := hcs.1 (k', c') hm
      have hne : k' ≠ k := by simp at hlt; omega
      show lookup k' (putBack acc.pool k _).conns = some c'
      rw [lookup_putBack_ne _ _ _ _ h.sorted hne]
      exact hin k' c' (List.mem_cons_of_mem _ hm)
    · obtain ⟨a1, a2⟩ := h.live k c (hin k c List.mem_cons_self)
      have := putBack_logInv hI.dead acc.pool (log ++ acc.evs) k c.sid
        (flushAllConn A c acc.pool.used) h (flushAllConn_sid A c _) a1 (hI.flushAll k c _ _ a2)
      simpa [List.append_assoc] using this

theorem step_logInv {A : SeqArith} {R : Nat → Conn → List Reasm → Prop}
    {D : Nat → List Reasm → Prop} {Pre : Seg → Prop} (hI : StreamInv A R D Pre)
    (P : Pool) (log : List Ev) (op : Op) (h : LogInv R D P log) (hop : OpPre Pre op) :
    ∃ x, step A P op = .ok x ∧ LogInv R D x.1 (log ++ x.2.evs) := by
  cases op with
  | opt a b =>
    refine ⟨_, rfl, ?_⟩
    show LogInv R D { P with lim := ⟨a, b⟩ } (log ++ [])
    rw [List.append_nil]
    exact ⟨h.sorted, h.live, h.all, h.unused⟩
  | seg s =>
    obtain ⟨x, hx, hq⟩ := assemble_logInv hI P log s h hop
    simp only [step, hx]
    exact ⟨_, rfl, hq⟩
  | flush T ca =>
    refine ⟨_, rfl, ?_⟩
    exact flushWithList_logInv hI T ca log P.conns _ h.sorted
      (fun k c hm => lookup_of_mem k c _ h.sorted hm) (by simpa using h)
  | flushAll =>
    refine ⟨_, rfl, ?_⟩
    exact flushAllList_logInv hI log P.conns _ h.sorted
      (fun k c hm => lookup_of_mem k c _ h.sorted hm) (by simpa using h)

theorem allEvs_cons (o : OpOut) (outs : List OpOut) : allEvs (o :: outs) = o.evs ++ allEvs outs := by
  simp [allEvs]

theorem run_logInv {A : SeqArith} {R : Nat → Conn → List Reasm → Prop}
    {D : Nat → List Reasm → Prop} {Pre : Seg → Prop} (hI : StreamInv A R D Pre)
    (P : Pool) (log : List Ev) (ops : List Op) (h : LogInv R D P log)
    (hops : ∀ op ∈ ops, OpPre Pre op) :
    ∃ x, run A P ops = .ok x ∧ LogInv R D x.1 (log ++ allEvs x.2) := by
  induction ops generalizing P log with
  | nil => exact ⟨_, rfl, by simpa [allEvs] using h⟩
  | cons op ops ih =>
    obtain ⟨x, hx, hq⟩ := step_logInv hI P log op h (hops op List.mem_cons_self)
    obtain ⟨y, hy, hq'⟩ := ih x.1 _ hq (fun o ho => hops o (List.mem_cons_of_mem _ ho))
    simp only [run, hx, hy]
    refine ⟨_, rfl, ?_⟩
    rw [allEvs_cons, ← List.append_assoc]
    exact hq'

theorem logInv_init {R : Nat → Conn → List Reasm → Prop} {D : Nat → List Reasm → Prop}
    (hnil : ∀ k, D k []) : LogInv R D {} [] :=
  ⟨by simp [KeysSorted], by intro k c h; simp [lookup] at h, fun k _ => hnil k, fun _ _ _ => rfl⟩

end Gp.Asm
