import Gp.Lemmas.ReasmInv
/-
  Layer B of C09: the loop of `checkOverlap` (six cases) keeps the queue sorted, disjoint and
  consistent with the sender stream, and separates it from the new packet.
-/
set_option linter.unusedSimpArgs false
namespace Gp.Reasm
open Gp

/-- What `ovLoop` guarantees (offset space).  `bytes0` = the packet's bytes, first byte at `start`. -/
structure OvPost (S : List UInt8) (b start : Int) (bytes0 : List UInt8) (rev back : List Page) (bytes : List UInt8)
    (dropped : Nat) (r : Ov) : Prop where
  sorted : Sorted (r.front ++ r.back)
  ok : ∀ p ∈ r.front ++ r.back, PageOK S b p
  hbytes : r.bytes = bytes0 ∨ r.bytes = []
  sep : bytes0 ≠ [] → r.bytes = bytes0 →
        (∀ p ∈ r.front, pend p ≤ start) ∧ (∀ q ∈ r.back, start + bytes0.length ≤ q.seq)
  lower : ∀ L : Int, (∀ p ∈ rev, L < p.seq) → (∀ p ∈ back, L < p.seq) → ∀ p ∈ r.front ++ r.back, L < p.seq
  keep : (∀ p ∈ rev, start < p.seq) → bytes = bytes0 → r.bytes = bytes0
  count : r.dropped + r.front.length + r.back.length = dropped + rev.length + back.length

theorem OvPost.shift {S b start bytes0 cur cur' rest back bytes bytes' dropped r}
    (h : OvPost S b start bytes0 rest (cur' :: back) bytes' dropped r) (hs : cur.seq ≤ cur'.seq)
    (hb : (start < cur.seq → bytes = bytes0 → bytes' = bytes0)) :
    OvPost S b start bytes0 (cur :: rest) back bytes dropped r where
  sorted := h.sorted
  ok := h.ok
  hbytes := h.hbytes
  sep := h.sep
  lower := by
    intro L h1 h2
    refine h.lower L (fun p hp => h1 p (List.mem_cons_of_mem _ hp)) ?_
    intro p hp
    rcases List.mem_cons.mp hp with rfl | hp
    · have := h1 cur (List.mem_cons_self ..); omega
    · exact h2 p hp
  keep := by
    intro h1 h2
    exact h.keep (fun p hp => h1 p (List.mem_cons_of_mem _ hp)) (hb (h1 cur (List.mem_cons_self ..)) h2)
  count := by have := h.count; simp only [List.length_cons] at this ⊢; omega

theorem OvPost.dropCur {S b start bytes0 cur rest back bytes dropped r}
    (h : OvPost S b start bytes0 rest back bytes (dropped + 1) r) :
    OvPost S b start bytes0 (cur :: rest) back bytes dropped r where
  sorted := h.sorted
  ok := h.ok
  hbytes := h.hbytes
  sep := h.sep
  lower := fun L h1 h2 => h.lower L (fun p hp => h1 p (List.mem_cons_of_mem _ hp)) h2
  keep := fun h1 h2 => h.keep (fun p hp => h1 p (List.mem_cons_of_mem _ hp)) h2
  count := by have := h.count; simp only [List.length_cons] at this ⊢; omega

theorem sorted_rev_append {rev back : List Page}
    (h1 : rev.Pairwise (fun p q => pend q ≤ p.seq)) (h2 : Sorted back)
    (h3 : ∀ p ∈ rev, ∀ q ∈ back, pend p ≤ q.seq) : Sorted (rev.reverse ++ back) := by
  unfold Sorted
  rw [List.pairwise_append]
  refine ⟨List.pairwise_reverse.mpr h1, h2, ?_⟩
  intro p hp q hq
  exact h3 p (List.mem_reverse.mp hp) q hq

theorem ovLoop_spec (S : List UInt8) (b start : Int) (bytes0 : List UInt8) (hAt : At S b start bytes0) :
    ∀ (rev back : List Page) (bytes : List UInt8) (dropped : Nat),
      (bytes = bytes0 ∨ bytes = []) →
      rev.Pairwise (fun p q => pend q ≤ p.seq) → Sorted back →
      (∀ p ∈ rev, ∀ q ∈ back, pend p ≤ q.seq) →
      (∀ p ∈ rev, PageOK S b p) → (∀ p ∈ back, PageOK S b p) →
      (bytes0 ≠ [] → bytes = bytes0 → ∀ q ∈ back, start + bytes0.length ≤ q.seq) →
      Res.Ok (ovLoop I start (start + bytes0.length) bytes rev back dropped)
        (OvPost S b start bytes0 rev back bytes dropped) := by
  intro rev
  induction rev with
  | nil =>
    intro back bytes dropped hb _ hsb _ _ hokb hsep
    refine ⟨_, rfl, ?_⟩
    exact { sorted := by simpa using hsb, ok := by simpa using hokb, hbytes := hb,
            sep := fun h0 h1 => ⟨by simp, hsep h0 h1⟩, lower := fun L _ h2 => by simpa using h2,
            keep := fun _ h => h, count := by simp }
  | cons cur rest ih =>
    intro back bytes dropped hb hrev hsb hcross hokr hokb hsep
    obtain ⟨hcAt, hcne⟩ := hokr cur (List.mem_cons_self ..)
    have hlen : 0 < cur.bytes.length := List.length_pos_iff.mpr hcne
    have hcl := hcAt.len
    have hrevc := List.pairwise_cons.mp hrev
    have hrest : ∀ q ∈ rest, pend q ≤ cur.seq := hrevc.1
    have hokrest : ∀ p ∈ rest, PageOK S b p := fun p hp => hokr p (List.mem_cons_of_mem _ hp)
    have hcrossr : ∀ p ∈ rest, ∀ q ∈ back, pend p ≤ q.seq := fun p hp => hcross p (List.mem_cons_of_mem _ hp)
    have hcb : ∀ q ∈ back, pend cur ≤ q.seq := hcross cur (List.mem_cons_self ..)
    -- pushing a page `c'` (a trimmed or untouched `cur`) behind the new packet
    have push : ∀ (c' : Page) (bytes' : List UInt8), (bytes' = bytes0 ∨ bytes' = []) →
        cur.seq ≤ c'.seq → pend c' = pend cur → PageOK S b c' →
        (bytes0 ≠ [] → bytes' = bytes0 → start + bytes0.length ≤ c'.seq) →
        (bytes0 ≠ [] → bytes' = bytes0 → bytes = bytes0) →
        (start < cur.seq → bytes = bytes0 → bytes' = bytes0) →
        Res.Ok (ovLoop I start (start + bytes0.length) bytes' rest (c' :: back) dropped)
          (OvPost S b start bytes0 (cur :: rest) back bytes dropped) := by
      intro c' bytes' hb' hseq hpe hok' hge hbb hkeep
      obtain ⟨r, hr, hp⟩ := ih (c' :: back) bytes' dropped hb' hrevc.2
        (List.pairwise_cons.mpr ⟨fun q hq => by rw [hpe]; exact hcb q hq, hsb⟩)
        (fun p hp q hq => by
          rcases List.mem_cons.mp hq with rfl | hq
          · have := hrest p hp; omega
          · exact hcrossr p hp q hq)
        hokrest
        (fun p hp => by
          rcases List.mem_cons.mp hp with rfl | hp
          · exact hok'
          · exact hokb p hp)
        (fun h0 h1 q hq => by
          rcases List.mem_cons.mp hq with rfl | hq
          · exact hge h0 h1
          · exact hsep h0 (hbb h0 h1) q hq)
      exact ⟨r, hr, hp.shift hseq hkeep⟩
    simp only [ovLoop]
    split
    · -- case 5
      rename_i h5; try simp only [I_diff, I_add, gt_iff_lt, ge_iff_le] at h5
      exact push cur bytes hb (Int.le_refl _) rfl ⟨hcAt, hcne⟩ (fun _ _ => by omega) (fun _ h => h) (fun _ h => h)
    rename_i h5; try simp only [I_diff, I_add, gt_iff_lt, ge_iff_le] at h5
    split
    · -- case 1: stop
      rename_i h1; try simp only [I_diff, I_add, gt_iff_lt, ge_iff_le] at h1
      refine ⟨_, rfl, ?_⟩
      have hs : Sorted ((cur :: rest).reverse ++ back) := sorted_rev_append hrev hsb hcross
      exact {
        sorted := hs
        ok := by
          intro p hp
          rcases List.mem_append.mp hp with hp | hp
          · exact hokr p (List.mem_reverse.mp hp)
          · exact hokb p hp
        hbytes := hb
        sep := by
          intro h0 h1'
          refine ⟨?_, hsep h0 h1'⟩
          intro p hp
          rcases List.mem_cons.mp (List.mem_reverse.mp hp) with rfl | hp
          · simp only [pend]; omega
          · have := hrest p hp; omega
        lower := by
          intro L h1' h2 p hp
          rcases List.mem_append.mp hp with hp | hp
          · exact h1' p (List.mem_reverse.mp hp)
          · exact h2 p hp
        keep := fun _ h => h
        count := by simp }
    rename_i h1; try simp only [I_diff, I_add, gt_iff_lt, ge_iff_le] at h1
    split
    · -- case 3: drop
      rename_i h3; try simp only [I_diff, I_add, gt_iff_lt, ge_iff_le] at h3
      obtain ⟨r, hr, hp⟩ := ih back bytes (dropped + 1) hb hrevc.2 hsb hcrossr hokrest hokb hsep
      exact ⟨r, hr, hp.dropCur⟩
    rename_i h3; try simp only [I_diff, I_add, gt_iff_lt, ge_iff_le] at h3
    split
    · -- case 2: trim cur's end, stop
      rename_i h2; try simp only [I_diff, I_add, gt_iff_lt, ge_iff_le] at h2
      have hnp : ¬ (-(cur.seq - start) < 0 ∨ -(cur.seq - start) > ↑cur.bytes.length) := by omega
      split
      · rename_i hp; try simp only [I_diff, I_add, gt_iff_lt, ge_iff_le] at hp; exact absurd hp hnp
      refine ⟨_, rfl, ?_⟩
      have hn : (-(cur.seq - start)).toNat ≤ cur.bytes.length := by omega
      have hn0 : 0 < (-(cur.seq - start)).toNat := by omega
      let c' : Page := { cur with bytes := cur.bytes.take (-(cur.seq - start)).toNat }
      have hc'len : c'.bytes.length = (-(cur.seq - start)).toNat := by
        simp only [c', List.length_take]; omega
      have hpe : pend c' = start := by
        simp only [pend, hc'len]; show cur.seq + _ = _; omega
      have hc'ok : PageOK S b c' := ⟨hcAt.take _, by
        intro e; have := congrArg List.length e; rw [hc'len] at this; simp at this; omega⟩
      have hrev' : (c' :: rest).Pairwise (fun p q => pend q ≤ p.seq) :=
        List.pairwise_cons.mpr ⟨hrest, hrevc.2⟩
      have hcross' : ∀ p ∈ c' :: rest, ∀ q ∈ back, pend p ≤ q.seq := by
        intro p hp q hq
        rcases List.mem_cons.mp hp with rfl | hp
        · have := hcb q hq; simp only [pend] at this; rw [hpe]; omega
        · exact hcrossr p hp q hq
      exact {
        sorted := sorted_rev_append hrev' hsb hcross'
        ok := by
          intro p hp
          rcases List.mem_append.mp hp with hp | hp
          · rcases List.mem_cons.mp (List.mem_reverse.mp hp) with rfl | hp
            · exact hc'ok
            · exact hokrest p hp
          · exact hokb p hp
        hbytes := hb
        sep := by
          intro h0 h1'
          refine ⟨?_, hsep h0 h1'⟩
          intro p hp
          rcases List.mem_cons.mp (List.mem_reverse.mp hp) with rfl | hp
          · show pend c' ≤ start; omega
          · have := hrest p hp; omega
        lower := by
          intro L h1' h2' p hp
          rcases List.mem_append.mp hp with hp | hp
          · rcases List.mem_cons.mp (List.mem_reverse.mp hp) with rfl | hp
            · exact h1' cur (List.mem_cons_self ..)
            · exact h1' p (List.mem_cons_of_mem _ hp)
          · exact h2' p hp
        keep := fun _ h => h
        count := by simp }
    rename_i h2; try simp only [I_diff, I_add, gt_iff_lt, ge_iff_le] at h2
    split
    · -- case 4: trim cur's start
      rename_i h4; try simp only [I_diff, I_add, gt_iff_lt, ge_iff_le] at h4
      have hnp : ¬ (-(cur.seq - (start + ↑bytes0.length)) < 0 ∨
          -(cur.seq - (start + ↑bytes0.length)) > ↑cur.bytes.length) := by omega
      split
      · rename_i hp; try simp only [I_diff, I_add, gt_iff_lt, ge_iff_le] at hp; exact absurd hp hnp
      have hn : (-(cur.seq - (start + ↑bytes0.length))).toNat ≤ cur.bytes.length := by omega
      let c' : Page := { cur with bytes := cur.bytes.drop (-(cur.seq - (start + ↑bytes0.length))).toNat,
                                  seq := cur.seq + -(cur.seq - (start + ↑bytes0.length)) }
      have hc'len : (c'.bytes.length : Int) = cur.bytes.length - (-(cur.seq - (start + ↑bytes0.length))) := by
        simp only [c', List.length_drop]; omega
      have hat' : At S b c'.seq c'.bytes := by
        have := hcAt.drop _ hn
        have e : cur.seq + ↑(-(cur.seq - (start + ↑bytes0.length))).toNat = c'.seq := by
          simp only [c']; omega
        rw [e] at this; exact this
      exact push c' bytes hb (by simp only [c']; omega) (by simp only [pend, hc'len]; simp only [c']; omega)
        ⟨hat', by intro e; have := congrArg List.length e; simp only [List.length_nil] at this; omega⟩
        (fun _ _ => by simp only [c']; omega) (fun _ h => h) (fun _ h => h)
    rename_i h4; try simp only [I_diff, I_add, gt_iff_lt, ge_iff_le] at h4
    split
    · -- case 6: the packet lies inside cur
      rename_i h6; try simp only [I_diff, I_add, gt_iff_lt, ge_iff_le] at h6
      have hoff : ¬ (-(cur.seq - start) < 0 ∨ -(cur.seq - start) + ↑bytes.length > ↑cur.bytes.length) := by
        rcases hb with rfl | rfl
        · omega
        · simp only [List.length_nil]; omega
      split
      · rename_i hp; try simp only [I_diff, I_add, gt_iff_lt, ge_iff_le] at hp; exact absurd hp hoff
      have hov : overwrite cur.bytes (-(cur.seq - start)).toNat bytes = cur.bytes := by
        rcases hb with rfl | rfl
        · have := At.overwrite hcAt hAt (by omega) (by omega)
          have e : (start - cur.seq).toNat = (-(cur.seq - start)).toNat := by congr 1; omega
          rw [e] at this; exact this
        · simp [overwrite]
      try simp only [I_diff, I_add]
      rw [hov]
      refine push cur [] (Or.inr rfl) (Int.le_refl _) rfl ⟨hcAt, hcne⟩ ?_ ?_ ?_
      · intro h0 h; exact absurd h.symm h0
      · intro h0 h; exact absurd h.symm h0
      · intro h; omega
    · -- no overlap: cur starts exactly at the packet's end
      rename_i h6; try simp only [I_diff, I_add, gt_iff_lt, ge_iff_le] at h6
      exact push cur bytes hb (Int.le_refl _) rfl ⟨hcAt, hcne⟩ (fun _ _ => by omega) (fun _ h => h) (fun _ h => h)

end Gp.Reasm

namespace Gp.Reasm
open Gp

/-- invariant of the out-of-order queue; `ns` = nextSeq (-1: not started) -/
def QueueOK (S : List UInt8) (b ns : Int) (q : List Page) : Prop :=
  Sorted q ∧ (∀ p ∈ q, PageOK S b p) ∧ (ns ≠ -1 → ∀ p ∈ q, ns < p.seq)

theorem sorted_insert {front np back : List Page} {s e : Int}
    (h1 : Sorted (front ++ back)) (h2 : Sorted np)
    (hf : ∀ p ∈ front, pend p ≤ s) (hn : ∀ p ∈ np, s ≤ p.seq ∧ pend p ≤ e) (hb : ∀ q ∈ back, e ≤ q.seq) :
    Sorted (front ++ np ++ back) := by
  unfold Sorted at *
  rw [List.pairwise_append] at h1
  rw [List.append_assoc, List.pairwise_append, List.pairwise_append]
  refine ⟨h1.1, ⟨h2, h1.2.1, ?_⟩, ?_⟩
  · intro p hp q hq; have := (hn p hp).2; have := hb q hq; omega
  · intro p hp q hq
    rcases List.mem_append.mp hq with hq | hq
    · have := hf p hp; have := (hn q hq).1; omega
    · exact h1.2.2 p hp q hq

/-- What `checkOverlap` guarantees in offset space. -/
structure CheckPost (S : List UInt8) (b : Int) (h : Half) (used : Int) (queue : Bool) (start : Int) (bytes : List UInt8)
    (res : Half × Int × List UInt8) : Prop where
  same : res.1 = { h with queue := res.1.queue, pages := res.1.pages }
  sorted : Sorted res.1.queue
  ok : ∀ p ∈ res.1.queue, PageOK S b p
  lower : ∀ L : Int, (∀ p ∈ h.queue, L < p.seq) → (queue = true → L < start) → ∀ p ∈ res.1.queue, L < p.seq
  live : queue = false → (∀ p ∈ h.queue, start ≤ p.seq) →
         (res.2.2 = bytes ∨ res.2.2 = []) ∧ ∀ p ∈ res.1.queue, start + res.2.2.length ≤ p.seq
  liveStrict : queue = false → (∀ p ∈ h.queue, start < p.seq) → res.2.2 = bytes
  count : res.1.pages - h.pages = (res.1.queue.length : Int) - h.queue.length ∧
          res.2.1 - used = (res.1.queue.length : Int) - h.queue.length

theorem checkOverlap_spec (S : List UInt8) (b : Int) (h : Half) (used : Int) (queue : Bool) (start : Int)
    (bytes : List UInt8) (ts : Int) (fin : Bool)
    (hAt : At S b start bytes) (hs : Sorted h.queue) (hok : ∀ p ∈ h.queue, PageOK S b p) :
    Res.Ok (checkOverlap I h used queue start bytes ts fin) (CheckPost S b h used queue start bytes) := by
  have hrevp : h.queue.reverse.Pairwise (fun p q => pend q ≤ p.seq) := List.pairwise_reverse.mpr hs
  obtain ⟨r, hr, hp⟩ := ovLoop_spec S b start bytes hAt h.queue.reverse [] bytes 0 (Or.inl rfl) hrevp
    List.Pairwise.nil (fun _ _ _ hq => by simp at hq) (fun p hp => hok p (List.mem_reverse.mp hp))
    (fun _ hq => by simp at hq) (fun _ _ _ hq => by simp at hq)
  have hr' : ovLoop I start (I.add start ↑bytes.length) bytes h.queue.reverse [] 0 = .ok r := hr
  unfold checkOverlap
  rw [hr']
  have hcount := hp.count
  simp only [List.length_reverse, List.length_nil, Nat.add_zero, Nat.zero_add] at hcount
  have hlow : ∀ L : Int, (∀ p ∈ h.queue, L < p.seq) → ∀ p ∈ r.front ++ r.back, L < p.seq :=
    fun L hL => hp.lower L (fun p hp' => hL p (List.mem_reverse.mp hp')) (fun _ hq => by simp at hq)
  simp only
  split
  · -- the packet is inserted
    rename_i hc
    have hq : queue = true := hc.2
    have hne : r.bytes ≠ [] := by intro e; rw [e] at hc; simp at hc
    have hrb : r.bytes = bytes := by rcases hp.hbytes with e | e; exact e; exact absurd e hne
    have hb0 : bytes ≠ [] := hrb ▸ hne
    obtain ⟨hfront, hback⟩ := hp.sep hb0 hrb
    rw [hrb]
    have hch := splitPages_chain S b start bytes ts fin hAt
    have hne' := splitPages_nonempty start bytes ts fin hb0
    refine Res.Ok.intro ?_
    exact {
      same := rfl
      sorted := sorted_insert hp.sorted hch.sorted hfront
        (fun p hp' => ⟨(hch.mem p hp').1, (hch.mem p hp').2.1⟩) hback
      ok := by
        intro p hp'
        simp only [List.mem_append] at hp'
        rcases hp' with (hp' | hp') | hp'
        · exact hp.ok p (List.mem_append_left _ hp')
        · exact ⟨(hch.mem p hp').2.2, hne' p hp'⟩
        · exact hp.ok p (List.mem_append_right _ hp')
      lower := by
        intro L hL hst p hp'
        simp only [List.mem_append] at hp'
        rcases hp' with (hp' | hp') | hp'
        · exact hlow L hL p (List.mem_append_left _ hp')
        · have := (hch.mem p hp').1; have := hst hq; omega
        · exact hlow L hL p (List.mem_append_right _ hp')
      live := by intro hq'; rw [hq] at hq'; cases hq'
      liveStrict := by intro hq'; rw [hq] at hq'; cases hq'
      count := by
        simp only [List.length_append]
        constructor <;> omega }
  · rename_i hc
    refine Res.Ok.intro ?_
    exact {
      same := rfl
      sorted := hp.sorted
      ok := hp.ok
      lower := fun L hL _ => hlow L hL
      live := by
        intro hq hst
        refine ⟨hp.hbytes, ?_⟩
        intro p hp'
        have hge : start - 1 < p.seq := hlow (start - 1) (fun q hq' => by have := hst q hq'; omega) p hp'
        show start + ↑r.bytes.length ≤ p.seq
        by_cases hb0 : r.bytes = []
        · simp only [hb0, List.length_nil]; omega
        · have hrb : r.bytes = bytes := by rcases hp.hbytes with e | e; exact e; exact absurd e hb0
          have hb1 : bytes ≠ [] := hrb ▸ hb0
          rw [hrb]
          rcases List.mem_append.mp hp' with hp' | hp'
          · have h1 := (hp.sep hb1 hrb).1 p hp'
            have h3 := (hp.ok p (List.mem_append_left _ hp')).2
            have : 0 < p.bytes.length := List.length_pos_iff.mpr h3
            simp only [pend] at h1; omega
          · exact (hp.sep hb1 hrb).2 p hp'
      liveStrict := fun _ hst => hp.keep (fun p hp' => hst p (List.mem_reverse.mp hp')) rfl
      count := by
        simp only [List.length_append]
        constructor <;> omega }

end Gp.Reasm
