import Gp.Lemmas.ReasmInv
/-
  Layer B of C09: the loop of `checkOverlap` (six cases) keeps the queue sorted, disjoint and
  consistent with the sender stream, and separates it from the new packet.
-/
namespace Gp.Reasm
open Gp

/-- What `ovLoop` guarantees (offset space).  `bytes0` = the packet's bytes, first byte at `start`. -/
structure OvPost (S : List UInt8) (b start : Int) (bytes0 : List UInt8) (rev back : List Page) (bytes : List UInt8)
    (dropped : Nat) (r : Ov) : Prop where
  sorted : Sorted (r.front ++ r.back)
  ok : ∀ p ∈ r.front ++ r.back, PageOK S b p
  hbytes : r.bytes = bytes0 ∨ r.bytes = []
  sep : bytes0 ≠ [] → r.bytes = bytes0 →
        (∀ p ∈ r.front, pend p ≤ start) ∧ (∀ q ∈ r.back, start + bytes0.length ≤ q.seq)
  lower : ∀ L : Int, (∀ p ∈ rev, L < p.seq) → (∀ p ∈ back, L < p.seq) → ∀ p ∈ r.front ++ r.back, L < p.seq
  keep : (∀ p ∈ rev, start < p.seq) → bytes = bytes0 → r.bytes = bytes0
  count : r.dropped + r.front.length + r.back.length = dropped + rev.length + back.length

theorem OvPost.shift {S b start bytes0 cur cur' rest back bytes bytes' dropped r}
    (h : OvPost S b start bytes0 rest (cur' :: back) bytes' dropped r) (hs : cur.seq ≤ cur'.seq)
    (hb : (start < cur.seq → bytes = bytes0 → bytes' = bytes0)) :
    OvPost S b start bytes0 (cur :: rest) back bytes dropped r where
  sorted := h.sorted
  ok := h.ok
  hbytes := h.hbytes
  sep := h.sep
  lower := by
    intro L h1 h2
    refine h.lower L (fun p hp => h1 p (List.mem_cons_of_mem _ hp)) ?_
    intro p hp
    rcases List.mem_cons.mp hp with rfl | hp
    · have := h1 cur (List.mem_cons_self ..); omega
    · exact h2 p hp
  keep := by
    intro h1 h2
    exact h.keep (fun p hp => h1 p (List.mem_cons_of_mem _ hp)) (hb (h1 cur (List.mem_cons_self ..)) h2)
  count := by have := h.count; simp only [List.length_cons] at this ⊢; omega

theorem OvPost.dropCur {S b start bytes0 cur rest back bytes dropped r}
    (h : OvPost S b start bytes0 rest back bytes (dropped + 1) r) :
    OvPost S b start bytes0 (cur :: rest) back bytes dropped r where
  sorted := h.sorted
  ok := h.ok
  hbytes := h.hbytes
  sep := h.sep
  lower := fun L h1 h2 => h.lower L (fun p hp => h1 p (List.mem_cons_of_mem _ hp)) h2
  keep := fun h1 h2 => h.keep (fun p hp => h1 p (List.mem_cons_of_mem _ hp)) h2
  count := by have := h.count; simp only [List.length_cons] at this ⊢; omega

theorem sorted_rev_append {rev back : List Page}
    (h1 : rev.Pairwise (fun p q => pend q ≤ p.seq)) (h2 : Sorted back)
    (h3 : ∀ p ∈ rev, ∀ q ∈ back, pend p ≤ q.seq) : Sorted (rev.reverse ++ back) := by
  unfold Sorted
  rw [List.pairwise_append]
  refine ⟨List.pairwise_reverse.mpr h1, h2, ?_⟩
  intro p hp q hq
  exact h3 p (List.mem_reverse.mp hp) q hq

theorem ovLoop_spec (S : List UInt8) (b start : Int) (bytes0 : List UInt8) (hAt : At S b start bytes0) :
    ∀ (rev back : List Page) (bytes : List UInt8) (dropped : Nat),
      (bytes = bytes0 ∨ bytes = []) →
      rev.Pairwise (fun p q => pend q ≤ p.seq) → Sorted back →
      (∀ p ∈ rev, ∀ q ∈ back, pend p ≤ q.seq) →
      (∀ p ∈ rev, PageOK S b p) → (∀ p ∈ back, PageOK S b p) →
      (bytes0 ≠ [] → bytes = bytes0 → ∀ q ∈ back, start + bytes0.length ≤ q.seq) →
      Res.Ok (ovLoop I start (start + bytes0.length) bytes rev back dropped)
        (OvPost S b start bytes0 rev back bytes dropped) := by
  intro rev
  induction rev with
  | nil =>
    intro back bytes dropped hb _ hsb _ _ hokb hsep
    refine ⟨_, rfl, ?_⟩
    exact { sorted := by simpa using hsb, ok := by simpa using hokb, hbytes := hb,
            sep := fun h0 h1 => ⟨by simp, hsep h0 h1⟩, lower := fun L _ h2 => by simpa using h2,
            keep := fun _ h => h, count := by simp }
  | cons cur rest ih =>
    intro back bytes dropped hb hrev hsb hcross hokr hokb hsep
    obtain ⟨hcAt, hcne⟩ := hokr cur (List.mem_cons_self ..)
    have hlen : 0 < cur.bytes.length := List.length_pos_iff.mpr hcne
    have hcl := hcAt.len
    have hrevc := List.pairwise_cons.mp hrev
    have hrest : ∀ q ∈ rest, pend q ≤ cur.seq := hrevc.1
    have hokrest : ∀ p ∈ rest, PageOK S b p := fun p hp => hokr p (List.mem_cons_of_mem _ hp)
    have hcrossr : ∀ p ∈ rest, ∀ q ∈ back, pend p ≤ q.seq := fun p hp => hcross p (List.mem_cons_of_mem _ hp)
    have hcb : ∀ q ∈ back, pend cur ≤ q.seq := hcross cur (List.mem_cons_self ..)
    -- pushing a page `c'` (a trimmed or untouched `cur`) behind the new packet
    have push : ∀ (c' : Page) (bytes' : List UInt8), (bytes' = bytes0 ∨ bytes' = []) →
        cur.seq ≤ c'.seq → pend c' = pend cur → PageOK S b c' →
        (bytes0 ≠ [] → bytes' = bytes0 → start + bytes0.length ≤ c'.seq) →
        (bytes0 ≠ [] → bytes' = bytes0 → bytes = bytes0) →
        (start < cur.seq → bytes = bytes0 → bytes' = bytes0) →
        Res.Ok (ovLoop I start (start + bytes0.length) bytes' rest (c' :: back) dropped)
          (OvPost S b start bytes0 (cur :: rest) back bytes dropped) := by
      intro c' bytes' hb' hseq hpe hok' hge hbb hkeep
      obtain ⟨r, hr, hp⟩ := ih (c' :: back) bytes' dropped hb' hrevc.2
        (List.pairwise_cons.mpr ⟨fun q hq => by rw [hpe]; exact hcb q hq, hsb⟩)
        (fun p hp q hq => by
          rcases List.mem_cons.mp hq with rfl | hq
          · have := hrest p hp; omega
          · exact hcrossr p hp q hq)
        hokrest
        (fun p hp => by
          rcases List.mem_cons.mp hp with rfl | hp
          · exact hok'
          · exact hokb p hp)
        (fun h0 h1 q hq => by
          rcases List.mem_cons.mp hq with rfl | hq
          · exact hge h0 h1
          · exact hsep h0 (hbb h0 h1) q hq)
      exact ⟨r, hr, hp.shift hseq hkeep⟩
    simp only [ovLoop]
    split
    · -- case 5
      rename_i h5; simp only [I_diff, I_add] at h5
      exact push cur bytes hb (Int.le_refl _) rfl ⟨hcAt, hcne⟩ (fun _ _ => by omega) (fun _ h => h) (fun _ h => h)
    rename_i h5; simp only [I_diff, I_add] at h5
    split
    · -- case 1: stop
      rename_i h1; simp only [I_diff, I_add] at h1
      refine ⟨_, rfl, ?_⟩
      have hs : Sorted ((cur :: rest).reverse ++ back) := sorted_rev_append hrev hsb hcross
      exact {
        sorted := hs
        ok := by
          intro p hp
          rcases List.mem_append.mp hp with hp | hp
          · exact hokr p (List.mem_reverse.mp hp)
          · exact hokb p hp
        hbytes := hb
        sep := by
          intro h0 h1'
          refine ⟨?_, hsep h0 h1'⟩
          intro p hp
          rcases List.mem_cons.mp (List.mem_reverse.mp hp) with rfl | hp
          · simp only [pend]; omega
          · have := hrest p hp; omega
        lower := by
          intro L h1' h2 p hp
          rcases List.mem_append.mp hp with hp | hp
          · exact h1' p (List.mem_reverse.mp hp)
          · exact h2 p hp
        keep := fun _ h => h
        count := by simp }
    rename_i h1; simp only [I_diff, I_add] at h1
    split
    · -- case 3: drop
      rename_i h3; simp only [I_diff, I_add] at h3
      obtain ⟨r, hr, hp⟩ := ih back bytes (dropped + 1) hb hrevc.2 hsb hcrossr hokrest hokb hsep
      exact ⟨r, hr, hp.dropCur⟩
    rename_i h3; simp only [I_diff, I_add] at h3
    split
    · -- case 2: trim cur's end, stop
      rename_i h2; simp only [I_diff, I_add] at h2
      have hnp : ¬ (-(cur.seq - start) < 0 ∨ -(cur.seq - start) > ↑cur.bytes.length) := by omega
      split
      · rename_i hp; simp only [I_diff, I_add] at hp; exact absurd hp hnp
      refine ⟨_, rfl, ?_⟩
      have hn : (-(cur.seq - start)).toNat ≤ cur.bytes.length := by omega
      have hn0 : 0 < (-(cur.seq - start)).toNat := by omega
      let c' : Page := { cur with bytes := cur.bytes.take (-(cur.seq - start)).toNat }
      have hc'len : c'.bytes.length = (-(cur.seq - start)).toNat := by
        simp only [c', List.length_take]; omega
      have hpe : pend c' = start := by
        simp only [pend, hc'len]; show cur.seq + _ = _; omega
      have hc'ok : PageOK S b c' := ⟨hcAt.take _, by
        intro e; have := congrArg List.length e; rw [hc'len] at this; simp at this; omega⟩
      have hrev' : (c' :: rest).Pairwise (fun p q => pend q ≤ p.seq) :=
        List.pairwise_cons.mpr ⟨hrest, hrevc.2⟩
      have hcross' : ∀ p ∈ c' :: rest, ∀ q ∈ back, pend p ≤ q.seq := by
        intro p hp q hq
        rcases List.mem_cons.mp hp with rfl | hp
        · have := hcb q hq; simp only [pend] at this; rw [hpe]; omega
        · exact hcrossr p hp q hq
      exact {
        sorted := sorted_rev_append hrev' hsb hcross'
        ok := by
          intro p hp
          rcases List.mem_append.mp hp with hp | hp
          · rcases List.mem_cons.mp (List.mem_reverse.mp hp) with rfl | hp
            · exact hc'ok
            · exact hokrest p hp
          · exact hokb p hp
        hbytes := hb
        sep := by
          intro h0 h1'
          refine ⟨?_, hsep h0 h1'⟩
          intro p hp
          rcases List.mem_cons.mp (List.mem_reverse.mp hp) with rfl | hp
          · show pend c' ≤ start; omega
          · have := hrest p hp; omega
        lower := by
          intro L h1' h2' p hp
          rcases List.mem_append.mp hp with hp | hp
          · rcases List.mem_cons.mp (List.mem_reverse.mp hp) with rfl | hp
            · exact h1' cur (List.mem_cons_self ..)
            · exact h1' p (List.mem_cons_of_mem _ hp)
          · exact h2' p hp
        keep := fun _ h => h
        count := by simp }
    rename_i h2; simp only [I_diff, I_add] at h2
    split
    · -- case 4: trim cur's start
      rename_i h4; simp only [I_diff, I_add] at h4
      have hnp : ¬ (-(cur.seq - (start + ↑bytes0.length)) < 0 ∨
          -(cur.seq - (start + ↑bytes0.length)) > ↑cur.bytes.length) := by omega
      split
      · rename_i hp; simp only [I_diff, I_add] at hp; exact absurd hp hnp
      have hn : (-(cur.seq - (start + ↑bytes0.length))).toNat ≤ cur.bytes.length := by omega
      let c' : Page := { cur with bytes := cur.bytes.drop (-(cur.seq - (start + ↑bytes0.length))).toNat,
                                  seq := cur.seq + -(cur.seq - (start + ↑bytes0.length)) }
      have hc'len : (c'.bytes.length : Int) = cur.bytes.length - (-(cur.seq - (start + ↑bytes0.length))) := by
        simp only [c', List.length_drop]; omega
      have hat' : At S b c'.seq c'.bytes := by
        have := hcAt.drop _ hn
        have e : cur.seq + ↑(-(cur.seq - (start + ↑bytes0.length))).toNat = c'.seq := by
          simp only [c']; omega
        rw [e] at this; exact this
      exact push c' bytes hb (by simp only [c']; omega) (by simp only [pend, hc'len]; simp only [c']; omega)
        ⟨hat', by intro e; have := congrArg List.length e; simp only [List.length_nil] at this; omega⟩
        (fun _ _ => by simp only [c']; omega) (fun _ h => h) (fun _ h => h)
    rename_i h4; simp only [I_diff, I_add] at h4
    split
    · -- case 6: the packet lies inside cur
      simp only [if_neg h6]
      have hoff : ¬ (-(cur.seq - start) < 0 ∨ -(cur.seq - start) + ↑bytes.length > ↑cur.bytes.length) := by
        rcases hb with rfl | rfl
        · omega
        · simp only [List.length_nil]; omega
      split
      · rename_i hp; simp only [I_diff, I_add] at hp; exact absurd hp hoff
      have hov : overwrite cur.bytes (-(cur.seq - start)).toNat bytes = cur.bytes := by
        rcases hb with rfl | rfl
        · have := At.overwrite hcAt hAt (by omega) (by omega)
          have e : (start - cur.seq).toNat = (-(cur.seq - start)).toNat := by congr 1; omega
          rw [e] at this; exact this
        · simp [overwrite]
      rw [hov]
      refine push cur [] (Or.inr rfl) (Int.le_refl _) rfl ⟨hcAt, hcne⟩ ?_ ?_ ?_
      · intro h0 h; exact absurd h.symm h0
      · intro h0 h; exact absurd h.symm h0
      · intro h; omega
    · -- no overlap: cur starts exactly at the packet's end
      simp only [if_pos h6]
      exact push cur bytes hb (Int.le_refl _) rfl ⟨hcAt, hcne⟩ (fun _ _ => by omega) (fun _ h => h) (fun _ h => h)

end Gp.Reasm
