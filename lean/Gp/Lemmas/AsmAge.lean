/-
  C11 age-based flush (FlushWithOptions / FlushOlderThan) on one connection:
  * afterwards the FIRST queued page is not older than the cut-off (what the code guarantees);
  * hence no queued page is, provided the queue's timestamps are oldest-first;
  * every Reassembled call of the flush starts with a page older than the cut-off and continues only
    with contiguous data (skip 0).
-/
import Gp.Lemmas.AsmGap
import Gp.Lemmas.AsmAcct
import Gp.Lemmas.AsmLog

namespace Gp.Asm

def HeadNotOld (T : Int) : List Page → Prop
  | [] => True
  | p :: _ => ¬ p.r.seen < T

def SeenSorted (ps : List Page) : Prop := ps.Pairwise (fun a b => a.r.seen ≤ b.r.seen)

/-- a call made by an age flush: first item older than the cut-off, the rest contiguous -/
def GoodCall (T : Int) : List Reasm → Prop
  | [] => False
  | r0 :: rest => r0.seen < T ∧ ∀ r ∈ rest, r.skip = 0

theorem addContiguous_suffix (A : SeqArith) (n : Int) (ps : List Page) :
    ∃ pre, ps = pre ++ (addContiguous A n ps).rest := by
  induction ps generalizing n with
  | nil => exact ⟨[], rfl⟩
  | cons p ps ih =>
    simp only [addContiguous]
    split
    · obtain ⟨pre, h⟩ := ih (popPage A n p).2
      exact ⟨p :: pre, by rw [List.cons_append, ← h]⟩
    · exact ⟨[], rfl⟩

theorem skipFlush_suffix (A : SeqArith) (c : Conn) (used : Int) :
    ∃ pre, c.pages = pre ++ (skipFlush A c used).conn.pages := by
  unfold skipFlush
  split
  · exact ⟨[], rfl⟩
  · rename_i p ps hp
    dsimp only
    rw [send_pages']
    obtain ⟨pre, h⟩ := addContiguous_suffix A (popPage A c.nextSeq p).2 ps
    exact ⟨p :: pre, by rw [hp, List.cons_append, ← h]⟩

theorem skipFlush_len (A : SeqArith) (c : Conn) (used : Int) (p : Page) (ps : List Page)
    (hp : c.pages = p :: ps) : (skipFlush A c used).conn.pages.length ≤ ps.length := by
  unfold skipFlush
  rw [hp]
  dsimp only
  rw [send_pages']
  have := addContiguous_length A (popPage A c.nextSeq p).2 ps
  dsimp only
  omega

theorem flushLoop_head (A : SeqArith) (T : Int) (fuel : Nat) (c : Conn) (used : Int)
    (calls : List (List Reasm)) (fl : Bool) (hf : c.pages.length ≤ fuel)
    (hc : (flushLoop A T fuel c used calls fl).1.closed = false) :
    HeadNotOld T (flushLoop A T fuel c used calls fl).1.conn.pages := by
  induction fuel generalizing c used calls fl with
  | zero =>
    have : c.pages = [] := List.eq_nil_of_length_eq_zero (by omega)
    simp only [flushLoop, this, HeadNotOld]
  | succ f ih =>
    simp only [flushLoop] at hc ⊢
    split
    · rename_i hp; simp only [hp, HeadNotOld]
    · rename_i p ps hp
      rw [hp] at hc
      dsimp only at hc
      split
      · rename_i hold
        rw [if_pos hold] at hc
        split
        · rename_i hcl
          rw [if_pos hcl] at hc
          simp only [hcl] at hc
          cases hc
        · rename_i hcl
          rw [if_neg hcl] at hc
          apply ih _ _ _ _ _ hc
          have := skipFlush_len A c used p ps hp
          rw [hp] at hf
          simp only [List.length_cons] at hf
          omega
      · rename_i hold
        simp only [hp, HeadNotOld]
        exact hold

theorem flushLoop_suffix (A : SeqArith) (T : Int) (fuel : Nat) (c : Conn) (used : Int)
    (calls : List (List Reasm)) (fl : Bool) :
    ∃ pre, c.pages = pre ++ (flushLoop A T fuel c used calls fl).1.conn.pages := by
  induction fuel generalizing c used calls fl with
  | zero => exact ⟨[], rfl⟩
  | succ f ih =>
    simp only [flushLoop]
    split
    · exact ⟨[], by simp⟩
    · split
      · split
        · exact skipFlush_suffix A c used
        · obtain ⟨pre1, h1⟩ := skipFlush_suffix A c used
          obtain ⟨pre2, h2⟩ := ih (skipFlush A c used).conn (skipFlush A c used).used
            (calls ++ (skipFlush A c used).calls) true
          exact ⟨pre1 ++ pre2, by rw [List.append_assoc, ← h2, ← h1]⟩
      · exact ⟨[], by simp⟩

theorem flushConn_pages (A : SeqArith) (T : Int) (ca : Bool) (c : Conn) (used : Int) :
    (flushConn A T ca c used).1.conn.pages = (flushLoop A T c.pages.length c used [] false).1.conn.pages := by
  unfold flushConn; dsimp only; split <;> rfl

theorem flushConn_head (A : SeqArith) (T : Int) (ca : Bool) (c : Conn) (used : Int)
    (hc : (flushConn A T ca c used).1.closed = false) :
    HeadNotOld T (flushConn A T ca c used).1.conn.pages := by
  rw [flushConn_pages]
  apply flushLoop_head A T _ c used [] false (Nat.le_refl _)
  unfold flushConn at hc
  dsimp only at hc
  split at hc
  · cases hc
  · exact hc

theorem headNotOld_all (T : Int) (ps : List Page) (h : HeadNotOld T ps) (hs : SeenSorted ps) :
    ∀ pg ∈ ps, ¬ pg.r.seen < T := by
  cases ps with
  | nil => intro pg h; simp at h
  | cons p ps =>
    unfold SeenSorted at hs
    rw [List.pairwise_cons] at hs
    simp only [HeadNotOld] at h
    intro pg hpg
    rcases List.mem_cons.1 hpg with e | e
    · rw [e]; exact h
    · have := hs.1 pg e; omega

/-- under the oldest-first hypothesis the age flush leaves no page older than the cut-off -/
theorem flushConn_noOld (A : SeqArith) (T : Int) (ca : Bool) (c : Conn) (used : Int)
    (hs : SeenSorted c.pages) (hc : (flushConn A T ca c used).1.closed = false) :
    ∀ pg ∈ (flushConn A T ca c used).1.conn.pages, ¬ pg.r.seen < T := by
  apply headNotOld_all T _ (flushConn_head A T ca c used hc)
  rw [flushConn_pages]
  obtain ⟨pre, h⟩ := flushLoop_suffix A T c.pages.length c used [] false
  unfold SeenSorted at hs ⊢
  rw [h] at hs
  exact (List.pairwise_append.1 hs).2.1

/-! ### what an age flush releases -/

theorem skipFlush_goodCall (A : SeqArith) (hadd : ∀ s n, A.add s n ≠ invalidSeq) (T : Int) (c : Conn)
    (used : Int) (p : Page) (ps : List Page) (hp : c.pages = p :: ps) (hold : p.r.seen < T)
    (hz : SkipZero c) : ∀ call ∈ (skipFlush A c used).calls, GoodCall T call := by
  unfold skipFlush
  rw [hp]
  dsimp only
  rw [send_calls']
  intro call hcall
  simp only [List.mem_singleton] at hcall
  rw [hcall]
  refine ⟨hold, ?_⟩
  intro r hr
  simp only [List.nil_append] at hr
  exact addContiguous_skip0 A hadd _ ps (byteSpan_valid A hadd _ _ _)
    (fun q hq => hz q (by rw [hp]; exact List.mem_cons_of_mem _ hq)) r hr

theorem flushLoop_goodCalls (A : SeqArith) (hadd : ∀ s n, A.add s n ≠ invalidSeq) (T : Int) (fuel : Nat)
    (c : Conn) (used : Int) (calls : List (List Reasm)) (fl : Bool) (hz : SkipZero c)
    (hcalls : ∀ call ∈ calls, GoodCall T call) :
    ∀ call ∈ (flushLoop A T fuel c used calls fl).1.calls, GoodCall T call := by
  induction fuel generalizing c used calls fl with
  | zero => exact hcalls
  | succ f ih =>
    simp only [flushLoop]
    split
    · exact hcalls
    · rename_i p ps hp
      split
      · rename_i hold
        have hg := skipFlush_goodCall A hadd T c used p ps hp hold hz
        have hall : ∀ call ∈ calls ++ (skipFlush A c used).calls, GoodCall T call := by
          intro call hc
          rcases List.mem_append.1 hc with h | h
          · exact hcalls call h
          · exact hg call h
        split
        · exact hall
        · exact ih _ _ _ _ (skipFlush_skipZero A c used hz) hall
      · exact hcalls

theorem flushConn_goodCalls (A : SeqArith) (hadd : ∀ s n, A.add s n ≠ invalidSeq) (T : Int) (ca : Bool)
    (c : Conn) (used : Int) (hz : SkipZero c) :
    ∀ call ∈ (flushConn A T ca c used).1.calls, GoodCall T call := by
  have := flushLoop_goodCalls A hadd T c.pages.length c used [] false hz (by intro call h; simp at h)
  unfold flushConn; dsimp only
  split
  · exact this
  · exact this

/-! ### the pool: which connection / which call -/

theorem putBack_sorted (P : Pool) (k : Nat) (st : Step) (h : KeysSorted P.conns) :
    KeysSorted (putBack P k st).conns := by
  unfold putBack
  split
  · exact sorted_remove _ _ h
  · exact sorted_upsert _ _ _ h

theorem flushWithList_conn (A : SeqArith) (T : Int) (ca : Bool) (cs : List (Nat × Conn)) (acc : FlushRes)
    (hs : KeysSorted acc.pool.conns) (k : Nat) (c' : Conn)
    (h : lookup k (flushWithList A T ca cs acc).pool.conns = some c') :
    (∃ c used, (k, c) ∈ cs ∧ c' = (flushConn A T ca c used).1.conn ∧ (flushConn A T ca c used).1.closed = false) ∨
      ((∀ c, (k, c) ∉ cs) ∧ lookup k acc.pool.conns = some c') := by
  induction cs generalizing acc with
  | nil => right; exact ⟨by intro c hc; simp at hc, h⟩
  | cons x cs ih =>
    obtain ⟨k0, c0⟩ := x
    simp only [flushWithList] at h
    rcases ih _ (putBack_sorted _ _ _ hs) h with ⟨c, used, hm, e1, e2⟩ | ⟨hn, hl⟩
    · left; exact ⟨c, used, List.mem_cons_of_mem _ hm, e1, e2⟩
    · dsimp only at hl
      by_cases hk : k = k0
      · subst hk
        rw [lookup_putBack_self _ _ _ hs] at hl
        split at hl
        · cases hl
        · rename_i hc
          cases hl
          left
          exact ⟨c0, acc.pool.used, List.mem_cons_self, rfl, by simpa using hc⟩
      · rw [lookup_putBack_ne _ _ _ _ hs hk] at hl
        right
        refine ⟨?_, hl⟩
        intro c hc
        rcases List.mem_cons.1 hc with e | e
        · cases e; exact hk rfl
        · exact hn c e

theorem flushWith_conn (A : SeqArith) (P : Pool) (T : Int) (ca : Bool) (hs : KeysSorted P.conns)
    (k : Nat) (c' : Conn) (h : lookup k (flushWith A P T ca).pool.conns = some c') :
    ∃ c used, lookup k P.conns = some c ∧ c' = (flushConn A T ca c used).1.conn ∧
      (flushConn A T ca c used).1.closed = false := by
  rcases flushWithList_conn A T ca P.conns _ hs k c' h with ⟨c, used, hm, e1, e2⟩ | ⟨hn, hl⟩
  · exact ⟨c, used, lookup_of_mem k c _ hs hm, e1, e2⟩
  · exact absurd (lookup_mem hl) (hn c')

theorem flushWithList_data (A : SeqArith) (T : Int) (ca : Bool) (cs : List (Nat × Conn)) (acc : FlushRes)
    (k sid : Nat) (items : List Reasm) (h : Ev.data k sid items ∈ (flushWithList A T ca cs acc).evs) :
    (∃ c used, (k, c) ∈ cs ∧ items ∈ (flushConn A T ca c used).1.calls) ∨ Ev.data k sid items ∈ acc.evs := by
  induction cs generalizing acc with
  | nil => right; exact h
  | cons x cs ih =>
    obtain ⟨k0, c0⟩ := x
    simp only [flushWithList] at h
    rcases ih _ h with ⟨c, used, hm, e⟩ | hm
    · left; exact ⟨c, used, List.mem_cons_of_mem _ hm, e⟩
    · dsimp only at hm
      rcases List.mem_append.1 hm with hm | hm
      · right; exact hm
      · left
        have hk : k = k0 := by
          unfold evsOf at hm
          rcases List.mem_append.1 hm with h1 | h1
          · obtain ⟨c, _, e⟩ := List.mem_map.1 h1; cases e; rfl
          · split at h1 <;> simp at h1
        subst hk
        exact ⟨c0, acc.pool.used, List.mem_cons_self, mem_evsOf_data _ _ _ _ _ hm⟩

theorem flushWith_data (A : SeqArith) (P : Pool) (T : Int) (ca : Bool) (hs : KeysSorted P.conns)
    (k sid : Nat) (items : List Reasm) (h : Ev.data k sid items ∈ (flushWith A P T ca).evs) :
    ∃ c used, lookup k P.conns = some c ∧ items ∈ (flushConn A T ca c used).1.calls := by
  rcases flushWithList_data A T ca P.conns _ k sid items h with ⟨c, used, hm, e⟩ | hm
  · exact ⟨c, used, lookup_of_mem k c _ hs hm, e⟩
  · simp at hm

end Gp.Asm
