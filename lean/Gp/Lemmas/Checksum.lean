import Gp.Model.Checksum
import Gp.Gen.CksumReduce
/-
  Helper lemmas for C08: arithmetic of FoldChecksum / reduceChecksum / ComputeChecksum.
-/
namespace Gp.Cksum
open Gp.Gen.Cksum

/-- invariant of the generated FoldChecksum loop, any fuel -/
theorem foldLoop_inv (fuel : Nat) : ∀ (c : Int), 0 ≤ c → c < 4294967296 →
    0 ≤ foldChecksum_loop1 fuel c ∧ foldChecksum_loop1 fuel c ≤ c ∧
    foldChecksum_loop1 fuel c % 65535 = c % 65535 ∧ (foldChecksum_loop1 fuel c = 0 ↔ c = 0) := by
  induction fuel with
  | zero => intro c h0 _; simp only [foldChecksum_loop1]; simp [h0]
  | succ n ih =>
    intro c h0 h
    simp only [foldChecksum_loop1]
    split
    · have h1 : (c / 65536 + c % 65536) % 4294967296 = c / 65536 + c % 65536 := by omega
      rw [h1]
      have := ih (c / 65536 + c % 65536) (by omega) (by omega)
      omega
    · omega

theorem foldLoop_le1 (c : Int) (h0 : 0 ≤ c) (h : c ≤ 65536) : foldChecksum_loop1 1 c ≤ 65535 := by
  simp only [foldChecksum_loop1]; split <;> omega

theorem foldLoop_le2 (c : Int) (h0 : 0 ≤ c) (h : c ≤ 131070) : foldChecksum_loop1 2 c ≤ 65535 := by
  rw [foldChecksum_loop1]; split
  · exact foldLoop_le1 _ (by omega) (by omega)
  · omega

theorem foldLoop_le3 (c : Int) (h0 : 0 ≤ c) (h : c < 4294967296) : foldChecksum_loop1 3 c ≤ 65535 := by
  rw [foldChecksum_loop1]; split
  · have hb : c / 65536 ≤ 65535 := by omega
    have h1 : (c / 65536 + c % 65536) % 4294967296 = c / 65536 + c % 65536 := by omega
    rw [h1]
    exact foldLoop_le2 _ (by omega) (by omega)
  · omega

/-- the fuel of the generated loop (4) suffices: the loop exits by its condition -/
theorem foldLoop_le (c : Int) (h0 : 0 ≤ c) (h : c < 4294967296) :
    foldChecksum_loop1 4 c ≤ 65535 := by
  rw [foldChecksum_loop1]; split
  · exact foldLoop_le3 _ (by omega) (by omega)
  · omega

/-! ### fold: closed form -/

theorem ocRep_le (n : Nat) : ocRep n ≤ 65535 := by unfold ocRep; split <;> omega

theorem ocRep_mod (n : Nat) : ocRep n % 65535 = n % 65535 := by unfold ocRep; split <;> omega

theorem ocRep_eq_zero (n : Nat) : ocRep n = 0 ↔ n = 0 := by unfold ocRep; split <;> omega

/-- a value in 0..65535 congruent to n and zero exactly when n is zero is ocRep n -/
theorem ocRep_unique (n r : Nat) (h1 : r ≤ 65535) (h2 : r % 65535 = n % 65535) (h3 : r = 0 ↔ n = 0) :
    r = ocRep n := by unfold ocRep; split <;> omega

theorem ocRep_congr (a b : Nat) (h : a % 65535 = b % 65535) (hz : a = 0 ↔ b = 0) : ocRep a = ocRep b :=
  ocRep_unique b (ocRep a) (ocRep_le a) (by rw [ocRep_mod]; exact h) (by rw [ocRep_eq_zero]; exact hz)

/-- FoldChecksum on every uint32: 0xffff minus the one's-complement representative -/
theorem fold_closed (c : Nat) (h : c < W32) : fold c = 65535 - ocRep c := by
  have hc : (Int.ofNat c) < 4294967296 := by simp only [W32] at h; simp only [Int.ofNat_eq_natCast]; omega
  have h0 : (0 : Int) ≤ Int.ofNat c := by simp
  obtain ⟨i0, i1, i2, i3⟩ := foldLoop_inv 4 _ h0 hc
  have i4 := foldLoop_le _ h0 hc
  unfold fold foldChecksum
  simp only []
  generalize foldChecksum_loop1 4 (Int.ofNat c) = r at *
  have hr : r.toNat = ocRep c := by
    apply ocRep_unique
    · omega
    · simp only [Int.ofNat_eq_natCast] at i2; omega
    · simp only [Int.ofNat_eq_natCast] at i3; omega
  have := ocRep_le c
  omega

theorem fold_le (c : Nat) (h : c < W32) : fold c ≤ 65535 := by rw [fold_closed c h]; omega

/-- fold c + c is a multiple of 65535 -/
theorem fold_add_mod (c : Nat) (h : c < W32) : (fold c + c) % 65535 = 0 := by
  rw [fold_closed c h]; have := ocRep_le c; have := ocRep_mod c; omega

theorem fold_congr (a b : Nat) (ha : a < W32) (hb : b < W32) (h : a % 65535 = b % 65535) (hz : a = 0 ↔ b = 0) :
    fold a = fold b := by rw [fold_closed a ha, fold_closed b hb, ocRep_congr a b h hz]

/-! ### reduce (checksum.go reduceChecksum) -/

/-- invariant of the reduceChecksum loop, any fuel, on a uint64 value -/
theorem reduceLoop_inv (fuel : Nat) : ∀ (s : Nat), s < W64 →
    reduceLoop fuel s ≤ s ∧ reduceLoop fuel s % 65535 = s % 65535 ∧
    (s ≤ 4294967295 → reduceLoop fuel s = s) ∧ (s > 4294967295 → reduceLoop fuel s ≥ 65536) := by
  induction fuel with
  | zero => intro s _; simp [reduceLoop]; intro; omega
  | succ n ih =>
    intro s h
    simp only [W64] at h
    simp only [reduceLoop]
    split
    · have h1 : (s / 65536 + s % 65536) % W64 = s / 65536 + s % 65536 := by simp only [W64]; omega
      rw [h1]
      have := ih (s / 65536 + s % 65536) (by simp only [W64]; omega)
      omega
    · omega

theorem reduceLoop_le1 (s : Nat) (h : s ≤ 4295032831) : reduceLoop 1 s ≤ 4294967295 := by
  simp only [reduceLoop, W64]; split <;> omega

theorem reduceLoop_le2 (s : Nat) (h : s ≤ 281474976776191) : reduceLoop 2 s ≤ 4294967295 := by
  rw [reduceLoop]; split
  · have h1 : (s / 65536 + s % 65536) % W64 = s / 65536 + s % 65536 := by simp only [W64]; omega
    rw [h1]; exact reduceLoop_le1 _ (by omega)
  · omega

theorem reduceLoop_le3 (s : Nat) (h : s < W64) : reduceLoop 3 s ≤ 4294967295 := by
  simp only [W64] at h
  rw [reduceLoop]; split
  · have h1 : (s / 65536 + s % 65536) % W64 = s / 65536 + s % 65536 := by simp only [W64]; omega
    rw [h1]; exact reduceLoop_le2 _ (by omega)
  · omega

/-- the fuel 4 suffices for every uint64: the loop exits by its condition -/
theorem reduceLoop_le (s : Nat) (h : s < W64) : reduceLoop 4 s ≤ 4294967295 := by
  rw [reduceLoop]; split
  · have h1 : (s / 65536 + s % 65536) % W64 = s / 65536 + s % 65536 := by simp only [W64] at h ⊢; omega
    rw [h1]; exact reduceLoop_le3 _ (by simp only [W64] at h ⊢; omega)
  · omega

theorem reduce_props (s : Nat) (h : s < W64) :
    reduce s < W32 ∧ reduce s % 65535 = s % 65535 ∧ (s < W32 → reduce s = s) ∧ (W32 ≤ s → 65536 ≤ reduce s) ∧
    reduce s ≤ s := by
  obtain ⟨a, b, c, d⟩ := reduceLoop_inv 4 s h
  have e := reduceLoop_le s h
  unfold reduce
  simp only [W32]
  have : reduceLoop 4 s % 4294967296 = reduceLoop 4 s := by omega
  rw [this]; omega

open Gp.Gen.CksumReduce in
theorem reduceLoop_matches (fuel : Nat) : ∀ s : Nat,
    ((reduceLoop fuel s : Nat) : Int) = reduceChecksum_loop1 fuel (s : Int) := by
  induction fuel with
  | zero => intro s; simp only [reduceLoop, reduceChecksum_loop1]
  | succ n ih =>
    intro s
    simp only [reduceLoop, reduceChecksum_loop1]
    by_cases hs : s > 4294967295
    · have hs' : (s : Int) > 4294967295 := by omega
      rw [if_pos hs, if_pos hs', ih]
      congr 1
    · have hs' : ¬ (s : Int) > 4294967295 := by omega
      rw [if_neg hs, if_neg hs']

/-! ### wordsum, sum64, compute -/

theorem u8_lt (a : UInt8) : a.toNat < 256 := UInt8.toNat_lt a

/-- positional form of the word sum: bytes alternately weigh 256 and 1 -/
def wsP (hi : Bool) : Bytes → Nat
  | [] => 0
  | a :: r => a.toNat * (if hi then 256 else 1) + wsP (!hi) r

theorem wordsum_eq_wsP (d : Bytes) : wordsum d = wsP true d := by
  induction d using wordsum.induct with
  | case1 a b rest ih => simp [wordsum, wsP, ih]; omega
  | case2 a => simp [wordsum, wsP]
  | case3 => simp [wordsum, wsP]

theorem wsP_append (p q : Bytes) : ∀ hi, wsP hi (p ++ q) = wsP hi p + wsP (if p.length % 2 = 0 then hi else !hi) q := by
  induction p with
  | nil => intro hi; simp [wsP]
  | cons a r ih =>
    intro hi
    simp only [List.cons_append, wsP, ih, List.length_cons]
    have : (if r.length % 2 = 0 then !hi else !!hi) = (if (r.length + 1) % 2 = 0 then hi else !hi) := by
      by_cases h : r.length % 2 = 0
      · have h' : ¬ (r.length + 1) % 2 = 0 := by omega
        simp [h, h']
      · have h' : (r.length + 1) % 2 = 0 := by omega
        simp [h, h']
    rw [this]; omega

/-- the word sum splits at every even offset -/
theorem wordsum_append (p q : Bytes) (h : p.length % 2 = 0) : wordsum (p ++ q) = wordsum p + wordsum q := by
  simp only [wordsum_eq_wsP, wsP_append, h, if_true]

theorem wordsum_bound (d : Bytes) : wordsum d ≤ 65535 * ((d.length + 1) / 2) := by
  induction d using wordsum.induct with
  | case1 a b rest ih =>
    have := u8_lt a; have := u8_lt b
    simp only [wordsum, List.length_cons]; omega
  | case2 a => have := u8_lt a; simp [wordsum]; omega
  | case3 => simp [wordsum]

theorem sum64_spec (d : Bytes) : ∀ s, s + wordsum d < W64 → sum64 d s = s + wordsum d := by
  induction d using wordsum.induct with
  | case1 a b rest ih =>
    intro s h
    simp only [wordsum] at h
    simp only [sum64]
    have h1 : (s + a.toNat * 256) % W64 = s + a.toNat * 256 := by simp only [W64] at h ⊢; omega
    have h2 : (s + a.toNat * 256 + b.toNat) % W64 = s + a.toNat * 256 + b.toNat := by simp only [W64] at h ⊢; omega
    rw [h1, h2, ih _ (by omega)]; simp only [wordsum]; omega
  | case2 a =>
    intro s h
    simp only [wordsum] at h
    simp only [sum64, wordsum]; simp only [W64] at h ⊢; omega
  | case3 => intro s _; simp [sum64, wordsum]

/-- no uint64 wrap for any slice that fits an address space: c < 2^32, |d| ≤ 2^48 -/
theorem total_lt_W64 (d : Bytes) (c : Nat) (hc : c < W32) (hl : d.length ≤ 281474976710656) :
    c + wordsum d < W64 := by
  have := wordsum_bound d
  simp only [W32] at hc; simp only [W64]; omega

theorem compute_eq (d : Bytes) (c : Nat) (hc : c < W32) (hl : d.length ≤ 281474976710656) :
    compute d c = reduce (c + wordsum d) := by
  unfold compute; rw [sum64_spec d c (total_lt_W64 d c hc hl)]

theorem compute_lt (d : Bytes) (c : Nat) (hc : c < W32) (hl : d.length ≤ 281474976710656) :
    compute d c < W32 := by
  rw [compute_eq d c hc hl]; exact (reduce_props _ (total_lt_W64 d c hc hl)).1

/-- the pre-fix uint32 accumulator: the plain sum modulo 2^32 -/
theorem compute32_spec (d : Bytes) : ∀ c, c < W32 → compute32 d c = (c + wordsum d) % W32 := by
  induction d using wordsum.induct with
  | case1 a b rest ih =>
    intro c _
    have hlt : ((c + a.toNat * 256) % W32 + b.toNat) % W32 < W32 := Nat.mod_lt _ (by simp [W32])
    rw [compute32, ih _ hlt]; simp only [wordsum, W32]; omega
  | case2 a => intro c _; simp only [compute32, wordsum]
  | case3 => intro c h; simp only [compute32, wordsum, W32] at *; omega

/-! ### the RFC 1071 reference: one's-complement sum with end-around carry -/

theorem ocRep_succ (m : Nat) : ocRep (m + 1) = m % 65535 + 1 := by
  unfold ocRep; rw [if_neg (by omega)]; simp

theorem ocAdd_rep (n w : Nat) (hw : w ≤ 65535) : ocAdd (ocRep n) w = ocRep (n + w) := by
  cases n with
  | zero =>
    have h0 : ocRep 0 = 0 := by simp [ocRep]
    rw [h0, Nat.zero_add]
    cases w with
    | zero => simp [ocAdd, h0]
    | succ v =>
      rw [ocRep_succ]; unfold ocAdd
      have : v % 65535 = v := Nat.mod_eq_of_lt (by omega)
      split <;> omega
  | succ m =>
    have e : m + 1 + w = (m + w) + 1 := by omega
    rw [e, ocRep_succ, ocRep_succ]
    have h1 := Nat.add_mod m w 65535
    have h2 : m % 65535 < 65535 := Nat.mod_lt _ (by omega)
    unfold ocAdd
    by_cases hw' : w = 65535
    · subst hw'; simp at h1; split <;> omega
    · have h3 : w % 65535 = w := Nat.mod_eq_of_lt (by omega)
      rw [h3] at h1
      split
      · have : (m % 65535 + w) % 65535 = m % 65535 + w - 65535 := by omega
        omega
      · have : (m % 65535 + w) % 65535 = m % 65535 + w := Nat.mod_eq_of_lt (by omega)
        omega

theorem words_le (d : Bytes) : ∀ w ∈ words d, w ≤ 65535 := by
  induction d using wordsum.induct with
  | case1 a b rest ih =>
    intro w hw
    simp only [words, List.mem_cons] at hw
    have := u8_lt a; have := u8_lt b
    rcases hw with h | h
    · omega
    · exact ih w h
  | case2 a => intro w hw; simp only [words, List.mem_cons, List.not_mem_nil, or_false] at hw; have := u8_lt a; omega
  | case3 => intro w hw; simp [words] at hw

theorem foldl_ocAdd_words (d : Bytes) : ∀ n, (words d).foldl ocAdd (ocRep n) = ocRep (n + wordsum d) := by
  induction d using wordsum.induct with
  | case1 a b rest ih =>
    intro n
    have := u8_lt a; have := u8_lt b
    simp only [words, wordsum, List.foldl_cons]
    rw [ocAdd_rep n _ (by omega), ih]
    congr 1; omega
  | case2 a =>
    intro n
    have := u8_lt a
    simp only [words, wordsum, List.foldl_cons, List.foldl_nil]
    exact ocAdd_rep n _ (by omega)
  | case3 => intro n; simp [words, wordsum]

/-- the one's-complement sum of the words is the one's-complement representative of their plain sum -/
theorem ocSum_words (d : Bytes) : ocSum (words d) = ocRep (wordsum d) := by
  have h := foldl_ocAdd_words d 0
  have h0 : ocRep 0 = 0 := by simp [ocRep]
  rw [h0, Nat.zero_add] at h
  exact h

theorem rfc1071_eq (d : Bytes) : rfc1071 d = 65535 - ocRep (wordsum d) := by
  unfold rfc1071; rw [ocSum_words]

/-- ComputeChecksum then FoldChecksum: 0xffff minus the representative of the TRUE sum, every length -/
theorem fold_compute (d : Bytes) (c : Nat) (hc : c < W32) (hl : d.length ≤ 281474976710656) :
    fold (compute d c) = 65535 - ocRep (c + wordsum d) := by
  have hT := total_lt_W64 d c hc hl
  obtain ⟨r1, r2, r3, r4, _⟩ := reduce_props (c + wordsum d) hT
  rw [compute_eq d c hc hl, fold_closed _ r1]
  congr 1
  apply ocRep_congr _ _ r2
  by_cases h : c + wordsum d < W32
  · rw [r3 h]
  · have := r4 (by omega); omega

theorem wordsum_replicate_ff (n : Nat) : wordsum (List.replicate (2 * n) (255 : UInt8)) = 65535 * n := by
  induction n with
  | zero => simp [wordsum]
  | succ m ih =>
    have e : 2 * (m + 1) = (2 * m + 1) + 1 := by omega
    rw [e, List.replicate_succ, List.replicate_succ]
    simp only [wordsum, ih]
    have : (255 : UInt8).toNat = 255 := rfl
    rw [this]; omega

end Gp.Cksum
