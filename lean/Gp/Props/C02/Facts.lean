/-
C02 (T-tie): no hidden package-level state is written while decoding.

`Gp/Gen/GlobalWrites.lean` is regenerated from the repository's current source on every run by
`extract/cmd/x-facts`: every (package-level variable of gopacket or gopacket/layers, function)
such that the function — not an `init`, not an initialisation-only helper — assigns the variable
directly, through an element or field, with append, increment or decrement, delete() or copy().

`allowedWriters` are the exported REGISTRATION functions: the documented way for a program to
extend the decoder registry, called at start-up before any decoding; none of them is reachable
from `NewPacket`, a decoder or a packet accessor:
  * gopacket.OverrideLayerType (and RegisterLayerType, which calls it) — layertype.go: fills the
    layer-type table `ltMeta/ltMetaMap/DecodersByLayerName`;
  * gopacket.RegisterEndpointType — flows.go: fills `endpointTypes`;
  * layers.RegisterTCPPortLayerType / RegisterUDPPortLayerType / RegisterSCTPPortLayerType —
    layers/ports.go: port → layer-type tables;
  * layers.RegisterASFLayerType / RegisterRMCPLayerType / RegisterLCMLayerType — per-protocol
    dispatch tables.
Adding a package-level cache or scratch buffer that a decoder writes (`cache[x] = y`) adds a
pair with a non-allowed writer and `no_runtime_global_writes` fails.
-/
import Gp.Gen.GlobalWrites

namespace Gp.C02.Facts
open Gp.Gen.GlobalWrites

/-- Registration functions that users call at initialisation time (justified above). -/
def allowedWriters : List String := [
  "gopacket.OverrideLayerType",
  "gopacket.RegisterLayerType",
  "gopacket.RegisterEndpointType",
  "layers.RegisterTCPPortLayerType",
  "layers.RegisterUDPPortLayerType",
  "layers.RegisterSCTPPortLayerType",
  "layers.RegisterASFLayerType",
  "layers.RegisterRMCPLayerType",
  "layers.RegisterLCMLayerType"
]

/-- No function other than the registration functions writes a package-level variable of
    gopacket or gopacket/layers after initialisation: decoding has no hidden mutable state. -/
theorem no_runtime_global_writes :
    runtimeGlobalWrites.filter (fun w => !allowedWriters.contains w.2) = [] := by decide +kernel

/-- Non-vacuity: the extractor does see the registry writes (the list is not empty and contains
    the layer-type table write), so an empty filter result is not an artefact of finding nothing. -/
theorem global_writes_nonvacuous :
    ("gopacket.ltMeta", "gopacket.OverrideLayerType") ∈ runtimeGlobalWrites ∧
      5 ≤ runtimeGlobalWrites.length := by decide +kernel

end Gp.C02.Facts
