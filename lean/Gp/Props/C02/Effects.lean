import Gp.Lemmas.Effects
/-
  C02 — "Decoding is deterministic and side-effect free; eager packets are shareable":
  the effect-level core.

  Model: `Gp/Model/Effects.lean` (heap of buffers, Go slices with capacity, `append`, NewPacket's
  three ways of obtaining the packet bytes, Contents/Payload slicing, the pseudo-header, the five
  VerifyChecksum functions, the eager accessors; effect logs; goroutines under arbitrary
  schedules at the granularity of single memory operations).
  T-tie: `Gp/Gen/Effects.lean` is regenerated from the source on every run; `currentFacts` reads
  from it how the concatenating append and the IPv4 pseudo-header are written NOW.

  Sections
    1. slices and append                       (`append_in_place_iff` …)
    2. NewPacket and the caller's input        (`newpacket_copy_disjoint` …)
    3. the code as found: what VerifyChecksum writes, for every input  (`verify_checksum_effects`,
       `verify_writes_packet_buffer`, `nocopy_verify_writes_caller_buffer`, the negation witnesses)
    4. the general theorem: read-only goroutines are race-free and get the answers they would get
       alone, for every number of goroutines and every schedule  (`race_free_of_readonly`)
    5. the CURRENT source: verification and all eager accessors are read-only on shared memory,
       hence an eager packet is shareable  (`verify_checksum_readonly`, `eager_accessors_readonly`,
       `eager_packet_shareable`).  These are the obligations that break when either defect
       (proposed_fixes/c02-1, c02-2) is present in the tree.

  Helper lemmas and the definitions `Adjacent`, `pseudoStores`, `AllRO`, `LogInBounds` are in Gp/Lemmas/Effects.lean:
    Adjacent c p   := p.buf = c.buf ∧ p.off = c.off + c.len ∧ c.len + p.len ≤ c.cap
    pseudoStores   := the two address fields of the IPv4 layer object (code as found), else []
    AllRO s        := every goroutine of `s` is read-only on the shared heap from its current state
    LogInBounds l h := every region loaded or stored by `l` lies inside a buffer of `h`
-/
namespace Gp.C02.Effects
open Gp Gp.Effects

/-! ## 1. Slices carry capacity; append writes in place exactly when the capacity suffices -/

/-- Go checks a slice expression against the CAPACITY: `s[a:b]` succeeds iff `a ≤ b ≤ cap(s)`. -/
theorem slice_checks_capacity (s : Slice) (a b : Nat) :
    (∃ t, s.slice a b = .ok t) ↔ (a ≤ b ∧ b ≤ s.cap) := by
  unfold Slice.slice
  by_cases h : a ≤ b ∧ b ≤ s.cap <;> simp [h]

example : (Slice.mk (.shared 0) 0 4 16).slice 2 12 = .ok ⟨.shared 0, 2, 10, 14⟩ := by decide

/-- `Contents = data[:h]`, `Payload = data[h:e]`: the two slices are adjacent in the packet buffer
    and Contents has the capacity to hold the payload behind it. -/
theorem split_adjacent (data c p : Slice) (h e : Nat) (h1 : h ≤ e) (h2 : e ≤ data.cap)
    (hs : split data h e = .ok (c, p)) :
    Adjacent c p ∧ c = ⟨data.buf, data.off, h, data.cap⟩ ∧
      p = ⟨data.buf, data.off + h, e - h, data.cap - h⟩ := by
  refine ⟨adjacent_of_split data c p h e h1 h2 hs, ?_⟩
  rw [split_ok data h e h1 h2] at hs
  cases hs; exact ⟨rfl, rfl⟩

example : split ⟨.shared 0, 14, 40, 50⟩ 20 40 = .ok (⟨.shared 0, 14, 20, 50⟩, ⟨.shared 0, 34, 20, 30⟩) := by
  decide

/-- `append(x, y...)` with something to add stores into `x`'s backing array iff
    `len(x)+len(y) ≤ cap(x)`; otherwise every store goes to a freshly allocated private buffer. -/
theorem append_in_place_iff (x y : Slice) (slack : Nat) (h : Heap) (hy : y.len ≠ 0) (hx : h.has x.buf) :
    (∃ r ∈ writesOf ((goAppend x y slack).log h), r.buf = x.buf) ↔ x.len + y.len ≤ x.cap := by
  constructor
  · rintro ⟨r, hr, hbuf⟩
    apply Classical.byContradiction
    intro hc
    rw [goAppend_grow x y slack h hy hc] at hr
    simp only [writesOf, List.mem_cons, List.not_mem_nil, or_false] at hr
    have : x.buf = .priv h.priv.length := by
      rcases hr with rfl | rfl <;> exact hbuf.symm
    rw [this] at hx
    exact Nat.lt_irrefl _ hx
  · intro hc
    have := goAppend_inplace x y slack h hy hc
    refine ⟨⟨x.buf, x.off + x.len, (h.read y.region).length⟩, ?_, rfl⟩
    simp [Prog.log, this, writesOf]

/-- The exact effects of the in-place branch: load `y`, store it at `[off+len, off+len+|y|)` of
    `x`'s buffer; the result is `x` with the longer length and the SAME capacity. -/
theorem append_in_place_effects (x y : Slice) (slack : Nat) (h : Heap) (hy : y.len ≠ 0)
    (hc : x.len + y.len ≤ x.cap) (hb : y.region.inBounds h) :
    (goAppend x y slack).log h = [.read y.region, .write ⟨x.buf, x.off + x.len, y.len⟩] ∧
      (goAppend x y slack).answer h = { x with len := x.len + y.len } := by
  have := goAppend_inplace x y slack h hy hc
  have hl := Heap.read_length h y.region hb
  simp only [Slice.region] at hl
  simp [Prog.log, Prog.answer, this, hl, Slice.region]

/-- The exact effects of the growing branch: nothing but a private allocation is stored to. -/
theorem append_grow_effects (x y : Slice) (slack : Nat) (h : Heap) (hy : y.len ≠ 0)
    (hc : ¬ x.len + y.len ≤ x.cap) :
    (∀ r ∈ writesOf ((goAppend x y slack).log h), r.buf = .priv h.priv.length) ∧
      readsOf ((goAppend x y slack).log h) = [x.region, y.region] := by
  rw [goAppend_grow x y slack h hy hc]
  simp [writesOf, readsOf]

/-- Appending nothing touches nothing. -/
theorem append_nothing (x y : Slice) (slack : Nat) (h : Heap) (hy : y.len = 0) :
    (goAppend x y slack).run h = (x, h, []) := goAppend_nop x y slack h hy

/-- `x[:len(x):len(x)]` is the slice with capacity cut down to the length … -/
theorem full_slice_expr_caps (s : Slice) (h : s.len ≤ s.cap) :
    s.slice3 0 s.len s.len = .ok s.capToLen := slice3_self s h

/-- … and appending to it is read-only on shared memory, whatever is appended. -/
theorem append_capped_readonly (x y : Slice) (slack : Nat) (sh : Mem) :
    RO (goAppend x.capToLen y slack) sh := RO_goAppend_capped _ _ _ _ rfl

/-! ## 2. NewPacket: where the packet's bytes live, and the caller's input -/

/-- Default options (and `Pool` with an input larger than a pool block): the packet data is a
    FRESH private buffer of capacity = length = `len(input)`; the only store of NewPacket goes
    there; therefore no region of the packet's buffer — whatever is later read or written through
    the packet, its layers or any slice derived from them — overlaps anything reachable through the
    caller's slice. -/
theorem newpacket_copy_disjoint (input : Slice) (o : Opts) (blk : Buf) (h : Heap)
    (hn : o.noCopy = false) (hp : ¬ (o.pool = true ∧ input.len ≤ Gp.Gen.Effects.maximumMTU))
    (hin : h.has input.buf) :
    let data := (newPacketData input o blk).answer h
    data = ⟨.priv h.priv.length, 0, input.len, input.len⟩ ∧
    data.buf ≠ input.buf ∧ ¬ h.has data.buf ∧
    writesOf ((newPacketData input o blk).log h) =
      [⟨.priv h.priv.length, 0, ((h.alloc input.len).1.read input.region).length⟩] ∧
    (∀ r : Region, r.buf = data.buf → ¬ r.overlaps input.capRegion) := by
  have hr := newPacketData_copy input o blk h hn hp
  intro data
  have hd : data = ⟨.priv h.priv.length, 0, input.len, input.len⟩ := by
    simp [data, Prog.answer, hr]
  have hne : Buf.priv h.priv.length ≠ input.buf := by
    intro he; rw [← he] at hin; exact Nat.lt_irrefl _ hin
  rw [hd]
  refine ⟨rfl, hne, fun hh => Nat.lt_irrefl _ hh, by simp [Prog.log, hr, writesOf], ?_⟩
  intro r hb ho
  exact hne (hb.symm.trans ho.1)

example : ∃ (input : Slice) (o : Opts) (h : Heap), o.noCopy = false ∧
    ¬ (o.pool = true ∧ input.len ≤ Gp.Gen.Effects.maximumMTU) ∧ h.has input.buf :=
  ⟨⟨.shared 0, 0, 3, 8⟩, ⟨false, false⟩, ⟨[[1, 2, 3, 4, 5, 6, 7, 8]], []⟩, rfl, by decide, by decide⟩

/-- `Pool` (input fits a block): the bytes are stored into `blk[0:len)`, the packet data has
    capacity `maximumMTU` — everything behind `len` is whatever the block held before. -/
theorem newpacket_pool_effects (input : Slice) (o : Opts) (blk : Buf) (h : Heap) (hn : o.noCopy = false)
    (hp : o.pool = true) (hl : input.len ≤ Gp.Gen.Effects.maximumMTU) (hb : input.region.inBounds h) :
    (newPacketData input o blk).answer h = ⟨blk, 0, input.len, Gp.Gen.Effects.maximumMTU⟩ ∧
      (newPacketData input o blk).log h = [.read input.region, .write ⟨blk, 0, input.len⟩] := by
  have hr := newPacketData_pool input o blk h hn hp hl
  have hlen := Heap.read_length h input.region hb
  simp only [Slice.region] at hlen
  simp [Prog.answer, Prog.log, hr, hlen, Slice.region]

/-- `NoCopy`: the packet data IS the caller's slice — same buffer, same capacity, no effect. -/
theorem newpacket_nocopy_alias (input : Slice) (o : Opts) (blk : Buf) (h : Heap) (hn : o.noCopy = true) :
    (newPacketData input o blk).run h = (input, h, []) := newPacketData_nocopy input o blk h hn

/-- Under every option set NewPacket itself stores nothing into memory reachable through the
    caller's slice (the pool block is not the caller's buffer). -/
theorem newpacket_never_writes_input (input : Slice) (o : Opts) (blk : Buf) (h : Heap)
    (hin : h.has input.buf) (hblk : blk ≠ input.buf) :
    ∀ r ∈ writesOf ((newPacketData input o blk).log h), ¬ r.overlaps input.capRegion := by
  intro r hr ho
  by_cases hn : o.noCopy = true
  · rw [Prog.log, newPacketData_nocopy input o blk h hn] at hr
    simp [writesOf] at hr
  · have hn' : o.noCopy = false := by simpa using hn
    by_cases hp : o.pool = true ∧ input.len ≤ Gp.Gen.Effects.maximumMTU
    · rw [Prog.log, newPacketData_pool input o blk h hn' hp.1 hp.2] at hr
      simp only [writesOf, List.mem_cons, List.not_mem_nil, or_false] at hr
      subst hr
      exact hblk ho.1
    · rw [Prog.log, newPacketData_copy input o blk h hn' hp] at hr
      simp only [writesOf, List.mem_cons, List.not_mem_nil, or_false] at hr
      subst hr
      have : Buf.priv h.priv.length = input.buf := ho.1
      rw [← this] at hin
      exact Nat.lt_irrefl _ hin

/-! ## 3. The code as found (`asWritten`): VerifyChecksum writes into the packet buffer -/

/-- EXACT write set of `l.VerifyChecksum()` as found, for every layer cut out of the packet data
    the way the decoders do it (`Adjacent`), every non-empty payload, every heap: the payload's own
    region inside the packet buffer — followed, for a TCP/UDP/ICMPv6 layer attached to an IPv4
    layer, by the two address fields of that (shared) layer object.  The stored VALUES equal what
    was there: the final heap is the initial heap. -/
theorem verify_checksum_effects (L : LayerView) (slack : Nat) (h : Heap)
    (ha : Adjacent L.contents L.payload) (hp : L.payload.len ≠ 0)
    (hb : L.payload.region.inBounds h) (hn : ∀ n, L.net = some n → 0 < h.size n.obj) :
    writesOf ((verify asWritten L slack).log h) = L.payload.region :: pseudoStores L h ∧
      (verify asWritten L slack).final h = h :=
  verify_asWritten_writes L slack h ha hp hb hn

/-- The hypotheses of `verify_checksum_effects` are what decoding produces: a TCP segment with a
    20-byte header and 20 bytes of payload at offset 34 of a 60-byte packet buffer. -/
example : ∃ (L : LayerView) (h : Heap), Adjacent L.contents L.payload ∧ L.payload.len ≠ 0 ∧
    L.payload.region.inBounds h ∧ (∀ n, L.net = some n → 0 < h.size n.obj) :=
  ⟨⟨.tcp, ⟨.shared 0, 34, 20, 26⟩, ⟨.shared 0, 54, 6, 6⟩, none⟩, ⟨[List.replicate 60 7], []⟩,
    by decide, by decide, by decide, by intro n hn; cases hn⟩

/-- The witness DESIGN.md predicted: for every packet data slice `data` (any buffer, any offset,
    any capacity), every header length `hl` and payload end `e` with `hl < e ≤ len(data)`, every
    one of the five layer kinds and every heap, verification as found stores into
    `[off+hl, off+e)` of the PACKET BUFFER — a non-empty region inside the packet data. -/
theorem verify_writes_packet_buffer (k : VKind) (net : Option NetView) (data c p : Slice)
    (hl e slack : Nat) (h : Heap) (h1 : hl < e) (h2 : e ≤ data.len) (hw : data.wf h)
    (hs : split data hl e = .ok (c, p)) (hn : ∀ n, net = some n → 0 < h.size n.obj) :
    let w : Region := ⟨data.buf, data.off + hl, e - hl⟩
    w ∈ writesOf ((verify asWritten ⟨k, c, p, net⟩ slack).log h) ∧
      w.within data.region ∧ 0 < w.len := by
  obtain ⟨hlen, hsz⟩ := hw
  have he : e ≤ data.cap := Nat.le_trans h2 hlen
  obtain ⟨ha, hc, hpp⟩ := split_adjacent data c p hl e (Nat.le_of_lt h1) he hs
  have hpl : p.len ≠ 0 := by subst hpp; simp; omega
  have hb : p.region.inBounds h := by
    subst hpp
    simp only [Region.inBounds, Slice.region]
    omega
  have := (verify_asWritten_writes ⟨k, c, p, net⟩ slack h ha hpl hb hn).1
  refine ⟨?_, ⟨rfl, by simp [Slice.region], by simp [Slice.region]; omega⟩, by simp; omega⟩
  rw [this]
  subst hpp
  simp [Slice.region]

example : ∃ (data : Slice) (hl e : Nat) (h : Heap), hl < e ∧ e ≤ data.len ∧ data.wf h ∧
    ∃ c p, split data hl e = .ok (c, p) :=
  ⟨⟨.shared 0, 34, 26, 26⟩, 20, 26, ⟨[List.replicate 60 7], []⟩, by decide, by decide, by decide,
    _, _, rfl⟩

/-- Consequently verification as found is NOT read-only on shared memory as soon as the packet
    buffer is shared (negation of `verify_checksum_readonly` for the code as found). -/
theorem verify_as_found_not_readonly (k : VKind) (net : Option NetView) (data c p : Slice)
    (hl e slack : Nat) (sh : Mem) (h1 : hl < e) (h2 : e ≤ data.len) (hw : data.wf ⟨sh, []⟩)
    (hs : split data hl e = .ok (c, p)) (hn : ∀ n, net = some n → 0 < (Heap.mk sh []).size n.obj)
    (hshared : data.buf.isShared = true) :
    ¬ RO (verify asWritten ⟨k, c, p, net⟩ slack) sh := by
  intro hro
  have := (verify_writes_packet_buffer k net data c p hl e slack ⟨sh, []⟩ h1 h2 hw hs hn).1
  have := hro [] _ this
  simp [hshared] at this

/-- Under `NoCopy` the packet data is the caller's slice, so the store lands in the CALLER's
    buffer: inside `input[0:len(input))`, non-empty ("the caller's input buffer is never written
    to" fails for the code as found). -/
theorem nocopy_verify_writes_caller_buffer (k : VKind) (net : Option NetView) (input c p : Slice)
    (o : Opts) (blk : Buf) (hl e slack : Nat) (h : Heap) (hno : o.noCopy = true)
    (h1 : hl < e) (h2 : e ≤ input.len) (hw : input.wf h)
    (hs : split ((newPacketData input o blk).answer h) hl e = .ok (c, p))
    (hn : ∀ n, net = some n → 0 < h.size n.obj) :
    ∃ w ∈ writesOf ((verify asWritten ⟨k, c, p, net⟩ slack).log ((newPacketData input o blk).final h)),
      w.within input.region ∧ 0 < w.len := by
  have hr := newPacketData_nocopy input o blk h hno
  simp only [Prog.answer, Prog.final, hr] at hs ⊢
  have := verify_writes_packet_buffer k net input c p hl e slack h h1 h2 hw hs hn
  exact ⟨_, this.1, this.2.1, this.2.2⟩

/-- A pseudo-header over IPv4 as found additionally stores into the IPv4 layer OBJECT, which every
    reader of the packet shares (second defect; independent of the first: it remains when only the
    append is repaired). -/
theorem pseudoheader_as_found_writes_layer_object (L : LayerView) (n : NetView) (slack : Nat) (sh : Mem)
    (hk : L.kind.usesPseudo = true) (hnet : L.net = some n) (h4 : n.kind = .ip4)
    (hobj : n.obj.isShared = true) :
    ¬ RO (verify ⟨.capped, true, false⟩ L slack) sh := by
  intro hro
  have hro' := hro []
  unfold ROFrom at hro'
  unfold verify at hro'
  rw [Prog.log_bind] at hro'
  simp only [hk, if_true, hnet, Facts.pseudoWrites, h4, writesOf_append] at hro'
  have hm : (⟨n.obj, 0, (((concat .capped L.contents L.payload slack).final ⟨sh, []⟩).read n.hdrSrc).length⟩ : Region) ∈
      writesOf (((pseudoheader true n).bind fun ps =>
        Prog.read ((concat .capped L.contents L.payload slack).answer ⟨sh, []⟩).region
          fun bs => Prog.done (some (ps ++ [bs]))).log
        ((concat .capped L.contents L.payload slack).final ⟨sh, []⟩)) := by
    simp [pseudoheader, Prog.bind, writesOf]
  have := hro' _ (List.mem_append_right _ hm)
  simp [hobj] at this

/-- Negation witness, concrete: two goroutines verifying the checksum of ONE packet (an 8-byte
    shared buffer: 4 header bytes, 4 payload bytes, code as found); the schedule that runs the
    first verifier and then the second has a conflicting pair of accesses — a data race. -/
theorem two_verifiers_race_counterexample :
    ¬ NoConflict
      ((Sys.start [[1, 2, 3, 4, 5, 6, 7, 8]]
          [verify asWritten ⟨.gre, ⟨.shared 0, 0, 4, 8⟩, ⟨.shared 0, 4, 4, 4⟩, none⟩ 0,
           verify asWritten ⟨.gre, ⟨.shared 0, 0, 4, 8⟩, ⟨.shared 0, 4, 4, 4⟩, none⟩ 0]).exec
        [0, 0, 0, 1, 1, 1]).2 := by
  rw [← hasConflict_iff]
  decide

/-- The same two goroutines on the code with the fix: no conflict under that schedule
    (and under every other one: `eager_packet_shareable`). -/
example :
    hasConflict
      ((Sys.start [[1, 2, 3, 4, 5, 6, 7, 8]]
          [verify asFixed ⟨.gre, ⟨.shared 0, 0, 4, 8⟩, ⟨.shared 0, 4, 4, 4⟩, none⟩ 0,
           verify asFixed ⟨.gre, ⟨.shared 0, 0, 4, 8⟩, ⟨.shared 0, 4, 4, 4⟩, none⟩ 0]).exec
        [0, 0, 0, 1, 1, 0, 0, 0, 1, 1, 1, 1, 0, 0]).2 = false := by
  decide

/-! ## 4. Read-only goroutines: no race, and everybody gets the answers they would get alone -/

/-- GENERAL THEOREM.  Any number of goroutines, each running any program; if every one of them is
    read-only on shared memory (its solo effect log stores only into its own private buffers),
    then for EVERY schedule — interleaved at single memory operations —
      * the shared heap never changes,
      * at every point each goroutine would still produce the answer it produces when run alone
        from the start (in particular a finished goroutine HAS produced that answer),
      * every store in the trace is private, and
      * no two accesses of different goroutines conflict (conflict = overlapping regions of shared
        memory, at least one a write): there is no data race. -/
theorem race_free_of_readonly {α : Type} (s : Sys α) (hro : AllRO s) (sched : List Nat) :
    (s.exec sched).1.shared = s.shared ∧
    (s.exec sched).1.answers = s.answers ∧
    (∀ e ∈ (s.exec sched).2, ∀ r, e.2 = .write r → r.buf.isShared = false) ∧
    NoConflict (s.exec sched).2 := by
  obtain ⟨h1, _, h3, h4⟩ := Sys.exec_ro s sched hro
  exact ⟨h1, h3, h4, noConflict_of_private_writes _ h4⟩

/-- A goroutine that has finished under some schedule returned exactly what it returns when it
    runs alone on the initial heap; hence two goroutines running the same program got the same
    answer, whatever the schedule and whatever the others did. -/
theorem readers_same_answers {α : Type} (sh : Mem) (ps : List (Prog α)) (hro : ∀ p ∈ ps, RO p sh)
    (sched : List Nat) (i : Nat) (a : α)
    (hfin : ((Sys.start sh ps).exec sched).1.finished i = some a) :
    ∃ p, ps[i]? = some p ∧ a = p.answer ⟨sh, []⟩ := by
  have hall := AllRO_start sh ps hro
  obtain ⟨_, h2, _, _⟩ := race_free_of_readonly (Sys.start sh ps) hall sched
  have := finished_answer _ i a hfin
  rw [h2] at this
  simp only [Sys.answers, Sys.start, List.getElem?_map] at this
  cases hp : ps[i]? with
  | none => simp [hp] at this
  | some p =>
    refine ⟨p, rfl, ?_⟩
    simp [hp] at this
    exact this.symm

/-- Non-vacuity: a system of three read-only goroutines (two of them allocate and fill private
    scratch buffers, as the repaired verification does). -/
example : AllRO (Sys.start [[1, 2, 3, 4, 5, 6, 7, 8]]
    [verify asFixed ⟨.gre, ⟨.shared 0, 0, 4, 8⟩, ⟨.shared 0, 4, 4, 4⟩, none⟩ 0,
     verify asFixed ⟨.gre, ⟨.shared 0, 0, 4, 8⟩, ⟨.shared 0, 4, 4, 4⟩, none⟩ 3,
     (readAll [⟨.shared 0, 0, 8⟩]).bind fun x => .done (some x)]) :=
  AllRO_start _ _ (by
    intro p hp
    simp only [List.mem_cons, List.not_mem_nil, or_false] at hp
    rcases hp with rfl | rfl | rfl
    · exact RO_verify _ _ _ _ rfl rfl rfl
    · exact RO_verify _ _ _ _ rfl rfl rfl
    · exact RO_bind _ _ _ (RO_readAll _ _) fun _ => RO_done _ _)

/-! ## 5. The current source -/

/-- The facts extracted from the current source say: every concatenating append is capped and
    neither pseudo-header stores into its layer.  (Fails to check — and with it the three theorems
    below — when a site is written `append(l.Contents, l.Payload...)` or `pseudoheaderChecksum`
    assigns receiver fields.) -/
theorem current_source_is_repaired (k : VKind) :
    (currentFacts k).appendDst = .capped ∧ (currentFacts k).ip4PseudoWrites = false ∧
      (currentFacts k).ip6PseudoWrites = false := by
  cases k <;> decide

/-- FULL STRENGTH: `VerifyChecksum` of TCP, UDP, ICMPv4, ICMPv6 and GRE as written in the current
    source has an EMPTY write set on shared memory — for every layer (adjacent or not, any
    capacities), every attached network layer, every allocation slack, every shared heap and
    every private heap. -/
theorem verify_checksum_readonly (L : LayerView) (slack : Nat) (sh : Mem) :
    RO (verify (currentFacts L.kind) L slack) sh :=
  RO_verify _ L slack sh (current_source_is_repaired L.kind).1 (current_source_is_repaired L.kind).2.1
    (current_source_is_repaired L.kind).2.2

/-- The repair does not change what verification computes: for every layer cut out of the packet
    data the way the decoders do it (non-empty payload, buffers present), every attached network
    layer, every heap and slack, the repaired code returns the same answer as the code as found. -/
theorem verify_fix_preserves_answers (L : LayerView) (slack : Nat) (h : Heap)
    (ha : Adjacent L.contents L.payload) (hp : L.payload.len ≠ 0)
    (hc : L.contents.region.inBounds h) (hb : L.payload.region.inBounds h)
    (hcb : h.has L.contents.buf)
    (hn : ∀ n, L.net = some n → 0 < h.size n.obj ∧ h.has n.src.buf ∧ h.has n.dst.buf) :
    (verify asFixed L slack).answer h = (verify asWritten L slack).answer h :=
  verify_fixed_same_answer' L slack h ha hp hc hb hcb hn

example : ∃ (L : LayerView) (h : Heap), Adjacent L.contents L.payload ∧ L.payload.len ≠ 0 ∧
    L.contents.region.inBounds h ∧ L.payload.region.inBounds h ∧ h.has L.contents.buf ∧
    (∀ n, L.net = some n → 0 < h.size n.obj ∧ h.has n.src.buf ∧ h.has n.dst.buf) :=
  ⟨⟨.udp, ⟨.shared 0, 34, 8, 26⟩, ⟨.shared 0, 42, 18, 18⟩,
      some ⟨.ip4, .shared 1, ⟨.shared 0, 26, 4⟩, ⟨.shared 0, 30, 4⟩⟩⟩,
    ⟨[List.replicate 60 7, List.replicate 48 1], []⟩,
    by decide, by decide, by decide, by decide, by decide,
    by intro n hn; cases hn; exact ⟨by decide, by decide, by decide⟩⟩

/-- The repaired verification stays inside its buffers: every load and store of its log is in
    bounds of the final heap — the model's total (clipping) read/write functions are never
    exercised outside a buffer by the central program. -/
theorem verify_accesses_in_bounds (L : LayerView) (slack : Nat) (h : Heap) (hp : L.payload.len ≠ 0)
    (hc : L.contents.region.inBounds h) (hb : L.payload.region.inBounds h)
    (hcb : h.has L.contents.buf) (hpb : h.has L.payload.buf)
    (hn : ∀ n, L.net = some n →
      (n.hdrSrc.inBounds h ∧ n.hdrDst.inBounds h ∧ n.src.inBounds h ∧ n.dst.inBounds h) ∧
      (h.has n.obj ∧ h.has n.src.buf ∧ h.has n.dst.buf)) :
    LogInBounds ((verify asFixed L slack).log h) ((verify asFixed L slack).final h) :=
  verify_fixed_inBounds L slack h hp hc hb hcb hpb hn

/-- Every accessor of an eager packet — Layers, Layer, LayerClass, the five special-layer
    getters, Data, Metadata, LayerContents/LayerPayload, flows, String, Dump, LayerString,
    LayerDump, every layer's VerifyChecksum, Packet.VerifyChecksums — is read-only on shared
    memory (pure loads; verification stores only into its private scratch buffer). -/
theorem eager_accessors_readonly (slack : Nat) (sh : Mem) (p : PacketView) (a : Accessor) :
    RO (accessor currentFacts slack p a) sh :=
  RO_accessor currentFacts slack sh p a current_source_is_repaired

/-- COROLLARY (the second sentence of the property).  One eager packet `p`, any number of
    goroutines, goroutine `i` performing the accessor calls `calls[i]` (any sequence, checksum
    verification and rendering included), any schedule of their individual memory operations:
    the shared memory (packet buffer, layer objects, the caller's buffer under NoCopy) is never
    stored to, no two accesses conflict, and a goroutine that has finished returned exactly the
    answers it returns when it is the only reader. -/
theorem eager_packet_shareable (p : PacketView) (slack : Nat) (sh : Mem)
    (calls : List (List Accessor)) (sched : List Nat) :
    let s := Sys.start sh (calls.map (reader currentFacts slack p))
    (s.exec sched).1.shared = sh ∧
    NoConflict (s.exec sched).2 ∧
    (∀ e ∈ (s.exec sched).2, ∀ r, e.2 = .write r → r.buf.isShared = false) ∧
    (∀ i a, (s.exec sched).1.finished i = some a →
      ∃ as, calls[i]? = some as ∧ a = (reader currentFacts slack p as).answer ⟨sh, []⟩) := by
  intro s
  have hro : ∀ q ∈ calls.map (reader currentFacts slack p), RO q sh := by
    intro q hq
    obtain ⟨as, _, rfl⟩ := List.mem_map.1 hq
    exact RO_reader currentFacts slack sh p as current_source_is_repaired
  obtain ⟨h1, _, h3, h4⟩ := race_free_of_readonly s (AllRO_start sh _ hro) sched
  refine ⟨h1, h4, h3, ?_⟩
  intro i a hfin
  obtain ⟨q, hq, ha⟩ := readers_same_answers sh _ hro sched i a hfin
  rw [List.getElem?_map] at hq
  cases hc : calls[i]? with
  | none => simp [hc] at hq
  | some as =>
    simp [hc] at hq
    exact ⟨as, rfl, by rw [ha, ← hq]⟩

/-- Two readers making the same calls get the same answers. -/
theorem equal_calls_equal_answers (p : PacketView) (slack : Nat) (sh : Mem)
    (calls : List (List Accessor)) (sched : List Nat) (i j : Nat) (a b : List (List Bytes))
    (hi : ((Sys.start sh (calls.map (reader currentFacts slack p))).exec sched).1.finished i = some a)
    (hj : ((Sys.start sh (calls.map (reader currentFacts slack p))).exec sched).1.finished j = some b)
    (hsame : calls[i]? = calls[j]?) : a = b := by
  obtain ⟨as, h1, ha⟩ := (eager_packet_shareable p slack sh calls sched).2.2.2 i a hi
  obtain ⟨bs, h2, hb⟩ := (eager_packet_shareable p slack sh calls sched).2.2.2 j b hj
  rw [hsame, h2] at h1
  cases h1
  rw [ha, hb]

end Gp.C02.Effects
