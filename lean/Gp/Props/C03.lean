import Gp.Lemmas.Packet
/-
  C03 — Lazy decoding is observationally equivalent to eager decoding.

  Model: Gp/Model/Packet.lean (packet.go's eagerPacket / lazyPacket, transcribed; a decoder
  behaviour is data).  Definitions used below are in Gp/Lemmas/Packet.lean:
    * `DM μ tab`   the discipline on decoder tables relative to a termination measure
                   `μ : DecId → Nat → Nat`: every decoder body is builder calls followed by
                   `return nil/err`, a panic, or `return p.NextDecoder(d')`; the latter only after an
                   AddLayer of its own, the callee on that layer's payload having a strictly smaller
                   measure (or the payload being empty).  `D tab = DM lenMeasure tab` is plain progress
                   (payload strictly shorter than the input, or empty); other measures cover decoders
                   that hand their whole input to a *different* decoder (`zero_progress_hop` below).
                   Without any such measure eager decoding recurses without bound and lazy accessors
                   spin.  For scripted tables D is the decidable check `SBeh.disc` (`scriptTable_D`);
                   for the real decoders the syntactic clauses are monitored on the trace of every
                   decode by the adapter.
    * `force`      decode all layers of a lazy packet (what Layers()/String()/Dump() do first);
    * `runLazy` / `runEager`  the answers of an accessor program on a lazy / eager packet.
  `recover = true` throughout (SkipDecodeRecovery off, as in the property).  Fuel: the model's
  loops carry a fuel; every theorem holds for EVERY fuel ≥ μ(first,|data|)+2, and states that the fuel is
  never exhausted (no `diverge`), i.e. the fuel is a proof device, not a bound on the input.
-/
namespace Gp.C03
open Gp Gp.Pkt

/-- Under D, NewPacket(eager) returns, and it returns exactly the packet that forcing the lazy
    packet produces (the refinement at the heart of C03). -/
theorem eager_eq_forced (μ : Measure) (tab : Table) (hD : DM μ tab) (data : Bytes) (hne : data ≠ []) (first : DecId)
    (fuelE fuelL : Nat) (hE : μ first data.length + 1 ≤ fuelE) (hL : μ first data.length + 2 ≤ fuelL) :
    ∃ q, newEager tab fuelE true data (some first) = .ok q
       ∧ force tab fuelL (newLazy data (some first)) = some q := by
  have hlen : data.length ≠ 0 := by
    intro h; exact hne (List.eq_nil_of_length_eq_zero h)
  obtain ⟨p', out, h1, h2⟩ :=
    eager_force_sim μ tab hD fuelE fuelL first 0 data.length { data := data } hlen rfl hE hL
  refine ⟨finish p' out, ?_, h2⟩
  simp only [newEager, h1]
  cases out with
  | ret e => cases e <;> rfl
  | panic => rfl

/-- C03, main statement: for every disciplined table, every non-empty input, every first decoder
    and EVERY accessor program (any order, any repetition of Layer(t), LayerClass(c), LinkLayer,
    NetworkLayer, TransportLayer, ApplicationLayer, ErrorLayer, Layers, String, Dump) the lazy
    packet answers each call exactly as the eager packet does — in particular no call panics or
    fails to return. -/
theorem lazy_eq_eager (μ : Measure) (tab : Table) (hD : DM μ tab) (data : Bytes) (hne : data ≠ []) (first : DecId)
    (prog : List Acc) (fuel : Nat) (hf : μ first data.length + 2 ≤ fuel) :
    ∃ q, newEager tab fuel true data (some first) = .ok q
       ∧ runLazy tab true fuel prog (newLazy data (some first)) = runEager prog q := by
  obtain ⟨q, h1, h2⟩ := eager_eq_forced μ tab hD data hne first fuel fuel (by omega) hf
  exact ⟨q, h1, (runLazy_force tab fuel prog _ q h2).1⟩

/-- The plain-progress instance: for tables in D any fuel ≥ |data|+2 will do. -/
theorem lazy_eq_eager_progress (tab : Table) (hD : D tab) (data : Bytes) (hne : data ≠ []) (first : DecId)
    (prog : List Acc) (fuel : Nat) (hf : data.length + 2 ≤ fuel) :
    ∃ q, newEager tab fuel true data (some first) = .ok q
       ∧ runLazy tab true fuel prog (newLazy data (some first)) = runEager prog q :=
  lazy_eq_eager lenMeasure tab hD data hne first prog fuel hf

/-- The answers do not depend on the fuel (any two sufficient fuels give the same packet and the
    same answers): the fuel is not an artefact that could hide non-termination. -/
theorem lazy_eq_eager_any_fuel (μ : Measure) (tab : Table) (hD : DM μ tab) (data : Bytes) (hne : data ≠ []) (first : DecId)
    (prog : List Acc) (f1 f2 : Nat) (h1 : μ first data.length + 2 ≤ f1) (h2 : μ first data.length + 2 ≤ f2) :
    runLazy tab true f1 prog (newLazy data (some first)) = runLazy tab true f2 prog (newLazy data (some first))
      ∧ newEager tab f1 true data (some first) = newEager tab f2 true data (some first) := by
  obtain ⟨q, a1, a2⟩ := eager_eq_forced μ tab hD data hne first f1 f1 (by omega) h1
  obtain ⟨q', b1, b2⟩ := eager_eq_forced μ tab hD data hne first f1 f2 (by omega) h2
  have : q = q' := by rw [a1] at b1; cases b1; rfl
  subst this
  have hq : newEager tab f2 true data (some first) = .ok q := by
    obtain ⟨r, d1, d2⟩ := eager_eq_forced μ tab hD data hne first f2 f1 (by omega) h1
    rw [a2] at d2; cases d2; exact d1
  exact ⟨by rw [(runLazy_force tab f1 prog _ q a2).1, (runLazy_force tab f2 prog _ q b2).1], by rw [a1, hq]⟩

/-- Once all layers have been requested (Layers(), String() or Dump(), after ANY accessor program)
    the lazy packet's whole state is the eager packet: same layers, special layers, error layer,
    truncated flag, and nothing left to decode — so rendered strings agree too. -/
theorem lazy_full_then_equal (μ : Measure) (tab : Table) (hD : DM μ tab) (data : Bytes) (hne : data ≠ []) (first : DecId)
    (prog : List Acc) (a : Acc) (ha : a = .layers ∨ a = .string ∨ a = .dump)
    (fuel : Nat) (hf : μ first data.length + 2 ≤ fuel) :
    ∃ q, newEager tab fuel true data (some first) = .ok q
       ∧ (lazyAcc tab true fuel a (stateAfter tab true fuel prog (newLazy data (some first)))).1 = ⟨q, none⟩ := by
  obtain ⟨q, h1, h2⟩ := eager_eq_forced μ tab hD data hne first fuel fuel (by omega) hf
  refine ⟨q, h1, ?_⟩
  have h3 := (runLazy_force tab fuel prog _ q h2).2
  rcases ha with rfl | rfl | rfl
  · exact force_all_state tab fuel _ q _ h3
  · exact force_all_state tab fuel _ q _ h3
  · exact force_all_state tab fuel _ q _ h3

/-- Independent of D (ALL tables, also undisciplined ones): whatever forcing the lazy packet
    yields, every accessor program answers from that final packet — lazy accessors never expose an
    intermediate state that later changes.  (D is only needed to identify the forced packet with
    the eager one.) -/
theorem lazy_answers_are_final (tab : Table) (lp : LPkt) (q : Pkt) (fuel : Nat) (prog : List Acc)
    (h : force tab fuel lp = some q) :
    runLazy tab true fuel prog lp = runEager prog q := (runLazy_force tab fuel prog lp q h).1

/-! ### The hypotheses are needed -/

/-- A two-decoder table outside D: decoder 0 calls NextDecoder BEFORE adding a layer. -/
def cexTable : Table := fun d _ off len =>
  match d with
  | 0 => .next (some 1) (.ret false) (.ret true)
  | _ =>
    let l : Layer := { id := 7, ty := 50, coff := off, clen := 1, poff := off + 1, plen := len - 1, fail := false }
    .act (.add l) (.act (.setLink l) (.ret false))

/-- Outside D lazy and eager differ: eager's NextDecoder fails with ErrNoLayersAdded (the packet is
    one DecodeFailure), lazy's stores the decoder and later decodes a layer with it. -/
theorem not_D_counterexample :
    ¬ D cexTable ∧
    runLazy cexTable true 4 [.link, .err, .layers] (newLazy [1, 2] (some 0))
      ≠ (match newEager cexTable 4 true [1, 2] (some 0) with
         | .ok q => runEager [.link, .err, .layers] q
         | _ => []) := by
  refine ⟨?_, by decide⟩
  intro h
  have := h 0 [] 0 1
  simp [cexTable, DBeh] at this

/-- Empty input, exactly as the code behaves: the lazy packet never calls the first decoder —
    every accessor answers "nothing" — for EVERY table and first decoder … -/
theorem empty_input_lazy (tab : Table) (first : Option DecId) (prog : List Acc) (fuel : Nat) :
    runLazy tab true (fuel + 1) prog (newLazy [] first) = runEager prog { data := [] } := by
  apply lazy_answers_are_final
  cases first with
  | none => exact force_of_none _ _ _ rfl
  | some d =>
    rw [show newLazy [] (some d) = ⟨{ data := [] }, some d⟩ from rfl,
        force_succ_of_some tab fuel _ d rfl, step_empty tab true _ d 0 rfl]
    exact force_of_none _ _ _ rfl

/-- … while the eager packet does call it (on zero bytes); a decoder that rejects empty input —
    as the real ones do — makes the eager packet a DecodeFailure.  Hence "non-empty" in C03. -/
theorem empty_input_differs :
    ∃ tab : Table, D tab ∧
      runLazy tab true 2 [.err, .layers] (newLazy [] (some 0))
        ≠ (match newEager tab 2 true [] (some 0) with
           | .ok q => runEager [.err, .layers] q
           | _ => []) :=
  ⟨fun _ _ _ _ => .ret true, by intro d data off len; simp [DBeh], by decide⟩

/-- A nil first decoder (not a layer type; outside C03's quantifier): lazily nothing is ever
    decoded, eagerly the nil call panics and is recovered into a DecodeFailure. -/
theorem nil_first_decoder_differs (tab : Table) (data : Bytes) (fuel : Nat) :
    runLazy tab true fuel [.err, .layers] (newLazy data none) = [.layer none, .layers []]
      ∧ ∃ q, newEager tab fuel true data none = .ok q ∧ q.failure.isSome ∧ q.layers.length = 1 := by
  refine ⟨?_, addFinal { data := data }, rfl, rfl, rfl⟩
  rw [lazy_answers_are_final tab (newLazy data none) { data := data } fuel _ (force_of_none _ _ _ rfl)]
  rfl

/-- A decoder that hands its WHOLE input on to a different decoder (a zero-length header: what
    RadioTap does when its Length field is 0) is outside plain progress D but inside `DM μ` for a
    measure that ranks it above its callee — so the equivalence theorem covers it. -/
def hopTable : Table := fun d _ off len =>
  match d with
  | 0 => .act (.add { id := 1, ty := 50, coff := off, clen := 0, poff := off, plen := len, fail := false })
          (.next (some 1) (.ret false) (.ret true))
  | _ => .act (.add { id := 2, ty := 51, coff := off, clen := len, poff := off + len, plen := 0, fail := false }) (.ret false)

def hopMeasure : Measure := fun d len => if d = 0 then 2 * len + 1 else 2 * len

theorem zero_progress_hop : ¬ D hopTable ∧ DM hopMeasure hopTable := by
  constructor
  · intro h
    have := h 0 [] 0 1
    simp [hopTable, DBeh, lenMeasure, Layer.payLen] at this
  · intro d data off len
    match d with
    | 0 => simp [hopTable, DBeh, hopMeasure, Layer.payLen]
    | n + 1 => simp [hopTable, DBeh]

example : runLazy hopTable true 9 [.layer 51, .layers] (newLazy [1, 2, 3] (some 0))
    = (match newEager hopTable 9 true [1, 2, 3] (some 0) with
       | .ok q => runEager [.layer 51, .layers] q
       | _ => []) := by decide

/-! ### Non-vacuity: a disciplined three-decoder table with an error at the end -/

def exScripts : List SBeh :=
  [ .act (.add (.rel 1 50 2 2 99 false)) (.act (.setLink (.rel 1 50 2 2 99 false)) (.next (some 1) (.ret false) (.ret true))),
    .act (.add (.rel 2 51 1 1 99 false)) (.act .trunc (.next (some 2) (.ret false) (.ret true))),
    .ret true ]

example : D (scriptTable exScripts) := scriptTable_D _ (by decide)

example : runLazy (scriptTable exScripts) true 6 [.err, .link, .layer 51, .layers] (newLazy [1, 2, 3, 4, 5] (some 0))
    = (match newEager (scriptTable exScripts) 6 true [1, 2, 3, 4, 5] (some 0) with
       | .ok q => runEager [.err, .link, .layer 51, .layers] q
       | _ => []) := by decide

example : (match newEager (scriptTable exScripts) 6 true [1, 2, 3, 4, 5] (some 0) with
    | .ok q => q.layers.length | _ => 0) = 3 := by decide

end Gp.C03
