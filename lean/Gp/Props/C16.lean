import Gp.Lemmas.PSourcePull
/-
  C16 — Packet source delivers each packet once, in order, intact; shuts down cleanly.

  Model: `Gp/Model/PSource.lean` (packet.go: concat.ReadPacketData, NewPacketSource,
  NewZeroCopyPacketSource [with fix psrc-1], NextPacket, packetsToChannel, PacketsCtx).
  Property theorems only; helper lemmas live in `Gp/Lemmas/PSource*.lean`.

  Quantification: every theorem about the channel interface is over ALL histories `h0`,
  ALL configurations `cfg` (any capacity, any decoder verdict), and ALL interleavings:
  `Reachable cfg (init h0 c0) s` is the reflexive-transitive closure of `step` under any
  choice of label (producer segment, consumer receive, cancel) — no bound on length.

  Definitions occurring in statements (all in the Model file):
    specPkts dt h   the packets of history h as (data, capture info, truncated) triples
    upToStop h      the events strictly before the first one that stops the loop
    St.all s        recvd ++ chan ++ (packet held at the select) ++ dropped
    view heap p     what p.Data() returns NOW;  p.orig (ghost) = bytes p was decoded from
    Stable cfg      ¬NoCopy ∨ source does not reuse its buffer
    NoStop l        no event of l stops the loop
-/
namespace Gp.C16
open Gp Gp.PSource

/-- the scripted decoder of the adapter: truncated iff first byte ≥ 0x80 -/
def dtEx : Bytes → Bool
  | b :: _ => decide (b ≥ 128)
  | [] => false

def ciEx (caplen len : Int) (tag : Nat) : CapInfo := ⟨caplen, len, tag⟩

/-! ## 1. NextPacket: metadata and the truncated flag -/

/-- A packet read is returned with exactly the capture info of that read, decoded from exactly
    the bytes of that read (`Data()` at return time = those bytes, in every copy mode), and
    `Truncated ⇔ decoder said truncated ∨ CaptureLength < Length`. -/
theorem next_packet_meta (cfg : Cfg) (src : Src) (d : Bytes) (ci : CapInfo) (h : List Ev)
    (hh : src.hist = .pkt d ci :: h) :
    ∃ p src', nextPacket cfg src = some (.pkt p, src') ∧ src'.hist = h ∧
      p.ci = ci ∧ p.orig = d ∧ view src'.heap p = some d ∧
      (p.trunc = true ↔ (cfg.decTrunc d = true ∨ ci.caplen < ci.len)) := by
  refine ⟨(decode cfg src.heap d ci).2, { hist := h, heap := (decode cfg src.heap d ci).1 }, ?_, rfl, ?_, ?_, ?_, ?_⟩
  · simp [nextPacket, hh]
  · exact (decode_len cfg src.heap d ci).2.2
  · exact (decode_len cfg src.heap d ci).2.1
  · exact decode_view cfg src.heap d ci
  · simp [decode]

example : ∃ p s', nextPacket (newPacketSource false dtEx) { hist := [.pkt [1, 2, 3] (ciEx 3 9 7)] } = some (.pkt p, s')
    ∧ p.trunc = true ∧ p.ci.tag = 7 := ⟨_, _, rfl, by decide, rfl⟩

/-- An error of the data source is passed through unchanged; nothing else happens. -/
theorem next_packet_error (cfg : Cfg) (src : Src) (e : SrcErr) (h : List Ev) (hh : src.hist = .err e :: h) :
    nextPacket cfg src = some (.err e, { src with hist := h }) := by
  simp [nextPacket, hh]

/-! ## 2. Pull interface: exactly the history, in order -/

/-- `n` successive NextPacket calls return exactly the first `n` results of the data source, in
    order: each packet with its data, capture info and truncated flag, each error passed through
    as it was; the source is left at position `n`.  Nothing is lost or duplicated around
    timeouts / temporary errors (they are just elements of the history). -/
theorem pull_interface_exact (cfg : Cfg) (n : Nat) (src : Src) :
    (pullN cfg n src).1.map NP.spec = (src.hist.take n).map (specOfEv cfg.decTrunc)
    ∧ (pullN cfg n src).2.hist = src.hist.drop n :=
  pullN_spec cfg n src

/-- Copying decode or a non-reusing source: every packet returned by the pull interface is
    still intact after all later reads. -/
theorem pull_interface_stable (cfg : Cfg) (hst : Stable cfg) (n : Nat) (src : Src) :
    ∀ p, NP.pkt p ∈ (pullN cfg n src).1 → view (pullN cfg n src).2.heap p = some p.orig :=
  pullN_intact cfg hst n src

example : Stable (newZeroCopyPacketSource false dtEx) := Or.inl rfl

/-- The documented caller contract, reproduced by the model and NOT a defect: NextPacket with
    NoCopy on a zero-copy source returns packets that later reads overwrite. -/
example :
    let r := pullN (newZeroCopyPacketSource true dtEx) 2 { hist := [.pkt [0xaa, 0xaa] (ciEx 2 2 0), .pkt [0xbb] (ciEx 1 1 1)] }
    r.1.map (fun x => match x with | .pkt p => view r.2.heap p | .err _ => none) = [some [0xbb, 0xaa], some [0xbb]] := by
  decide

/-! ## 3. ConcatFinitePacketDataSources -/

/-- `n` reads of the concatenated source return the results of the first source up to (not
    including) its io.EOF, then those of the second, …, then io.EOF forever. -/
theorem concat_exact (n : Nat) (c : List (List Ev)) :
    (concatReadN n c).1 = (concatHist c).take n ++ List.replicate (n - (concatHist c).length) eofEv :=
  concatReadN_spec n c

/-- With inner sources that report io.EOF only by being exhausted, that is the plain
    concatenation of their histories. -/
theorem concat_flatten (c : List (List Ev)) (h : ∀ s ∈ c, ∀ ev ∈ s, ev.isEOF = false) :
    concatHist c = c.flatten :=
  concatHist_flatten c h

example : (concatReadN 4 [[.pkt [1] (ciEx 1 1 0)], [], [.temp, .pkt [2] (ciEx 1 1 1)]]).1
    = [.pkt [1] (ciEx 1 1 0), .temp, .pkt [2] (ciEx 1 1 1), eofEv] := by decide

/-! ## 4. Channel interface: prefix, exactly once, in order -/

/-- In every reachable state: what the consumer has received is a prefix (same order, no
    duplicates, nothing skipped) of the packets of the history; every packet decoded so far is
    in exactly one place (received, buffered in the channel, held at the select, or dropped by
    the cancel branch) and these places concatenated ARE the packets of the consumed history;
    nothing is dropped unless the context was cancelled, and then at most one packet; the
    producer never reads beyond the first stopping error; the channel never exceeds its
    capacity. -/
theorem channel_prefix (cfg : Cfg) (h0 : List Ev) (c0 : Bool) (s : St)
    (hr : Reachable cfg (init h0 c0) s) :
    (∃ rest, s.recvd.map Pkt.spec ++ rest = specPkts cfg.decTrunc h0)
    ∧ s.past ++ s.hist = h0
    ∧ (s.recvd ++ s.chan ++ inflight s.pc ++ s.dropped).map Pkt.spec = specPkts cfg.decTrunc s.past
    ∧ (s.cancelled = false → s.dropped = [])
    ∧ s.dropped.length ≤ 1
    ∧ (∀ pre ev, s.past = pre ++ [ev] → NoStop pre)
    ∧ s.chan.length ≤ cfg.cap := by
  have inv := inv_reachable hr
  refine ⟨?_, inv.h.hist, inv.h.cons, inv.h.drC, inv.h.dr1, inv.st.nsPre, inv.h.capb⟩
  have hc := inv.h.cons
  have hh := inv.h.hist
  refine ⟨(s.chan ++ inflight s.pc ++ s.dropped).map Pkt.spec ++ specPkts cfg.decTrunc s.hist, ?_⟩
  rw [← hh, specPkts_append, ← hc]
  simp [St.all]

/-- Without cancellation nothing is lost: received ++ buffered ++ held = all packets read so far. -/
theorem channel_no_loss (cfg : Cfg) (h0 : List Ev) (s : St)
    (hr : Reachable cfg (init h0 false) s) (hc : s.cancelled = false) :
    (s.recvd ++ s.chan ++ inflight s.pc).map Pkt.spec = specPkts cfg.decTrunc s.past := by
  have inv := inv_reachable hr
  have := inv.h.cons
  simpa [St.all, inv.h.drC hc] using this

/-! ## 5. Closing -/

/-- Once the data source has returned a stopping error the producer is on its way out
    (it never goes back to reading). -/
theorem channel_closes_after_stop (cfg : Cfg) (h0 : List Ev) (c0 : Bool) (s : St)
    (hr : Reachable cfg (init h0 c0) s) (hs : ∃ ev ∈ s.past, ev.isStop = true) :
    s.pc = .closing ∨ s.pc = .exited := by
  have inv := inv_reachable hr
  rcases hs with ⟨ev, hev, hst⟩
  cases hpc : s.pc with
  | closing => exact Or.inl rfl
  | exited => exact Or.inr rfl
  | check => have := inv.st.nsRun (by simp [hpc, running]) ev hev; simp [hst] at this
  | reading => have := inv.st.nsRun (by simp [hpc, running]) ev hev; simp [hst] at this
  | sending p => have := inv.st.nsRun (by simp [hpc, running]) ev hev; simp [hst] at this

/-- From `closing` the close is always enabled (never blocked) and leads to a closed channel. -/
theorem channel_closes_enabled (cfg : Cfg) (s : St) (hpc : s.pc = .closing) :
    ∃ s', step cfg s .close = some s' ∧ s'.closed = true ∧ s'.pc = .exited := by
  exact ⟨{ s with closed := true, closes := s.closes + 1, pc := .exited }, by simp [step, stepClose, hpc], rfl, rfl⟩

/-- The channel is closed at most once, and it is closed exactly when the goroutine is gone. -/
theorem channel_closed_once (cfg : Cfg) (h0 : List Ev) (c0 : Bool) (s : St)
    (hr : Reachable cfg (init h0 c0) s) :
    s.closes ≤ 1 ∧ (s.closed = true ↔ s.pc = .exited) ∧ (s.closed = true ↔ s.closes = 1) := by
  have inv := inv_reachable hr
  have hk := inv.k.closes
  refine ⟨?_, inv.k.closedIff, ?_⟩
  · rw [hk]; split <;> omega
  · rw [hk]; cases s.closed <;> simp

/-- After the producer is gone everything it sent is still receivable, in order, and then the
    consumer sees the close (any history, cancelled or not). -/
theorem channel_drains (cfg : Cfg) (h0 : List Ev) (c0 : Bool) (s : St)
    (hr : Reachable cfg (init h0 c0) s) (hpc : s.pc = .exited) :
    ∃ s', drain s.chan.length s = some s' ∧ s'.chan = [] ∧ s'.recvd = s.recvd ++ s.chan ∧
      stepRecv s' = some { s' with sawClose := true } := by
  have inv := inv_reachable hr
  have hcl : s.closed = true := inv.k.closedIff.mpr hpc
  refine ⟨_, drain_all s, rfl, rfl, ?_⟩
  simp [stepRecv, hcl]

/-- End of input, no cancellation: when the goroutine has exited, received ++ still-buffered is
    EXACTLY the packets before the first stopping error — nothing lost, nothing duplicated,
    whatever the interleaving was. -/
theorem channel_closes (cfg : Cfg) (h0 : List Ev) (s : St)
    (hr : Reachable cfg (init h0 false) s) (hpc : s.pc = .exited) (hc : s.cancelled = false) :
    s.closed = true ∧ s.closes = 1 ∧
    (s.recvd ++ s.chan).map Pkt.spec = specPkts cfg.decTrunc (upToStop h0) := by
  have inv := inv_reachable hr
  have hcl : s.closed = true := inv.k.closedIff.mpr hpc
  refine ⟨hcl, by simp [inv.k.closes, hcl], ?_⟩
  rcases inv.st.lastStop (by simp [hpc, running]) hc with ⟨pre, ev, hpast, hstop⟩
  have hns := inv.st.nsPre pre ev hpast
  have hup : upToStop h0 = pre := by
    rw [← inv.h.hist, hpast, List.append_assoc]
    exact upToStop_append_stop pre ev _ hns hstop
  have hcons := inv.h.cons
  rw [hup]
  have hev : specPkts cfg.decTrunc [ev] = [] := by
    cases ev with
    | pkt d ci => simp [Ev.isStop] at hstop
    | err e => rfl
  simpa [St.all, hpc, inflight, inv.h.drC hc, hpast, specPkts_append, hev] using hcons

example : ∃ s, runLabels (newPacketSource false dtEx)
      (init [.pkt [1] (ciEx 1 1 0), .timeout, .pkt [2] (ciEx 1 1 1), .terminal .eof, .pkt [3] (ciEx 1 1 2)] false)
      [.check, .readRet, .send, .recv, .check, .readRet, .check, .readRet, .send, .check, .readRet, .close] = some s
    ∧ s.pc = .exited ∧ s.cancelled = false ∧ (s.recvd ++ s.chan).map (·.orig) = [[1], [2]] :=
  ⟨_, rfl, by decide, by decide, by decide⟩

/-! ## 6. Progress -/

/-- The system never deadlocks: while the producer is alive and the data source has something
    to return, some non-cancel step is enabled (capacity ≥ 1). -/
theorem no_deadlock (cfg : Cfg) (hcap : 1 ≤ cfg.cap) (s : St) (hne : s.pc ≠ .exited) (hh : s.hist ≠ []) :
    ∃ l, l ≠ .cancel ∧ (step cfg s l).isSome = true := by
  by_cases hfull : ∃ p, s.pc = .sending p ∧ ¬ (s.chan.length < cfg.cap)
  · rcases hfull with ⟨p, _, hlen⟩
    refine ⟨.recv, by simp, ?_⟩
    cases hch : s.chan with
    | nil => simp [hch] at hlen; omega
    | cons q c => simp [step, stepRecv, hch]
  · rcases prod_enabled cfg s hne (fun _ => hh) (fun p hp => by
      by_cases hl : s.chan.length < cfg.cap
      · exact Or.inl hl
      · exact absurd ⟨p, hp, hl⟩ hfull) with ⟨l, hl, he⟩
    exact ⟨l, by intro h; subst h; simp [Label.isProd] at hl, he⟩

/-- Every producer step strictly decreases `4·|remaining history| + rank(pc)`; consumer and
    cancel steps leave it unchanged.  Hence in ANY run the producer makes at most
    `4·|h0| + 2` steps: no spinning without consuming the history. -/
theorem producer_terminates (cfg : Cfg) (s s' : St) (l : Label) (hs : step cfg s l = some s') :
    (l.isProd = true → measure s' < measure s) ∧ (l.isProd = false → measure s' = measure s) :=
  measure_step (step_sound hs)

/-! ## 7. Cancellation -/

/-- After cancel: at most ONE data-source read returns (the one that was in progress), a read
    never starts, at most one packet is dropped, and the producer is never blocked anywhere
    but in that read — in particular not on a full channel with a stalled consumer. -/
theorem cancel_stops (cfg : Cfg) (h0 : List Ev) (c0 : Bool) (s : St)
    (hr : Reachable cfg (init h0 c0) s) (hc : s.cancelled = true) :
    s.readsAfterCancel ≤ 1
    ∧ (s.pc = .reading → s.readsAfterCancel = 0)
    ∧ (∀ s', step cfg s .check = some s' → s'.pc = .closing)
    ∧ s.dropped.length ≤ 1
    ∧ (s.pc ≠ .exited → (s.pc = .reading → s.hist ≠ []) → ∃ l, l.isProd = true ∧ (step cfg s l).isSome = true) := by
  have inv := inv_reachable hr
  refine ⟨inv.c.rac1, inv.c.rd, ?_, inv.h.dr1, ?_⟩
  · intro s' hs
    cases step_sound hs with
    | checkGo hpc hcc => simp [hc] at hcc
    | checkStop hpc hcc => rfl
  · intro hne hrd
    exact prod_enabled cfg s hne hrd (fun _ _ => Or.inr hc)

/-- Once cancelled, every producer step strictly decreases `cancelRank` (≤ 4): the read in
    progress returns, the select, the loop test, the close — then the goroutine is gone.
    Consumer steps do not move the producer.  Cancellation is permanent. -/
theorem cancel_bound (cfg : Cfg) (s s' : St) (l : Label) (hs : step cfg s l = some s') (hc : s.cancelled = true) :
    (l.isProd = true → cancelRank s'.pc < cancelRank s.pc) ∧ (l.isProd = false → s'.pc = s.pc)
    ∧ s'.cancelled = true ∧ cancelRank s.pc ≤ 4 := by
  have h := cancelRank_step (step_sound hs) hc
  refine ⟨h.1, h.2, cancelled_mono (step_sound hs) hc, ?_⟩
  cases s.pc <;> simp [cancelRank]

/-- Before cancel no read is counted as "after cancel" (the counter is not vacuous). -/
theorem cancel_counter_zero_before (cfg : Cfg) (h0 : List Ev) (c0 : Bool) (s : St)
    (hr : Reachable cfg (init h0 c0) s) (hc : s.cancelled = false) : s.readsAfterCancel = 0 :=
  (inv_reachable hr).c.nc hc

/-- What the code guarantees about the packet of the read in progress at cancel time: nothing.
    With room in the channel the select may deliver it … -/
example : ∃ s, runLabels (newPacketSource false dtEx) (init [.pkt [1] (ciEx 1 1 0), .pkt [2] (ciEx 1 1 1)] false)
      [.check, .cancel, .readRet, .send, .check, .close, .recv] = some s
    ∧ s.readsAfterCancel = 1 ∧ s.recvd.map (·.orig) = [[1]] ∧ s.dropped = [] ∧ s.closed = true :=
  ⟨_, rfl, by decide, by decide, by decide, by decide⟩

/-- … or drop it (Go's select chooses among ready cases at random). -/
example : ∃ s, runLabels (newPacketSource false dtEx) (init [.pkt [1] (ciEx 1 1 0), .pkt [2] (ciEx 1 1 1)] false)
      [.check, .cancel, .readRet, .selCancel, .close, .recv] = some s
    ∧ s.readsAfterCancel = 1 ∧ s.recvd = [] ∧ s.dropped.map (·.orig) = [[1]] ∧ s.sawClose = true :=
  ⟨_, rfl, by decide, by decide, by decide, by decide⟩

/-- A context cancelled before PacketsCtx: the goroutine closes the channel without reading. -/
example : ∃ s, runLabels (newPacketSource false dtEx) (init [.pkt [1] (ciEx 1 1 0)] true) [.check, .close] = some s
    ∧ s.past = [] ∧ s.closed = true := ⟨_, rfl, by decide, by decide⟩

/-! ## 8. Delivered packets are never altered by later reads -/

/-- Copying decode (or a source that does not reuse its buffer): in every reachable state every
    packet decoded so far — received, queued, held or dropped — lives outside the data source's
    buffer and `Data()` still returns the bytes it was decoded from.  Since this holds in EVERY
    reachable state, no later read alters it. -/
theorem copy_stable (cfg : Cfg) (hst : Stable cfg) (h0 : List Ev) (c0 : Bool) (s : St)
    (hr : Reachable cfg (init h0 c0) s) :
    ∀ p ∈ s.all, p.ref ≠ .src ∧ view s.heap p = some p.orig := by
  have inv := inv_reachable hr
  intro p hp
  have h1 := inv.m.intact hst p hp
  have h2 := inv.m.len p hp
  exact ⟨h1.1, by simp [view, h1.2, h2]⟩

/-- The same, stated along time: a packet received in state `s` is intact in every later `s'`. -/
theorem copy_stable_later (cfg : Cfg) (hst : Stable cfg) (h0 : List Ev) (c0 : Bool) (s s' : St)
    (hr : Reachable cfg (init h0 c0) s) (hr' : Reachable cfg s s') :
    ∀ p ∈ s.recvd, p ∈ s'.recvd ∧ view s'.heap p = some p.orig := by
  intro p hp
  rcases recvd_mono hr' with ⟨t, ht⟩
  have hp' : p ∈ s'.recvd := by rw [ht]; exact List.mem_append_left _ hp
  refine ⟨hp', (copy_stable cfg hst h0 c0 s' (reachable_trans hr hr') p ?_).2⟩
  simp [St.all, hp']

example : Stable (newPacketSource true dtEx) ∧ Stable (newZeroCopyPacketSource false dtEx) :=
  ⟨Or.inr rfl, Or.inl rfl⟩

/-! ## 9. The zero-copy guard -/

/-- PacketsCtx on a source built by NewZeroCopyPacketSource with NoCopy is refused (panics). -/
theorem zero_copy_refused (dt : Bytes → Bool) (h0 : List Ev) (c0 : Bool) :
    packetsCtx (newZeroCopyPacketSource true dt) h0 c0 = .panic .explicit := rfl

/-- Full strength: for both constructors and both copy modes, PacketsCtx EITHER refuses — and
    that happens exactly for zero-copy ∧ NoCopy — OR it starts the producer and then, in every
    reachable state, every decoded packet is intact (never corrupted by later reads). -/
theorem zero_copy_guard (zc nc : Bool) (dt : Bytes → Bool) (h0 : List Ev) (c0 : Bool) :
    let cfg := if zc then newZeroCopyPacketSource nc dt else newPacketSource nc dt
    (packetsCtx cfg h0 c0 = .panic .explicit ↔ (zc = true ∧ nc = true))
    ∧ (∀ s0, packetsCtx cfg h0 c0 = .ok s0 →
        s0 = init h0 c0 ∧ ∀ s, Reachable cfg s0 s → ∀ p ∈ s.all, view s.heap p = some p.orig) := by
  cases zc <;> cases nc
  · refine ⟨by simp [packetsCtx, newPacketSource], ?_⟩
    intro s0 h; simp [packetsCtx, newPacketSource] at h; subst h
    exact ⟨rfl, fun s hr p hp => (copy_stable _ (Or.inl rfl) h0 c0 s hr p hp).2⟩
  · refine ⟨by simp [packetsCtx, newPacketSource], ?_⟩
    intro s0 h; simp [packetsCtx, newPacketSource] at h; subst h
    exact ⟨rfl, fun s hr p hp => (copy_stable _ (Or.inr rfl) h0 c0 s hr p hp).2⟩
  · refine ⟨by simp [packetsCtx, newZeroCopyPacketSource], ?_⟩
    intro s0 h; simp [packetsCtx, newZeroCopyPacketSource] at h; subst h
    exact ⟨rfl, fun s hr p hp => (copy_stable _ (Or.inl rfl) h0 c0 s hr p hp).2⟩
  · refine ⟨by simp [packetsCtx, newZeroCopyPacketSource], ?_⟩
    intro s0 h; simp [packetsCtx, newZeroCopyPacketSource] at h

/-- Why the flag matters (the code BEFORE fix psrc-1: `zeroCopy` never set, so the guard passes):
    with a reused buffer and NoCopy the channel hands out packets that later reads overwrite.
    The intactness conclusion of `zero_copy_guard` is false for that configuration. -/
def unfixedCfg : Cfg := { newZeroCopyPacketSource true dtEx with zeroCopy := false }

theorem unfixed_constructor_counterexample :
    ¬ (∀ h0 s0, packetsCtx unfixedCfg h0 false = .ok s0 →
        ∀ s, Reachable unfixedCfg s0 s → ∀ p ∈ s.all, view s.heap p = some p.orig) := by
  intro h
  let h0 : List Ev := [.pkt [0xaa, 0xaa] (ciEx 2 2 0), .pkt [0xbb, 0xbb] (ciEx 2 2 1)]
  let ls : List Label := [.check, .readRet, .send, .recv, .check, .readRet]
  have hrun : ∃ s, runLabels unfixedCfg (init h0 false) ls = some s ∧
      ∃ p ∈ s.all, view s.heap p ≠ some p.orig := by
    refine ⟨_, rfl, ?_⟩
    decide
  rcases hrun with ⟨s, hs, p, hp, hne⟩
  exact hne (h h0 (init h0 false) rfl s (runLabels_reachable hs) p hp)

end Gp.C16
