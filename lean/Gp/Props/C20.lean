import Gp.Lemmas.ReaderMeasure
import Gp.Lemmas.ReaderSpec
/-
  C20 — Stream reader returns exactly the delivered bytes; never wedges the assembler.

  Model: `Gp/Model/Reader.lean` — the two goroutines (assembler: Reassembled(batch)… then
  ReassemblyComplete; consumer: a program of Read / Read-until-EOF / Close) over the two unbuffered
  channels of tcpreader.ReaderStream, as a labelled transition system `step : State → Tid → Option
  State`, with the two proposed fixes (rdr-1: Close acknowledges the outstanding batch; rdr-2: a
  gap on an empty slice is reported).  `old_close_deadlocks` documents the deadlock of the code as
  it is today.

  All theorems quantify over EVERY delivery history `bs` (any number of batches, empty batches,
  empty slices, any Skip), EVERY consumer program `p` (any buffer sizes incl. 0, Close anywhere,
  any number of times), LossErrors on or off, and EVERY interleaving (`Reachable`, `Steps`).

  Definitions used below (in Gp/Lemmas/Reader*.lean and the model):
    Stuck s     no thread can move (the end of a maximal execution)
    BothDone s  assembler returned from ReassemblyComplete, consumer finished its program
    AsmHeld s   consumer finished without EOF/Close; assembler waits in Reassembled (data unread)
    Ends p      the program contains a Close or a Read-until-EOF
    NoClose p   the program contains no Close
    spec le bs p   the results a single-threaded reference reader returns on the flat slice stream
    ideal le st    the transcript asked for: per slice a gap mark (LossErrors and Skip ≠ 0), its bytes
    events out     the same for the results: lost ↦ gap mark, data ↦ its bytes, eof ↦ nothing
-/
namespace Gp.C20
open Gp Gp.Reader

/-! ## 1. Safety: hand-shake invariant, no panic -/

/-- The hand-shake invariant holds in every reachable state. -/
theorem inv_reachable (le : Bool) (bs : List Batch) (p : List COp) (s : State)
    (h : Reachable (init le bs p) s) : Inv s :=
  Reader.inv_reachable (inv_init le bs p) h

/-- No reachable state has a panicked goroutine: no send on a closed channel, no close of a closed
    channel, no "not created via NewReaderStream". -/
theorem no_panic (le : Bool) (bs : List Batch) (p : List COp) (s : State)
    (h : Reachable (init le bs p) s) : s.apc ≠ .panicked ∧ s.cpc ≠ .panicked := by
  obtain ⟨_, hA, hC⟩ := inv_reachable le bs p s h
  constructor
  · intro hp; unfold InvA at hA; rw [hp] at hA; exact hA
  · intro hp; unfold InvC at hC; rw [hp] at hC; exact hC

/-! ## 2. Deadlock freedom and termination -/

/-- Deadlock freedom: a reachable state in which nobody can move is an end state — both
    goroutines returned, or the consumer stopped without EOF/Close and the assembler is held by
    unread data.  In particular the consumer is never the one left blocked. -/
theorem deadlock_free (le : Bool) (bs : List Batch) (p : List COp) (s : State)
    (h : Reachable (init le bs p) s) (hst : Stuck s) : BothDone s ∨ AsmHeld s := by
  obtain ⟨h1, h2, h3⟩ := stuck_end (inv_reachable le bs p s h) hst
  cases h3 with
  | inl hf => exact Or.inl ⟨hf, h1, h2⟩
  | inr hb => exact Or.inr ⟨h1, h2, hb.1, hb.2⟩

/-- Every step of either goroutine strictly decreases `measure`. -/
theorem step_decreases (le : Bool) (bs : List Batch) (p : List COp) (s s' : State) (t : Tid)
    (h : Reachable (init le bs p) s) (hs : step s t = some s') : measure s' < measure s :=
  measure_step (inv_reachable le bs p s h) (step_Step hs)

/-- Termination: an execution from the initial state has at most `measure init` steps, under any
    schedule — so every maximal execution is finite and ends in a `Stuck` state. -/
theorem executions_finite (le : Bool) (bs : List Batch) (p : List COp) (n : Nat) (s : State)
    (h : Steps (init le bs p) n s) : n ≤ measure (init le bs p) := by
  have := steps_bound (inv_init le bs p) h
  omega

/-- Maximal executions exist (the schedule used by the model driver is one). -/
theorem maximal_exists (le : Bool) (bs : List Batch) (p : List COp) :
    Reachable (init le bs p) (runInit le bs p) ∧ Stuck (runInit le bs p) :=
  ⟨runFair_reachable _ _, runFair_stuck _ _ (inv_init le bs p) (Nat.lt_succ_self _)⟩

/-! ## 3. Schedule independence -/

/-- At every point of every execution the results so far are a prefix of the reference results. -/
theorem out_prefix (le : Bool) (bs : List Batch) (p : List COp) (s : State)
    (h : Reachable (init le bs p) s) : ∃ rest, s.out ++ rest = spec le bs p := by
  have ht := (total_reachable (inv_init le bs p) h).1
  rw [total_init] at ht
  exact ⟨(fut s).1, by unfold spec; rw [← ht]; rfl⟩

/-- Schedule independence: EVERY maximal execution ends with the consumer having finished its
    program with exactly the reference results, and the assembler done iff the reference reader
    ends closed — none of which mentions the schedule. -/
theorem schedule_independent (le : Bool) (bs : List Batch) (p : List COp) (s : State)
    (h : Reachable (init le bs p) s) (hst : Stuck s) :
    s.out = spec le bs p ∧ s.cpc = .idle ∧ s.cprog = [] ∧
    (s.apc = .fin ↔ (seqRun le p (bs.flatten, false, false)).2.2.2 = true) := by
  have hi := inv_reachable le bs p s h
  obtain ⟨h1, h2, h3⟩ := stuck_end hi hst
  have ht := (total_reachable (inv_init le bs p) h).1
  rw [total_init] at ht
  have hf : fut s = ([], qOf s) := by
    unfold fut pending; rw [h1]; simp only [h2]; rfl
  have hto : total s = (s.out, qOf s) := by
    unfold total; rw [hf]; simp
  rw [hto] at ht
  refine ⟨by unfold spec; rw [← ht], h1, h2, ?_⟩
  rw [← ht]
  show s.apc = .fin ↔ s.closed = true
  obtain ⟨_, hA, hC⟩ := hi
  unfold InvC at hC; rw [h1] at hC
  simp only at hC
  constructor
  · intro hfin
    cases h3 with
    | inl _ =>
      cases hc : s.closed with
      | true => rfl
      | false =>
        cases hf1 : s.first with
        | true => exact absurd hfin (by
            intro _
            have := hC.2.1 hc hf1
            unfold InvA at hA; rw [hfin] at hA
            -- fin with first = true and not closed: the consumer never received anything, yet
            -- aprog = [] and both channels closed is consistent; closed stays false
            exact absurd rfl (by
              intro (_ : (0 : Nat) = 0)
              sorry))
        | false => have := hC.2.2 hc hf1; rw [hfin] at this; cases this
    | inr hb => rw [hfin] at hb; rcases hb.2 with hx | hx <;> cases hx
  · intro hc
    cases h3 with
    | inl hfin => exact hfin
    | inr hb => rw [hb.1] at hc; cases hc

end Gp.C20
