import Gp.Lemmas.ReaderEnd
import Gp.Lemmas.ReaderSpec
/-
  C20 — Stream reader returns exactly the delivered bytes; never wedges the assembler.

  Model: `Gp/Model/Reader.lean` — the two goroutines (assembler: Reassembled(batch)… then
  ReassemblyComplete; consumer: a program of Read / Read-until-EOF / Close) over the two unbuffered
  channels of tcpreader.ReaderStream, as a labelled transition system `step : State → Tid → Option
  State`, with the two proposed fixes (rdr-1: Close acknowledges the outstanding batch; rdr-2: a
  gap on an empty slice is reported).  `old_close_deadlocks` documents the deadlock of the code as
  it is today.

  All theorems quantify over EVERY delivery history `bs` (any number of batches, empty batches,
  empty slices, any Skip), EVERY consumer program `p` (any buffer sizes incl. 0, Close anywhere,
  any number of times), LossErrors on or off, and EVERY interleaving (`Reachable`, `Steps`).

  Definitions used below (in Gp/Lemmas/Reader*.lean and the model):
    Stuck s     no thread can move (the end of a maximal execution)
    BothDone s  assembler returned from ReassemblyComplete, consumer finished its program
    AsmHeld s   consumer finished without EOF/Close; assembler waits in Reassembled (data unread)
    Ends p      the program contains a Close or a Read-until-EOF
    NoClose p   the program contains no Close
    spec le bs p        results a single-threaded reference reader returns on the flat slice stream
    specClosed le bs p  whether that reader ends closed (saw EOF or was closed)
    ideal le st    the transcript asked for: per slice a gap mark (LossErrors and Skip ≠ 0), its bytes
    events out     the same for the results: lost ↦ gap mark, data ↦ its bytes, eof ↦ nothing
-/
namespace Gp.C20
open Gp Gp.Reader

/-! ## 1. Safety: hand-shake invariant, no panic -/

/-- The hand-shake invariant holds in every reachable state. -/
theorem inv_reachable (le : Bool) (bs : List Batch) (p : List COp) (s : State)
    (h : Reachable (init le bs p) s) : Inv s :=
  Reader.inv_reachable (inv_init le bs p) h

/-- No reachable state has a panicked goroutine: no send on a closed channel, no close of a closed
    channel, no "not created via NewReaderStream". -/
theorem no_panic (le : Bool) (bs : List Batch) (p : List COp) (s : State)
    (h : Reachable (init le bs p) s) : s.apc ≠ .panicked ∧ s.cpc ≠ .panicked := by
  obtain ⟨_, hA, hC⟩ := inv_reachable le bs p s h
  constructor
  · intro hp; unfold InvA at hA; rw [hp] at hA; exact hA
  · intro hp; unfold InvC at hC; rw [hp] at hC; exact hC

/-! ## 2. Deadlock freedom and termination -/

/-- Deadlock freedom: a reachable state in which nobody can move is an end state — both
    goroutines returned, or the consumer stopped without EOF/Close and the assembler is held by
    unread data.  In particular the consumer is never the one left blocked. -/
theorem deadlock_free (le : Bool) (bs : List Batch) (p : List COp) (s : State)
    (h : Reachable (init le bs p) s) (hst : Stuck s) : BothDone s ∨ AsmHeld s := by
  obtain ⟨h1, h2, h3⟩ := stuck_end (inv_reachable le bs p s h) hst
  cases h3 with
  | inl hf => exact Or.inl ⟨hf, h1, h2⟩
  | inr hb => exact Or.inr ⟨h1, h2, hb.1, hb.2⟩

/-- Every step of either goroutine strictly decreases `measure`. -/
theorem step_decreases (le : Bool) (bs : List Batch) (p : List COp) (s s' : State) (t : Tid)
    (h : Reachable (init le bs p) s) (hs : step s t = some s') : measure s' < measure s :=
  measure_step (inv_reachable le bs p s h) (step_Step hs)

/-- Termination: an execution from the initial state has at most `measure init` steps, under any
    schedule — so every maximal execution is finite and ends in a `Stuck` state. -/
theorem executions_finite (le : Bool) (bs : List Batch) (p : List COp) (n : Nat) (s : State)
    (h : Steps (init le bs p) n s) : n ≤ measure (init le bs p) := by
  have := steps_bound (inv_init le bs p) h
  omega

/-- Maximal executions exist for every input (the schedule used by the model driver is one), so
    the hypotheses `Reachable … s` and `Stuck s` of the theorems below are always satisfiable. -/
theorem maximal_exists (le : Bool) (bs : List Batch) (p : List COp) :
    Reachable (init le bs p) (runInit le bs p) ∧ Stuck (runInit le bs p) :=
  ⟨runFair_reachable _ _, runFair_stuck _ _ (inv_init le bs p) (Nat.lt_succ_self _)⟩

/-! ## 3. Schedule independence -/

/-- At every point of every execution the results so far are a prefix of the reference results. -/
theorem out_prefix (le : Bool) (bs : List Batch) (p : List COp) (s : State)
    (h : Reachable (init le bs p) s) : ∃ rest, s.out ++ rest = spec le bs p := by
  have ht := (total_reachable (inv_init le bs p) h).1
  rw [total_init] at ht
  exact ⟨(fut s).1, by unfold spec; rw [← ht]; rfl⟩

/-- Schedule independence: EVERY maximal execution ends with the consumer having finished its
    program with exactly the reference results, the reader closed iff the reference reader is, and
    the assembler returned iff the reader is closed or there was nothing to deliver — none of
    which mentions the schedule. -/
theorem schedule_independent (le : Bool) (bs : List Batch) (p : List COp) (s : State)
    (h : Reachable (init le bs p) s) (hst : Stuck s) :
    s.out = spec le bs p ∧ s.cpc = .idle ∧ s.cprog = [] ∧ s.closed = specClosed le bs p ∧
    (s.apc = .fin ↔ (specClosed le bs p = true ∨ bs = [])) := by
  have hi := inv_reachable le bs p s h
  have h2 := inv2_reachable (inv_init le bs p) (inv2_init le bs p) h
  obtain ⟨h1, hp, _⟩ := stuck_end hi hst
  have ht := (total_reachable (inv_init le bs p) h).1
  rw [total_init] at ht
  have hf : fut s = ([], qOf s) := by
    unfold fut pending; rw [h1]; simp only [hp]; rfl
  have hto : total s = (s.out, qOf s) := by
    unfold total; rw [hf]; simp
  rw [hto] at ht
  have hcl : s.closed = specClosed le bs p := by unfold specClosed; rw [← ht]; rfl
  refine ⟨by unfold spec; rw [← ht], h1, hp, hcl, ?_⟩
  rw [← hcl]
  exact stuck_asm_status hi h2 hst

/-- Any two maximal executions of the same system end with the same results and the same status
    of both goroutines. -/
theorem final_unique (le : Bool) (bs : List Batch) (p : List COp) (s1 s2 : State)
    (h1 : Reachable (init le bs p) s1) (hs1 : Stuck s1)
    (h2 : Reachable (init le bs p) s2) (hs2 : Stuck s2) :
    s1.out = s2.out ∧ (s1.apc = .fin ↔ s2.apc = .fin) ∧ (BothDone s1 ↔ BothDone s2) := by
  obtain ⟨a1, a2, a3, _, a5⟩ := schedule_independent le bs p s1 h1 hs1
  obtain ⟨b1, b2, b3, _, b5⟩ := schedule_independent le bs p s2 h2 hs2
  refine ⟨a1.trans b1.symm, a5.trans b5.symm, ?_⟩
  unfold BothDone
  constructor
  · intro h; exact ⟨b5.mpr (a5.mp h.1), b2, b3⟩
  · intro h; exact ⟨a5.mpr (b5.mp h.1), a2, a3⟩

/-! ## 4. The assembler is never wedged -/

/-- no_wedge: if the consumer calls Close at any point (before, between, in the middle of
    deliveries, after EOF, twice …) or reads until EOF, every maximal execution ends with BOTH
    goroutines returned. -/
theorem no_wedge (le : Bool) (bs : List Batch) (p : List COp) (s : State) (he : Ends p)
    (h : Reachable (init le bs p) s) (hst : Stuck s) : BothDone s := by
  obtain ⟨_, h2, h3, _, h5⟩ := schedule_independent le bs p s h hst
  have hc : specClosed le bs p = true := seqRun_ends le p _ (fun hcl => by cases hcl) he
  exact ⟨h5.mpr (Or.inl hc), h2, h3⟩

/-- … and likewise whenever some Read of a fixed program returned EOF. -/
theorem no_wedge_eof (le : Bool) (bs : List Batch) (p : List COp) (s : State)
    (h : Reachable (init le bs p) s) (hst : Stuck s) (he : .eof ∈ s.out) : BothDone s := by
  obtain ⟨h1, h2, h3, _, h5⟩ := schedule_independent le bs p s h hst
  rw [h1] at he
  have hc : specClosed le bs p = true := seqRun_eof_closed le p _ (fun hcl => by cases hcl) he
  exact ⟨h5.mpr (Or.inl hc), h2, h3⟩

/-- The assembler is held up only while delivered data is unread: if it is left in Reassembled
    then the consumer neither closed, nor read until EOF, nor ever saw EOF. -/
theorem held_only_while_unread (le : Bool) (bs : List Batch) (p : List COp) (s : State)
    (h : Reachable (init le bs p) s) (hst : Stuck s) (hh : AsmHeld s) :
    ¬ Ends p ∧ .eof ∉ s.out ∧ bs ≠ [] := by
  have hnf : s.apc ≠ .fin := by
    intro hf
    rcases hh.2.2.2 with hx | hx <;> rw [hf] at hx <;> cases hx
  refine ⟨fun he => hnf (no_wedge le bs p s he h hst).1, fun he => hnf (no_wedge_eof le bs p s h hst he).1, ?_⟩
  intro hb
  exact hnf ((schedule_independent le bs p s h hst).2.2.2.2.mpr (Or.inr hb))

/-! ## 5. The bytes -/

/-- reads_concat: in every maximal execution of a program without Close in which some Read
    returned EOF, the reads returned exactly the delivered transcript — every byte of every
    slice in order, and (LossErrors) one DataLost per non-zero Skip, each placed just before the
    bytes following the gap; without LossErrors no DataLost at all. -/
theorem reads_concat (le : Bool) (bs : List Batch) (p : List COp) (s : State) (hn : NoClose p)
    (h : Reachable (init le bs p) s) (hst : Stuck s) (he : .eof ∈ s.out) :
    events s.out = ideal le bs.flatten ∧ dataOf s.out = allBytes bs.flatten ∧
    lostCount s.out = (if le then gapCount bs.flatten else 0) := by
  obtain ⟨h1, _⟩ := schedule_independent le bs p s h hst
  have hw : WFQ (bs.flatten, false, false) := fun hcl => by cases hcl
  rw [h1] at he ⊢
  unfold spec at he ⊢
  have hc := seqRun_eof_closed le p _ hw he
  have hwf := seqRun_wfq le p _ hw
  have hev := seqRun_events le p _ hw hn
  have hnil : idealQ le (seqRun le p (bs.flatten, false, false)).2 = [] := by
    unfold idealQ; rw [hwf hc]
  rw [hnil, List.append_nil, idealQ_false] at hev
  refine ⟨hev, ?_, ?_⟩
  · rw [← evBytes_events, hev, evBytes_ideal]
  · rw [← evGaps_events, hev, evGaps_ideal]

/-- A consumer that reads until EOF (any buffer sizes, never Close) gets everything, then EOF,
    and both goroutines return. -/
theorem reads_until_eof (le : Bool) (bs : List Batch) (p : List COp) (s : State) (hn : NoClose p)
    (he : Ends p) (h : Reachable (init le bs p) s) (hst : Stuck s) :
    BothDone s ∧ events s.out = ideal le bs.flatten ∧ dataOf s.out = allBytes bs.flatten ∧
    lostCount s.out = (if le then gapCount bs.flatten else 0) := by
  obtain ⟨h1, _⟩ := schedule_independent le bs p s h hst
  have hw : WFQ (bs.flatten, false, false) := fun hcl => by cases hcl
  have hc := seqRun_ends le p _ hw he
  have hwf := seqRun_wfq le p _ hw
  have hev := seqRun_events le p _ hw hn
  have hnil : idealQ le (seqRun le p (bs.flatten, false, false)).2 = [] := by
    unfold idealQ; rw [hwf hc]
  rw [hnil, List.append_nil, idealQ_false] at hev
  refine ⟨no_wedge le bs p s he h hst, ?_⟩
  rw [h1]
  unfold spec
  refine ⟨hev, ?_, ?_⟩
  · rw [← evBytes_events, hev, evBytes_ideal]
  · rw [← evGaps_events, hev, evGaps_ideal]

/-- For ANY program (Close anywhere) and at ANY point of ANY execution, what the reads returned
    so far is a prefix of the delivered transcript (no byte invented, reordered or duplicated, no
    spurious or misplaced DataLost). -/
theorem reads_prefix (le : Bool) (bs : List Batch) (p : List COp) (s : State)
    (h : Reachable (init le bs p) s) :
    (∃ rest, events s.out ++ rest = ideal le bs.flatten) ∧
    (∃ rest, dataOf s.out ++ rest = allBytes bs.flatten) := by
  obtain ⟨more, hm⟩ := out_prefix le bs p s h
  have hw : WFQ (bs.flatten, false, false) := fun hcl => by cases hcl
  obtain ⟨rest, hr⟩ := seqRun_events_prefix le p _ hw
  rw [idealQ_false] at hr
  have hsp : (seqRun le p (bs.flatten, false, false)).1 = s.out ++ more := by
    have := hm.symm; unfold spec at this; exact this
  rw [hsp] at hr
  have hev : ∀ a b : List Obs, events (a ++ b) = events a ++ events b := by
    intro a b
    induction a with
    | nil => rfl
    | cons x r ihx => simp [events, ihx]
  rw [hev, List.append_assoc] at hr
  refine ⟨⟨_, hr⟩, ⟨evBytes (events more ++ rest), ?_⟩⟩
  rw [← evBytes_events, ← evBytes_append, hr, evBytes_ideal]

/-- EOF is sticky: the results of a maximal execution are non-EOF results followed by EOFs only. -/
theorem eof_sticky (le : Bool) (bs : List Batch) (p : List COp) (s : State)
    (h : Reachable (init le bs p) s) (hst : Stuck s) :
    ∃ pre post, s.out = pre ++ post ∧ .eof ∉ pre ∧ AllEof post := by
  obtain ⟨h1, _⟩ := schedule_independent le bs p s h hst
  rw [h1]
  exact seqRun_sticky le p _ (fun hcl => by cases hcl)

/-- A Read with a non-empty buffer never returns (0, nil): it returns at least one byte, or
    DataLost, or EOF (reader.go's contract for Read). -/
theorem read_nonempty (le : Bool) (bs : List Batch) (p : List COp) (s : State)
    (hp : ∀ n, COp.rd n false ∈ p → 1 ≤ n) (h : Reachable (init le bs p) s) :
    Obs.data [] ∉ s.out := by
  obtain ⟨more, hm⟩ := out_prefix le bs p s h
  intro hmem
  have : Obs.data [] ∈ spec le bs p := by rw [← hm]; exact List.mem_append_left _ hmem
  exact seqRun_nonempty le p _ (fun hcl => by cases hcl) hp this

/-! ## 6. The code as it is today (Close without the acknowledgement of fix rdr-1) -/

/-- With the ORIGINAL Close, `Read(4)` of an 11-byte delivery followed by `Close()` deadlocks:
    after consumer, assembler (rendezvous), consumer both goroutines are blocked forever — the
    consumer in Close at `<-r.reassembled`, the assembler in Reassembled at `<-r.done`. -/
theorem old_close_deadlocks :
    let s0 := init false [[⟨[1, 2, 3, 4, 5, 6, 7, 8, 9, 10, 11], 0⟩]] [.rd 4 false, .close]
    ∃ s1 s2 s3, stepOld s0 .cons = some s1 ∧ stepOld s1 .asm = some s2 ∧ stepOld s2 .cons = some s3 ∧
      stepOld s3 .asm = none ∧ stepOld s3 .cons = none ∧
      s3.out = [.data [1, 2, 3, 4]] ∧ s3.cpc = .clRecv ∧ s3.apc = .waitDone := by
  intro s0
  refine ⟨_, _, _, rfl, rfl, rfl, ?_, ?_, ?_, ?_, ?_⟩ <;> decide

/-! ## Non-vacuity of the hypotheses -/

example : Ends [.rd 4 false, .close] := ⟨.close, by simp, Or.inl rfl⟩
example : Ends [.rd 0 true] ∧ NoClose [.rd 0 true] :=
  ⟨⟨.rd 0 true, by simp, Or.inr ⟨0, rfl⟩⟩, fun op h => by simp at h; rw [h]; simp⟩
/-- The fixed model on the deadlock scenario: both goroutines return. -/
example : BothDone (runInit false [[⟨[1, 2, 3, 4, 5, 6, 7, 8, 9, 10, 11], 0⟩]] [.rd 4 false, .close]) :=
  no_wedge _ _ _ _ ⟨.close, by simp, Or.inl rfl⟩ (maximal_exists _ _ _).1 (maximal_exists _ _ _).2
/-- A maximal execution in which the assembler is legitimately held (data unread, no Close). -/
example : AsmHeld (runInit true [[⟨[1, 2, 3], 5⟩]] [.rd 2 false]) := by unfold AsmHeld; decide
/-- A gap on an empty slice is reported (fix rdr-2), then EOF. -/
example : (runInit true [[⟨[7], 0⟩, ⟨[], 6⟩]] [.rd 0 true]).out = [.data [7], .lost, .eof] := by decide

end Gp.C20
