import Gp.Lemmas.ChecksumDelim
/-
  C08 — Written checksums are correct; verification accepts exactly the correct ones.
  Property theorems only (helper lemmas: Gp/Lemmas/Checksum*.lean).

  Part 1  the helpers (FoldChecksum, reduceChecksum, ComputeChecksum, pseudo-header sums) agree with
          RFC 1071 for every input.
  Part 2  emission: the checksum written by each serializer equals the independent reference
          `refCk` = RFC 1071 (`rfc1071`: one's-complement sum with end-around carry, complemented)
          over pseudo-header bytes ++ segment with the field zeroed.
  Part 3  verification: accepts every emitted packet; for every single-bit corruption reports
          Valid = false and Correct = reference, except the protocols' "no checksum" encodings.

  The models describe the code AFTER proposed_fixes/cksum-1 (UDP verify 0 ↦ 0xffff), cksum-2
  (64-bit accumulation), cksum-3 (Packet.VerifyChecksums attaches the network layer).
  2^48 = 281474976710656 bounds the length of a byte slice (beyond any address space).
-/
namespace Gp.C08
open Gp Gp.Cksum Gp.CksumEmit

/-! ## Part 1a — FoldChecksum -/

/-- Termination as a theorem: for every uint32 the generated loop (fuel 4) stops because its
    condition `csum > 0xffff` fails, not because the fuel ran out. -/
theorem fold_fuel_suffices (c : Nat) (h : c < 2 ^ 32) :
    Gp.Gen.Cksum.foldChecksum_loop1 4 (Int.ofNat c) ≤ 65535 :=
  foldLoop_le _ (by simp) (by simp only [Int.ofNat_eq_natCast]; omega)

/-- RFC 1071 folding, for all 2^32 accumulators: `fold c = 0xffff - f` where the folded sum `f` is
    congruent to `c` modulo 65535, lies in 0..0xffff, and is zero exactly when `c` is zero
    (so `fold 0 = 0xffff`, and every non-zero multiple of 65535 folds to 0). -/
theorem fold_spec (c : Nat) (h : c < 2 ^ 32) :
    ∃ f, fold c = 65535 - f ∧ f ≤ 65535 ∧ f % 65535 = c % 65535 ∧ (f = 0 ↔ c = 0) :=
  ⟨ocRep c, fold_closed c (by simp only [W32]; omega), ocRep_le c, ocRep_mod c, ocRep_eq_zero c⟩

example : fold 0 = 65535 ∧ fold 65535 = 0 ∧ fold 0xffffffff = 0 ∧ fold 0x1fffe = 0 ∧ fold 0x10000 = 65534 := by decide

/-! ## Part 1b — reduceChecksum (the 64 → 32 bit reduction inside ComputeChecksum) -/

/-- the hand-written `reduce` IS the function regenerated from checksum.go on every run -/
theorem reduce_matches_source (s : Nat) :
    (reduce s : Int) = Gp.Gen.CksumReduce.reduceChecksum (s : Int) := by
  unfold reduce Gp.Gen.CksumReduce.reduceChecksum
  simp only []
  rw [← reduceLoop_matches 4 s]
  simp only [W32]; omega

/-- fuel 4 suffices for every uint64 -/
theorem reduce_fuel_suffices (s : Nat) (h : s < 2 ^ 64) : reduceLoop 4 s ≤ 4294967295 :=
  reduceLoop_le s (by simp only [W64]; omega)

/-- reduceChecksum on every uint64: a uint32 in the same residue class modulo 65535; the identity below
    2^32; and at least 0x10000 whenever a reduction took place — which is what keeps
    `verification - uint32(existing)` in the VerifyChecksum methods from underflowing. -/
theorem reduce_spec (s : Nat) (h : s < 2 ^ 64) :
    reduce s < 2 ^ 32 ∧ reduce s % 65535 = s % 65535 ∧ (s < 2 ^ 32 → reduce s = s) ∧ (2 ^ 32 ≤ s → 65536 ≤ reduce s) := by
  obtain ⟨a, b, c, d, _⟩ := reduce_props s (by simp only [W64]; omega)
  simp only [W32] at a c d
  exact ⟨by omega, b, fun h => c (by omega), fun h => d (by omega)⟩

/-! ## Part 1c — ComputeChecksum -/

/-- ComputeChecksum adds the big-endian 16-bit words (odd trailing byte padded with zero) to the initial
    value and reduces: nothing is lost, whatever the length. -/
theorem compute_spec (data : Bytes) (c : Nat) (hc : c < 2 ^ 32) (hl : data.length ≤ 281474976710656) :
    compute data c = reduce (c + wordsum data) ∧ (c + wordsum data < 2 ^ 32 → compute data c = c + wordsum data) := by
  have hc' : c < W32 := by simp only [W32]; omega
  have h := compute_eq data c hc' hl
  refine ⟨h, fun hlt => ?_⟩
  rw [h]
  exact (reduce_props _ (total_lt_W64 data c hc' hl)).2.2.1 (by simp only [W32]; omega)

/-- size of the word sum: at most 0xffff per word -/
theorem wordsum_bound (data : Bytes) : wordsum data ≤ 65535 * ((data.length + 1) / 2) :=
  Gp.Cksum.wordsum_bound data

/-- ComputeChecksum + FoldChecksum = the RFC 1071 checksum (one's-complement sum with end-around carry,
    complemented), for every byte string of every length up to 2^48 bytes. -/
theorem compute_rfc1071 (data : Bytes) (hl : data.length ≤ 281474976710656) :
    fold (compute data 0) = rfc1071 data := by
  rw [fold_compute data 0 (by simp [W32]) hl, rfc1071_eq, Nat.zero_add]

/-- chaining through the initial value (how the pseudo-header enters): if `c` is the word sum of an
    even-length prefix, the result is the RFC 1071 checksum of prefix ++ data. -/
theorem compute_rfc1071_chained (pre data : Bytes) (he : pre.length % 2 = 0) (hc : wordsum pre < 2 ^ 32)
    (hl : data.length ≤ 281474976710656) :
    fold (compute data (wordsum pre)) = rfc1071 (pre ++ data) := by
  rw [fold_compute data _ (by simp only [W32]; omega) hl, rfc1071_eq, wordsum_append _ _ he]

/-- The statement without any length bound.  It is NOT claimed: beyond 2^48 bytes the model's uint64
    accumulator could wrap (such slices cannot exist in an address space); `compute_rfc1071` is the part
    that is proved. -/
def compute_rfc1071_full : Prop := ∀ data : Bytes, fold (compute data 0) = rfc1071 data

example : fold (compute [0x45, 0x00, 0x00, 0x1e, 0xe4] 0) = rfc1071 [0x45, 0x00, 0x00, 0x1e, 0xe4] := by decide

/-- The defect repaired by proposed_fixes/cksum-2: the former uint32 accumulator (`compute32`) loses a
    carry on 131 076 bytes of 0xff (65538 words, true sum 2^32 + 0xfffe) and folds to 1, where RFC 1071
    — and the repaired `compute` — give 0.  Proved through the closed form of the sum of a
    `List.replicate`, not by evaluation. -/
theorem compute32_wraps_witness :
    fold (compute32 (List.replicate 131076 255) 0) = 1 ∧ rfc1071 (List.replicate 131076 255) = 0 ∧
    fold (compute (List.replicate 131076 255) 0) = 0 := by
  have hw : wordsum (List.replicate 131076 (255 : UInt8)) = 65535 * 65538 := wordsum_replicate_ff 65538
  refine ⟨?_, ?_, ?_⟩
  · rw [compute32_spec _ 0 (by simp [W32]), hw]; decide
  · rw [rfc1071_eq, hw]; decide
  · rw [fold_compute _ 0 (by simp [W32]) (by rw [List.length_replicate]; omega), hw]; decide

/-- the pseudo-header sums of layers/tcpip.go (both address families) and the protocol / length words of
    computeChecksum add up to the word sum of the RFC 793 / RFC 8200 pseudo-header byte string -/
theorem pseudoheader_sum_spec (net : Net) (proto len : Nat) (hok : net.ok = true) (hp : proto < 256)
    (hlen : net.lenOk len) :
    l4c0 net proto len = wordsum (net.pseudoBytes proto len) ∧ l4c0 net proto len < 2 ^ 32 := by
  obtain ⟨a, b, _⟩ := l4c0_spec net proto len hok hp hlen
  exact ⟨a, by simp only [W32] at b; omega⟩

example : (Net.v4 [1, 2, 3, 4] [5, 6, 7, 8]).ok = true ∧ (Net.v4 [1, 2, 3, 4] [5, 6, 7, 8]).lenOk 10 := by
  constructor <;> decide

/-! ## Part 2 and 3 — emission and verification, per protocol

  `refCk pre off post seg` is the reference: `post (rfc1071 (pre ++ seg with the 16-bit field at off zeroed))`. -/

/-! ### IPv4 header (ip4.go; no pseudo-header, field at offset 10, covers the header only) -/

theorem emitted_checksum_ip4 (f : Ip4F) (payload : Bytes) (hl : (ip4Hdr f payload.length).length ≤ 281474976710656) :
    get16At? (emitIp4 f payload) 10 = some (refCk [] 10 postId (ip4Hdr f payload.length)) := by
  have hlen : 10 + 2 ≤ (ip4Hdr f payload.length).length := by rw [ip4Hdr_length]; omega
  unfold emitIp4
  rw [get16At_append _ _ _ (by rw [emitAt_length postId hlen]; exact hlen)]
  exact emitAt_field postId postId_ok (plainCtx 10 _ (by decide) hlen hl)

theorem verify_accepts_emitted_ip4 (f : Ip4F) (n : Nat) (hl : (ip4Hdr f n).length ≤ 281474976710656) :
    verifyAt 0 10 postId neverNoCk (emitAt 0 10 postId (ip4Hdr f n)) =
      .ok { valid := true, correct := refCk [] 10 postId (ip4Hdr f n), actual := refCk [] 10 postId (ip4Hdr f n) } := by
  have hlen : 10 + 2 ≤ (ip4Hdr f n).length := by rw [ip4Hdr_length]; omega
  exact verifyAt_emitAt postId neverNoCk postId_ok (plainCtx 10 _ (by decide) hlen hl)

theorem verify_detects_bitflip_ip4 (f : Ip4F) (n : Nat) (hl : (ip4Hdr f n).length ≤ 281474976710656)
    (i : Nat) (hi : i < 8 * (ip4Hdr f n).length) :
    ∃ r, verifyAt 0 10 postId neverNoCk (flipBit (emitAt 0 10 postId (ip4Hdr f n)) i) = .ok r ∧ r.valid = false ∧
      r.correct = refCk [] 10 postId (flipBit (emitAt 0 10 postId (ip4Hdr f n)) i) ∧ r.correct ≠ r.actual := by
  have hlen : 10 + 2 ≤ (ip4Hdr f n).length := by rw [ip4Hdr_length]; omega
  obtain ⟨e', _, hv, hne⟩ := verifyAt_flip postId neverNoCk postId_ok (plainCtx 10 _ (by decide) hlen hl) i hi
  exact ⟨_, hv, rfl, rfl, hne⟩

/-- ip4.go DecodeFromBytes hands exactly the emitted header (IHL words, options included) to VerifyChecksum,
    for a well-formed header: 4-byte addresses, padded options the decoder's options walk accepts, total
    length within the 16-bit length field. -/
theorem ip4_delimits_emitted (f : Ip4F) (payload : Bytes) (hs : f.src.length = 4) (hd : f.dst.length = 4)
    (ho4 : f.opts.length % 4 = 0) (ho : f.opts.length ≤ 40) (hok : ip4OptsOk 64 f.opts = true)
    (htot : 20 + f.opts.length + payload.length < 65536) :
    verifyIp4 (emitIp4 f payload) = some (verifyAt 0 10 postId neverNoCk (emitAt 0 10 postId (ip4Hdr f payload.length))) := by
  unfold verifyIp4
  rw [ip4Contents_emitted f payload hs hd ho4 ho hok htot]
  rfl

example : ∃ f : Ip4F, (ip4Hdr f 2).length ≤ 281474976710656 ∧ 0 < 8 * (ip4Hdr f 2).length :=
  ⟨{ tos := 0, id := 0, ff := 0, ttl := 64, proto := 17, src := [1, 2, 3, 4], dst := [5, 6, 7, 8], opts := [] }, by decide, by decide⟩

/-! ### TCP (tcp.go; pseudo-header protocol 6, field at offset 16) -/

theorem emitted_checksum_tcp (net : Net) (f : TcpF) (payload : Bytes) (hok : net.ok = true)
    (hlen : net.lenOk (tcpHdr f ++ payload).length) :
    get16At? (emitTcp net f payload) 16 =
      some (refCk (net.pseudoBytes 6 (tcpHdr f ++ payload).length) 16 postId (tcpHdr f ++ payload)) := by
  have h18 : 16 + 2 ≤ (tcpHdr f ++ payload).length := by rw [List.length_append, tcpHdr_length]; omega
  exact emitAt_field postId postId_ok (l4ctx net 6 16 _ hok (by decide) hlen (by decide) h18)

theorem verify_accepts_emitted_tcp (net : Net) (f : TcpF) (payload : Bytes) (hok : net.ok = true)
    (hlen : net.lenOk (tcpHdr f ++ payload).length) :
    verifyTcp net (emitTcp net f payload) =
      .ok { valid := true, correct := refCk (net.pseudoBytes 6 (tcpHdr f ++ payload).length) 16 postId (tcpHdr f ++ payload),
            actual := refCk (net.pseudoBytes 6 (tcpHdr f ++ payload).length) 16 postId (tcpHdr f ++ payload) } := by
  have h18 : 16 + 2 ≤ (tcpHdr f ++ payload).length := by rw [List.length_append, tcpHdr_length]; omega
  unfold verifyTcp emitTcp
  simp only []
  rw [emitAt_length postId h18]
  exact verifyAt_emitAt postId neverNoCk postId_ok (l4ctx net 6 16 _ hok (by decide) hlen (by decide) h18)

theorem verify_detects_bitflip_tcp (net : Net) (f : TcpF) (payload : Bytes) (hok : net.ok = true)
    (hlen : net.lenOk (tcpHdr f ++ payload).length) (i : Nat) (hi : i < 8 * (tcpHdr f ++ payload).length) :
    ∃ r, verifyTcp net (flipBit (emitTcp net f payload) i) = .ok r ∧ r.valid = false ∧
      r.correct = refCk (net.pseudoBytes 6 (tcpHdr f ++ payload).length) 16 postId (flipBit (emitTcp net f payload) i) ∧
      r.correct ≠ r.actual := by
  have h18 : 16 + 2 ≤ (tcpHdr f ++ payload).length := by rw [List.length_append, tcpHdr_length]; omega
  obtain ⟨e', _, hv, hne⟩ := verifyAt_flip postId neverNoCk postId_ok (l4ctx net 6 16 _ hok (by decide) hlen (by decide) h18) i hi
  have hv' : verifyTcp net (flipBit (emitTcp net f payload) i) =
      verifyAt (l4c0 net 6 (tcpHdr f ++ payload).length) 16 postId neverNoCk
        (flipBit (emitAt (l4c0 net 6 (tcpHdr f ++ payload).length) 16 postId (tcpHdr f ++ payload)) i) := by
    unfold verifyTcp emitTcp
    simp only []
    rw [length_flipBit, emitAt_length postId h18]
  rw [hv] at hv'
  exact ⟨_, hv', rfl, rfl, hne⟩

/-- tcp.go DecodeFromBytes accepts the emitted segment exactly when its options walk accepts the written
    options; Contents ++ Payload is then the whole segment (what `verifyTcp` is given). -/
theorem tcp_delimits_emitted (net : Net) (f : TcpF) (payload : Bytes) (ho4 : f.opts.length % 4 = 0) (ho : f.opts.length ≤ 40)
    (hf : f.flags < 512) :
    tcpDelim (emitTcp net f payload) = tcpOptsCheck 64 f.opts :=
  tcpDelim_emitted net f payload ho4 ho hf

example : ∃ (net : Net) (f : TcpF) (p : Bytes), net.ok = true ∧ net.lenOk (tcpHdr f ++ p).length ∧ 0 < 8 * (tcpHdr f ++ p).length :=
  ⟨.v6 (List.replicate 16 1) (List.replicate 16 2),
   { sport := 80, dport := 1234, seq := 1, ack := 2, flags := 18, window := 65535, urgent := 0, opts := [1, 1, 1, 0] }, [1, 2, 3],
   by decide, by decide, by decide⟩

/-! ### ICMPv6 (icmp6.go; pseudo-header next-header 58 over IPv6 — or IPv4 if so attached —, field at offset 2) -/

theorem emitted_checksum_icmp6 (net : Net) (type code : Nat) (payload : Bytes) (hok : net.ok = true)
    (hlen : net.lenOk ([u8 type, u8 code, 0, 0] ++ payload).length) :
    get16At? (emitIcmp6 net type code payload) 2 =
      some (refCk (net.pseudoBytes 58 ([u8 type, u8 code, 0, 0] ++ payload).length) 2 postId ([u8 type, u8 code, 0, 0] ++ payload)) := by
  have h4 : 2 + 2 ≤ ([u8 type, u8 code, 0, 0] ++ payload).length := by simp
  exact emitAt_field postId postId_ok (l4ctx net 58 2 _ hok (by decide) hlen (by decide) h4)

theorem verify_accepts_emitted_icmp6 (net : Net) (type code : Nat) (payload : Bytes) (hok : net.ok = true)
    (hlen : net.lenOk ([u8 type, u8 code, 0, 0] ++ payload).length) :
    verifyIcmp6 net (emitIcmp6 net type code payload) =
      some (.ok { valid := true,
                  correct := refCk (net.pseudoBytes 58 ([u8 type, u8 code, 0, 0] ++ payload).length) 2 postId ([u8 type, u8 code, 0, 0] ++ payload),
                  actual := refCk (net.pseudoBytes 58 ([u8 type, u8 code, 0, 0] ++ payload).length) 2 postId ([u8 type, u8 code, 0, 0] ++ payload) }) := by
  have h4 : 2 + 2 ≤ ([u8 type, u8 code, 0, 0] ++ payload).length := by simp
  unfold verifyIcmp6 emitIcmp6
  simp only []
  rw [emitAt_length postId h4, if_neg (by omega)]
  congr 1
  exact verifyAt_emitAt postId neverNoCk postId_ok (l4ctx net 58 2 _ hok (by decide) hlen (by decide) h4)

theorem verify_detects_bitflip_icmp6 (net : Net) (type code : Nat) (payload : Bytes) (hok : net.ok = true)
    (hlen : net.lenOk ([u8 type, u8 code, 0, 0] ++ payload).length) (i : Nat)
    (hi : i < 8 * ([u8 type, u8 code, 0, 0] ++ payload).length) :
    ∃ r, verifyIcmp6 net (flipBit (emitIcmp6 net type code payload) i) = some (.ok r) ∧ r.valid = false ∧
      r.correct = refCk (net.pseudoBytes 58 ([u8 type, u8 code, 0, 0] ++ payload).length) 2 postId (flipBit (emitIcmp6 net type code payload) i) ∧
      r.correct ≠ r.actual := by
  have h4 : 2 + 2 ≤ ([u8 type, u8 code, 0, 0] ++ payload).length := by simp
  obtain ⟨e', _, hv, hne⟩ := verifyAt_flip postId neverNoCk postId_ok (l4ctx net 58 2 _ hok (by decide) hlen (by decide) h4) i hi
  have hv' : verifyIcmp6 net (flipBit (emitIcmp6 net type code payload) i) =
      some (verifyAt (l4c0 net 58 ([u8 type, u8 code, 0, 0] ++ payload).length) 2 postId neverNoCk
        (flipBit (emitAt (l4c0 net 58 ([u8 type, u8 code, 0, 0] ++ payload).length) 2 postId ([u8 type, u8 code, 0, 0] ++ payload)) i)) := by
    unfold verifyIcmp6 emitIcmp6
    simp only []
    rw [length_flipBit, emitAt_length postId h4, if_neg (by omega)]
  rw [hv] at hv'
  exact ⟨_, hv', rfl, rfl, hne⟩

/-! ### ICMPv4 (icmp4.go; no pseudo-header, field at offset 2, covers header and payload) -/

theorem emitted_checksum_icmp4 (type code id seq : Nat) (payload : Bytes) (hl : payload.length ≤ 281474976710000) :
    get16At? (emitIcmp4 type code id seq payload) 2 =
      some (refCk [] 2 postId ([u8 type, u8 code, 0, 0] ++ putBe16 id ++ putBe16 seq ++ payload)) := by
  exact emitAt_field postId postId_ok (plainCtx 2 _ (by decide) (by rw [icmp4Hdr_length]; omega) (by rw [icmp4Hdr_length]; omega))

theorem verify_accepts_emitted_icmp4 (type code id seq : Nat) (payload : Bytes) (hl : payload.length ≤ 281474976710000) :
    verifyIcmp4 (emitIcmp4 type code id seq payload) =
      some (.ok { valid := true, correct := refCk [] 2 postId ([u8 type, u8 code, 0, 0] ++ putBe16 id ++ putBe16 seq ++ payload),
                  actual := refCk [] 2 postId ([u8 type, u8 code, 0, 0] ++ putBe16 id ++ putBe16 seq ++ payload) }) := by
  have h8 : 2 + 2 ≤ ([u8 type, u8 code, 0, 0] ++ putBe16 id ++ putBe16 seq ++ payload).length := by rw [icmp4Hdr_length]; omega
  unfold verifyIcmp4 emitIcmp4
  rw [emitAt_length postId h8, if_neg (by rw [icmp4Hdr_length]; omega)]
  congr 1
  exact verifyAt_emitAt postId neverNoCk postId_ok (plainCtx 2 _ (by decide) h8 (by rw [icmp4Hdr_length]; omega))

theorem verify_detects_bitflip_icmp4 (type code id seq : Nat) (payload : Bytes) (hl : payload.length ≤ 281474976710000)
    (i : Nat) (hi : i < 8 * ([u8 type, u8 code, 0, 0] ++ putBe16 id ++ putBe16 seq ++ payload).length) :
    ∃ r, verifyIcmp4 (flipBit (emitIcmp4 type code id seq payload) i) = some (.ok r) ∧ r.valid = false ∧
      r.correct = refCk [] 2 postId (flipBit (emitIcmp4 type code id seq payload) i) ∧ r.correct ≠ r.actual := by
  have h8 : 2 + 2 ≤ ([u8 type, u8 code, 0, 0] ++ putBe16 id ++ putBe16 seq ++ payload).length := by rw [icmp4Hdr_length]; omega
  obtain ⟨e', _, hv, hne⟩ := verifyAt_flip postId neverNoCk postId_ok (plainCtx 2 _ (by decide) h8 (by rw [icmp4Hdr_length]; omega)) i hi
  have hv' : verifyIcmp4 (flipBit (emitIcmp4 type code id seq payload) i) =
      some (verifyAt 0 2 postId neverNoCk (flipBit (emitAt 0 2 postId ([u8 type, u8 code, 0, 0] ++ putBe16 id ++ putBe16 seq ++ payload)) i)) := by
    unfold verifyIcmp4 emitIcmp4
    rw [length_flipBit, emitAt_length postId h8, if_neg (by rw [icmp4Hdr_length]; omega)]
  rw [hv] at hv'
  exact ⟨_, hv', rfl, rfl, hne⟩

/-! ### UDP (udp.go; pseudo-header protocol 17, field at offset 6; RFC 768: a computed zero is sent as 0xffff,
       a stored zero means "no checksum") -/

/-- the written value is the reference with zero mapped to 0xffff (`postUdp`) … -/
theorem emitted_checksum_udp (net : Net) (sport dport : Nat) (payload : Bytes) (hok : net.ok = true)
    (hlen : net.lenOk (udpHdr net sport dport payload.length ++ payload).length) :
    get16At? (emitUdp net sport dport payload) 6 =
      some (refCk (net.pseudoBytes 17 (udpHdr net sport dport payload.length ++ payload).length) 6 postUdp
        (udpHdr net sport dport payload.length ++ payload)) := by
  have h8 : 6 + 2 ≤ (udpHdr net sport dport payload.length ++ payload).length := by rw [List.length_append, udpHdr_length]; omega
  exact emitAt_field postUdp postUdp_ok (l4ctx net 17 6 _ hok (by decide) hlen (by decide) h8)

/-- … so an emitted UDP checksum is never the "no checksum" encoding, and is 0xffff exactly when the RFC 1071
    value is 0 or 0xffff. -/
theorem emitted_udp_zero_rule (pre seg : Bytes) :
    refCk pre 6 postUdp seg ≠ 0 ∧
    (refCk pre 6 postUdp seg = 65535 ↔ (rfc1071 (pre ++ put16At seg 6 0) = 0 ∨ rfc1071 (pre ++ put16At seg 6 0) = 65535)) := by
  unfold refCk postUdp
  constructor
  · split <;> omega
  · split <;> omega

/-- the decoder hands the whole emitted datagram to VerifyChecksum (the FixLengths length word is consistent) -/
theorem udp_delimits_emitted (net : Net) (sport dport : Nat) (payload : Bytes)
    (hlen : net.lenOk (udpHdr net sport dport payload.length ++ payload).length) :
    udpDelim (emitUdp net sport dport payload) = some (emitUdp net sport dport payload) := by
  obtain ⟨e0, e1, hs⟩ := emitUdp_shape net sport dport payload
  rw [hs]
  rw [List.length_append, udpHdr_length] at hlen
  apply udpDelim_shape _ _ _ _ _ _ _ _ _ (udpLen net payload.length) rfl rfl
  · cases net <;> simp only [udpLen] <;> (try split) <;> omega
  · cases net with
    | v4 s d => simp only [Net.lenOk] at hlen; simp only [udpLen]; left; omega
    | v6 s d => simp only [udpLen]; split
                · right; rfl
                · left; omega

theorem verify_accepts_emitted_udp (net : Net) (sport dport : Nat) (payload : Bytes) (hok : net.ok = true)
    (hlen : net.lenOk (udpHdr net sport dport payload.length ++ payload).length) :
    verifyUdp net (emitUdp net sport dport payload) =
      some (.ok { valid := true,
                  correct := refCk (net.pseudoBytes 17 (udpHdr net sport dport payload.length ++ payload).length) 6 postUdp
                    (udpHdr net sport dport payload.length ++ payload),
                  actual := refCk (net.pseudoBytes 17 (udpHdr net sport dport payload.length ++ payload).length) 6 postUdp
                    (udpHdr net sport dport payload.length ++ payload) }) := by
  have h8 : 6 + 2 ≤ (udpHdr net sport dport payload.length ++ payload).length := by rw [List.length_append, udpHdr_length]; omega
  unfold verifyUdp
  rw [udp_delimits_emitted net sport dport payload hlen]
  simp only [Option.map_some]
  congr 1
  unfold emitUdp
  simp only []
  rw [emitAt_length postUdp h8]
  exact verifyAt_emitAt postUdp udpNoCk postUdp_ok (l4ctx net 17 6 _ hok (by decide) hlen (by decide) h8)

/-- Any single flipped bit outside the UDP length field (bytes 4, 5 — they decide WHICH bytes are covered):
    Correct is the reference of the corrupted datagram, and Valid is false unless the stored checksum has
    become 0, the "no checksum" encoding. -/
theorem verify_detects_bitflip_udp (net : Net) (sport dport : Nat) (payload : Bytes) (hok : net.ok = true)
    (hlen : net.lenOk (udpHdr net sport dport payload.length ++ payload).length) (i : Nat)
    (hi : i < 8 * (udpHdr net sport dport payload.length ++ payload).length) (h4 : i / 8 ≠ 4) (h5 : i / 8 ≠ 5) :
    ∃ r, verifyUdp net (flipBit (emitUdp net sport dport payload) i) = some (.ok r) ∧
      r.valid = (r.actual == 0) ∧
      r.correct = refCk (net.pseudoBytes 17 (udpHdr net sport dport payload.length ++ payload).length) 6 postUdp
        (flipBit (emitUdp net sport dport payload) i) ∧
      r.correct ≠ r.actual := by
  have h8 : 6 + 2 ≤ (udpHdr net sport dport payload.length ++ payload).length := by rw [List.length_append, udpHdr_length]; omega
  have hd : udpDelim (flipBit (emitUdp net sport dport payload) i) = some (flipBit (emitUdp net sport dport payload) i) := by
    obtain ⟨e0, e1, hs⟩ := emitUdp_shape net sport dport payload
    rw [hs]
    obtain ⟨a', b', c', d', e0', e1', p', hf, hpl⟩ := flipBit_udp_shape _ _ _ _ _ _ e0 e1 payload i h4 h5
    rw [hf]
    have hlen' := hlen
    rw [List.length_append, udpHdr_length] at hlen'
    apply udpDelim_shape _ _ _ _ _ _ _ _ _ (udpLen net payload.length) rfl rfl
    · cases net <;> simp only [udpLen] <;> (try split) <;> omega
    · rw [hpl]
      cases net with
      | v4 s d => simp only [Net.lenOk] at hlen'; simp only [udpLen]; left; omega
      | v6 s d => simp only [udpLen]; split
                  · right; rfl
                  · left; omega
  obtain ⟨e', _, hv, hne⟩ := verifyAt_flip postUdp udpNoCk postUdp_ok (l4ctx net 17 6 _ hok (by decide) hlen (by decide) h8) i hi
  have hv' : verifyUdp net (flipBit (emitUdp net sport dport payload) i) =
      some (verifyAt (l4c0 net 17 (udpHdr net sport dport payload.length ++ payload).length) 6 postUdp udpNoCk
        (flipBit (emitAt (l4c0 net 17 (udpHdr net sport dport payload.length ++ payload).length) 6 postUdp
          (udpHdr net sport dport payload.length ++ payload)) i)) := by
    unfold verifyUdp
    rw [hd]
    simp only [Option.map_some]
    unfold emitUdp
    simp only []
    rw [length_flipBit, emitAt_length postUdp h8]
  rw [hv] at hv'
  exact ⟨_, hv', rfl, rfl, hne⟩

example : ∃ (net : Net) (p : Bytes), net.ok = true ∧ net.lenOk (udpHdr net 1000 2000 p.length ++ p).length ∧
    refCk (net.pseudoBytes 17 (udpHdr net 1000 2000 p.length ++ p).length) 6 postUdp (udpHdr net 1000 2000 p.length ++ p) = 65535 ∧
    rfc1071 (net.pseudoBytes 17 (udpHdr net 1000 2000 p.length ++ p).length ++ put16At (udpHdr net 1000 2000 p.length ++ p) 6 0) = 0 :=
  ⟨.v4 [1, 2, 3, 4] [5, 6, 7, 8], [0xe4, 0x0e], by decide, by decide, by decide, by decide⟩

/-! ### GRE (gre.go; no pseudo-header, field at offset 4, present only with the C flag; without it "no checksum")

  The GRE theorems about `verifyGre` are stated for segments that gre.go's DecodeFromBytes accepts
  (`greDecode … = some (c, stored)`); that the decoder accepts what the serializer wrote is property C06. -/

theorem emitted_checksum_gre (f : GreF) (payload : Bytes) (hc : f.c = true) (hl : (greHdr f ++ payload).length ≤ 281474976710656) :
    get16At? (emitGre f payload) 4 = some (refCk [] 4 postId (greHdr f ++ payload)) := by
  have h6 : 4 + 2 ≤ (greHdr f ++ payload).length := by have := greHdr_length_ge f hc; rw [List.length_append]; omega
  unfold emitGre
  simp only [hc, if_true]
  exact emitAt_field postId postId_ok (plainCtx 4 _ (by decide) h6 hl)

/-- without the C flag nothing is written: the segment is header ++ payload unchanged -/
theorem emitted_gre_absent (f : GreF) (payload : Bytes) (hc : f.c = false) : emitGre f payload = greHdr f ++ payload := by
  unfold emitGre; simp [hc]

theorem verify_accepts_emitted_gre (f : GreF) (payload : Bytes) (hc : f.c = true) (hl : (greHdr f ++ payload).length ≤ 281474976710656)
    (st : Nat) (hd : greDecode (emitGre f payload) = some (true, st)) :
    verifyGre (emitGre f payload) =
      some (.ok { valid := true, correct := refCk [] 4 postId (greHdr f ++ payload), actual := refCk [] 4 postId (greHdr f ++ payload) }) := by
  have h6 : 4 + 2 ≤ (greHdr f ++ payload).length := by have := greHdr_length_ge f hc; rw [List.length_append]; omega
  have hs := greDecode_stored _ _ hd
  rw [emitted_checksum_gre f payload hc hl] at hs
  injection hs with hs
  subst hs
  have hg := verifyAt_emitAt postId neverNoCk postId_ok (plainCtx 4 (greHdr f ++ payload) (by decide) h6 hl)
  have he := emitted_checksum_gre f payload hc hl
  unfold emitGre at he hd ⊢
  simp only [hc, if_true] at he hd ⊢
  unfold verifyGre
  rw [hd]
  simp only [Option.map_some]
  unfold verifyAt at hg
  rw [he] at hg
  simp only [neverNoCk] at hg
  simpa using hg

/-- Single-bit corruption of an emitted GRE segment, whenever the decoder still accepts it: if the C flag is
    still set, Valid is false and Correct is the reference; if the flipped bit cleared the C flag the packet
    carries no checksum and is reported valid. -/
theorem verify_detects_bitflip_gre (f : GreF) (payload : Bytes) (hc : f.c = true) (hl : (greHdr f ++ payload).length ≤ 281474976710656)
    (i : Nat) (hi : i < 8 * (greHdr f ++ payload).length) (c : Bool) (st : Nat)
    (hd : greDecode (flipBit (emitGre f payload) i) = some (c, st)) :
    ∃ r, verifyGre (flipBit (emitGre f payload) i) = some (.ok r) ∧
      (c = true → r.valid = false ∧ r.correct = refCk [] 4 postId (flipBit (emitGre f payload) i) ∧ r.correct ≠ r.actual) ∧
      (c = false → r.valid = true) := by
  have h6 : 4 + 2 ≤ (greHdr f ++ payload).length := by have := greHdr_length_ge f hc; rw [List.length_append]; omega
  refine ⟨verifyWith 0 postId (!c) st (flipBit (emitGre f payload) i), ?_, ?_, ?_⟩
  · unfold verifyGre; rw [hd]; rfl
  · intro hct
    subst hct
    have hs := greDecode_stored _ _ hd
    obtain ⟨e', he', hv, hne⟩ := verifyAt_flip postId neverNoCk postId_ok (plainCtx 4 (greHdr f ++ payload) (by decide) h6 hl) i hi
    unfold emitGre at hs ⊢
    simp only [hc, if_true] at hs ⊢
    rw [he'] at hs
    injection hs with hs
    subst hs
    unfold verifyAt at hv
    rw [he'] at hv
    simp only [neverNoCk] at hv
    injection hv with hv
    simp only [Bool.not_true]
    rw [hv]
    exact ⟨rfl, rfl, hne⟩
  · intro hcf
    subst hcf
    simp [verifyWith]

example : ∃ (f : GreF) (p : Bytes) (st : Nat), f.c = true ∧ greDecode (emitGre f p) = some (true, st) ∧
    greDecode (flipBit (emitGre f p) 0) = some (false, 0) :=
  ⟨{ c := true, k := true, s := false, a := false, recur := 0, flags := 0, ver := 0, proto := 2048, offset := 0, key := 7, seq := 0, ack := 0 },
   [0xaa, 0xbb, 0xcc], 57659, by decide, by decide, by decide⟩

/-! ### Packet.VerifyChecksums (packet.go) on [network layer][layer with checksum] -/

/-- a packet whose layers verify is reported without mismatches and without error (in particular: a decoded
    TCP/UDP/ICMPv6 layer IS verified against its network layer) -/
theorem packet_verify_accepts (ip : Option VerRes) (l4 : VerRes) (hip : ∀ r, ip = some r → r.valid = true) (h4 : l4.valid = true) :
    packetVerify [ip.map .ok, some (.ok l4)] 0 = .ok [] := by
  cases ip with
  | none => simp [packetVerify, mismatchOf, h4]
  | some r => simp [packetVerify, mismatchOf, h4, hip r rfl]

/-- a corrupted transport layer under a valid network layer is listed with its index, Correct and Actual -/
theorem packet_verify_reports (ip : Option VerRes) (l4 : VerRes) (hip : ∀ r, ip = some r → r.valid = true) (h4 : l4.valid = false) :
    packetVerify [ip.map .ok, some (.ok l4)] 0 = .ok [(1, l4.correct, l4.actual)] := by
  cases ip with
  | none => simp [packetVerify, mismatchOf, h4]
  | some r => simp [packetVerify, mismatchOf, h4, hip r rfl]

end Gp.C08
