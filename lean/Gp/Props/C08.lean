import Gp.Lemmas.Checksum
/-
  C08 — Written checksums are correct; verification accepts exactly the correct ones.
  Property theorems only (helper lemmas: Gp/Lemmas/Checksum*.lean).

  Part 1: the helpers (FoldChecksum, reduceChecksum, ComputeChecksum, pseudo-header sums) agree with
          RFC 1071 for every input.
-/
namespace Gp.C08
open Gp Gp.Cksum

/-! ## FoldChecksum -/

/-- Termination as a theorem: for every uint32 the generated loop (fuel 4) stops because its
    condition `csum > 0xffff` fails, not because the fuel ran out. -/
theorem fold_fuel_suffices (c : Nat) (h : c < 2 ^ 32) :
    Gp.Gen.Cksum.foldChecksum_loop1 4 (Int.ofNat c) ≤ 65535 :=
  foldLoop_le _ (by simp) (by simp only [Int.ofNat_eq_natCast]; omega)

/-- RFC 1071 folding, for all 2^32 accumulators: `fold c = 0xffff - f` where the folded sum `f` is
    congruent to `c` modulo 65535, lies in 0..0xffff, and is zero exactly when `c` is zero
    (so `fold 0 = 0xffff`, and every non-zero multiple of 65535 folds to 0). -/
theorem fold_spec (c : Nat) (h : c < 2 ^ 32) :
    ∃ f, fold c = 65535 - f ∧ f ≤ 65535 ∧ f % 65535 = c % 65535 ∧ (f = 0 ↔ c = 0) :=
  ⟨ocRep c, fold_closed c (by simp only [W32]; omega), ocRep_le c, ocRep_mod c, ocRep_eq_zero c⟩

example : fold 0 = 65535 ∧ fold 65535 = 0 ∧ fold 0xffffffff = 0 ∧ fold 0x1fffe = 0 ∧ fold 0x10000 = 65534 := by decide

end Gp.C08
