import Gp.Lemmas.PacketContract
/-
  C01, framework part (engine `pkt`): packet decoding through packet.go's builder is total and
  crash-free with recovery on, and the packet says so whenever a decoder failed.

  Model: Gp/Model/Packet.lean.  A decoder behaviour is data, so every theorem below that does not
  name a hypothesis on `tab` holds for EVERY decoder table — decoders that panic or return errors
  anywhere, call NextDecoder in the middle, never add layers, call SetErrorLayer themselves, …
  (What the individual protocol decoders do — bounds, loops, renderers — is the codec engines' part
  of C01, not this file's.)

  Definitions (Gp/Lemmas/Packet.lean, PacketContract.lean):
    `DM μ` / `D`       the decoder discipline relative to a termination measure μ / plain progress
                       (needed only for *termination*: without it eager decoding recurses without
                       bound — a stack overflow `recover` cannot catch);
    `NoScriptedFail`   no decoder adds a *gopacket.DecodeFailure layer itself;
    `NoSetErr`         no decoder calls SetErrorLayer itself;
    `Contract failed q` the failure contract: failed → the last layer is a DecodeFailure with nil
                       payload, it is the only DecodeFailure layer and ErrorLayer() is that layer;
                       ¬failed → no DecodeFailure layer and ErrorLayer() = nil;
    `ContractWeak`     same with "ErrorLayer() is non-nil" when decoders may call SetErrorLayer;
    `eagerFailed` / `forceFailed`  some decoder failed (eager: the top-level call returned an error or
                       a panic unwound to it; lazy: some decodeNextLayer's decoder did).
  `recover = true` is SkipDecodeRecovery = false.
-/
namespace Gp.C01.Pkt
open Gp Gp.Pkt

/-! ### Totality -/

/-- No panic escapes NewPacket (eager) — for every table, input, first decoder (nil included) and
    fuel: the result is a packet, or (only without progress) the recursion does not end. -/
theorem eager_total (tab : Table) (fuel : Nat) (data : Bytes) (first : Option DecId) :
    newEager tab fuel true data first ≠ .panic := by
  unfold newEager
  cases first with
  | none => simp
  | some d =>
    simp only
    split <;> simp

/-- Under the discipline (any termination measure μ; `D` = plain progress, μ = input length)
    NewPacket (eager) returns a packet, for every input including the empty one: the framework adds
    no non-termination (recursion depth ≤ μ+1). -/
theorem eager_returns (μ : Measure) (tab : Table) (hD : DM μ tab) (fuel : Nat) (data : Bytes) (first : Option DecId)
    (hf : ∀ d, first = some d → μ d data.length + 1 ≤ fuel) : ∃ q, newEager tab fuel true data first = .ok q := by
  cases first with
  | none => exact ⟨_, rfl⟩
  | some d =>
    obtain ⟨r, hr⟩ := eagerDec_terminates μ tab hD fuel d 0 data.length { data := data } (hf d rfl)
    obtain ⟨p, out⟩ := r
    simp only [newEager, hr]
    cases out with
    | ret e => cases e <;> exact ⟨_, rfl⟩
    | panic => exact ⟨_, rfl⟩

/-- No panic escapes any accessor of a lazy packet, in ANY state (any table, any history). -/
theorem lazy_total (tab : Table) (fuel : Nat) (a : Acc) (lp : LPkt) :
    (lazyAcc tab true fuel a lp).2 ≠ .panic := lazyAcc_no_panic tab fuel a lp

/-- Under D every accessor call of every accessor program on a lazy packet returns (no panic, no
    non-termination), for every input including the empty one. -/
theorem lazy_returns (μ : Measure) (tab : Table) (hD : DM μ tab) (data : Bytes) (first : DecId) (prog : List Acc)
    (fuel : Nat) (hf : μ first data.length + 2 ≤ fuel) :
    ∀ ans ∈ runLazy tab true fuel prog (newLazy data (some first)), ans ≠ .panic ∧ ans ≠ .diverge := by
  have key : ∃ q, runLazy tab true fuel prog (newLazy data (some first)) = runEager prog q := by
    by_cases hne : data = []
    · subst hne
      obtain ⟨m, rfl⟩ : ∃ m, fuel = m + 1 := ⟨fuel - 1, by omega⟩
      refine ⟨{ data := [] }, ?_⟩
      apply (runLazy_force tab (m + 1) prog _ _ _).1
      rw [show newLazy [] (some first) = ⟨{ data := [] }, some first⟩ from rfl,
          force_succ_of_some tab m _ first rfl, step_empty tab true _ first 0 rfl]
      exact force_of_none _ _ _ rfl
    · have hlen : data.length ≠ 0 := fun h => hne (List.eq_nil_of_length_eq_zero h)
      obtain ⟨p', out, _, h2⟩ :=
        eager_force_sim μ tab hD fuel fuel first 0 data.length { data := data } hlen rfl (by omega) hf
      exact ⟨_, (runLazy_force tab fuel prog _ _ h2).1⟩
  obtain ⟨q, hq⟩ := key
  rw [hq]
  intro ans hans
  simp only [runEager, List.mem_map] at hans
  obtain ⟨a, _, rfl⟩ := hans
  cases a <;> simp [evalEager]

/-! ### The failure contract -/

/-- Eager, full contract: if no decoder adds a DecodeFailure or calls SetErrorLayer itself, then
    (a) some decoder failed ⇒ last layer is THE DecodeFailure and ErrorLayer() = it;
    (b) nothing failed ⇒ ErrorLayer() = nil and there is no DecodeFailure layer;
    (c) nothing follows the DecodeFailure (it is last; its payload is nil). -/
theorem failure_contract_eager (tab : Table) (h1 : NoScriptedFail tab) (h2 : NoSetErr tab)
    (fuel : Nat) (data : Bytes) (first : Option DecId) (q : Pkt)
    (h : newEager tab fuel true data first = .ok q) :
    Contract (eagerFailed tab fuel data first) q :=
  newEager_contract true tab ⟨h1, fun _ => h2⟩ fuel data first q h

/-- Eager, decoders may call SetErrorLayer themselves (the premise "provided no decoder called
    SetErrorLayer earlier" dropped): the DecodeFailure is still the unique last layer and
    ErrorLayer() is still non-nil — it may be the decoder's own error layer ("first call kept"). -/
theorem failure_contract_eager_weak (tab : Table) (h1 : NoScriptedFail tab)
    (fuel : Nat) (data : Bytes) (first : Option DecId) (q : Pkt)
    (h : newEager tab fuel true data first = .ok q) :
    ContractWeak (eagerFailed tab fuel data first) q :=
  newEager_contract false tab ⟨h1, fun h => by cases h⟩ fuel data first q h

/-- Lazy: the same contract for the packet reached by decoding all layers from a fresh lazy
    packet — and by `Gp.C03.lazy_answers_are_final` every accessor answers from that packet. -/
theorem failure_contract_lazy (tab : Table) (h1 : NoScriptedFail tab) (h2 : NoSetErr tab)
    (fuel : Nat) (data : Bytes) (first : Option DecId) (q : Pkt)
    (h : force tab fuel (newLazy data first) = some q) :
    Contract (forceFailed tab fuel (newLazy data first)) q :=
  force_contract true tab ⟨h1, fun _ => h2⟩ fuel _ q h (cleanG_init true data)

theorem failure_contract_lazy_weak (tab : Table) (h1 : NoScriptedFail tab)
    (fuel : Nat) (data : Bytes) (first : Option DecId) (q : Pkt)
    (h : force tab fuel (newLazy data first) = some q) :
    ContractWeak (forceFailed tab fuel (newLazy data first)) q :=
  force_contract false tab ⟨h1, fun h => by cases h⟩ fuel _ q h (cleanG_init false data)

/-- (c) for lazy packets in ANY state: once the DecodeFailure is there, decoding on (whatever
    continuation a decoder left behind) never adds another layer — the packet is frozen. -/
theorem failure_is_final (tab : Table) (strong : Bool) (lp : LPkt) (fuel : Nat)
    (h : ContractG strong true lp.p) : force tab (fuel + 1) lp = some lp.p := by
  cases hn : lp.next with
  | none => exact force_of_none _ _ _ hn
  | some d =>
    simp only [ContractG, if_true] at h
    obtain ⟨pre, f, _, _, hpl, _, _, hlast⟩ := h
    have hlp : lp = ⟨lp.p, some d⟩ := by cases lp; simp at hn; simp [hn]
    rw [force_succ_of_some _ _ _ _ hn, hlp,
        step_empty tab true lp.p d f.poff (by rw [inputWin_of_last _ _ hlast, hpl])]
    exact force_of_none _ _ _ rfl

/-- A decoder that calls SetErrorLayer itself and goes on (the pattern of
    layers/sctp.go decodeSCTPChunkTypeUnknown) makes ErrorLayer() a layer that is NOT the last one:
    the premise of clause (a) is needed. -/
theorem set_err_counterexample :
    ∃ (tab : Table) (q : Pkt), D tab ∧ NoScriptedFail tab ∧ newEager tab 3 true [1, 2] (some 0) = .ok q
      ∧ q.failure.isSome ∧ q.failure ≠ q.layers.getLast? := by
  let l1 : Layer := { id := 1, ty := 50, coff := 0, clen := 1, poff := 1, plen := 1, fail := false }
  let l2 : Layer := { id := 2, ty := 51, coff := 1, clen := 1, poff := 2, plen := 0, fail := false }
  let mk (id ty off len : Nat) : Layer :=
    { id := id, ty := ty, coff := off, clen := 1, poff := off + 1, plen := len - 1, fail := false }
  let tab : Table := fun d _ off len =>
    match d with
    | 0 => .act (.add (mk 1 50 off len)) (.act (.setErr (mk 1 50 off len)) (.next (some 1) (.ret false) (.ret true)))
    | _ => .act (.add (mk 2 51 off len)) (.ret false)
  refine ⟨tab, { data := [1, 2], layers := [l1, l2], last := some l2, failure := some l1 }, ?_, ?_, by decide, by decide, by decide⟩
  · intro d data off len
    match d with
    | 0 => simp [tab, DBeh, mk, Layer.payLen, lenMeasure]; omega
    | n + 1 => simp [tab, DBeh]
  · intro d data off len l hl
    match d with
    | 0 => simp [tab, Beh.acts] at hl; subst hl; rfl
    | n + 1 => simp [tab, Beh.acts] at hl; subst hl; rfl

/-! ### Read-only accessors -/

/-- A finished packet (eager, or lazy with nothing left to decode) is never changed by any
    accessor, in any recovery mode, and the answer is `evalEager` — a pure function of the packet
    value (feeds C02: concurrent readers of an eager packet only read). -/
theorem accessors_readonly_eager (tab : Table) (rc : Bool) (fuel : Nat) (a : Acc) (p : Pkt) :
    lazyAcc tab rc fuel a ⟨p, none⟩ = (⟨p, none⟩, evalEager a p) := lazyAcc_finished tab rc fuel a p

/-- Hence any accessor program on a finished packet returns the same answers however often and in
    whatever order the calls are made, and leaves the packet as it was. -/
theorem accessors_readonly_program (tab : Table) (rc : Bool) (fuel : Nat) (p : Pkt) :
    ∀ prog : List Acc, runLazy tab rc fuel prog ⟨p, none⟩ = runEager prog p
      ∧ stateAfter tab rc fuel prog ⟨p, none⟩ = ⟨p, none⟩ := by
  intro prog
  induction prog with
  | nil => exact ⟨rfl, rfl⟩
  | cons a rest ih =>
    simp only [runLazy, stateAfter, runEager, List.map_cons, lazyAcc_finished]
    exact ⟨by rw [ih.1]; rfl, ih.2⟩

/-! ### SkipDecodeRecovery -/

/-- With SkipDecodeRecovery NewPacket (eager) panics exactly when the first decoder is nil or some
    decoder panics (a panic anywhere unwinds to the top); no packet is returned. -/
theorem skip_recovery_eager (tab : Table) (fuel : Nat) (data : Bytes) (first : Option DecId) :
    newEager tab fuel false data first = .panic ↔
      (first = none ∨ ∃ d p, first = some d ∧ eagerDec tab fuel d 0 data.length { data := data } = some (p, .panic)) := by
  cases first with
  | none => simp [newEager]
  | some d =>
    simp only [newEager]
    cases hr : eagerDec tab fuel d 0 data.length { data := data } with
    | none => simp [hr]
    | some r =>
      obtain ⟨p, out⟩ := r
      cases out with
      | ret e => cases e <;> simp [hr]
      | panic => simp [hr]

/-- If no decoder panics the flag changes nothing. -/
theorem skip_recovery_irrelevant (tab : Table) (fuel : Nat) (data : Bytes) (d : DecId)
    (h : ∀ p, eagerDec tab fuel d 0 data.length { data := data } ≠ some (p, .panic)) :
    newEager tab fuel false data (some d) = newEager tab fuel true data (some d) := by
  simp only [newEager]
  cases hr : eagerDec tab fuel d 0 data.length { data := data } with
  | none => rfl
  | some r =>
    obtain ⟨p, out⟩ := r
    cases out with
    | ret e => cases e <;> rfl
    | panic => exact absurd hr (h p)

/-- Lazy with SkipDecodeRecovery: a panicking decoder makes decodeNextLayer panic (flag `true`),
    leaving the layers it had added and the continuation it had stored, with `next` otherwise
    cleared and NO DecodeFailure added. -/
theorem skip_recovery_lazy (tab : Table) (p : Pkt) (d : DecId) (off len : Nat) (lp2 : LPkt)
    (hw : inputWin p = (off, len)) (hlen : len ≠ 0)
    (h : lazyBeh (tab d p.data off len) ⟨p, none⟩ = (lp2, .panic)) :
    step tab false ⟨p, some d⟩ = (lp2, true) ∧ step tab true ⟨p, some d⟩ = (⟨addFinal lp2.p, lp2.next⟩, false) :=
  ⟨step_run_panic_skip tab p d off len lp2 hw hlen h, step_run_panic tab p d off len lp2 hw hlen h⟩

/-! ### Non-vacuity -/

/-- decoder 0 adds a layer and chains to decoder 1, which adds a layer and panics. -/
def exTab : Table := fun d _ off len =>
  match d with
  | 0 => .act (.add { id := 1, ty := 50, coff := off, clen := 1, poff := off + 1, plen := len - 1, fail := false })
          (.next (some 1) (.ret false) (.ret true))
  | _ => .act (.add { id := 2, ty := 51, coff := off, clen := 1, poff := off + 1, plen := len - 1, fail := false }) .panic

example : eagerFailed exTab 5 [1, 2, 3] (some 0) = true := by decide
example : ∃ q, newEager exTab 5 true [1, 2, 3] (some 0) = .ok q ∧ q.layers.length = 3 ∧ q.failure.isSome := ⟨_, rfl, by decide, by decide⟩
example : newEager exTab 5 false [1, 2, 3] (some 0) = .panic := by decide
example : forceFailed exTab 5 (newLazy [1, 2, 3] (some 0)) = true := by decide
example : NoScriptedFail exTab := by
  intro d data off len l hl
  match d with
  | 0 => simp [exTab, Beh.acts] at hl; subst hl; rfl
  | n + 1 => simp [exTab, Beh.acts] at hl; subst hl; rfl
example : NoSetErr exTab := by
  intro d data off len l hl
  match d with
  | 0 => simp [exTab, Beh.acts] at hl
  | n + 1 => simp [exTab, Beh.acts] at hl

end Gp.C01.Pkt
