/-
C01 / C03 (T-tie for ALL decoders): the decoder discipline that the packet-builder theorems assume.

`Gp/Gen/DecoderFacts.lean` is regenerated from the repository's current source on every run by
`extract/cmd/x-facts`: one record per function of type
`func([]byte, gopacket.PacketBuilder) error` in package layers (155 in the pinned tree) with
  * nextDecoderOnlyInReturn — every `p.NextDecoder(…)` call is the operand of a `return`
    (so no `AddLayer`/`Set*Layer` can follow it: packet.go's contract for NextDecoder);
  * addLayerBeforeNext      — an `AddLayer` call precedes every `NextDecoder` call (syntactic
    approximation of dominance) or the function delegates to `decodingLayerDecoder`;
  * callsSetErrorLayer      — the decoder sets the error layer itself (then the failure
    contract "error layer is the last layer" is no longer the framework's to keep).
A decoder edited out of the discipline makes `all_disciplined` fail in the kernel.
-/
import Gp.Gen.DecoderFacts

namespace Gp.C01.Facts
open Gp.Gen.DecoderFacts

/-- Every decoder function of package layers is disciplined, or is a justified exception. -/
theorem all_disciplined : ∀ f ∈ decoderFacts, f.ok = true ∨ f.name ∈ disciplineExceptions := by
  decide +kernel

/-- Non-vacuity: the extractor found the decoders (not an empty list), a good part of them do call
    NextDecoder (so the first two clauses say something), and the count is the generated one. -/
theorem discipline_nonvacuous :
    decoderCount = decoderFacts.length ∧ 100 ≤ decoderFacts.length ∧
      40 ≤ (decoderFacts.filter (fun f => decide (0 < f.nextDecoderCalls))).length := by
  decide +kernel

/-- Every exception names an existing decoder that really fails `ok` (no stale excuses). -/
theorem exceptions_all_fail :
    ∀ e ∈ disciplineExceptions, ∃ f ∈ decoderFacts.filter (fun f => !f.ok), f.name = e := by
  decide +kernel

end Gp.C01.Facts
