import Gp.Lemmas.Layers.TcpRender
import Gp.Lemmas.Layers.TcpDecode
/-
  C01 (TCP part): rendering a decoded TCP layer never panics.  TCPOption.String is the one
  renderer of the modelled stack with pointer dereferences; packet.String()/LayerString call it
  (through fmt's Stringer support) on every option the decoder left in the layer — and
  decodeTCP adds the layer to the packet even when DecodeFromBytes failed.
  `Variant.fixed` = pinned code + proposed_fixes/ltcp-3 (nil checks in TCPOption.String)
  (+ ltcp-1 in the decoder); `Variant.orig` = pinned code.
-/
namespace Gp.C01.Tcp
open Gp Gp.Tcp

/-- The renderer is total on EVERY option value (so also on user-built options). -/
theorem optionString_total (t : TcpOption) (k : PanicKind) : optionString Variant.fixed t ≠ .panic k :=
  optionString_no_panic t k

/-- render_total: whatever DecodeFromBytes leaves in the layer — after success OR after a
    decode error, for any old layer value, bytes and capacity — rendering all options does
    not panic. -/
theorem render_total (old : Layer) (data foreign : Bytes) (o : DecOut) (k : PanicKind)
    (_h : decode Variant.fixed old data foreign = .ok o) :
    renderOptions Variant.fixed o.layer.options ≠ .panic k :=
  renderOptions_no_panic _ k

/-- the same for the layer that decodeTCP adds to the packet (added also on error) -/
theorem render_total_packet (dsad : Bool) (data foreign : Bytes) (r : PktBeh) (k : PanicKind)
    (_h : decodeTCP Variant.fixed dsad ⟨data, foreign⟩ = .ok r) :
    renderOptions Variant.fixed r.added.options ≠ .panic k :=
  renderOptions_no_panic _ k

/-- options `1e 03 00 00`: MP_CAPABLE with a bad length -/
def mpCapableBadLen : Bytes :=
  [0x30, 0x39, 0xd4, 0x31, 0xde, 0xad, 0xbe, 0xef, 0, 0, 0, 0, 0x60, 0x02, 0, 0, 0, 0, 0, 0, 0x1e, 3, 0, 0]

/-- non-vacuity: on that input the (fixed) decoder fails and leaves the half-built option in the
    layer, which the nil-safe renderer prints in the generic form -/
example : (match decode Variant.fixed fresh mpCapableBadLen [] with
    | .ok o => o.err && o.layer.options.length == 1 &&
        renderOptions Variant.fixed o.layer.options == .ok ["TCPOption(MultipathTCP:)"]
    | _ => false) = true := by decide

/-- Pinned code: the decode error leaves an option with OptionMultipath = MP_CAPABLE and a nil
    OptionMPTCPMpCapable in the layer; TCPOption.String dereferences it.  (Found on the real
    code by the monitor as ltcp:render-panic:layers/tcp.go:148.) -/
theorem render_total_orig_counterexample :
    ¬ ∀ (old : Layer) (data foreign : Bytes) (o : DecOut) (k : PanicKind),
      decode Variant.orig old data foreign = .ok o → renderOptions Variant.orig o.layer.options ≠ .panic k := by
  intro h
  have key : (match decode Variant.orig fresh mpCapableBadLen [] with
      | .ok o => renderOptions Variant.orig o.layer.options == .panic .nilDeref
      | _ => false) = true := by decide
  generalize hr : decode Variant.orig fresh mpCapableBadLen [] = r at key
  cases r with
  | ok o => exact h _ _ _ o .nilDeref hr (by simpa using key)
  | err e => cases key
  | panic k => cases key

end Gp.C01.Tcp
