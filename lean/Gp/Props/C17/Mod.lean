import Gp.Lemmas.Layers.ModDlp
/-
  C17 (engine `lmod`) — the flow of a decoded FDDI layer carries exactly the two address fields of the
  frame; the two directions give mutually reversed flows.  (ModbusTCP, LCM and PFLog expose no flow
  accessor: they implement none of LinkLayer / NetworkLayer / TransportLayer.  The value laws of flows
  themselves — equality, hashing, ordering — are engine `flow`'s theorems in Gp/Props/C17.lean.)

  Model: `decodeFDDI` (fddi.go:31-46), `FDDI.linkFlow` (fddi.go:27-29) over a local transcription of
  flows.go `NewFlow` (explicit panic above MaxEndpointSize = the GENERATED constant) / `Reverse`.

  Observation (not a clause of C17): fddi.go labels bytes 1-6 of the frame `SrcMAC` and bytes 7-12
  `DstMAC`, while an FDDI MAC frame carries the DESTINATION address first (FC, DA, SA — as Ethernet
  does).  The flow is faithful to the layer's two address fields and the two directions are mutually
  reversed, which is all the property asks; the labels themselves are swapped with respect to the wire
  format (recorded in notes/lmod.md).
-/
namespace Gp.C17.Mod
open Gp Gp.Mod

/-- The LinkFlow of a decoded FDDI layer: no panic, endpoint type MAC, source = the six bytes at
    offset 1 of the input (the layer's SrcMAC), destination = the six bytes at offset 7 (its DstMAC). -/
theorem flow_of_decoded (d : GSlice) (b : Beh) (l : FDDI) (h : decodeFDDI d = .ok (b, some l)) :
    ∃ f, l.linkFlow = .ok f ∧ f.typ = EndpointMAC ∧
      f.srcBytes = (d.vis.drop 1).take 6 ∧ f.dstBytes = (d.vis.drop 7).take 6 ∧
      f.srcBytes = l.srcMAC ∧ f.dstBytes = l.dstMAC ∧ f.srcBytes.length = 6 ∧ f.dstBytes.length = 6 := by
  obtain ⟨h13, hl, _⟩ := decodeFDDI_some d b l h
  obtain ⟨hs, hd⟩ := fddi_mac_len d.vis h13
  subst hl
  have e16 : Gp.Gen.Mod.maxEndpointSize = 16 := rfl
  obtain ⟨f, hf, ht, h1, h2, _⟩ := newFlow_ok EndpointMAC (fddiLayer d.vis).srcMAC (fddiLayer d.vis).dstMAC
    (by rw [hs, e16]; omega) (by rw [hd, e16]; omega)
  refine ⟨f, hf, ht, h1, h2, h1, h2, ?_, ?_⟩
  · rw [h1]; exact hs
  · rw [h2]; exact hd

/-- The two directions of one conversation: a frame whose two address fields are those of another
    frame exchanged yields the reversed flow (and vice versa), whatever else differs. -/
theorem conversation_reversed (d1 d2 : GSlice) (b1 b2 : Beh) (l1 l2 : FDDI)
    (h1 : decodeFDDI d1 = .ok (b1, some l1)) (h2 : decodeFDDI d2 = .ok (b2, some l2))
    (hs : (d2.vis.drop 1).take 6 = (d1.vis.drop 7).take 6) (hd : (d2.vis.drop 7).take 6 = (d1.vis.drop 1).take 6) :
    ∃ f, l1.linkFlow = .ok f ∧ l2.linkFlow = .ok f.reverse ∧ f.reverse.reverse = f := by
  obtain ⟨f, hf, _⟩ := flow_of_decoded d1 b1 l1 h1
  refine ⟨f, hf, ?_, rfl⟩
  obtain ⟨_, e1, _⟩ := decodeFDDI_some d1 b1 l1 h1
  obtain ⟨_, e2, _⟩ := decodeFDDI_some d2 b2 l2 h2
  subst e1 e2
  unfold FDDI.linkFlow at hf ⊢
  have a1 : (fddiLayer d2.vis).srcMAC = (fddiLayer d1.vis).dstMAC := hs
  have a2 : (fddiLayer d2.vis).dstMAC = (fddiLayer d1.vis).srcMAC := hd
  rw [a1, a2]
  exact newFlow_swap _ _ _ _ hf

/-- `Reverse` is an involution. -/
theorem reverse_reverse (f : Flow) : f.reverse.reverse = f := rfl

/-- A hand-made FDDI layer: LinkFlow is NewFlow on the two fields as they are — addresses of up to
    MaxEndpointSize bytes give a flow carrying exactly them, longer ones are REJECTED by NewFlow's
    explicit panic (the "rejection above 16" of the property; FDDI.LinkFlow does not cut). -/
theorem linkFlow_handmade (l : FDDI) :
    (l.srcMAC.length ≤ 16 ∧ l.dstMAC.length ≤ 16 →
       ∃ f, l.linkFlow = .ok f ∧ f.typ = EndpointMAC ∧ f.srcBytes = l.srcMAC ∧ f.dstBytes = l.dstMAC) ∧
    (l.srcMAC.length > 16 ∨ l.dstMAC.length > 16 → l.linkFlow = .panic .explicit) := by
  have e16 : Gp.Gen.Mod.maxEndpointSize = 16 := rfl
  constructor
  · intro ⟨hs, hd⟩
    obtain ⟨f, hf, ht, h1, h2, _⟩ := newFlow_ok EndpointMAC l.srcMAC l.dstMAC (by rw [e16]; exact hs) (by rw [e16]; exact hd)
    exact ⟨f, hf, ht, h1, h2⟩
  · intro h
    unfold FDDI.linkFlow newFlow
    rw [if_pos (by rw [e16]; exact h)]

/-- The link slot of the packet is claimed exactly when a layer is added (SetLinkLayer precedes
    AddLayer), never on the error path; the next decoder is the layer's frame-control value. -/
theorem flow_slot (d : GSlice) :
    ∃ b o, decodeFDDI d = .ok (b, o) ∧ b.acts.contains .setLinkLayer = o.isSome ∧
      b.acts.contains (.addLayer LayerTypeFDDI) = o.isSome ∧ b.acts.contains .setTruncated = false := by
  refine ⟨(fddiSpec d.vis).1, (fddiSpec d.vis).2, decodeFDDI_eq d, ?_⟩
  unfold fddiSpec
  split
  · exact ⟨rfl, rfl, rfl⟩
  · exact ⟨rfl, rfl, rfl⟩

/-! Non-vacuity -/

example :
    (match decodeFddi [0x57, 1,2,3,4,5,6, 7,8,9,10,11,12, 0xaa] [0xEE] with
     | .ok (l, _) => (match l.linkFlow with
        | .ok f => some (f.typ, f.srcBytes, f.dstBytes, f.reverse.srcBytes, l.frameControl, l.priority)
        | _ => none)
     | _ => none) = some (3, [1,2,3,4,5,6], [7,8,9,10,11,12], [7,8,9,10,11,12], 0x50, 7) := by decide

example : ({ contents := [], payload := [], frameControl := 0, priority := 0,
             srcMAC := List.replicate 17 1, dstMAC := [] } : FDDI).linkFlow = .panic .explicit := by decide

end Gp.C17.Mod
