import Gp.Lemmas.Layers.SllDlp
/-
  C17 (engine `lsll`) — the flows of decoded LinuxSLL, LinuxSLL2, UDPLite and RUDP layers carry exactly
  the address / port bytes of the input.

  Model: `LinuxSLL.linkFlow`, `LinuxSLL2.linkFlow`, `UDPLite.transportFlow`, `RUDP.transportFlow` over a
  local transcription of flows.go NewFlow / Reverse / Endpoints().Raw() (`Gp.Sll.Flow`; the value laws
  of flows themselves — equality, hashing, ordering — are engine `flow`'s theorems in Gp/Props/C17.lean).

  A Linux cooked-capture header (SLL and SLL2) carries ONE link-layer address — the sender's — and no
  destination address.  "The reported flow carries exactly that layer's source and destination
  addresses" therefore reads: source = the `AddrLen` address bytes of the header, destination = the empty
  address; the "two directions of one conversation" clause has no instance for these two layers (the
  header of the reply does not contain the first packet's address at all) — what is stated is that the
  flow is one-sided and that reversing it swaps the address to the destination side.  For UDPLite and
  RUDP the two directions (ports exchanged) give mutually reversed flows.
  EtherIP exposes no flow (it implements none of LinkLayer / NetworkLayer / TransportLayer).
-/
namespace Gp.C17.Sll
open Gp Gp.Sll Gp.Gen.Sll

/-- The LinkFlow of every successfully decoded LinuxSLL layer (any bytes, any capacity, any receiver):
    NewFlow does not panic, the endpoint type is MAC, the source address is exactly the `AddrLen`
    bytes that follow the 6-byte prefix of the input, the destination is the empty address. -/
theorem flow_of_decoded (old : LinuxSLL) (d : GSlice) (o : DecOut LinuxSLL)
    (h : old.decodeFromBytes d = .ok o) (he : o.err = false) :
    ∃ f, o.layer.linkFlow = .ok f ∧ f.typ = EndpointMAC ∧
      f.srcBytes = (d.vis.drop 6).take (u16At d.vis 4) ∧ f.dstBytes = [] ∧
      f.srcBytes = o.layer.addr ∧ f.srcBytes.length = o.layer.addrLen := by
  rw [LinuxSLL.decode_eq] at h; cases h
  unfold sllDecSpec at he ⊢
  by_cases h1 : d.vis.length < 16
  · rw [if_pos h1] at he; cases he
  · rw [if_neg h1] at he ⊢
    by_cases h2 : u16At d.vis 4 > 8
    · rw [if_pos h2] at he; cases he
    · rw [if_neg h2]
      have hlen : ((d.vis.drop 6).take (u16At d.vis 4)).length = u16At d.vis 4 := by
        rw [List.length_take, List.length_drop]; omega
      have hm : maxEndpointSize = 16 := rfl
      obtain ⟨f, hf, ht, hs, hd, _⟩ := newFlow_ok EndpointMAC ((d.vis.drop 6).take (u16At d.vis 4)) []
        (by rw [hlen, hm]; omega) (by rw [hm]; exact Nat.zero_le _)
      refine ⟨f, ?_, ht, hs, hd, hs, by rw [hs]; exact hlen⟩
      have ha : ({ layer := sllLayer d.vis, trunc := false, err := false } : DecOut LinuxSLL).layer.addr =
          (d.vis.drop 6).take (u16At d.vis 4) := rfl
      rw [LinuxSLL.linkFlow_eq, ha, List.take_of_length_le (by rw [hlen, hm]; omega)]
      exact hf

/-- The same for LinuxSLL2: the `AddrLength` bytes at offset 12. -/
theorem flow_of_decoded_sll2 (old : LinuxSLL2) (d : GSlice) (o : DecOut LinuxSLL2)
    (h : old.decodeFromBytes d = .ok o) (he : o.err = false) :
    ∃ f, o.layer.linkFlow = .ok f ∧ f.typ = EndpointMAC ∧
      f.srcBytes = (d.vis.drop 12).take (byteAt d.vis 11).toNat ∧ f.dstBytes = [] ∧
      f.srcBytes = o.layer.addr ∧ f.srcBytes.length = o.layer.addrLength := by
  rw [LinuxSLL2.decode_eq] at h; cases h
  unfold sll2DecSpec at he ⊢
  by_cases h1 : d.vis.length < 20
  · rw [if_pos h1] at he; cases he
  · rw [if_neg h1] at he ⊢
    by_cases h2 : (byteAt d.vis 11).toNat > 8
    · rw [if_pos h2] at he; cases he
    · rw [if_neg h2]
      have hlen : ((d.vis.drop 12).take (byteAt d.vis 11).toNat).length = (byteAt d.vis 11).toNat := by
        rw [List.length_take, List.length_drop]; omega
      have hm : maxEndpointSize = 16 := rfl
      obtain ⟨f, hf, ht, hs, hd, _⟩ := newFlow_ok EndpointMAC ((d.vis.drop 12).take (byteAt d.vis 11).toNat) []
        (by rw [hlen, hm]; omega) (by rw [hm]; exact Nat.zero_le _)
      refine ⟨f, ?_, ht, hs, hd, hs, by rw [hs]; exact hlen⟩
      have ha : ({ layer := sll2Layer d.vis, trunc := false, err := false } : DecOut LinuxSLL2).layer.addr =
          (d.vis.drop 12).take (byteAt d.vis 11).toNat := rfl
      rw [LinuxSLL2.linkFlow_eq, ha, List.take_of_length_le (by rw [hlen, hm]; omega)]
      exact hf

/-- `LinkFlow` is total on EVERY LinuxSLL / LinuxSLL2 value, decoded or hand-made: an address longer
    than MaxEndpointSize is cut to its first 16 bytes instead of reaching NewFlow's panic (the
    documented design of the two accessors); one of at most 16 bytes is carried unchanged. -/
theorem linkFlow_total (l : LinuxSLL) (l2 : LinuxSLL2) :
    (∃ f, l.linkFlow = .ok f ∧ f.typ = EndpointMAC ∧ f.srcBytes = l.addr.take maxEndpointSize ∧ f.dstBytes = []) ∧
    (∃ f, l2.linkFlow = .ok f ∧ f.typ = EndpointMAC ∧ f.srcBytes = l2.addr.take maxEndpointSize ∧ f.dstBytes = []) := by
  have hz : ([] : Bytes).length ≤ maxEndpointSize := Nat.zero_le _
  have hl : ∀ a : Bytes, (a.take maxEndpointSize).length ≤ maxEndpointSize := fun a => by
    rw [List.length_take]; exact Nat.min_le_left _ _
  constructor
  · obtain ⟨f, hf, ht, hs, hd, _⟩ := newFlow_ok EndpointMAC _ [] (hl l.addr) hz
    exact ⟨f, by rw [LinuxSLL.linkFlow_eq]; exact hf, ht, hs, hd⟩
  · obtain ⟨f, hf, ht, hs, hd, _⟩ := newFlow_ok EndpointMAC _ [] (hl l2.addr) hz
    exact ⟨f, by rw [LinuxSLL2.linkFlow_eq]; exact hf, ht, hs, hd⟩

/-- Cooked-capture flows are one-sided: the destination of the flow of ANY LinuxSLL / LinuxSLL2 layer is
    empty, and the reversed flow has the address on the destination side and an empty source — so two
    SLL flows are mutually reversed only when both addresses are empty (the header has no field from
    which the opposite direction could be told). -/
theorem sll_flow_one_sided (l : LinuxSLL) (f : Flow) (h : l.linkFlow = .ok f) :
    f.dstBytes = [] ∧ f.reverse.srcBytes = [] ∧ f.reverse.dstBytes = f.srcBytes ∧ f.reverse.reverse = f := by
  have hz : ([] : Bytes).length ≤ maxEndpointSize := Nat.zero_le _
  have hl : (l.addr.take maxEndpointSize).length ≤ maxEndpointSize := by
    rw [List.length_take]; exact Nat.min_le_left _ _
  obtain ⟨g, hg, _, hs, hd, hrs, hrd, _⟩ := newFlow_ok EndpointMAC _ [] hl hz
  have : f = g := by
    rw [LinuxSLL.linkFlow_eq, hg] at h; cases h; rfl
  subst this
  exact ⟨hd, hrs, by rw [hrd, hs], rfl⟩

/-- The TransportFlow of every decoded UDPLite layer: endpoint type UDPLitePort, source = bytes 0-1 of
    the input, destination = bytes 2-3 (the big-endian port numbers as they are on the wire). -/
theorem flow_of_decoded_udplite (d : GSlice) (b : Beh) (l : UDPLite) (h : decodeUDPLite d = .ok (b, some l)) :
    ∃ f, l.transportFlow = .ok f ∧ f.typ = EndpointUDPLitePort ∧
      f.srcBytes = d.vis.take 2 ∧ f.dstBytes = (d.vis.drop 2).take 2 ∧
      f.srcBytes = putBe16 l.srcPort ∧ f.dstBytes = putBe16 l.dstPort := by
  rw [decodeUDPLite_eq] at h
  unfold udpliteSpec at h
  by_cases hs : d.vis.length < 8
  · rw [if_pos hs] at h; cases h
  · rw [if_neg hs] at h; cases h
    have hm : maxEndpointSize = 16 := rfl
    obtain ⟨f, hf, ht, hsrc, hdst, _⟩ := newFlow_ok EndpointUDPLitePort (d.vis.take 2) ((d.vis.drop 2).take 2)
      (by rw [List.length_take, hm]; omega) (by rw [List.length_take, hm]; omega)
    refine ⟨f, hf, ht, hsrc, hdst, ?_, ?_⟩
    · rw [hsrc]
      have := two_bytes d.vis 0 (by omega)
      rw [List.drop_zero] at this
      rw [this]
      exact (putBe16_be16 _ _).symm
    · rw [hdst, two_bytes d.vis 2 (by omega)]
      exact (putBe16_be16 _ _).symm

/-- The TransportFlow of every decoded RUDP layer: endpoint type RUDPPort, source = byte 2 of the
    input, destination = byte 3. -/
theorem flow_of_decoded_rudp (d : GSlice) (b : Beh) (l : RUDP) (h : decodeRUDP d = .ok (b, some l)) :
    ∃ f, l.transportFlow = .ok f ∧ f.typ = EndpointRUDPPort ∧
      f.srcBytes = [byteAt d.vis 2] ∧ f.dstBytes = [byteAt d.vis 3] := by
  have hp : l.srcPort = (byteAt d.vis 2).toNat ∧ l.dstPort = (byteAt d.vis 3).toNat := by
    rw [decodeRUDP_eq] at h
    unfold rudpSpec at h
    repeat' split at h
    all_goals first
      | (cases h; done)
      | (cases h; exact ⟨rfl, rfl⟩)
  have hm : maxEndpointSize = 16 := rfl
  obtain ⟨f, hf, ht, hsrc, hdst, _⟩ := newFlow_ok EndpointRUDPPort [u8 l.srcPort] [u8 l.dstPort]
    (by rw [hm]; exact Nat.le_of_ble_eq_true rfl) (by rw [hm]; exact Nat.le_of_ble_eq_true rfl)
  refine ⟨f, hf, ht, ?_, ?_⟩
  · rw [hsrc, hp.1, u8_of_toNat]
  · rw [hdst, hp.2, u8_of_toNat]

/-- The two directions of one UDPLite conversation — two decodable packets whose port fields are each
    other's exchanged — yield mutually reversed flows. -/
theorem conversation_reversed_udplite (d1 d2 : GSlice) (b1 b2 : Beh) (l1 l2 : UDPLite)
    (h1 : decodeUDPLite d1 = .ok (b1, some l1)) (h2 : decodeUDPLite d2 = .ok (b2, some l2))
    (hs : d2.vis.take 2 = (d1.vis.drop 2).take 2) (hd : (d2.vis.drop 2).take 2 = d1.vis.take 2) :
    ∃ f1 f2, l1.transportFlow = .ok f1 ∧ l2.transportFlow = .ok f2 ∧ f2 = f1.reverse ∧ f1 = f2.reverse := by
  rw [decodeUDPLite_eq] at h1 h2
  unfold udpliteSpec at h1 h2
  by_cases s1 : d1.vis.length < 8
  · rw [if_pos s1] at h1; cases h1
  · by_cases s2 : d2.vis.length < 8
    · rw [if_pos s2] at h2; cases h2
    · rw [if_neg s1] at h1; rw [if_neg s2] at h2
      cases h1; cases h2
      have hm : maxEndpointSize = 16 := rfl
      obtain ⟨f1, hf1, _⟩ := newFlow_ok EndpointUDPLitePort (d1.vis.take 2) ((d1.vis.drop 2).take 2)
        (by rw [List.length_take, hm]; omega) (by rw [List.length_take, hm]; omega)
      have hf2 := newFlow_swap _ _ _ _ hf1
      refine ⟨f1, f1.reverse, hf1, ?_, rfl, rfl⟩
      unfold UDPLite.transportFlow
      simp only [udpliteLayer]
      rw [hs, hd]
      exact hf2

/-- … and so do the two directions of an RUDP conversation (one-byte ports at offsets 2 and 3). -/
theorem conversation_reversed_rudp (d1 d2 : GSlice) (b1 b2 : Beh) (l1 l2 : RUDP)
    (h1 : decodeRUDP d1 = .ok (b1, some l1)) (h2 : decodeRUDP d2 = .ok (b2, some l2))
    (hs : byteAt d2.vis 2 = byteAt d1.vis 3) (hd : byteAt d2.vis 3 = byteAt d1.vis 2) :
    ∃ f1 f2, l1.transportFlow = .ok f1 ∧ l2.transportFlow = .ok f2 ∧ f2 = f1.reverse ∧ f1 = f2.reverse := by
  have hp : ∀ (d : GSlice) (b : Beh) (l : RUDP), decodeRUDP d = .ok (b, some l) →
      l.srcPort = (byteAt d.vis 2).toNat ∧ l.dstPort = (byteAt d.vis 3).toNat := by
    intro d b l h
    rw [decodeRUDP_eq] at h
    unfold rudpSpec at h
    repeat' split at h
    all_goals first
      | (cases h; done)
      | (cases h; exact ⟨rfl, rfl⟩)
  obtain ⟨p1, q1⟩ := hp _ _ _ h1
  obtain ⟨p2, q2⟩ := hp _ _ _ h2
  have hm : maxEndpointSize = 16 := rfl
  obtain ⟨f1, hf1, _⟩ := newFlow_ok EndpointRUDPPort [u8 l1.srcPort] [u8 l1.dstPort]
    (by rw [hm]; exact Nat.le_of_ble_eq_true rfl) (by rw [hm]; exact Nat.le_of_ble_eq_true rfl)
  have hf2 := newFlow_swap _ _ _ _ hf1
  refine ⟨f1, f1.reverse, hf1, ?_, rfl, rfl⟩
  unfold RUDP.transportFlow
  rw [p2, q2, hs, hd, ← p1, ← q1]
  exact hf2

/-- Reversing twice is the identity. -/
theorem reverse_reverse (f : Flow) : f.reverse.reverse = f := rfl

/-- Which packet slot the decoded layer claims (so that `packet.LinkLayer().LinkFlow()` /
    `packet.TransportLayer().TransportFlow()` is the flow above): decodeLinuxSLL / decodeLinuxSLL2
    register the layer they add as the LINK layer, decodeUDPLite / decodeRUDP as the TRANSPORT layer —
    exactly when they add one; decodeEtherIP claims no slot (EtherIP has no flow to report). -/
theorem flow_slot (d : GSlice) :
    (∃ b o, decodeLinuxSLLFn d = .ok (b, o) ∧ b.acts.contains .setLinkLayer = o.isSome) ∧
    (∃ b o, decodeLinuxSLL2Fn d = .ok (b, o) ∧ b.acts.contains .setLinkLayer = o.isSome) ∧
    (∃ b o, decodeUDPLite d = .ok (b, o) ∧ b.acts.contains .setTransportLayer = o.isSome) ∧
    (∃ b o, decodeRUDP d = .ok (b, o) ∧ b.acts.contains .setTransportLayer = o.isSome) ∧
    (∃ b o, decodeEtherIPFn d = .ok (b, o) ∧ b.acts.contains .setLinkLayer = false ∧
        b.acts.contains .setTransportLayer = false) := by
  refine ⟨?_, ?_, ⟨(udpliteSpec d.vis).1, (udpliteSpec d.vis).2, decodeUDPLite_eq d, ?_⟩,
    ⟨(rudpSpec d.vis).1, (rudpSpec d.vis).2, decodeRUDP_eq d, ?_⟩, ?_⟩
  · unfold decodeLinuxSLLFn
    rw [LinuxSLL.decode_eq, Res.bind_ok]
    unfold sllDecSpec
    repeat' split
    all_goals exact ⟨_, _, rfl, rfl⟩
  · unfold decodeLinuxSLL2Fn
    rw [LinuxSLL2.decode_eq, Res.bind_ok]
    unfold sll2DecSpec
    repeat' split
    all_goals exact ⟨_, _, rfl, rfl⟩
  · unfold udpliteSpec; split <;> rfl
  · unfold rudpSpec
    repeat' split
    all_goals rfl
  · unfold decodeEtherIPFn
    rw [EtherIP.decode_eq, Res.bind_ok]
    unfold eipDecSpec
    split
    all_goals exact ⟨_, _, rfl, rfl, rfl⟩

/-! Non-vacuity -/

example :
    (match decodeSll LinuxSLL.fresh [0,0, 0,1, 0,6, 1,2,3,4,5,6,7,8, 8,0, 0x45] [] with
     | .ok (l, _) => (match l.linkFlow with
        | .ok f => some (f.typ, f.srcBytes, f.dstBytes, f.reverse.srcBytes, f.reverse.dstBytes)
        | _ => none)
     | _ => none) = some (3, [1,2,3,4,5,6], [], [], [1,2,3,4,5,6]) := by decide

/-- a hand-made SLL layer with a 20-byte address: cut to 16, no panic -/
example :
    (match ({ LinuxSLL.fresh with addr := [1,2,3,4,5,6,7,8,9,10,11,12,13,14,15,16,17,18,19,20] }).linkFlow with
     | .ok f => some f.srcBytes
     | _ => none) = some [1,2,3,4,5,6,7,8,9,10,11,12,13,14,15,16] := by decide

/-- the two directions of a UDPLite conversation -/
example :
    (match decodeUdplite [0,53, 4,210, 0,8, 0,0, 9] [], decodeUdplite [4,210, 0,53, 0,8, 0,0] [7] with
     | .ok (a, _), .ok (b, _) => (match a.transportFlow, b.transportFlow with
        | .ok f, .ok g => some (f.srcBytes, f.dstBytes, decide (g = f.reverse))
        | _, _ => none)
     | _, _ => none) = some ([0,53], [4,210], true) := by decide

example :
    (match decodeRudp [0x40, 9, 7, 200, 0,0, 0,0,0,1, 0,0,0,2, 0,0,0,3] [] with
     | .ok (l, _) => (match l.transportFlow with
        | .ok f => some (f.typ, f.srcBytes, f.dstBytes)
        | _ => none)
     | _ => none) = some (7, [7], [200]) := by decide

end Gp.C17.Sll
