import Gp.Lemmas.Layers.TcpDecode
import Gp.Props.C17
/-
  C17 (TCP part): the TransportFlow of a decoded TCP layer carries exactly the source and
  destination port bytes of the decoded input; the two directions of a conversation give
  mutually reversed flows with equal fast hashes.  Flows are the shared model of flows.go
  (Gp/Model/Flow.lean, theorems in Gp/Props/C17.lean).
-/
namespace Gp.C17.Tcp
open Gp Gp.Tcp Gp.Flow

/-- flow_of_decoded: once the 20-byte fixed header was there (in particular after every
    successful decode), TransportFlow does not panic and is the well-formed flow of type
    EndpointTCPPort whose source bytes are bytes 0–1 and destination bytes 2–3 of the input. -/
theorem flow_of_decoded (old : Layer) (data foreign : Bytes) (o : DecOut)
    (h : decode Variant.fixed old data foreign = .ok o) (hlen : 20 ≤ data.length) :
    ∃ f, transportFlow o.layer = .ok f ∧ f.WF ∧ f.typ = endpointTCPPort ∧
      f.srcBytes = data.take 2 ∧ f.dstBytes = (data.drop 2).take 2 := by
  obtain ⟨hs, hd⟩ := decode_ports old data foreign o h hlen
  have hacc : ∃ f, newFlow endpointTCPPort o.layer.sPort o.layer.dPort = .ok f := by
    rw [Gp.C17.newFlow_accept, hs, hd]
    simp [Gp.Gen.Flow.maxEndpointSize, List.length_take, List.length_drop]
    omega
  obtain ⟨f, hf⟩ := hacc
  obtain ⟨w, t, s, d⟩ := Gp.C17.newFlow_faithful hf
  exact ⟨f, hf, w, t, by rw [s, hs], by rw [d, hd]⟩

/-- the same for a decode that returned no error -/
theorem flow_of_decoded_ok (old : Layer) (data foreign : Bytes) (o : DecOut)
    (h : decode Variant.fixed old data foreign = .ok o) (he : o.err = false) :
    ∃ f, transportFlow o.layer = .ok f ∧ f.WF ∧ f.typ = endpointTCPPort ∧
      f.srcBytes = data.take 2 ∧ f.dstBytes = (data.drop 2).take 2 :=
  flow_of_decoded old data foreign o h (decode_ok_len _ old data foreign o h he)

/-- conversation_reversed: two segments whose port fields are swapped (the two directions of
    one conversation) yield mutually reversed flows with equal fast hashes. -/
theorem conversation_reversed (old1 old2 : Layer) (d1 d2 f1 f2 : Bytes) (o1 o2 : DecOut)
    (h1 : decode Variant.fixed old1 d1 f1 = .ok o1) (h2 : decode Variant.fixed old2 d2 f2 = .ok o2)
    (l1 : 20 ≤ d1.length) (l2 : 20 ≤ d2.length)
    (hsrc : d2.take 2 = (d1.drop 2).take 2) (hdst : (d2.drop 2).take 2 = d1.take 2) :
    ∃ f, transportFlow o1.layer = .ok f ∧ transportFlow o2.layer = .ok f.reverse ∧
      f.reverse.fastHash = f.fastHash ∧ f.reverse.reverse = f := by
  obtain ⟨f, hf, -, -, -, -⟩ := flow_of_decoded old1 d1 f1 o1 h1 l1
  obtain ⟨hs1, hd1⟩ := decode_ports old1 d1 f1 o1 h1 l1
  obtain ⟨hs2, hd2⟩ := decode_ports old2 d2 f2 o2 h2 l2
  refine ⟨f, hf, ?_, Gp.C17.flow_hash_symm f, rfl⟩
  unfold transportFlow at hf ⊢
  rw [hs2, hd2, hsrc, hdst, ← hs1, ← hd1]
  exact Gp.C17.newFlow_swap hf

/-- non-vacuity: a 20-byte header decodes without error and its flow is 0x3039 → 0xd431 -/
example : (match decode Variant.fixed fresh
    [0x30, 0x39, 0xd4, 0x31, 0xde, 0xad, 0xbe, 0xef, 0, 0, 0, 0, 0x50, 0x02, 0, 0, 0, 0, 0, 0] [] with
    | .ok o => !o.err && (match transportFlow o.layer with
        | .ok f => f.srcBytes == [0x30, 0x39] && f.dstBytes == [0xd4, 0x31]
        | _ => false)
    | _ => false) = true := by decide

end Gp.C17.Tcp
