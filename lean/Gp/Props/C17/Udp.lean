import Gp.Model.Layers.Udp
namespace Gp.C17.Udp
end Gp.C17.Udp
