import Gp.Lemmas.Layers.UdpRt
/-
  C17 for layers/udp.go (engine `ludp`): the TransportFlow of every decoded UDP layer carries
  exactly the source / destination port bytes of the decoded input (and these are the layer's
  SrcPort / DstPort in network byte order), with endpoint type EndpointUDPPort; the two
  directions of a conversation give mutually reversed flows.
  `Flow` is gopacket.Flow as it is stored: type, two lengths, two zero-padded 16-byte arrays —
  so `=` on it is Go's `==` (map-key equality).
-/
namespace Gp.C17.Udp
open Gp Gp.Udp

/-- The flow of a decoded layer: no panic, type UDP, endpoints = bytes 0..1 and 2..3 of the input
    = big-endian SrcPort / DstPort, stored zero-padded. -/
theorem flow_of_decoded (old : Layer) (data foreign : Bytes) (l : Layer) (t : Bool)
    (h : decodeUdp old data foreign = .ok (l, t)) :
    ∃ f, transportFlow l = .ok f ∧ f.typ = EndpointUDPPort ∧
      f.srcBytes = data.take 2 ∧ f.dstBytes = (data.drop 2).take 2 ∧
      f.srcBytes = putBe16 l.srcPort ∧ f.dstBytes = putBe16 l.dstPort ∧
      f.slen = 2 ∧ f.dlen = 2 ∧ f.src = pad16 (data.take 2) ∧ f.dst = pad16 ((data.drop 2).take 2) := by
  have sh := decodeUdp_shape old data foreign l t h
  have hs : l.sPort.length = 2 := by rw [sh.sportF]; rfl
  have hd : l.dPort.length = 2 := by rw [sh.dportF]; rfl
  refine ⟨_, newFlow_ok _ _ _ (by omega) (by omega), rfl, ?_, ?_, ?_, ?_, hs, hd, ?_, ?_⟩
  · simp only [Flow.srcBytes]; rw [take_pad16, sh.sport]
  · simp only [Flow.dstBytes]; rw [take_pad16, sh.dport]
  · simp only [Flow.srcBytes]; rw [take_pad16, sh.sportF]
  · simp only [Flow.dstBytes]; rw [take_pad16, sh.dportF]
  · rw [sh.sport]
  · rw [sh.dport]

/-- Reading the flow of a decoded layer never panics (NewFlow's explicit panic needs > 16 bytes). -/
theorem flow_no_panic (old : Layer) (data foreign : Bytes) (l : Layer) (t : Bool)
    (h : decodeUdp old data foreign = .ok (l, t)) (k : PanicKind) : transportFlow l ≠ .panic k := by
  obtain ⟨f, hf, _⟩ := flow_of_decoded old data foreign l t h
  rw [hf]; intro h'; cases h'

/-- The two directions of one conversation: if the second datagram's ports are the first one's
    swapped, its flow is the reverse of the first one's — and conversely. -/
theorem conversation_reversed (o₁ o₂ : Layer) (d₁ d₂ g₁ g₂ : Bytes) (l₁ l₂ : Layer) (t₁ t₂ : Bool)
    (h₁ : decodeUdp o₁ d₁ g₁ = .ok (l₁, t₁)) (h₂ : decodeUdp o₂ d₂ g₂ = .ok (l₂, t₂)) :
    ∃ f₁ f₂, transportFlow l₁ = .ok f₁ ∧ transportFlow l₂ = .ok f₂ ∧
      (f₂ = f₁.reverse ↔ (l₂.srcPort = l₁.dstPort ∧ l₂.dstPort = l₁.srcPort)) ∧
      (f₂ = f₁.reverse ↔ (d₂.take 2 = (d₁.drop 2).take 2 ∧ (d₂.drop 2).take 2 = d₁.take 2)) := by
  have s₁ := decodeUdp_shape o₁ d₁ g₁ l₁ t₁ h₁
  have s₂ := decodeUdp_shape o₂ d₂ g₂ l₂ t₂ h₂
  have a1 : l₁.sPort.length = 2 := by rw [s₁.sportF]; rfl
  have a2 : l₁.dPort.length = 2 := by rw [s₁.dportF]; rfl
  have b1 : l₂.sPort.length = 2 := by rw [s₂.sportF]; rfl
  have b2 : l₂.dPort.length = 2 := by rw [s₂.dportF]; rfl
  have key : ({ typ := EndpointUDPPort, slen := l₂.sPort.length, dlen := l₂.dPort.length, src := pad16 l₂.sPort,
                dst := pad16 l₂.dPort } : Flow) =
             Flow.reverse { typ := EndpointUDPPort, slen := l₁.sPort.length, dlen := l₁.dPort.length,
                            src := pad16 l₁.sPort, dst := pad16 l₁.dPort } ↔
             (l₂.sPort = l₁.dPort ∧ l₂.dPort = l₁.sPort) := by
    simp only [Flow.reverse, Flow.mk.injEq, true_and, a1, a2, b1, b2]
    constructor
    · rintro ⟨hs, hd⟩; exact ⟨pad16_inj _ _ b1 a2 hs, pad16_inj _ _ b2 a1 hd⟩
    · rintro ⟨hs, hd⟩; rw [hs, hd]; exact ⟨rfl, rfl⟩
  refine ⟨_, _, newFlow_ok _ _ _ (by omega) (by omega), newFlow_ok _ _ _ (by omega) (by omega), ?_, ?_⟩
  · rw [key, s₁.sportF, s₁.dportF, s₂.sportF, s₂.dportF]
    constructor
    · rintro ⟨hs, hd⟩
      exact ⟨putBe16_inj _ _ s₂.wf.1 s₁.wf.2.1 hs, putBe16_inj _ _ s₂.wf.2.1 s₁.wf.1 hd⟩
    · rintro ⟨hs, hd⟩; rw [hs, hd]; exact ⟨rfl, rfl⟩
  · rw [key, s₁.sport, s₁.dport, s₂.sport, s₂.dport]

/-- Reversing twice is the identity (flows.go Reverse). -/
theorem reverse_reverse (f : Flow) : f.reverse.reverse = f := rfl

/-- SetInternalPortsForTesting gives a constructed layer the flow of its port fields. -/
theorem flow_of_setInternalPorts (l : Layer) :
    ∃ f, transportFlow (setInternalPorts l) = .ok f ∧ f.srcBytes = putBe16 l.srcPort ∧ f.dstBytes = putBe16 l.dstPort := by
  refine ⟨_, newFlow_ok _ _ _ (by simp [setInternalPorts, putBe16]) (by simp [setInternalPorts, putBe16]), ?_, ?_⟩
  · simp only [Flow.srcBytes]; exact take_pad16 _
  · simp only [Flow.dstBytes]; exact take_pad16 _

/-! Non-vacuity: a DNS query and its answer. -/
example : (decodeUdp Layer.fresh [0xd6, 0x00, 0x00, 0x35, 0x00, 0x09, 0, 0, 7] []).isOk = true ∧
    (decodeUdp Layer.fresh [0x00, 0x35, 0xd6, 0x00, 0x00, 0x08, 0, 0] []).isOk = true := by decide
example :
    (match decodeUdp Layer.fresh [0xd6, 0x00, 0x00, 0x35, 0x00, 0x09, 0, 0, 7] [],
           decodeUdp Layer.fresh [0x00, 0x35, 0xd6, 0x00, 0x00, 0x08, 0, 0] [] with
     | .ok (a, _), .ok (b, _) =>
       (match transportFlow a, transportFlow b with
        | .ok fa, .ok fb => decide (fb = fa.reverse ∧ fa.srcBytes = [0xd6, 0x00] ∧ fa.typ = 5)
        | _, _ => false)
     | _, _ => false) = true := by decide

end Gp.C17.Udp
