import Gp.Lemmas.Layers.Ip6Flow
import Gp.Props.C17
/-
  C17 (layer part `lip6`) — the network flow of a decoded IPv6 layer carries exactly the source
  and destination address bytes of the input (bytes 8..24 and 24..40), has endpoint type IPv6, and
  the two directions of a conversation give mutually reversed flows with equal fast hashes.

  `(*IPv6).NetworkFlow` = `gopacket.NewFlow(EndpointIPv6, SrcIP, DstIP)`; `Gp.Flow.newFlow` is the
  shared model of flows.go (theorems `Gp.C17.newFlow_faithful`, `newFlow_swap`, `flow_hash_symm`).
-/
namespace Gp.C17.Ip6
open Gp Gp.Ip6 Gp.Flow

/-- NetworkFlow of every successfully decoded IPv6 layer (any old object, any capacity) does not
    panic, is well formed, and its endpoints are exactly the address bytes of the input. -/
theorem flow_of_decoded (old : IPv6) (data foreign : Bytes) (l : IPv6) (tr : Bool)
    (h : decodeIp6 old data foreign = .ok (l, tr)) :
    ∃ f, l.networkFlow = .ok f ∧ f.WF ∧ f.typ = endpointIPv6 ∧
      f.srcBytes = (data.drop 8).take 16 ∧ f.dstBytes = (data.drop 24).take 16 ∧
      f.srcBytes.length = 16 ∧ f.dstBytes.length = 16 := by
  obtain ⟨h40, hs, hd⟩ := decodeIp6_ok_addr old data foreign l tr h
  have ls : l.srcIP.length = 16 := by rw [hs, List.length_take, List.length_drop]; omega
  have ld : l.dstIP.length = 16 := by rw [hd, List.length_take, List.length_drop]; omega
  obtain ⟨f, hf⟩ := (Gp.C17.newFlow_accept endpointIPv6 l.srcIP l.dstIP).2
    (by simp [ls, ld, Gp.Gen.Flow.maxEndpointSize])
  obtain ⟨w, t, s, d⟩ := Gp.C17.newFlow_faithful hf
  exact ⟨f, hf, w, t, by rw [s, hs], by rw [d, hd], by rw [s, ls], by rw [d, ld]⟩

/-- The two directions of one conversation: if a packet and the packet with the two address fields
    exchanged both decode, their network flows are mutually reversed and hash alike. -/
theorem conversation_reversed (old old' : IPv6) (h8 s d rest foreign foreign' : Bytes) (l l' : IPv6)
    (tr tr' : Bool) (hh : h8.length = 8) (hs : s.length = 16) (hd : d.length = 16)
    (h1 : decodeIp6 old (h8 ++ s ++ d ++ rest) foreign = .ok (l, tr))
    (h2 : decodeIp6 old' (h8 ++ d ++ s ++ rest) foreign' = .ok (l', tr')) :
    ∃ f g, l.networkFlow = .ok f ∧ l'.networkFlow = .ok g ∧ g = f.reverse ∧ f = g.reverse ∧
      g.fastHash = f.fastHash := by
  obtain ⟨f, hf, -, -, fs, fd, -, -⟩ := flow_of_decoded _ _ _ _ _ h1
  obtain ⟨g, hg, -, -, gs, gd, -, -⟩ := flow_of_decoded _ _ _ _ _ h2
  have e1 : ∀ (a b : Bytes), a.length = 16 → b.length = 16 →
      ((h8 ++ a ++ b ++ rest).drop 8).take 16 = a ∧ ((h8 ++ a ++ b ++ rest).drop 24).take 16 = b := by
    intro a b ha hb
    constructor
    · rw [List.append_assoc, List.append_assoc, List.drop_left' hh, List.take_left' ha]
    · have : (h8 ++ a).length = 24 := by rw [List.length_append]; omega
      rw [List.append_assoc, List.drop_left' this, List.take_left' hb]
  -- both flows are NewFlow on the same two byte strings, in opposite order
  have hsrc : l.srcIP = s ∧ l.dstIP = d := by
    obtain ⟨-, a, b⟩ := decodeIp6_ok_addr _ _ _ _ _ h1
    rw [a, b]; exact e1 s d hs hd
  have hdst : l'.srcIP = d ∧ l'.dstIP = s := by
    obtain ⟨-, a, b⟩ := decodeIp6_ok_addr _ _ _ _ _ h2
    rw [a, b]; exact e1 d s hd hs
  unfold IPv6.networkFlow at hf hg
  rw [hsrc.1, hsrc.2] at hf
  rw [hdst.1, hdst.2] at hg
  have hsw := Gp.C17.newFlow_swap hf
  rw [hsw] at hg
  cases hg
  exact ⟨f, f.reverse, by unfold IPv6.networkFlow; rw [hsrc.1, hsrc.2]; exact hf,
    by unfold IPv6.networkFlow; rw [hdst.1, hdst.2]; exact hsw, rfl, rfl, Gp.C17.flow_hash_symm f⟩

/-- Non-vacuity: a concrete packet decodes and its flow is 2001:db8::1 → 2001:db8::2. -/
example :
    let pkt : Bytes := [0x60, 0, 0, 0, 0, 1, 59, 0x40, 0x20, 1, 0x0d, 0xb8, 0, 0, 0, 0, 0, 0, 0, 0, 0, 0, 0, 1,
                        0x20, 1, 0x0d, 0xb8, 0, 0, 0, 0, 0, 0, 0, 0, 0, 0, 0, 2, 0xaa]
    ∃ l tr f, decodeIp6 IPv6.zero pkt [] = .ok (l, tr) ∧ l.networkFlow = .ok f ∧
      f.srcBytes = [0x20, 1, 0x0d, 0xb8, 0, 0, 0, 0, 0, 0, 0, 0, 0, 0, 0, 1] ∧ f.reverse ≠ f :=
  ⟨_, _, _, rfl, rfl, by decide, by decide⟩

end Gp.C17.Ip6
