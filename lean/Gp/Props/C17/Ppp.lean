import Gp.Lemmas.Layers.Ppp
/-
  C17 (engine `lppp`) — the LinkFlow of a decoded PPP layer.

  PPP is a point-to-point link: frames carry NO addresses.  `(*PPP).LinkFlow()` returns the package
  singleton `PPPFlow = gopacket.NewFlow(EndpointPPP, nil, nil)`: a flow of endpoint type PPP whose
  source and destination are both the empty address.  "The reported flow carries exactly that
  layer's source and destination addresses" therefore reads: for EVERY decoded PPP layer, whatever
  the bytes, the flow's endpoint type is EndpointPPP and both address byte strings are empty (and
  the fixed arrays behind them are all zero, so that `==`/map-key identity holds); the two
  directions of a conversation yield mutually reversed flows — here equal ones, the flow being its
  own reverse.

  Model: `PPP.linkFlow` = `pppFlow` = `newFlow EndpointPPP [] []` over a local transcription of
  flows.go NewFlow / Reverse / Endpoints().Raw() (`Gp.Ppp.Flow`; the value laws of flows themselves —
  equality, hashing, ordering — are engine `flow`'s theorems in Gp/Props/C17.lean).
  PPPoE and MPLS expose no flow (they implement neither LinkLayer nor NetworkLayer; `decodePPPoE` /
  `decodeMPLS` call no Set*Layer — see `link_slot`).
-/
namespace Gp.C17.Ppp
open Gp Gp.Ppp

/-- `PPPFlow`: NewFlow does not panic (0 ≤ MaxEndpointSize), type PPP, both addresses empty, both
    16-byte arrays zero. -/
theorem pppFlow_value :
    pppFlow = .ok { typ := EndpointPPP, slen := 0, dlen := 0,
                    src := List.replicate 16 0, dst := List.replicate 16 0 } := by decide

/-- For every successfully decoded PPP layer (any bytes, any capacity), LinkFlow does not panic, has
    the PPP endpoint type, and its source / destination are exactly the layer's addresses: none. -/
theorem flow_of_decoded (d : GSlice) (o : DecOut PPP) (l : PPP)
    (_h : decodePPP d = .ok o) (_hl : o.layer = some l) :
    ∃ f, l.linkFlow = .ok f ∧ f.typ = EndpointPPP ∧ f.slen = 0 ∧ f.dlen = 0 ∧
      f.srcBytes = [] ∧ f.dstBytes = [] :=
  ⟨_, pppFlow_value, rfl, rfl, rfl, rfl, rfl⟩

/-- The flow does not depend on the layer's fields at all (it is a package-level singleton). -/
theorem flow_constant (l1 l2 : PPP) : l1.linkFlow = l2.linkFlow := rfl

/-- Reversing twice is the identity. -/
theorem reverse_reverse (f : Flow) : f.reverse.reverse = f := rfl

/-- The two directions of one PPP conversation (ANY two decoded PPP frames) give mutually reversed
    flows; since both endpoints are the empty address the flow is its own reverse. -/
theorem conversation_reversed (d1 d2 : GSlice) (o1 o2 : DecOut PPP) (l1 l2 : PPP)
    (_h1 : decodePPP d1 = .ok o1) (_hl1 : o1.layer = some l1)
    (_h2 : decodePPP d2 = .ok o2) (_hl2 : o2.layer = some l2) :
    ∃ f1 f2, l1.linkFlow = .ok f1 ∧ l2.linkFlow = .ok f2 ∧ f2 = f1.reverse ∧ f1.reverse = f1 :=
  ⟨_, _, pppFlow_value, pppFlow_value, rfl, rfl⟩

/-- decodePPP registers the layer it adds as the packet's LINK layer (so that
    `packet.LinkLayer().LinkFlow()` is this flow); decodePPPoE and decodeMPLS claim no
    link/network/transport slot — they have no flow to report. -/
theorem link_slot (d : GSlice) :
    (∃ o, decodePPP d = .ok o ∧ (o.beh.acts.contains .setLinkLayer = o.layer.isSome)) ∧
    (∃ o, decodePPPoE d = .ok o ∧ o.beh.acts.contains .setLinkLayer = false) ∧
    (∃ o, decodeMPLS d = .ok o ∧ o.beh.acts.contains .setLinkLayer = false) := by
  refine ⟨⟨_, decodePPP_eq d, ?_⟩, ⟨_, decodePPPoE_eq d, ?_⟩, ⟨_, decodeMPLS_eq d, ?_⟩⟩
  · unfold pppOut; cases pppDecSpec d.vis <;> rfl
  · unfold pppoeOut; cases pppoeDecSpec d.vis <;> rfl
  · unfold mplsOut; cases mplsDecSpec d.vis <;> rfl

/-! Non-vacuity -/
example :
    (match decodePpp [0xff, 0x03, 0x00, 0x21, 0x45] [] with
     | .ok (l, _) => (match l.linkFlow with
        | .ok f => some (f.typ, f.srcBytes, f.dstBytes, decide (f.reverse = f))
        | _ => none)
     | _ => none) = some (9, [], [], true) := by decide

end Gp.C17.Ppp
