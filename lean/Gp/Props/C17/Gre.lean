import Gp.Lemmas.Layers.GreRt
/-
  C17 — flows: the GRE layer (engine `lgre`).  *GRE has no LinkFlow/NetworkFlow/TransportFlow: it
  exposes no flow, and the clause "for every decoded link, network or transport layer the reported
  flow carries exactly that layer's addresses" has no instance for it.  What this layer owes the
  property is transparency, which is what is stated here: its decoder claims none of the packet's
  link/network/transport slots, and it hands the encapsulated layers — whose flows ARE reported —
  exactly the input bytes that follow the GRE header.
-/
namespace Gp.C17.Gre
open Gp Gp.Gre

/-- decodeGRE makes no Set{Link,Network,Transport,Application,Error}Layer call: a GRE header never
    becomes (or displaces) the layer a packet's flows are read from. -/
theorem decodeGRE_claims_no_flow_slot (data foreign : Bytes) (beh : PktBeh)
    (h : decodeGREPkt data foreign = .ok beh) : beh.setCalls = [] := by
  unfold decodeGREPkt at h
  cases hd : decodeGre Layer.fresh data foreign with
  | ok x => rw [hd] at h; simp only [Res.bind_ok] at h; cases h; rfl
  | err e => rw [hd] at h; cases h
  | panic k => rw [hd] at h; cases h

/-- Contents and Payload partition the input: the header is a prefix, the payload is the rest —
    no byte is dropped, duplicated or taken from beyond the packet. -/
theorem decode_partitions_input (old : Layer) (data foreign : Bytes) (l : Layer) (t : Bool)
    (h : decodeGre old data foreign = .ok (l, t)) :
    l.contents ++ l.payload = data ∧ 4 ≤ l.contents.length := by
  rw [decode_cases] at h
  split at h
  · cases h
  · rename_i h4
    cases hs : specDecode data with
    | none => rw [hs] at h; cases h
    | some l' =>
      rw [hs] at h
      simp only [Res.ok.injEq, Prod.mk.injEq] at h
      rw [← h.1]
      exact spec_partitions data l' hs

/-- The next decoder (the one whose layer carries the addresses) is chosen by the Protocol field
    alone and receives exactly the bytes after the GRE header. -/
theorem next_decoder_gets_the_payload (data foreign : Bytes) (beh : PktBeh)
    (h : decodeGREPkt data foreign = .ok beh) :
    beh.added.contents ++ beh.added.payload = data ∧
    beh.tail = (if ethLayerType beh.added.protocol = 0 then Tail.done
                else Tail.next (ethLayerType beh.added.protocol) beh.added.payload) := by
  unfold decodeGREPkt at h
  cases hd : decodeGre Layer.fresh data foreign with
  | ok x =>
    obtain ⟨g, t⟩ := x
    rw [hd] at h; simp only [Res.bind_ok] at h; cases h
    exact ⟨(decode_partitions_input _ _ _ _ _ hd).1, rfl⟩
  | err e => rw [hd] at h; cases h
  | panic k => rw [hd] at h; cases h

/- non-vacuity: IPv4 in GRE (key present) — the inner decoder gets the bytes after the 8-byte header. -/
set_option maxRecDepth 8000 in
example : decodeGREPkt [0x20, 0, 8, 0, 0, 0, 0, 1, 0x45, 0] [] =
    .ok { added := { Layer.fresh with
                     contents := [0x20, 0, 8, 0, 0, 0, 0, 1], payload := [0x45, 0],
                     keyPresent := true, key := 1, protocol := 0x0800 },
          truncated := false, setCalls := [], tail := .next 20 [0x45, 0] } := by decide

end Gp.C17.Gre
