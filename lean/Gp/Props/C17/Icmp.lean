import Gp.Lemmas.Layers.Icmp
/- C17 for engine licmp: theorems under construction (see notes/licmp.md). -/
namespace Gp.C17.Icmp
end Gp.C17.Icmp
