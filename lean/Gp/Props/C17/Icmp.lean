import Gp.Lemmas.Layers.Icmp
/-
  C17 for layers/icmp4.go, icmp6.go, icmp6msg.go (engine `licmp`).

  None of the eight ICMP layer types is a link, network or transport layer: the Go types have no
  LinkFlow / NetworkFlow / TransportFlow method (checked on the real code by the adapter with
  interface assertions on every decoded layer) and their registered decode functions
  (`decodingLayerDecoder`: DecodeFromBytes, AddLayer, NextDecoder) never call SetLinkLayer /
  SetNetworkLayer / SetTransportLayer.  So an ICMP layer never contributes a flow to a packet,
  and the flows of a packet that contains ICMP are exactly those of the layers below it (engines
  leth / lip4 / lip6).  What can be stated — and is proved here for every input — is this
  absence: the builder actions of the whole decode chain ICMPv4|ICMPv6 → message → Payload are
  only AddLayer, SetApplicationLayer (for the trailing Payload) and the error-layer bookkeeping.
-/
namespace Gp.C17.Icmp
open Gp Gp.Icmp

/-- Every action of the chain is AddLayer / SetApplicationLayer / SetErrorLayer, for any fuel. -/
theorem chain_acts (f : Nat) : ∀ (k : Kind) (data : Bytes) (o : PktOut), pktRun f k data = .ok o →
    ∀ a ∈ o.acts, a = .add ∨ a = .setApplication ∨ a = .setError := by
  induction f with
  | zero => intro k data o h; cases h
  | succ f ih =>
    intro k data o h a ha
    unfold pktRun at h
    rw [decodeAny_eq] at h
    simp only [Res.bind_ok] at h
    split at h
    · cases h; simp at ha; rcases ha with ha | ha <;> simp [ha]
    · split at h
      · cases h; simp at ha; simp [ha]
      · split at h
        · cases h; simp at ha; rcases ha with ha | ha <;> simp [ha]
        · split at h
          · cases h; simp at ha; simp [ha]
          · rename_i k2 _
            cases hr : pktRun f k2 (pureAny (fresh k) data).layer.payload with
            | panic pk => rw [hr] at h; cases h
            | err e => rw [hr] at h; cases h
            | ok rest =>
              rw [hr] at h
              simp only [Res.bind_ok] at h
              cases h
              simp only [List.mem_cons] at ha
              rcases ha with ha | ha
              · simp [ha]
              · exact ih k2 _ rest hr a ha

/-- No ICMP decode function installs a link, network or transport layer — for every first layer
    kind and every input: the packet's LinkFlow/NetworkFlow/TransportFlow never come from ICMP. -/
theorem decoded_sets_no_flow_layer (k : Kind) (data : Bytes) (o : PktOut) (h : pktRun 3 k data = .ok o) :
    Act.setLink ∉ o.acts ∧ Act.setNetwork ∉ o.acts ∧ Act.setTransport ∉ o.acts := by
  have hc := chain_acts 3 k data o h
  refine ⟨?_, ?_, ?_⟩ <;> intro hm <;> rcases hc _ hm with h1 | h1 | h1 <;> cases h1

/-- non-vacuity: an echo request with payload decodes to ICMPv6, ICMPv6Echo, Payload -/
example : (match pktRun 3 .icmp6 [128, 0, 0, 0, 0, 1, 0, 2, 0x61, 0x62] with
    | .ok o => o.acts | _ => []) = [.add, .add, .add, .setApplication] := by decide

end Gp.C17.Icmp
