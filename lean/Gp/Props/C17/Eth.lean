import Gp.Lemmas.Layers.Eth
/-
  C17 (engine `leth`) — the LinkFlow of a decoded Ethernet layer carries exactly the source and
  destination MAC bytes of the input; the two directions of a conversation give mutually reversed
  flows.

  Model: `Ethernet.linkFlow` = `gopacket.NewFlow(EndpointMAC, e.SrcMAC, e.DstMAC)` over a local
  transcription of flows.go NewFlow / Reverse / Endpoints().Raw() (`Gp.Eth.Flow`; the value laws of
  flows themselves — equality, hashing, ordering — are engine `flow`'s theorems in Gp/Props/C17.lean).
  (Dot1Q exposes no flow.)
-/
namespace Gp.C17.Eth
open Gp Gp.Eth

/-- NewFlow on two 6-byte addresses. -/
theorem newFlow_mac (s d : Bytes) (hs : s.length = 6) (hd : d.length = 6) :
    ∃ f, newFlow EndpointMAC s d = .ok f ∧ f.typ = EndpointMAC ∧ f.slen = 6 ∧ f.dlen = 6 ∧
      f.srcBytes = s ∧ f.dstBytes = d := by
  have h16 : Gp.Gen.Eth.maxEndpointSize = 16 := rfl
  unfold newFlow
  rw [if_neg (by omega)]
  refine ⟨_, rfl, rfl, hs, hd, ?_, ?_⟩
  · simp only [Flow.srcBytes, pad16]; exact List.take_left' rfl
  · simp only [Flow.dstBytes, pad16]; exact List.take_left' rfl

/-- For every successfully decoded Ethernet layer (any receiver, any capacity), LinkFlow does not
    panic, has the MAC endpoint type, and its source / destination are exactly bytes 6..11 / 0..5 of
    the input. -/
theorem flow_of_decoded (old : Ethernet) (d : GSlice) (o : DecOut Ethernet)
    (h : old.decodeFromBytes d = .ok o) (he : o.err = false) :
    ∃ f, o.layer.linkFlow = .ok f ∧ f.typ = EndpointMAC ∧ f.slen = 6 ∧ f.dlen = 6 ∧
      f.srcBytes = (d.vis.drop 6).take 6 ∧ f.dstBytes = d.vis.take 6 := by
  by_cases hs : d.len < 14
  · rw [Ethernet.decode_short old d hs] at h; cases h; cases he
  · have hl : 14 ≤ d.vis.length := by unfold GSlice.len at hs; omega
    rw [Ethernet.decode_long old d (by omega)] at h; cases h
    have e1 : (ethDecSpec d.vis).layer.srcMAC = (d.vis.drop 6).take 6 := by
      unfold ethDecSpec; simp only; split
      · split <;> rfl
      · rfl
    have e2 : (ethDecSpec d.vis).layer.dstMAC = d.vis.take 6 := by
      unfold ethDecSpec; simp only; split
      · split <;> rfl
      · rfl
    unfold Ethernet.linkFlow
    rw [e1, e2]
    exact newFlow_mac _ _ (by simp; omega) (by simp; omega)

/-- Reversing twice is the identity. -/
theorem reverse_reverse (f : Flow) : f.reverse.reverse = f := rfl

/-- The two directions of one conversation: the frame with source and destination swapped decodes
    to a layer whose LinkFlow is exactly the reverse of the original frame's LinkFlow. -/
theorem conversation_reversed (old1 old2 : Ethernet) (v t1 t2 : Bytes) (h : 14 ≤ v.length) :
    ∃ o1 o2 f1 f2,
      old1.decodeFromBytes { vis := v, tail := t1 } = .ok o1 ∧ o1.err = false ∧
      old2.decodeFromBytes { vis := (v.drop 6).take 6 ++ v.take 6 ++ v.drop 12, tail := t2 } = .ok o2 ∧
      o2.err = false ∧ o1.layer.linkFlow = .ok f1 ∧ o2.layer.linkFlow = .ok f2 ∧ f2 = f1.reverse := by
  have l1 : (v.take 6).length = 6 := by simp; omega
  have l2 : ((v.drop 6).take 6).length = 6 := by simp; omega
  have hsw : 14 ≤ ((v.drop 6).take 6 ++ v.take 6 ++ v.drop 12).length := by
    simp only [List.length_append, l1, l2, List.length_drop]; omega
  have herr : ∀ w : Bytes, (ethDecSpec w).err = false := by
    intro w; unfold ethDecSpec; simp only; split
    · split <;> rfl
    · rfl
  have hsrc : ∀ w : Bytes, (ethDecSpec w).layer.srcMAC = (w.drop 6).take 6 := by
    intro w; unfold ethDecSpec; simp only; split
    · split <;> rfl
    · rfl
  have hdst : ∀ w : Bytes, (ethDecSpec w).layer.dstMAC = w.take 6 := by
    intro w; unfold ethDecSpec; simp only; split
    · split <;> rfl
    · rfl
  have s1 : ((v.drop 6).take 6 ++ v.take 6 ++ v.drop 12).take 6 = (v.drop 6).take 6 := by
    rw [List.append_assoc]; exact List.take_left' l2
  have s2 : (((v.drop 6).take 6 ++ v.take 6 ++ v.drop 12).drop 6).take 6 = v.take 6 := by
    rw [List.append_assoc, List.drop_left' l2]; exact List.take_left' l1
  have h16 : Gp.Gen.Eth.maxEndpointSize = 16 := rfl
  refine ⟨ethDecSpec v, ethDecSpec ((v.drop 6).take 6 ++ v.take 6 ++ v.drop 12),
    Flow.mk EndpointMAC 6 6 (pad16 ((v.drop 6).take 6)) (pad16 (v.take 6)),
    Flow.mk EndpointMAC 6 6 (pad16 (v.take 6)) (pad16 ((v.drop 6).take 6)),
    Ethernet.decode_vis old1 v t1 h, herr _, Ethernet.decode_vis old2 _ t2 hsw, herr _, ?_, ?_, rfl⟩
  · unfold Ethernet.linkFlow newFlow
    rw [hsrc, hdst, if_neg (by omega), l1, l2]
  · unfold Ethernet.linkFlow newFlow
    rw [hsrc, hdst, s1, s2, if_neg (by omega), l1, l2]

/-! Non-vacuity -/
example :
    (match decodeEth Ethernet.fresh [1,2,3,4,5,6, 7,8,9,10,11,12, 8,0, 0x45] [] with
     | .ok (l, _) => (match l.linkFlow with | .ok f => some (f.srcBytes, f.dstBytes, f.reverse.srcBytes) | _ => none)
     | _ => none) = some ([7,8,9,10,11,12], [1,2,3,4,5,6], [1,2,3,4,5,6]) := by decide

end Gp.C17.Eth
