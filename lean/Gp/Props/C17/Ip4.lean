import Gp.Lemmas.Layers.Ip4
import Gp.Props.C17
/-
  C17 (the reported flow carries exactly the layer's source and destination addresses; the two
  directions of a conversation give mutually reversed flows with equal hashes) — layer IPv4
  (layers/ip4.go IPv4.NetworkFlow, engine `lip4`), over the shared model of flows.go
  (Gp/Model/Flow.lean, theorems Gp.C17.*).
-/
namespace Gp.C17.Ip4
open Gp Gp.Ip4 Gp.Flow

/-- For every successfully decoded IPv4 layer NetworkFlow does not panic and is the well-formed
    IPv4-typed flow whose source/destination bytes are exactly bytes 12..15 / 16..19 of the
    decoded input. -/
theorem flow_of_decoded (old : Layer) (data foreign : Bytes) (o : DecOut)
    (h : decodeIp4 old data foreign = .ok o) (he : o.err = false) :
    ∃ f, networkFlow o.layer = .ok f ∧ f.WF ∧ f.typ = endpointIPv4 ∧
      f.srcBytes = (data.drop 12).take 4 ∧ f.dstBytes = (data.drop 16).take 4 ∧
      f.srcBytes.length = 4 ∧ f.dstBytes.length = 4 := by
  rw [decodeIp4, decodeWith_eq_spec] at h
  cases h
  obtain ⟨hs, hd, hl⟩ := decodeSpec_addrs true old data he
  have hsl : ((data.drop 12).take 4).length = 4 := by simp [List.length_take, List.length_drop]; omega
  have hdl : ((data.drop 16).take 4).length = 4 := by simp [List.length_take, List.length_drop]; omega
  obtain ⟨f, hf⟩ := (newFlow_accept endpointIPv4 (decodeSpec true old data).layer.srcIP
    (decodeSpec true old data).layer.dstIP).mpr (by rw [hs, hd, hsl, hdl]; decide)
  obtain ⟨w, t, s, d⟩ := newFlow_faithful hf
  exact ⟨f, hf, w, t, by rw [s, hs], by rw [d, hd], by rw [s, hs, hsl], by rw [d, hd, hdl]⟩

/-- The two directions of one conversation: if the addresses of two decoded layers are swapped,
    their flows are mutually reversed and have the same fast hash. -/
theorem conversation_reversed (old1 old2 : Layer) (d1 f1 d2 f2 : Bytes) (o1 o2 : DecOut)
    (h1 : decodeIp4 old1 d1 f1 = .ok o1) (e1 : o1.err = false)
    (h2 : decodeIp4 old2 d2 f2 = .ok o2) (e2 : o2.err = false)
    (hs : o2.layer.srcIP = o1.layer.dstIP) (hd : o2.layer.dstIP = o1.layer.srcIP) :
    ∃ a b, networkFlow o1.layer = .ok a ∧ networkFlow o2.layer = .ok b ∧
      b = a.reverse ∧ a = b.reverse ∧ b.fastHash = a.fastHash := by
  obtain ⟨a, ha, -⟩ := flow_of_decoded old1 d1 f1 o1 h1 e1
  have hb : networkFlow o2.layer = .ok a.reverse := by
    unfold networkFlow at ha ⊢
    rw [hs, hd]; exact newFlow_swap ha
  refine ⟨a, a.reverse, ha, hb, rfl, ?_, flow_hash_symm a⟩
  cases a; rfl

/-- Non-vacuity: a decodable packet 10.0.0.1 → 10.0.0.2 and its reply. -/
example : ∃ o1 o2, decodeIp4 fresh [0x45, 0, 0, 20, 0, 0, 0, 0, 64, 17, 0, 0, 10, 0, 0, 1, 10, 0, 0, 2] [] = .ok o1 ∧
    decodeIp4 fresh [0x45, 0, 0, 20, 0, 0, 0, 0, 64, 17, 0, 0, 10, 0, 0, 2, 10, 0, 0, 1] [] = .ok o2 ∧
    o1.err = false ∧ o2.err = false ∧ o2.layer.srcIP = o1.layer.dstIP ∧ o2.layer.dstIP = o1.layer.srcIP :=
  ⟨_, _, decodeWith_eq_spec _ _ _ _, decodeWith_eq_spec _ _ _ _, by decide, by decide, by decide, by decide⟩

end Gp.C17.Ip4
