import Gp.Model.ReasmPool
/-
  C09 — reassembly: TCP bytes delivered in order, exactly once, gaps announced.
  (work in progress: sequence arithmetic first)
-/
namespace Gp.C09
open Gp Gp.Reasm

/-- `Sequence.Difference` of the CURRENT source is the signed distance on the 2^32 circle for every
    pair of sequence numbers less than 2^30 apart — in particular across the wrap. -/
theorem seq_diff_correct (s k : Int) (hs : 0 ≤ s) (hs' : s < 4294967296)
    (hk : -1073741824 < k) (hk' : k < 1073741824) :
    Arith.real.diff s ((s + k) % 4294967296) = k := by
  simp only [Arith.real, Gp.Gen.SeqReasm.difference]
  split <;> (try split) <;> omega

/-- `Sequence.Add` is addition modulo 2^32 (also for negative increments). -/
theorem seq_add_mod (s n : Int) : Arith.real.add s n = (s + n) % 4294967296 := by
  simp only [Arith.real, Gp.Gen.SeqReasm.add]

example : Arith.real.diff 4294967295 0 = 1 := by decide
example : Arith.real.diff 4294967280 16 = 32 := by decide

end Gp.C09
