import Gp.Lemmas.ReasmNoLoss
/-
  C09 — reassembly: TCP bytes delivered in order, exactly once, gaps announced.

  Model: `Gp/Model/Reasm.lean` (half connection of gopacket/reassembly, tied to the source by the
  correspondence run of engine `reasm`), specification vocabulary: `Gp/Model/ReasmSpec.lean`.
  The sequence arithmetic (`Arith.real`) is the GENERATED translation of `Sequence.Difference/Add`
  of the current source (`Gp/Gen/SeqReasm.lean`).

  Reading guide.  A history of one direction of a connection is a list of `HOp`s: `seg` (one
  AssembleWithContext call: segment, the stream's Accept answer, its KeepFrom rule, and the assembler
  options / page counter at that moment — arbitrary, they depend on other connections), `skipFlush`,
  `flushClose`, `flushAll` (what FlushWithOptions / FlushAll do to this half connection).
  `HOp.OK S i` = the segment is consistent with sender stream `S` and initial sequence number `i`
  (numbers NOT reduced: `HOp.wrap` reduces them modulo 2^32 as on the wire); `hrun` collects every
  ScatterGather handed to the stream; `Rep S a sgs a'` says they are a correct presentation of `S`.
-/
namespace Gp.C09
open Gp Gp.Reasm

/-! ### rung 1 — sequence arithmetic (generated definitions) -/

/-- `Sequence.Difference` of the CURRENT source is the signed distance on the 2^32 circle for every
    pair of sequence numbers less than 2^30 apart — in particular across the wrap. -/
theorem seq_diff_correct (s k : Int) (hs : 0 ≤ s) (hs' : s < 4294967296)
    (hk : -1073741824 < k) (hk' : k < 1073741824) :
    Arith.real.diff s ((s + k) % 4294967296) = k := by
  simp only [Arith.real, Gp.Gen.SeqReasm.difference]
  split <;> (try split) <;> omega

/-- `Sequence.Add` is addition modulo 2^32 (also for negative increments). -/
theorem seq_add_mod (s n : Int) : Arith.real.add s n = (s + n) % 4294967296 := by
  simp only [Arith.real, Gp.Gen.SeqReasm.add]

example : Arith.real.diff 4294967295 0 = 1 := by decide
example : Arith.real.diff 4294967280 16 = 32 := by decide
example : Arith.real.add 4294967295 1 = 0 := by decide

/-! ### rungs 1–5 — soundness for every history (layer A + layer B) -/

/-- **Soundness.**  Fix a sender stream `S` and an initial sequence number `i` anywhere in the sequence
    space, `|S| + 2 < 2^30`.  For EVERY history of the half connection whose segments are consistent with
    `S`, `i` — any segmentation, order, duplication, overlap, SYN first / late / missing / retransmitted /
    carrying data, FIN/RST, interleaved flushes, any limits, any KeepFrom answers, any Accept rejections —
    the model with the generated wrap arithmetic on wire sequence numbers
    * never panics or fails (every Go slice expression in the modelled code is in range), and
    * hands the stream ScatterGathers that are a correct presentation of `S` (`Rep`): new bytes are
      `S[p : p+n]` with `p` = previous position + announced skip — nothing duplicated, reordered, altered or
      invented; saved bytes are the bytes of `S` directly in front of the new ones, exactly as many as the
      stream asked to keep (when contiguous); skip = -1 only while no position is known. -/
theorem reasm_sound (S : List UInt8) (i : Int) (hi : 0 ≤ i) (hwin : S.length + 2 < 1073741824)
    (ops : List HOp) (hok : ∀ op ∈ ops, op.OK S i) :
    ∃ h sgs a, hrun Arith.real {} (ops.map HOp.wrap) = .ok (h, sgs) ∧ Rep S .unknown sgs a := by
  have hA := hrun_wrap S i hi hwin ops {} (Or.inr (inv_init S (i + 1) 0)) hok
  obtain ⟨⟨h, sgs⟩, hr, _, hrep⟩ := hrun_spec S i hi ops {} (Or.inr (inv_init S (i + 1) 0)) hok
  rw [half_wrap_init] at hA
  rw [hA, hr]
  refine ⟨h.wrap, sgs, absPos (i + 1) h, rfl, ?_⟩
  have : absPos (i + 1) ({} : Half) = .unknown := by simp [absPos]
  rw [this] at hrep
  exact hrep

/-- The replay of the property text.  If the first thing the stream gets does not say "start not seen"
    (skip ≠ -1), then replaying all ScatterGathers from offset 0 —
    `pos += skip; new = S[pos : pos+|new|]; pos += |new|` — succeeds for every one of them. -/
theorem reasm_sound_replay (S : List UInt8) (i : Int) (hi : 0 ≤ i) (hwin : S.length + 2 < 1073741824)
    (ops : List HOp) (hok : ∀ op ∈ ops, op.OK S i) (h : Half) (g : SG) (rest : List SG)
    (hrun' : hrun Arith.real {} (ops.map HOp.wrap) = .ok (h, g :: rest)) (hstart : g.skip ≠ -1) :
    Replay S 0 (g :: rest) := by
  obtain ⟨h', sgs, a, hr, hrep⟩ := reasm_sound S i hi hwin ops hok
  rw [hrun'] at hr
  obtain ⟨_, rfl⟩ := Prod.mk.inj (Res.ok.inj hr)
  have := hrep.unknown_first
  exact this.2.1 (this.1.resolve_left hstart)

/-- Kept bytes: the saved bytes of every ScatterGather are the bytes of `S` directly in front of its new bytes
    (unchanged), and the first one has none. -/
theorem reasm_kept_bytes (S : List UInt8) (i : Int) (hi : 0 ≤ i) (hwin : S.length + 2 < 1073741824)
    (ops : List HOp) (hok : ∀ op ∈ ops, op.OK S i) (h : Half) (sgs : List SG)
    (hrun' : hrun Arith.real {} (ops.map HOp.wrap) = .ok (h, sgs)) :
    ∀ g ∈ sgs, ∃ p : Nat, g.new = slice S p g.new.length ∧ g.saved.length ≤ p ∧
      g.saved = slice S (p - g.saved.length) g.saved.length := by
  obtain ⟨h', sgs', a, hr, hrep⟩ := reasm_sound S i hi hwin ops hok
  rw [hrun'] at hr
  obtain ⟨_, rfl⟩ := Prod.mk.inj (Res.ok.inj hr)
  exact hrep.saved_in_front

/-! ### gaps are announced, and only a flush or a limit releases data beyond a gap -/

/-- After ANY consistent history, an AssembleWithContext step of a consistent segment with no page limit
    configured hands the stream only ScatterGathers with skip = 0: data beyond a gap is never released by
    Assemble itself.  (With a limit, and for flushes, `reasm_sound` says the skip is the number of missing
    bytes: the new bytes are `S[pos+skip : …]`.) -/
theorem reasm_gap_only_on_flush (S : List UInt8) (i : Int) (hi : 0 ≤ i) (hwin : S.length + 2 < 1073741824)
    (ops : List HOp) (hok : ∀ op ∈ ops, op.OK S i) (h : Half) (sgs : List SG)
    (hrun' : hrun Arith.real {} (ops.map HOp.wrap) = .ok (h, sgs))
    (p : Seg) (acc : Nat) (keep : KeepRule) (cfg : Cfg) (used : Int)
    (hp : SegOK S i p) (hacc : acc ≤ 1) (hcfg : cfg.maxPer ≤ 0 ∧ cfg.maxTotal ≤ 0) :
    ∃ o, assemble Arith.real cfg h used p.wrap acc keep = .ok o ∧ ∀ g ∈ o.sgs, g.skip = 0 := by
  have hA := hrun_wrap S i hi hwin ops {} (Or.inr (inv_init S (i + 1) 0)) hok
  obtain ⟨⟨hI, sgsI⟩, hr, hinv, _⟩ := hrun_spec S i hi ops {} (Or.inr (inv_init S (i + 1) 0)) hok
  rw [half_wrap_init, hr, hrun'] at hA
  obtain ⟨rfl, _⟩ := Prod.mk.inj (Res.ok.inj hA)
  obtain ⟨o, ho, _, hskip⟩ := assemble_spec S i hi cfg hI used p acc keep hinv hp hacc
  refine ⟨o.wrap, ?_, hskip hcfg⟩
  have := assemble_wrap S i hi hwin cfg hI used p acc keep hinv hp hacc
  rw [ho] at this
  exact this

/-- skip = -1 ("no idea how much was skipped") occurs at most on the very first ScatterGather of a direction,
    where it means that the start was not seen; every other skip is a byte count ≥ 0. -/
theorem reasm_skip_minus1_only_first (S : List UInt8) (i : Int) (hi : 0 ≤ i) (hwin : S.length + 2 < 1073741824)
    (ops : List HOp) (hok : ∀ op ∈ ops, op.OK S i) (h : Half) (g : SG) (rest : List SG)
    (hrun' : hrun Arith.real {} (ops.map HOp.wrap) = .ok (h, g :: rest)) :
    (g.skip = -1 ∨ g.skip = 0) ∧ ∀ g' ∈ rest, 0 ≤ g'.skip := by
  obtain ⟨h', sgs, a, hr, hrep⟩ := reasm_sound S i hi hwin ops hok
  rw [hrun'] at hr
  obtain ⟨_, rfl⟩ := Prod.mk.inj (Res.ok.inj hr)
  exact ⟨hrep.unknown_first.1, hrep.unknown_first.2.2.1⟩

/-! ### completeness -/

/-- Whatever is handed over without an announced gap is a PREFIX of `S` — for every consistent history (any
    flushes, limits, rejections) in which no ScatterGather carried a skip. -/
theorem reasm_complete_prefix (S : List UInt8) (i : Int) (hi : 0 ≤ i) (hwin : S.length + 2 < 1073741824)
    (ops : List HOp) (hok : ∀ op ∈ ops, op.OK S i) (h : Half) (sgs : List SG)
    (hrun' : hrun Arith.real {} (ops.map HOp.wrap) = .ok (h, sgs)) (hnoskip : ∀ g ∈ sgs, g.skip = 0) :
    newBytes sgs = S.take (newBytes sgs).length := by
  cases sgs with
  | nil => simp [newBytes]
  | cons g rest =>
    have hrp := reasm_sound_replay S i hi hwin ops hok h g rest hrun'
      (by rw [hnoskip g (List.mem_cons_self ..)]; decide)
    have := hrp.noskip hnoskip
    simpa [slice] using this


/-- **Completeness.**  Fix `S`, `i` as in `reasm_sound`.  For EVERY history of accepted (`Accept` = true) consistent
    segments — any segmentation, arrival order, duplication, overlapping retransmission, SYN first / late /
    retransmitted / carrying data, FIN anywhere (it is at the end of the sender's stream), any KeepFrom answers —
    with no page limit configured and no flush in between (`HOp.Plain`): once a SYN and every byte of `S` have
    been fed, the new bytes handed to the stream, concatenated in hand-over order, are exactly `S`, and no gap was
    announced.  Nothing stays queued for ever and nothing is dropped by the six overlap cases of `checkOverlap`.
    (An RST is allowed only at the end of the stream and not on a SYN: an RST in the middle legitimately ends
    the direction before `S` is complete — see the example below.) -/
theorem reasm_complete (S : List UInt8) (i : Int) (hi : 0 ≤ i) (hwin : S.length + 2 < 1073741824)
    (ops : List HOp) (hplain : ∀ op ∈ ops, op.Plain S i) (hsyn : ∃ op ∈ ops, op.isSyn = true)
    (hall : ∀ o : Nat, o < S.length → ∃ op ∈ ops, op.carries (i + 1 + o))
    (h : Half) (sgs : List SG) (hrun' : hrun Arith.real {} (ops.map HOp.wrap) = .ok (h, sgs)) :
    newBytes sgs = S ∧ ∀ g ∈ sgs, g.skip = 0 := by
  have hok : ∀ op ∈ ops, op.OK S i := fun op hop => (hplain op hop).ok
  have hA := hrun_wrap S i hi hwin ops {} (Or.inr (inv_init S (i + 1) 0)) hok
  obtain ⟨⟨hI, sgsI⟩, hr, _, _⟩ := hrun_spec S i hi ops {} (Or.inr (inv_init S (i + 1) 0)) hok
  rw [half_wrap_init, hr, hrun'] at hA
  obtain ⟨_, rfl⟩ := Prod.mk.inj (Res.ok.inj hA)
  obtain ⟨hlen, hskip⟩ := complete_ideal S i hi ops hplain hsyn hall hI _ hr
  refine ⟨?_, hskip⟩
  have hpre := reasm_complete_prefix S i hi hwin ops hok h _ hrun' hskip
  rw [hlen] at hpre
  rw [hpre, List.take_length]

/-- **No byte is passed over silently** — with page limits and flushes.  For EVERY consistent history (segments in
    any order with any duplication / overlap, any page limits, interleaved skipFlush / FlushWithOptions / FlushAll
    steps, any KeepFrom answers) whose segments the stream accepts and in which an RST, if any, is at the end of the
    stream (`HOp.Fed`): as long as the direction is open, the half connection of the real-arithmetic run is the
    wrap image (sequence numbers reduced modulo 2^32) of an offset-space half connection `hI` in which every
    payload byte fed so far is either in front of nextSeq — handed over, or announced as part of a skip
    (`reasm_sound`) — or still inside a queued page.  No overlap case, limit release or flush drops a byte. -/
theorem reasm_no_loss (S : List UInt8) (i : Int) (hi : 0 ≤ i) (hwin : S.length + 2 < 1073741824)
    (ops : List HOp) (hfed : ∀ op ∈ ops, op.Fed S i)
    (h : Half) (sgs : List SG) (hrun' : hrun Arith.real {} (ops.map HOp.wrap) = .ok (h, sgs))
    (hopen : h.closed = false) :
    ∃ hI : Half, h = hI.wrap ∧ ∀ x : Int, i + 1 ≤ x → (∃ op ∈ ops, op.carries x) →
      (hI.nextSeq ≠ -1 ∧ x < hI.nextSeq) ∨ ∃ p ∈ hI.queue, p.seq ≤ x ∧ x < p.seq + p.bytes.length := by
  have hok : ∀ op ∈ ops, op.OK S i := by
    intro op hop
    have := hfed op hop
    cases op with
    | seg p acc keep cfg used => exact ⟨this.1, by have := this.2.1; omega⟩
    | skipFlush _ _ => trivial
    | flushClose _ _ _ _ _ => trivial
    | flushAll _ _ => trivial
  have hA := hrun_wrap S i hi hwin ops {} (Or.inr (inv_init S (i + 1) 0)) hok
  obtain ⟨⟨hI, sgsI⟩, hr, _, _⟩ := hrun_spec S i hi ops {} (Or.inr (inv_init S (i + 1) 0)) hok
  rw [half_wrap_init, hr, hrun'] at hA
  obtain ⟨rfl, rfl⟩ := Prod.mk.inj (Res.ok.inj hA)
  have hopenI : hI.closed = false := by simpa [Half.wrap] using hopen
  have h0 : NInv S (i + 1) (fun _ => False) ({} : Half) :=
    { inv := inv_init S (i + 1) 0, fin := fun p hp => by simp at hp, cov := fun _ _ hf => hf.elim }
  have hn := hrun_noloss S i hi ops {} _ h0 rfl hfed hI _ hr hopenI
  refine ⟨hI, rfl, fun x hx hc => ?_⟩
  rcases hn.cov x hx (Or.inr hc) with h' | ⟨p, hp, h1, h2⟩
  · exact Or.inl h'
  · exact Or.inr ⟨p, hp, h1, h2⟩

/-- non-vacuity of `reasm_no_loss`: SYN; bytes [4,6) arrive with limit 1 (queued and released at once, skip 4);
    byte 7 arrives without limit (queued behind the gap at 6); an age flush that releases nothing: all hypotheses
    hold, the direction is open, bytes 4,5 are in front of nextSeq and byte 7 is queued. -/
def nlOps : List HOp :=
  [ .seg { seq := 10, syn := true, fin := false, rst := false, bytes := [], ts := 1 } 1 .none { maxPer := 1 } 0,
    .seg { seq := 15, syn := false, fin := false, rst := false, bytes := [5, 6], ts := 2 } 1 .none { maxPer := 1 } 0,
    .seg { seq := 18, syn := false, fin := false, rst := false, bytes := [8], ts := 3 } 1 .none {} 0,
    .flushClose 0 0 3 .none 1 ]

example : ∀ op ∈ nlOps, op.Fed [1, 2, 3, 4, 5, 6, 7, 8] 10 := by
  intro op hop
  simp only [nlOps, List.mem_cons, List.mem_nil_iff, or_false] at hop
  rcases hop with rfl | rfl | rfl | rfl
  · exact ⟨⟨by decide, ⟨0, by decide, by decide, by decide⟩, by decide⟩, rfl, by decide⟩
  · exact ⟨⟨by decide, ⟨4, by decide, by decide, by decide⟩, by decide⟩, rfl, by decide⟩
  · exact ⟨⟨by decide, ⟨7, by decide, by decide, by decide⟩, by decide⟩, rfl, by decide⟩
  · trivial

example : (match hrun Arith.real {} (nlOps.map HOp.wrap) with
    | .ok (h, sgs) => (h.closed, h.nextSeq, h.queue.length, sgs.map (fun (g : SG) => (g.skip, g.new)))
    | _ => (true, 0, 0, [])) = (false, 17, 1, [(0, []), (4, [5, 6])]) := by decide

/-- non-vacuity of `reasm_complete`: the stream of the examples below (crossing the 2^32 wrap), fed as
    [4,6) — SYN — [0,3) — [1,4) overlapping — [6,8)+FIN — [3,6) overlapping both neighbours: all hypotheses hold
    and the stream gets 1..8. -/
def cpS : List UInt8 := [1, 2, 3, 4, 5, 6, 7, 8]
def cpI : Int := 4294967292
def cpSeg (off n : Nat) (syn fin : Bool) (keep : KeepRule) : HOp :=
  .seg { seq := if syn then cpI else cpI + 1 + off, syn := syn, fin := fin, rst := false,
         bytes := (cpS.drop off).take n, ts := 1 } 1 keep {} 0
def cpOps : List HOp :=
  [cpSeg 4 2 false false .none, cpSeg 0 0 true false .none, cpSeg 0 3 false false (.fromEnd 1),
   cpSeg 1 3 false false (.abs 0), cpSeg 6 2 false true .none, cpSeg 3 3 false false .none]

example : ∀ op ∈ cpOps, op.Plain cpS cpI := by
  intro op hop
  simp only [cpOps, List.mem_cons, List.mem_nil_iff, or_false] at hop
  rcases hop with rfl | rfl | rfl | rfl | rfl | rfl <;>
    (refine ⟨⟨by decide, ?_, by decide⟩, rfl, by decide, by decide, by decide⟩
     first
     | exact ⟨4, by decide, by decide, by decide⟩
     | exact ⟨0, by decide, by decide, by decide⟩
     | exact ⟨1, by decide, by decide, by decide⟩
     | exact ⟨6, by decide, by decide, by decide⟩
     | exact ⟨3, by decide, by decide, by decide⟩)

example : (∃ op ∈ cpOps, op.isSyn = true) ∧ (∀ o : Nat, o < cpS.length → ∃ op ∈ cpOps, op.carries (cpI + 1 + o)) := by
  refine ⟨⟨cpSeg 0 0 true false .none, by simp [cpOps], rfl⟩, ?_⟩
  intro o ho
  have ho' : o < 8 := ho
  have h1 : ∀ o : Nat, o < 3 → (cpSeg 0 3 false false (.fromEnd 1)).carries (cpI + 1 + o) := by
    intro o ho; simp only [HOp.carries, cpSeg, Seg.dataSeq, cpS, cpI]; simp; omega
  have h2 : ∀ o : Nat, 3 ≤ o → o < 6 → (cpSeg 3 3 false false .none).carries (cpI + 1 + o) := by
    intro o h1 h2; simp only [HOp.carries, cpSeg, Seg.dataSeq, cpS, cpI]; simp; omega
  have h3 : ∀ o : Nat, 6 ≤ o → o < 8 → (cpSeg 6 2 false true .none).carries (cpI + 1 + o) := by
    intro o h1 h2; simp only [HOp.carries, cpSeg, Seg.dataSeq, cpS, cpI]; simp; omega
  by_cases a : o < 3
  · exact ⟨_, by simp [cpOps], h1 o a⟩
  · by_cases b : o < 6
    · exact ⟨_, by simp [cpOps], h2 o (by omega) b⟩
    · exact ⟨_, by simp [cpOps], h3 o (by omega) ho'⟩

example : (match hrun Arith.real {} (cpOps.map HOp.wrap) with
    | .ok (_, sgs) => (newBytes sgs, sgs.map (fun (g : SG) => g.skip))
    | _ => ([], [])) = ([1, 2, 3, 4, 5, 6, 7, 8], [0, 0, 0, 0]) := by decide

/-- why an RST in the middle is excluded: SYN, RST, then the only byte of the stream — the RST closes the
    direction and the byte is (correctly) never handed over. -/
example : (match hrun Arith.real {} [
      .seg { seq := 0, syn := true, fin := false, rst := false, bytes := [], ts := 1 } 1 .none {} 0,
      .seg { seq := 1, syn := false, fin := false, rst := true, bytes := [], ts := 1 } 1 .none {} 0,
      .seg { seq := 1, syn := false, fin := false, rst := false, bytes := [9], ts := 1 } 1 .none {} 0] with
    | .ok (h, sgs) => (h.closed, newBytes sgs)
    | _ => (false, [0])) = (true, []) := by decide

/-! ### non-vacuity: a history that crosses the 2^32 wrap, out of order, with an overlapping retransmission,
    KeepFrom and a flush satisfies the hypotheses and produces data -/

def exS : List UInt8 := [1, 2, 3, 4, 5, 6, 7, 8]
def exI : Int := 4294967292      -- SYN at 2^32-4, stream bytes 2^32-3 … 2^32+4: the wrap is inside the stream
def exSeg (off : Nat) (n : Nat) (syn fin : Bool) : Seg :=
  { seq := if syn then exI else exI + 1 + off, syn := syn, fin := fin, rst := false,
    bytes := (exS.drop off).take n, ts := 1 }
def exOps : List HOp :=
  [ .seg (exSeg 4 2 false false) 1 .none {} 0,                 -- queued before the start
    .seg (exSeg 0 0 true false) 1 .none {} 0,                  -- SYN
    .seg (exSeg 0 3 false false) 1 (.fromEnd 1) {} 0,          -- in order, stream keeps 1 byte
    .seg (exSeg 1 3 false false) 1 (.abs 0) {} 0,              -- overlapping retransmission, brings byte 3
    .seg (exSeg 7 1 false true) 1 .none {} 0,                  -- FIN, queued (byte 6 is missing)
    .skipFlush .none 0 ]                                       -- flush: the gap is announced

example : ∀ op ∈ exOps, op.OK exS exI := by
  intro op hop
  simp only [exOps, List.mem_cons, List.mem_nil_iff, or_false] at hop
  rcases hop with rfl | rfl | rfl | rfl | rfl | rfl <;>
    first
    | trivial
    | (refine ⟨⟨by decide, ?_, by decide⟩, by decide⟩
       first
       | exact ⟨0, by decide, by decide, by decide⟩
       | exact ⟨2, by decide, by decide, by decide⟩
       | exact ⟨4, by decide, by decide, by decide⟩
       | exact ⟨1, by decide, by decide, by decide⟩
       | exact ⟨7, by decide, by decide, by decide⟩)

example : (match hrun Arith.real {} (exOps.map HOp.wrap) with
    | .ok (_, sgs) => sgs.map (fun (g : SG) => (g.skip, g.saved, g.new))
    | _ => []) =
    [(0, [], []), (0, [], [1, 2, 3]), (0, [3], [4, 5, 6]), (1, [], [8])] := by decide

end Gp.C09
