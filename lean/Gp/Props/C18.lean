import Gp.Lemmas.SBuf
/-
  C18 — The serialize buffer holds exactly what was written, in position order.

  Model: `Gp/Model/SBuf.lean` (transcription of writer.go serializeBuffer / SerializeLayers).
  Property theorems only; helper lemmas and the three definitions that occur in the
  statements below live in `Gp/Lemmas/SBuf.lean`:

    Inv b    :=  b.start ≤ b.len ∧ b.len ≤ b.mem.length ∧ b.mem.length = b.prepended + b.appended
    encode   :   encode [] = [],  encode (l :: rest) = l.hdr (encode rest) ++ encode rest
    AllOk    :   AllOk [] = True, AllOk (l :: rest) = (l.ok (encode rest) = true ∧ AllOk rest)
-/
namespace Gp.C18
open Gp Gp.SBuf

/-! ## 1. Invariant: holds initially, preserved by every operation, hence in every reachable state -/

theorem inv_new (p a : Nat) : Inv (new p a) := inv_new' p a

theorem inv_prepend (b : SBuf) (n : Nat) (h : Inv b) : Inv (prepend b n).1 := inv_prepend' b n h

theorem inv_append (b : SBuf) (n : Nat) (h : Inv b) : Inv (append b n).1 := inv_append' b n h

theorem inv_clear (b : SBuf) (h : Inv b) : Inv (clear b) := inv_clear' b h

theorem inv_pushLayer (b : SBuf) (t : Int) (h : Inv b) : Inv (pushLayer b t) := h

/-- Filling a window that lies inside the backing array keeps the invariant. -/
theorem inv_fill (b : SBuf) (w : Win) (vs : List UInt8) (h : Inv b)
    (hw : w.off + vs.length ≤ b.mem.length) : Inv (fill b w vs) := inv_fill' b w vs h hw

/-- A single store through any window (current, stale, in or out of range) keeps the invariant. -/
theorem inv_write (b b' : SBuf) (w : Win) (i : Nat) (v : UInt8) (h : Inv b)
    (hw : write b w i v = .ok b') : Inv b' := by
  unfold write at hw
  split at hw
  · split at hw
    · cases hw; exact inv_set b _ v h
    · cases hw; exact h
  · cases hw

theorem inv_step (b : SBuf) (op : Op) (h : Inv b) : Inv (step b op) := inv_step' b op h

/-- Every reachable state satisfies the invariant, for every history and every size hint. -/
theorem inv_run (p a : Nat) (ops : List Op) : Inv (run (new p a) ops) :=
  inv_run_from _ ops (inv_new p a)

/-! ## 2–4. Prepend / append / clear -/

/-- PrependBytes(n): the returned slice has exactly `n` bytes, aliases the *current* backing
    array, is the first `n` bytes of the new contents, and the old contents follow unchanged
    (in both the in-place and the reallocating branch). -/
theorem prepend_spec (b : SBuf) (n : Nat) (h : Inv b) :
    let r := prepend b n
    Inv r.1 ∧ r.2.n = n ∧ r.2.gen = r.1.gen ∧ r.2.off = r.1.start ∧ r.2.off + n ≤ r.1.len ∧
    (contents r.1).length = n + (contents b).length ∧
    (contents r.1).drop n = contents b ∧
    r.1.layers = b.layers :=
  ⟨inv_prepend b n h, rfl, rfl, rfl, prepend_start_len b n h,
   prepend_contents_length b n h, prepend_contents_drop b n h, prepend_layers b n⟩

/-- AppendBytes(n): the returned slice has exactly `n` bytes, aliases the current backing array,
    is the last `n` bytes of the new contents, and the old contents precede it unchanged. -/
theorem append_spec (b : SBuf) (n : Nat) (h : Inv b) :
    let r := append b n
    Inv r.1 ∧ r.2.n = n ∧ r.2.gen = r.1.gen ∧ r.2.off = b.len ∧
    r.1.start = b.start ∧ r.2.off + n = r.1.len ∧
    r.2.off - r.1.start = (contents b).length ∧
    (contents r.1).length = (contents b).length + n ∧
    (contents r.1).take (contents b).length = contents b ∧
    r.1.layers = b.layers := by
  obtain ⟨f1, f2, f3, -⟩ := append_fields b n
  refine ⟨inv_append b n h, rfl, rfl, rfl, f1, ?_, ?_, append_contents_length b n h,
    append_contents_take b n h, f3⟩
  · show b.len + n = _; rw [f2]
  · show b.len - _ = _; rw [f1, contents_length b h]

/-- Clear empties both the contents and the recorded layers (and keeps the invariant). -/
theorem clear_spec (b : SBuf) (h : Inv b) :
    contents (clear b) = [] ∧ (clear b).layers = [] ∧ Inv (clear b) :=
  ⟨contents_clear b, rfl, inv_clear b h⟩

/-! ## 5. Prepend/append followed by filling the returned slice -/

theorem fill_prepend (b : SBuf) (vs : List UInt8) (h : Inv b) :
    contents (step b (.prepend vs)) = vs ++ contents b := contents_step_prepend b vs h

theorem fill_append (b : SBuf) (vs : List UInt8) (h : Inv b) :
    contents (step b (.append vs)) = contents b ++ vs := contents_step_append b vs h

/-- General form: filling any current window lying inside the contents replaces exactly the
    bytes of that window. -/
theorem fill_spec (b : SBuf) (w : Win) (vs : List UInt8) (h : Inv b)
    (hg : w.gen = b.gen) (h1 : b.start ≤ w.off) (h2 : w.off + vs.length ≤ b.len) :
    contents (fill b w vs) =
      (contents b).take (w.off - b.start) ++ vs ++
        (contents b).drop (w.off - b.start + vs.length) := fill_contents b w vs h hg h1 h2

/-! ## 6. Refinement of the abstract list specification -/

/-- From any invariant state, running a history changes (contents, layers) exactly as the
    abstract specification does. -/
theorem refines_spec_from (b : SBuf) (ops : List Op) (h : Inv b) :
    (contents (run b ops), (run b ops).layers) = ops.foldl specStep (contents b, b.layers) :=
  refines_from b ops h

/-- For every history and every pair of size hints the buffer's contents and recorded layers
    are exactly those of the abstract specification. -/
theorem refines_spec (p a : Nat) (ops : List Op) :
    contents (run (new p a) ops) = (spec ops).1 ∧ (run (new p a) ops).layers = (spec ops).2 := by
  have h := refines_from (new p a) ops (inv_new p a)
  have h0 : contents (new p a) = [] := by simp [contents, new]
  rw [h0] at h
  exact ⟨congrArg Prod.fst h, congrArg Prod.snd h⟩

/-! ## 7. Single stores through a returned slice -/

/-- A store through a current window lying inside the contents changes exactly that byte. -/
theorem write_spec (b : SBuf) (w : Win) (i : Nat) (v : UInt8) (h : Inv b)
    (hg : w.gen = b.gen) (h1 : b.start ≤ w.off) (_h2 : w.off + w.n ≤ b.len) (hi : i < w.n) :
    ∃ b', write b w i v = .ok b' ∧
      contents b' = (contents b).set (w.off - b.start + i) v ∧ Inv b' ∧
      b'.start = b.start ∧ b'.len = b.len ∧ b'.layers = b.layers ∧ b'.gen = b.gen ∧
      b'.prepended = b.prepended ∧ b'.appended = b.appended := by
  refine ⟨_, write_current b w i v hg hi, ?_, inv_set b _ v h, rfl, rfl, rfl, rfl, rfl, rfl⟩
  rw [contents_set b _ v (by omega)]
  congr 1; omega

/-- The stored byte is the one read back at that position of the contents. -/
theorem write_read (b : SBuf) (w : Win) (i : Nat) (v : UInt8) (h : Inv b)
    (hg : w.gen = b.gen) (h1 : b.start ≤ w.off) (h2 : w.off + w.n ≤ b.len) (hi : i < w.n) :
    ∃ b', write b w i v = .ok b' ∧ (contents b')[w.off - b.start + i]? = some v := by
  obtain ⟨b', hw, hc, -⟩ := write_spec b w i v h hg h1 h2 hi
  refine ⟨b', hw, ?_⟩
  have hcl := contents_length b h
  rw [hc, List.getElem?_set_self (by omega)]

/-- A store through a stale slice (one handed out before a reallocation) does not reach the buffer. -/
theorem write_stale (b : SBuf) (w : Win) (i : Nat) (v : UInt8)
    (hg : w.gen ≠ b.gen) (hi : i < w.n) : write b w i v = .ok b := by
  simp [write, hg, hi]

/-- A store past the end of the returned slice panics (index out of range). -/
theorem write_oob (b : SBuf) (w : Win) (i : Nat) (v : UInt8) (hi : ¬ i < w.n) :
    write b w i v = .panic .index := by
  simp [write, hi]

/-! ## 8. Earlier slices across later growth -/

/-- Prepend without reallocation: same backing array, and every earlier window that was inside
    the contents is still inside the contents. -/
theorem window_survives_prepend (b : SBuf) (n : Nat) (hn : ¬ b.start < n) :
    (prepend b n).1.gen = b.gen ∧ (prepend b n).1.mem = b.mem ∧
    ∀ w : Win, b.start ≤ w.off → w.off + w.n ≤ b.len →
      (prepend b n).1.start ≤ w.off ∧ w.off + w.n ≤ (prepend b n).1.len := by
  rw [prepend_eq]; simp only [hn, if_false]
  refine ⟨trivial, trivial, ?_⟩
  intro w h1 h2; exact ⟨by omega, h2⟩

/-- Append without reallocation: same backing array, earlier windows stay inside the contents. -/
theorem window_survives_append (b : SBuf) (n : Nat) (hn : ¬ cap b - b.len < n) :
    (append b n).1.gen = b.gen ∧ (append b n).1.mem = b.mem ∧
    ∀ w : Win, b.start ≤ w.off → w.off + w.n ≤ b.len →
      (append b n).1.start ≤ w.off ∧ w.off + w.n ≤ (append b n).1.len := by
  rw [append_eq]; simp only [hn, if_false]
  refine ⟨trivial, trivial, ?_⟩
  intro w h1 h2; exact ⟨h1, by omega⟩

/-- Prepend with reallocation: a fresh backing array, so every earlier slice is stale and
    stores through it no longer reach the buffer. -/
theorem window_stale_prepend (b : SBuf) (n : Nat) (hn : b.start < n) :
    (prepend b n).1.gen = b.gen + 1 ∧
    ∀ w : Win, w.gen ≤ b.gen → w.gen ≠ (prepend b n).1.gen ∧
      ∀ i v, i < w.n → write (prepend b n).1 w i v = .ok (prepend b n).1 := by
  have hg : (prepend b n).1.gen = b.gen + 1 := by
    rw [prepend_eq]; simp only [hn, if_true]; rfl
  refine ⟨hg, fun w hw => ?_⟩
  have hne : w.gen ≠ (prepend b n).1.gen := by omega
  exact ⟨hne, fun i v hi => write_stale _ w i v hne hi⟩

/-- Append with reallocation: likewise. -/
theorem window_stale_append (b : SBuf) (n : Nat) (hn : cap b - b.len < n) :
    (append b n).1.gen = b.gen + 1 ∧
    ∀ w : Win, w.gen ≤ b.gen → w.gen ≠ (append b n).1.gen ∧
      ∀ i v, i < w.n → write (append b n).1 w i v = .ok (append b n).1 := by
  have hg : (append b n).1.gen = b.gen + 1 := by
    rw [append_eq]; simp only [hn, if_true]; rfl
  refine ⟨hg, fun w hw => ?_⟩
  have hne : w.gen ≠ (append b n).1.gen := by omega
  exact ⟨hne, fun i v hi => write_stale _ w i v hne hi⟩

/-- Generations never decrease, so every slice handed out in the past has `gen ≤` the current one. -/
theorem gen_mono_run (b : SBuf) (ops : List Op) : b.gen ≤ (run b ops).gen := by
  induction ops generalizing b with
  | nil => exact Nat.le_refl _
  | cons op ops ih => exact Nat.le_trans (gen_le_step b op) (ih (step b op))

/-- "Bytes written earlier survive every later growth", stated on contents: whatever the buffer
    held is still there, in the same relative position, after any further prepend or append
    (reallocating or not), with the new bytes before resp. after it. -/
theorem contents_survive (b : SBuf) (vs : List UInt8) (h : Inv b) :
    (contents (step b (.prepend vs))).drop vs.length = contents b ∧
    (contents (step b (.append vs))).take (contents b).length = contents b := by
  rw [fill_prepend b vs h, fill_append b vs h]
  exact ⟨List.drop_left' rfl, List.take_left' rfl⟩

/-! ## 9. SerializeLayers -/

/-- SerializeLayers(ls) with `ls` outermost-first and every serializer succeeding: the buffer is
    cleared first (the result does not depend on prior contents), layers are recorded
    innermost-first, and the bytes are the nested encoding — outermost layer's bytes first. -/
theorem serialize_layers_order (b : SBuf) (ls : List Ser) (h : Inv b) (hok : AllOk ls) :
    ∃ b', serializeLayers b ls = .ok b' ∧ Inv b' ∧
      b'.layers = (ls.map (·.typ)).reverse ∧ contents b' = encode ls := by
  have hg := go_refines (clear b) ls.reverse (inv_clear b h)
  rw [contents_clear, show (clear b).layers = [] from rfl, (goSpec_reverse ls).1 hok] at hg
  obtain ⟨b', h1, h2, h3, h4⟩ := hg
  exact ⟨b', h1, h2, h4, h3⟩

/-- If some serializer fails, SerializeLayers returns that error. -/
theorem serialize_layers_err (b : SBuf) (ls : List Ser) (h : Inv b) (hok : ¬ AllOk ls) :
    serializeLayers b ls = .err "serialize" := by
  have hg := go_refines (clear b) ls.reverse (inv_clear b h)
  rw [contents_clear, show (clear b).layers = [] from rfl, (goSpec_reverse ls).2 hok] at hg
  exact hg

/-- SerializeLayers never panics (from any buffer state whatsoever). -/
theorem serialize_layers_no_panic (b : SBuf) (ls : List Ser) (k : PanicKind) :
    serializeLayers b ls ≠ .panic k := go_no_panic (clear b) ls.reverse k

/-- The outermost layer's header is a prefix of the produced bytes. -/
theorem serialize_layers_outermost_first (b : SBuf) (l : Ser) (rest : List Ser) (h : Inv b)
    (hok : AllOk (l :: rest)) :
    ∃ b', serializeLayers b (l :: rest) = .ok b' ∧
      contents b' = l.hdr (encode rest) ++ encode rest ∧
      b'.layers.getLast? = some l.typ := by
  obtain ⟨b', h1, -, h3, h4⟩ := serialize_layers_order b (l :: rest) h hok
  refine ⟨b', h1, h4, ?_⟩
  rw [h3]; simp

/-- The observable run of SerializeLayers has the same result as the plain one. -/
theorem serialize_layers_obs_agrees (b : SBuf) (ls : List Ser) :
    (match serializeLayersObs b ls with
     | (.ok (), b', _) => Res.ok b'
     | (.err e, _, _) => .err e
     | (.panic k, _, _) => .panic k) = serializeLayers b ls :=
  goObs_agrees (clear b) [] ls.reverse

/-- **Recorded layers are exactly the layers already serialized**, at every moment and also on failure.
    For ANY serializers (failing ones included) and any buffer: with `n` the number of serializers that
    ran successfully (innermost first), every serializer that was called found, in `Layers()`, exactly
    the types of the serializers inside it — never its own; what SerializeLayers leaves recorded is
    exactly those `n` types (the failing serializer is not recorded); the result is ok iff all ran. -/
theorem serialize_layers_records_serialized (b : SBuf) (ls : List Ser) :
    ∃ n, n ≤ ls.length ∧
      (serializeLayersObs b ls).2.2 = (List.range (min (n + 1) ls.length)).map
          (fun i => (ls.reverse.take i).map (·.typ)) ∧
      (serializeLayersObs b ls).2.1.layers = (ls.reverse.take n).map (·.typ) ∧
      ((serializeLayersObs b ls).1 = .ok () ↔ n = ls.length) := by
  have h := goObs_spec ls.reverse [] (clear b) [] rfl
  simpa [serializeLayersObs] using h

/-! ## 10. Non-vacuity -/

/-- A reachable state after two reallocations and a clear, with non-empty contents. -/
example : contents (run (new 0 0) [.append [1,2], .prepend [3], .clear, .prepend [9,8,7]])
    = [9,8,7] := by decide

example : contents (run (new 0 0) [.append [1,2], .prepend [3], .append [4]]) = [3,1,2,4] := by
  decide

example : (run (new 2 1) [.append [1,2], .push 5, .prepend [3,4,5]]).gen = 2 := by decide

/-- The hypotheses of `write_spec` are satisfiable: store through the slice returned by prepend. -/
example :
    let r := prepend (run (new 0 0) [.append [1,2]]) 2
    r.2.gen = r.1.gen ∧ r.1.start ≤ r.2.off ∧ r.2.off + r.2.n ≤ r.1.len ∧
    (write r.1 r.2 1 7).isOk = true := by decide

/-- The hypotheses of `serialize_layers_order` are satisfiable, with a non-trivial result. -/
example :
    let eth : Ser := { typ := 1, hdr := fun p => [0xE0, UInt8.ofNat p.length], ok := fun _ => true }
    let ip  : Ser := { typ := 2, hdr := fun p => [0x45, UInt8.ofNat p.length], ok := fun _ => true }
    let pay : Ser := { typ := 3, hdr := fun _ => [0xAA, 0xBB, 0xCC], ok := fun p => p.isEmpty }
    AllOk [eth, ip, pay] ∧
    encode [eth, ip, pay] = [0xE0, 5, 0x45, 3, 0xAA, 0xBB, 0xCC] ∧
    (match serializeLayers (run (new 0 0) [.append [1,2]]) [eth, ip, pay] with
     | .ok b' => some (contents b', b'.layers)
     | _ => none) = some ([0xE0, 5, 0x45, 3, 0xAA, 0xBB, 0xCC], [3, 2, 1]) := by
  refine ⟨⟨rfl, rfl, rfl, trivial⟩, by decide, by decide⟩

/-- Observations of a three-layer stack whose middle serializer fails: the innermost ran and is the only
    one recorded, the failing one saw `[3]` (not itself), the outermost was never called. -/
example :
    let eth : Ser := { typ := 1, hdr := fun _ => [0xE0], ok := fun _ => true }
    let bad : Ser := { typ := 2, hdr := fun _ => [0x45], ok := fun _ => false }
    let pay : Ser := { typ := 3, hdr := fun _ => [0xAA], ok := fun _ => true }
    (serializeLayersObs (new 0 0) [eth, bad, pay]).1 = .err "serialize" ∧
    (serializeLayersObs (new 0 0) [eth, bad, pay]).2.1.layers = [3] ∧
    (serializeLayersObs (new 0 0) [eth, bad, pay]).2.2 = [[], [3]] := by decide

/-- ... and so is the failure case. -/
example :
    let bad : Ser := { typ := 3, hdr := fun _ => [1], ok := fun p => !p.isEmpty }
    ¬ AllOk [bad] ∧ serializeLayers (new 0 0) [bad] = .err "serialize" := by
  refine ⟨by simp [AllOk, encode], by decide⟩

end Gp.C18
