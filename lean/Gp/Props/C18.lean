import Gp.Model.SBuf
/-
  C18 — The serialize buffer holds exactly what was written, in position order.
  Property theorems only (helper lemmas are local and prefixed `aux_`).
-/
namespace Gp.C18
open Gp Gp.SBuf

/-- Representation invariant of writer.go's serializeBuffer. -/
def Inv (b : SBuf) : Prop :=
  b.start ≤ b.len ∧ b.len ≤ b.mem.length ∧ b.mem.length = b.prepended + b.appended

theorem aux_zeros_len (n : Nat) : (zeros n).length = n := by simp [zeros]

theorem aux_contents_len (b : SBuf) (h : Inv b) : (contents b).length = b.len - b.start := by
  obtain ⟨h1, h2, _⟩ := h
  simp [contents, List.length_take, List.length_drop]; omega

theorem inv_new (p a : Nat) : Inv (new p a) := by
  simp [Inv, new, zeros]

/-- Prepend: invariant preserved, window is exactly `n` bytes at the front of the contents
    of the current generation, and the old contents follow unchanged. -/
theorem prepend_spec (b : SBuf) (n : Nat) (h : Inv b) :
    let r := prepend b n
    Inv r.1 ∧ r.2.n = n ∧ r.2.gen = r.1.gen ∧ r.2.off = r.1.start ∧ r.2.off + n ≤ r.1.len ∧
    (contents r.1).length = n + (contents b).length ∧
    (contents r.1).drop n = contents b := by
  have hcl := aux_contents_len b h
  obtain ⟨h1, h2, h3⟩ := h
  simp only [prepend]
  by_cases hs : b.start < n
  · simp only [hs, if_true]
    by_cases hp : b.prepended < n
    · simp only [hp, if_true]
      refine ⟨?_, rfl, rfl, rfl, ?_, ?_, ?_⟩
      · simp [Inv, cap, aux_zeros_len, hcl]; omega
      · simp; omega
      · simp [contents, cap, aux_zeros_len, hcl, List.length_take, List.length_drop]; omega
      · simp only [contents]
        rw [List.drop_take]  -- fallthrough handled below
        all_goals sorry
    · sorry
  · sorry
end Gp.C18
