import Gp.Lemmas.PacketMem
import Gp.Lemmas.Packet
/-
  C04 — Data ownership: copy isolates; NoCopy and Pool change only where bytes live.

  Model: Gp/Model/PacketMem.lean — a heap of backing arrays; `newData` = NewPacket's data handling
  (packet.go:725-744): alias the caller's slice (NoCopy), copy into a pooled block resliced to len
  (Pool ∧ len ≤ maximumMTU — the constant is GENERATED from packet.go into Gp/Gen/Pkt.lean on every
  run) or copy into a fresh buffer; `PoolSys` = the block pool under any number of goroutines, with
  sync.Pool as a bag with arbitrary Get choice.  Decoding is Gp/Model/Packet.lean: a decoder table
  sees exactly the `len` bytes of the packet's data (decoders that read only within len — true of
  scripted decoders by construction; for real decoders this is C02's `decode_reads_within_len`,
  and the adapter's `pkt:opts-differ` monitor watches it).
  `observe h dv p` = everything readable from a decoded packet through heap `h`: the decoded
  structure, Data(), and each layer's contents/payload bytes.
-/
namespace Gp.C04
open Gp Gp.Pkt Gp.PktMem

/-- copy_isolates: with default options (no NoCopy; Pool or not) the packet's data lives in a
    buffer other than the caller's, so ANY sequence of later writes into the caller's buffer
    leaves every observation of the packet unchanged — whatever packet `p` was decoded.
    (Side condition for Pool: the caller's buffer is not itself a block lying in the pool.) -/
theorem copy_isolates (h : Heap) (pool : Bool) (src : View) (g : GetChoice)
    (h' : Heap) (dv : View) (blk : Option BufId)
    (hg : ∀ b, g = .cached b → b ≠ src.buf)
    (hn : newData h false pool src g = some (h', dv, blk))
    (p : Pkt) (ws : List (Nat × Bytes)) :
    observe (writes h' src.buf ws) dv p = observe h' dv p :=
  observe_writes_other src.buf dv p (newData_default_disjoint h pool src g h' dv blk hg hn).symm ws h'

/-- The hypothesis "no NoCopy" is needed: an aliasing packet sees the write. -/
theorem nocopy_not_isolated :
    ∃ (h h' : Heap) (src dv : View) (p : Pkt),
      newData h true false src .brandNew = some (h', dv, none)
      ∧ observe (writes h' src.buf [(0, [9])]) dv p ≠ observe h' dv p :=
  ⟨{ bufs := [[1, 2, 3]] }, { bufs := [[1, 2, 3]] }, ⟨0, 0, 3⟩, ⟨0, 0, 3⟩, { data := [1, 2, 3] }, by decide, by decide⟩

/-- options_same_result (data level): under EVERY option set and EVERY choice of the pool, the
    bytes the decoders are handed are exactly the caller's bytes. -/
theorem newPacket_data_eq (h : Heap) (noCopy pool : Bool) (src : View) (g : GetChoice)
    (h' : Heap) (dv : View) (blk : Option BufId)
    (hn : newData h noCopy pool src g = some (h', dv, blk)) : h'.read dv = h.read src :=
  newData_reads_same h noCopy pool src g h' dv blk hn

/-- options_same_result: hence the decoded packet (eager: the whole packet incl. layer windows,
    special layers, error layer, truncated; lazy: the answers of every accessor program) under
    NoCopy and/or Pool equals the one under default options, and so does every byte observed through
    the respective heaps — for every decoder table, first decoder, recovery mode and fuel. -/
theorem options_same_result (tab : Table) (fuel : Nat) (rc : Bool) (first : Option DecId) (prog : List Acc)
    (h : Heap) (src : View) (noCopy pool : Bool) (g g0 : GetChoice)
    (h1 : Heap) (dv1 : View) (blk1 : Option BufId) (h0 : Heap) (dv0 : View) (blk0 : Option BufId)
    (hn1 : newData h noCopy pool src g = some (h1, dv1, blk1))
    (hn0 : newData h false false src g0 = some (h0, dv0, blk0)) :
    ∀ d1 d0, h1.read dv1 = some d1 → h0.read dv0 = some d0 →
      newEager tab fuel rc d1 first = newEager tab fuel rc d0 first
      ∧ runLazy tab rc fuel prog (newLazy d1 first) = runLazy tab rc fuel prog (newLazy d0 first)
      ∧ ∀ p, (observe h1 dv1 p).data = (observe h0 dv0 p).data ∧ (observe h1 dv1 p).slices = (observe h0 dv0 p).slices := by
  intro d1 d0 e1 e0
  have r1 := newData_reads_same h noCopy pool src g h1 dv1 blk1 hn1
  have r0 := newData_reads_same h false false src g0 h0 dv0 blk0 hn0
  have hd : d1 = d0 := by
    rw [r1] at e1; rw [r0] at e0; rw [e1] at e0; cases e0; rfl
  subst hd
  refine ⟨rfl, rfl, fun p => ?_⟩
  simp [observe, e1, e0]

/-- oversize_falls_back: an input longer than the pool's block size is never pooled — with Pool set
    it takes the plain copy path (fresh buffer of exactly len bytes, no block to dispose), and by
    `options_same_result` decodes as under default options. -/
theorem oversize_falls_back (h : Heap) (src : View) (g : GetChoice) (bytes : Bytes)
    (hr : h.read src = some bytes) (hbig : Gp.Gen.Pkt.maximumMTU < src.len) :
    memKind false true src.len = .copy
    ∧ newData h false true src g = some ((h.alloc bytes).1, ⟨h.bufs.length, 0, src.len⟩, none) := by
  have hk : memKind false true src.len = .copy := by
    simp [memKind]; omega
  refine ⟨hk, ?_⟩
  simp [newData, hr, hk, Heap.alloc]

/-- …and at or below the block size Pool does pool (the threshold is `≤`, packet.go:731). -/
theorem pool_threshold (len : Nat) :
    memKind false true len = (if len ≤ Gp.Gen.Pkt.maximumMTU then .pool else .copy) := by
  simp only [memKind]
  by_cases h : len ≤ Gp.Gen.Pkt.maximumMTU <;> simp [h]

/-- pool_no_alias: in EVERY reachable state of the pool system — any number of goroutines, any
    interleaving of NewPacket(Pool)/Dispose, any choice the pool makes on Get, the runtime dropping
    cached blocks at will — live (undisposed) pooled packets own pairwise distinct blocks, none of
    which is in the pool, and the pool never holds a block twice.  (Dispose is enabled only on a live
    packet: each packet is disposed at most once.) -/
theorem pool_no_alias (s : PoolSt) (hs : Reachable s) :
    s.live.Pairwise (fun a b => a.blk ≠ b.blk) ∧ (∀ l ∈ s.live, l.blk ∉ s.bag) ∧ s.bag.Nodup :=
  let inv := poolInv_reachable s hs
  ⟨inv.liveDistinct, inv.liveNotInBag, inv.bagNodup⟩

/-- …and therefore every live pooled packet still reads the bytes it was created from, however
    many other packets were decoded into and disposed from the pool meanwhile. -/
theorem pool_data_intact (s : PoolSt) (hs : Reachable s) :
    ∀ l ∈ s.live, ∃ blk, s.blocks[l.blk]? = some blk ∧ blk.take l.bytes.length = l.bytes :=
  (poolInv_reachable s hs).intact

/-- The at-most-once rule is needed: disposing one packet twice puts its block into the pool
    twice, and two later packets then share it. -/
theorem double_dispose_aliases :
    ∃ s : PoolSt,
      (do let s1 ← poolStep PoolSt.init 0 (.new [1] .brandNew)
          let s2 ← poolStep s1 0 (.dispose 0)
          let s3 ← poolStepUnsafe s2 0 (.dispose 0) (some 0)
          let s4 ← poolStep s3 1 (.new [2] (.cached 0))
          poolStep s4 2 (.new [3] (.cached 0))) = some s
      ∧ s.live.map (fun l => l.blk) = [0, 0] ∧ s.live.map (fun l => l.pid) = [2, 1] := by
  refine ⟨_, rfl, ?_, ?_⟩ <;> decide

/-! ### Non-vacuity -/

/-- a reachable state with two live pooled packets and one cached block -/
example : ∃ s, Reachable s ∧ s.live.length = 2 ∧ s.bag.length = 1 := by
  have r0 := Reachable.init
  have r1 := Reachable.step 0 (.new [1, 2] .brandNew) r0 rfl
  have r2 := Reachable.step 1 (.new [3] .brandNew) r1 rfl
  have r3 := Reachable.step 0 (.dispose 0) r2 rfl
  have r4 := Reachable.step 2 (.new [4, 5, 6] .brandNew) r3 rfl
  exact ⟨_, r4, by decide, by decide⟩

example : newData { bufs := [[1, 2, 3, 0xEE]] } false false ⟨0, 0, 3⟩ .brandNew
    = some ({ bufs := [[1, 2, 3, 0xEE], [1, 2, 3]] }, ⟨1, 0, 3⟩, none) := by decide

end Gp.C04
