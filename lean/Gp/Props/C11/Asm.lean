import Gp.Lemmas.AsmC11
/-
  C11 (classic half) — tcpassembly: stream lifecycle and buffering are bounded and leak-free.

  Model: `Gp/Model/Asm.lean` with the regenerated sequence arithmetic (`wrapArith`); the pool of
  connections, `pageCache.used`, the per-connection page counter, the StreamFactory.New /
  Reassembled / ReassemblyComplete callbacks (`Ev`).  Every theorem quantifies over ALL histories of
  AssembleWithTimestamp / FlushWithOptions / FlushOlderThan / FlushAll / option changes with arbitrary
  (also inconsistent) segments on any number of connections (`WfOp`: sequence numbers are uint32).
  Property theorems only; helper lemmas live in `Gp/Lemmas/Asm*.lean`.

  Vocabulary (`Gp/Model/AsmSpec.lean`, `Gp/Lemmas/AsmLife.lean`):
    runTrace A P ops   the callbacks of a run, tagged (key, stream id), plus `fed s` for every segment
                       handed to a connection;  histOf key sid  the history of one stream;
    Alive h  =  h = created :: (fed | got)*            Done h  =  h = created :: (fed | got)* ++ [completed]
-/
namespace Gp.C11.Asm
open Gp Gp.Asm Gp.Gen

/-! ## 1. Lifecycle: complete exactly once, nothing after it -/

/-- Shape of every stream's history after any run: a stream that is still in the pool is alive
    (created, never completed); any other stream id was never used or is done (created, …, completed
    as its last event). -/
theorem stream_lifecycle (ops : List Op) (hwf : ∀ op ∈ ops, WfOp op) (P : Pool) (outs : List OpOut)
    (hrun : run wrapArith {} ops = .ok (P, outs)) (key sid : Nat) :
    ((∃ c, lookup key P.conns = some c ∧ c.sid = sid) → Alive (histOf key sid (runTrace wrapArith {} ops))) ∧
    ((∀ c, lookup key P.conns = some c → c.sid ≠ sid) →
      histOf key sid (runTrace wrapArith {} ops) = [] ∨ Done (histOf key sid (runTrace wrapArith {} ops))) := by
  obtain ⟨x, hx, hinv⟩ := run_traceInv (life_streamInv2 wrapArith wrap_diff_self) {} [] ops
    (traceInv_init (fun _ => Or.inl rfl)) (wf_opPre ops hwf)
  rw [hrun] at hx; cases hx
  simp only [List.nil_append] at hinv
  constructor
  · intro ⟨c, hl, hs⟩
    have := (hinv.live key c hl).2.2
    rw [hs] at this; exact this
  · intro hn; exact hinv.dead key sid hn

/-- **complete_exactly_once.**  ReassemblyComplete is called at most once on every stream, and exactly
    once on every stream that was created and is no longer in the pool. -/
theorem complete_exactly_once (ops : List Op) (hwf : ∀ op ∈ ops, WfOp op) (P : Pool) (outs : List OpOut)
    (hrun : run wrapArith {} ops = .ok (P, outs)) (key sid : Nat) :
    (histOf key sid (runTrace wrapArith {} ops)).count HEv.completed ≤ 1 ∧
    ((∀ c, lookup key P.conns = some c → c.sid ≠ sid) →
      histOf key sid (runTrace wrapArith {} ops) ≠ [] →
      (histOf key sid (runTrace wrapArith {} ops)).count HEv.completed = 1) := by
  obtain ⟨h1, h2⟩ := stream_lifecycle ops hwf P outs hrun key sid
  constructor
  · by_cases hl : ∃ c, lookup key P.conns = some c ∧ c.sid = sid
    · rw [alive_count _ (h1 hl)]; omega
    · have hn : ∀ c, lookup key P.conns = some c → c.sid ≠ sid := fun c hc hs => hl ⟨c, hc, hs⟩
      rcases h2 hn with h | h
      · rw [h]; simp
      · rw [done_count _ h]; omega
  · intro hn hne
    rcases h2 hn with h | h
    · exact absurd h hne
    · exact done_count _ h

/-- **no_data_after_complete.**  Nothing — no Reassembled call, no segment, no second completion —
    follows ReassemblyComplete in the history of a stream. -/
theorem no_data_after_complete (ops : List Op) (hwf : ∀ op ∈ ops, WfOp op) (P : Pool) (outs : List OpOut)
    (hrun : run wrapArith {} ops = .ok (P, outs)) (key sid : Nat) (pre post : List HEv)
    (e : histOf key sid (runTrace wrapArith {} ops) = pre ++ HEv.completed :: post) : post = [] := by
  obtain ⟨h1, h2⟩ := stream_lifecycle ops hwf P outs hrun key sid
  by_cases hl : ∃ c, lookup key P.conns = some c ∧ c.sid = sid
  · exact (alive_no_completed _ pre post (h1 hl) e).elim
  · have hn : ∀ c, lookup key P.conns = some c → c.sid ≠ sid := fun c hc hs => hl ⟨c, hc, hs⟩
    rcases h2 hn with h | h
    · rw [h] at e; cases pre <;> simp at e
    · exact done_nothing_after _ pre post h e

/-! ## 2. Page accounting and FlushAll -/

/-- **pages_accounting.**  In every reachable state `pageCache.used` equals the sum of the page
    counters of the live connections, and every counter equals the number of pages actually queued. -/
theorem pages_accounting (ops : List Op) (hwf : ∀ op ∈ ops, WfOp op) (P : Pool) (outs : List OpOut)
    (hrun : run wrapArith {} ops = .ok (P, outs)) :
    P.used = sumPages P.conns ∧ ∀ key c, lookup key P.conns = some c → c.npages = (c.pages.length : Int) := by
  obtain ⟨x, hx, hinv⟩ := run_inv (acct_poolStepInv wrapArith wrap_diff_self) {} ops acctInv_init (wf_opPre' ops hwf)
  rw [hrun] at hx; cases hx
  exact ⟨hinv.2.2, fun k c hl => (hinv.2.1 k c hl).1⟩

/-- **flushall_empties.**  After FlushAll (in any reachable state) no connection is left in the pool,
    no page is in use, and the call reports every connection it found. -/
theorem flushall_empties (ops : List Op) (hwf : ∀ op ∈ ops, WfOp op) (P : Pool) (outs : List OpOut)
    (hrun : run wrapArith {} ops = .ok (P, outs)) :
    (flushAll wrapArith P).pool.conns = [] ∧ (flushAll wrapArith P).pool.used = 0 ∧
      (flushAll wrapArith P).closed = P.conns.length := by
  obtain ⟨x, hx, hinv⟩ := run_inv (acct_poolStepInv wrapArith wrap_diff_self) {} ops acctInv_init (wf_opPre' ops hwf)
  rw [hrun] at hx; cases hx
  have hc := flushAll_conns wrapArith P
  obtain ⟨y, hy, hinv'⟩ := step_inv (acct_poolStepInv wrapArith wrap_diff_self) P .flushAll hinv trivial
  simp only [step] at hy
  cases hy
  refine ⟨hc, ?_, ?_⟩
  · have := hinv'.2.2
    dsimp only at this
    rw [this, hc]; rfl
  · have := flushAllList_closedCount wrapArith P.conns { pool := P, evs := [], flushed := 0, closed := 0 }
    unfold flushAll
    rw [this]; simp

/-- Every stream ever created has been completed — exactly once, as its last event — when the history
    ends with FlushAll: "at the final flush-all". -/
theorem complete_by_final_flushall (ops : List Op) (hwf : ∀ op ∈ ops, WfOp op) (P : Pool) (outs : List OpOut)
    (hrun : run wrapArith {} (ops ++ [Op.flushAll]) = .ok (P, outs)) (key sid : Nat) :
    P.conns = [] ∧ (histOf key sid (runTrace wrapArith {} (ops ++ [Op.flushAll])) = [] ∨
      Done (histOf key sid (runTrace wrapArith {} (ops ++ [Op.flushAll])))) := by
  have hwf' : ∀ op ∈ ops ++ [Op.flushAll], WfOp op := by
    intro op hop
    rcases List.mem_append.1 hop with h | h
    · exact hwf op h
    · simp only [List.mem_singleton] at h; rw [h]; trivial
  have hP : P.conns = [] := by
    rw [run_append] at hrun
    cases h1 : run wrapArith {} ops with
    | ok x =>
      rw [h1] at hrun
      simp only [run, step] at hrun
      cases hrun
      exact flushAll_conns wrapArith x.1
    | err e => rw [h1] at hrun; cases hrun
    | panic k => rw [h1] at hrun; cases hrun
  refine ⟨hP, (stream_lifecycle _ hwf' P outs hrun key sid).2 ?_⟩
  intro c hl
  rw [hP] at hl
  simp [lookup] at hl

/-! ## 3. Page limits (with fix asm-1: the limit loop of insertIntoConn) -/

/-- **limit_bound.**  With limits `L` configured before the first packet and never changed, after
    EVERY step of EVERY history each connection holds fewer than MaxBufferedPagesPerConnection pages
    and fewer than MaxBufferedPagesTotal pages are in use (whenever the respective limit is set). -/
theorem limit_bound (L : Lim) (ops : List Op) (hwf : ∀ op ∈ ops, WfOp op) (hno : ∀ op ∈ ops, NoOpt op)
    (P : Pool) (outs : List OpOut) (hrun : run wrapArith { lim := L } ops = .ok (P, outs)) :
    (L.maxPer > 0 → ∀ key c, lookup key P.conns = some c → c.npages < L.maxPer) ∧
    (L.maxTot > 0 → P.used < L.maxTot) := by
  obtain ⟨x, hx, hinv⟩ := run_inv (lim_poolStepInv wrapArith wrap_diff_self L) { lim := L } ops
    (limInv_init L) (wf_opPre'_noopt ops hwf hno)
  rw [hrun] at hx; cases hx
  exact ⟨hinv.2.2.1, hinv.2.2.2⟩

/-- The bound in the words of the property: while a packet of `n` pages is being processed (its pages
    are queued before the limit loop runs) the pages held never exceed the limit by more than `n`. -/
theorem limit_bound_during_step (L : Lim) (ops : List Op) (hwf : ∀ op ∈ ops, WfOp op)
    (hno : ∀ op ∈ ops, NoOpt op) (P : Pool) (outs : List OpOut)
    (hrun : run wrapArith { lim := L } ops = .ok (P, outs)) (b : Bytes) :
    (L.maxTot > 0 → P.used + pageCount b ≤ L.maxTot + pageCount b) ∧
    (L.maxPer > 0 → ∀ key c, lookup key P.conns = some c → c.npages + pageCount b ≤ L.maxPer + pageCount b) := by
  obtain ⟨h1, h2⟩ := limit_bound L ops hwf hno P outs hrun
  exact ⟨fun h => by have := h2 h; omega, fun h k c hl => by have := h1 h k c hl; omega⟩

/-- non-vacuity: limit 2, three one-page out-of-order packets — the first queued page is forced out
    (with its skip) and the connection stays below the limit. -/
example : (run wrapArith { lim := ⟨2, 0⟩ }
    [.seg ⟨0, 100, true, false, false, 0, []⟩, .seg ⟨0, 110, false, false, false, 1, [1]⟩,
     .seg ⟨0, 120, false, false, false, 2, [2]⟩, .seg ⟨0, 130, false, false, false, 3, [3]⟩]).isOk = true := by
  decide

/-! ## 4. Age-based flush -/

/-- clause 1 as the property (and DESIGN) reads: after `FlushWithOptions{T}` no live connection still
    holds a queued page seen before `T`; clause 2: every Reassembled call of the flush starts with data
    older than `T` and continues only with data contiguous to it. -/
def age_flush_precise_full : Prop :=
  ∀ (ops : List Op), (∀ op ∈ ops, WfOp op) → ∀ (P : Pool) (outs : List OpOut),
    run wrapArith {} ops = .ok (P, outs) → ∀ (T : Int) (ca : Bool),
      (∀ key c, lookup key (flushWith wrapArith P T ca).pool.conns = some c → ∀ pg ∈ c.pages, ¬ pg.r.seen < T) ∧
      (∀ key sid items, Ev.data key sid items ∈ (flushWith wrapArith P T ca).evs → GoodCall T items)

/-- The real code (and so the model) breaks clause 1: page A (seq 200, seen at 50) is queued, then page
    B (seq 150, seen at 100) arrives in front of it; FlushOlderThan(75) looks only at the first page
    (B, newer than the cut-off) and leaves A — older than the cut-off — waiting. -/
theorem age_flush_precise_counterexample : ¬ age_flush_precise_full := by
  intro h
  have := (h [.seg ⟨0, 100, true, false, false, 0, []⟩, .seg ⟨0, 200, false, false, false, 50, [65]⟩,
              .seg ⟨0, 150, false, false, false, 100, [66]⟩]
      (by intro op hop
          simp only [List.mem_cons, List.mem_nil_iff, or_false] at hop
          rcases hop with h | h | h <;> subst h <;> exact ⟨by decide, by decide⟩)
      _ _ rfl 75 true).1 0
    ⟨101, [⟨150, ⟨[66], 0, false, false, 100⟩⟩, ⟨200, ⟨[65], 0, false, false, 50⟩⟩], 2, 100, 0⟩ (by decide)
    ⟨200, ⟨[65], 0, false, false, 50⟩⟩ (by decide)
  exact this (by decide)

/-- **age_flush_precise (partial 1a).**  What the code does guarantee for every history: after the
    flush the FIRST queued page of every remaining connection is not older than the cut-off. -/
theorem age_flush_head_partial (ops : List Op) (hwf : ∀ op ∈ ops, WfOp op) (P : Pool) (outs : List OpOut)
    (hrun : run wrapArith {} ops = .ok (P, outs)) (T : Int) (ca : Bool) (key : Nat) (c : Conn)
    (hl : lookup key (flushWith wrapArith P T ca).pool.conns = some c) : HeadNotOld T c.pages := by
  obtain ⟨x, hx, hinv⟩ := run_inv (acct_poolStepInv wrapArith wrap_diff_self) {} ops acctInv_init (wf_opPre' ops hwf)
  rw [hrun] at hx; cases hx
  obtain ⟨c0, used, _, e1, e2⟩ := flushWith_conn wrapArith P T ca hinv.1 key c hl
  rw [e1]
  exact flushConn_head wrapArith T ca c0 used e2

/-- **age_flush_precise (partial 1b).**  Clause 1 at full strength under the hypothesis that excludes
    the defect: if the queue of every connection is oldest-first (no newer page in front of an older
    one), no page seen before the cut-off is left. -/
theorem age_flush_sorted_partial (ops : List Op) (hwf : ∀ op ∈ ops, WfOp op) (P : Pool) (outs : List OpOut)
    (hrun : run wrapArith {} ops = .ok (P, outs)) (T : Int) (ca : Bool)
    (hsorted : ∀ key c, lookup key P.conns = some c → SeenSorted c.pages) (key : Nat) (c : Conn)
    (hl : lookup key (flushWith wrapArith P T ca).pool.conns = some c) : ∀ pg ∈ c.pages, ¬ pg.r.seen < T := by
  obtain ⟨x, hx, hinv⟩ := run_inv (acct_poolStepInv wrapArith wrap_diff_self) {} ops acctInv_init (wf_opPre' ops hwf)
  rw [hrun] at hx; cases hx
  obtain ⟨c0, used, h0, e1, e2⟩ := flushWith_conn wrapArith P T ca hinv.1 key c hl
  rw [e1]
  exact flushConn_noOld wrapArith T ca c0 used (hsorted key c0 h0) e2

/-- **age_flush_precise (clause 2, full).**  An age-based flush never releases data newer than the
    cut-off except contiguously behind older data: every Reassembled call it makes starts with an item
    seen before `T`, and every further item of the call has skip 0. -/
theorem age_flush_releases_old_only (ops : List Op) (hwf : ∀ op ∈ ops, WfOp op) (P : Pool) (outs : List OpOut)
    (hrun : run wrapArith {} ops = .ok (P, outs)) (T : Int) (ca : Bool) (key sid : Nat) (items : List Reasm)
    (hev : Ev.data key sid items ∈ (flushWith wrapArith P T ca).evs) : GoodCall T items := by
  obtain ⟨x, hx, hinv⟩ := run_inv (acct_poolStepInv wrapArith wrap_diff_self) {} ops acctInv_init (wf_opPre' ops hwf)
  rw [hrun] at hx; cases hx
  obtain ⟨y, hy, hz⟩ := run_preserves (skipZero_connInv wrapArith wrap_diff_self) {} ops (poolAll_empty _) (wf_opPre ops hwf)
  rw [hrun] at hy; cases hy
  obtain ⟨c0, used, h0, e⟩ := flushWith_data wrapArith P T ca hinv.1 key sid items hev
  exact flushConn_goodCalls wrapArith wrap_add_valid T ca c0 used (hz key c0 (lookup_mem h0)).2 items e

end Gp.C11.Asm
