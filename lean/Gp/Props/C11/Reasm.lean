import Gp.Lemmas.ReasmAge
/-
  C11 (reassembly half) — Assembler stream lifecycle and buffering are bounded and leak-free.

  Model: `Gp/Model/ReasmPool.lean` (StreamPool keyed by flow, connections with two half connections, the
  scripted factory/stream answers, AssembleWithContext / FlushWithOptions / FlushAll), on top of the
  half-connection model of C09.  `run A st ops` executes a history of `Op`s on the pool and collects the
  callbacks (`Ev`).  All theorems hold for EVERY history and every input (segments need not be consistent
  with anything) and for any sequence arithmetic `A`; they are stated for runs that return normally
  (a Go panic aborts the history).  The model is of the tree with fixes reasm-5/6 (pages kept by KeepFrom
  are released at close and counted) — on the unfixed tree `flushall_empties` fails (monitor
  `reasm:flushall-pages-used`).

  Vocabulary (`Gp/Model/ReasmSpec.lean`): the callbacks of a run are the event log `evs : List Ev`
  (`created conn sid` = StreamFactory.New returned stream `sid` for flow `conn`; `sg conn sid dir g` = one
  ReassembledSG call; `done conn sid answer` = ReassemblyComplete and what the stream answered).
  `life sid .fresh evs = some l` runs the log through the life-cycle automaton of stream `sid`
  (fresh --New--> alive --ReassembledSG*--> alive --ReassemblyComplete--> done; any other callback that
  mentions the stream makes the result `none`).  `Conn.done` = both directions closed.
  Accept is an input of the model (`acc`): a stream that was completed and refused the removal is still asked,
  but nothing is delivered to it.
-/
namespace Gp.C11.Reasm
open Gp Gp.Reasm

/-- **pages_accounting.**  After every history: the page-cache counter (`pageCache.used`) is exactly the number
    of pages held by the connections of the pool — queued for out-of-order data or kept on request of a stream;
    every per-connection counter `half.pages` is exact; a closed half connection holds no page. -/
theorem pages_accounting (A : Arith) (ops : List Op) (st : St) (evs : List Ev)
    (h : run A {} ops = .ok (st, evs)) :
    st.used = sumHeld st.conns ∧
    (∀ c ∈ st.conns, c.c2s.pages = held c.c2s ∧ c.s2c.pages = held c.s2c ∧
      (c.c2s.closed = true → held c.c2s = 0) ∧ (c.s2c.closed = true → held c.s2c = 0)) := by
  have hinv := run_inv A ops {} st evs inv_init_pool h
  exact ⟨hinv.used, fun c hc => ⟨(hinv.ok c hc).1.1, (hinv.ok c hc).2.1, (hinv.ok c hc).1.2, (hinv.ok c hc).2.2⟩⟩

/-- **flushall_empties** (buffers).  After any history followed by FlushAll: every connection still in the pool has
    both directions closed, and no page is in use. -/
theorem flushall_empties (A : Arith) (ops : List Op) (keep : KeepRule) (cmpl : CmplRule) (st : St) (evs : List Ev)
    (h : run A {} (ops ++ [.flushAll keep cmpl]) = .ok (st, evs)) :
    st.used = 0 ∧ (∀ c ∈ st.conns, c.c2s.closed = true ∧ c.s2c.closed = true) ∧
    queuedPages st = 0 := by
  obtain ⟨st1, evs1, rp, h1, h2, rfl, _⟩ := run_snoc A ops _ {} st evs h
  have hinv1 := run_inv A ops {} st1 evs1 inv_init_pool h1
  obtain ⟨hinv, hcl⟩ := opFlushAll_inv A st1 keep cmpl rp hinv1 h2
  have hzero : ∀ l : List Conn, (∀ c ∈ l, ConnOK c ∧ c.c2s.closed = true ∧ c.s2c.closed = true) → sumHeld l = 0 := by
    intro l
    induction l with
    | nil => intro _; rfl
    | cons c rest ih =>
      intro hl
      have hc := hl c (List.mem_cons_self ..)
      have := connOK_closed_held hc.1 hc.2.1 hc.2.2
      have := ih (fun x hx => hl x (List.mem_cons_of_mem _ hx))
      simp only [sumHeld, List.map_cons, List.sum_cons] at *
      omega
  refine ⟨?_, hcl, ?_⟩
  · rw [hinv.used]
    exact hzero _ (fun c hc => ⟨hinv.ok c hc, hcl c hc⟩)
  · unfold queuedPages
    have : ∀ l : List Conn, (∀ c ∈ l, c.c2s.closed = true ∧ c.s2c.closed = true) →
        (l.map (fun c => (if c.c2s.closed then 0 else c.c2s.queue.length) +
                          (if c.s2c.closed then 0 else c.s2c.queue.length))).sum = 0 := by
      intro l
      induction l with
      | nil => intro _; rfl
      | cons c rest ih =>
        intro hl
        have hc := hl c (List.mem_cons_self ..)
        simp only [List.map_cons, List.sum_cons, hc.1, hc.2, if_true, Nat.zero_add]
        exact ih (fun x hx => hl x (List.mem_cons_of_mem _ hx))
    exact this _ hcl

/-! ## 1. Lifecycle: New, data, ReassemblyComplete exactly once, nothing after it -/

/-- **stream_lifecycle.**  After every history the event log, read for any one stream id, is a legal life:
    * an id the factory has not handed out yet is mentioned by no callback;
    * the stream of a connection that is in the pool was created once, got only ReassembledSG calls since, and
      has been completed (once, as the last callback that mentions it) exactly if both directions of the
      connection are closed — the moment the code calls ReassemblyComplete: FIN/RST delivered in both directions,
      age-based close, or FlushAll;
    * a stream whose connection has left the pool has been completed, and nothing followed. -/
theorem stream_lifecycle (A : Arith) (ops : List Op) (st : St) (evs : List Ev)
    (h : run A {} ops = .ok (st, evs)) (sid : Nat) :
    (st.nextSid ≤ sid → ∀ e ∈ evs, Ev.mentions sid e = false) ∧
    (∀ c ∈ st.conns, c.sid = sid → sid < st.nextSid ∧ life sid .fresh evs = some (Life.ofDone c.done)) ∧
    (sid < st.nextSid → (∀ c ∈ st.conns, c.sid ≠ sid) → life sid .fresh evs = some .done) := by
  have hl := run_linv A ops {} st [] evs inv_init_pool linv_init h
  simp only [List.nil_append] at hl
  exact ⟨hl.fresh sid, fun c hc hs => hs ▸ ⟨hl.lt c hc, hl.live c hc⟩, hl.gone sid⟩

/-- **complete_exactly_once.**  For every stream id: ReassemblyComplete is called at most once; StreamFactory.New
    produced it exactly once iff the id was handed out; and it HAS been called (exactly once) precisely when the
    stream was created and its connection is finished — both directions closed, or already removed from the pool. -/
theorem complete_exactly_once (A : Arith) (ops : List Op) (st : St) (evs : List Ev)
    (h : run A {} ops = .ok (st, evs)) (sid : Nat) :
    doneCount sid evs ≤ 1 ∧ createdCount sid evs = (if sid < st.nextSid then 1 else 0) ∧
    (doneCount sid evs = 1 ↔
      (sid < st.nextSid ∧ ∀ c ∈ st.conns, c.sid = sid → c.c2s.closed = true ∧ c.s2c.closed = true)) := by
  obtain ⟨h1, h2, h3⟩ := stream_lifecycle A ops st evs h sid
  by_cases hlt : sid < st.nextSid
  · by_cases hex : ∃ c ∈ st.conns, c.sid = sid
    · obtain ⟨c, hc, hs⟩ := hex
      obtain ⟨_, hlife⟩ := h2 c hc hs
      have hd := life_doneCount sid evs _ _ hlife
      have hcr := life_createdCount sid evs _ _ hlife
      have hl := run_linv A ops {} st [] evs inv_init_pool linv_init h
      have hinv := run_inv A ops {} st evs inv_init_pool h
      cases hdn : c.done with
      | true =>
        rw [hdn] at hd hcr
        simp [Life.ofDone] at hd hcr
        refine ⟨by omega, by rw [hcr, if_pos hlt], fun _ => ⟨hlt, fun d hdm hds => ?_⟩, fun _ => hd⟩
        have : d = c := ids_unique hinv.ids hdm hc (hl.inj d hdm c hc (by rw [hds, hs]))
        subst this
        simpa [Conn.done] using hdn
      | false =>
        rw [hdn] at hd hcr
        simp [Life.ofDone] at hd hcr
        refine ⟨by omega, by rw [hcr, if_pos hlt], fun h1' => by omega, fun h' => ?_⟩
        have := h'.2 c hc hs
        simp [Conn.done, this.1, this.2] at hdn
    · have hno : ∀ c ∈ st.conns, c.sid ≠ sid := fun c hc hs => hex ⟨c, hc, hs⟩
      have hlife := h3 hlt hno
      have hd := life_doneCount sid evs _ _ hlife
      have hcr := life_createdCount sid evs _ _ hlife
      simp at hd hcr
      exact ⟨by omega, by rw [hcr, if_pos hlt], fun _ => ⟨hlt, fun c hc hs => absurd hs (hno c hc)⟩, fun _ => hd⟩
  · have hlife : life sid .fresh evs = some .fresh := life_irrelevant sid evs .fresh (h1 (by omega))
    have hd := life_doneCount sid evs _ _ hlife
    have hcr := life_createdCount sid evs _ _ hlife
    simp at hd hcr
    exact ⟨by omega, by rw [hcr, if_neg hlt], fun h' => by omega, fun h' => absurd h'.1 hlt⟩

/-- **no_data_after_complete.**  Nothing that concerns a stream — no ReassembledSG, no second
    ReassemblyComplete, no re-creation — follows its ReassemblyComplete in the event log. -/
theorem no_data_after_complete (A : Arith) (ops : List Op) (st : St) (evs : List Ev)
    (h : run A {} ops = .ok (st, evs)) (sid k : Nat) (a : Bool) (pre post : List Ev)
    (e : evs = pre ++ Ev.done k sid a :: post) : ∀ x ∈ post, Ev.mentions sid x = false := by
  have hlife : ∃ l, life sid .fresh evs = some l := by
    obtain ⟨h1, h2, h3⟩ := stream_lifecycle A ops st evs h sid
    by_cases hlt : sid < st.nextSid
    · by_cases hex : ∃ c ∈ st.conns, c.sid = sid
      · obtain ⟨c, hc, hs⟩ := hex
        exact ⟨_, (h2 c hc hs).2⟩
      · exact ⟨_, h3 hlt (fun c hc hs => hex ⟨c, hc, hs⟩)⟩
    · exact ⟨_, life_irrelevant sid evs .fresh (h1 (by omega))⟩
  obtain ⟨l, hl⟩ := hlife
  rw [e] at hl
  exact life_after_done sid hl

/-- Nothing concerns a stream before StreamFactory.New returned it. -/
theorem nothing_before_created (A : Arith) (ops : List Op) (st : St) (evs : List Ev)
    (h : run A {} ops = .ok (st, evs)) (sid k : Nat) (pre post : List Ev)
    (e : evs = pre ++ Ev.created k sid :: post) : ∀ x ∈ pre, Ev.mentions sid x = false := by
  have hlife : ∃ l, life sid .fresh evs = some l := by
    obtain ⟨h1, h2, h3⟩ := stream_lifecycle A ops st evs h sid
    by_cases hlt : sid < st.nextSid
    · by_cases hex : ∃ c ∈ st.conns, c.sid = sid
      · obtain ⟨c, hc, hs⟩ := hex
        exact ⟨_, (h2 c hc hs).2⟩
      · exact ⟨_, h3 hlt (fun c hc hs => hex ⟨c, hc, hs⟩)⟩
    · exact ⟨_, life_irrelevant sid evs .fresh (h1 (by omega))⟩
  obtain ⟨l, hl⟩ := hlife
  rw [e] at hl
  exact life_before_created sid hl

/-- **complete_by_final_flushall.**  When the history ends with FlushAll, every stream the factory ever created has
    got its ReassemblyComplete — exactly once; and a connection is still in the pool only if its stream answered
    that one call with `false` (refused the removal): no connection whose stream accepted removal remains. -/
theorem complete_by_final_flushall (A : Arith) (ops : List Op) (keep : KeepRule) (cmpl : CmplRule) (st : St)
    (evs : List Ev) (h : run A {} (ops ++ [.flushAll keep cmpl]) = .ok (st, evs)) :
    (∀ sid, sid < st.nextSid → doneCount sid evs = 1) ∧
    (∀ c ∈ st.conns, Ev.done c.id c.sid false ∈ evs ∧ doneCount c.sid evs = 1) := by
  have hcl := (flushall_empties A ops keep cmpl st evs h).2.1
  have hall : ∀ sid, sid < st.nextSid → doneCount sid evs = 1 := fun sid hlt =>
    (complete_exactly_once A _ st evs h sid).2.2.mpr ⟨hlt, fun c hc _ => hcl c hc⟩
  have hl := run_linv A _ {} st [] evs inv_init_pool linv_init h
  simp only [List.nil_append] at hl
  refine ⟨hall, fun c hc => ⟨hl.refused c hc ?_, hall c.sid (hl.lt c hc)⟩⟩
  have := hcl c hc
  simp [Conn.done, this.1, this.2]

/-- non-vacuity: two connections; the first is ended by FIN in both directions (completed by the second FIN, stream
    accepts removal), the second is completed by FlushAll and its stream refuses removal: it stays in the pool. -/
def exLifeSeg (id : Nat) (dir : Bool) (seq : Int) (syn fin : Bool) (bytes : List UInt8) (cmpl : CmplRule) : Op :=
  .seg id dir { seq := seq, syn := syn, fin := fin, rst := false, bytes := bytes, ts := 1 } 1 .none cmpl

def exLifeOps : List Op :=
  [ exLifeSeg 1 false 100 true false [] .yes, exLifeSeg 1 false 101 false true [7, 8] .yes,
    exLifeSeg 1 true 500 true false [] .yes, exLifeSeg 2 false 900 true false [] .no,
    exLifeSeg 1 true 501 false true [9] .yes, .flushAll .none .no ]

example : (match run Arith.real {} exLifeOps with
    | .ok (st, evs) => (st.nextSid, st.conns.map (fun c => (c.id, c.sid)), doneCount 0 evs, doneCount 1 evs,
        createdCount 0 evs, decide (Ev.done 1 0 true ∈ evs), decide (Ev.done 2 1 false ∈ evs))
    | _ => (0, [], 0, 0, 0, false, false)) = (2, [(2, 1)], 1, 1, 1, true, true) := by decide

/-! ## 3. The page limit -/

/-- number of pages a packet of `n` payload bytes occupies -/
def pagesOf (n : Nat) : Nat := (n + pageBytes - 1) / pageBytes

/-- Full statement of the property's bound: with MaxBufferedPagesPerConnection = L configured before any packet,
    after every Assemble step no half connection queues more than `L + pages(packet)` pages. -/
def isOpts : Op → Bool
  | .opts _ _ => true
  | _ => false

def limit_bound_full : Prop :=
  ∀ (L : Nat), 0 < L → ∀ (ops : List Op), (ops.all (fun op => !isOpts op) = true) →
  ∀ (st : St) (evs : List Ev), run Arith.real { cfg := { maxPer := L } } ops = .ok (st, evs) →
  ∀ id dir p acc keep cmpl rp, step Arith.real st (.seg id dir p acc keep cmpl) = .ok rp →
  ∀ c ∈ rp.st.conns, c.c2s.queue.length ≤ L + pagesOf p.bytes.length ∧ c.s2c.queue.length ≤ L + pagesOf p.bytes.length

def cxSeg (seq : Int) (n : Nat) : Op :=
  .seg 1 false { seq := seq, syn := false, fin := false, rst := false, bytes := List.replicate n 0, ts := 1 } 1 .none .yes

/-- L = 5: SYN, four one-byte segments with gaps (4 pages queued), then two-page segments with gaps: each insert
    releases ONE page and adds two -/
def cxOps : List Op :=
  [ .seg 1 false { seq := 1000, syn := true, fin := false, rst := false, bytes := [], ts := 1 } 1 .none .yes,
    cxSeg 1010 1, cxSeg 1020 1, cxSeg 1030 1, cxSeg 1040 1,
    cxSeg 5000 1901, cxSeg 10000 1901, cxSeg 15000 1901 ]

set_option maxRecDepth 100000 in
/-- **The real code violates the bound** (the model reproduces it; known finding `reasm:limit:*:multipage`):
    with L = 5 the queue reaches 8 pages while the packet being processed has 2. -/
theorem limit_bound_counterexample : ¬ limit_bound_full := by
  intro hfull
  have hcomp : (match run Arith.real { cfg := { maxPer := 5 } } cxOps with
      | .ok (st, _) =>
        (match step Arith.real st (cxSeg 20000 1901) with
          | .ok rp => rp.st.conns.any (fun c => decide (5 + pagesOf 1901 < c.c2s.queue.length))
          | _ => false)
      | _ => false) = true := by decide +kernel
  split at hcomp
  · rename_i st evs h1
    split at hcomp
    · rename_i rp h2
      obtain ⟨c, hc, hbad⟩ := List.any_eq_true.mp hcomp
      have := hfull 5 (by decide) cxOps (by decide) st evs h1 1 false _ 1 .none .yes rp h2 c hc
      simp only [List.length_replicate] at this
      have hbad' : 5 + pagesOf 1901 < c.c2s.queue.length := by simpa using hbad
      omega
    · cases hcomp
  · cases hcomp

/-- **Proved part of the bound**: with MaxBufferedPagesPerConnection = L > 0 fixed and packets of at most one page
    (1900 bytes), after EVERY history (any interleaving of Assemble / Flush / FlushAll over any number of
    connections, any stream answers) no half connection queues more than L pages.
    Missing for the full statement: multi-page packets — reaching the limit releases a single page (plus what
    follows it contiguously) per inserted packet. -/
theorem limit_bound_partial (A : Arith) (L : Nat) (hL : 0 < L) (T : Int) (ops : List Op)
    (hsmall : ∀ op ∈ ops, op.small) (st : St) (evs : List Ev)
    (h : run A { cfg := { maxPer := L, maxTotal := T } } ops = .ok (st, evs)) :
    ∀ c ∈ st.conns, c.c2s.queue.length ≤ L ∧ c.s2c.queue.length ≤ L := by
  have hinv0 : PoolInv { cfg := { maxPer := L, maxTotal := T } } :=
    { ids := List.Pairwise.nil, ok := by simp, used := by simp [sumHeld] }
  exact run_qinv A L hL ops _ st evs hinv0 (by intro c hc; simp at hc) rfl hsmall h

example : (∀ op ∈ [cxSeg 1010 1, Op.flush 5 0 .none .yes, Op.flushAll .none .yes], op.small) := by
  intro op hop
  simp only [List.mem_cons, List.mem_nil_iff, or_false] at hop
  rcases hop with rfl | rfl | rfl
  · show (List.replicate 1 (0 : UInt8)).length ≤ pageBytes; decide
  · trivial
  · trivial

/-! ## 4. Age-based flush: FlushWithOptions{T, TC} / FlushCloseOlderThan -/

/-- The age clause as the property reads: after `FlushWithOptions{T, TC}` (1) no connection of the pool still holds
    a queued page seen before `T`; (2) every ReassembledSG call of the flush hands over a block of pages of the
    connection's queue that starts with a page seen before `T` and continues only with pages that follow without
    a gap (`OldGroup`): nothing newer than the cut-off is released except contiguously behind older data. -/
def age_flush_precise_full : Prop :=
  ∀ (ops : List Op) (st : St) (evs : List Ev), run Arith.real {} ops = .ok (st, evs) →
  ∀ (t tc : Int) (keep : KeepRule) (cmpl : CmplRule) (rp : Reply),
    step Arith.real st (.flush t tc keep cmpl) = .ok rp →
    (∀ c ∈ rp.st.conns, (∀ p ∈ c.c2s.queue, ¬ p.seen < t) ∧ (∀ p ∈ c.s2c.queue, ¬ p.seen < t)) ∧
    (∀ k s d g, Ev.sg k s d g ∈ rp.evs → ∃ c ∈ st.conns, k = c.id ∧ s = c.sid ∧
        GroupIn Arith.real t (c.half (!d)).queue g)

def cxAgeSeg (seq : Int) (syn : Bool) (bytes : List UInt8) (ts : Int) : Op :=
  .seg 1 false { seq := seq, syn := syn, fin := false, rst := false, bytes := bytes, ts := ts } 1 .none .yes

/-- SYN (next byte 101); byte 201 seen at time 50 is queued; byte 151 seen at time 100 is queued IN FRONT of it -/
def cxAgeOps : List Op := [cxAgeSeg 100 true [] 0, cxAgeSeg 201 false [65] 50, cxAgeSeg 151 false [66] 100]

/-- **The real code violates clause (1)** (the model reproduces it; known finding `reasm:age-flush:old-data-left`):
    the queue is ordered by sequence number and the flush looks only at its first page; FlushWithOptions{T = 75}
    sees the page of byte 151 (seen at 100, newer than the cut-off), stops, and leaves the page of byte 201 — seen
    at 50, older than the cut-off — waiting. -/
theorem age_flush_precise_counterexample : ¬ age_flush_precise_full := by
  intro hfull
  have hcomp : (match run Arith.real {} cxAgeOps with
      | .ok (st, _) =>
        (match step Arith.real st (.flush 75 0 .none .yes) with
          | .ok rp => rp.st.conns.any (fun c => c.c2s.queue.any (fun p => decide (p.seen < 75)))
          | _ => false)
      | _ => false) = true := by decide
  split at hcomp
  · rename_i st evs h1
    split at hcomp
    · rename_i rp h2
      obtain ⟨c, hc, hbad⟩ := List.any_eq_true.mp hcomp
      obtain ⟨p, hp, hold⟩ := List.any_eq_true.mp hbad
      exact ((hfull cxAgeOps st evs h1 75 0 .none .yes rp h2).1 c hc).1 p hp (by simpa using hold)
    · cases hcomp
  · cases hcomp

/-- **age_flush_head (clause 1, what the code guarantees for older data).**  After FlushWithOptions{T, TC} in any
    reachable state, the FIRST queued page of every half connection left in the pool was not seen before `T`:
    whatever the connection still waits for lies in front of data that is not older than the cut-off. -/
theorem age_flush_head_partial (ops : List Op) (st : St) (evs : List Ev) (h : run Arith.real {} ops = .ok (st, evs))
    (t tc : Int) (keep : KeepRule) (cmpl : CmplRule) (rp : Reply)
    (hs : step Arith.real st (.flush t tc keep cmpl) = .ok rp) :
    ∀ c ∈ rp.st.conns, HeadNotOld t c.c2s.queue ∧ HeadNotOld t c.s2c.queue := by
  have hinv := run_inv Arith.real ops {} st evs inv_init_pool h
  intro x hx
  obtain ⟨c, _, _, _, _, _, g1, g2, _⟩ := (opFlush_age Arith.real real_add_valid st t tc keep cmpl rp hinv hs).2 x hx
  exact ⟨g2.head, g1.head⟩

/-- **age_flush_sorted (clause 1 at full strength, under the hypothesis that excludes the defect).**  If in every
    connection the queues are oldest-first (no page queued in front of a page seen earlier — e.g. segments that
    arrive in sequence order behind a gap), no page seen before `T` is left after the flush. -/
theorem age_flush_sorted_partial (ops : List Op) (st : St) (evs : List Ev) (h : run Arith.real {} ops = .ok (st, evs))
    (t tc : Int) (keep : KeepRule) (cmpl : CmplRule) (rp : Reply)
    (hs : step Arith.real st (.flush t tc keep cmpl) = .ok rp)
    (hsorted : ∀ c ∈ st.conns, SeenSorted c.c2s.queue ∧ SeenSorted c.s2c.queue) :
    ∀ c ∈ rp.st.conns, (∀ p ∈ c.c2s.queue, ¬ p.seen < t) ∧ (∀ p ∈ c.s2c.queue, ¬ p.seen < t) := by
  have hinv := run_inv Arith.real ops {} st evs inv_init_pool h
  intro x hx
  obtain ⟨c, hc, _, _, _, _, g1, g2, _⟩ := (opFlush_age Arith.real real_add_valid st t tc keep cmpl rp hinv hs).2 x hx
  obtain ⟨r1, hr1⟩ := g1.suffix
  obtain ⟨r2, hr2⟩ := g2.suffix
  have s1 := (hsorted c hc).2
  have s2 := (hsorted c hc).1
  rw [hr1] at s1
  rw [hr2] at s2
  exact ⟨headNotOld_sorted (seenSorted_suffix s2) g2.head, headNotOld_sorted (seenSorted_suffix s1) g1.head⟩

example : SeenSorted ([{ seq := 150, bytes := [1], seen := 10, fin := false },
                       { seq := 200, bytes := [2], seen := 20, fin := false }] : List Page) := by
  simp [SeenSorted]

/-- **age_flush_releases_old_only (clause 2, full).**  Every ReassembledSG call made by FlushWithOptions{T, TC} in
    any reachable state delivers, as new data, exactly the bytes of a block of pages of that connection's queue
    (as it was before the flush) whose first page was seen before `T` and whose further pages each follow the
    previous one without a gap: data newer than the cut-off is released only contiguously behind older data. -/
theorem age_flush_releases_old_only (ops : List Op) (st : St) (evs : List Ev)
    (h : run Arith.real {} ops = .ok (st, evs)) (t tc : Int) (keep : KeepRule) (cmpl : CmplRule) (rp : Reply)
    (hs : step Arith.real st (.flush t tc keep cmpl) = .ok rp) (k s : Nat) (d : Bool) (g : SG)
    (hev : Ev.sg k s d g ∈ rp.evs) :
    ∃ c ∈ st.conns, k = c.id ∧ s = c.sid ∧ GroupIn Arith.real t (c.half (!d)).queue g :=
  (opFlush_age Arith.real real_add_valid st t tc keep cmpl rp
    (run_inv Arith.real ops {} st evs inv_init_pool h) hs).1 k s d g hev

/-- non-vacuity of clauses 1a/2: bytes 151 (seen 10), 152 (seen 60, contiguous) and 201 (seen 70) are queued behind
    a gap; FlushWithOptions{T = 50} releases 151 and — contiguously — 152, and leaves 201. -/
def exAgeOps : List Op := [cxAgeSeg 100 true [] 0, cxAgeSeg 151 false [66] 10, cxAgeSeg 152 false [67] 60,
  cxAgeSeg 201 false [65] 70]

example : (match run Arith.real {} exAgeOps with
    | .ok (st, _) =>
      (match step Arith.real st (.flush 50 0 .none .yes) with
        | .ok rp => (rp.evs.map (fun e => match e with | .sg _ _ _ g => (g.skip, g.new) | _ => (0, [])),
                     rp.st.conns.map (fun c => c.c2s.queue.map (fun p => (p.seq, p.seen))))
        | _ => ([], []))
    | _ => ([], [])) = ([(50, [66, 67])], [[(201, 70)]]) := by decide

/-- **age_close_idle (TC, what is closed).**  After FlushWithOptions{T, TC} in any reachable state, a connection
    that is still in the pool and was last seen (in both directions) before `TC` has a direction that is still open
    AND still holds queued data: every direction with nothing left queued was closed (its stream completed once
    both are), and a connection with both directions closed was removed from the pool whatever its stream
    answered. -/
theorem age_close_idle (ops : List Op) (st : St) (evs : List Ev) (h : run Arith.real {} ops = .ok (st, evs))
    (t tc : Int) (keep : KeepRule) (cmpl : CmplRule) (rp : Reply)
    (hs : step Arith.real st (.flush t tc keep cmpl) = .ok rp) :
    ∀ c ∈ rp.st.conns, connLastSeen c < tc →
      (c.c2s.closed = false ∧ c.c2s.queue ≠ []) ∨ (c.s2c.closed = false ∧ c.s2c.queue ≠ []) := by
  have hinv := run_inv Arith.real ops {} st evs inv_init_pool h
  intro x hx hidle
  obtain ⟨c, _, _, _, _, _, g1, g2, g3⟩ := (opFlush_age Arith.real real_add_valid st t tc keep cmpl rp hinv hs).2 x hx
  have hls : connLastSeen c = connLastSeen x := by simp only [connLastSeen, g1.seen, g2.seen]
  have hboth : x.s2c.lastSeen < tc ∧ x.c2s.lastSeen < tc := by
    simp only [connLastSeen] at hidle
    split at hidle <;> constructor <;> omega
  have i1 := g1.idle
  have i2 := g2.idle
  rw [hls] at i1 i2
  cases hc1 : x.c2s.closed with
  | false =>
    left
    refine ⟨rfl, ?_⟩
    rcases i2 with i | i | i
    · rw [hc1] at i; cases i
    · exact i
    · omega
  | true =>
    cases hc2 : x.s2c.closed with
    | false =>
      right
      refine ⟨rfl, ?_⟩
      rcases i1 with i | i | i
      · rw [hc2] at i; cases i
      · exact i
      · omega
    | true => exact absurd ⟨hc2, hc1, hboth.1, hboth.2⟩ g3

/-- **age_close_spares_recent (TC, what is not closed).**  A connection seen at or after `TC` is not closed by age:
    a direction of it that had nothing queued and is closed after the flush was closed before. -/
theorem age_close_spares_recent (ops : List Op) (st : St) (evs : List Ev) (h : run Arith.real {} ops = .ok (st, evs))
    (t tc : Int) (keep : KeepRule) (cmpl : CmplRule) (rp : Reply)
    (hs : step Arith.real st (.flush t tc keep cmpl) = .ok rp) :
    ∀ x ∈ rp.st.conns, ∃ c ∈ st.conns, x.id = c.id ∧ x.sid = c.sid ∧ (tc ≤ connLastSeen c →
      (c.c2s.queue = [] → x.c2s.closed = true → c.c2s.closed = true) ∧
      (c.s2c.queue = [] → x.s2c.closed = true → c.s2c.closed = true)) := by
  have hinv := run_inv Arith.real ops {} st evs inv_init_pool h
  intro x hx
  obtain ⟨c, hc, sgs1, sgs2, hid, hsid, g1, g2, _⟩ :=
    (opFlush_age Arith.real real_add_valid st t tc keep cmpl rp hinv hs).2 x hx
  refine ⟨c, hc, hid, hsid, fun hrecent => ?_⟩
  have key : ∀ (hh hh' : Half) (sgs : List SG), HalfAged Arith.real t tc (connLastSeen c) hh hh' sgs →
      hh.queue = [] → hh'.closed = true → hh.closed = true := by
    intro hh hh' sgs ha hq hcl
    rcases ha.closedWhy hcl with w | w | ⟨g, hg, _⟩
    · exact w
    · omega
    · obtain ⟨pre, grp, post, e1, p, run, e2, _⟩ := ha.groups g hg
      rw [hq, e2] at e1
      simp at e1
  exact ⟨key _ _ _ g2, key _ _ _ g1⟩

/-- non-vacuity of the TC clauses: connection 1 (last seen at 5, nothing queued) is closed, completed and removed by
    FlushWithOptions{T = 0, TC = 10}; connection 2 (seen at 20) is untouched. -/
example : (match run Arith.real {} [cxAgeSeg 100 true [] 5,
      .seg 2 false { seq := 7, syn := true, fin := false, rst := false, bytes := [], ts := 20 } 1 .none .yes] with
    | .ok (st, _) =>
      (match step Arith.real st (.flush 0 10 .none .yes) with
        | .ok rp => (rp.closed, rp.st.conns.map (fun c => (c.id, c.c2s.closed, c.s2c.closed)),
                     rp.evs.map (fun e => match e with | .done k _ a => (k, a) | _ => (0, false)))
        | _ => (0, [], []))
    | _ => (0, [], [])) = (2, [(2, false, false)], [(1, true)]) := by decide


end Gp.C11.Reasm
