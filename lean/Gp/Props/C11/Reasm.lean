import Gp.Lemmas.ReasmLimit
/-
  C11 (reassembly half) — Assembler stream lifecycle and buffering are bounded and leak-free.

  Model: `Gp/Model/ReasmPool.lean` (StreamPool keyed by flow, connections with two half connections, the
  scripted factory/stream answers, AssembleWithContext / FlushWithOptions / FlushAll), on top of the
  half-connection model of C09.  `run A st ops` executes a history of `Op`s on the pool and collects the
  callbacks (`Ev`).  All theorems hold for EVERY history and every input (segments need not be consistent
  with anything) and for any sequence arithmetic `A`; they are stated for runs that return normally
  (a Go panic aborts the history).  The model is of the tree with fixes reasm-5/6 (pages kept by KeepFrom
  are released at close and counted) — on the unfixed tree `flushall_empties` fails (monitor
  `reasm:flushall-pages-used`).
-/
namespace Gp.C11.Reasm
open Gp Gp.Reasm

/-- **pages_accounting.**  After every history: the page-cache counter (`pageCache.used`) is exactly the number
    of pages held by the connections of the pool — queued for out-of-order data or kept on request of a stream;
    every per-connection counter `half.pages` is exact; a closed half connection holds no page. -/
theorem pages_accounting (A : Arith) (ops : List Op) (st : St) (evs : List Ev)
    (h : run A {} ops = .ok (st, evs)) :
    st.used = sumHeld st.conns ∧
    (∀ c ∈ st.conns, c.c2s.pages = held c.c2s ∧ c.s2c.pages = held c.s2c ∧
      (c.c2s.closed = true → held c.c2s = 0) ∧ (c.s2c.closed = true → held c.s2c = 0)) := by
  have hinv := run_inv A ops {} st evs inv_init_pool h
  exact ⟨hinv.used, fun c hc => ⟨(hinv.ok c hc).1.1, (hinv.ok c hc).2.1, (hinv.ok c hc).1.2, (hinv.ok c hc).2.2⟩⟩

/-- **flushall_empties** (buffers).  After any history followed by FlushAll: every connection still in the pool has
    both directions closed, and no page is in use. -/
theorem flushall_empties (A : Arith) (ops : List Op) (keep : KeepRule) (cmpl : CmplRule) (st : St) (evs : List Ev)
    (h : run A {} (ops ++ [.flushAll keep cmpl]) = .ok (st, evs)) :
    st.used = 0 ∧ (∀ c ∈ st.conns, c.c2s.closed = true ∧ c.s2c.closed = true) ∧
    queuedPages st = 0 := by
  obtain ⟨st1, evs1, rp, h1, h2, rfl, _⟩ := run_snoc A ops _ {} st evs h
  have hinv1 := run_inv A ops {} st1 evs1 inv_init_pool h1
  obtain ⟨hinv, hcl⟩ := opFlushAll_inv A st1 keep cmpl rp hinv1 h2
  have hzero : ∀ l : List Conn, (∀ c ∈ l, ConnOK c ∧ c.c2s.closed = true ∧ c.s2c.closed = true) → sumHeld l = 0 := by
    intro l
    induction l with
    | nil => intro _; rfl
    | cons c rest ih =>
      intro hl
      have hc := hl c (List.mem_cons_self ..)
      have := connOK_closed_held hc.1 hc.2.1 hc.2.2
      have := ih (fun x hx => hl x (List.mem_cons_of_mem _ hx))
      simp only [sumHeld, List.map_cons, List.sum_cons] at *
      omega
  refine ⟨?_, hcl, ?_⟩
  · rw [hinv.used]
    exact hzero _ (fun c hc => ⟨hinv.ok c hc, hcl c hc⟩)
  · unfold queuedPages
    have : ∀ l : List Conn, (∀ c ∈ l, c.c2s.closed = true ∧ c.s2c.closed = true) →
        (l.map (fun c => (if c.c2s.closed then 0 else c.c2s.queue.length) +
                          (if c.s2c.closed then 0 else c.s2c.queue.length))).sum = 0 := by
      intro l
      induction l with
      | nil => intro _; rfl
      | cons c rest ih =>
        intro hl
        have hc := hl c (List.mem_cons_self ..)
        simp only [List.map_cons, List.sum_cons, hc.1, hc.2, if_true, Nat.zero_add]
        exact ih (fun x hx => hl x (List.mem_cons_of_mem _ hx))
    exact this _ hcl

/-! ### the page limit -/

/-- number of pages a packet of `n` payload bytes occupies -/
def pagesOf (n : Nat) : Nat := (n + pageBytes - 1) / pageBytes

/-- Full statement of the property's bound: with MaxBufferedPagesPerConnection = L configured before any packet,
    after every Assemble step no half connection queues more than `L + pages(packet)` pages. -/
def isOpts : Op → Bool
  | .opts _ _ => true
  | _ => false

def limit_bound_full : Prop :=
  ∀ (L : Nat), 0 < L → ∀ (ops : List Op), (ops.all (fun op => !isOpts op) = true) →
  ∀ (st : St) (evs : List Ev), run Arith.real { cfg := { maxPer := L } } ops = .ok (st, evs) →
  ∀ id dir p acc keep cmpl rp, step Arith.real st (.seg id dir p acc keep cmpl) = .ok rp →
  ∀ c ∈ rp.st.conns, c.c2s.queue.length ≤ L + pagesOf p.bytes.length ∧ c.s2c.queue.length ≤ L + pagesOf p.bytes.length

def cxSeg (seq : Int) (n : Nat) : Op :=
  .seg 1 false { seq := seq, syn := false, fin := false, rst := false, bytes := List.replicate n 0, ts := 1 } 1 .none .yes

/-- L = 5: SYN, four one-byte segments with gaps (4 pages queued), then two-page segments with gaps: each insert
    releases ONE page and adds two -/
def cxOps : List Op :=
  [ .seg 1 false { seq := 1000, syn := true, fin := false, rst := false, bytes := [], ts := 1 } 1 .none .yes,
    cxSeg 1010 1, cxSeg 1020 1, cxSeg 1030 1, cxSeg 1040 1,
    cxSeg 5000 1901, cxSeg 10000 1901, cxSeg 15000 1901 ]

set_option maxRecDepth 100000 in
/-- **The real code violates the bound** (the model reproduces it; known finding `reasm:limit:*:multipage`):
    with L = 5 the queue reaches 8 pages while the packet being processed has 2. -/
theorem limit_bound_counterexample : ¬ limit_bound_full := by
  intro hfull
  have hcomp : (match run Arith.real { cfg := { maxPer := 5 } } cxOps with
      | .ok (st, _) =>
        (match step Arith.real st (cxSeg 20000 1901) with
          | .ok rp => rp.st.conns.any (fun c => decide (5 + pagesOf 1901 < c.c2s.queue.length))
          | _ => false)
      | _ => false) = true := by decide +kernel
  split at hcomp
  · rename_i st evs h1
    split at hcomp
    · rename_i rp h2
      obtain ⟨c, hc, hbad⟩ := List.any_eq_true.mp hcomp
      have := hfull 5 (by decide) cxOps (by decide) st evs h1 1 false _ 1 .none .yes rp h2 c hc
      simp only [List.length_replicate] at this
      have hbad' : 5 + pagesOf 1901 < c.c2s.queue.length := by simpa using hbad
      omega
    · cases hcomp
  · cases hcomp

/-- **Proved part of the bound**: with MaxBufferedPagesPerConnection = L > 0 fixed and packets of at most one page
    (1900 bytes), after EVERY history (any interleaving of Assemble / Flush / FlushAll over any number of
    connections, any stream answers) no half connection queues more than L pages.
    Missing for the full statement: multi-page packets — reaching the limit releases a single page (plus what
    follows it contiguously) per inserted packet. -/
theorem limit_bound_partial (A : Arith) (L : Nat) (hL : 0 < L) (T : Int) (ops : List Op)
    (hsmall : ∀ op ∈ ops, op.small) (st : St) (evs : List Ev)
    (h : run A { cfg := { maxPer := L, maxTotal := T } } ops = .ok (st, evs)) :
    ∀ c ∈ st.conns, c.c2s.queue.length ≤ L ∧ c.s2c.queue.length ≤ L := by
  have hinv0 : PoolInv { cfg := { maxPer := L, maxTotal := T } } :=
    { ids := List.Pairwise.nil, ok := by simp, used := by simp [sumHeld] }
  exact run_qinv A L hL ops _ st evs hinv0 (by intro c hc; simp at hc) rfl hsmall h

example : (∀ op ∈ [cxSeg 1010 1, Op.flush 5 0 .none .yes, Op.flushAll .none .yes], op.small) := by
  intro op hop
  simp only [List.mem_cons, List.mem_nil_iff, or_false] at hop
  rcases hop with rfl | rfl | rfl
  · show (List.replicate 1 (0 : UInt8)).length ≤ pageBytes; decide
  · trivial
  · trivial

end Gp.C11.Reasm
