import Gp.Model.ReasmPool
/- C11 (reassembly half) — work in progress -/
namespace Gp.C11.Reasm
open Gp Gp.Reasm

end Gp.C11.Reasm
