import Gp.Lemmas.Layers.Eth
/-
  C07 (engine `leth`) — Ethernet and Dot1Q serialization never panics; the output depends only on
  the layer's fields, the payload and the options.

  Model: `Ethernet.serializeTo` / `Dot1Q.serializeTo` (Gp/Model/Layers/Eth.lean) transcribe the two
  SerializeTo methods statement by statement OVER the C18 buffer model: `PrependBytes`/`AppendBytes`
  hand out windows onto memory that holds whatever the buffer held before (stale bytes of earlier
  packets, zeros of a fresh allocation), every `copy`/`PutUint16` is a store through such a window
  (with Go's bounds checks as `.panic`).  The Ethernet model is the code WITH proposed_fixes/leth-1
  (see `prefix_not_idempotent_counterexample` for the defect of the code before it).

  `serView` is what a caller can observe: the receiver afterwards, the error flag and — when no error
  was returned — `Bytes()`.  `ethSerSpec`/`dot1qSerSpec` (Gp/Lemmas/Layers/Eth.lean) are the pure
  functional specifications; `Gp.C18.Inv` is the representation invariant of the serialize buffer,
  proved in C18 for every buffer reachable from the constructors by any history of operations.
-/
namespace Gp.C07.Eth
open Gp Gp.SBuf Gp.Eth Gp.C18

/-! ## Ethernet -/

/-- `(*Ethernet).SerializeTo` never panics: EVERY value of the public fields (MACs of any length,
    any type/length combination), every option set, every buffer state whatsoever. -/
theorem serialize_total (l : Ethernet) (b : SBuf) (fix csum : Bool) (k : PanicKind) :
    l.serializeTo b fix csum ≠ .panic k := eth_serializeTo_no_panic l b fix csum k

/-- The same for the `Res (SBuf × Layer)` view of the brief. -/
theorem serialize_total_view (l : Ethernet) (b : SBuf) (fix csum : Bool) (k : PanicKind) :
    serializeEth l b fix csum ≠ .panic k := by
  unfold serializeEth
  have := eth_serializeTo_no_panic l b fix csum
  split
  · split <;> exact fun h => nomatch h
  · exact fun h => nomatch h
  · rename_i k' hk; exact absurd hk (this k')

/-- Refinement: on every buffer satisfying the invariant the observable outcome is the pure function
    `ethSerSpec` of (layer, payload = current buffer contents, FixLengths).  In particular every one
    of the 14 (+ padding) requested bytes is written: nothing of the buffer's past shows through. -/
theorem serialize_refines (l : Ethernet) (b : SBuf) (fix csum : Bool) (h : Inv b) :
    serView (l.serializeTo b fix csum) = .ok (ethSerSpec l (contents b) fix) := eth_serView l b fix csum h

/-- Buffer independence: two buffers with equal contents (= the payload) but arbitrary capacity,
    arbitrary stale bytes before/behind the contents and arbitrary history give the same receiver,
    the same error flag and the same bytes. -/
theorem serialize_buffer_independent (l : Ethernet) (b1 b2 : SBuf) (fix csum : Bool)
    (h1 : Inv b1) (h2 : Inv b2) (hc : contents b1 = contents b2) :
    serView (l.serializeTo b1 fix csum) = serView (l.serializeTo b2 fix csum) := by
  rw [serialize_refines l b1 fix csum h1, serialize_refines l b2 fix csum h2, hc]

/-- … stated over histories: any two buffers produced from any constructor hints by any sequences
    of prepend/append/clear/push whose final contents agree. -/
theorem serialize_history_independent (l : Ethernet) (p1 a1 p2 a2 : Nat) (ops1 ops2 : List Op)
    (fix csum : Bool) (hc : contents (run (new p1 a1) ops1) = contents (run (new p2 a2) ops2)) :
    serView (l.serializeTo (run (new p1 a1) ops1) fix csum) =
      serView (l.serializeTo (run (new p2 a2) ops2) fix csum) :=
  serialize_buffer_independent l _ _ fix csum (inv_run_from _ ops1 (inv_new' p1 a1))
    (inv_run_from _ ops2 (inv_new' p2 a2)) hc

/-- ComputeChecksums is irrelevant for this layer. -/
theorem serialize_csum_irrelevant (l : Ethernet) (b : SBuf) (fix c1 c2 : Bool) :
    l.serializeTo b fix c1 = l.serializeTo b fix c2 := rfl

/-- Idempotence: serialising the (possibly mutated) receiver again over the same payload — in any
    buffer — gives the same error flag, the same bytes, and changes the receiver no further.  This
    includes calls that return an error (a rejected layer is left unmodified). -/
theorem serialize_idempotent (l : Ethernet) (b b' : SBuf) (fix csum : Bool)
    (h : Inv b) (h' : Inv b') (hc : contents b' = contents b) :
    ∃ s, serView (l.serializeTo b fix csum) = .ok s ∧
         serView (s.layer.serializeTo b' fix csum) = .ok s := by
  refine ⟨_, serialize_refines l b fix csum h, ?_⟩
  rw [serialize_refines _ b' fix csum h', hc, ethSerSpec_idem]

/-- The defect removed by proposed_fixes/leth-1, on the model of the code BEFORE the fix: the layer
    {EthernetType: IPv4, Length: 5} over an empty payload with FixLengths is rejected by the first
    call — which leaves Length = 0 behind — and accepted by the second. -/
theorem prefix_not_idempotent_counterexample :
    let l : Ethernet := { Ethernet.fresh with dstMAC := [1,2,3,4,5,6], srcMAC := [7,8,9,10,11,12],
                                              ethernetType := 0x0800, length := 5 }
    (match serView (l.serializeToPreFix (new 0 0) true true) with
     | .ok s1 => (s1.err, s1.layer.length,
         match serView (s1.layer.serializeToPreFix (new 0 0) true true) with
         | .ok s2 => some s2.err
         | _ => none)
     | _ => (false, 0, none)) = (true, 0, some false) := by decide

/-! ## Dot1Q -/

theorem serialize_total_dot1q (l : Dot1Q) (b : SBuf) (fix csum : Bool) (k : PanicKind) :
    l.serializeTo b fix csum ≠ .panic k := dot1q_serializeTo_no_panic l b fix csum k

theorem serialize_total_dot1q_view (l : Dot1Q) (b : SBuf) (fix csum : Bool) (k : PanicKind) :
    serializeDot1Q l b fix csum ≠ .panic k := by
  unfold serializeDot1Q
  have := dot1q_serializeTo_no_panic l b fix csum
  split
  · split <;> exact fun h => nomatch h
  · exact fun h => nomatch h
  · rename_i k' hk; exact absurd hk (this k')

theorem serialize_refines_dot1q (l : Dot1Q) (b : SBuf) (fix csum : Bool) (h : Inv b) :
    serView (l.serializeTo b fix csum) = .ok (dot1qSerSpec l (contents b)) := dot1q_serView l b fix csum h

theorem serialize_buffer_independent_dot1q (l : Dot1Q) (b1 b2 : SBuf) (fix1 csum1 fix2 csum2 : Bool)
    (h1 : Inv b1) (h2 : Inv b2) (hc : contents b1 = contents b2) :
    serView (l.serializeTo b1 fix1 csum1) = serView (l.serializeTo b2 fix2 csum2) := by
  rw [serialize_refines_dot1q l b1 fix1 csum1 h1, serialize_refines_dot1q l b2 fix2 csum2 h2, hc]

/-- Dot1Q.SerializeTo never modifies its receiver, so repeating the call gives the same outcome. -/
theorem serialize_idempotent_dot1q (l : Dot1Q) (b b' : SBuf) (fix csum : Bool)
    (h : Inv b) (h' : Inv b') (hc : contents b' = contents b) :
    ∃ s, serView (l.serializeTo b fix csum) = .ok s ∧ s.layer = l ∧
         serView (s.layer.serializeTo b' fix csum) = .ok s := by
  have hl : (dot1qSerSpec l (contents b)).layer = l := by
    unfold dot1qSerSpec; split <;> rfl
  refine ⟨_, serialize_refines_dot1q l b fix csum h, hl, ?_⟩
  rw [hl, serialize_refines_dot1q _ b' fix csum h', hc]

/-! ## Non-vacuity -/

set_option maxRecDepth 8000 in
/-- A dirty, pre-sized buffer holding a 3-byte payload: stale 0xA5 bytes around the contents, and the
    802.3 frame comes out padded with zeros that were really written. -/
example :
    let junk : List UInt8 := List.replicate 70 0xA5
    let b := step (clear (step (step (new 3 1) (.append junk)) (.prepend junk))) (.prepend [0xDE, 0xAD, 0xBF])
    let l : Ethernet := { Ethernet.fresh with dstMAC := [1,2,3,4,5,6], srcMAC := [7,8,9,10,11,12], length := 99 }
    contents b = [0xDE, 0xAD, 0xBF] ∧
    serView (l.serializeTo b true false) =
      .ok { layer := { l with length := 3 }, err := false,
            bytes := [1,2,3,4,5,6,7,8,9,10,11,12,0,3,0xDE,0xAD,0xBF] ++ List.replicate 43 0 } := by
  decide

/-- Out-of-range values are errors, not panics. -/
example :
    (serView (({ Ethernet.fresh with dstMAC := [1,2,3] } : Ethernet).serializeTo (new 0 0) true true)).isOk = true ∧
    serView (({ Dot1Q.fresh with vlan := 0x1000 } : Dot1Q).serializeTo (new 0 0) true true) =
      .ok { layer := { Dot1Q.fresh with vlan := 0x1000 }, err := true, bytes := [] } := by decide

end Gp.C07.Eth
