import Gp.Lemmas.Layers.MldSer
/-
  C07 (engine `lmld`) — MLDv1 query / report / done serialization never panics; the output depends
  only on the layer's fields and the payload.

  Model: `Msg.serializeTo` (Gp/Model/Layers/Mld.lean) transcribes `(*MLDv1Message).SerializeTo` —
  the method all three wrapper types use — statement by statement OVER the C18 buffer model:
  `PrependBytes(20)` hands out a window onto memory that holds whatever the buffer held before
  (stale bytes of earlier packets, zeros of a fresh allocation), `PutUint16(buf[0:2], …)` and the two
  `copy` calls are stores through sub-windows (with Go's bounds checks as `.panic`).

  `serView` is what a caller can observe: the receiver afterwards, the error flag and — when no error
  was returned — `Bytes()`.  `msgSerSpec` (Gp/Lemmas/Layers/MldSer.lean) is the pure functional
  specification; `Gp.C18.Inv` is the representation invariant of the serialize buffer, proved in C18
  for every buffer reachable from the constructors by any history.
-/
namespace Gp.C07.Mld
open Gp Gp.SBuf Gp.Mld Gp.C18

/-- `(*MLDv1Message).SerializeTo` never panics: EVERY value of the public fields (any int64 —
    indeed any integer — delay: negative, sub-millisecond, beyond 65535 ms; an address slice of any
    length, nil included), every option set, every buffer state whatsoever (not only buffers
    satisfying the invariant). -/
theorem serialize_total (l : Msg) (b : SBuf) (fix csum : Bool) (k : PanicKind) :
    l.serializeTo b fix csum ≠ .panic k := serializeTo_no_panic l b fix csum k

/-- The same for the `Res (SBuf × Layer)` view of the brief. -/
theorem serialize_total_view (l : Msg) (b : SBuf) (fix csum : Bool) (k : PanicKind) :
    serializeMld l b fix csum ≠ .panic k := by
  unfold serializeMld
  have := serializeTo_no_panic l b fix csum
  split
  · split <;> exact fun h => nomatch h
  · exact fun h => nomatch h
  · rename_i k' hk; exact absurd hk (this k')

/-- Refinement: on every buffer satisfying the invariant the observable outcome is the pure function
    `msgSerSpec` of (layer, payload = current buffer contents).  In particular every one of the 20
    requested bytes is written on success (2 delay bytes, 2 reserved zero bytes, and the 16 bytes
    `To16` returns — `copy(buf[4:20], ma16)` covers its window exactly because `To16` yields 16
    bytes or nil): nothing of the buffer's past shows through. -/
theorem serialize_refines (l : Msg) (b : SBuf) (fix csum : Bool) (h : Inv b) :
    serView (l.serializeTo b fix csum) = .ok (msgSerSpec l (contents b)) := msg_serView l b fix csum h

/-- Buffer independence: two buffers with equal contents (= the payload) but arbitrary capacity,
    arbitrary stale bytes before/behind the contents and arbitrary history give the same receiver,
    the same error flag and the same bytes — also across different option sets (the method does not
    read `opts`). -/
theorem serialize_buffer_independent (l : Msg) (b1 b2 : SBuf) (fix1 csum1 fix2 csum2 : Bool)
    (h1 : Inv b1) (h2 : Inv b2) (hc : contents b1 = contents b2) :
    serView (l.serializeTo b1 fix1 csum1) = serView (l.serializeTo b2 fix2 csum2) := by
  rw [serialize_refines l b1 fix1 csum1 h1, serialize_refines l b2 fix2 csum2 h2, hc]

/-- … stated over histories: any two buffers produced from any constructor hints by any sequences
    of prepend/append/clear/push whose final contents agree. -/
theorem serialize_history_independent (l : Msg) (p1 a1 p2 a2 : Nat) (ops1 ops2 : List Op)
    (fix csum : Bool) (hc : contents (run (new p1 a1) ops1) = contents (run (new p2 a2) ops2)) :
    serView (l.serializeTo (run (new p1 a1) ops1) fix csum) =
      serView (l.serializeTo (run (new p2 a2) ops2) fix csum) :=
  serialize_buffer_independent l _ _ fix csum fix csum (inv_run_from _ ops1 (inv_new' p1 a1))
    (inv_run_from _ ops2 (inv_new' p2 a2)) hc

/-- FixLengths / ComputeChecksums are irrelevant for this layer. -/
theorem serialize_opts_irrelevant (l : Msg) (b : SBuf) (f1 c1 f2 c2 : Bool) :
    l.serializeTo b f1 c1 = l.serializeTo b f2 c2 := rfl

/-- The successful output: 20 body bytes (whole milliseconds big-endian, 00 00, the 16-byte form of
    the address) followed by the payload; the receiver is unchanged. -/
theorem serialize_output (l : Msg) (b : SBuf) (fix csum : Bool) (h : Inv b) (ma16 : Bytes)
    (h1 : 0 ≤ l.maximumResponseDelay) (h2 : Int.tdiv l.maximumResponseDelay millisecond ≤ maxUint16)
    (h3 : to16 l.multicastAddress = some ma16) :
    serView (l.serializeTo b fix csum) =
      .ok { layer := l, err := false, bytes := msgEncode l.maximumResponseDelay ma16 ++ contents b } := by
  rw [serialize_refines l b fix csum h]
  unfold msgSerSpec
  rw [if_neg (by omega), if_neg (by omega), h3]

/-- The three error returns, exactly: a negative delay, more than 65535 whole milliseconds, an
    address whose length is neither 4 nor 16.  (They come after `PrependBytes(20)`: the caller gets
    an error and no bytes; `SerializeLayers` aborts.) -/
theorem serialize_error_iff (l : Msg) (b : SBuf) (fix csum : Bool) (h : Inv b) :
    ∃ s, serView (l.serializeTo b fix csum) = .ok s ∧
      (s.err = true ↔ (l.maximumResponseDelay < 0 ∨ Int.tdiv l.maximumResponseDelay millisecond > maxUint16 ∨
        (l.multicastAddress.length ≠ 4 ∧ l.multicastAddress.length ≠ 16))) := by
  refine ⟨_, serialize_refines l b fix csum h, ?_⟩
  unfold msgSerSpec
  by_cases h1 : l.maximumResponseDelay < 0
  · rw [if_pos h1]; exact ⟨fun _ => Or.inl h1, fun _ => rfl⟩
  · rw [if_neg h1]
    by_cases h2 : Int.tdiv l.maximumResponseDelay millisecond > maxUint16
    · rw [if_pos h2]; exact ⟨fun _ => Or.inr (Or.inl h2), fun _ => rfl⟩
    · rw [if_neg h2]
      have hno : ¬ (l.maximumResponseDelay < 0 ∨ Int.tdiv l.maximumResponseDelay millisecond > maxUint16 ∨
          (l.multicastAddress.length ≠ 4 ∧ l.multicastAddress.length ≠ 16)) ↔
          (l.multicastAddress.length = 4 ∨ l.multicastAddress.length = 16) := by
        constructor
        · intro hh
          by_cases h4 : l.multicastAddress.length = 4
          · exact Or.inl h4
          · by_cases h16 : l.multicastAddress.length = 16
            · exact Or.inr h16
            · exact absurd (Or.inr (Or.inr ⟨h4, h16⟩)) hh
        · intro hh hc
          rcases hc with hc | hc | hc
          · exact h1 hc
          · exact h2 hc
          · rcases hh with hh | hh
            · exact hc.1 hh
            · exact hc.2 hh
      unfold to16
      by_cases h4 : l.multicastAddress.length = 4
      · rw [if_pos h4]
        exact ⟨(fun hh => by cases hh), fun hh => absurd hh (hno.mpr (Or.inl h4))⟩
      · rw [if_neg h4]
        by_cases h16 : l.multicastAddress.length = 16
        · rw [if_pos h16]
          exact ⟨(fun hh => by cases hh), fun hh => absurd hh (hno.mpr (Or.inr h16))⟩
        · rw [if_neg h16]
          exact ⟨fun _ => Or.inr (Or.inr ⟨h4, h16⟩), fun _ => rfl⟩

/-- Idempotence: SerializeTo never modifies its receiver (`s.layer = l`), so serialising it again
    over the same payload — in any buffer — gives the same error flag and the same bytes.  This
    includes the three error returns. -/
theorem serialize_idempotent (l : Msg) (b b' : SBuf) (fix csum : Bool)
    (h : Inv b) (h' : Inv b') (hc : contents b' = contents b) :
    ∃ s, serView (l.serializeTo b fix csum) = .ok s ∧ s.layer = l ∧
         serView (s.layer.serializeTo b' fix csum) = .ok s := by
  refine ⟨_, serialize_refines l b fix csum h, msgSerSpec_layer l _, ?_⟩
  rw [msgSerSpec_layer, serialize_refines _ b' fix csum h', hc]

/-- The receiver is unchanged on EVERY buffer (no invariant needed). -/
theorem serialize_keeps_receiver (l : Msg) (b : SBuf) (fix csum : Bool) (o : SerOut Msg)
    (h : l.serializeTo b fix csum = .ok o) : o.layer = l := serializeTo_layer l b fix csum o h

/-! Non-vacuity: a dirty buffer (64 + 64 bytes of 0xA5 written, then cleared) and a fresh one give the
    same bytes; the error returns are inhabited. -/

example :
    let l : Msg := { Msg.fresh with maximumResponseDelay := 10000000000,
                                    multicastAddress := [0xff,2,0,0,0,0,0,0,0,0,0x0d,0xb8,0x11,0x22,0x33,0x44] }
    let junk := List.replicate 64 (0xA5 : UInt8)
    let dirty := clear (step (step (new 0 0) (.append junk)) (.prepend junk))
    serView (l.serializeTo (serializePayload [0xaa] dirty) true true) =
      .ok { layer := l, err := false,
            bytes := [0x27,0x10,0,0, 0xff,2,0,0,0,0,0,0,0,0,0x0d,0xb8,0x11,0x22,0x33,0x44, 0xaa] } ∧
    serView (l.serializeTo (serializePayload [0xaa] (new 0 0)) false false) =
      .ok { layer := l, err := false,
            bytes := [0x27,0x10,0,0, 0xff,2,0,0,0,0,0,0,0,0,0x0d,0xb8,0x11,0x22,0x33,0x44, 0xaa] } := by
  decide

example : (msgSerSpec { Msg.fresh with maximumResponseDelay := -1 } []).err = true := by decide
example : (msgSerSpec { Msg.fresh with maximumResponseDelay := 65536000000,
                                       multicastAddress := List.replicate 16 0 } []).err = true := by decide
example : (msgSerSpec { Msg.fresh with maximumResponseDelay := 65535999999,
                                       multicastAddress := [224,0,0,251] } [7]).bytes =
    [0xff,0xff,0,0, 0,0,0,0,0,0,0,0,0,0,0xff,0xff,224,0,0,251, 7] := by decide
example : (msgSerSpec { Msg.fresh with multicastAddress := [1,2,3] } []).err = true := by decide

end Gp.C07.Mld
