import Gp.Lemmas.Layers.GreRt
/-
  C07 — "Serialization never panics; output depends only on layer, payload, options": the GRE layer
  (engine `lgre`).  `serializeGre` is SerializeTo of the tree with the proposed fixes lgre-1/2/3,
  written store by store over the serialize-buffer model (Gp.Model.SBuf): bytes of the window that no
  store reaches keep whatever the buffer held.  All theorems quantify over EVERY layer value (no `wf`)
  and over every buffer satisfying the representation invariant of C18 — i.e. every buffer any
  history of Prepend/Append/Clear can produce (`serialize_total_any_history`).
-/
namespace Gp.C07.Gre
open Gp Gp.Gre Gp.SBuf

/-- SerializeTo never panics, for every value of the public fields. -/
theorem serialize_total (l : Layer) (b : SBuf) (opts : Opts) (hb : Gp.C18.Inv b) (k : PanicKind) :
    serializeGre l b opts ≠ .panic k := by
  obtain ⟨b', h, _⟩ := serialize_spec l b opts hb
  rw [h]; intro hk; cases hk

/-- …in the history form: any constructor sizes, any sequence of prepends/appends/clears/pushes. -/
theorem serialize_total_any_history (p a : Nat) (ops : List Op) (l : Layer) (opts : Opts) (k : PanicKind) :
    serializeGre l (run (new p a) ops) opts ≠ .panic k :=
  serialize_total l _ opts (Gp.C18.inv_run_from _ ops (Gp.C18.inv_new' p a)) k

/-- What is written: the call always succeeds (GRE has no error path), every one of the
    `headerSize l` requested bytes is written, and the buffer then holds `encode l' ++ old contents`
    where `l'` is the receiver after the call. -/
theorem serialize_output (l : Layer) (b : SBuf) (opts : Opts) (hb : Gp.C18.Inv b) :
    ∃ b', serializeGre l b opts = .ok (b', mutated l opts (contents b)) ∧ Gp.C18.Inv b' ∧
      contents b' = encode (mutated l opts (contents b)) ++ contents b ∧
      (encode (mutated l opts (contents b))).length = headerSize l := by
  obtain ⟨b', h1, h2, h3⟩ := serialize_spec l b opts hb
  refine ⟨b', h1, h2, h3, ?_⟩
  unfold encode
  rw [mutated_fields, encodeWith_length l _ rfl]

/-- **Buffer independence.**  Two buffers with equal contents — arbitrary capacity, arbitrary stale
    bytes, arbitrary history — give equal output bytes and the same mutated layer. -/
theorem serialize_buffer_independent (l : Layer) (opts : Opts) (b₁ b₂ : SBuf)
    (h₁ : Gp.C18.Inv b₁) (h₂ : Gp.C18.Inv b₂) (hc : contents b₁ = contents b₂) :
    ∃ x₁ x₂ l', serializeGre l b₁ opts = .ok (x₁, l') ∧ serializeGre l b₂ opts = .ok (x₂, l') ∧
      contents x₁ = contents x₂ := by
  obtain ⟨x₁, e₁, _, c₁⟩ := serialize_spec l b₁ opts h₁
  obtain ⟨x₂, e₂, _, c₂⟩ := serialize_spec l b₂ opts h₂
  rw [← hc] at e₂ c₂
  exact ⟨x₁, x₂, _, e₁, e₂, by rw [c₁, c₂]⟩

/-- The output depends on the public fields only: BaseLayer.Contents/Payload of the receiver (set by
    an earlier decode) are not consulted. -/
theorem serialize_ignores_base (l : Layer) (c p : Bytes) (opts : Opts) (b : SBuf) (hb : Gp.C18.Inv b) :
    outBytes (serializeGre { l with contents := c, payload := p } b opts) = outBytes (serializeGre l b opts) := by
  obtain ⟨x₁, e₁, _, c₁⟩ := serialize_spec { l with contents := c, payload := p } b opts hb
  obtain ⟨x₂, e₂, _, c₂⟩ := serialize_spec l b opts hb
  rw [e₁, e₂]
  simp only [outBytes, Option.some.injEq]
  rw [c₁, c₂, encode_mutated_congr { l with contents := c, payload := p } l rfl]

/-- **Idempotence.**  Serializing the (mutated) layer again over the same payload — in the same or any
    other buffer — gives the same bytes and does not change the layer any more. -/
theorem serialize_idempotent (l : Layer) (opts : Opts) (b b₂ : SBuf)
    (hb : Gp.C18.Inv b) (hb₂ : Gp.C18.Inv b₂) (hc : contents b₂ = contents b) :
    ∃ x₁ l₁ x₂, serializeGre l b opts = .ok (x₁, l₁) ∧ serializeGre l₁ b₂ opts = .ok (x₂, l₁) ∧
      contents x₂ = contents x₁ := by
  obtain ⟨x₁, e₁, _, c₁⟩ := serialize_spec l b opts hb
  obtain ⟨x₂, e₂, _, c₂⟩ := serialize_spec (mutated l opts (contents b)) b₂ opts hb₂
  rw [hc, mutated_idem] at e₂ c₂
  exact ⟨x₁, _, x₂, e₁, e₂, by rw [c₁, c₂]⟩

/-- a buffer that held thirty-two 0xA5 bytes and was cleared. -/
def dirty32 : SBuf :=
  SBuf.clear (SBuf.fill (SBuf.prepend (SBuf.new 0 0) 32).1 (SBuf.prepend (SBuf.new 0 0) 32).2 (List.replicate 32 0xA5))

/-- a layer that is NOT well-formed: SRELength 5 with 2 bytes of RoutingInformation, RecursionControl 255. -/
def odd : Layer :=
  { Layer.fresh with
    routingPresent := true, ackPresent := true, recursionControl := 255, ack := 9,
    routing := [⟨1, 2, 5, [0xaa, 0xbb]⟩] }

/- non-vacuity: the hypotheses are met by a dirty and a pre-sized buffer holding the same payload; both
   give the same bytes, the three uncovered bytes of the SRE are zero. -/
set_option maxRecDepth 8000 in
example : Gp.C18.Inv (putPayload dirty32 [7]) ∧ Gp.C18.Inv (putPayload (SBuf.new 3 0) [7]) ∧
    contents (putPayload dirty32 [7]) = contents (putPayload (SBuf.new 3 0) [7]) := by
  unfold Gp.C18.Inv; decide
set_option maxRecDepth 8000 in
example :
    outBytes (serializeGre odd (putPayload dirty32 [7]) ⟨true, true⟩)
      = outBytes (serializeGre odd (putPayload (SBuf.new 3 0) [7]) ⟨true, true⟩)
    ∧ outBytes (serializeGre odd (putPayload dirty32 [7]) ⟨true, true⟩)
        = some [0xff, 0x80, 0, 0, 0, 0, 0, 0, 0, 1, 2, 5, 0xaa, 0xbb, 0, 0, 0, 0, 0, 0, 0, 0, 0, 0, 9, 7] := by
  decide

/-! ### witnesses for the defects of the unpatched code (`Variant.orig`) -/

set_option maxRecDepth 8000 in
/-- ORIGINAL code, routing + ack: the last four requested bytes are never written, so a buffer that
    held other data leaks it into the packet. -/
theorem buffer_independent_orig_counterexample_routing_ack :
    ∃ l b₁ b₂, Gp.C18.Inv b₁ ∧ Gp.C18.Inv b₂ ∧ contents b₁ = contents b₂ ∧
      outBytes (serializeGreV Variant.orig l b₁ ⟨true, true⟩) ≠ outBytes (serializeGreV Variant.orig l b₂ ⟨true, true⟩) :=
  ⟨{ Layer.fresh with routingPresent := true, ackPresent := true, flags := 16, protocol := 0x0800, ack := 0x01020304 },
   dirty32, SBuf.new 0 0, by unfold Gp.C18.Inv; decide, by unfold Gp.C18.Inv; decide, by decide, by decide⟩

set_option maxRecDepth 8000 in
/-- ORIGINAL code, SRELength larger than len(RoutingInformation): the uncovered bytes of the SRE are
    requested and never written. -/
theorem buffer_independent_orig_counterexample_short_info :
    ∃ l b₁ b₂, Gp.C18.Inv b₁ ∧ Gp.C18.Inv b₂ ∧ contents b₁ = contents b₂ ∧
      outBytes (serializeGreV Variant.orig l b₁ ⟨true, true⟩) ≠ outBytes (serializeGreV Variant.orig l b₂ ⟨true, true⟩) :=
  ⟨{ Layer.fresh with routingPresent := true, protocol := 0x0800, routing := [⟨1, 0, 3, [0xaa]⟩] },
   dirty32, SBuf.new 0 0, by unfold Gp.C18.Inv; decide, by unfold Gp.C18.Inv; decide, by decide, by decide⟩

end Gp.C07.Gre
