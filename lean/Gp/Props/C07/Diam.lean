import Gp.Lemmas.Layers.DiamSer
/-
  C07 (engine `ldiam`) — Diameter.SerializeTo is total on every public field value, independent of
  the buffer's past, and idempotent.

  Model: `Gp/Model/Layers/Diam.lean` — `Diameter.serializeTo` written over the C18 buffer model
  (`prepend` hands out a window onto whatever memory the buffer had; `bytes[i] = v`, PutUint32 and
  `copy` are stores through windows with bounds checks; FixLengths mutates the receiver).
  `diamSerSpec` is the pure functional specification; `Gp.C18.Inv` is the representation invariant of
  the serialize buffer, proved in C18 for every buffer reachable from the constructors by any history.
-/
namespace Gp.C07.Diam
open Gp Gp.SBuf Gp.Arp Gp.Diam Gp.C18

/-- `(*Diameter).SerializeTo` never panics: EVERY value of the public fields (Version ≠ 1,
    MessageLength / CommandCode / AVP Length ≥ 2^24, AVP data of any length, VendorID without the
    flag, Length disagreeing with Data, any GroupedAVPs), every option set, every buffer state
    whatsoever (not only buffers satisfying the invariant). -/
theorem serialize_total (l : Diameter) (b : SBuf) (fix csum : Bool) (k : PanicKind) :
    l.serializeTo b fix csum ≠ .panic k := by
  obtain ⟨o, ho⟩ := diam_serializeTo_ok l b fix csum
  rw [ho]; exact fun h => nomatch h

/-- The same for the `Res (SBuf × Layer)` view of the brief. -/
theorem serialize_total_view (l : Diameter) (b : SBuf) (fix csum : Bool) (k : PanicKind) :
    serializeDiam l b fix csum ≠ .panic k := by
  unfold serializeDiam
  have := serialize_total l b fix csum
  split
  · split <;> exact fun h => nomatch h
  · exact fun h => nomatch h
  · rename_i k' hk; exact absurd hk (this k')

/-- Refinement: on every buffer satisfying the invariant the observable outcome is the pure function
    `diamSerSpec` of (layer, payload = current buffer contents, FixLengths): never an error, and
    every one of the `20 + Σ padded AVP length` requested bytes is written — the 20 header bytes by
    the stores, each AVP by a `copy` of a freshly made, zero-padded slice that covers its part of the
    window exactly: nothing of the buffer's past shows through, the padding is zero. -/
theorem serialize_refines (l : Diameter) (b : SBuf) (fix csum : Bool) (h : Inv b) :
    serView (l.serializeTo b fix csum) = .ok (diamSerSpec l (contents b) fix) := diam_serView l b fix csum h

/-- Buffer independence: two buffers with equal contents (= the payload) but arbitrary capacity,
    arbitrary stale bytes before/behind the contents and arbitrary history give the same receiver,
    the same error flag and the same bytes. -/
theorem serialize_buffer_independent (l : Diameter) (b1 b2 : SBuf) (fix csum : Bool)
    (h1 : Inv b1) (h2 : Inv b2) (hc : contents b1 = contents b2) :
    serView (l.serializeTo b1 fix csum) = serView (l.serializeTo b2 fix csum) := by
  rw [serialize_refines l b1 fix csum h1, serialize_refines l b2 fix csum h2, hc]

/-- … stated over histories: any two buffers produced from any constructor hints by any sequences
    of prepend/append/clear/push whose final contents agree. -/
theorem serialize_history_independent (l : Diameter) (p1 a1 p2 a2 : Nat) (ops1 ops2 : List Op)
    (fix csum : Bool) (hc : contents (run (new p1 a1) ops1) = contents (run (new p2 a2) ops2)) :
    serView (l.serializeTo (run (new p1 a1) ops1) fix csum) =
      serView (l.serializeTo (run (new p2 a2) ops2) fix csum) :=
  serialize_buffer_independent l _ _ fix csum (inv_run_from _ ops1 (inv_new' p1 a1))
    (inv_run_from _ ops2 (inv_new' p2 a2)) hc

/-- ComputeChecksums is irrelevant for this layer. -/
theorem serialize_csum_irrelevant (l : Diameter) (b : SBuf) (fix c1 c2 : Bool) :
    l.serializeTo b fix c1 = l.serializeTo b fix c2 := rfl

/-- The output is header ++ AVPs ++ payload; its length is `20 + Σ SerializedAVPLength` plus the
    payload; the receiver afterwards does not depend on the payload or the buffer. -/
theorem serialize_output (l : Diameter) (b : SBuf) (fix csum : Bool) (h : Inv b) :
    ∃ s, serView (l.serializeTo b fix csum) = .ok s ∧ s.err = false ∧ s.layer = diamFixed l fix ∧
      s.bytes = diamHeader (diamFixed l fix) ++ (l.avps.map serializeAVP).flatten ++ contents b ∧
      s.bytes.length = msgLen l + (contents b).length := by
  refine ⟨_, serialize_refines l b fix csum h, rfl, rfl, ?_, ?_⟩
  · simp only [diamSerSpec, diamEncode, diamFixed_avps]
  · simp only [diamSerSpec, diamEncode, diamFixed_avps, List.length_append, diamHeader_length, flatten_length, msgLen]

/-- Idempotence: serialising the (possibly mutated) receiver again over the same payload — in any
    buffer — gives the same bytes, and changes the receiver no further. -/
theorem serialize_idempotent (l : Diameter) (b b' : SBuf) (fix csum : Bool)
    (h : Inv b) (h' : Inv b') (hc : contents b' = contents b) :
    ∃ s, serView (l.serializeTo b fix csum) = .ok s ∧
         serView (s.layer.serializeTo b' fix csum) = .ok s := by
  refine ⟨_, serialize_refines l b fix csum h, ?_⟩
  rw [serialize_refines _ b' fix csum h', hc, diamSerSpec_idem]

/-- Observation (not a C07 violation): the three 24-bit fields are written with `byte(x >> 16)`:
    a MessageLength (without FixLengths), CommandCode or AVP data length ≥ 2^24 is silently cut to
    its low 24 bits — here CommandCode 2^24 + 1 is written as 00 00 01. -/
example : ((diamHeader { Diameter.fresh with version := 1, commandCode := 16777217 }).drop 5).take 3 = [0, 0, 1] := by
  decide

/-! Non-vacuity of the `Inv` hypotheses: a dirty buffer (junk appended and prepended, then cleared)
    and a fresh one both satisfy the invariant and have equal (empty) contents. -/
example : Inv (clear (step (step (new 0 0) (.append [7, 7, 7])) (.prepend [9, 9]))) ∧ Inv (new 0 0) ∧
    contents (clear (step (step (new 0 0) (.append [7, 7, 7])) (.prepend [9, 9]))) = contents (new 0 0) :=
  ⟨inv_run_from _ [.append [7, 7, 7], .prepend [9, 9], .clear] (inv_new' 0 0), inv_new' 0 0, by decide⟩

end Gp.C07.Diam
