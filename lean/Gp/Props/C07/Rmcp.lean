import Gp.Lemmas.Layers.RmcpSer
/-
  C07 (engine `lrmcp`) — RMCP, ASF, AGUEVar0 and MDP serialization never panics; the output depends only
  on the layer's fields, the payload and the options.

  Model: `RMCP.serializeTo`, `ASF.serializeTo`, `AGUE.serializeTo`, `MDP.serializeTo`
  (Gp/Model/Layers/Rmcp.lean, RmcpMdp.lean) transcribe the SerializeTo methods statement by statement OVER
  the C18 buffer model: `PrependBytes` hands out a window onto memory that holds whatever the buffer held
  before (stale bytes of earlier packets, zeros of a fresh allocation), every `PutUint32`, `bytes[i] = …` and
  `copy` is a store through such a window (with Go's bounds checks as `.panic`).

  `serView` is what a caller can observe: the receiver afterwards, the error flag and — when no error was
  returned — `Bytes()`.  `rmcpSerSpec`/`asfSerSpec`/`agueSerSpec`/`mdpSerSpec` (Gp/Lemmas/Layers/RmcpSer.lean)
  are the pure functional specifications; `Gp.C18.Inv` is the representation invariant of the serialize
  buffer, proved in C18 for every buffer reachable from the constructors by any history.
-/
namespace Gp.C07.Rmcp
open Gp Gp.SBuf Gp.Rmcp Gp.C18

/-! ## RMCP -/

/-- `(*RMCP).SerializeTo` never panics: EVERY value of the public fields (also a Class ≥ 16), every option
    set, every buffer state whatsoever (not only buffers satisfying the invariant). -/
theorem serialize_total (l : RMCP) (b : SBuf) (fix csum : Bool) (k : PanicKind) :
    l.serializeTo b fix csum ≠ .panic k := rmcp_serializeTo_no_panic l b fix csum k

/-- The same for the `Res (SBuf × Layer)` view of the brief. -/
theorem serialize_total_view (l : RMCP) (b : SBuf) (fix csum : Bool) (k : PanicKind) :
    serializeRmcp l b fix csum ≠ .panic k := by
  unfold serializeRmcp
  have := rmcp_serializeTo_no_panic l b fix csum
  split
  · split <;> exact fun h => nomatch h
  · exact fun h => nomatch h
  · rename_i k' hk; exact absurd hk (this k')

/-- Refinement: on every buffer satisfying the invariant the observable outcome is the pure function
    `rmcpSerSpec` of (layer, payload = current buffer contents): all four requested bytes are written (the
    reserved byte explicitly as 0), nothing of the buffer's past shows through; the receiver is unchanged. -/
theorem serialize_refines (l : RMCP) (b : SBuf) (fix csum : Bool) (h : Inv b) :
    serView (l.serializeTo b fix csum) = .ok (rmcpSerSpec l (contents b)) := rmcp_serView l b fix csum h

/-- Buffer independence: two buffers with equal contents (= the payload) but arbitrary capacity,
    arbitrary stale bytes before/behind the contents and arbitrary history — and any two option sets —
    give the same receiver, the same error flag and the same bytes. -/
theorem serialize_buffer_independent (l : RMCP) (b1 b2 : SBuf) (fix1 csum1 fix2 csum2 : Bool)
    (h1 : Inv b1) (h2 : Inv b2) (hc : contents b1 = contents b2) :
    serView (l.serializeTo b1 fix1 csum1) = serView (l.serializeTo b2 fix2 csum2) := by
  rw [serialize_refines l b1 fix1 csum1 h1, serialize_refines l b2 fix2 csum2 h2, hc]

/-- … stated over histories: any two buffers produced from any constructor hints by any sequences
    of prepend/append/clear/push whose final contents agree. -/
theorem serialize_history_independent (l : RMCP) (p1 a1 p2 a2 : Nat) (ops1 ops2 : List Op)
    (fix csum : Bool) (hc : contents (run (new p1 a1) ops1) = contents (run (new p2 a2) ops2)) :
    serView (l.serializeTo (run (new p1 a1) ops1) fix csum) =
      serView (l.serializeTo (run (new p2 a2) ops2) fix csum) :=
  serialize_buffer_independent l _ _ fix csum fix csum (inv_run_from _ ops1 (inv_new' p1 a1))
    (inv_run_from _ ops2 (inv_new' p2 a2)) hc

/-- RMCP.SerializeTo never modifies its receiver, so repeating the call gives the same outcome. -/
theorem serialize_idempotent (l : RMCP) (b b' : SBuf) (fix csum : Bool)
    (h : Inv b) (h' : Inv b') (hc : contents b' = contents b) :
    ∃ s, serView (l.serializeTo b fix csum) = .ok s ∧ s.layer = l ∧
         serView (s.layer.serializeTo b' fix csum) = .ok s := by
  refine ⟨_, serialize_refines l b fix csum h, rfl, ?_⟩
  show serView (l.serializeTo b' fix csum) = _
  rw [serialize_refines _ b' fix csum h', hc]

/-! ## ASF -/

theorem serialize_total_asf (l : ASF) (b : SBuf) (fix csum : Bool) (k : PanicKind) :
    l.serializeTo b fix csum ≠ .panic k := asf_serializeTo_no_panic l b fix csum k

theorem serialize_total_asf_view (l : ASF) (b : SBuf) (fix csum : Bool) (k : PanicKind) :
    serializeAsf l b fix csum ≠ .panic k := by
  unfold serializeAsf
  have := asf_serializeTo_no_panic l b fix csum
  split
  · split <;> exact fun h => nomatch h
  · exact fun h => nomatch h
  · rename_i k' hk; exact absurd hk (this k')

/-- Always succeeds; all eight requested bytes are written (the reserved byte as 0); FixLengths stores
    `uint8(len(payload))` in the receiver and writes it — a function of the payload LENGTH only. -/
theorem serialize_refines_asf (l : ASF) (b : SBuf) (fix csum : Bool) (h : Inv b) :
    serView (l.serializeTo b fix csum) = .ok (asfSerSpec l (contents b) fix) := asf_serView l b fix csum h

theorem serialize_buffer_independent_asf (l : ASF) (b1 b2 : SBuf) (fix csum1 csum2 : Bool)
    (h1 : Inv b1) (h2 : Inv b2) (hc : contents b1 = contents b2) :
    serView (l.serializeTo b1 fix csum1) = serView (l.serializeTo b2 fix csum2) := by
  rw [serialize_refines_asf l b1 fix csum1 h1, serialize_refines_asf l b2 fix csum2 h2, hc]

/-- Idempotence: serialising the (possibly mutated) receiver again over the same payload — in any
    buffer — gives the same bytes and changes the receiver no further. -/
theorem serialize_idempotent_asf (l : ASF) (b b' : SBuf) (fix csum : Bool)
    (h : Inv b) (h' : Inv b') (hc : contents b' = contents b) :
    ∃ s, serView (l.serializeTo b fix csum) = .ok s ∧
         serView (s.layer.serializeTo b' fix csum) = .ok s := by
  refine ⟨_, serialize_refines_asf l b fix csum h, ?_⟩
  rw [serialize_refines_asf _ b' fix csum h', hc]
  unfold asfSerSpec
  simp only [asfFixed_idem]

/-! ## AGUEVar0 -/

/-- `AGUEVar0.SerializeTo` never panics: any Version, any number of extension bytes (also > 255), any buffer. -/
theorem serialize_total_ague (l : AGUE) (b : SBuf) (fix csum : Bool) (k : PanicKind) :
    l.serializeTo b fix csum ≠ .panic k := ague_serializeTo_no_panic l b fix csum k

theorem serialize_total_ague_view (l : AGUE) (b : SBuf) (fix csum : Bool) (k : PanicKind) :
    serializeAgue l b fix csum ≠ .panic k := by
  unfold serializeAgue
  have := ague_serializeTo_no_panic l b fix csum
  split
  · split <;> exact fun h => nomatch h
  · exact fun h => nomatch h
  · rename_i k' hk; exact absurd hk (this k')

/-- Always succeeds; the `4 + |Extensions|` requested bytes are exactly `LayerContents()` (built in a fresh
    array and copied in full). -/
theorem serialize_refines_ague (l : AGUE) (b : SBuf) (fix csum : Bool) (h : Inv b) :
    serView (l.serializeTo b fix csum) = .ok (agueSerSpec l (contents b)) := ague_serView l b fix csum h

theorem serialize_buffer_independent_ague (l : AGUE) (b1 b2 : SBuf) (fix1 csum1 fix2 csum2 : Bool)
    (h1 : Inv b1) (h2 : Inv b2) (hc : contents b1 = contents b2) :
    serView (l.serializeTo b1 fix1 csum1) = serView (l.serializeTo b2 fix2 csum2) := by
  rw [serialize_refines_ague l b1 fix1 csum1 h1, serialize_refines_ague l b2 fix2 csum2 h2, hc]

theorem serialize_idempotent_ague (l : AGUE) (b b' : SBuf) (fix csum : Bool)
    (h : Inv b) (h' : Inv b') (hc : contents b' = contents b) :
    ∃ s, serView (l.serializeTo b fix csum) = .ok s ∧ s.layer = l ∧
         serView (s.layer.serializeTo b' fix csum) = .ok s := by
  refine ⟨_, serialize_refines_ague l b fix csum h, rfl, ?_⟩
  show serView (l.serializeTo b' fix csum) = _
  rw [serialize_refines_ague _ b' fix csum h', hc]

/-! ## MDP -/

/-- `MDP.SerializeTo` is an empty function: it cannot panic, requests no bytes, leaves buffer and receiver as
    they are and returns nil (so it is trivially buffer-independent and idempotent — and writes no MDP frame:
    see C06). -/
theorem serialize_total_mdp (l : MDP) (b : SBuf) (fix csum : Bool) (k : PanicKind) :
    l.serializeTo b fix csum ≠ .panic k := mdp_serializeTo_no_panic l b fix csum k

theorem serialize_refines_mdp (l : MDP) (b : SBuf) (fix csum : Bool) :
    serView (l.serializeTo b fix csum) = .ok (mdpSerSpec l (contents b)) := mdp_serView l b fix csum

theorem serialize_buffer_independent_mdp (l : MDP) (b1 b2 : SBuf) (fix1 csum1 fix2 csum2 : Bool)
    (hc : contents b1 = contents b2) :
    serView (l.serializeTo b1 fix1 csum1) = serView (l.serializeTo b2 fix2 csum2) := by
  rw [serialize_refines_mdp, serialize_refines_mdp, hc]

/-! ## Non-vacuity -/

set_option maxRecDepth 8000 in
/-- A dirty, pre-sized buffer holding a 3-byte payload: stale 0xA5 bytes around the contents; every requested
    byte is written; ASF's Length 99 is repaired by FixLengths and goes out as it is without. -/
example :
    let junk : List UInt8 := List.replicate 70 0xA5
    let b := step (clear (step (step (new 3 1) (.append junk)) (.prepend junk))) (.prepend [0xDE, 0xAD, 0xBF])
    let a : ASF := { ASF.fresh with enterprise := 4542, typ := 0x80, tag := 7, length := 99 }
    contents b = [0xDE, 0xAD, 0xBF] ∧
    serView (a.serializeTo b true false) =
      .ok { layer := { a with length := 3 }, err := false, bytes := [0,0,0x11,0xbe,0x80,7,0,3, 0xDE,0xAD,0xBF] } ∧
    serView (a.serializeTo b false false) =
      .ok { layer := a, err := false, bytes := [0,0,0x11,0xbe,0x80,7,0,99, 0xDE,0xAD,0xBF] } ∧
    serView (({ RMCP.fresh with version := 6, sequence := 255, ack := true, cls := 6 } : RMCP).serializeTo b true true) =
      .ok { layer := { RMCP.fresh with version := 6, sequence := 255, ack := true, cls := 6 }, err := false,
            bytes := [6,0,0xff,0x86, 0xDE,0xAD,0xBF] } := by
  decide

/-- Out-of-range values are written as they fall (no error, no panic): RMCP Class 0x90 sets the Ack bit;
    AGUEVar0 Version 5 loses its high bit, 33 extension bytes announce "1" and set the C bit. -/
example :
    serView (({ RMCP.fresh with cls := 0x90 } : RMCP).serializeTo (new 0 0) false false) =
      .ok { layer := { RMCP.fresh with cls := 0x90 }, err := false, bytes := [0,0,0,0x90] } ∧
    (({ AGUE.fresh with version := 5 } : AGUE).layerContents) = [0x40, 0, 0, 0] ∧
    (({ AGUE.fresh with extensions := List.replicate 33 7 } : AGUE).layerContents).take 4 = [0x21, 0, 0, 0] := by
  decide

end Gp.C07.Rmcp
