import Gp.Lemmas.Layers.Ip4Ser3
/-
  C07 (serialization never panics; output depends only on layer, payload, options) — layer
  IPv4 (layers/ip4.go, engine `lip4`), for the tree with fixes lip4-2 … lip4-5.
  `serializeIp4 l b fix csum` is IPv4.SerializeTo on the serialize-buffer model of C18:
  `b` already holds the payload; buffers range over every state satisfying the representation
  invariant `C18.Inv` (all states reachable from NewSerializeBuffer[ExpectedSize] by any
  history of prepends, appends, stores and clears — `C18.inv_run`).  The behaviour of the
  UNPATCHED code (`Orig.serializeIp4`) is refuted by the counterexample theorems below.
-/
namespace Gp.C07.Ip4
open Gp Gp.Ip4 Gp.SBuf

/-- SerializeTo returns bytes or an error and never panics, for EVERY value of the public
    fields (not only well-formed ones), every buffer state, all four option combinations. -/
theorem serialize_total (l : Layer) (b : SBuf) (fix csum : Bool) (hb : C18.Inv b) (k : PanicKind) :
    serializeIp4 l b fix csum ≠ .panic k := by
  by_cases ha : accepts l
  · obtain ⟨b', h, -⟩ := serialize_accepts l b fix csum hb ha
    rw [h]; intro hh; cases hh
  · obtain ⟨e, h⟩ := serialize_rejects l b fix csum hb ha
    rw [h]; intro hh; cases hh

/-- The same, quantified over buffer histories instead of the invariant. -/
theorem serialize_total_history (l : Layer) (p a : Nat) (ops : List Op) (fix csum : Bool) (k : PanicKind) :
    serializeIp4 l (run (new p a) ops) fix csum ≠ .panic k :=
  serialize_total l _ fix csum (C18.inv_run_from _ ops (C18.inv_new' p a)) k

/-- Errors are exactly the layers outside `accepts` (options longer than 40 bytes, an address
    that is not IPv4, an option shorter than 2 or shorter than its data). -/
theorem serialize_error_iff (l : Layer) (b : SBuf) (fix csum : Bool) (hb : C18.Inv b) :
    (∃ e, serializeIp4 l b fix csum = .err e) ↔ ¬ accepts l := by
  constructor
  · rintro ⟨e, he⟩ ha
    obtain ⟨b', h, -⟩ := serialize_accepts l b fix csum hb ha
    rw [h] at he; cases he
  · exact serialize_rejects l b fix csum hb

/-- Two buffers with equal contents — arbitrary capacity, stale bytes, history — give the same
    outcome: the same output bytes and the same mutated layer, or both an error. -/
theorem serialize_buffer_independent (l : Layer) (b1 b2 : SBuf) (fix csum : Bool)
    (h1 : C18.Inv b1) (h2 : C18.Inv b2) (hc : contents b1 = contents b2) :
    serOut (serializeIp4 l b1 fix csum) = serOut (serializeIp4 l b2 fix csum) := by
  by_cases ha : accepts l
  · obtain ⟨b1', e1, c1, -⟩ := serialize_accepts l b1 fix csum h1 ha
    obtain ⟨b2', e2, c2, -⟩ := serialize_accepts l b2 fix csum h2 ha
    rw [e1, e2]; simp only [serOut]; rw [c1, c2, hc]
  · obtain ⟨e1, e1h⟩ := serialize_rejects l b1 fix csum h1 ha
    obtain ⟨e2, e2h⟩ := serialize_rejects l b2 fix csum h2 ha
    rw [e1h, e2h]; rfl

/-- The output is the closed-form header followed by the untouched payload: every requested
    byte is written (no byte of the result comes from the buffer's previous life). -/
theorem serialize_output (l : Layer) (b b' : SBuf) (l' : Layer) (fix csum : Bool) (hb : C18.Inv b)
    (h : serializeIp4 l b fix csum = .ok (b', l')) :
    contents b' = hdrBytes l' ++ contents b ∧ C18.Inv b' ∧
      l' = finalLayer l (contents b).length fix csum (src4 l) (dst4 l) := by
  by_cases ha : accepts l
  · obtain ⟨b'', e, c, i⟩ := serialize_accepts l b fix csum hb ha
    rw [e] at h; cases h; exact ⟨c, i, rfl⟩
  · obtain ⟨e, he⟩ := serialize_rejects l b fix csum hb ha
    rw [he] at h; cases h

/-- Serialising the (mutated) layer again over the same payload — in any buffer with those
    contents — succeeds, leaves the layer unchanged and gives the same bytes. -/
theorem serialize_idempotent (l : Layer) (b b' : SBuf) (l' : Layer) (fix csum : Bool) (hb : C18.Inv b)
    (h : serializeIp4 l b fix csum = .ok (b', l')) (b2 : SBuf) (h2 : C18.Inv b2) (hc : contents b2 = contents b) :
    ∃ b2', serializeIp4 l' b2 fix csum = .ok (b2', l') ∧ contents b2' = contents b' := by
  by_cases ha : accepts l
  · obtain ⟨b'', e, c, -⟩ := serialize_accepts l b fix csum hb ha
    rw [e] at h; cases h
    obtain ⟨ha', hs', hd'⟩ := accepts_final l (contents b).length fix csum ha
    obtain ⟨b2', e2, c2, -⟩ := serialize_accepts _ b2 fix csum h2 ha'
    rw [hs', hd', hc, finalLayer_idem] at e2 c2
    exact ⟨b2', e2, by rw [c2, c]⟩
  · obtain ⟨e, he⟩ := serialize_rejects l b fix csum hb ha
    rw [he] at h; cases h

/-! ### Non-vacuity -/

/-- An accepted layer with options whose size is not a multiple of four, padding, a 16-byte
    IPv4-mapped source address, serialised into a dirty buffer. -/
example : (serializeIp4 { version := 4, ttl := 9, protocol := 17, srcIP := [0, 0, 0, 0, 0, 0, 0, 0, 0, 0, 255, 255, 10, 0, 0, 1], dstIP := [10, 0, 0, 2], options := [⟨1, 1, []⟩, ⟨7, 6, [1]⟩, ⟨0, 1, []⟩], padding := [9] }
    (clear (step (new 0 0) (.prepend [0xa5, 0xa5, 0xa5, 0xa5, 0xa5, 0xa5, 0xa5, 0xa5])))
    true true).isOk = true := by decide

/-! ### The unpatched code violates each clause (machine-checked witnesses) -/

/-- uint8 option-size wrap (fixed by lip4-3): one option with OptionLength 255 makes
    getIPv4OptionSize return 0 and `bytes[20] = …` panics. -/
theorem serialize_total_counterexample_unpatched_wrap :
    Orig.serializeIp4 { srcIP := [1, 2, 3, 4], dstIP := [5, 6, 7, 8], options := [⟨7, 255, []⟩] }
      (new 0 0) true true = .panic .index := by decide

/-- option shorter than its two header octets (fixed by lip4-5): stored before the length
    check, so the store is out of range. -/
theorem serialize_total_counterexample_unpatched_short :
    Orig.serializeIp4 { srcIP := [1, 2, 3, 4], dstIP := [5, 6, 7, 8], options := [⟨9, 0, []⟩] }
      (new 0 0) true true = .panic .index := by decide

/-- alignment bytes are requested but never written (fixed by lip4-2): a fresh and a dirty
    buffer with the same (empty) contents give different packets. -/
theorem serialize_buffer_independent_counterexample_unpatched :
    serOut (Orig.serializeIp4 { version := 4, srcIP := [1, 2, 3, 4], dstIP := [5, 6, 7, 8], options := [⟨1, 1, []⟩] }
      (new 0 0) true true) ≠
    serOut (Orig.serializeIp4 { version := 4, srcIP := [1, 2, 3, 4], dstIP := [5, 6, 7, 8], options := [⟨1, 1, []⟩] }
      (clear (step (new 0 0) (.prepend (List.replicate 24 0xa5)))) true true) := by decide

end Gp.C07.Ip4
