import Gp.Model.Layers.Ip6Ser
namespace Gp.C07.Ip6
open Gp Gp.Ip6
end Gp.C07.Ip6
