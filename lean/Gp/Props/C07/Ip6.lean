import Gp.Lemmas.Layers.Ip6Idem
/-
  C07 (layer part `lip6`) — SerializeTo of the ip6.go layers never panics; the bytes depend only on
  the layer, the payload (= buffer contents) and FixLengths; repeating gives the same bytes.
  (ComputeChecksums is not read by any of these serializers: the model has no such parameter.)

  Buffers are quantified through the C18 model: ANY `b` with the representation invariant `Inv`
  (every buffer reachable from a constructor by any history of prepends/appends/clears, theorem
  `Gp.C18.inv_run`), so capacity, stale bytes and clear history are arbitrary.
  `BufEq b1 b2` = both invariant, equal contents, equal recorded layers.
  `SameOut r1 r2` = both fail with the same error, or both succeed with `BufEq` buffers and equal
  mutated layers.

  Model of the code WITH fixes lip6-3 (SetJumboLength on short OptionData no longer panics) and
  lip6-7; unfixed code: monitor `lip6:ser-panic:layers/ip6.go:546`.

  Known finding (kept as `_full` + `_counterexample` + `_partial`): a hop-by-hop/destination option
  whose OptionLength exceeds len(OptionData) serialised WITHOUT FixLengths, and a routing header
  with < 4 Reserved bytes or an address of a length other than 4/16, leave requested bytes
  unwritten (stale buffer bytes leak).  No decoder produces such layers.
-/
namespace Gp.C07.Ip6
open Gp Gp.Ip6 Gp.SBuf Gp.C18

/-! ## 1. serialize_total: no panic for EVERY value of the public fields -/

theorem serialize_total (l : IPv6) (b : SBuf) (fix : Bool) (h : Inv b) (k : PanicKind) :
    serializeIPv6 l b fix ≠ .panic k := serializeIPv6_ne_panic l b fix h k

theorem serialize_ext_total (e : TlvExt) (b : SBuf) (fix : Bool) (h : Inv b) (k : PanicKind) :
    serializeTlvExt e b fix ≠ .panic k := serializeTlvExt_ne_panic e b fix h k

theorem serialize_routing_total (r : Routing) (b : SBuf) (h : Inv b) (k : PanicKind) :
    serializeRouting r b ≠ .panic k := serializeRouting_ne_panic r b h k

theorem serialize_fragment_total (f : Fragment) (b : SBuf) (h : Inv b) (k : PanicKind) :
    serializeFragment f b ≠ .panic k := by
  rw [serializeFragment_eq f b h]; simp

/-- Non-vacuity: an invariant buffer holding a payload after a dirty history. -/
example : Inv (step (clear (step (new 0 0) (.prepend [9, 9, 9, 9]))) (.prepend [1, 2, 3])) :=
  inv_step' _ _ (inv_clear' _ (inv_step' _ _ (inv_new' 0 0)))

/-! ## 2. serialize_buffer_independent -/

/-- IPv6Fragment: full strength. -/
theorem serialize_fragment_buffer_independent (f : Fragment) (b1 b2 : SBuf) (h : BufEq b1 b2) :
    SameBuf (serializeFragment f b1) (serializeFragment f b2) := by
  rw [serializeFragment_eq f b1 h.1, serializeFragment_eq f b2 h.2.1]
  exact bufEq_prepend _ _ _ h

/-- Full statement for the TLV extension headers (FALSE for the code, see the counterexample). -/
def serialize_ext_buffer_independent_full : Prop :=
  ∀ (e : TlvExt) (b1 b2 : SBuf) (fix : Bool), BufEq b1 b2 →
    SameOut (serializeTlvExt e b1 fix) (serializeTlvExt e b2 fix)

/-- Proved part: every option's data is at least as long as its length field (`GapFree`: always
    the case with FixLengths and for every decoded option) and alignments are uint8. -/
theorem serialize_ext_buffer_independent_partial (e : TlvExt) (b1 b2 : SBuf) (fix : Bool)
    (h : BufEq b1 b2) (hg : GapFree fix e.options) (hr : AlignInRange e.options) :
    SameOut (serializeTlvExt e b1 fix) (serializeTlvExt e b2 fix) :=
  serializeTlvExt_sameOut e b1 b2 fix h hg hr

/-- With FixLengths the gap-freeness hypothesis is automatic. -/
theorem gapFree_of_fix (os : List Tlv) : GapFree true os := by
  intro o _ ht
  unfold fixOpt
  rw [if_neg ht]
  exact Nat.mod_le _ _

def leakOpt : Tlv := { typ := 5, len := 4, alen := 6, data := some [1], ax := 0, ay := 0 }
def leakExt : TlvExt := { base := { ExtBase.zero with nextHeader := 59 }, options := [leakOpt] }
def dirtyBuf : SBuf := clear (step (new 0 0) (.prepend [9, 9, 9, 9, 9, 9, 9, 9, 9, 9]))

theorem serialize_ext_buffer_independent_counterexample : ¬ serialize_ext_buffer_independent_full := by
  intro h
  have hb : BufEq (new 0 0) dirtyBuf :=
    ⟨inv_new' 0 0, inv_clear' _ (inv_step' _ _ (inv_new' 0 0)), by decide, by decide⟩
  have := h leakExt (new 0 0) dirtyBuf false hb
  have e1 : serializeTlvExt leakExt (new 0 0) false =
      .ok (step (step (new 0 0) (.prepend [5, 4, 1, 0, 0, 0])) (.prepend [59, 0]), leakExt) := by decide
  have e2 : serializeTlvExt leakExt dirtyBuf false =
      .ok (step (step dirtyBuf (.prepend [5, 4, 1, 9, 9, 9])) (.prepend [59, 0]), leakExt) := by decide
  rw [e1, e2] at this
  have hc := this.1.2.2.1
  revert hc
  decide

/-- IPv6Routing: full statement (FALSE), counterexample, proved part. -/
def serialize_routing_buffer_independent_full : Prop :=
  ∀ (r : Routing) (b1 b2 : SBuf), BufEq b1 b2 → SameBuf (serializeRouting r b1) (serializeRouting r b2)

theorem serialize_routing_buffer_independent_partial (r : Routing) (b1 b2 : SBuf) (h : BufEq b1 b2)
    (hc : RoutingConsistent r) : SameBuf (serializeRouting r b1) (serializeRouting r b2) := by
  rw [serializeRouting_closed r b1 h.1 hc, serializeRouting_closed r b2 h.2.1 hc]
  exact bufEq_prepend _ _ _ h

def leakRouting : Routing :=
  { base := { ExtBase.zero with nextHeader := 59 }, routingType := 0, segmentsLeft := 0, reserved := [],
    sourceRoutingIPs := [] }

theorem serialize_routing_buffer_independent_counterexample :
    ¬ serialize_routing_buffer_independent_full := by
  intro h
  have hb : BufEq (new 0 0) dirtyBuf :=
    ⟨inv_new' 0 0, inv_clear' _ (inv_step' _ _ (inv_new' 0 0)), by decide, by decide⟩
  have := h leakRouting (new 0 0) dirtyBuf hb
  have e1 : serializeRouting leakRouting (new 0 0) =
      .ok (step (new 0 0) (.prepend [59, 0, 0, 0, 0, 0, 0, 0])) := by decide
  have e2 : serializeRouting leakRouting dirtyBuf =
      .ok (step dirtyBuf (.prepend [59, 0, 0, 0, 9, 9, 9, 9])) := by decide
  rw [e1, e2] at this
  have hc := this.2.2.1
  revert hc
  decide

/-- Full statement for IPv6 (false through its hop-by-hop header only). -/
def serialize_buffer_independent_full : Prop :=
  ∀ (l : IPv6) (b1 b2 : SBuf) (fix : Bool), BufEq b1 b2 →
    SameOut (serializeIPv6 l b1 fix) (serializeIPv6 l b2 fix)

/-- IPv6 (with jumbogram handling and embedded hop-by-hop header): outcome, bytes and mutated layer
    are the same for any two indistinguishable buffers, provided the hop-by-hop options are
    gap-free (always with FixLengths, always for decoded layers). -/
theorem serialize_buffer_independent_partial (l : IPv6) (b1 b2 : SBuf) (fix : Bool) (h : BufEq b1 b2)
    (hc : l.Consistent fix) : SameOut (serializeIPv6 l b1 fix) (serializeIPv6 l b2 fix) :=
  serializeIPv6_sameOut l b1 b2 fix h hc

/-- Non-vacuity: a consistent layer with a hop-by-hop header and two different but
    indistinguishable buffers. -/
example : (({ IPv6.zero with hopByHop := some { base := ExtBase.zero, options := [pad1] } } : IPv6).Consistent true) ∧
    BufEq (new 0 0) dirtyBuf ∧ new 0 0 ≠ dirtyBuf :=
  ⟨⟨gapFree_of_fix _, by intro o ho; simp at ho; subst ho; decide⟩,
   ⟨inv_new' 0 0, inv_clear' _ (inv_step' _ _ (inv_new' 0 0)), by decide, by decide⟩, by decide⟩

/-! ## 3. serialize_idempotent -/

/-- Extension headers: serialising the mutated layer again over the same payload is the same
    computation, hence gives the same bytes and the same layer (a fixpoint after one call). -/
theorem serialize_ext_idempotent (e e1 : TlvExt) (b b1 : SBuf) (fix : Bool) (h : Inv b)
    (hs : serializeTlvExt e b fix = .ok (b1, e1)) : serializeTlvExt e1 b fix = .ok (b1, e1) := by
  obtain ⟨out, -, -, heq⟩ := serializeTlvExt_eq e b fix h
  have he1 : e1 = fixExt fix e := by
    rw [heq] at hs
    split at hs
    · cases hs
    · simp only [Res.ok.injEq, Prod.mk.injEq] at hs; exact hs.2.symm
  rw [he1, serializeTlvExt_fixExt e b fix h, hs, he1]

/- IPv6Routing / IPv6Fragment are not mutated by SerializeTo and their output is a function of
   (layer, buffer) alone: repeating the call is literally the same computation. -/

end Gp.C07.Ip6
