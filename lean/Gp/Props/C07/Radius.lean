import Gp.Lemmas.Layers.RadiusSer
/-
  C07 (engine `lradius`) — RADIUS serialization never panics; the output depends only on the layer's
  fields, the bytes already in the buffer and the options.

  Model: `RADIUS.serializeTo` (Gp/Model/Layers/Radius.lean) transcribes SerializeTo, Len and
  attributeValueLength statement by statement OVER the C18 buffer model: `PrependBytes` hands out a
  window onto memory that holds whatever the buffer held before (stale bytes of earlier packets, zeros
  of a fresh allocation), every `PutUint16`, `data[i] = …` and `copy` is a store through such a window
  (with Go's bounds checks as `.panic`; `copy` stops at the end of the shorter operand).  The window is
  NOT cleared by SerializeTo: the refinement proof shows that the 20 + Σ(len(Value)+2) requested
  bytes are all written, front to back.

  The theorems quantify over the variant `v` of the source (`.orig` = pinned, `.fixed` = with
  proposed_fixes/lradius-2): the property holds for both; the patch concerns C06.
  `l.typed` is the Go type invariant `len(Authenticator) = 16` (a `[16]byte` kept as a list).

  `serView` is what a caller can observe: the receiver afterwards, the error flag and — when no error
  was returned — `Bytes()`.  `serSpec` (Gp/Lemmas/Layers/RadiusSer.lean) is the pure functional
  specification; `Gp.C18.Inv` is the representation invariant of the serialize buffer, proved in C18
  for every buffer reachable from the constructors by any history.
-/
namespace Gp.C07.Radius
open Gp Gp.SBuf Gp.Radius Gp.C18

/-- `(*RADIUS).SerializeTo` never panics: EVERY value of the public fields (any Code/Identifier/Length,
    attributes whose Length disagrees with Value, empty values, values of 254, 255, 300 bytes, attribute
    lists beyond 4096 and beyond 65535 bytes), every option set, every buffer state whatsoever (not only
    buffers satisfying the invariant), with or without the type invariant on Authenticator. -/
theorem serialize_total (v : Variant) (l : RADIUS) (b : SBuf) (fix csum : Bool) (k : PanicKind) :
    l.serializeTo v b fix csum ≠ .panic k := by
  obtain ⟨o, ho⟩ := serializeTo_ok v l b fix csum
  rw [ho]; exact fun h => nomatch h

/-- The same for the `Res (SBuf × Layer)` view of the brief. -/
theorem serialize_total_view (l : RADIUS) (b : SBuf) (fix csum : Bool) (k : PanicKind) :
    serializeRadius l b fix csum ≠ .panic k := by
  unfold serializeRadius
  obtain ⟨o, ho⟩ := serializeTo_ok .fixed l b fix csum
  rw [ho]
  simp only
  split <;> exact fun h => nomatch h

/-- Refinement: on every buffer satisfying the invariant the observable outcome is the pure function
    `serSpec` of (layer, current buffer contents, FixLengths).  In particular every one of the
    `20 + attrsWidth` requested bytes is determined: nothing of the buffer's past shows through. -/
theorem serialize_refines (v : Variant) (l : RADIUS) (b : SBuf) (fix csum : Bool) (h : Inv b) (ht : l.typed) :
    serView (l.serializeTo v b fix csum) = .ok (serSpec v l (contents b) fix) := radius_serView v l b fix csum h ht

/-- … and the buffer still satisfies its invariant afterwards. -/
theorem serialize_keeps_inv (v : Variant) (l : RADIUS) (b : SBuf) (fix csum : Bool) (h : Inv b) (ht : l.typed)
    (o : SerOut RADIUS) (ho : l.serializeTo v b fix csum = .ok o) (he : o.err = false) : Inv o.buf := by
  obtain ⟨o', ho', -, e', hb⟩ := serializeTo_refines v l b fix csum h ht
  rw [ho] at ho'; cases ho'
  exact (hb (by rw [← e']; exact he)).1

/-- Buffer independence: two buffers with equal contents but arbitrary capacity, arbitrary stale bytes
    before/behind the contents and arbitrary history give the same receiver, the same error flag and
    the same bytes. -/
theorem serialize_buffer_independent (v : Variant) (l : RADIUS) (b1 b2 : SBuf) (fix csum : Bool)
    (h1 : Inv b1) (h2 : Inv b2) (hc : contents b1 = contents b2) (ht : l.typed) :
    serView (l.serializeTo v b1 fix csum) = serView (l.serializeTo v b2 fix csum) := by
  rw [serialize_refines v l b1 fix csum h1 ht, serialize_refines v l b2 fix csum h2 ht, hc]

/-- … stated over histories: any two buffers produced from any constructor hints by any sequences
    of prepend/append/clear/push whose final contents agree. -/
theorem serialize_history_independent (v : Variant) (l : RADIUS) (p1 a1 p2 a2 : Nat) (ops1 ops2 : List Op)
    (fix csum : Bool) (ht : l.typed) (hc : contents (run (new p1 a1) ops1) = contents (run (new p2 a2) ops2)) :
    serView (l.serializeTo v (run (new p1 a1) ops1) fix csum) =
      serView (l.serializeTo v (run (new p2 a2) ops2) fix csum) :=
  serialize_buffer_independent v l _ _ fix csum (inv_run_from _ ops1 (inv_new' p1 a1))
    (inv_run_from _ ops2 (inv_new' p2 a2)) hc ht

/-- ComputeChecksums is irrelevant for this layer. -/
theorem serialize_csum_irrelevant (v : Variant) (l : RADIUS) (b : SBuf) (fix c1 c2 : Bool) :
    l.serializeTo v b fix c1 = l.serializeTo v b fix c2 := rfl

/-- When SerializeTo returns an error: exactly when some attribute value is longer than
    `attributeValueLength` accepts (253 bytes with lradius-2, 255 in the pinned source) — with or
    without FixLengths, because `Len()` is called first. -/
theorem serialize_error_iff (v : Variant) (l : RADIUS) (p : Bytes) (fix : Bool) :
    (serSpec v l p fix).err = true ↔ ¬ valsOk v l.attributes := by
  unfold serSpec
  by_cases hv : valsOk v l.attributes
  · simp [hv]
  · simp [hv]

/-- The bytes, spelled out: Code, Identifier, Length (big endian), the 16 authenticator bytes, then
    Type / Length octet / Value of each attribute in order, then what the buffer held; `20 + attrsWidth`
    bytes in front, of any size (no 4096 / 65535 limit in SerializeTo: Length wraps in uint16). -/
theorem serialize_output (v : Variant) (l : RADIUS) (b : SBuf) (fix csum : Bool) (h : Inv b) (ht : l.typed)
    (hv : valsOk v l.attributes) :
    serView (l.serializeTo v b fix csum) =
      .ok { layer := radiusFixed l (20 + attrsWidth l.attributes) fix, err := false,
            bytes := radiusEncode v fix (radiusFixed l (20 + attrsWidth l.attributes) fix) ++ contents b } ∧
    (radiusEncode v fix (radiusFixed l (20 + attrsWidth l.attributes) fix)).length = 20 + attrsWidth l.attributes := by
  constructor
  · rw [serialize_refines v l b fix csum h ht]
    unfold serSpec
    simp only [hv, if_true]
  · unfold radiusEncode
    obtain ⟨fa, -, -, fau, -, -⟩ := radiusFixed_fields l (20 + attrsWidth l.attributes) fix
    have ha : (radiusFixed l (20 + attrsWidth l.attributes) fix).authenticator.length = 16 := by rw [fau]; exact ht
    simp [hdrBytes, attrsBytes_length, fa, putBe16_length, ha]
    omega

/-- `Len()` agrees with the number of bytes written. -/
theorem len_agrees (v : Variant) (l : RADIUS) (hv : valsOk v l.attributes) :
    l.len v = some (20 + attrsWidth l.attributes) := len_ok v l hv

/-- Without FixLengths the receiver is not touched; with it only `Length` is (the attributes' own
    Length fields are written from a copy). -/
theorem serialize_receiver (v : Variant) (l : RADIUS) (p : Bytes) (fix : Bool) :
    (serSpec v l p false).layer = l ∧ (serSpec v l p fix).layer.attributes = l.attributes := by
  unfold serSpec
  by_cases hv : valsOk v l.attributes
  · simp only [hv, if_true]
    refine ⟨?_, (radiusFixed_fields l _ fix).1⟩
    first | trivial | rfl
  · simp only [hv, if_false]
    refine ⟨?_, ?_⟩ <;> first | trivial | rfl

/-- Idempotence: serialising the (possibly mutated) receiver again over the same buffer contents — in
    any buffer — gives the same error flag, the same bytes, and changes the receiver no further. -/
theorem serialize_idempotent (v : Variant) (l : RADIUS) (b b' : SBuf) (fix csum : Bool)
    (h : Inv b) (h' : Inv b') (hc : contents b' = contents b) (ht : l.typed) :
    ∃ s, serView (l.serializeTo v b fix csum) = .ok s ∧
         serView (s.layer.serializeTo v b' fix csum) = .ok s := by
  refine ⟨_, serialize_refines v l b fix csum h ht, ?_⟩
  have ht' : (serSpec v l (contents b) fix).layer.typed := by
    unfold serSpec RADIUS.typed
    by_cases hv : valsOk v l.attributes
    · simp only [hv, if_true]; rw [(radiusFixed_fields l _ fix).2.2.2.1]; exact ht
    · simp only [hv, if_false]; exact ht
  rw [serialize_refines v _ b' fix csum h' ht', hc, serSpec_idem]

/-! ### Non-vacuity -/

/-- a realistic layer built through public fields; the Length fields are left zero for FixLengths -/
def sample : RADIUS :=
  { RADIUS.fresh with
      code := 1
      identifier := 7
      authenticator := List.replicate 16 0xa7
      attributes := [{ typ := 1, length := 0, value := [0x61, 0x6c, 0x69, 0x63, 0x65] },
                     { typ := 4, length := 0, value := [10, 0, 0, 1] }] }

/-- a value of 254 bytes: an error, not a panic -/
def tooLong : RADIUS := { sample with attributes := [{ typ := 26, length := 0, value := List.replicate 254 0 }] }

example : sample.typed ∧ valsOk .fixed sample.attributes ∧ 20 + attrsWidth sample.attributes = 33 := by decide
set_option maxRecDepth 100000 in
example : ¬ valsOk .fixed tooLong.attributes ∧ valsOk .orig tooLong.attributes := by decide
example : (serSpec .fixed sample [0xde, 0xad] true).bytes.length = 35 ∧ (serSpec .fixed sample [] true).layer.length = 33 := by decide
example : (serSpec .fixed sample [] true).bytes.drop 20 = [1, 7, 0x61, 0x6c, 0x69, 0x63, 0x65, 4, 6, 10, 0, 0, 1] := by decide
set_option maxRecDepth 100000 in
example : serView (sample.serializeTo .fixed dirtyBuf true true) = serView (sample.serializeTo .fixed (new 0 0) true true) :=
  serialize_buffer_independent .fixed sample _ _ true true dirtyBuf_inv (inv_new' 0 0) (by decide) (by decide)

end Gp.C07.Radius
