import Gp.Lemmas.Layers.IcmpDefects
/-
  C07 for layers/icmp4.go, icmp6.go, icmp6msg.go (engine `licmp`), over the C18 buffer model:
  for EVERY value of the public fields of the eight layers (any option list, any option data
  length, any address length, any TypeBytes, any numbers), every payload already in the buffer,
  all four {FixLengths, ComputeChecksums} and every buffer `b` satisfying the C18 representation
  invariant `Inv` (that is: every buffer reachable from NewSerializeBuffer[ExpectedSize] by any
  history of Prepend/Append/Clear with any stale bytes and any capacity — `Gp.C18.inv_run`):

    * `serialize_total`               SerializeTo returns bytes or an error, never panics;
    * `serialize_buffer_independent`  the outcome (error or bytes + mutated layer) is a function
                                      of layer, payload and options only: two buffers with equal
                                      contents give equal outcomes, whatever else they hold;
    * `serialize_idempotent`          serialising the (mutated) layer again over the same payload
                                      gives the same bytes and leaves the layer unchanged.

  `AnyLayer` ranges over the eight layer types, so each theorem is eight theorems.  The model is
  the tree with proposed_fixes/licmp-1 and licmp-3 applied: before licmp-3 the NDP serializers
  `copy` a short TargetAddress/DestinationAddress into the header and leave the remaining
  requested bytes unwritten — `Gp.Icmp.buffer_independent_counterexample_prefix` (in
  Gp/Lemmas/Layers/IcmpDefects.lean) exhibits two buffers with equal contents and different output.
-/
namespace Gp.C07.Icmp
open Gp Gp.SBuf Gp.Icmp Gp.C18

/-- The pure outcome function: independent of any buffer. -/
theorem serialize_spec (l : AnyLayer) (b : SBuf) (o : SOpts) (h : Inv b) :
    outOf (l.serialize b o) = specAny l (contents b) o :=
  (serializeAny_spec l b o h).1

/-- Never panics — every field value, every payload, every option set, every buffer. -/
theorem serialize_total (l : AnyLayer) (b : SBuf) (o : SOpts) (h : Inv b) (k : PanicKind) :
    l.serialize b o ≠ .panic k := by
  intro e
  have hs := serialize_spec l b o h
  rw [e] at hs
  simp only [outOf] at hs
  cases l <;> simp only [specAny, specICMPv4, specICMPv6, specEcho, specRS, specRA, specNS, specNA,
    specRedirect] at hs
  · cases hs
  · split at hs <;> cases hs
  · cases hs
  · cases hs
  · cases hs
  · split at hs <;> cases hs
  · split at hs <;> cases hs
  · (repeat' split at hs) <;> cases hs

/-- The result buffer is again a buffer of the C18 model (so serializers compose into stacks). -/
theorem serialize_inv (l l' : AnyLayer) (b b' : SBuf) (o : SOpts) (h : Inv b)
    (e : l.serialize b o = .ok (b', l')) : Inv b' :=
  (serializeAny_spec l b o h).2 b' l' e

/-- Output depends only on layer, payload (= contents) and options: not on capacity, stale bytes,
    size hints or clear history of the buffer. -/
theorem serialize_buffer_independent (l : AnyLayer) (b1 b2 : SBuf) (o : SOpts)
    (h1 : Inv b1) (h2 : Inv b2) (hc : contents b1 = contents b2) :
    outOf (l.serialize b1 o) = outOf (l.serialize b2 o) := by
  rw [serialize_spec l b1 o h1, serialize_spec l b2 o h2, hc]

/-- In particular: a buffer with an arbitrary history behaves like a fresh one holding the payload. -/
theorem serialize_history_independent (l : AnyLayer) (p a : Nat) (ops : List Op) (payload : Bytes) (o : SOpts) :
    outOf (l.serialize (step (clear (run (new p a) ops)) (.prepend payload)) o) =
    outOf (l.serialize (step (new 0 0) (.prepend payload)) o) := by
  have i1 : Inv (step (clear (run (new p a) ops)) (.prepend payload)) :=
    inv_step' _ _ (inv_clear' _ (inv_run_from _ ops (inv_new' p a)))
  have i2 : Inv (step (new 0 0) (.prepend payload)) := inv_step' _ _ (inv_new' 0 0)
  apply serialize_buffer_independent l _ _ o i1 i2
  rw [contents_step_prepend _ _ (inv_clear' _ (inv_run_from _ ops (inv_new' p a))),
    contents_step_prepend _ _ (inv_new' 0 0), contents_clear]
  simp [contents, new, zeros]

/-- Serialising again — the layer as mutated by the first call, any buffer holding the same
    payload — produces the same bytes and does not change the layer any further. -/
theorem serialize_idempotent (l l' : AnyLayer) (b b' b2 : SBuf) (o : SOpts)
    (h : Inv b) (h2 : Inv b2) (hc : contents b2 = contents b)
    (e : l.serialize b o = .ok (b', l')) :
    outOf (l'.serialize b2 o) = .ok (contents b', l') := by
  have hs := serialize_spec l b o h
  rw [e] at hs
  simp only [outOf] at hs
  rw [serialize_spec l' b2 o h2, hc]
  exact spec_idempotent l l' _ _ o hs.symm

/-! ### the pinned (pre-fix) code violates buffer independence: negation witness -/

/-- Without proposed_fixes/licmp-3 a Neighbor Solicitation with a 4-byte TargetAddress leaves 12
    requested bytes unwritten: equal buffer contents, different output. -/
theorem prefix_buffer_independent_counterexample :
    contents dirtyBuf = contents (new 0 0) ∧
    outOf (serializeNSOrig { targetAddress := [10, 0, 0, 1] } dirtyBuf ⟨true, true⟩) ≠
    outOf (serializeNSOrig { targetAddress := [10, 0, 0, 1] } (new 0 0) ⟨true, true⟩) :=
  buffer_independent_counterexample_prefix

/-! ### non-vacuity: out-of-range layers, a dirty buffer and a fresh one -/

/-- an NS with a 4-byte target, an option whose length is no multiple of 8 and one of type 255,
    serialised into a buffer full of 0xa5 and into a fresh one: both report the same error … -/
example :
    outOf ((AnyLayer.ns { targetAddress := [10, 0, 0, 1], options := [⟨1, [1, 2, 3]⟩, ⟨255, []⟩] }).serialize
      (clear (step (new 0 0) (.prepend (List.replicate 64 0xa5)))) ⟨true, true⟩) = .err "target address" := by decide

/-- … and with a 16-byte target both produce the same 33 bytes. -/
example :
    outOf ((AnyLayer.ns { targetAddress := List.replicate 16 9, options := [⟨1, [1, 2, 3]⟩, ⟨255, []⟩] }).serialize
      (clear (step (new 0 0) (.prepend (List.replicate 64 0xa5)))) ⟨true, true⟩) =
    outOf ((AnyLayer.ns { targetAddress := List.replicate 16 9, options := [⟨1, [1, 2, 3]⟩, ⟨255, []⟩] }).serialize
      (new 0 0) ⟨true, true⟩) := by decide

end Gp.C07.Icmp
