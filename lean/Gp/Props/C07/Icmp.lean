import Gp.Lemmas.Layers.Icmp
/- C07 for engine licmp: theorems under construction (see notes/licmp.md). -/
namespace Gp.C07.Icmp
end Gp.C07.Icmp
