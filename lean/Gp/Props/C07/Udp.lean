import Gp.Model.Layers.Udp
namespace Gp.C07.Udp
end Gp.C07.Udp
