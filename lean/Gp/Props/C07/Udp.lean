import Gp.Lemmas.Layers.UdpRt
/-
  C07 for layers/udp.go (engine `ludp`): `(*UDP).SerializeTo` never panics, its output depends
  only on the layer's fields, the payload and the options — not on the serialize buffer's
  capacity, stale bytes or history (quantified through the C18 buffer model: any buffer
  satisfying the representation invariant) — and serialising the mutated layer again gives the
  same bytes.  `view` = (buffer contents, mutated layer) of a result; `serializeSpec` = the
  byte-level function of (layer, payload, options) it is proved equal to.
-/
namespace Gp.C07.Udp
open Gp Gp.Udp Gp.SBuf

/-- Never panics: EVERY value of the fields (also out of uint16 range), every checksum
    configuration, all four option sets, ANY buffer state (even one violating the invariant). -/
theorem serialize_total (l : Layer) (b : SBuf) (fix csum : Bool) (k : PanicKind) :
    serializeUdp l b fix csum ≠ .panic k :=
  serializeInto_no_panic l _ _ _ fix csum rfl k

/-- The output is a function of (fields, payload, options) alone: it equals `serializeSpec`. -/
theorem serialize_refines_spec (l : Layer) (b : SBuf) (fix csum : Bool) (hI : Gp.C18.Inv b) :
    view (serializeUdp l b fix csum) = serializeSpec l (contents b) fix csum :=
  serialize_spec l b fix csum hI

/-- Buffer independence: two buffers with equal contents but arbitrary capacity, stale bytes and
    history give the same bytes, the same mutated layer and the same error. -/
theorem serialize_buffer_independent (l : Layer) (b₁ b₂ : SBuf) (fix csum : Bool)
    (h₁ : Gp.C18.Inv b₁) (h₂ : Gp.C18.Inv b₂) (hc : contents b₁ = contents b₂) :
    view (serializeUdp l b₁ fix csum) = view (serializeUdp l b₂ fix csum) := by
  rw [serialize_spec l b₁ fix csum h₁, serialize_spec l b₂ fix csum h₂, hc]

/-- Every requested byte is written: the new contents are exactly the 8 header bytes of the
    mutated layer followed by the old contents; everything else about the buffer is kept. -/
theorem serialize_contents (l l' : Layer) (b b' : SBuf) (fix csum : Bool) (hI : Gp.C18.Inv b)
    (h : serializeUdp l b fix csum = .ok (b', l')) :
    contents b' = header l' ++ contents b ∧ Gp.C18.Inv b' ∧ b'.layers = b.layers := by
  have hv := serialize_spec l b fix csum hI
  rw [h] at hv
  have hfr := serializeInto_frame l l' _ _ b' _ fix csum rfl h
  obtain ⟨f1, f2, f3, f4, f5, f6, _⟩ := hfr
  have hI1 := Gp.C18.inv_prepend' b 8 hI
  refine ⟨?_, ?_, ?_⟩
  · simp only [view] at hv
    exact serializeSpec_ok_bytes l l' _ _ fix csum hv.symm
  · obtain ⟨i1, i2, i3⟩ := hI1
    exact ⟨by omega, by omega, by omega⟩
  · rw [f6, Gp.C18.prepend_layers]

/-- Exactly when it fails: only ComputeChecksums without a usable network layer. -/
theorem serialize_ok_iff (l : Layer) (b : SBuf) (fix csum : Bool) (hI : Gp.C18.Inv b) :
    (∃ r, serializeUdp l b fix csum = .ok r) ↔ (csum = true → pseudoOk l.pseudo) := by
  have hv := serialize_spec l b fix csum hI
  constructor
  · rintro ⟨⟨b', l'⟩, h⟩ hc
    rw [h] at hv
    subst hc
    simp only [view] at hv
    exact serializeSpec_ok_pseudoOk l l' _ _ fix hv.symm
  · intro hc
    obtain ⟨⟨x, l'⟩, hr⟩ := serializeSpec_ok_of l (contents b) fix csum hc
    rw [hr] at hv
    obtain ⟨b', hb, _⟩ := view_ok _ _ _ hv
    exact ⟨_, hb⟩

/-- Idempotence: serialising the (mutated) layer again over the same payload — in any other
    well-formed buffer holding that payload — gives the same bytes and leaves the layer fixed. -/
theorem serialize_idempotent (l l' : Layer) (b b' b₂ : SBuf) (fix csum : Bool)
    (hI : Gp.C18.Inv b) (hI₂ : Gp.C18.Inv b₂) (hc : contents b₂ = contents b)
    (h : serializeUdp l b fix csum = .ok (b', l')) :
    view (serializeUdp l' b₂ fix csum) = .ok (contents b', l') := by
  have hv := serialize_spec l b fix csum hI
  rw [h] at hv
  simp only [view] at hv
  rw [serialize_spec l' b₂ fix csum hI₂, hc]
  exact serializeSpec_idem l l' _ _ fix csum hv.symm

/-! Non-vacuity: a dirty, cleared buffer and a fresh one; an IPv4 pseudo header; fix+csum. -/

def exLayer : Layer := { Layer.fresh with srcPort := 1000, dstPort := 2000, pseudo := .v4 [1, 2, 3, 4] [5, 6, 7, 8] }
def exDirty : SBuf :=
  step (clear (step (step (new 0 0) (.append (List.replicate 24 0xa5))) (.prepend (List.replicate 42 0xa5)))) (.prepend [0xe4, 0x0e])
def exFresh : SBuf := step (new 0 0) (.prepend [0xe4, 0x0e])

example : contents exDirty = contents exFresh := by decide
example : Gp.C18.Inv exDirty := by unfold Gp.C18.Inv; decide
/-- the datagram of the C08 example: the computed checksum is 0 and is emitted as 0xffff -/
example : view (serializeUdp exLayer exDirty true true) =
    .ok ([0x03, 0xe8, 0x07, 0xd0, 0x00, 0x0a, 0xff, 0xff, 0xe4, 0x0e], { exLayer with length := 10, checksum := 0xffff }) := by
  decide
example : (serializeUdp { exLayer with pseudo := .none } exFresh true true).isErr = true := by decide
example : pseudoOk exLayer.pseudo := by decide

end Gp.C07.Udp
