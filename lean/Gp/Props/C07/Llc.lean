import Gp.Lemmas.Layers.LlcSer4
/-
  C07 (engine `lllc`) — LLC, SNAP and STP serialization never panics; the output depends only on the
  layer's fields, the payload and the options.

  Model: `LLC/SNAP/STP.serializeTo` (Gp/Model/Layers/Llc.lean) transcribe the three SerializeTo
  methods statement by statement OVER the C18 buffer model: `PrependBytes` hands out a window onto
  memory that holds whatever the buffer held before (stale bytes of earlier packets, zeros of a fresh
  allocation), every `buf[i] = …`/`copy`/`PutUint16`/`PutUint32` is a store through such a window
  (with Go's bounds checks as `.panic`).  The models are the code WITH proposed_fixes/lllc-1…4; the
  code before lllc-2 (SNAP panic) and lllc-3 (STP leaks stale buffer bytes) is kept as
  `…serializeToPreFix` for the two `…_counterexample` theorems below.

  `serView` is what a caller can observe: the receiver afterwards, the error flag and — when no error
  was returned — `Bytes()`.  `llcSerSpec/snapSerSpec/stpSerSpec` (Gp/Lemmas/Layers/LlcSer.lean) are the
  pure functional specifications; `Gp.C18.Inv` is the representation invariant of the serialize
  buffer, proved in C18 for every buffer reachable from the constructors by any history of operations.
-/
namespace Gp.C07.Llc
open Gp Gp.SBuf Gp.Llc Gp.C18

/-! ## LLC -/

/-- `(*LLC).SerializeTo` never panics: EVERY value of the public fields, every option set, every
    buffer state whatsoever. -/
theorem serialize_total (l : LLC) (b : SBuf) (fix csum : Bool) (k : PanicKind) :
    l.serializeTo b fix csum ≠ .panic k := llc_serializeTo_no_panic l b fix csum k

/-- The same for the `Res (SBuf × Layer)` view of the brief. -/
theorem serialize_total_view (l : LLC) (b : SBuf) (fix csum : Bool) (k : PanicKind) :
    serializeLlc l b fix csum ≠ .panic k := by
  unfold serializeLlc
  have := llc_serializeTo_no_panic l b fix csum
  split
  · split <;> exact fun h => nomatch h
  · exact fun h => nomatch h
  · rename_i k' hk; exact absurd hk (this k')

/-- Refinement: on every buffer satisfying the invariant the observable outcome is the pure function
    `llcSerSpec` of (layer, payload = current buffer contents).  In particular every one of the 3 or 4
    requested bytes is written: nothing of the buffer's past shows through. -/
theorem serialize_refines (l : LLC) (b : SBuf) (fix csum : Bool) (h : Inv b) :
    serView (l.serializeTo b fix csum) = .ok (llcSerSpec l (contents b)) := llc_serView l b fix csum h

/-- Buffer independence: two buffers with equal contents (= the payload) but arbitrary capacity,
    arbitrary stale bytes before/behind the contents and arbitrary history give the same receiver,
    the same error flag and the same bytes — for every option set. -/
theorem serialize_buffer_independent (l : LLC) (b1 b2 : SBuf) (fix1 csum1 fix2 csum2 : Bool)
    (h1 : Inv b1) (h2 : Inv b2) (hc : contents b1 = contents b2) :
    serView (l.serializeTo b1 fix1 csum1) = serView (l.serializeTo b2 fix2 csum2) := by
  rw [serialize_refines l b1 fix1 csum1 h1, serialize_refines l b2 fix2 csum2 h2, hc]

/-- … stated over histories: any two buffers produced from any constructor hints by any sequences
    of prepend/append/clear/push whose final contents agree. -/
theorem serialize_history_independent (l : LLC) (p1 a1 p2 a2 : Nat) (ops1 ops2 : List Op)
    (fix csum : Bool) (hc : contents (run (new p1 a1) ops1) = contents (run (new p2 a2) ops2)) :
    serView (l.serializeTo (run (new p1 a1) ops1) fix csum) =
      serView (l.serializeTo (run (new p2 a2) ops2) fix csum) :=
  serialize_buffer_independent l _ _ fix csum fix csum (inv_run_from _ ops1 (inv_new' p1 a1))
    (inv_run_from _ ops2 (inv_new' p2 a2)) hc

/-- Idempotence: LLC.SerializeTo never modifies its receiver, so serialising it again over the same
    payload — in any buffer — gives the same error flag and the same bytes (error returns included). -/
theorem serialize_idempotent (l : LLC) (b b' : SBuf) (fix csum : Bool)
    (h : Inv b) (h' : Inv b') (hc : contents b' = contents b) :
    ∃ s, serView (l.serializeTo b fix csum) = .ok s ∧ s.layer = l ∧
         serView (s.layer.serializeTo b' fix csum) = .ok s := by
  refine ⟨_, serialize_refines l b fix csum h, llcSerSpec_layer l _, ?_⟩
  rw [llcSerSpec_layer, serialize_refines _ b' fix csum h', hc]

/-! ## SNAP -/

theorem serialize_total_snap (l : SNAP) (b : SBuf) (fix csum : Bool) (k : PanicKind) :
    l.serializeTo b fix csum ≠ .panic k := snap_serializeTo_no_panic l b fix csum k

theorem serialize_total_snap_view (l : SNAP) (b : SBuf) (fix csum : Bool) (k : PanicKind) :
    serializeSnap l b fix csum ≠ .panic k := by
  unfold serializeSnap
  have := snap_serializeTo_no_panic l b fix csum
  split
  · split <;> exact fun h => nomatch h
  · exact fun h => nomatch h
  · rename_i k' hk; exact absurd hk (this k')

/-- The defect removed by proposed_fixes/lllc-2, on the model of the code BEFORE the fix: the zero
    value `&SNAP{}` (and every OrganizationalCode shorter than 3 bytes) makes SerializeTo panic with
    an index out of range — after PrependBytes has already grown the buffer. -/
theorem prefix_snap_panic_counterexample :
    SNAP.fresh.serializeToPreFix (new 0 0) true true = .panic .index ∧
    ({ SNAP.fresh with org := [1, 2] } : SNAP).serializeToPreFix (new 0 0) false false = .panic .index := by
  decide

theorem serialize_refines_snap (l : SNAP) (b : SBuf) (fix csum : Bool) (h : Inv b) :
    serView (l.serializeTo b fix csum) = .ok (snapSerSpec l (contents b)) := snap_serView l b fix csum h

theorem serialize_buffer_independent_snap (l : SNAP) (b1 b2 : SBuf) (fix1 csum1 fix2 csum2 : Bool)
    (h1 : Inv b1) (h2 : Inv b2) (hc : contents b1 = contents b2) :
    serView (l.serializeTo b1 fix1 csum1) = serView (l.serializeTo b2 fix2 csum2) := by
  rw [serialize_refines_snap l b1 fix1 csum1 h1, serialize_refines_snap l b2 fix2 csum2 h2, hc]

theorem serialize_idempotent_snap (l : SNAP) (b b' : SBuf) (fix csum : Bool)
    (h : Inv b) (h' : Inv b') (hc : contents b' = contents b) :
    ∃ s, serView (l.serializeTo b fix csum) = .ok s ∧ s.layer = l ∧
         serView (s.layer.serializeTo b' fix csum) = .ok s := by
  refine ⟨_, serialize_refines_snap l b fix csum h, snapSerSpec_layer l _, ?_⟩
  rw [snapSerSpec_layer, serialize_refines_snap _ b' fix csum h', hc]

/-! ## STP -/

theorem serialize_total_stp (l : STP) (b : SBuf) (fix csum : Bool) (k : PanicKind) :
    l.serializeTo b fix csum ≠ .panic k := stp_serializeTo_no_panic l b fix csum k

theorem serialize_total_stp_view (l : STP) (b : SBuf) (fix csum : Bool) (k : PanicKind) :
    serializeStp l b fix csum ≠ .panic k := by
  unfold serializeStp
  have := stp_serializeTo_no_panic l b fix csum
  split
  · split <;> exact fun h => nomatch h
  · exact fun h => nomatch h
  · rename_i k' hk; exact absurd hk (this k')

/-- Refinement for STP: all 35 requested bytes are written — the two 6-byte address fields too when
    `HwAddr` is shorter than 6 bytes (zero padded, lllc-3). -/
theorem serialize_refines_stp (l : STP) (b : SBuf) (fix csum : Bool) (h : Inv b) :
    serView (l.serializeTo b fix csum) = .ok (stpSerSpec l (contents b)) := stp_serView l b fix csum h

theorem serialize_buffer_independent_stp (l : STP) (b1 b2 : SBuf) (fix1 csum1 fix2 csum2 : Bool)
    (h1 : Inv b1) (h2 : Inv b2) (hc : contents b1 = contents b2) :
    serView (l.serializeTo b1 fix1 csum1) = serView (l.serializeTo b2 fix2 csum2) := by
  rw [serialize_refines_stp l b1 fix1 csum1 h1, serialize_refines_stp l b2 fix2 csum2 h2, hc]

theorem serialize_history_independent_stp (l : STP) (p1 a1 p2 a2 : Nat) (ops1 ops2 : List Op)
    (fix csum : Bool) (hc : contents (run (new p1 a1) ops1) = contents (run (new p2 a2) ops2)) :
    serView (l.serializeTo (run (new p1 a1) ops1) fix csum) =
      serView (l.serializeTo (run (new p2 a2) ops2) fix csum) :=
  serialize_buffer_independent_stp l _ _ fix csum fix csum (inv_run_from _ ops1 (inv_new' p1 a1))
    (inv_run_from _ ops2 (inv_new' p2 a2)) hc

theorem serialize_idempotent_stp (l : STP) (b b' : SBuf) (fix csum : Bool)
    (h : Inv b) (h' : Inv b') (hc : contents b' = contents b) :
    ∃ s, serView (l.serializeTo b fix csum) = .ok s ∧ s.layer = l ∧
         serView (s.layer.serializeTo b' fix csum) = .ok s := by
  refine ⟨_, serialize_refines_stp l b fix csum h, stpSerSpec_layer l _, ?_⟩
  rw [stpSerSpec_layer, serialize_refines_stp _ b' fix csum h', hc]

set_option maxRecDepth 20000 in
/-- The defect removed by proposed_fixes/lllc-3, on the model of the code BEFORE the fix: a BPDU whose
    `HwAddr` fields are shorter than 6 bytes (e.g. the zero value's nil) is accepted, but the rest of
    the two address fields is never written — over an empty payload, a fresh buffer yields zeros there
    and a buffer that held 0xA5 bytes and was cleared yields 0xA5: same layer, same payload, same
    options, different packets. -/
theorem prefix_stp_dirty_buffer_counterexample :
    let l : STP := { STP.fresh with routeID := { priority := 4096, sysID := 1, hwAddr := [1, 2] },
                                    bridgeID := { priority := 8192, sysID := 0, hwAddr := [] } }
    let fresh := new 0 0
    let dirty := clear (step (new 0 0) (.prepend (List.replicate 40 0xA5)))
    contents fresh = contents dirty ∧
    stpAddrFields (serView (l.serializeToPreFix fresh false false)) =
      some (false, [1, 2, 0, 0, 0, 0], [0, 0, 0, 0, 0, 0]) ∧
    stpAddrFields (serView (l.serializeToPreFix dirty false false)) =
      some (false, [1, 2, 0xA5, 0xA5, 0xA5, 0xA5], [0xA5, 0xA5, 0xA5, 0xA5, 0xA5, 0xA5]) := by
  intro l fresh dirty
  exact ⟨by decide, by decide, by decide⟩

/-! ## Non-vacuity -/

set_option maxRecDepth 20000 in
/-- A dirty buffer holding a 3-byte payload: stale 0xA5 bytes around the contents; the fixed STP
    serializer writes zero padding over them. -/
example :
    let junk : List UInt8 := List.replicate 50 0xA5
    let b := step (clear (step (step (new 3 1) (.append junk)) (.prepend junk))) (.prepend [0xDE, 0xAD, 0xBF])
    let l : STP := { STP.fresh with tc := true, tca := true,
                                    routeID := { priority := 0, sysID := 4095, hwAddr := [1, 2] },
                                    bridgeID := { priority := 61440, sysID := 0, hwAddr := [9, 8, 7, 6, 5, 4, 3] },
                                    cost := 0x01020304, portID := 0x8001 }
    contents b = [0xDE, 0xAD, 0xBF] ∧
    serView (l.serializeTo b true false) =
      .ok { layer := l, err := false,
            bytes := [0, 0, 0, 0, 0x81, 0x0f, 0xff, 1, 2, 0, 0, 0, 0, 1, 2, 3, 4, 0xf0, 0x00, 9, 8, 7, 6, 5, 4,
                      0x80, 0x01, 0, 0, 0, 0, 0, 0, 0, 0, 0xDE, 0xAD, 0xBF] } := by
  decide

/-- Out-of-range values are errors, not panics; one- and two-octet control fields. -/
example :
    serView (({ LLC.fresh with dsap := 0xab } : LLC).serializeTo (new 0 0) true true) =
      .ok { layer := { LLC.fresh with dsap := 0xab }, err := true, bytes := [] } ∧
    serView (({ LLC.fresh with dsap := 0xaa, ig := true, ssap := 0xaa, control := 3 } : LLC).serializeTo (new 0 0) true true) =
      .ok { layer := { LLC.fresh with dsap := 0xaa, ig := true, ssap := 0xaa, control := 3 }, err := false,
            bytes := [0xab, 0xaa, 0x03] } ∧
    serView (LLC.fresh.serializeTo (new 0 0) false false) =
      .ok { layer := LLC.fresh, err := false, bytes := [0, 0, 0, 0] } ∧
    serView (SNAP.fresh.serializeTo (new 0 0) true true) = .ok { layer := SNAP.fresh, err := true, bytes := [] } ∧
    serView (({ STP.fresh with routeID := { priority := 5, sysID := 0, hwAddr := [] } } : STP).serializeTo (new 0 0) true true) =
      .ok { layer := { STP.fresh with routeID := { priority := 5, sysID := 0, hwAddr := [] } }, err := true, bytes := [] } := by
  decide

end Gp.C07.Llc
