import Gp.Lemmas.Layers.TunVxlan
import Gp.Lemmas.Layers.TunGeneveSer
import Gp.Lemmas.Layers.TunGtpSer
/-
  C07 — "Serialization never panics; output depends only on layer, payload, options": VXLAN, Geneve,
  GTPv1-U (engine `ltun`).  `X.serializeTo` is SerializeTo written store by store over the
  serialize-buffer model (Gp.Model.SBuf): bytes of a requested window that no store reaches keep
  whatever the buffer held.  A returned error is a VALUE (`SerOut.err`), so that what a failing call
  did to the receiver stays visible.  All theorems quantify over EVERY layer value (no `wf`) and over
  every buffer satisfying the representation invariant of C18 — i.e. every buffer any history of
  Prepend/Append/Clear can produce (`…_any_history`).
-/
namespace Gp.C07.Tun
open Gp Gp.Tun Gp.SBuf

/-! ### VXLAN -/

/-- SerializeTo never panics, for every value of the public fields. -/
theorem serialize_total_vxlan (l : Vxlan.Layer) (b : SBuf) (opts : Opts) (hb : Gp.C18.Inv b) (k : PanicKind) :
    Vxlan.serializeTo l b opts ≠ .panic k := by
  obtain ⟨b', h, _⟩ := Vxlan.serialize_spec l b opts hb
  rw [h]; intro hk; cases hk

/-- …in the history form: any constructor sizes, any sequence of prepends/appends/clears/pushes. -/
theorem serialize_total_any_history_vxlan (p a : Nat) (ops : List Op) (l : Vxlan.Layer) (opts : Opts)
    (k : PanicKind) : Vxlan.serializeTo l (run (new p a) ops) opts ≠ .panic k :=
  serialize_total_vxlan l _ opts (Gp.C18.inv_run_from _ ops (Gp.C18.inv_new' p a)) k

/-- What is written: the receiver is never modified; the call fails exactly for a VNI ≥ 2^24; otherwise
    every one of the 8 requested bytes is written and the buffer holds `encode l ++ old contents`. -/
theorem serialize_output_vxlan (l : Vxlan.Layer) (b : SBuf) (opts : Opts) (hb : Gp.C18.Inv b) :
    ∃ b', Vxlan.serializeTo l b opts = .ok { buf := b', layer := l, err := Vxlan.serErr l } ∧
      Gp.C18.Inv b' ∧
      (Vxlan.serErr l = false → contents b' = Vxlan.encode l ++ contents b ∧ (Vxlan.encode l).length = 8) := by
  obtain ⟨b', h1, h2, h3⟩ := Vxlan.serialize_spec l b opts hb
  exact ⟨b', h1, h2, fun h => ⟨h3 h, rfl⟩⟩

/-- **Buffer independence.**  Two buffers with equal contents — arbitrary capacity, arbitrary stale
    bytes, arbitrary history — give the same outcome (error or not), the same receiver and, when
    bytes are returned, equal bytes. -/
theorem serialize_buffer_independent_vxlan (l : Vxlan.Layer) (opts : Opts) (b₁ b₂ : SBuf)
    (h₁ : Gp.C18.Inv b₁) (h₂ : Gp.C18.Inv b₂) (hc : contents b₁ = contents b₂) :
    ∃ x₁ x₂ l' e, Vxlan.serializeTo l b₁ opts = .ok ⟨x₁, l', e⟩ ∧ Vxlan.serializeTo l b₂ opts = .ok ⟨x₂, l', e⟩ ∧
      (e = false → contents x₁ = contents x₂) := by
  obtain ⟨x₁, e₁, _, c₁⟩ := Vxlan.serialize_spec l b₁ opts h₁
  obtain ⟨x₂, e₂, _, c₂⟩ := Vxlan.serialize_spec l b₂ opts h₂
  exact ⟨x₁, x₂, _, _, e₁, e₂, fun h => by rw [c₁ h, c₂ h, hc]⟩

/-- **Idempotence.**  Serializing the layer again over the same payload — in the same or any other
    buffer — gives the same outcome and the same bytes; the options do not matter at all. -/
theorem serialize_idempotent_vxlan (l : Vxlan.Layer) (opts opts' : Opts) (b b₂ : SBuf)
    (hb : Gp.C18.Inv b) (hb₂ : Gp.C18.Inv b₂) (hc : contents b₂ = contents b) :
    ∃ x₁ l₁ e x₂, Vxlan.serializeTo l b opts = .ok ⟨x₁, l₁, e⟩ ∧ Vxlan.serializeTo l₁ b₂ opts' = .ok ⟨x₂, l₁, e⟩ ∧
      (e = false → contents x₂ = contents x₁) := by
  obtain ⟨x₁, e₁, _, c₁⟩ := Vxlan.serialize_spec l b opts hb
  obtain ⟨x₂, e₂, _, c₂⟩ := Vxlan.serialize_spec l b₂ opts' hb₂
  exact ⟨x₁, _, _, x₂, e₁, e₂, fun h => by rw [c₁ h, c₂ h, hc]⟩

/-- The `Res.err` view asked for by the engine brief is total as well. -/
theorem serialize_view_total_vxlan (l : Vxlan.Layer) (b : SBuf) (opts : Opts) (hb : Gp.C18.Inv b) (k : PanicKind) :
    Vxlan.serialize l b opts ≠ .panic k := by
  obtain ⟨b', h, _⟩ := Vxlan.serialize_spec l b opts hb
  unfold Vxlan.serialize serView
  rw [h]
  dsimp only
  split <;> (intro hk; cases hk)

/-! ### Geneve -/

theorem serialize_total_geneve (l : Geneve.Layer) (b : SBuf) (opts : Opts) (hb : Gp.C18.Inv b) (k : PanicKind) :
    Geneve.serializeTo l b opts ≠ .panic k := by
  obtain ⟨b', h, _⟩ := Geneve.serialize_spec l b opts hb
  rw [h]; intro hk; cases hk

theorem serialize_total_any_history_geneve (p a : Nat) (ops : List Op) (l : Geneve.Layer) (opts : Opts)
    (k : PanicKind) : Geneve.serializeTo l (run (new p a) ops) opts ≠ .panic k :=
  serialize_total_geneve l _ opts (Gp.C18.inv_run_from _ ops (Gp.C18.inv_new' p a)) k

/-- What is written: the call fails exactly for a VNI ≥ 2^24 (the receiver then carries the FixLengths
    value of OptionsLength only); otherwise every one of the `8 + Σ(4 + ⌊|Data|/4⌋·4)` requested bytes is
    written and the buffer holds `encode l' ++ old contents`, `l'` the receiver after the call. -/
theorem serialize_output_geneve (l : Geneve.Layer) (b : SBuf) (opts : Opts) (hb : Gp.C18.Inv b) :
    ∃ b', Geneve.serializeTo l b opts = .ok { buf := b', layer := Geneve.after l opts, err := Geneve.serErr l } ∧
      Gp.C18.Inv b' ∧
      (Geneve.serErr l = false →
        contents b' = Geneve.encode (Geneve.after l opts) ++ contents b ∧
        (Geneve.encode (Geneve.after l opts)).length = 8 + Geneve.optsSize l.options) := by
  obtain ⟨b', h1, h2, h3⟩ := Geneve.serialize_spec l b opts hb
  refine ⟨b', h1, h2, fun h => ?_⟩
  have ha : Geneve.after l opts = Geneve.mutated l opts := by unfold Geneve.after; rw [h]; rfl
  rw [ha]
  refine ⟨h3 h, ?_⟩
  rw [Geneve.encode_length]
  show 8 + Geneve.optsSize (l.options.map (Geneve.fixOpt opts.fixLengths)) = _
  rw [Geneve.optsSize_map_fix]

theorem serialize_buffer_independent_geneve (l : Geneve.Layer) (opts : Opts) (b₁ b₂ : SBuf)
    (h₁ : Gp.C18.Inv b₁) (h₂ : Gp.C18.Inv b₂) (hc : contents b₁ = contents b₂) :
    ∃ x₁ x₂ l' e, Geneve.serializeTo l b₁ opts = .ok ⟨x₁, l', e⟩ ∧ Geneve.serializeTo l b₂ opts = .ok ⟨x₂, l', e⟩ ∧
      (e = false → contents x₁ = contents x₂) := by
  obtain ⟨x₁, e₁, _, c₁⟩ := Geneve.serialize_spec l b₁ opts h₁
  obtain ⟨x₂, e₂, _, c₂⟩ := Geneve.serialize_spec l b₂ opts h₂
  exact ⟨x₁, x₂, _, _, e₁, e₂, fun h => by rw [c₁ h, c₂ h, hc]⟩

/-- **Idempotence**, including the mutation under FixLengths (OptionsLength, every option's Length)
    and including the error case: the second call on the receiver the first call left behind gives
    the same outcome, the same bytes, and changes nothing further. -/
theorem serialize_idempotent_geneve (l : Geneve.Layer) (opts : Opts) (b b₂ : SBuf)
    (hb : Gp.C18.Inv b) (hb₂ : Gp.C18.Inv b₂) (hc : contents b₂ = contents b) :
    ∃ x₁ l₁ e x₂, Geneve.serializeTo l b opts = .ok ⟨x₁, l₁, e⟩ ∧ Geneve.serializeTo l₁ b₂ opts = .ok ⟨x₂, l₁, e⟩ ∧
      (e = false → contents x₂ = contents x₁) := by
  obtain ⟨x₁, e₁, _, c₁⟩ := Geneve.serialize_spec l b opts hb
  obtain ⟨x₂, e₂, _, c₂⟩ := Geneve.serialize_spec (Geneve.after l opts) b₂ opts hb₂
  rw [Geneve.after_idem, Geneve.serErr_after] at e₂
  rw [Geneve.serErr_after] at c₂
  refine ⟨x₁, _, _, x₂, e₁, e₂, fun h => ?_⟩
  have ha : Geneve.after l opts = Geneve.mutated l opts := by unfold Geneve.after; rw [h]; rfl
  rw [c₁ h, c₂ h, ha, Geneve.mutated_idem, hc]

/-- The output depends on the public fields only: BaseLayer.Contents/Payload of the receiver (set by
    an earlier decode) are not consulted. -/
theorem serialize_ignores_base_geneve (l : Geneve.Layer) (c p : Bytes) (opts : Opts) (b : SBuf)
    (hb : Gp.C18.Inv b) :
    outBytes (Geneve.serializeTo { l with contents := c, payload := p } b opts)
      = outBytes (Geneve.serializeTo l b opts) := by
  obtain ⟨x₁, e₁, _, c₁⟩ := Geneve.serialize_spec { l with contents := c, payload := p } b opts hb
  obtain ⟨x₂, e₂, _, c₂⟩ := Geneve.serialize_spec l b opts hb
  rw [e₁, e₂]
  have hs : Geneve.serErr { l with contents := c, payload := p } = Geneve.serErr l := rfl
  rw [hs] at c₁ ⊢
  simp only [outBytes]
  cases he : Geneve.serErr l with
  | true => rfl
  | false =>
    simp only [Bool.false_eq_true, if_false, Option.some.injEq]
    rw [c₁ he, c₂ he, Geneve.encode_mutated_base]

theorem serialize_view_total_geneve (l : Geneve.Layer) (b : SBuf) (opts : Opts) (hb : Gp.C18.Inv b) (k : PanicKind) :
    Geneve.serialize l b opts ≠ .panic k := by
  obtain ⟨b', h, _⟩ := Geneve.serialize_spec l b opts hb
  unfold Geneve.serialize serView
  rw [h]
  dsimp only
  split <;> (intro hk; cases hk)

/-! ### GTPv1-U -/

theorem serialize_total_gtp (l : Gtp.Layer) (b : SBuf) (opts : Opts) (hb : Gp.C18.Inv b) (k : PanicKind) :
    Gtp.serializeTo l b opts ≠ .panic k := by
  obtain ⟨b', h, _⟩ := Gtp.serialize_spec l b opts hb
  rw [h]; intro hk; cases hk

theorem serialize_total_any_history_gtp (p a : Nat) (ops : List Op) (l : Gtp.Layer) (opts : Opts)
    (k : PanicKind) : Gtp.serializeTo l (run (new p a) ops) opts ≠ .panic k :=
  serialize_total_gtp l _ opts (Gp.C18.inv_run_from _ ops (Gp.C18.inv_new' p a)) k

/-- What is written: the call fails exactly when some extension header content is not 2 mod 4 bytes
    long; otherwise EVERY byte of every window it requested (one per extension header, the optional
    four bytes, the fixed eight) is written and the buffer holds `encode l' ++ old contents`, `l'` the
    receiver after the call (ExtensionHeaderFlag forced on by extension headers, MessageLength under
    FixLengths). -/
theorem serialize_output_gtp (l : Gtp.Layer) (b : SBuf) (opts : Opts) (hb : Gp.C18.Inv b) :
    ∃ b', Gtp.serializeTo l b opts = .ok { buf := b', layer := Gtp.mutated l opts (contents b), err := Gtp.serErr l } ∧
      Gp.C18.Inv b' ∧
      (Gtp.serErr l = false → contents b' = Gtp.encode (Gtp.mutated l opts (contents b)) ++ contents b) :=
  Gtp.serialize_spec l b opts hb

theorem serialize_buffer_independent_gtp (l : Gtp.Layer) (opts : Opts) (b₁ b₂ : SBuf)
    (h₁ : Gp.C18.Inv b₁) (h₂ : Gp.C18.Inv b₂) (hc : contents b₁ = contents b₂) :
    ∃ x₁ x₂ l' e, Gtp.serializeTo l b₁ opts = .ok ⟨x₁, l', e⟩ ∧ Gtp.serializeTo l b₂ opts = .ok ⟨x₂, l', e⟩ ∧
      (e = false → contents x₁ = contents x₂) := by
  obtain ⟨x₁, e₁, _, c₁⟩ := Gtp.serialize_spec l b₁ opts h₁
  obtain ⟨x₂, e₂, _, c₂⟩ := Gtp.serialize_spec l b₂ opts h₂
  rw [← hc] at e₂ c₂
  exact ⟨x₁, x₂, _, _, e₁, e₂, fun h => by rw [c₁ h, c₂ h]⟩

/-- **Idempotence**, including the mutations (ExtensionHeaderFlag, MessageLength) and the error case. -/
theorem serialize_idempotent_gtp (l : Gtp.Layer) (opts : Opts) (b b₂ : SBuf)
    (hb : Gp.C18.Inv b) (hb₂ : Gp.C18.Inv b₂) (hc : contents b₂ = contents b) :
    ∃ x₁ l₁ e x₂, Gtp.serializeTo l b opts = .ok ⟨x₁, l₁, e⟩ ∧ Gtp.serializeTo l₁ b₂ opts = .ok ⟨x₂, l₁, e⟩ ∧
      (e = false → contents x₂ = contents x₁) := by
  obtain ⟨x₁, e₁, _, c₁⟩ := Gtp.serialize_spec l b opts hb
  obtain ⟨x₂, e₂, _, c₂⟩ := Gtp.serialize_spec (Gtp.mutated l opts (contents b)) b₂ opts hb₂
  rw [hc, Gtp.mutated_idem, Gtp.serErr_mutated] at e₂
  rw [hc, Gtp.mutated_idem, Gtp.serErr_mutated] at c₂
  exact ⟨x₁, _, _, x₂, e₁, e₂, fun h => by rw [c₁ h, c₂ h]⟩

theorem serialize_ignores_base_gtp (l : Gtp.Layer) (c p : Bytes) (opts : Opts) (b : SBuf)
    (hb : Gp.C18.Inv b) :
    outBytes (Gtp.serializeTo { l with contents := c, payload := p } b opts)
      = outBytes (Gtp.serializeTo l b opts) := by
  obtain ⟨x₁, e₁, _, c₁⟩ := Gtp.serialize_spec { l with contents := c, payload := p } b opts hb
  obtain ⟨x₂, e₂, _, c₂⟩ := Gtp.serialize_spec l b opts hb
  rw [e₁, e₂]
  have hs : Gtp.serErr { l with contents := c, payload := p } = Gtp.serErr l := rfl
  rw [hs] at c₁ ⊢
  simp only [outBytes]
  cases he : Gtp.serErr l with
  | true => rfl
  | false =>
    simp only [Bool.false_eq_true, if_false, Option.some.injEq]
    rw [c₁ he, c₂ he, Gtp.encode_mutated_base]

theorem serialize_view_total_gtp (l : Gtp.Layer) (b : SBuf) (opts : Opts) (hb : Gp.C18.Inv b) (k : PanicKind) :
    Gtp.serialize l b opts ≠ .panic k := by
  obtain ⟨b', h, _⟩ := Gtp.serialize_spec l b opts hb
  unfold Gtp.serialize serView
  rw [h]
  dsimp only
  split <;> (intro hk; cases hk)

/-! ### non-vacuity: a dirty and a pre-sized buffer holding the same payload meet the hypotheses; layers
    that are NOT well-formed (unaligned option data, Version 255; extension header of a bad length) give
    the same result in both. -/

/-- a buffer that held forty 0xA5 bytes and was cleared. -/
def dirty40 : SBuf :=
  SBuf.clear (SBuf.fill (SBuf.prepend (SBuf.new 0 0) 40).1 (SBuf.prepend (SBuf.new 0 0) 40).2 (List.replicate 40 0xA5))

def oddGeneve : Geneve.Layer :=
  { Geneve.Layer.fresh with
    version := 255, optionsLength := 99, protocol := 0x6558, vni := 5,
    options := [⟨1, 2, 9, 3, [1, 2, 3, 4, 5]⟩] }

def oddGtp : Gtp.Layer :=
  { Gtp.Layer.fresh with
    version := 9, sequenceNumber := 7, teid := 1, messageType := 255,
    extensionHeaders := [⟨0x85, [0xaa, 0xbb]⟩, ⟨0, [1, 2, 3, 4, 5, 6]⟩] }

set_option maxRecDepth 8000 in
example : Gp.C18.Inv (putPayload dirty40 [7]) ∧ Gp.C18.Inv (putPayload (SBuf.new 3 0) [7]) ∧
    contents (putPayload dirty40 [7]) = contents (putPayload (SBuf.new 3 0) [7]) := by
  unfold Gp.C18.Inv; decide
set_option maxRecDepth 8000 in
example :
    outBytes (Geneve.serializeTo oddGeneve (putPayload dirty40 [7]) ⟨true, true⟩)
      = outBytes (Geneve.serializeTo oddGeneve (putPayload (SBuf.new 3 0) [7]) ⟨true, true⟩)
    ∧ outBytes (Geneve.serializeTo oddGeneve (putPayload dirty40 [7]) ⟨true, true⟩)
        = some [0xc2, 0, 0x65, 0x58, 0, 0, 5, 0, 0, 1, 2, 0x21, 1, 2, 3, 4, 7] := by
  decide
set_option maxRecDepth 8000 in
example :
    outBytes (Gtp.serializeTo oddGtp (putPayload dirty40 [7]) ⟨true, true⟩)
      = outBytes (Gtp.serializeTo oddGtp (putPayload (SBuf.new 3 0) [7]) ⟨true, true⟩)
    ∧ outBytes (Gtp.serializeTo oddGtp (putPayload dirty40 [7]) ⟨true, true⟩)
        = some [0x34, 0xff, 0, 17, 0, 0, 0, 1, 0, 7, 0, 0x85, 1, 0xaa, 0xbb, 0, 2, 1, 2, 3, 4, 5, 6, 0, 7] := by
  decide
set_option maxRecDepth 8000 in
example : (match Gtp.serializeTo { oddGtp with extensionHeaders := [⟨1, [1, 2, 3]⟩] } dirty40 ⟨true, true⟩ with
    | .ok o => o.err && o.layer.extensionHeaderFlag | _ => false) = true := by decide

end Gp.C07.Tun
