import Gp.Lemmas.Layers.BfdRt
/-
  C07 (engine `lbfd`) — BFD serialization never panics; the output depends only on the layer's
  fields and the bytes already in the buffer.

  Model: `BFD.serializeTo` (Gp/Model/Layers/Bfd.lean) transcribes `(*BFD).SerializeTo` statement by
  statement OVER the C18 buffer model: `PrependBytes(24)` and `AppendBytes(AuthHeader.Length())` hand
  out windows onto memory that holds whatever the buffer held before (stale bytes of earlier packets,
  zeros of a fresh allocation); every `data[i] = …`, `PutUint32` and `copy` is a store through such a
  window (with Go's bounds checks as `.panic`).  The code modelled is the code WITH the proposed fix
  lbfd-3; before it `Length()` was 0 for an unknown authentication type and `auth[0]` panicked:
  `prefix_serialize_panic_counterexample`.

  `serView` is what a caller can observe: the receiver afterwards, the error flag and — when no error
  was returned — `Bytes()`.  `bfdSerSpec` (Gp/Lemmas/Layers/BfdSer.lean) is the pure functional
  specification; `Gp.C18.Inv` is the representation invariant of the serialize buffer, proved in
  C18 for every buffer reachable from the constructors by any history.
-/
namespace Gp.C07.Bfd
open Gp Gp.SBuf Gp.Bfd Gp.C18

/-- `(*BFD).SerializeTo` never panics: EVERY value of the public fields (bit fields beyond their
    widths, an authentication header with any type — in particular an unknown one —, data of any
    length, a header without the A bit, the A bit with a nil header), every option set, every
    buffer state whatsoever (not only buffers satisfying the invariant). -/
theorem serialize_total (l : BFD) (b : SBuf) (fix csum : Bool) (k : PanicKind) :
    l.serializeTo b fix csum ≠ .panic k := by
  obtain ⟨o, ho, -⟩ := bfd_serializeTo_ok l b fix csum
  rw [ho]; exact fun h => nomatch h

/-- The same for the `Res (SBuf × Layer)` view of the brief. -/
theorem serialize_total_view (l : BFD) (b : SBuf) (fix csum : Bool) (k : PanicKind) :
    serializeBfd l b fix csum ≠ .panic k := by
  unfold serializeBfd
  have := serialize_total l b fix csum
  split
  · split <;> exact fun h => nomatch h
  · exact fun h => nomatch h
  · rename_i k' hk; exact absurd hk (this k')

/-- It never returns an error either, and it never assigns to the receiver (FixLengths has nothing
    to fix: the Length byte is always computed from the fields). -/
theorem serialize_no_error (l : BFD) (b : SBuf) (fix csum : Bool) :
    ∃ o, l.serializeTo b fix csum = .ok o ∧ o.layer = l ∧ o.err = false := bfd_serializeTo_ok l b fix csum

/-- Refinement: on every buffer satisfying the invariant the observable outcome is the pure function
    `bfdSerSpec` of (layer, current buffer contents): 24 header bytes in front, the authentication
    section behind.  In particular every one of the `24 + Length()` requested bytes is written
    (the `copy` covers the rest of the appended window exactly; for an unknown type the window is the
    three bytes that are stored): nothing of the buffer's past shows through. -/
theorem serialize_refines (l : BFD) (b : SBuf) (fix csum : Bool) (h : Inv b) :
    serView (l.serializeTo b fix csum) = .ok (bfdSerSpec l (contents b)) := bfd_serView l b fix csum h

/-- Buffer independence: two buffers with equal contents but arbitrary capacity, arbitrary stale
    bytes before/behind the contents and arbitrary history — and any two option sets — give the same
    receiver, the same error flag and the same bytes. -/
theorem serialize_buffer_independent (l : BFD) (b1 b2 : SBuf) (fix1 csum1 fix2 csum2 : Bool)
    (h1 : Inv b1) (h2 : Inv b2) (hc : contents b1 = contents b2) :
    serView (l.serializeTo b1 fix1 csum1) = serView (l.serializeTo b2 fix2 csum2) := by
  rw [serialize_refines l b1 fix1 csum1 h1, serialize_refines l b2 fix2 csum2 h2, hc]

/-- … stated over histories: any two buffers produced from any constructor hints by any sequences
    of prepend/append/clear/push whose final contents agree. -/
theorem serialize_history_independent (l : BFD) (p1 a1 p2 a2 : Nat) (ops1 ops2 : List Op)
    (fix csum : Bool) (hc : contents (run (new p1 a1) ops1) = contents (run (new p2 a2) ops2)) :
    serView (l.serializeTo (run (new p1 a1) ops1) fix csum) =
      serView (l.serializeTo (run (new p2 a2) ops2) fix csum) :=
  serialize_buffer_independent l _ _ fix csum fix csum (inv_run_from _ ops1 (inv_new' p1 a1))
    (inv_run_from _ ops2 (inv_new' p2 a2)) hc

/-- Neither option is looked at. -/
theorem serialize_opts_irrelevant (l : BFD) (b : SBuf) (f1 c1 f2 c2 : Bool) :
    l.serializeTo b f1 c1 = l.serializeTo b f2 c2 := rfl

/-- Idempotence: serialising the receiver again over the same contents — in any buffer — gives the
    same bytes and the same (unchanged) receiver. -/
theorem serialize_idempotent (l : BFD) (b b' : SBuf) (fix csum : Bool)
    (h : Inv b) (h' : Inv b') (hc : contents b' = contents b) :
    ∃ s, serView (l.serializeTo b fix csum) = .ok s ∧ s.layer = l ∧
         serView (s.layer.serializeTo b' fix csum) = .ok s := by
  refine ⟨_, serialize_refines l b fix csum h, rfl, ?_⟩
  rw [serialize_refines _ b' fix csum h', hc]
  rfl

/-- `Length()` is the number of bytes `SerializeTo` adds — for EVERY layer value (so the Length byte,
    `byte(d.Length())`, is the real length modulo 256). -/
theorem serialize_output_length (l : BFD) (b : SBuf) (fix csum : Bool) (h : Inv b) :
    ∃ o, l.serializeTo b fix csum = .ok o ∧ (contents o.buf).length = l.length + (contents b).length := by
  obtain ⟨o, ho, -, -, -, hc⟩ := bfd_serializeTo_refines l b fix csum h
  refine ⟨o, ho, ?_⟩
  rw [hc, List.append_assoc, (hdr_bytes l _).2.2.2.2.2, List.length_append, bfd_length]; omega

/-- The code BEFORE lbfd-3 (`BFDAuthHeader.Length` = 0 for an unknown type) violates the property:
    a layer with the A bit and an authentication header of type 9 — what decoding
    `… | 09 06 01 41 42 43` yields — makes `auth[0]` panic on the empty slice returned by
    `AppendBytes(0)`, in a fresh buffer. -/
theorem prefix_serialize_panic_counterexample :
    ¬ (∀ (l : BFD) (b : SBuf) (fix csum : Bool) (k : PanicKind),
        l.serializeWith { Fix.all with unknownLen3 := false } b fix csum ≠ .panic k) := by
  intro h
  exact h { BFD.fresh with authPresent := true,
                           authHeader := some { authType := 9, keyID := 1, sequenceNumber := 0, data := [] } }
    (new 0 0) true true .index (by decide)

/-! Non-vacuity: a dirty buffer (64 bytes of 0xA5 on either side, cleared) and a fresh one give the
    same bytes; the section of an unknown type is the three bytes that are written. -/

set_option maxRecDepth 100000 in
example :
    let l : BFD := { BFD.fresh with version := 1, state := 3, authPresent := true, detectMultiplier := 3,
                                    myDiscriminator := 1, yourDiscriminator := 2,
                                    authHeader := some { authType := 1, keyID := 2, sequenceNumber := 0, data := [0x73, 0x65] } }
    let junk := List.replicate 64 (0xA5 : UInt8)
    let dirty := clear (step (step (new 0 0) (.append junk)) (.prepend junk))
    serView (l.serializeTo dirty true true) = serView (l.serializeTo (new 0 0) false false) ∧
    serView (l.serializeTo dirty true true) =
      .ok { layer := l, err := false,
            bytes := [0x20, 0xc4, 3, 29, 0,0,0,1, 0,0,0,2, 0,0,0,0, 0,0,0,0, 0,0,0,0, 1, 5, 2, 0x73, 0x65] } := by
  decide

example :
    let l : BFD := { BFD.fresh with authPresent := true,
                                    authHeader := some { authType := 9, keyID := 1, sequenceNumber := 7, data := [1, 2] } }
    serView (l.serializeTo (new 0 0) true true) =
      .ok { layer := l, err := false,
            bytes := [0, 4, 0, 27, 0,0,0,0, 0,0,0,0, 0,0,0,0, 0,0,0,0, 0,0,0,0, 9, 3, 1] } := by
  decide

end Gp.C07.Bfd
