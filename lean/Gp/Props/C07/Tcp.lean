import Gp.Lemmas.Layers.TcpSer
/-
  C07 (TCP part): (*TCP).SerializeTo never panics, its output depends only on the layer, the
  payload (= buffer contents) and the options, and repeating it gives the same bytes.

  `serializeTcp l b fix csum` is SerializeTo over the C18 model of the serialize buffer: the
  window handed out by PrependBytes holds whatever the backing array held (stale bytes), every
  store `bytes[i] = …` is a checked write.  `serView` = (Bytes() of the buffer, mutated layer).
  `Gp.C18.Inv` is the representation invariant of every reachable serializeBuffer (C18).
-/
namespace Gp.C07.Tcp
open Gp Gp.Tcp

/-- serialize_total: for EVERY value of the layer's fields (in range or not, any option list, any
    padding), every reachable buffer and all four option combinations SerializeTo returns bytes
    or an error — it never panics. -/
theorem serialize_total (l : Layer) (b : SBuf.SBuf) (fix csum : Bool) (hb : Gp.C18.Inv b) (k : PanicKind) :
    serializeTcp l b fix csum ≠ .panic k := by
  rw [serializeTcp_eq l b fix csum hb]
  cases serCk (fixedLayer l fix) fix csum (SBuf.contents b) <;> (intro h; cases h)

/-- the only error is the checksum error (no network layer set / bad addresses), and only when
    checksums are requested -/
theorem serialize_error_only_checksum (l : Layer) (b : SBuf.SBuf) (fix : Bool) (hb : Gp.C18.Inv b) :
    ∃ b' l', serializeTcp l b fix false = .ok (b', l') := by
  rw [serializeTcp_eq l b fix false hb]
  exact ⟨_, _, rfl⟩

/-- serialize_buffer_independent: two buffers with equal CONTENTS — whatever their capacity,
    stale bytes and history — give the same output bytes and the same mutated layer. -/
theorem serialize_buffer_independent (l : Layer) (b1 b2 : SBuf.SBuf) (fix csum : Bool)
    (h1 : Gp.C18.Inv b1) (h2 : Gp.C18.Inv b2) (hc : SBuf.contents b1 = SBuf.contents b2) :
    serView (serializeTcp l b1 fix csum) = serView (serializeTcp l b2 fix csum) := by
  rw [serView_eq l b1 fix csum h1, serView_eq l b2 fix csum h2, hc]

/-- the output is header ++ old contents: the payload is left untouched and every header byte
    is determined by the layer (nothing of the buffer's stale memory leaks) -/
theorem serialize_output (l : Layer) (b : SBuf.SBuf) (fix csum : Bool) (hb : Gp.C18.Inv b) :
    serView (serializeTcp l b fix csum) = serSpec l fix csum (SBuf.contents b) :=
  serView_eq l b fix csum hb

/-- serialize_idempotent: serialising the (mutated) layer again over the same payload — in any
    buffer holding that payload — gives the same bytes, and the layer no longer changes. -/
theorem serialize_idempotent (l l' : Layer) (b b' b2 : SBuf.SBuf) (fix csum : Bool)
    (hb : Gp.C18.Inv b) (hb2 : Gp.C18.Inv b2) (hc : SBuf.contents b2 = SBuf.contents b)
    (h : serializeTcp l b fix csum = .ok (b', l')) :
    serView (serializeTcp l' b2 fix csum) = .ok (SBuf.contents b', l') := by
  have h1 := serView_eq l b fix csum hb
  rw [h] at h1
  rw [serView_eq l' b2 fix csum hb2, hc]
  exact serSpec_idem l fix csum _ _ l' h1.symm

/-- non-vacuity: a reachable dirty buffer (stale 0xa5 bytes under the window), a layer with an
    unaligned option list, both fixes requested -/
example :
    let b0 := SBuf.clear (SBuf.step (SBuf.new 0 0) (.prepend (List.replicate 64 0xa5)))
    let b := SBuf.step b0 (.append [1, 2, 3])
    let l : Layer := { srcPort := 80, dstPort := 443, options := [{ optionType := 3, optionLength := 3, optionData := [7] }],
                       pseudo := some (.ip4 [10, 0, 0, 1] [10, 0, 0, 2]) }
    (match serializeTcp l b true true with
      | .ok (b', l') => SBuf.contents b' == [0, 80, 1, 187, 0, 0, 0, 0, 0, 0, 0, 0, 96, 0, 0, 0, 123, 203, 0, 0, 3, 3, 7, 0, 1, 2, 3] &&
          l'.dataOffset == 6 && l'.padding == [0]
      | _ => false) = true := by decide

end Gp.C07.Tcp
