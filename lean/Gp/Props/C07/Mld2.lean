import Gp.Lemmas.Layers.Mld2Idem
import Gp.Lemmas.Layers.Mld2Total
/-
  C07 (engine `lmld2`) — the MLDv2 query / report serializers never panic, their output depends only
  on layer, payload and FixLengths (not on the buffer's capacity, stale bytes or history), and
  serialising the (mutated) layer again gives the same bytes.

  Model: `Gp/Model/Layers/Mld2.lean` — `Query.serializeTo`, `Report.serializeTo` (with
  `Rec.serializeWith`, the reverse-order loops `serSrcs` / `serRecs`) written OVER the C18 buffer
  model: every `PrependBytes` hands out a window onto whatever memory the buffer had, every store is
  a store through that window.  The code is modelled with fix lmld2-3 (`auxPad`); the unpatched
  padding is `auxPadUnfixed` (counterexample below).
  Only property-level theorems here; helpers are in `Gp/Lemmas/Layers/Mld2Ser.lean`, `Mld2Idem.lean`.
-/
namespace Gp.C07.Mld2
open Gp Gp.SBuf Gp.C18 Gp.Mld Gp.Mld2

/-- Refinement (query): on every buffer satisfying the C18 invariant — any capacity, any stale
    bytes, any history — the observable outcome of `SerializeTo` (receiver afterwards, error, bytes)
    is the pure function `querySerSpec` of layer, payload already in the buffer and FixLengths:
    every requested byte is written. -/
theorem query_serialize_refines (l : Query) (b : SBuf) (fix csum : Bool) (h : Inv b) :
    serView (l.serializeTo b fix csum) = .ok (querySerSpec l (SBuf.contents b) fix) := by
  obtain ⟨o, ho, hl, he, hb⟩ := query_serializeTo_refines l b fix csum h
  exact serView_of_refines _ _ (querySerSpec_err_bytes l _ fix) ⟨o, ho, hl, he, fun hh => (hb hh).2⟩

/-- Refinement (report, with all its records, source lists and auxiliary data). -/
theorem report_serialize_refines (l : Report) (b : SBuf) (fix csum : Bool) (h : Inv b) :
    serView (l.serializeTo b fix csum) = .ok (reportSerSpec l (SBuf.contents b) fix) := by
  obtain ⟨o, ho, hl, he, hb⟩ := Gp.Mld2.report_serialize_refines auxPad l b fix csum h
  exact serView_of_refines _ _ (reportSerSpecWith_err_bytes auxPad l _ fix) ⟨o, ho, hl, he, fun hh => (hb hh).2⟩

/-- `serialize_total`: no panic for EVERY value of the public fields (any address lengths, any list
    lengths, inconsistent counts, any auxiliary data), every option set and EVERY buffer record (no
    invariant needed: no bounds check of the serializers depends on the buffer, only on the length
    of the window PrependBytes handed out).  Errors are allowed (`SerOut.err`). -/
theorem serialize_total (q : Query) (r : Report) (b : SBuf) (fix csum : Bool) (k : PanicKind) :
    q.serializeTo b fix csum ≠ .panic k ∧ r.serializeTo b fix csum ≠ .panic k := by
  obtain ⟨o, ho⟩ := query_serializeTo_ok q b fix csum
  obtain ⟨o', ho'⟩ := report_serialize_ok auxPad r b fix csum
  constructor
  · rw [ho]; exact fun hh => nomatch hh
  · show Report.serializeWith auxPad r b fix csum ≠ _
    rw [ho']; exact fun hh => nomatch hh

/-- The same in the brief's view (`serializeQuery` / `serializeReport`: `.err` for an error return). -/
theorem serialize_total_view (q : Query) (r : Report) (b : SBuf) (fix csum : Bool) (k : PanicKind) :
    serializeQuery q b fix csum ≠ .panic k ∧ serializeReport r b fix csum ≠ .panic k := by
  obtain ⟨o, ho⟩ := query_serializeTo_ok q b fix csum
  obtain ⟨o', ho'⟩ := report_serialize_ok auxPad r b fix csum
  unfold serializeQuery serializeReport
  constructor
  · rw [ho]; simp only; split <;> exact fun hh => nomatch hh
  · unfold Report.serializeTo
    rw [ho']; simp only; split <;> exact fun hh => nomatch hh

/-- `serialize_buffer_independent`: two buffers with equal contents but arbitrary capacity, stale
    bytes and history give the same observable outcome (also across ComputeChecksums, which the
    code does not read). -/
theorem serialize_buffer_independent (q : Query) (r : Report) (b1 b2 : SBuf) (fix c1 c2 : Bool)
    (h1 : Inv b1) (h2 : Inv b2) (hc : SBuf.contents b1 = SBuf.contents b2) :
    serView (q.serializeTo b1 fix c1) = serView (q.serializeTo b2 fix c2) ∧
    serView (r.serializeTo b1 fix c1) = serView (r.serializeTo b2 fix c2) := by
  rw [query_serialize_refines q b1 fix c1 h1, query_serialize_refines q b2 fix c2 h2,
    report_serialize_refines r b1 fix c1 h1, report_serialize_refines r b2 fix c2 h2, hc]
  exact ⟨rfl, rfl⟩

/-- In particular the history does not matter: any buffer reached from `new` by any sequence of
    prepend/append/clear/push operations and then cleared behaves like a fresh one. -/
theorem serialize_history_independent (q : Query) (r : Report) (pre app : Nat) (ops : List Op) (p : Bytes)
    (fix csum : Bool) :
    serView (q.serializeTo (serializePayload p (clear (run (new pre app) ops))) fix csum) =
      serView (q.serializeTo (serializePayload p (new 0 0)) fix csum) ∧
    serView (r.serializeTo (serializePayload p (clear (run (new pre app) ops))) fix csum) =
      serView (r.serializeTo (serializePayload p (new 0 0)) fix csum) := by
  have i1 := inv_clear' _ (inv_run_from (new pre app) ops (inv_new' pre app))
  have i2 := inv_new' 0 0
  obtain ⟨j1, c1⟩ := serializePayload_contents p _ i1
  obtain ⟨j2, c2⟩ := serializePayload_contents p _ i2
  apply serialize_buffer_independent q r _ _ fix csum csum j1 j2
  rw [c1, c2, contents_clear]
  rfl

/-- `serialize_idempotent` (query): serialising the layer the first call left behind (FixLengths
    may have set NumberOfSources) over the same payload gives the same outcome — same bytes, same
    receiver; also for the error returns. -/
theorem query_serialize_idempotent (l : Query) (b b' : SBuf) (fix csum : Bool) (h : Inv b) (h' : Inv b')
    (hc : SBuf.contents b = SBuf.contents b') (s : SerSpec Query)
    (h1 : serView (l.serializeTo b fix csum) = .ok s) :
    serView (s.layer.serializeTo b' fix csum) = .ok s := by
  rw [query_serialize_refines l b fix csum h] at h1
  cases h1
  rw [query_serialize_refines _ b' fix csum h', ← hc, querySerSpec_idem]

/-- `serialize_idempotent` (report): the first call pads every record's AuxiliaryData to a multiple
    of four bytes and (FixLengths) sets AuxDataLen, N and the record count; the second call finds a
    fixpoint and writes the same bytes. -/
theorem report_serialize_idempotent (l : Report) (b b' : SBuf) (fix csum : Bool) (h : Inv b) (h' : Inv b')
    (hc : SBuf.contents b = SBuf.contents b') (s : SerSpec Report)
    (h1 : serView (l.serializeTo b fix csum) = .ok s) :
    serView (s.layer.serializeTo b' fix csum) = .ok s := by
  rw [report_serialize_refines l b fix csum h] at h1
  cases h1
  rw [report_serialize_refines _ b' fix csum h', ← hc]
  exact congrArg _ (reportSerSpecWith_idem auxPad auxPad_idem l _ fix)

/-- The defect repaired by lmld2-3: with the UNPATCHED padding (`remainder` zero bytes instead of
    `4 - remainder`) a record with 5 bytes of auxiliary data is written with 6, and serialising the
    same layer again writes 8: the output of repeated serialisation differs. -/
theorem serialize_idempotent_unpatched_counterexample :
    ¬ (∀ (l : Report) (p : Bytes) (fix : Bool),
        reportSerSpecWith auxPadUnfixed (reportSerSpecWith auxPadUnfixed l p fix).layer p fix =
          reportSerSpecWith auxPadUnfixed l p fix) := by
  intro h
  have := h { Report.fresh with recs := [{ Rec.fresh with addr := List.replicate 16 0, aux := [1, 2, 3, 4, 5] }] } [] true
  revert this
  decide

/-- Which inputs are refused: the query returns an error exactly when it has more than 65535
    sources, a source that is neither 4 nor 16 bytes long, or such a multicast address. -/
theorem query_error_iff (l : Query) (p : Bytes) (fix : Bool) :
    (querySerSpec l p fix).err = true ↔
      (l.srcs.length > 65535 ∨ srcsSpec l.srcs.reverse p = none ∨ to16 l.addr = none) := by
  unfold querySerSpec
  by_cases hc : l.srcs.length > 65535
  · rw [if_pos hc]; exact ⟨fun _ => Or.inl hc, fun _ => rfl⟩
  · rw [if_neg hc]
    unfold queryFixedSpec
    have e1 : (queryFixed l fix).srcs = l.srcs := queryFixed_srcs l fix
    have e2 : (queryFixed l fix).addr = l.addr := by cases fix <;> rfl
    rw [e1, e2]
    cases hs : srcsSpec l.srcs.reverse p with
    | none => exact ⟨fun _ => Or.inr (Or.inl rfl), fun _ => rfl⟩
    | some c =>
      simp only
      cases hm : to16 l.addr with
      | none => exact ⟨fun _ => Or.inr (Or.inr rfl), fun _ => rfl⟩
      | some m =>
        simp only
        constructor
        · intro hh; cases hh
        · intro hh
          rcases hh with hh | hh | hh
          · exact absurd hh hc
          · cases hh
          · cases hh

/-! Non-vacuity: a dirty, oddly sized buffer and a fresh one give the same packet; a 5-byte auxiliary
    datum is padded to 8 bytes once and stays there. -/
example :
    serView (({ Query.fresh with mrc := 1000, addr := List.replicate 16 1, s := true, qrv := 2, qqic := 9,
                                 srcs := [List.replicate 16 7, [1, 2, 3, 4]] } : Query).serializeTo
        (serializePayload [0xaa] (clear (step (step (new 3 1) (.append (List.replicate 9 0xee))) (.prepend (List.replicate 70 0xdd)))))
        true false) =
    serView (({ Query.fresh with mrc := 1000, addr := List.replicate 16 1, s := true, qrv := 2, qqic := 9,
                                 srcs := [List.replicate 16 7, [1, 2, 3, 4]] } : Query).serializeTo
        (serializePayload [0xaa] (new 0 0)) true true) := by decide

example :
    (reportSerSpec { Report.fresh with recs := [{ Rec.fresh with addr := List.replicate 16 0, aux := [1, 2, 3, 4, 5] }] } [] true).bytes =
      [0, 0, 0, 1, 0, 2, 0, 0] ++ List.replicate 16 0 ++ [1, 2, 3, 4, 5, 0, 0, 0] := by decide

end Gp.C07.Mld2
