import Gp.Lemmas.Layers.PppSer
/-
  C07 (engine `lppp`) — PPP, PPPoE and MPLS serialization never panics; the output depends only on
  the layer's fields, the payload and the options.

  Model: `PPP.serializeTo` / `PPPoE.serializeTo` / `MPLS.serializeTo` (Gp/Model/Layers/Ppp.lean)
  transcribe the three SerializeTo methods statement by statement OVER the C18 buffer model:
  `PrependBytes` hands out a window onto memory that holds whatever the buffer held before (stale
  bytes of earlier packets, zeros of a fresh allocation); every `bytes[i] = …`, `PutUint16`,
  `PutUint32` is a store through such a window with Go's bounds checks as `.panic`.

  `serView` is what a caller can observe: the receiver afterwards, the error flag and — when no error
  was returned — `Bytes()`.  `pppSerSpec` / `pppoeSerSpec` / `mplsSerSpec`
  (Gp/Lemmas/Layers/PppSer.lean) are the pure functional specifications; `Gp.C18.Inv` is the
  representation invariant of the serialize buffer, proved in C18 for every buffer reachable from the
  constructors by any history of operations.
-/
namespace Gp.C07.Ppp
open Gp Gp.SBuf Gp.Ppp Gp.C18

/-! ## Totality: no panic, for EVERY value of the public fields and EVERY buffer state -/

/-- `(*PPP).SerializeTo` never panics and never returns an error: any PPPType (also the ones
    written as one byte), any options, any buffer state whatsoever. -/
theorem serialize_total (l : PPP) (b : SBuf) (fix csum : Bool) (k : PanicKind) :
    l.serializeTo b fix csum ≠ .panic k := by
  rw [ppp_serializeTo_eq]; exact fun h => nomatch h

/-- `(*PPPoE).SerializeTo`: Version/Type above 15, any Length, payloads above 65535 bytes — never a
    panic. -/
theorem serialize_total_pppoe (l : PPPoE) (b : SBuf) (fix csum : Bool) (k : PanicKind) :
    l.serializeTo b fix csum ≠ .panic k := by
  rw [pppoe_serializeTo_eq]; exact fun h => nomatch h

/-- `(*MPLS).SerializeTo`: labels above 2^20, TrafficClass above 7 — never a panic. -/
theorem serialize_total_mpls (l : MPLS) (b : SBuf) (fix csum : Bool) (k : PanicKind) :
    l.serializeTo b fix csum ≠ .panic k := by
  rw [mpls_serializeTo_eq]; exact fun h => nomatch h

/-- The same for the `Res (SBuf × Layer)` views of the brief. -/
theorem serialize_total_view (l : PPP) (b : SBuf) (fix csum : Bool) (k : PanicKind) :
    serializePpp l b fix csum ≠ .panic k := by
  unfold serializePpp viewSer; rw [ppp_serializeTo_eq]; exact fun h => nomatch h

theorem serialize_total_view_pppoe (l : PPPoE) (b : SBuf) (fix csum : Bool) (k : PanicKind) :
    serializePppoe l b fix csum ≠ .panic k := by
  unfold serializePppoe viewSer; rw [pppoe_serializeTo_eq]; exact fun h => nomatch h

theorem serialize_total_view_mpls (l : MPLS) (b : SBuf) (fix csum : Bool) (k : PanicKind) :
    serializeMpls l b fix csum ≠ .panic k := by
  unfold serializeMpls viewSer; rw [mpls_serializeTo_eq]; exact fun h => nomatch h

/-! ## Refinement: the observable outcome is a pure function of (layer, payload, options) -/

/-- On every buffer satisfying the invariant the outcome of `PPP.SerializeTo` is `pppSerSpec`:
    header bytes `[ff 03] ++ protocol field` in front of the payload, receiver unchanged.  Every
    requested byte is written: nothing of the buffer's past shows through. -/
theorem serialize_refines (l : PPP) (b : SBuf) (fix csum : Bool) (h : Inv b) :
    serView (l.serializeTo b fix csum) = .ok (pppSerSpec l (contents b)) := ppp_serView l b fix csum h

/-- `PPPoE.SerializeTo`: six header bytes, all written; under FixLengths the receiver's Length
    becomes `uint16(len(payload))` (`pppoeFixed`). -/
theorem serialize_refines_pppoe (l : PPPoE) (b : SBuf) (fix csum : Bool) (h : Inv b) :
    serView (l.serializeTo b fix csum) = .ok (pppoeSerSpec l (contents b) fix) := pppoe_serView l b fix csum h

theorem serialize_refines_mpls (l : MPLS) (b : SBuf) (fix csum : Bool) (h : Inv b) :
    serView (l.serializeTo b fix csum) = .ok (mplsSerSpec l (contents b)) := mpls_serView l b fix csum h

/-! ## Buffer independence -/

/-- Two buffers with equal contents (= the payload) but arbitrary capacity, arbitrary stale bytes
    before/behind the contents and arbitrary history give the same receiver, the same error flag and
    the same bytes; for PPP and MPLS also whatever the two option sets are. -/
theorem serialize_buffer_independent (l : PPP) (b1 b2 : SBuf) (fix1 csum1 fix2 csum2 : Bool)
    (h1 : Inv b1) (h2 : Inv b2) (hc : contents b1 = contents b2) :
    serView (l.serializeTo b1 fix1 csum1) = serView (l.serializeTo b2 fix2 csum2) := by
  rw [serialize_refines l b1 fix1 csum1 h1, serialize_refines l b2 fix2 csum2 h2, hc]

theorem serialize_buffer_independent_pppoe (l : PPPoE) (b1 b2 : SBuf) (fix csum1 csum2 : Bool)
    (h1 : Inv b1) (h2 : Inv b2) (hc : contents b1 = contents b2) :
    serView (l.serializeTo b1 fix csum1) = serView (l.serializeTo b2 fix csum2) := by
  rw [serialize_refines_pppoe l b1 fix csum1 h1, serialize_refines_pppoe l b2 fix csum2 h2, hc]

theorem serialize_buffer_independent_mpls (l : MPLS) (b1 b2 : SBuf) (fix1 csum1 fix2 csum2 : Bool)
    (h1 : Inv b1) (h2 : Inv b2) (hc : contents b1 = contents b2) :
    serView (l.serializeTo b1 fix1 csum1) = serView (l.serializeTo b2 fix2 csum2) := by
  rw [serialize_refines_mpls l b1 fix1 csum1 h1, serialize_refines_mpls l b2 fix2 csum2 h2, hc]

/-- … stated over histories: any two buffers produced from any constructor hints by any sequences
    of prepend/append/clear/push whose final contents agree (PPPoE, the layer with a length field;
    the other two are instances of the theorems above in the same way). -/
theorem serialize_history_independent_pppoe (l : PPPoE) (p1 a1 p2 a2 : Nat) (ops1 ops2 : List Op)
    (fix csum : Bool) (hc : contents (run (new p1 a1) ops1) = contents (run (new p2 a2) ops2)) :
    serView (l.serializeTo (run (new p1 a1) ops1) fix csum) =
      serView (l.serializeTo (run (new p2 a2) ops2) fix csum) :=
  serialize_buffer_independent_pppoe l _ _ fix csum csum (inv_run_from _ ops1 (inv_new' p1 a1))
    (inv_run_from _ ops2 (inv_new' p2 a2)) hc

theorem serialize_history_independent (l : PPP) (p1 a1 p2 a2 : Nat) (ops1 ops2 : List Op)
    (fix csum : Bool) (hc : contents (run (new p1 a1) ops1) = contents (run (new p2 a2) ops2)) :
    serView (l.serializeTo (run (new p1 a1) ops1) fix csum) =
      serView (l.serializeTo (run (new p2 a2) ops2) fix csum) :=
  serialize_buffer_independent l _ _ fix csum fix csum (inv_run_from _ ops1 (inv_new' p1 a1))
    (inv_run_from _ ops2 (inv_new' p2 a2)) hc

theorem serialize_history_independent_mpls (l : MPLS) (p1 a1 p2 a2 : Nat) (ops1 ops2 : List Op)
    (fix csum : Bool) (hc : contents (run (new p1 a1) ops1) = contents (run (new p2 a2) ops2)) :
    serView (l.serializeTo (run (new p1 a1) ops1) fix csum) =
      serView (l.serializeTo (run (new p2 a2) ops2) fix csum) :=
  serialize_buffer_independent_mpls l _ _ fix csum fix csum (inv_run_from _ ops1 (inv_new' p1 a1))
    (inv_run_from _ ops2 (inv_new' p2 a2)) hc

/-- ComputeChecksums is irrelevant for all three layers; FixLengths for PPP and MPLS. -/
theorem serialize_opts_irrelevant (l : PPP) (m : MPLS) (q : PPPoE) (b : SBuf) (f1 c1 f2 c2 : Bool) :
    l.serializeTo b f1 c1 = l.serializeTo b f2 c2 ∧ m.serializeTo b f1 c1 = m.serializeTo b f2 c2 ∧
    q.serializeTo b f1 c1 = q.serializeTo b f1 c2 := ⟨rfl, rfl, rfl⟩

/-! ## Idempotence -/

/-- Serialising the receiver again over the same payload — in any buffer — gives the same bytes;
    PPP.SerializeTo never modifies its receiver. -/
theorem serialize_idempotent (l : PPP) (b b' : SBuf) (fix csum : Bool)
    (h : Inv b) (h' : Inv b') (hc : contents b' = contents b) :
    ∃ s, serView (l.serializeTo b fix csum) = .ok s ∧ s.layer = l ∧ s.err = false ∧
         serView (s.layer.serializeTo b' fix csum) = .ok s := by
  refine ⟨_, serialize_refines l b fix csum h, rfl, rfl, ?_⟩
  rw [serialize_refines _ b' fix csum h', hc]; rfl

/-- PPPoE.SerializeTo mutates its receiver under FixLengths (Length := len(payload)); the mutated
    receiver is a fixpoint: the second call writes the same bytes and changes nothing further. -/
theorem serialize_idempotent_pppoe (l : PPPoE) (b b' : SBuf) (fix csum : Bool)
    (h : Inv b) (h' : Inv b') (hc : contents b' = contents b) :
    ∃ s, serView (l.serializeTo b fix csum) = .ok s ∧ s.err = false ∧
         serView (s.layer.serializeTo b' fix csum) = .ok s := by
  refine ⟨_, serialize_refines_pppoe l b fix csum h, rfl, ?_⟩
  rw [serialize_refines_pppoe _ b' fix csum h', hc]
  unfold pppoeSerSpec
  simp only [pppoeFixed_idem]

theorem serialize_idempotent_mpls (l : MPLS) (b b' : SBuf) (fix csum : Bool)
    (h : Inv b) (h' : Inv b') (hc : contents b' = contents b) :
    ∃ s, serView (l.serializeTo b fix csum) = .ok s ∧ s.layer = l ∧ s.err = false ∧
         serView (s.layer.serializeTo b' fix csum) = .ok s := by
  refine ⟨_, serialize_refines_mpls l b fix csum h, rfl, rfl, ?_⟩
  rw [serialize_refines_mpls _ b' fix csum h', hc]; rfl

/-- Without FixLengths PPPoE.SerializeTo leaves its receiver alone and writes the Length it holds. -/
theorem serialize_nofix_keeps_receiver_pppoe (l : PPPoE) (b : SBuf) (csum : Bool) (h : Inv b) :
    serView (l.serializeTo b false csum) =
      .ok { layer := l, err := false, bytes := pppoeHdrBytes l ++ contents b } :=
  serialize_refines_pppoe l b false csum h

/-! ## Non-vacuity -/

set_option maxRecDepth 8000 in
/-- A dirty, pre-sized buffer holding a 3-byte payload: stale 0xA5 bytes around the contents; the
    PPPoE header comes out fully written, Length fixed to 3. -/
example :
    let junk : List UInt8 := List.replicate 70 0xA5
    let b := step (clear (step (step (new 3 1) (.append junk)) (.prepend junk))) (.prepend [0xDE, 0xAD, 0xBF])
    let l : PPPoE := { PPPoE.fresh with version := 1, type := 1, sessionId := 0x11, length := 99 }
    contents b = [0xDE, 0xAD, 0xBF] ∧
    serView (l.serializeTo b true false) =
      .ok { layer := { l with length := 3 }, err := false,
            bytes := [0x11, 0x00, 0x00, 0x11, 0x00, 0x03, 0xDE, 0xAD, 0xBF] } := by
  decide

set_option maxRecDepth 8000 in
/-- Out-of-range values are written (truncated), not rejected and not panicking: a PPP type with bit
    0x100 set goes out as ONE byte, an MPLS label above 2^20 loses its high bits. -/
example :
    serView (({ PPP.fresh with pppType := 0x0121, hasPPTPHeader := true } : PPP).serializeTo (new 0 0) true true) =
      .ok { layer := { PPP.fresh with pppType := 0x0121, hasPPTPHeader := true }, err := false, bytes := [0xff, 0x03, 0x21] } ∧
    serView (({ MPLS.fresh with label := 0x100001, trafficClass := 9, ttl := 7 } : MPLS).serializeTo (new 0 0) true true) =
      .ok { layer := { MPLS.fresh with label := 0x100001, trafficClass := 9, ttl := 7 }, err := false,
            bytes := [0x00, 0x00, 0x12, 0x07] } := by
  decide

end Gp.C07.Ppp
