import Gp.Lemmas.Layers.NtpSer
/-
  C07 (engine `lntp`) — NTP serialization never panics; the output depends only on the layer's
  fields, the payload and the options.  (VRRPv2 has no SerializeTo.)

  Model: `NTP.serializeTo` (Gp/Model/Layers/Ntp.lean) transcribes `(*NTP).SerializeTo` statement by
  statement OVER the C18 buffer model: `PrependBytes(48)` hands out a window onto memory that holds
  whatever the buffer held before (stale bytes of earlier packets, zeros of a fresh allocation), every
  `data[i] = …`, `PutUint32/64(data[a:b], …)` is a store through such a window (with Go's bounds checks
  as `.panic`), `AppendBytes(len(ext))` + `copy` put the extension bytes behind the current contents.

  `serView` is what a caller can observe: the receiver afterwards, the error flag and — when no error
  was returned — `Bytes()`.  `ntpSerSpec` (Gp/Lemmas/Layers/NtpSer.lean) is the pure functional
  specification; `Gp.C18.Inv` is the representation invariant of the serialize buffer, proved in C18
  for every buffer reachable from the constructors by any history.
-/
namespace Gp.C07.Ntp
open Gp Gp.SBuf Gp.Ntp Gp.C18

/-- `(*NTP).SerializeTo` never panics: EVERY value of the public fields (bit fields beyond their
    widths, any int8 Poll/Precision, extension bytes of any length), every option set, every buffer
    state whatsoever (not only buffers satisfying the invariant). -/
theorem serialize_total (l : NTP) (b : SBuf) (fix csum : Bool) (k : PanicKind) :
    l.serializeTo b fix csum ≠ .panic k := ntp_serializeTo_no_panic l b fix csum k

/-- The same for the `Res (SBuf × Layer)` view of the brief. -/
theorem serialize_total_view (l : NTP) (b : SBuf) (fix csum : Bool) (k : PanicKind) :
    serializeNtp l b fix csum ≠ .panic k := by
  unfold serializeNtp
  have := ntp_serializeTo_no_panic l b fix csum
  split
  · split <;> exact fun h => nomatch h
  · exact fun h => nomatch h
  · rename_i k' hk; exact absurd hk (this k')

/-- Refinement: on every buffer satisfying the invariant the observable outcome is the pure function
    `ntpSerSpec` of (layer, payload = current buffer contents): never an error, the receiver
    untouched, bytes = the 48 header bytes ++ payload ++ ExtensionBytes.  In particular every one of
    the 48 + |ext| requested bytes is written: nothing of the buffer's past shows through. -/
theorem serialize_refines (l : NTP) (b : SBuf) (fix csum : Bool) (h : Inv b) :
    serView (l.serializeTo b fix csum) = .ok (ntpSerSpec l (contents b)) := ntp_serView l b fix csum h

/-- Buffer independence: two buffers with equal contents (= the payload) but arbitrary capacity,
    arbitrary stale bytes before/behind the contents and arbitrary history — and any two option
    sets — give the same receiver, the same error flag and the same bytes. -/
theorem serialize_buffer_independent (l : NTP) (b1 b2 : SBuf) (fix1 csum1 fix2 csum2 : Bool)
    (h1 : Inv b1) (h2 : Inv b2) (hc : contents b1 = contents b2) :
    serView (l.serializeTo b1 fix1 csum1) = serView (l.serializeTo b2 fix2 csum2) := by
  rw [serialize_refines l b1 fix1 csum1 h1, serialize_refines l b2 fix2 csum2 h2, hc]

/-- … stated over histories: any two buffers produced from any constructor hints by any sequences
    of prepend/append/clear/push whose final contents agree. -/
theorem serialize_history_independent (l : NTP) (p1 a1 p2 a2 : Nat) (ops1 ops2 : List Op)
    (fix csum : Bool) (hc : contents (run (new p1 a1) ops1) = contents (run (new p2 a2) ops2)) :
    serView (l.serializeTo (run (new p1 a1) ops1) fix csum) =
      serView (l.serializeTo (run (new p2 a2) ops2) fix csum) :=
  serialize_buffer_independent l _ _ fix csum fix csum (inv_run_from _ ops1 (inv_new' p1 a1))
    (inv_run_from _ ops2 (inv_new' p2 a2)) hc

/-- FixLengths / ComputeChecksums are irrelevant for this layer (the header has neither a length
    nor a checksum field). -/
theorem serialize_opts_irrelevant (l : NTP) (b : SBuf) (f1 c1 f2 c2 : Bool) :
    l.serializeTo b f1 c1 = l.serializeTo b f2 c2 := rfl

/-- The shape of the output: header bytes of the layer, then the payload, then the extension
    bytes; 48 + |payload| + |ext| bytes in all. -/
theorem serialize_output (l : NTP) (b : SBuf) (fix csum : Bool) (h : Inv b) :
    ∃ s, serView (l.serializeTo b fix csum) = .ok s ∧ s.err = false ∧ s.layer = l ∧
      s.bytes = ntpEncode l ++ contents b ++ l.extensionBytes ∧
      s.bytes.length = 48 + (contents b).length + l.extensionBytes.length :=
  ⟨_, serialize_refines l b fix csum h, rfl, rfl, rfl, by
    simp only [ntpSerSpec, List.length_append, ntpEncode_length]⟩

/-- Idempotence: `NTP.SerializeTo` never modifies its receiver, so serialising the layer again over
    the same payload — in any buffer — gives the same bytes. -/
theorem serialize_idempotent (l : NTP) (b b' : SBuf) (fix csum : Bool)
    (h : Inv b) (h' : Inv b') (hc : contents b' = contents b) :
    ∃ s, serView (l.serializeTo b fix csum) = .ok s ∧ s.layer = l ∧
         serView (s.layer.serializeTo b' fix csum) = .ok s := by
  refine ⟨_, serialize_refines l b fix csum h, rfl, ?_⟩
  show serView (l.serializeTo b' fix csum) = _
  rw [serialize_refines _ b' fix csum h', hc]

/-! ## Non-vacuity -/

set_option maxRecDepth 20000 in
/-- A dirty, pre-sized buffer holding a 3-byte payload: stale 0xA5 bytes around the contents; every
    requested byte is written; the extension byte lands BEHIND the payload. -/
example :
    let junk : List UInt8 := List.replicate 70 0xA5
    let b := step (clear (step (step (new 3 1) (.append junk)) (.prepend junk))) (.prepend [0xDE, 0xAD, 0xBF])
    let l : NTP := { NTP.fresh with leapIndicator := 3, version := 4, mode := 3, stratum := 2, poll := -6,
                                    precision := -20, rootDelay := 1, rootDispersion := 2, referenceID := 3,
                                    referenceTimestamp := 4, originTimestamp := 5, receiveTimestamp := 6,
                                    transmitTimestamp := 72057594037927943, extensionBytes := [0xAB] }
    contents b = [0xDE, 0xAD, 0xBF] ∧
    serView (l.serializeTo b true false) =
      .ok { layer := l, err := false,
            bytes := [0xE3, 2, 0xFA, 0xEC] ++ [0,0,0,1] ++ [0,0,0,2] ++ [0,0,0,3] ++ [0,0,0,0,0,0,0,4] ++
              [0,0,0,0,0,0,0,5] ++ [0,0,0,0,0,0,0,6] ++ [1,0,0,0,0,0,0,7] ++ [0xDE, 0xAD, 0xBF] ++ [0xAB] } := by
  decide

set_option maxRecDepth 20000 in
/-- Out-of-range bit fields are masked, not rejected (LI 4 → 0, Version 9 → 1, Mode 15 → 7). -/
example :
    let l : NTP := { NTP.fresh with leapIndicator := 4, version := 9, mode := 15 }
    serView (l.serializeTo (new 0 0) false false) =
      .ok { layer := l, err := false, bytes := 0x0F :: List.replicate 47 0 } := by
  decide

end Gp.C07.Ntp
