import Gp.Lemmas.Layers.EapSer2
/-
  C07 (engine `leap`) — EAP, EAPOL and EAPOL-Key serialization never panics; the output depends only
  on the layer's fields, the payload and the options.

  Model: `EAP.serializeTo`, `EAPOL.serializeTo`, `EAPOLKey.serializeTo` (Gp/Model/Layers/Eap.lean)
  transcribe the three SerializeTo methods statement by statement OVER the C18 buffer model:
  `PrependBytes` hands out a window onto memory that holds whatever the buffer held before (stale
  bytes of earlier packets, zeros of a fresh allocation), every `PutUint16/64`, `buf[i] = …` and
  `copy` is a store through such a window (with Go's bounds checks as `.panic`).
  The model is the code with patches leap-1 (EAP) and leap-4 (EAPOL-Key); `EAPOLKey.serializeToPreFix`
  is the code before leap-4, for which buffer independence FAILS
  (`prefix_eapolkey_dirty_buffer_counterexample`).

  `serView` is what a caller can observe: the receiver afterwards, the error flag and — when no error
  was returned — `Bytes()`.  `eapSerSpec`/`eapolSerSpec`/`keySerSpec` (Gp/Lemmas/Layers/EapSer.lean) are
  the pure functional specifications; `Gp.C18.Inv` is the representation invariant of the serialize
  buffer, proved in C18 for every buffer reachable from the constructors by any history.
-/
namespace Gp.C07.Eap
open Gp Gp.SBuf Gp.Eap Gp.C18

/-! ## EAP -/

/-- `(*EAP).SerializeTo` never panics: EVERY value of the public fields (TypeData of any length, a
    Length field that disagrees with it, Type 0 with data, a Type without data), every option set,
    every buffer state whatsoever (not only buffers satisfying the invariant). -/
theorem serialize_total (l : EAP) (b : SBuf) (fix csum : Bool) (k : PanicKind) :
    l.serializeTo b fix csum ≠ .panic k := eap_serializeTo_no_panic l b fix csum k

/-- The same for the `Res (SBuf × Layer)` view of the brief. -/
theorem serialize_total_view (l : EAP) (b : SBuf) (fix csum : Bool) (k : PanicKind) :
    serializeEap l b fix csum ≠ .panic k := by
  unfold serializeEap
  have := eap_serializeTo_no_panic l b fix csum
  split
  · split <;> exact fun h => nomatch h
  · exact fun h => nomatch h
  · rename_i k' hk; exact absurd hk (this k')

/-- The serializer before patch leap-1 did not panic either (its defect is a wrong Length / a
    dropped Type byte, see C06). -/
theorem serialize_total_prefix (l : EAP) (b : SBuf) (fix csum : Bool) (k : PanicKind) :
    l.serializeToPreFix b fix csum ≠ .panic k := eap_serializeToPreFix_no_panic l b fix csum k

/-- Refinement: on every buffer satisfying the invariant the observable outcome is the pure function
    `eapSerSpec` of (layer, payload = current buffer contents, FixLengths).  In particular every one of
    the requested bytes (4, or 5 + |TypeData|) is written — the `copy` covers the rest of the window
    exactly —: nothing of the buffer's past shows through.  SerializeTo never returns an error. -/
theorem serialize_refines (l : EAP) (b : SBuf) (fix csum : Bool) (h : Inv b) :
    serView (l.serializeTo b fix csum) = .ok (eapSerSpec l (contents b) fix) := eap_serView l b fix csum h

/-- Buffer independence: two buffers with equal contents (= the payload) but arbitrary capacity,
    arbitrary stale bytes before/behind the contents and arbitrary history give the same receiver,
    the same error flag and the same bytes. -/
theorem serialize_buffer_independent (l : EAP) (b1 b2 : SBuf) (fix csum : Bool)
    (h1 : Inv b1) (h2 : Inv b2) (hc : contents b1 = contents b2) :
    serView (l.serializeTo b1 fix csum) = serView (l.serializeTo b2 fix csum) := by
  rw [serialize_refines l b1 fix csum h1, serialize_refines l b2 fix csum h2, hc]

/-- … stated over histories: any two buffers produced from any constructor hints by any sequences
    of prepend/append/clear/push whose final contents agree. -/
theorem serialize_history_independent (l : EAP) (p1 a1 p2 a2 : Nat) (ops1 ops2 : List Op)
    (fix csum : Bool) (hc : contents (run (new p1 a1) ops1) = contents (run (new p2 a2) ops2)) :
    serView (l.serializeTo (run (new p1 a1) ops1) fix csum) =
      serView (l.serializeTo (run (new p2 a2) ops2) fix csum) :=
  serialize_buffer_independent l _ _ fix csum (inv_run_from _ ops1 (inv_new' p1 a1))
    (inv_run_from _ ops2 (inv_new' p2 a2)) hc

/-- ComputeChecksums is irrelevant for this layer. -/
theorem serialize_csum_irrelevant (l : EAP) (b : SBuf) (fix c1 c2 : Bool) :
    l.serializeTo b fix c1 = l.serializeTo b fix c2 := rfl

/-- Idempotence: serialising the (mutated) receiver again over the same payload — in any buffer —
    gives the same bytes and changes the receiver no further (FixLengths stores the size, which does
    not depend on Length). -/
theorem serialize_idempotent (l : EAP) (b b' : SBuf) (fix csum : Bool)
    (h : Inv b) (h' : Inv b') (hc : contents b' = contents b) :
    ∃ s, serView (l.serializeTo b fix csum) = .ok s ∧
         serView (s.layer.serializeTo b' fix csum) = .ok s := by
  refine ⟨_, serialize_refines l b fix csum h, ?_⟩
  rw [serialize_refines _ b' fix csum h', hc, eapSerSpec_idem]

/-! ## EAPOL -/

theorem serialize_total_eapol (l : EAPOL) (b : SBuf) (fix csum : Bool) (k : PanicKind) :
    l.serializeTo b fix csum ≠ .panic k := eapol_serializeTo_no_panic l b fix csum k

theorem serialize_total_eapol_view (l : EAPOL) (b : SBuf) (fix csum : Bool) (k : PanicKind) :
    serializeEapol l b fix csum ≠ .panic k := by
  unfold serializeEapol
  have := eapol_serializeTo_no_panic l b fix csum
  split
  · split <;> exact fun h => nomatch h
  · exact fun h => nomatch h
  · rename_i k' hk; exact absurd hk (this k')

/-- Always succeeds; the four requested bytes are Version, Type and the Length field as it is. -/
theorem serialize_refines_eapol (l : EAPOL) (b : SBuf) (fix csum : Bool) (h : Inv b) :
    serView (l.serializeTo b fix csum) = .ok (eapolSerSpec l (contents b)) := eapol_serView l b fix csum h

theorem serialize_buffer_independent_eapol (l : EAPOL) (b1 b2 : SBuf) (fix1 csum1 fix2 csum2 : Bool)
    (h1 : Inv b1) (h2 : Inv b2) (hc : contents b1 = contents b2) :
    serView (l.serializeTo b1 fix1 csum1) = serView (l.serializeTo b2 fix2 csum2) := by
  rw [serialize_refines_eapol l b1 fix1 csum1 h1, serialize_refines_eapol l b2 fix2 csum2 h2, hc]

/-- EAPOL.SerializeTo never modifies its receiver, so repeating the call gives the same outcome. -/
theorem serialize_idempotent_eapol (l : EAPOL) (b b' : SBuf) (fix csum : Bool)
    (h : Inv b) (h' : Inv b') (hc : contents b' = contents b) :
    ∃ s, serView (l.serializeTo b fix csum) = .ok s ∧ s.layer = l ∧
         serView (s.layer.serializeTo b' fix csum) = .ok s := by
  refine ⟨_, serialize_refines_eapol l b fix csum h, rfl, ?_⟩
  show serView (l.serializeTo b' fix csum) = _
  rw [serialize_refines_eapol _ b' fix csum h', hc]

/-! ## EAPOL-Key -/

/-- `(*EAPOLKey).SerializeTo` never panics: every value of the public fields — Nonce / IV / MIC of ANY
    length (nil, short, exact, longer than the field), out-of-range KeyDescriptorVersion / KeyType /
    KeyIndex, any EncryptedKeyData, a KeyDataLength that disagrees with it —, every option set, every
    buffer state; before (`zp = false`) and after (`zp = true`) patch leap-4. -/
theorem serialize_total_eapolkey (zp : Bool) (l : EAPOLKey) (b : SBuf) (fix csum : Bool) (k : PanicKind) :
    EAPOLKey.serializeWith zp l b fix csum ≠ .panic k := key_serializeWith_no_panic zp l b fix csum k

theorem serialize_total_eapolkey_view (l : EAPOLKey) (b : SBuf) (fix csum : Bool) (k : PanicKind) :
    serializeEapolKey l b fix csum ≠ .panic k := by
  unfold serializeEapolKey EAPOLKey.serializeTo
  have := key_serializeWith_no_panic true l b fix csum
  split
  · split <;> exact fun h => nomatch h
  · exact fun h => nomatch h
  · rename_i k' hk; exact absurd hk (this k')

/-- Refinement (with leap-4): the observable outcome is the pure function `keySerSpec` of (layer,
    payload): all 95 + |EncryptedKeyData| requested bytes are written — the three fixed-size fields
    as the first 32/16/16 bytes of Nonce/IV/MIC, ZERO padded (`pad`) — and the receiver is unchanged.
    Never an error. -/
theorem serialize_refines_eapolkey (l : EAPOLKey) (b : SBuf) (fix csum : Bool) (h : Inv b) :
    serView (l.serializeTo b fix csum) = .ok (keySerSpec l (contents b)) := key_serView l b fix csum h

theorem serialize_buffer_independent_eapolkey (l : EAPOLKey) (b1 b2 : SBuf) (fix1 csum1 fix2 csum2 : Bool)
    (h1 : Inv b1) (h2 : Inv b2) (hc : contents b1 = contents b2) :
    serView (l.serializeTo b1 fix1 csum1) = serView (l.serializeTo b2 fix2 csum2) := by
  rw [serialize_refines_eapolkey l b1 fix1 csum1 h1, serialize_refines_eapolkey l b2 fix2 csum2 h2, hc]

theorem serialize_history_independent_eapolkey (l : EAPOLKey) (p1 a1 p2 a2 : Nat) (ops1 ops2 : List Op)
    (fix csum : Bool) (hc : contents (run (new p1 a1) ops1) = contents (run (new p2 a2) ops2)) :
    serView (l.serializeTo (run (new p1 a1) ops1) fix csum) =
      serView (l.serializeTo (run (new p2 a2) ops2) fix csum) :=
  serialize_buffer_independent_eapolkey l _ _ fix csum fix csum (inv_run_from _ ops1 (inv_new' p1 a1))
    (inv_run_from _ ops2 (inv_new' p2 a2)) hc

theorem serialize_idempotent_eapolkey (l : EAPOLKey) (b b' : SBuf) (fix csum : Bool)
    (h : Inv b) (h' : Inv b') (hc : contents b' = contents b) :
    ∃ s, serView (l.serializeTo b fix csum) = .ok s ∧ s.layer = l ∧
         serView (s.layer.serializeTo b' fix csum) = .ok s := by
  refine ⟨_, serialize_refines_eapolkey l b fix csum h, rfl, ?_⟩
  show serView (l.serializeTo b' fix csum) = _
  rw [serialize_refines_eapolkey _ b' fix csum h', hc]

set_option maxRecDepth 20000 in
/-- The serializer BEFORE leap-4 violates buffer independence: for `&EAPOLKey{}` (nil Nonce, IV, MIC)
    the 64 bytes of those fields are requested and never written; a fresh buffer shows zeros there,
    a cleared buffer that held 0xA5 bytes shows 0xA5 (bytes 13… of the frame). -/
theorem prefix_eapolkey_dirty_buffer_counterexample :
    ¬ (∀ (l : EAPOLKey) (b1 b2 : SBuf) (fix csum : Bool), Inv b1 → Inv b2 → contents b1 = contents b2 →
        serView (l.serializeToPreFix b1 fix csum) = serView (l.serializeToPreFix b2 fix csum)) := by
  intro h
  have := h EAPOLKey.fresh (new 0 0) (clear (step (new 0 0) (.prepend (List.replicate 100 0xA5)))) false false
    (inv_new' 0 0) (inv_clear' _ (inv_step' _ _ (inv_new' 0 0))) (by decide)
  have h2 := congrArg (fun r => match r with | Res.ok s => s.bytes.take 14 | _ => []) this
  revert h2
  decide

/-! ## Non-vacuity -/

set_option maxRecDepth 8000 in
/-- A dirty, pre-sized buffer holding a 3-byte payload: stale 0xA5 bytes around the contents; the
    Length field 77 is repaired by FixLengths; every requested byte is written. -/
example :
    let junk : List UInt8 := List.replicate 70 0xA5
    let b := step (clear (step (step (new 3 1) (.append junk)) (.prepend junk))) (.prepend [0xDE, 0xAD, 0xBF])
    let l : EAP := { EAP.fresh with code := 2, id := 9, length := 77, typ := 1, typeData := [0x62, 0x6f, 0x62] }
    contents b = [0xDE, 0xAD, 0xBF] ∧
    serView (l.serializeTo b true false) =
      .ok { layer := { l with length := 8 }, err := false, bytes := [2, 9, 0, 8, 1, 0x62, 0x6f, 0x62, 0xDE, 0xAD, 0xBF] } ∧
    -- without FixLengths the Length field goes out as it is
    serView (l.serializeTo b false false) =
      .ok { layer := l, err := false, bytes := [2, 9, 0, 77, 1, 0x62, 0x6f, 0x62, 0xDE, 0xAD, 0xBF] } ∧
    -- a Request/Identity without data keeps its Type byte; a Success has none
    serView (({ EAP.fresh with code := 1, id := 7, typ := 1 } : EAP).serializeTo (new 0 0) true true) =
      .ok { layer := { EAP.fresh with code := 1, id := 7, typ := 1, length := 5 }, err := false, bytes := [1, 7, 0, 5, 1] } ∧
    serView (({ EAP.fresh with code := 3, id := 7 } : EAP).serializeTo (new 0 0) true true) =
      .ok { layer := { EAP.fresh with code := 3, id := 7, length := 4 }, err := false, bytes := [3, 7, 0, 4] } := by
  decide

example :
    serView (({ EAPOL.fresh with version := 2, typ := 3, length := 117 } : EAPOL).serializeTo
              (step (new 0 0) (.prepend [0x60])) true true) =
      .ok { layer := { EAPOL.fresh with version := 2, typ := 3, length := 117 }, err := false, bytes := [2, 3, 0, 117, 0x60] } := by
  decide

set_option maxRecDepth 20000 in
/-- EAPOL-Key with short Nonce / IV / MIC into a dirty buffer: zero padded (leap-4). -/
example :
    let b := clear (step (new 0 0) (.prepend (List.replicate 120 0xA5)))
    let l : EAPOLKey := { EAPOLKey.fresh with keyDescriptorType := 2, keyDescriptorVersion := 2, keyType := 1, keyACK := true,
                                              keyLength := 16, replayCounter := 1, nonce := [1, 2], iv := [3], mic := [4] }
    (match serView (l.serializeTo b true true) with
     | .ok s => some (s.bytes.take 16, (s.bytes.drop 43).take 4, (s.bytes.drop 76).take 3, s.bytes.length)
     | _ => none) =
      some (([2, 0, 0x8a, 0, 16, 0, 0, 0, 0, 0, 0, 0, 1, 1, 2, 0] : Bytes), ([0, 0, 3, 0] : Bytes), ([0, 4, 0] : Bytes), 95) := by
  decide

end Gp.C07.Eap
