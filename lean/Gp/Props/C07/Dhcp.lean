import Gp.Lemmas.Layers.DhcpSer
/-
  C07 (engine `ldhcp`) — DHCPv4 serialization never panics; the output depends only on the layer's
  fields, the payload and the options.

  Model: `DHCPv4.serializeTo` (Gp/Model/Layers/Dhcp.lean) transcribes SerializeTo, Len and
  DHCPOption.encode statement by statement OVER the C18 buffer model: `PrependBytes` hands out a
  window onto memory that holds whatever the buffer held before (stale bytes of earlier packets, zeros
  of a fresh allocation), every `PutUint16/32`, `data[i] = …` and `copy` is a store through such a
  window (with Go's bounds checks as `.panic`; `copy` stops at the end of the shorter operand).

  The pinned code (`.orig`) violates both halves of the property
  (`serialize_total_orig_counterexample`: an option whose Data is longer than its Length byte — e.g.
  NewDHCPOption with 300 bytes — makes the stores run past the requested slice;
  `serialize_buffer_independent_orig_counterexample`: the fixed-size fields are written with `copy`
  and a short source leaves requested bytes unwritten).  proposed_fixes/ldhcp-2 (clear the slice) and
  ldhcp-3 (validate the option sizes, return an error) repair it; the full-strength theorems are
  about that code (`.fixed`), which is what the correspondence run drives.

  `serView` is what a caller can observe: the receiver afterwards, the error flag and — when no error
  was returned — `Bytes()`.  `serSpec` (Gp/Lemmas/Layers/DhcpSer.lean) is the pure functional
  specification; `Gp.C18.Inv` is the representation invariant of the serialize buffer, proved in C18
  for every buffer reachable from the constructors by any history.
-/
namespace Gp.C07.Dhcp
open Gp Gp.SBuf Gp.Dhcp Gp.C18

/-- `(*DHCPv4).SerializeTo` never panics: EVERY value of the public fields (addresses, chaddr, sname,
    file of any lengths; options whose Length disagrees with Data, Pad/End options inside the list,
    option lists beyond 64 KiB), every option set, every buffer state whatsoever (not only buffers
    satisfying the invariant). -/
theorem serialize_total (l : DHCPv4) (b : SBuf) (fix csum : Bool) (k : PanicKind) :
    l.serializeTo .fixed b fix csum ≠ .panic k := by
  obtain ⟨o, ho⟩ := serializeTo_ok l b fix csum
  rw [ho]; exact fun h => nomatch h

/-- The same for the `Res (SBuf × Layer)` view of the brief. -/
theorem serialize_total_view (l : DHCPv4) (b : SBuf) (fix csum : Bool) (k : PanicKind) :
    serializeDhcp l b fix csum ≠ .panic k := by
  unfold serializeDhcp
  obtain ⟨o, ho⟩ := serializeTo_ok l b fix csum
  rw [ho]
  simp only
  split <;> exact fun h => nomatch h

/-- Refinement: on every buffer satisfying the invariant the observable outcome is the pure function
    `serSpec` of (layer, payload = current buffer contents, FixLengths).  In particular every one of
    the `241 + optsWidth` requested bytes is determined: nothing of the buffer's past shows through. -/
theorem serialize_refines (l : DHCPv4) (b : SBuf) (fix csum : Bool) (h : Inv b) :
    serView (l.serializeTo .fixed b fix csum) = .ok (serSpec l (contents b) fix) := dhcp_serView l b fix csum h

/-- … and the buffer still satisfies its invariant afterwards. -/
theorem serialize_keeps_inv (l : DHCPv4) (b : SBuf) (fix csum : Bool) (h : Inv b) (o : SerOut DHCPv4)
    (ho : l.serializeTo .fixed b fix csum = .ok o) (he : o.err = false) : Inv o.buf := by
  obtain ⟨o', ho', -, e', hb⟩ := serializeTo_refines l b fix csum h
  rw [ho] at ho'; cases ho'
  exact (hb (by rw [← e']; exact he)).1

/-- Buffer independence: two buffers with equal contents (= the payload) but arbitrary capacity,
    arbitrary stale bytes before/behind the contents and arbitrary history give the same receiver,
    the same error flag and the same bytes. -/
theorem serialize_buffer_independent (l : DHCPv4) (b1 b2 : SBuf) (fix csum : Bool)
    (h1 : Inv b1) (h2 : Inv b2) (hc : contents b1 = contents b2) :
    serView (l.serializeTo .fixed b1 fix csum) = serView (l.serializeTo .fixed b2 fix csum) := by
  rw [serialize_refines l b1 fix csum h1, serialize_refines l b2 fix csum h2, hc]

/-- … stated over histories: any two buffers produced from any constructor hints by any sequences
    of prepend/append/clear/push whose final contents agree. -/
theorem serialize_history_independent (l : DHCPv4) (p1 a1 p2 a2 : Nat) (ops1 ops2 : List Op)
    (fix csum : Bool) (hc : contents (run (new p1 a1) ops1) = contents (run (new p2 a2) ops2)) :
    serView (l.serializeTo .fixed (run (new p1 a1) ops1) fix csum) =
      serView (l.serializeTo .fixed (run (new p2 a2) ops2) fix csum) :=
  serialize_buffer_independent l _ _ fix csum (inv_run_from _ ops1 (inv_new' p1 a1))
    (inv_run_from _ ops2 (inv_new' p2 a2)) hc

/-- ComputeChecksums is irrelevant for this layer. -/
theorem serialize_csum_irrelevant (l : DHCPv4) (b : SBuf) (fix c1 c2 : Bool) :
    l.serializeTo .fixed b fix c1 = l.serializeTo .fixed b fix c2 := rfl

/-- When SerializeTo returns an error: exactly when some option other than Pad has a Data whose length
    is not its Length. -/
theorem serialize_error_iff (l : DHCPv4) (p : Bytes) (fix : Bool) :
    (serSpec l p fix).err = true ↔ ¬ optsConsistent l.options := by
  unfold serSpec
  cases hb : serBad l
  · simp only [Bool.false_eq_true, if_false]
    constructor
    · intro x; cases x
    · intro x; exact absurd ((serBad_iff l).mp hb) x
  · simp only [if_true]
    exact ⟨fun _ => (serBad_true l hb).2, fun _ => trivial⟩

/-- The bytes, spelled out: the 240 header bytes of the (fixed) layer — every fixed-size field its
    first n bytes, ZERO padded —, the options one behind the other, the End option, then the payload;
    `241 + optsWidth` bytes in front of the payload, of any size (no 64 KiB limit in SerializeTo). -/
theorem serialize_output (l : DHCPv4) (b : SBuf) (fix csum : Bool) (h : Inv b)
    (hc : optsConsistent l.options) :
    serView (l.serializeTo .fixed b fix csum) =
      .ok { layer := dhcpFixed l fix, err := false, bytes := dhcpEncode (dhcpFixed l fix) ++ contents b } ∧
    (dhcpEncode (dhcpFixed l fix)).length = 241 + optsWidth l.options := by
  have hb : serBad l = false := (serBad_iff l).mpr hc
  constructor
  · rw [serialize_refines l b fix csum h]
    unfold serSpec
    simp only [hb, Bool.false_eq_true, if_false]
  · unfold dhcpEncode
    simp only [List.length_append, optsBytes_length, (dhcpFixed_fields l fix).1, List.length_singleton]
    have : (hdrBytes (dhcpFixed l fix)).length = 240 := by
      simp [hdrBytes, putBe32_length, putBe16_length, padTo_length]
    omega

/-- The public `Len()` (uint16, from the Length bytes) equals the number of bytes written for
    consistent options below 64 KiB — and only then is it what SerializeTo used to request. -/
theorem len_agrees (l : DHCPv4) (hc : optsConsistent l.options) (hw : 241 + optsWidth l.options ≤ 65535) :
    l.len = 241 + optsWidth l.options := len_eq_size l hc hw

/-- Without FixLengths the receiver is not touched. -/
theorem serialize_nofix_keeps_receiver (l : DHCPv4) (p : Bytes) : (serSpec l p false).layer = l := by
  unfold serSpec dhcpFixed; split <;> rfl

/-- Idempotence: serialising the (possibly mutated) receiver again over the same payload — in any
    buffer — gives the same error flag, the same bytes, and changes the receiver no further. -/
theorem serialize_idempotent (l : DHCPv4) (b b' : SBuf) (fix csum : Bool)
    (h : Inv b) (h' : Inv b') (hc : contents b' = contents b) :
    ∃ s, serView (l.serializeTo .fixed b fix csum) = .ok s ∧
         serView (s.layer.serializeTo .fixed b' fix csum) = .ok s := by
  refine ⟨_, serialize_refines l b fix csum h, ?_⟩
  rw [serialize_refines _ b' fix csum h', hc, serSpec_idem]

/-! ### The pinned code violates both clauses -/

def serialize_total_orig_full : Prop :=
  ∀ (l : DHCPv4) (b : SBuf) (fix csum : Bool) (k : PanicKind), l.serializeTo .orig b fix csum ≠ .panic k

/-- one option whose Data (1 byte) is longer than its Length byte (0) says -/
def longData : DHCPv4 := { DHCPv4.fresh with options := [{ typ := 60, length := 0, data := [1] }] }

set_option maxRecDepth 100000 in
/-- The pinned SerializeTo panics: Len() = 243 trusts Length, the loop advances by len(Data) to
    offset 243, and the End option is stored at `data[243:][0]` (index out of range; found on the real
    code by the monitor as ldhcp:ser-panic:layers/dhcpv4.go:556 and :233/:245/:557 for longer data). -/
theorem serialize_total_orig_counterexample : ¬ serialize_total_orig_full := by
  intro h
  exact h longData (new 0 0) true true .index (by decide)

/-- What does hold for the pinned code: no panic when every option is consistent and the message fits
    in 65535 bytes (beyond that `Len()` wraps). -/
theorem serialize_total_orig_partial (l : DHCPv4) (b : SBuf) (fix csum : Bool) (k : PanicKind)
    (hc : optsConsistent l.options) (hw : 241 + optsWidth l.options ≤ 65535) :
    l.serializeTo .orig b fix csum ≠ .panic k := by
  have hl := len_eq_size l hc hw
  unfold DHCPv4.serializeTo
  simp only
  obtain ⟨o, ho⟩ := serStores_ok l (prepend b l.len).1 (prepend b l.len).2 fix
    (by have : (prepend b l.len).2.n = l.len := rfl
        rw [this, hl]; omega)
  rw [ho]; exact fun h => nomatch h

def serialize_buffer_independent_orig_full : Prop :=
  ∀ (l : DHCPv4) (b1 b2 : SBuf) (fix csum : Bool), Inv b1 → Inv b2 → contents b1 = contents b2 →
    serView (l.serializeTo .orig b1 fix csum) = serView (l.serializeTo .orig b2 fix csum)

set_option maxRecDepth 100000 in
/-- The pinned SerializeTo leaks the buffer's past: a layer built field by field (nil addresses, nil
    sname/file) requests 241 bytes and writes 13 of them; on a cleared re-used buffer the other 228
    are whatever it held (found on the real code by the monitor as ldhcp:dirty-buffer). -/
theorem serialize_buffer_independent_orig_counterexample : ¬ serialize_buffer_independent_orig_full := by
  intro h
  have := h DHCPv4.fresh (new 0 0) dirtyBuf true true (inv_new' 0 0) dirtyBuf_inv (by decide)
  revert this
  decide

/-! ### Non-vacuity -/

/-- a realistic layer built through public fields: 6-byte chaddr, nil sname/file, three options incl. Pad -/
def sample : DHCPv4 :=
  { DHCPv4.fresh with
      operation := 1
      hardwareType := 1
      xid := 0x12345678
      flags := 0x8000
      clientIP := [0, 0, 0, 0]
      nextServerIP := [10, 0, 0, 1]
      clientHWAddr := [0x00, 0x1b, 0x21, 0x3c, 0xab, 0x10]
      options := [{ typ := 53, length := 1, data := [1] }, { typ := 0, length := 0, data := [] },
                  { typ := 55, length := 3, data := [1, 3, 6] }] }

example : optsConsistent sample.options ∧ 241 + optsWidth sample.options = 250 := by decide
example : serBad sample = false ∧ serBad longData = true := by decide
set_option maxRecDepth 100000 in
example : (serSpec sample [0xde, 0xad] true).bytes.length = 252 ∧ (serSpec sample [] true).layer.hardwareLen = 6 := by decide
set_option maxRecDepth 100000 in
example : serView (sample.serializeTo .fixed dirtyBuf true true) = serView (sample.serializeTo .fixed (new 0 0) true true) :=
  serialize_buffer_independent sample _ _ true true dirtyBuf_inv (inv_new' 0 0) (by decide)

end Gp.C07.Dhcp
