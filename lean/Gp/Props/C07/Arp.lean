import Gp.Lemmas.Layers.ArpSer
/-
  C07 (engine `larp`) — ARP, Loopback and ERSPAN II serialization never panics; the output depends
  only on the layer's fields, the payload and the options.

  Model: `ARP.serializeTo`, `Loopback.serializeTo`, `ERSPANII.serializeTo` (Gp/Model/Layers/Arp.lean)
  transcribe the three SerializeTo methods statement by statement OVER the C18 buffer model:
  `PrependBytes` hands out a window onto memory that holds whatever the buffer held before (stale
  bytes of earlier packets, zeros of a fresh allocation), every `PutUint16/32`, `bytes[i] = …` and
  `copy` is a store through such a window (with Go's bounds checks as `.panic`).

  `serView` is what a caller can observe: the receiver afterwards, the error flag and — when no error
  was returned — `Bytes()`.  `arpSerSpec`/`loSerSpec`/`erSerSpec` (Gp/Lemmas/Layers/ArpSer.lean) are
  the pure functional specifications; `Gp.C18.Inv` is the representation invariant of the serialize
  buffer, proved in C18 for every buffer reachable from the constructors by any history.
-/
namespace Gp.C07.Arp
open Gp Gp.SBuf Gp.Arp Gp.C18

/-! ## ARP -/

/-- `(*ARP).SerializeTo` never panics: EVERY value of the public fields (address slices of any
    lengths, size fields that disagree with them), every option set, every buffer state whatsoever
    (not only buffers satisfying the invariant). -/
theorem serialize_total (l : ARP) (b : SBuf) (fix csum : Bool) (k : PanicKind) :
    l.serializeTo b fix csum ≠ .panic k := arp_serializeTo_no_panic l b fix csum k

/-- The same for the `Res (SBuf × Layer)` view of the brief. -/
theorem serialize_total_view (l : ARP) (b : SBuf) (fix csum : Bool) (k : PanicKind) :
    serializeArp l b fix csum ≠ .panic k := by
  unfold serializeArp
  have := arp_serializeTo_no_panic l b fix csum
  split
  · split <;> exact fun h => nomatch h
  · exact fun h => nomatch h
  · rename_i k' hk; exact absurd hk (this k')

/-- Refinement: on every buffer satisfying the invariant the observable outcome is the pure function
    `arpSerSpec` of (layer, payload = current buffer contents, FixLengths).  In particular every one
    of the `8 + |shw| + |sp| + |dhw| + |dp|` requested bytes is written (the four `copy`s cover the
    window exactly, whatever the size FIELDS say): nothing of the buffer's past shows through. -/
theorem serialize_refines (l : ARP) (b : SBuf) (fix csum : Bool) (h : Inv b) :
    serView (l.serializeTo b fix csum) = .ok (arpSerSpec l (contents b) fix) := arp_serView l b fix csum h

/-- Buffer independence: two buffers with equal contents (= the payload) but arbitrary capacity,
    arbitrary stale bytes before/behind the contents and arbitrary history give the same receiver,
    the same error flag and the same bytes. -/
theorem serialize_buffer_independent (l : ARP) (b1 b2 : SBuf) (fix csum : Bool)
    (h1 : Inv b1) (h2 : Inv b2) (hc : contents b1 = contents b2) :
    serView (l.serializeTo b1 fix csum) = serView (l.serializeTo b2 fix csum) := by
  rw [serialize_refines l b1 fix csum h1, serialize_refines l b2 fix csum h2, hc]

/-- … stated over histories: any two buffers produced from any constructor hints by any sequences
    of prepend/append/clear/push whose final contents agree. -/
theorem serialize_history_independent (l : ARP) (p1 a1 p2 a2 : Nat) (ops1 ops2 : List Op)
    (fix csum : Bool) (hc : contents (run (new p1 a1) ops1) = contents (run (new p2 a2) ops2)) :
    serView (l.serializeTo (run (new p1 a1) ops1) fix csum) =
      serView (l.serializeTo (run (new p2 a2) ops2) fix csum) :=
  serialize_buffer_independent l _ _ fix csum (inv_run_from _ ops1 (inv_new' p1 a1))
    (inv_run_from _ ops2 (inv_new' p2 a2)) hc

/-- ComputeChecksums is irrelevant for this layer. -/
theorem serialize_csum_irrelevant (l : ARP) (b : SBuf) (fix c1 c2 : Bool) :
    l.serializeTo b fix c1 = l.serializeTo b fix c2 := rfl

/-- The bytes do not depend on the payload's content, only follow it: output = header bytes of the
    (fixed) layer ++ payload; the receiver afterwards does not depend on the payload at all. -/
theorem serialize_output (l : ARP) (b : SBuf) (fix csum : Bool) (h : Inv b)
    (h1 : ¬ (fix = true ∧ l.sourceHwAddress.length ≠ l.dstHwAddress.length))
    (h2 : ¬ (fix = true ∧ l.sourceProtAddress.length ≠ l.dstProtAddress.length)) :
    serView (l.serializeTo b fix csum) =
      .ok { layer := arpFixed l fix, err := false, bytes := arpEncode (arpFixed l fix) ++ contents b } := by
  rw [serialize_refines l b fix csum h]
  unfold arpSerSpec
  rw [if_neg h1, if_neg h2]

/-- Idempotence: serialising the (possibly mutated) receiver again over the same payload — in any
    buffer — gives the same error flag, the same bytes, and changes the receiver no further.  This
    includes both error returns (the second one leaves HwAddressSize overwritten: the repeated call
    overwrites it with the same value and fails again). -/
theorem serialize_idempotent (l : ARP) (b b' : SBuf) (fix csum : Bool)
    (h : Inv b) (h' : Inv b') (hc : contents b' = contents b) :
    ∃ s, serView (l.serializeTo b fix csum) = .ok s ∧
         serView (s.layer.serializeTo b' fix csum) = .ok s := by
  refine ⟨_, serialize_refines l b fix csum h, ?_⟩
  rw [serialize_refines _ b' fix csum h', hc, arpSerSpec_idem]

/-! ## Loopback -/

theorem serialize_total_loopback (l : Loopback) (b : SBuf) (fix csum : Bool) (k : PanicKind) :
    l.serializeTo b fix csum ≠ .panic k := lo_serializeTo_no_panic l b fix csum k

theorem serialize_total_loopback_view (l : Loopback) (b : SBuf) (fix csum : Bool) (k : PanicKind) :
    serializeLoopback l b fix csum ≠ .panic k := by
  unfold serializeLoopback
  have := lo_serializeTo_no_panic l b fix csum
  split
  · split <;> exact fun h => nomatch h
  · exact fun h => nomatch h
  · rename_i k' hk; exact absurd hk (this k')

/-- Always succeeds; the four requested bytes are the little-endian family value. -/
theorem serialize_refines_loopback (l : Loopback) (b : SBuf) (fix csum : Bool) (h : Inv b) :
    serView (l.serializeTo b fix csum) = .ok (loSerSpec l (contents b)) := lo_serView l b fix csum h

theorem serialize_buffer_independent_loopback (l : Loopback) (b1 b2 : SBuf) (fix1 csum1 fix2 csum2 : Bool)
    (h1 : Inv b1) (h2 : Inv b2) (hc : contents b1 = contents b2) :
    serView (l.serializeTo b1 fix1 csum1) = serView (l.serializeTo b2 fix2 csum2) := by
  rw [serialize_refines_loopback l b1 fix1 csum1 h1, serialize_refines_loopback l b2 fix2 csum2 h2, hc]

/-- Loopback.SerializeTo never modifies its receiver, so repeating the call gives the same outcome. -/
theorem serialize_idempotent_loopback (l : Loopback) (b b' : SBuf) (fix csum : Bool)
    (h : Inv b) (h' : Inv b') (hc : contents b' = contents b) :
    ∃ s, serView (l.serializeTo b fix csum) = .ok s ∧ s.layer = l ∧
         serView (s.layer.serializeTo b' fix csum) = .ok s := by
  refine ⟨_, serialize_refines_loopback l b fix csum h, rfl, ?_⟩
  show serView (l.serializeTo b' fix csum) = _
  rw [serialize_refines_loopback _ b' fix csum h', hc]

/-! ## ERSPAN II -/

theorem serialize_total_erspan2 (l : ERSPANII) (b : SBuf) (fix csum : Bool) (k : PanicKind) :
    l.serializeTo b fix csum ≠ .panic k := er_serializeTo_no_panic l b fix csum k

theorem serialize_total_erspan2_view (l : ERSPANII) (b : SBuf) (fix csum : Bool) (k : PanicKind) :
    serializeErspan2 l b fix csum ≠ .panic k := by
  unfold serializeErspan2
  have := er_serializeTo_no_panic l b fix csum
  split
  · split <;> exact fun h => nomatch h
  · exact fun h => nomatch h
  · rename_i k' hk; exact absurd hk (this k')

/-- Always succeeds (out-of-range field values are masked, not rejected); all eight requested bytes
    are written. -/
theorem serialize_refines_erspan2 (l : ERSPANII) (b : SBuf) (fix csum : Bool) (h : Inv b) :
    serView (l.serializeTo b fix csum) = .ok (erSerSpec l (contents b)) := er_serView l b fix csum h

theorem serialize_buffer_independent_erspan2 (l : ERSPANII) (b1 b2 : SBuf) (fix1 csum1 fix2 csum2 : Bool)
    (h1 : Inv b1) (h2 : Inv b2) (hc : contents b1 = contents b2) :
    serView (l.serializeTo b1 fix1 csum1) = serView (l.serializeTo b2 fix2 csum2) := by
  rw [serialize_refines_erspan2 l b1 fix1 csum1 h1, serialize_refines_erspan2 l b2 fix2 csum2 h2, hc]

theorem serialize_idempotent_erspan2 (l : ERSPANII) (b b' : SBuf) (fix csum : Bool)
    (h : Inv b) (h' : Inv b') (hc : contents b' = contents b) :
    ∃ s, serView (l.serializeTo b fix csum) = .ok s ∧ s.layer = l ∧
         serView (s.layer.serializeTo b' fix csum) = .ok s := by
  refine ⟨_, serialize_refines_erspan2 l b fix csum h, rfl, ?_⟩
  show serView (l.serializeTo b' fix csum) = _
  rw [serialize_refines_erspan2 _ b' fix csum h', hc]

/-! ## Non-vacuity -/

set_option maxRecDepth 8000 in
/-- A dirty, pre-sized buffer holding a 3-byte payload: stale 0xA5 bytes around the contents; the
    size fields 9/9 are repaired by FixLengths; every requested byte is written. -/
example :
    let junk : List UInt8 := List.replicate 70 0xA5
    let b := step (clear (step (step (new 3 1) (.append junk)) (.prepend junk))) (.prepend [0xDE, 0xAD, 0xBF])
    let l : ARP := { ARP.fresh with addrType := 1, protocol := 0x0800, hwAddressSize := 9, protAddressSize := 9,
                                    operation := 2, sourceHwAddress := [1,2], sourceProtAddress := [3],
                                    dstHwAddress := [4,5], dstProtAddress := [6] }
    contents b = [0xDE, 0xAD, 0xBF] ∧
    serView (l.serializeTo b true false) =
      .ok { layer := { l with hwAddressSize := 2, protAddressSize := 1 }, err := false,
            bytes := [0,1,8,0,2,1,0,2, 1,2, 3, 4,5, 6, 0xDE,0xAD,0xBF] } ∧
    -- without FixLengths the size fields go out as they are
    serView (l.serializeTo b false false) =
      .ok { layer := l, err := false, bytes := [0,1,8,0,9,9,0,2, 1,2, 3, 4,5, 6, 0xDE,0xAD,0xBF] } := by
  decide

/-- Mismatched address lengths are errors (under FixLengths), not panics; the second check leaves
    HwAddressSize overwritten. -/
example :
    let l : ARP := { ARP.fresh with hwAddressSize := 7, sourceHwAddress := [1,2], dstHwAddress := [4,5],
                                    sourceProtAddress := [3], dstProtAddress := [] }
    serView (l.serializeTo (new 0 0) true true) = .ok { layer := { l with hwAddressSize := 2 }, err := true, bytes := [] } ∧
    (serView (({ l with dstHwAddress := [4] } : ARP).serializeTo (new 0 0) true true)) =
      .ok { layer := { l with dstHwAddress := [4] }, err := true, bytes := [] } := by decide

example :
    serView (({ Loopback.fresh with family := 30 } : Loopback).serializeTo (step (new 0 0) (.prepend [0x60])) true true) =
      .ok { layer := { Loopback.fresh with family := 30 }, err := false, bytes := [30,0,0,0,0x60] } := by decide

/-- the repo's own test vector (erspan2_test.go) -/
example :
    let l : ERSPANII := { ERSPANII.fresh with version := 1, vlan := 0x2aa, cos := 4, trunkEncap := 2, isTruncated := true,
                                              sessionID := 0x2aa, reserved := 0x155, index := 0xF0F0F }
    serView (l.serializeTo (new 0 0) false false) =
      .ok { layer := l, err := false, bytes := [0x12, 0xaa, 0x96, 0xaa, 0x15, 0x5F, 0x0F, 0x0F] } := by decide

end Gp.C07.Arp
