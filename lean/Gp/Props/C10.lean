import Gp.Model.Asm
namespace Gp.C10
end Gp.C10
