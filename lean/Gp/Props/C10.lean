import Gp.Lemmas.AsmSeq
import Gp.Lemmas.AsmPool
import Gp.Lemmas.AsmWrap
import Gp.Lemmas.AsmGap
import Gp.Lemmas.AsmFinal
/-
  C10 — tcpassembly: TCP bytes delivered in order, exactly once, gaps announced.

  Model: `Gp/Model/Asm.lean` (transcription of tcpassembly/assembly.go, parametric in the sequence
  arithmetic; `wrapArith` = the definitions regenerated from the source into `Gp/Gen/SeqAsm.lean`).
  Property theorems only; helper lemmas live in `Gp/Lemmas/Asm*.lean`.
-/
namespace Gp.C10
open Gp Gp.Asm Gp.Gen

/-! ## 1. Sequence arithmetic (regenerated from assembly.go on every run) -/

/-- `Sequence.Difference` is the true distance for every pair of sequence numbers less than 2^30
    apart, wherever they lie in the 32-bit space (in particular across the wrap). -/
theorem asm_seq_diff_correct (s k : Int) (hs : 0 ≤ s) (hs' : s < 4294967296)
    (hk : -1073741824 < k) (hk' : k < 1073741824) :
    SeqAsm.difference s ((s + k) % 4294967296) = k :=
  difference_correct s k hs hs' hk hk'

example : SeqAsm.difference 4294967295 0 = 1 := by decide
example : SeqAsm.difference 0 4294967295 = -1 := by decide
example : SeqAsm.difference 4294967000 ((4294967000 + 5000) % 4294967296) = 5000 := by decide

/-- `Sequence.Add` is addition modulo 2^32 (result again a sequence number). -/
theorem asm_seq_add_mod (s n : Int) :
    SeqAsm.add s n = (s + n) % 4294967296 ∧ 0 ≤ SeqAsm.add s n ∧ SeqAsm.add s n < 4294967296 :=
  add_mod s n

/-! ## 2. The `panic("wtf")` guard of insertIntoConn is unreachable -/

/-- For EVERY history of Assemble / Flush* / FlushAll / option changes (any segments whatsoever, any
    number of connections) the model of the real code never reaches `panic("wtf")` (nor any other
    panic): every history runs to completion. -/
theorem asm_no_wtf (ops : List Op) (hwf : ∀ op ∈ ops, WfOp op) :
    ∃ x, run wrapArith {} ops = .ok x := by
  have hA := wrap_diff_self
  obtain ⟨x, hx, _⟩ := run_preserves (noWtf_connInv wrapArith hA) {} ops (poolAll_empty _) (by
    intro op hop
    have := hwf op hop
    cases op with
    | seg s =>
      simp only [WfOp] at this
      simp only [OpPre, invalidSeq, SeqAsm.invalidSequence]
      omega
    | _ => trivial)
  exact ⟨x, hx⟩

/-- the guard is not vacuous: a state with the first page at nextSeq does panic -/
example : insertIntoConn wrapArith {} ⟨5, [⟨5, ⟨[], 0, false, false, 0⟩⟩], 1, 0, 0⟩ 1 9 [1] false 0
    = .panic .explicit := by decide

/-! ## 3. Soundness: in order, exactly once, nothing altered — for every history

  Vocabulary (`Gp/Model/AsmSpec.lean`): `SegOk snd s` — segment `s` carries the bytes of its sender's
  stream at the position its sequence number says (SYN at `isn`, byte `j` at `isn+1+j` mod 2^32);
  `replay S pos items pos'` — the observer replays the delivered items against `S`
  (`pos += skip; bytes = S[pos : pos+len]; pos += len`; the first item either carries Start and is a
  prefix of `S`, or has skip −1 and is some slice of `S`);  `itemsOf key sid evs` — everything
  delivered to stream number `sid` of connection `key`. -/

/-- **asm_sound.**  Fix for every connection a sender stream `S` (shorter than 2^30) and an initial
    sequence number anywhere in the 32-bit space.  For EVERY history of operations whose segments are
    consistent with their senders — any segmentation, any arrival order, any duplication and
    overlapping retransmission, SYN first / late / never / retransmitted with data, FIN/RST, any
    number of interleaved connections, any interleaved FlushOlderThan / FlushWithOptions / FlushAll,
    any page limits and limit changes — the real-arithmetic model runs without panic and, for every
    stream it ever created, the delivered items replay against the sender's stream: no byte is
    duplicated, reordered, altered or invented, and every skip is accounted for. -/
theorem asm_sound (snd : Nat → Sender) (hsnd : SendersOk snd) (ops : List Op)
    (hops : ∀ op ∈ ops, OpOk snd op) :
    ∃ P outs, run wrapArith {} ops = .ok (P, outs) ∧
      ∀ key sid, ∃ pos, replay (snd key).S none (itemsOf key sid (allEvs outs)) pos := by
  obtain ⟨P, outs, h1, Pf, h2, _⟩ := wrap_sound snd hsnd ops hops
  exact ⟨P, outs, h1, fun key sid => h2.all key sid⟩

/-- hypotheses of `asm_sound` are satisfiable by a non-trivial history: a 3-byte stream whose
    sequence numbers straddle the 2^32 wrap, delivered out of order with a retransmission. -/
example : ∃ (snd : Nat → Sender) (ops : List Op), SendersOk snd ∧ (∀ op ∈ ops, OpOk snd op) ∧ ops.length = 4 := by
  refine ⟨fun _ => ⟨[1, 2, 3], 4294967294⟩,
    [.seg ⟨0, 4294967294, true, false, false, 0, []⟩,
     .seg ⟨0, 0, false, false, false, 1, [2, 3]⟩,
     .seg ⟨0, 4294967295, false, false, false, 2, [1, 2]⟩,
     .flushAll], ?_, ?_, rfl⟩
  · intro k; show (4294967294 : Nat) < 4294967296 ∧ [1, 2, 3].length + 2 < 1073741824; decide
  · intro op hop
    simp only [List.mem_cons, List.mem_nil_iff, or_false] at hop
    rcases hop with h | h | h | h <;> subst h
    · simp [OpOk, SegOk, slice]
    · simp only [OpOk, SegOk]; exact ⟨1, by decide, by decide, by decide, by decide⟩
    · simp only [OpOk, SegOk]; exact ⟨0, by decide, by decide, by decide, by decide⟩
    · trivial

/-- … and on that history the model delivers "1 2 3" in order (the retransmitted byte 2 is trimmed). -/
example : (run wrapArith {} [.seg ⟨0, 4294967294, true, false, false, 0, []⟩,
     .seg ⟨0, 0, false, false, false, 1, [2, 3]⟩,
     .seg ⟨0, 4294967295, false, false, false, 2, [1, 2]⟩]).isOk = true := by decide

/-! ## 4. Gaps are announced, and only when a flush or a page limit forces data out -/

/-- **asm_gap_only_on_flush (1).**  In EVERY reachable state of EVERY history (consistent segments
    or not), an `AssembleWithTimestamp` call that does not reach a page limit
    (`limitHit` is the condition of the loop in insertIntoConn, evaluated on the page counters after
    queueing the packet; in particular: always, when no limit is configured) delivers only items with
    `Skip = 0`.  Skips are emitted only by Flush* and by the limit path. -/
theorem asm_gap_only_on_flush (ops : List Op) (hwf : ∀ op ∈ ops, WfOp op) (P : Pool) (outs : List OpOut)
    (hrun : run wrapArith {} ops = .ok (P, outs)) (s : Seg) (x : Pool × List Ev)
    (hx : assemble wrapArith P s = .ok x)
    (hl : limitHit P.lim (connPages P s.key + pageCount s.bytes) (P.used + pageCount s.bytes) = false) :
    ∀ key sid items, Ev.data key sid items ∈ x.2 → ∀ r ∈ items, r.skip = 0 := by
  have hA := wrap_diff_self
  obtain ⟨y, hy, hP⟩ := run_preserves (skipZero_connInv wrapArith hA) {} ops (poolAll_empty _) (by
    intro op hop
    have := hwf op hop
    cases op with
    | seg s =>
      simp only [WfOp] at this
      simp only [OpPre, invalidSeq, SeqAsm.invalidSequence]
      omega
    | _ => trivial)
  rw [hrun] at hy
  cases hy
  exact assemble_noskip wrapArith wrap_add_valid P s x hP hl hx

/-- no limit configured ⇒ the hypothesis `limitHit … = false` of the previous theorem holds -/
theorem asm_no_limit_no_hit (L : Lim) (h1 : L.maxPer ≤ 0) (h2 : L.maxTot ≤ 0) (np used : Int) :
    limitHit L np used = false := by
  unfold limitHit
  have a : decide (L.maxPer > 0) = false := by simp; omega
  have b : decide (L.maxTot > 0) = false := by simp; omega
  rw [a, b]; rfl

/-- **asm_gap_only_on_flush (2).**  What an emitted skip means, read off `replay` (and hence, by
    `asm_sound`, true of every item of every stream): an item with skip −1 is the first item of a
    stream that never saw its start; every other skip is a natural number `k`, and the bytes that
    follow are exactly the stream `k` bytes further on — the skip equals the number of missing bytes. -/
theorem asm_skip_exact (S : Bytes) (pos : Option Nat) (r : Reasm) (pos' : Option Nat)
    (h : itemOk S pos r pos') :
    (r.skip = -1 → pos = none ∧ r.start = false) ∧
    (∀ p, pos = some p → ∃ k : Nat, r.skip = k ∧ r.bytes = slice S (p + k) r.bytes.length ∧
      pos' = some (p + k + r.bytes.length)) := by
  cases pos with
  | none =>
    refine ⟨fun _ => ⟨rfl, ?_⟩, fun p hp => by cases hp⟩
    rcases h with h | h
    · rename_i hs; rw [h.2.1] at hs; cases hs
    · exact h.1
  | some p =>
    obtain ⟨h1, k, h2, h3, h4, h5⟩ := h
    refine ⟨fun hs => ?_, fun q hq => ?_⟩
    · rw [h2] at hs; omega
    · cases hq; exact ⟨k, h2, h4, h5⟩

/-- the skip announced for a gap counts only bytes that never arrived — statement for whole histories
    with the real arithmetic, per emitted item (NOT proved in this form; see `asm_gap_missing_partial`):
    whenever an item with skip `k > 0` is delivered at replay position `p`, no segment handed to the
    stream before that item covers an offset in `[p, p+k)`. -/
def asm_gap_missing_full : Prop :=
  ∀ (snd : Nat → Sender), SendersOk snd → ∀ (ops : List Op), (∀ op ∈ ops, OpOk snd op) →
    ∀ key sid (h1 h2 : List HEv) (i1 i2 : List Reasm) (r : Reasm) (p : Nat),
      histOf key sid (runTrace wrapArith {} ops) = h1 ++ HEv.got (i1 ++ r :: i2) :: h2 →
      0 < r.skip → replay (snd key).S none (gotItems h1 ++ i1) (some p) →
      ∀ x, p ≤ x → (x : Int) < p + r.skip → ¬ fedOffsW (snd key).isn h1 x

/-- **asm_gap_missing (partial).**  Proved: in every reachable state of the offset-space twin (which
    by layer A produces exactly the callbacks of the real-arithmetic model), for every live connection
    the gap between nextSeq and its first queued page contains no byte that was ever handed to that
    connection — so the skip a flush would announce at that moment (`first.seq − nextSeq`, see
    `popPage`) counts missing bytes only.  Missing for `asm_gap_missing_full`: threading this fact
    through the item-by-item decomposition of histories (incl. the second and later releases of one
    limit loop) and transporting `fedOffs` across layer A. -/
theorem asm_gap_missing_partial (Sf : Nat → Bytes) (ops : List Op)
    (hops : ∀ op ∈ ops, OpPre (fun s => FlatSegOk (Sf s.key) s) op) :
    ∃ x, run flatArith {} ops = .ok x ∧
      ∀ key c, lookup key x.1.conns = some c → ∀ q ys, c.pages = q :: ys →
        ∀ y : Nat, c.nextSeq ≤ (y : Int) + 1 → (y : Int) + 1 < q.seq →
          ¬ fedOffs (histOf key c.sid (runTrace flatArith {} ops)) y :=
  flat_gap_missing Sf ops hops

/-! ## 5. Completeness

  `runTrace` records, besides the callbacks, to which stream each segment was handed
  (`HEv.fed`); `histOf key sid` is the history of one stream, `gotItems` its delivered items,
  `synFed h` / `fedOffsW isn h x`: a SYN / a segment covering stream offset `x` was handed to it. -/

/-- **asm_complete.**  For every consistent history and every stream it created:
    (a) the items in the stream's history are the items the stream's callbacks received;
    (b) once its SYN and every byte of the sender's stream were handed to the stream's connection —
        in any order, with any duplication, whatever flushes and limits intervened — everything is
        accounted for: the replay position is the end of the stream (nothing is still waiting, no
        arrived byte was left behind);
    (c) and if no skip was emitted (no flush or limit forced data out), the concatenation of the
        delivered bytes IS the sender's stream. -/
theorem asm_complete (snd : Nat → Sender) (hsnd : SendersOk snd) (ops : List Op)
    (hops : ∀ op ∈ ops, OpOk snd op) :
    ∃ P outs, run wrapArith {} ops = .ok (P, outs) ∧
      ∀ key sid,
        gotItems (histOf key sid (runTrace wrapArith {} ops)) = itemsOf key sid (allEvs outs) ∧
        (synFed (histOf key sid (runTrace wrapArith {} ops)) →
          (∀ x, x < (snd key).S.length → fedOffsW (snd key).isn (histOf key sid (runTrace wrapArith {} ops)) x) →
          replay (snd key).S none (itemsOf key sid (allEvs outs)) (some (snd key).S.length) ∧
          ((∀ r ∈ itemsOf key sid (allEvs outs), r.skip = 0) →
            ((itemsOf key sid (allEvs outs)).map (·.bytes)).flatten = (snd key).S)) := by
  obtain ⟨P, outs, h1, h2⟩ := wrap_complete snd hsnd ops hops
  refine ⟨P, outs, h1, fun key sid => ?_⟩
  have hit := runTrace_items wrapArith {} ops (P, outs) key sid h1
  refine ⟨hit, fun hsyn hall => ?_⟩
  obtain ⟨pos, r1, r2⟩ := h2 key sid
  have hp := r2 hsyn hall
  rw [hp, hit] at r1
  exact ⟨r1, fun hs => replay_all _ _ r1 hs⟩

/-- non-vacuity of `asm_complete`: on the wrap-straddling history of §3 the stream 0.0 was fed its SYN
    and all three bytes, and the model's callbacks concatenate to the stream. -/
example : ∃ P outs, run wrapArith {} [.seg ⟨0, 4294967294, true, false, false, 0, []⟩,
     .seg ⟨0, 0, false, false, false, 1, [2, 3]⟩,
     .seg ⟨0, 4294967295, false, false, false, 2, [1, 2]⟩] = .ok (P, outs) ∧
     ((itemsOf 0 0 (allEvs outs)).map (·.bytes)).flatten = [1, 2, 3] := ⟨_, _, rfl, by decide⟩

end Gp.C10
