import Gp.Lemmas.AsmSeq
import Gp.Lemmas.AsmPool
/-
  C10 — tcpassembly: TCP bytes delivered in order, exactly once, gaps announced.

  Model: `Gp/Model/Asm.lean` (transcription of tcpassembly/assembly.go, parametric in the sequence
  arithmetic; `wrapArith` = the definitions regenerated from the source into `Gp/Gen/SeqAsm.lean`).
  Property theorems only; helper lemmas live in `Gp/Lemmas/Asm*.lean`.
-/
namespace Gp.C10
open Gp Gp.Asm Gp.Gen

/-! ## 1. Sequence arithmetic (regenerated from assembly.go on every run) -/

/-- `Sequence.Difference` is the true distance for every pair of sequence numbers less than 2^30
    apart, wherever they lie in the 32-bit space (in particular across the wrap). -/
theorem asm_seq_diff_correct (s k : Int) (hs : 0 ≤ s) (hs' : s < 4294967296)
    (hk : -1073741824 < k) (hk' : k < 1073741824) :
    SeqAsm.difference s ((s + k) % 4294967296) = k :=
  difference_correct s k hs hs' hk hk'

example : SeqAsm.difference 4294967295 0 = 1 := by decide
example : SeqAsm.difference 0 4294967295 = -1 := by decide
example : SeqAsm.difference 4294967000 ((4294967000 + 5000) % 4294967296) = 5000 := by decide

/-- `Sequence.Add` is addition modulo 2^32 (result again a sequence number). -/
theorem asm_seq_add_mod (s n : Int) :
    SeqAsm.add s n = (s + n) % 4294967296 ∧ 0 ≤ SeqAsm.add s n ∧ SeqAsm.add s n < 4294967296 :=
  add_mod s n

/-! ## 2. The `panic("wtf")` guard of insertIntoConn is unreachable -/

/-- a segment as AssembleWithTimestamp can receive it: `t.Seq` is a uint32 -/
def WfOp : Op → Prop
  | .seg s => 0 ≤ s.seq ∧ s.seq < 4294967296
  | _ => True

/-- For EVERY history of Assemble / Flush* / FlushAll / option changes (any segments whatsoever, any
    number of connections) the model of the real code never reaches `panic("wtf")` (nor any other
    panic): every history runs to completion. -/
theorem asm_no_wtf (ops : List Op) (hwf : ∀ op ∈ ops, WfOp op) :
    ∃ x, run wrapArith {} ops = .ok x := by
  have hA : ∀ x, wrapArith.diff x x ≤ 0 := fun x => by
    show SeqAsm.difference x x ≤ 0
    rw [difference_self]; exact Int.le_refl 0
  obtain ⟨x, hx, _⟩ := run_preserves (noWtf_connInv wrapArith hA) {} ops (poolAll_empty _) (by
    intro op hop
    have := hwf op hop
    cases op with
    | seg s =>
      simp only [WfOp] at this
      simp only [OpPre, invalidSeq, SeqAsm.invalidSequence]
      omega
    | _ => trivial)
  exact ⟨x, hx⟩

/-- the guard is not vacuous: a state with the first page at nextSeq does panic -/
example : insertIntoConn wrapArith {} ⟨5, [⟨5, ⟨[], 0, false, false, 0⟩⟩], 1, 0, 0⟩ 1 9 [1] false 0
    = .panic .explicit := by decide

end Gp.C10
