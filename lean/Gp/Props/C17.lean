import Gp.Lemmas.Flow
/-
  C17 — Flows and endpoints are faithful, hashable, direction-symmetric values.

  Model: `Gp/Model/Flow.lean` (transcription of /repo/flows.go; the constants MaxEndpointSize,
  fnvBasis, fnvPrime come from the GENERATED `Gp/Gen/Flow.lean`).  Property theorems only;
  helper lemmas live in `Gp/Lemmas/Flow.lean`.  Definitions occurring in the statements
  (all in the model file):

    Endpoint.WF e := e.len ≤ MaxEndpointSize ∧ e.raw.length = MaxEndpointSize ∧
                     e.raw.drop e.len = replicate (MaxEndpointSize - e.len) 0      (zero tail)
    Flow.WF f     := the same for (slen, src) and (dlen, dst)
    Endpoint.bytes e = e.raw.take e.len          (what Raw() returns)
    structural `=`  = Go's `==` on the struct (typ, len and the WHOLE array) = map-key identity
    Reach v       := v is the zero value or is produced from reachable values by the exported
                     API (fields are unexported, so these are all values a client can hold)

  The per-layer theorems (`flow_of_decoded_X`, `conversation_reversed`) are contributed by the
  layer engines in `Gp/Props/C17/<Layer>.lean`; the value-level facts they rest on are
  `newFlow_faithful`, `newFlow_swap` and `flow_hash_symm` below.
-/
namespace Gp.C17
open Gp Gp.Flow Gp.Gen.Flow

/-! ## 1. Constructors: accept exactly ≤ MaxEndpointSize bytes, establish WF, store typ and bytes faithfully -/

/-- NewEndpoint panics (explicit `panic(...)`, flows.go:92) exactly above MaxEndpointSize. -/
theorem newEndpoint_reject (t : Int) (raw : List UInt8) :
    newEndpoint t raw = .panic .explicit ↔ raw.length > maxEndpointSize := by
  unfold newEndpoint; split <;> simp_all

theorem newEndpoint_accept (t : Int) (raw : List UInt8) :
    (∃ e, newEndpoint t raw = .ok e) ↔ raw.length ≤ maxEndpointSize := by
  unfold newEndpoint; split <;> simp_all <;> omega

/-- The endpoint made by NewEndpoint is well formed and carries exactly `typ` and the bytes. -/
theorem newEndpoint_spec {t : Int} {raw : List UInt8} {e : Endpoint}
    (h : newEndpoint t raw = .ok e) : e.WF ∧ e.typ = t ∧ e.bytes = raw ∧ e.len = raw.length := by
  unfold newEndpoint at h
  split at h
  · cases h
  · rename_i hl
    have hl : raw.length ≤ maxEndpointSize := by omega
    cases h
    exact ⟨⟨hl, copyInto_zero_length hl, copyInto_zero_drop hl⟩, rfl, copyInto_zero_take hl, rfl⟩

example : ∃ e, newEndpoint 3 [1, 2, 3, 4, 5, 6] = .ok e ∧ e.bytes = [1, 2, 3, 4, 5, 6] :=
  ⟨_, rfl, by decide⟩

/-- NewFlow panics exactly when one of the two addresses is longer than MaxEndpointSize. -/
theorem newFlow_reject (t : Int) (s d : List UInt8) :
    newFlow t s d = .panic .explicit ↔ (s.length > maxEndpointSize ∨ d.length > maxEndpointSize) := by
  unfold newFlow; split <;> simp_all

theorem newFlow_accept (t : Int) (s d : List UInt8) :
    (∃ f, newFlow t s d = .ok f) ↔ (s.length ≤ maxEndpointSize ∧ d.length ≤ maxEndpointSize) := by
  unfold newFlow; split <;> simp_all <;> omega

/-- The flow made by NewFlow is well formed and carries exactly `typ`, `src` and `dst`:
    this is the fact every per-layer `flow_of_decoded` theorem instantiates. -/
theorem newFlow_faithful {t : Int} {s d : List UInt8} {f : Flow} (h : newFlow t s d = .ok f) :
    f.WF ∧ f.typ = t ∧ f.srcBytes = s ∧ f.dstBytes = d := by
  unfold newFlow at h
  split at h
  · cases h
  · rename_i hl
    have hs : s.length ≤ maxEndpointSize := by omega
    have hd : d.length ≤ maxEndpointSize := by omega
    cases h
    exact ⟨⟨hs, hd, copyInto_zero_length hs, copyInto_zero_length hd, copyInto_zero_drop hs,
            copyInto_zero_drop hd⟩, rfl, copyInto_zero_take hs, copyInto_zero_take hd⟩

example : ∃ f, newFlow 4 [0, 80] [195, 80] = .ok f ∧ f.srcBytes = [0, 80] ∧ f.dstBytes = [195, 80] :=
  ⟨_, rfl, by decide, by decide⟩

/-- Neither constructor ever returns an error value (they panic or succeed). -/
theorem constructors_no_err (t : Int) (a b : List UInt8) :
    (newEndpoint t a).isErr = false ∧ (newFlow t a b).isErr = false := by
  unfold newEndpoint newFlow
  constructor <;> split <;> rfl

/-- FlowFromEndpoints returns an error exactly on mismatched endpoint types and never panics. -/
theorem flowFromEndpoints_err (a b : Endpoint) :
    (flowFromEndpoints a b).isErr = true ↔ a.typ ≠ b.typ := by
  unfold flowFromEndpoints; split <;> simp_all [Res.isErr]

theorem flowFromEndpoints_no_panic (a b : Endpoint) : (flowFromEndpoints a b).isPanic = false := by
  unfold flowFromEndpoints; split <;> rfl

/-- Joining two endpoints gives the flow whose endpoints are exactly those two. -/
theorem join_split {a b : Endpoint} {f : Flow} (h : flowFromEndpoints a b = .ok f) :
    f.endpoints = (a, b) ∧ f.srcEp = a ∧ f.dstEp = b := by
  unfold flowFromEndpoints at h
  split at h
  · cases h
  · rename_i ht
    have ht : a.typ = b.typ := by simpa using ht
    cases h
    cases a; cases b
    simp_all [Flow.endpoints, Flow.srcEp, Flow.dstEp]

example : ∃ a b f, newEndpoint 1 [10, 0, 0, 1] = .ok a ∧ newEndpoint 1 [10, 0, 0, 2] = .ok b ∧
    flowFromEndpoints a b = .ok f ∧ f.srcBytes = [10, 0, 0, 1] := ⟨_, _, _, rfl, rfl, rfl, by decide⟩

/-- FlowFromEndpoints over NewEndpoint is NewFlow. -/
theorem flowFromEndpoints_newEndpoint {t : Int} {s d : List UInt8} {a b : Endpoint}
    (ha : newEndpoint t s = .ok a) (hb : newEndpoint t d = .ok b) :
    flowFromEndpoints a b = newFlow t s d := by
  unfold newEndpoint at ha hb
  split at ha
  · cases ha
  · split at hb
    · cases hb
    · cases ha; cases hb
      unfold flowFromEndpoints newFlow
      rw [if_neg (by simp), if_neg (by omega)]

/-! ## 2. WF is preserved by every operation, hence holds for every value a client can hold -/

theorem flowFromEndpoints_wf {a b : Endpoint} {f : Flow} (ha : a.WF) (hb : b.WF)
    (h : flowFromEndpoints a b = .ok f) : f.WF := by
  unfold flowFromEndpoints at h
  split at h
  · cases h
  · cases h
    obtain ⟨a1, a2, a3⟩ := ha
    obtain ⟨b1, b2, b3⟩ := hb
    exact ⟨a1, b1, a2, b2, a3, b3⟩

theorem endpoints_wf {f : Flow} (h : f.WF) : f.endpoints.1.WF ∧ f.endpoints.2.WF :=
  Flow.endpoints_wf h

theorem src_wf {f : Flow} (h : f.WF) : f.srcEp.WF := (Flow.endpoints_wf h).1

theorem dst_wf {f : Flow} (h : f.WF) : f.dstEp.WF := (Flow.endpoints_wf h).2

theorem reverse_wf {f : Flow} (h : f.WF) : f.reverse.WF := by
  obtain ⟨h1, h2, h3, h4, h5, h6⟩ := h
  exact ⟨h2, h1, h4, h3, h6, h5⟩

theorem zero_wf : Endpoint.zero.WF ∧ Flow.zero.WF := by
  refine ⟨⟨Nat.zero_le _, zeroArr_length, ?_⟩,
          ⟨Nat.zero_le _, Nat.zero_le _, zeroArr_length, zeroArr_length, ?_, ?_⟩⟩ <;>
  simp [Endpoint.zero, Flow.zero, zeroArr]

example : (Flow.mk 4 2 2 ([0, 80] ++ List.replicate 14 0) ([195, 80] ++ List.replicate 14 0)).WF := by
  decide

/-- Non-vacuity of `Reach`: the reverse of a flow joined from the source of one NewFlow and a
    NewEndpoint is reachable (and so are its endpoints). -/
example : ∃ f : Flow, Reach (.fl f) ∧ Reach (.ep f.srcEp) ∧ f.srcBytes = [9, 9, 9] ∧ f.dstBytes = [0, 80] := by
  have h1 : Reach (.fl ⟨4, 2, 2, copyInto zeroArr [0, 80], copyInto zeroArr [1, 187]⟩) :=
    Reach.newFl (t := 4) (s := [0, 80]) (d := [1, 187]) rfl
  have h2 : Reach (.ep ⟨4, 3, copyInto zeroArr [9, 9, 9]⟩) := Reach.newEp (t := 4) (raw := [9, 9, 9]) rfl
  have h3 := Reach.fromEps (Reach.src h1) h2 (f := ⟨4, 2, 3, copyInto zeroArr [0, 80], copyInto zeroArr [9, 9, 9]⟩) rfl
  exact ⟨_, Reach.rev h3, Reach.src (Reach.rev h3), by decide, by decide⟩

/-- Every endpoint and flow obtainable through the exported API (from the zero values, through
    any number of NewEndpoint / NewFlow / FlowFromEndpoints / Src / Dst / Reverse steps) is
    well formed. -/
theorem reach_wf {v : Val} (h : Reach v) : v.WF := by
  induction h with
  | zeroEp => exact zero_wf.1
  | zeroFl => exact zero_wf.2
  | newEp h => exact (newEndpoint_spec h).1
  | newFl h => exact (newFlow_faithful h).1
  | fromEps _ _ h iha ihb => exact flowFromEndpoints_wf iha ihb h
  | src _ ih => exact src_wf ih
  | dst _ ih => exact dst_wf ih
  | rev _ ih => exact reverse_wf ih

/-- `Raw()` (`a.raw[:a.len]`) cannot panic on a well-formed endpoint and returns the bytes. -/
theorem raw_no_panic {e : Endpoint} (h : e.WF) : e.rawSlice = .ok e.bytes := by
  obtain ⟨h1, h2, _⟩ := h
  unfold Endpoint.rawSlice sliceLen Endpoint.bytes
  rw [if_pos ⟨Nat.zero_le _, by omega⟩]; simp

/-! ## 3. Equality (Go `==`, map-key identity) is exactly equality of type and address bytes -/

/-- Two well-formed endpoints are `==` exactly when type and address bytes agree. -/
theorem endpoint_eq_iff {a b : Endpoint} (ha : a.WF) (hb : b.WF) :
    a = b ↔ (a.typ = b.typ ∧ a.bytes = b.bytes) :=
  ⟨fun h => by subst h; exact ⟨rfl, rfl⟩, fun h => Endpoint.ext_bytes ha hb h.1 h.2⟩

/-- Two well-formed flows are `==` exactly when type and both address byte strings agree. -/
theorem flow_eq_iff {f g : Flow} (hf : f.WF) (hg : g.WF) :
    f = g ↔ (f.typ = g.typ ∧ f.srcBytes = g.srcBytes ∧ f.dstBytes = g.dstBytes) :=
  ⟨fun h => by subst h; exact ⟨rfl, rfl, rfl⟩, fun h => Flow.ext_bytes hf hg h.1 h.2.1 h.2.2⟩

example : ∃ a b : Endpoint, a.WF ∧ b.WF ∧ a.typ = b.typ ∧ a.bytes ≠ b.bytes ∧ a ≠ b :=
  ⟨⟨3, 2, 1 :: 2 :: List.replicate 14 0⟩, ⟨3, 3, 1 :: 2 :: 0 :: List.replicate 13 0⟩, by decide⟩

/-- The same for everything reachable through the API (no WF hypothesis left). -/
theorem reach_endpoint_eq_iff {a b : Endpoint} (ha : Reach (.ep a)) (hb : Reach (.ep b)) :
    a = b ↔ (a.typ = b.typ ∧ a.bytes = b.bytes) :=
  endpoint_eq_iff (reach_wf ha) (reach_wf hb)

theorem reach_flow_eq_iff {f g : Flow} (hf : Reach (.fl f)) (hg : Reach (.fl g)) :
    f = g ↔ (f.typ = g.typ ∧ f.srcBytes = g.srcBytes ∧ f.dstBytes = g.dstBytes) :=
  flow_eq_iff (reach_wf hf) (reach_wf hg)

/-- Why WF matters ("stale bytes beyond the stored length"): without the zero tail two values
    with equal type and bytes are different map keys.  (Such values are not `Reach`able.) -/
theorem eq_iff_needs_wf :
    ∃ a b : Endpoint, a.typ = b.typ ∧ a.bytes = b.bytes ∧ a ≠ b :=
  ⟨⟨1, 1, 7 :: List.replicate 15 0⟩, ⟨1, 1, 7 :: 9 :: List.replicate 14 0⟩, by decide⟩

/-! ## 4. Split / join and reversal -/

/-- Splitting a flow into its endpoints and joining them gives the flow back (for every flow,
    well formed or not: the representation is copied verbatim). -/
theorem split_join (f : Flow) : flowFromEndpoints f.endpoints.1 f.endpoints.2 = .ok f := by
  simp [flowFromEndpoints, Flow.endpoints]

theorem src_dst_join (f : Flow) : flowFromEndpoints f.srcEp f.dstEp = .ok f := split_join f

theorem reverse_reverse (f : Flow) : f.reverse.reverse = f := rfl

/-- Reversal swaps the endpoints and nothing else. -/
theorem reverse_endpoints (f : Flow) :
    f.reverse.srcEp = f.dstEp ∧ f.reverse.dstEp = f.srcEp ∧ f.reverse.typ = f.typ :=
  ⟨rfl, rfl, rfl⟩

/-- The two directions of a conversation: NewFlow with the addresses swapped is the reversed flow. -/
theorem newFlow_swap {t : Int} {s d : List UInt8} {f : Flow} (h : newFlow t s d = .ok f) :
    newFlow t d s = .ok f.reverse := by
  unfold newFlow at *
  split at h
  · cases h
  · rename_i hl
    cases h
    rw [if_neg (by omega)]; rfl

example : ∃ f, newFlow 3 [1, 2, 3, 4, 5, 6] [255, 255, 255, 255, 255, 255] = .ok f ∧ f.reverse ≠ f :=
  ⟨_, rfl, by decide⟩

/-- A flow equals its own reverse exactly when its two endpoints are equal. -/
theorem reverse_eq_self_iff (f : Flow) : f.reverse = f ↔ f.srcEp = f.dstEp := by
  cases f
  simp only [Flow.reverse, Flow.srcEp, Flow.dstEp, Flow.endpoints, Flow.mk.injEq, Endpoint.mk.injEq]
  constructor
  · intro h; exact ⟨trivial, h.2.2.1, h.2.2.2.2⟩
  · intro h; exact ⟨trivial, h.2.1.symm, h.2.1, h.2.2.symm, h.2.2⟩

/-! ## 5. LessThan is a strict total order consistent with equality -/

/-- `LessThan` is "type first, then bytes lexicographically (proper prefix smaller)". -/
theorem lt_iff (a b : Endpoint) :
    a.lessThan b = true ↔ a.typ < b.typ ∨ (a.typ = b.typ ∧ lexLt a.bytes b.bytes = true) :=
  Endpoint.lessThan_iff a b

theorem lt_irrefl (a : Endpoint) : a.lessThan a = false := by
  cases h : a.lessThan a with
  | false => rfl
  | true =>
    rw [lt_iff, lexLt_irrefl] at h
    rcases h with h | ⟨_, h⟩
    · omega
    · cases h

theorem lt_trans {a b c : Endpoint} (h1 : a.lessThan b = true) (h2 : b.lessThan c = true) :
    a.lessThan c = true := by
  rw [lt_iff] at *
  rcases h1 with h1 | ⟨e1, h1⟩ <;> rcases h2 with h2 | ⟨e2, h2⟩
  · exact .inl (by omega)
  · exact .inl (by omega)
  · exact .inl (by omega)
  · exact .inr ⟨by omega, lexLt_trans h1 h2⟩

example : (Endpoint.mk 1 1 (1 :: List.replicate 15 0)).lessThan ⟨1, 2, 1 :: 0 :: List.replicate 14 0⟩ = true ∧
    (Endpoint.mk 1 2 (1 :: 0 :: List.replicate 14 0)).lessThan ⟨2, 0, List.replicate 16 0⟩ = true := by
  decide

theorem lt_asymm {a b : Endpoint} (h : a.lessThan b = true) : b.lessThan a = false := by
  cases hba : b.lessThan a with
  | false => rfl
  | true => have := lt_trans h hba; rw [lt_irrefl] at this; cases this

/-- Totality: any two well-formed endpoints are ordered or EQUAL (Go `==`). -/
theorem lt_trichotomy {a b : Endpoint} (ha : a.WF) (hb : b.WF) :
    a.lessThan b = true ∨ a = b ∨ b.lessThan a = true := by
  rw [lt_iff, lt_iff]
  rcases Int.lt_trichotomy a.typ b.typ with h | h | h
  · exact .inl (.inl h)
  · rcases lexLt_trichotomy a.bytes b.bytes with hl | hl | hl
    · exact .inl (.inr ⟨h, hl⟩)
    · exact .inr (.inl (Endpoint.ext_bytes ha hb h hl))
    · exact .inr (.inr (.inr ⟨h.symm, hl⟩))
  · exact .inr (.inr (.inl h))

example : ∃ a b : Endpoint, a.WF ∧ b.WF ∧ a ≠ b ∧ a.lessThan b = true ∧ b.lessThan a = false :=
  ⟨⟨3, 2, 1 :: 2 :: List.replicate 14 0⟩, ⟨3, 3, 1 :: 2 :: 0 :: List.replicate 13 0⟩, by decide⟩

/-- Consistency with equality: exactly one of `a < b`, `a == b`, `b < a` holds. -/
theorem lt_exactly_one {a b : Endpoint} (ha : a.WF) (hb : b.WF) :
    (a.lessThan b = true ∧ a ≠ b ∧ b.lessThan a = false) ∨
    (a.lessThan b = false ∧ a = b ∧ b.lessThan a = false) ∨
    (a.lessThan b = false ∧ a ≠ b ∧ b.lessThan a = true) := by
  rcases lt_trichotomy ha hb with h | h | h
  · exact .inl ⟨h, (fun e => by subst e; rw [lt_irrefl] at h; cases h), lt_asymm h⟩
  · subst h; exact .inr (.inl ⟨lt_irrefl a, rfl, lt_irrefl a⟩)
  · exact .inr (.inr ⟨lt_asymm h, (fun e => by subst e; rw [lt_irrefl] at h; cases h), h⟩)

/-- The strict total order for everything reachable through the API. -/
theorem reach_lt_trichotomy {a b : Endpoint} (ha : Reach (.ep a)) (hb : Reach (.ep b)) :
    a.lessThan b = true ∨ a = b ∨ b.lessThan a = true :=
  lt_trichotomy (reach_wf ha) (reach_wf hb)

/-- Unequal-length addresses sharing a prefix: the shorter one is smaller. -/
theorem lt_prefix {t : Int} {p : List UInt8} {x : UInt8} {r : List UInt8} {a b : Endpoint}
    (ha : newEndpoint t p = .ok a) (hb : newEndpoint t (p ++ x :: r) = .ok b) :
    a.lessThan b = true := by
  obtain ⟨_, ta, ba, _⟩ := newEndpoint_spec ha
  obtain ⟨_, tb, bb, _⟩ := newEndpoint_spec hb
  rw [lt_iff, ta, tb, ba, bb]
  exact .inr ⟨rfl, lexLt_prefix p x r⟩

example : ∃ a b, newEndpoint 3 [1, 2] = .ok a ∧ newEndpoint 3 [1, 2, 0] = .ok b := ⟨_, _, rfl, rfl⟩

/-- Totality needs WF: with stale bytes beyond the length two distinct values are unordered. -/
theorem lt_trichotomy_needs_wf :
    ∃ a b : Endpoint, ¬ (a.lessThan b = true ∨ a = b ∨ b.lessThan a = true) :=
  ⟨⟨1, 1, 7 :: List.replicate 15 0⟩, ⟨1, 1, 7 :: 9 :: List.replicate 14 0⟩, by decide⟩

/-! ## 6. Hashes -/

/-- The fast hash of a flow equals that of its reverse (for every flow). -/
theorem flow_hash_symm (f : Flow) : f.reverse.fastHash = f.fastHash := by
  simp only [Flow.fastHash, Flow.reverse, Flow.srcBytes, Flow.dstBytes]
  rw [Nat.add_comm]

/-- The two directions of a conversation hash alike. -/
theorem newFlow_hash_symm {t : Int} {s d : List UInt8} {f g : Flow}
    (hf : newFlow t s d = .ok f) (hg : newFlow t d s = .ok g) : g.fastHash = f.fastHash := by
  rw [newFlow_swap hf] at hg
  cases hg
  exact flow_hash_symm f

example : ∃ f g, newFlow 1 [10, 0, 0, 1] [10, 0, 0, 2] = .ok f ∧ newFlow 1 [10, 0, 0, 2] [10, 0, 0, 1] = .ok g ∧ f ≠ g :=
  ⟨_, _, rfl, rfl, by decide⟩

/-- The endpoint hash depends only on (typ, bytes) — never on bytes beyond the length. -/
theorem endpoint_hash_congr {a b : Endpoint} (ht : a.typ = b.typ) (hb : a.bytes = b.bytes) :
    a.fastHash = b.fastHash := by
  simp only [Endpoint.fastHash, ht, hb]

/-- The flow hash depends only on (typ, source bytes, destination bytes). -/
theorem flow_hash_congr {f g : Flow} (ht : f.typ = g.typ) (hs : f.srcBytes = g.srcBytes)
    (hd : f.dstBytes = g.dstBytes) : f.fastHash = g.fastHash := by
  simp only [Flow.fastHash, ht, hs, hd]

/-- The flow hash is the stated commutative combination of the two endpoints' FNV hashes. -/
theorem flow_hash_of_endpoints (f : Flow) :
    f.fastHash = mixTyp ((fnvHash f.srcEp.bytes + fnvHash f.dstEp.bytes) % two64) f.typ := rfl

/-- All hashes are 64-bit values (the `% 2^64` wraps of the model are exactly uint64 arithmetic). -/
theorem hash_range (e : Endpoint) (f : Flow) (s : List UInt8) :
    e.fastHash < 2 ^ 64 ∧ f.fastHash < 2 ^ 64 ∧ fnvHash s < 2 ^ 64 :=
  ⟨mixTyp_lt _ _, mixTyp_lt _ _, foldl_fnvStep_lt s _ (by decide)⟩

end Gp.C17
