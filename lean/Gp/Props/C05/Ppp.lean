import Gp.Lemmas.Layers.Ppp
/-
  C05 (engine `lppp`) — PPP, PPPoE and MPLS: decoding keeps no state and does not depend on the
  capacity of the packet buffer nor on the bytes behind the input.

  NO REUSE CLAUSE.  These three layer types do not implement gopacket.DecodingLayer (there is no
  DecodeFromBytes / CanDecode / NextLayerType), so they cannot be handed to a DecodingLayerParser
  and no caller-owned object is ever decoded into twice: the registered decoder functions
  `decodePPP` / `decodePPPoE` / `decodeMPLS` allocate a new layer (`&PPP{}`, `&PPPoE{…}`, `&MPLS{…}`)
  on every call.  The model reflects that: the decode functions take NO previous layer value, so
  "decoding a sequence of packets into the same objects gives the same result as fresh objects"
  holds by construction (that the real functions keep no hidden state between calls — package
  variables, the previous layer object — is what the adapter's monitors `lppp:stale:history` /
  `lppp:stale:object` and the correspondence run check).  What is stated and proved instead:

    * determinism / function of the bytes: layer, behaviour and the payload handed on are given by
      the pure specifications `pppDecSpec` / `pppoeDecSpec` / `mplsDecSpec` of the visible bytes;
    * capacity independence: the result does not depend on spare capacity or foreign bytes — also
      what C04 ("NoCopy and Pool give identical results") and C02 ("depends only on the bytes")
      need from these layers, and what makes inner layers (whose input always has the rest of the
      packet buffer as spare capacity) decode like outer ones;
    * the packet path: what NewPacket shows of these layers is the chain of direct decoder calls, is
      independent of the capacity, and is the same for lazy and eager packets on non-empty input.
-/
namespace Gp.C05.Ppp
open Gp Gp.Ppp

/-! ## The decoder functions are functions of the visible bytes -/

/-- `decodePPP`: the layer added, every PacketBuilder call and the payload handed to the next
    decoder are determined by the visible bytes alone (`pppDecSpec`), for every capacity. -/
theorem decode_fn_of_bytes_ppp (d : GSlice) :
    ∃ o, decodePPP d = .ok o ∧ o.layer = pppDecSpec d.vis ∧
      o.beh = (pppOut ⟨d.vis, []⟩).beh ∧ o.rest.vis = (pppOut ⟨d.vis, []⟩).rest.vis := by
  refine ⟨_, decodePPP_eq d, ?_, ?_, ?_⟩ <;> (unfold pppOut; cases pppDecSpec d.vis <;> rfl)

theorem decode_fn_of_bytes_pppoe (d : GSlice) :
    ∃ o, decodePPPoE d = .ok o ∧ o.layer = pppoeDecSpec d.vis ∧
      o.beh = (pppoeOut ⟨d.vis, []⟩).beh ∧ o.rest.vis = (pppoeOut ⟨d.vis, []⟩).rest.vis := by
  refine ⟨_, decodePPPoE_eq d, ?_, ?_, ?_⟩ <;> (unfold pppoeOut; cases pppoeDecSpec d.vis <;> rfl)

theorem decode_fn_of_bytes_mpls (d : GSlice) :
    ∃ o, decodeMPLS d = .ok o ∧ o.layer = mplsDecSpec d.vis ∧
      o.beh = (mplsOut ⟨d.vis, []⟩).beh ∧ o.rest.vis = (mplsOut ⟨d.vis, []⟩).rest.vis := by
  refine ⟨_, decodeMPLS_eq d, ?_, ?_, ?_⟩ <;> (unfold mplsOut; cases mplsDecSpec d.vis <;> rfl)

/-! ## Capacity independence (the `decode : data → Res (Layer × behaviour)` views) -/

/-- Spare capacity and its contents never influence what `decodePPP` returns: same layer (all
    fields, Contents, Payload), same behaviour (AddLayer, SetLinkLayer, next decoder), same error. -/
theorem decode_cap_independent (data f1 f2 : Bytes) : decodePpp data f1 = decodePpp data f2 := by
  unfold decodePpp viewDec
  rw [decodePPP_eq, decodePPP_eq]
  unfold pppOut
  cases pppDecSpec data <;> rfl

/-- The same for `decodePPPoE` — including its truncation contribution (SetTruncated is called
    exactly on the two error paths, which depend on `len(data)` only). -/
theorem decode_cap_independent_pppoe (data f1 f2 : Bytes) : decodePppoe data f1 = decodePppoe data f2 := by
  unfold decodePppoe viewDec
  rw [decodePPPoE_eq, decodePPPoE_eq]
  unfold pppoeOut
  cases pppoeDecSpec data <;> rfl

theorem decode_cap_independent_mpls (data f1 f2 : Bytes) : decodeMpls data f1 = decodeMpls data f2 := by
  unfold decodeMpls viewDec
  rw [decodeMPLS_eq, decodeMPLS_eq]
  unfold mplsOut
  cases mplsDecSpec data <;> rfl

/-- The guessing decoder behind MPLS looks at `data[0]` only. -/
theorem guess_cap_independent (data f1 f2 : Bytes) :
    guess { vis := data, tail := f1 } = guess { vis := data, tail := f2 } := by
  rw [guess_eq, guess_eq]

/-- Truncation contribution: `decodePPPoE` calls SetTruncated exactly when it returns an error;
    `decodePPP` and `decodeMPLS` never do. -/
theorem trunc_contribution (d : GSlice) :
    (∃ o, decodePPPoE d = .ok o ∧ (o.beh.acts.contains .setTruncated = o.layer.isNone)) ∧
    (∃ o, decodePPP d = .ok o ∧ o.beh.acts.contains .setTruncated = false) ∧
    (∃ o, decodeMPLS d = .ok o ∧ o.beh.acts.contains .setTruncated = false) := by
  refine ⟨⟨_, decodePPPoE_eq d, ?_⟩, ⟨_, decodePPP_eq d, ?_⟩, ⟨_, decodeMPLS_eq d, ?_⟩⟩
  · unfold pppoeOut; cases pppoeDecSpec d.vis <;> rfl
  · unfold pppOut; cases pppDecSpec d.vis <;> rfl
  · unfold mplsOut; cases mplsDecSpec d.vis <;> rfl

/-! ## The packet path -/

/-- What NewPacket shows of this engine's layers is a function of the bytes: independent of the
    capacity of the packet buffer (copy / NoCopy / Pool) and of the bytes behind it. -/
theorem newPacket_cap_independent (lazy : Bool) (first : Dec) (v t1 t2 : Bytes) :
    newPacket lazy first { vis := v, tail := t1 } = newPacket lazy first { vis := v, tail := t2 } := by
  rw [newPacket_eq, newPacket_eq]

/-- Lazy and eager packets show the same layers of this engine on every non-empty input (on the
    empty input a lazy packet calls no decoder at all — C03 excludes it). -/
theorem newPacket_lazy_eq_eager (first : Dec) (d : GSlice) (h : d.len ≠ 0) :
    newPacket true first d = newPacket false first d := by
  have h' : ¬ d.vis.length = 0 := h
  rw [newPacket_eq, newPacket_eq]
  unfold newPacketS
  simp [h']

/-- The packet path agrees with the direct path: the FIRST layer of the packet is exactly the layer
    a direct call of the registered decoder function yields for the same bytes (all fields,
    Contents, Payload), and there is none exactly when that call returns an error. -/
theorem packet_first_layer_eq_direct (first : Dec) (d : GSlice) :
    ∃ o, newPacket false first d = .ok o ∧
      o.layers.head? = (match stepS first d.vis with
                        | some s => s.layer
                        | none => none) := by
  refine ⟨_, newPacket_eq false first d, ?_⟩
  unfold newPacketS
  simp only [Bool.false_eq_true, false_and, if_false]
  exact runS_head first d.vis d.vis.length

/-- … and every later layer of this engine is what the decoder selected by the previous layer
    yields on the previous layer's payload: one step of the run, spelled out. -/
theorem packet_next_layer (fuel : Nat) (dec : Dec) (v : Bytes) (acc : RunOut) (s : StepS) (l : AnyLayer)
    (d' : Dec) (hs : stepS dec v = some s) (hl : s.layer = some l) (hne : s.rest.length ≠ 0)
    (hr : resolveS s.beh.tail s.rest = some d') :
    runS (fuel + 1) dec v acc =
      runS fuel d' s.rest { acc with acts := acc.acts ++ s.beh.acts, layers := acc.layers ++ [l] } :=
  runS_next fuel dec v acc s l d' hs hl hne hr

/-! ## Non-vacuity -/

/-- spare capacity full of bytes that would change the result if they were read -/
example :
    decodePppoe [0x11, 0x00, 0x00, 0x11, 0x00, 0x02, 0x00, 0x21] [0x45, 0x00] =
      .ok ({ contents := [0x11,0,0,0x11,0,2], payload := [0x00, 0x21], version := 1, type := 1, code := 0,
             sessionId := 0x11, length := 2 }, { acts := [.addLayer 26], tail := .pppoeCode 0 }) ∧
    decodePppoe [0x11, 0x00, 0x00, 0x11, 0x00, 0x02, 0x00, 0x21] [] =
      decodePppoe [0x11, 0x00, 0x00, 0x11, 0x00, 0x02, 0x00, 0x21] [0x45, 0x00] := by decide

example :
    (match newPacket true .mpls { vis := [0,1,0xd0,0xff, 0,1,0xd1,0xff, 0x60], tail := [] } with
     | .ok o => some (o.layers.length, o.end_)
     | _ => none) = some (2, End.hand 21) := by decide

end Gp.C05.Ppp
