import Gp.Lemmas.Layers.EapDlp
/-
  C05 (engine `leap`) — EAP, EAPOL and EAPOL-Key keep no stale state; results do not depend on the
  capacity of the packet buffer nor on the bytes behind the input; the packet path adds exactly the
  layer the preallocated path computes.

  `X.decodeFromBytes old d` takes the receiver BEFORE the call (`old`) and the input as a Go slice
  with capacity (`d.vis` = data, `d.tail` = foreign bytes between len and cap).  Every field the Go
  code assigns is assigned in the model by an explicit update of `old`, so a field that the code set
  on some paths only would survive from `old` — the theorems below say that none does on success.
  The model is the code with patch leap-3 (`ek.EncryptedKeyData = nil` when the key data is not
  encrypted); `EAPOLKey.decodeFromBytesPreFix` is the code before it, for which the property FAILS
  (`prefix_eapolkey_stale_counterexample`).
-/
namespace Gp.C05.Eap
open Gp Gp.Eap

/-! ## EAP -/

/-- The outcome of `(*EAP).DecodeFromBytes` on at least 4 bytes, for every receiver, capacity and
    foreign bytes: the specification `eapDecSpec` — on success a function of the visible bytes alone. -/
theorem decode_fn_of_bytes_eap (old : EAP) (d : GSlice) (h : 4 ≤ d.len) :
    old.decodeFromBytes d = .ok (eapDecSpec true old d.vis) := EAP.decode_long true old d h

/-- No stale state: decoding into a re-used object = decoding into a fresh one (all fields,
    Contents, Payload, truncation contribution on success; the same error otherwise).  In particular
    Type and TypeData of an earlier Request do not survive into a Success/Failure packet (Length 4):
    that branch assigns `Type = 0; TypeData = nil`. -/
theorem decode_resets (old : EAP) (data foreign : Bytes) :
    decodeEap old data foreign = decodeEap EAP.fresh data foreign := by
  unfold decodeEap EAP.decodeFromBytes
  by_cases h : GSlice.len ⟨data, foreign⟩ < 4
  · rw [EAP.decode_short true old _ h, EAP.decode_short true EAP.fresh _ h]; rfl
  · rw [EAP.decode_long true old _ (by omega), EAP.decode_long true EAP.fresh _ (by omega)]
    obtain ⟨x1, x2, x3⟩ := eapDecSpec_err_indep true old EAP.fresh data
    simp only
    by_cases he : (eapDecSpec true old data).err = true
    · rw [if_pos he, if_pos (by rw [← x1]; exact he)]
    · rw [if_neg he, if_neg (by rw [← x1]; exact he), x2, x3 (by simpa using he)]

/-- What a FAILED decode leaves in the receiver: nothing is touched below 4 bytes (truncated); when
    Length exceeds the input (truncated) or is below 4 (NOT flagged as truncated), Code, Id and Length
    are already overwritten while Type, TypeData, Contents and Payload are still those of the previous
    packet — a half-updated object.  (Not a violation of the property: the call reports the error,
    the parser reports no layer, and `decode_resets` shows the next successful decode does not depend
    on what is left here.) -/
theorem decode_error_receiver (old : EAP) (d : GSlice) (o : DecOut EAP)
    (h : old.decodeFromBytes d = .ok o) (he : o.err = true) :
    (o.layer = old ∨ o.layer = eapHdr old d.vis) ∧
    o.layer.typ = old.typ ∧ o.layer.typeData = old.typeData ∧
    o.layer.contents = old.contents ∧ o.layer.payload = old.payload ∧
    (o.trunc = false → 4 ≤ d.len ∧ eapLen d.vis < 4) := by
  unfold EAP.decodeFromBytes at h
  by_cases hs : d.len < 4
  · rw [EAP.decode_short true old d hs] at h; cases h
    exact ⟨Or.inl rfl, rfl, rfl, rfl, rfl, fun hh => by cases hh⟩
  · rw [EAP.decode_long true old d (by omega)] at h
    cases h
    unfold eapDecSpec at he ⊢
    by_cases hlt : d.vis.length < eapLen d.vis
    · rw [if_pos hlt]
      exact ⟨Or.inr rfl, rfl, rfl, rfl, rfl, fun hh => by cases hh⟩
    · rw [if_neg hlt] at he ⊢
      by_cases h4 : eapLen d.vis < 4
      · rw [if_pos h4]
        exact ⟨Or.inr rfl, rfl, rfl, rfl, rfl, fun _ => ⟨by omega, h4⟩⟩
      · rw [if_neg h4] at he; cases he

/-- Capacity independence (what C04 "NoCopy/Pool give identical results" and C02 "depends only on
    the bytes" need from this layer): spare capacity and its contents never influence the result —
    in particular the Length taken from the packet is checked against the LENGTH of the input. -/
theorem decode_cap_independent (old : EAP) (data foreign : Bytes) :
    decodeEap old data foreign = decodeEap old data [] := by
  unfold decodeEap EAP.decodeFromBytes
  by_cases h : GSlice.len ⟨data, foreign⟩ < 4
  · rw [EAP.decode_short true old _ h, EAP.decode_short true old ⟨data, []⟩ h]
  · have h' : 4 ≤ GSlice.len ⟨data, []⟩ := by
      have : GSlice.len ⟨data, []⟩ = GSlice.len ⟨data, foreign⟩ := rfl
      omega
    rw [EAP.decode_long true old _ (by omega), EAP.decode_long true old ⟨data, []⟩ h']

/-- … for the full outcome, including the receiver left by a failed call. -/
theorem decode_cap_independent_full (old : EAP) (data foreign : Bytes) :
    old.decodeFromBytes ⟨data, foreign⟩ = old.decodeFromBytes ⟨data, []⟩ := by
  unfold EAP.decodeFromBytes
  by_cases h : GSlice.len ⟨data, foreign⟩ < 4
  · rw [EAP.decode_short true old _ h, EAP.decode_short true old ⟨data, []⟩ h]
  · have h' : 4 ≤ GSlice.len ⟨data, []⟩ := by
      have : GSlice.len ⟨data, []⟩ = GSlice.len ⟨data, foreign⟩ := rfl
      omega
    rw [EAP.decode_long true old _ (by omega), EAP.decode_long true old ⟨data, []⟩ h']

/-- The packet path agrees with the preallocated path: `decodeEAP` (= `decodingLayerDecoder`) adds
    exactly the layer a direct `DecodeFromBytes` into any re-used object yields, with the same
    truncation contribution; it is added exactly when that decode succeeds; no Set*Layer call;
    NextLayerType is LayerTypeZero, so the function returns without calling NextDecoder. -/
theorem packet_layer_eq_direct (old : EAP) (d : GSlice) :
    ∃ o, old.decodeFromBytes d = .ok o ∧
      ((o.err = true ∧ ∃ b, decodeEAPFn d = .ok (b, none) ∧ b.tail = .fail ∧
          b.acts = (if o.trunc then [Act.setTruncated] else [])) ∨
       (o.err = false ∧ o.trunc = false ∧ ∃ b, decodeEAPFn d = .ok (b, some o.layer) ∧
          b.acts = [Act.addLayer LayerTypeEAP] ∧ b.tail = .done)) := by
  unfold EAP.decodeFromBytes
  by_cases hs : d.len < 4
  · refine ⟨_, EAP.decode_short true old d hs, Or.inl ⟨rfl, ?_⟩⟩
    unfold decodeEAPFn EAP.decodeFromBytes
    rw [EAP.decode_short _ _ d hs, Res.bind_ok]
    exact ⟨_, rfl, rfl, rfl⟩
  · have hl : 4 ≤ d.len := by omega
    refine ⟨_, EAP.decode_long true old d hl, ?_⟩
    unfold decodeEAPFn EAP.decodeFromBytes
    rw [EAP.decode_long _ _ d hl, Res.bind_ok]
    unfold eapDecSpec
    by_cases hlt : d.vis.length < eapLen d.vis
    · rw [if_pos hlt, if_pos hlt]
      exact Or.inl ⟨rfl, _, rfl, rfl, rfl⟩
    · rw [if_neg hlt, if_neg hlt]
      by_cases h4 : eapLen d.vis < 4
      · rw [if_pos h4, if_pos h4]
        exact Or.inl ⟨rfl, _, rfl, rfl, rfl⟩
      · rw [if_neg h4, if_neg h4]
        exact Or.inr ⟨rfl, rfl, _, rfl, rfl, rfl⟩

/-! ## EAPOL -/

/-- A successful decode is a function of the visible input bytes alone. -/
theorem decode_fn_of_bytes_eapol (old : EAPOL) (d : GSlice) (h : 4 ≤ d.len) :
    old.decodeFromBytes d = .ok (eapolDecSpec d.vis) := EAPOL.decode_long old d h

theorem decode_resets_eapol (old : EAPOL) (data foreign : Bytes) :
    decodeEapolView old data foreign = decodeEapolView EAPOL.fresh data foreign := by
  unfold decodeEapolView
  by_cases h : GSlice.len ⟨data, foreign⟩ < 4
  · rw [EAPOL.decode_short old _ h, EAPOL.decode_short EAPOL.fresh _ h]; rfl
  · rw [EAPOL.decode_long old _ (by omega), EAPOL.decode_long EAPOL.fresh _ (by omega)]

/-- A failed EAPOL decode leaves the receiver as it was and sets the truncation flag. -/
theorem decode_error_keeps_receiver_eapol (old : EAPOL) (d : GSlice) (o : DecOut EAPOL)
    (h : old.decodeFromBytes d = .ok o) (he : o.err = true) : o.layer = old ∧ o.trunc = true := by
  by_cases hs : d.len < 4
  · rw [EAPOL.decode_short old d hs] at h; cases h; exact ⟨rfl, rfl⟩
  · rw [EAPOL.decode_long old d (by omega)] at h
    cases h; cases he

theorem decode_cap_independent_eapol (old : EAPOL) (data foreign : Bytes) :
    old.decodeFromBytes ⟨data, foreign⟩ = old.decodeFromBytes ⟨data, []⟩ := by
  by_cases h : GSlice.len ⟨data, foreign⟩ < 4
  · rw [EAPOL.decode_short old _ h, EAPOL.decode_short old ⟨data, []⟩ h]
  · have h' : 4 ≤ GSlice.len ⟨data, []⟩ := by
      have : GSlice.len ⟨data, []⟩ = GSlice.len ⟨data, foreign⟩ := rfl
      omega
    rw [EAPOL.decode_long old _ (by omega), EAPOL.decode_long old ⟨data, []⟩ h']

/-- `decodeEAPOL` (= `decodingLayerDecoder`): adds the directly decoded layer; the next decoder is
    the layer type of the EAPOLType table (EAP, EAPOLKey), none for the other types. -/
theorem packet_layer_eq_direct_eapol (old : EAPOL) (d : GSlice) :
    ∃ o, old.decodeFromBytes d = .ok o ∧
      ((o.err = true ∧ ∃ b, decodeEAPOLFn d = .ok (b, none) ∧ b.tail = .fail ∧ b.acts = [Act.setTruncated]) ∨
       (o.err = false ∧ o.trunc = false ∧ ∃ b, decodeEAPOLFn d = .ok (b, some o.layer) ∧
          b.acts = [Act.addLayer LayerTypeEAPOL] ∧
          b.tail = (if o.layer.nextLayerType = LayerTypeZero then .done else .nextLayerType o.layer.nextLayerType))) := by
  by_cases hs : d.len < 4
  · refine ⟨_, EAPOL.decode_short old d hs, Or.inl ⟨rfl, ?_⟩⟩
    unfold decodeEAPOLFn
    rw [EAPOL.decode_short _ d hs, Res.bind_ok]
    exact ⟨_, rfl, rfl, rfl⟩
  · have hl : 4 ≤ d.len := by omega
    refine ⟨_, EAPOL.decode_long old d hl, Or.inr ⟨rfl, rfl, ?_⟩⟩
    unfold decodeEAPOLFn
    rw [EAPOL.decode_long _ d hl, Res.bind_ok]
    simp only [pure, decodingLayerDecoder, eapolDecSpec, Bool.false_eq_true, if_false, List.nil_append]
    by_cases hz : (eapolLayer d.vis).nextLayerType = LayerTypeZero
    · rw [if_pos hz]; exact ⟨_, rfl, rfl, by simp only [hz, if_true]⟩
    · rw [if_neg hz]; exact ⟨_, rfl, rfl, by simp only [hz, if_false]⟩

set_option maxRecDepth 20000 in
/-- `EAPOL.NextLayerType` / `EAPOLType.LayerType` over the shipped table, with the keys taken from the
    constants REGENERATED from enums.go on every run: exactly EAPOLTypeEAP (0) → LayerTypeEAP and
    EAPOLTypeKey (3) → LayerTypeEAPOLKey have a decoder; every other type ends the packet behind the
    EAPOL header (`NextLayerType` = LayerTypeZero: `decodingLayerDecoder` returns nil, the parser stops). -/
theorem eapol_next_layer_table :
    (List.range 256).filter eapolKnown = [0, 3] ∧
    eapolLayerType 0 = LayerTypeEAP ∧ eapolLayerType 3 = LayerTypeEAPOLKey ∧
    (∀ f, f < 256 → eapolKnown f = false → eapolLayerType f = LayerTypeZero) := by decide

/-! ## EAPOL-Key -/

theorem decode_fn_of_bytes_eapolkey (old : EAPOLKey) (d : GSlice) (h : 95 ≤ d.len) :
    old.decodeFromBytes d = .ok (keyDecSpec true old d.vis) := EAPOLKey.decode_long true old d h

/-- No stale state (with patch leap-3): every field — including EncryptedKeyData on the branch
    without encrypted key data — is a function of the input. -/
theorem decode_resets_eapolkey (old : EAPOLKey) (data foreign : Bytes) :
    decodeEapolKeyView old data foreign = decodeEapolKeyView EAPOLKey.fresh data foreign := by
  unfold decodeEapolKeyView EAPOLKey.decodeFromBytes
  by_cases h : GSlice.len ⟨data, foreign⟩ < 95
  · rw [EAPOLKey.decode_short true old _ h, EAPOLKey.decode_short true EAPOLKey.fresh _ h]; rfl
  · rw [EAPOLKey.decode_long true old _ (by omega), EAPOLKey.decode_long true EAPOLKey.fresh _ (by omega)]
    obtain ⟨x1, x2, x3⟩ := keyDecSpec_err_indep old EAPOLKey.fresh data
    simp only
    by_cases he : (keyDecSpec true old data).err = true
    · rw [if_pos he, if_pos (by rw [← x1]; exact he)]
    · rw [if_neg he, if_neg (by rw [← x1]; exact he), x2, x3 (by simpa using he)]

/-- The decoder BEFORE leap-3 violates the property: `EncryptedKeyData` was assigned only when the
    encrypted-key-data bit is set, so an object that had decoded a frame with encrypted key data kept
    that data when it next decoded a frame without (here: 95 zero bytes into an object still holding
    `[1, 2, 3]`). -/
theorem prefix_eapolkey_stale_counterexample :
    ¬ (∀ (old : EAPOLKey) (data : Bytes),
        EAPOLKey.decodeFromBytesPreFix old ⟨data, []⟩ = EAPOLKey.decodeFromBytesPreFix EAPOLKey.fresh ⟨data, []⟩) := by
  intro h
  have := h { EAPOLKey.fresh with hasEncryptedKeyData := true, keyDataLength := 3, encryptedKeyData := [1, 2, 3] }
    (List.replicate 95 0)
  unfold EAPOLKey.decodeFromBytesPreFix at this
  rw [EAPOLKey.decode_vis false _ _ [] (by decide), EAPOLKey.decode_vis false _ _ [] (by decide)] at this
  have h2 := congrArg (fun r => match r with | Res.ok o => o.layer.encryptedKeyData | _ => []) this
  revert h2
  decide

/-- What a FAILED decode leaves in the receiver: nothing is touched below 95 bytes; when the
    announced key data exceeds the input, every header field is already overwritten while
    EncryptedKeyData, Contents and Payload are still those of the previous packet.  Both error
    returns set the truncation flag. -/
theorem decode_error_receiver_eapolkey (old : EAPOLKey) (d : GSlice) (o : DecOut EAPOLKey)
    (h : old.decodeFromBytes d = .ok o) (he : o.err = true) :
    o.trunc = true ∧ (o.layer = old ∨ o.layer = keyHdr old d.vis) ∧
    o.layer.encryptedKeyData = old.encryptedKeyData ∧ o.layer.contents = old.contents ∧
    o.layer.payload = old.payload := by
  unfold EAPOLKey.decodeFromBytes at h
  by_cases hs : d.len < 95
  · rw [EAPOLKey.decode_short true old d hs] at h; cases h
    exact ⟨rfl, Or.inl rfl, rfl, rfl, rfl⟩
  · rw [EAPOLKey.decode_long true old d (by omega)] at h
    cases h
    unfold keyDecSpec at he ⊢
    by_cases hlt : d.vis.length < 95 + keyKdl d.vis
    · rw [if_pos hlt]
      exact ⟨rfl, Or.inr rfl, rfl, rfl, rfl⟩
    · rw [if_neg hlt] at he
      by_cases hE : keyEnc d.vis = true
      · rw [if_pos hE] at he; cases he
      · rw [if_neg hE] at he; cases he

/-- Capacity independence: KeyDataLength is checked against the LENGTH of the input; a frame whose
    announced key data lies in spare capacity is an error, not a read of foreign bytes. -/
theorem decode_cap_independent_eapolkey (old : EAPOLKey) (data foreign : Bytes) :
    old.decodeFromBytes ⟨data, foreign⟩ = old.decodeFromBytes ⟨data, []⟩ := by
  unfold EAPOLKey.decodeFromBytes
  by_cases h : GSlice.len ⟨data, foreign⟩ < 95
  · rw [EAPOLKey.decode_short true old _ h, EAPOLKey.decode_short true old ⟨data, []⟩ h]
  · have h' : 95 ≤ GSlice.len ⟨data, []⟩ := by
      have : GSlice.len ⟨data, []⟩ = GSlice.len ⟨data, foreign⟩ := rfl
      omega
    rw [EAPOLKey.decode_long true old _ (by omega), EAPOLKey.decode_long true old ⟨data, []⟩ h']

/-- `decodeEAPOLKey` (= `decodingLayerDecoder`): adds the directly decoded layer; the next decoder is
    Dot11InformationElement when there is unencrypted key data, gopacket.Payload otherwise. -/
theorem packet_layer_eq_direct_eapolkey (old : EAPOLKey) (d : GSlice) :
    ∃ o, old.decodeFromBytes d = .ok o ∧
      ((o.err = true ∧ ∃ b, decodeEAPOLKeyFn d = .ok (b, none) ∧ b.tail = .fail ∧ b.acts = [Act.setTruncated]) ∨
       (o.err = false ∧ o.trunc = false ∧ ∃ b, decodeEAPOLKeyFn d = .ok (b, some o.layer) ∧
          b.acts = [Act.addLayer LayerTypeEAPOLKey] ∧ b.tail = .nextLayerType o.layer.nextLayerType ∧
          (o.layer.nextLayerType = LayerTypeDot11InformationElement ∨ o.layer.nextLayerType = LayerTypePayload))) := by
  unfold EAPOLKey.decodeFromBytes
  by_cases hs : d.len < 95
  · refine ⟨_, EAPOLKey.decode_short true old d hs, Or.inl ⟨rfl, ?_⟩⟩
    unfold decodeEAPOLKeyFn EAPOLKey.decodeFromBytes
    rw [EAPOLKey.decode_short _ _ d hs, Res.bind_ok]
    exact ⟨_, rfl, rfl, rfl⟩
  · have hl : 95 ≤ d.len := by omega
    refine ⟨_, EAPOLKey.decode_long true old d hl, ?_⟩
    obtain ⟨x1, x2, x3⟩ := keyDecSpec_err_indep old EAPOLKey.fresh d.vis
    unfold decodeEAPOLKeyFn EAPOLKey.decodeFromBytes
    rw [EAPOLKey.decode_long _ _ d hl, Res.bind_ok]
    by_cases he : (keyDecSpec true old d.vis).err = true
    · refine Or.inl ⟨he, ?_⟩
      have he2 : (keyDecSpec true EAPOLKey.fresh d.vis).err = true := by rw [← x1]; exact he
      have ht2 : (keyDecSpec true EAPOLKey.fresh d.vis).trunc = true := by
        unfold keyDecSpec at he2 ⊢
        by_cases hlt : d.vis.length < 95 + keyKdl d.vis
        · rw [if_pos hlt]
        · rw [if_neg hlt] at he2
          by_cases hE : keyEnc d.vis = true
          · rw [if_pos hE] at he2; cases he2
          · rw [if_neg hE] at he2; cases he2
      simp only [pure, decodingLayerDecoder, he2, ht2, if_true]
      exact ⟨_, rfl, rfl, rfl⟩
    · have hef : (keyDecSpec true old d.vis).err = false := by simpa using he
      have hef2 : (keyDecSpec true EAPOLKey.fresh d.vis).err = false := by rw [← x1]; exact hef
      have htf : (keyDecSpec true old d.vis).trunc = false := by
        unfold keyDecSpec at hef ⊢
        by_cases hlt : d.vis.length < 95 + keyKdl d.vis
        · rw [if_pos hlt] at hef; cases hef
        · rw [if_neg hlt]
          by_cases hE : keyEnc d.vis = true
          · rw [if_pos hE]
          · rw [if_neg hE]
      have htf2 : (keyDecSpec true EAPOLKey.fresh d.vis).trunc = false := by rw [← x2]; exact htf
      refine Or.inr ⟨hef, htf, ?_⟩
      have hne : ∀ l : EAPOLKey, ¬ (l.nextLayerType = LayerTypeZero) := by
        intro l; unfold EAPOLKey.nextLayerType; split <;> decide
      simp only [pure, decodingLayerDecoder, hef2, htf2, Bool.false_eq_true, if_false, List.nil_append,
        hne, ← x3 hef]
      refine ⟨_, rfl, rfl, rfl, ?_⟩
      unfold EAPOLKey.nextLayerType; split
      · exact Or.inl rfl
      · exact Or.inr rfl

/-! ## The parser over {EAPOL, EAP} (one object per type) -/

/-- No stale state through `DecodingLayerParser.DecodeLayers`: whatever the two layer objects held
    from earlier packets (including the half-updated EAP object a failed decode leaves), the run
    returns the same error code, the same list of decoded types, the same truncation flag, and every
    layer object whose type is in that list holds the same value (`DlpAgree`). -/
theorem dlp_resets (l1 l2 : EAPOL) (a1 a2 : EAP) (first : Nat) (d : GSlice) :
    ∃ r1 r2 c, dlpDecodeLayers l1 a1 first d = .ok (r1, c) ∧ dlpDecodeLayers l2 a2 first d = .ok (r2, c) ∧
      DlpAgree r1 r2 :=
  dlpLoop_agree _ _ _ _ _ ⟨rfl, rfl, fun h => absurd h (List.not_mem_nil), fun h => absurd h (List.not_mem_nil)⟩

/-- … and it does not depend on the capacity of the packet buffer or the bytes behind the input. -/
theorem dlp_cap_independent (eapol : EAPOL) (eap : EAP) (first : Nat) (v t1 t2 : Bytes) :
    dlpDecodeLayers eapol eap first { vis := v, tail := t1 } = dlpDecodeLayers eapol eap first { vis := v, tail := t2 } :=
  dlpLoop_cap _ _ _ v t1 t2

/-! ## Non-vacuity: receivers full of stale data, spare capacity full of foreign bytes -/

example :
    let stale : EAP := { contents := [1], payload := [2,3], code := 9, id := 9, length := 9, typ := 9, typeData := [7,7] }
    -- a Success packet into an object that held a Request: Type and TypeData are reset
    decodeEap stale [3, 5, 0, 4, 0x77] [0xEE,0xEE] =
      .ok ({ contents := [3, 5, 0, 4], payload := [0x77], code := 3, id := 5, length := 4, typ := 0, typeData := [] }, false) ∧
    -- the half-updated receiver of the second error path (Length 16 > 5 bytes)
    stale.decodeFromBytes ⟨[1, 7, 0, 16, 1], [0xEE,0xEE]⟩ =
      .ok { layer := { stale with code := 1, id := 7, length := 16 }, trunc := true, err := true } ∧
    -- the third error path (Length 3) does not set the truncation flag
    stale.decodeFromBytes ⟨[1, 7, 0, 3, 1], []⟩ =
      .ok { layer := { stale with code := 1, id := 7, length := 3 }, trunc := false, err := true } := by
  decide

example :
    decodeEapolView { contents := [5], payload := [6], version := 9, typ := 9, length := 9 } [1, 0, 0, 5, 1, 7, 0, 5, 1] [9] =
      .ok ({ contents := [1, 0, 0, 5], payload := [1, 7, 0, 5, 1], version := 1, typ := 0, length := 5 }, false) := by decide

/-- the parser: EAPOL then EAP in the same objects, Ethernet padding behind the EAP packet -/
example :
    (match dlpDecodeLayers EAPOL.fresh EAP.fresh LayerTypeEAPOL
        { vis := [1, 0, 0, 5, 1, 7, 0, 5, 1, 0, 0, 0], tail := [] } with
     | .ok (s, c) => some (s.decoded, c, s.eap.typ, s.eap.typeData, s.eap.payload)
     | _ => none) = some ([56, 55], 0, 1, ([] : Bytes), ([0, 0, 0] : Bytes)) := by decide

end Gp.C05.Eap
