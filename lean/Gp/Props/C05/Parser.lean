/-
  C05, parser part (engine dlp): "Decoding bytes with a layer parser over a set of preallocated layers
  reports exactly the leading run of layers that full packet decoding produces for those bytes (ending
  at the first type outside the set, or at the first error), with identical field values, contents,
  payloads and truncation flag, whichever of the provided lookup containers is used.  Decoding a
  sequence of packets into the same layer objects gives, for every packet, the same result as decoding
  it into fresh objects."

  Here: the FRAMEWORK half, for ARBITRARY decoding layers (`Gp.Parser.DLayer`: any behaviour).  What a
  concrete layer must satisfy is isolated as hypotheses (`Resets`, `Progress`); the per-layer theorems
  `decode_resets` for Ethernet … DNS are the layer engines' fragments (Gp.Props.C05.Ip4, …).

  Stated and excluded (theorems below):
   * negative LayerTypes: DecodingLayerSparse indexes a slice with them and panics, array/map do not;
   * a DecodingLayer registered for LayerTypeZero: the parser continues where decodingLayerDecoder stops;
   * layers that do not reset: the parser's result depends on earlier packets (stale_without_resets).
-/
import Gp.Lemmas.Parser
import Gp.Lemmas.ParserLoop
import Gp.Lemmas.ParserEx
import Gp.Gen.Dlp

namespace Gp.C05.Parser
open Gp Gp.Parser

variable {σ : Type}

/-! ## 1. The loop that is modelled is the loop of all four containers -/

/-- The four copies of the decode loop in layers_decoder.go (sparse, array, map, generic) are the same
    text modulo the container variable, so the single `Gp.Parser.loop` stands for all of them
    (re-extracted from the source on every run by x-dlp). -/
theorem four_copies_identical :
    Gp.Gen.Dlp.loopCopiesIdentical = true ∧ Gp.Gen.Dlp.loopCopies = 4 ∧ Gp.Gen.Dlp.loopGenericCopies = 1 ∧
    Gp.Gen.Dlp.loopAssertedTypes = ["DecodingLayerSparse", "DecodingLayerArray", "DecodingLayerMap"] := by
  decide

/-- The decode functions NewPacket uses for the common stack (and layers.decodingLayerDecoder) have
    the shape `RegEntry.std` models: fresh object, DecodeFromBytes, error check, AddLayer, NextDecoder. -/
theorem common_stack_wrappers_standard :
    ∀ w ∈ Gp.Gen.Dlp.wrappers, w.found = true ∧ w.std = true := by
  decide

/-! ## 2. Whichever container is used -/

/-- After the same sequence of Puts (of non-negative types) the sparse container was built without a
    panic and all three provided containers return the same decoder for every non-negative type. -/
theorem containers_agree (ps : List PutOp) (hnn : ∀ p ∈ ps, ∀ t ∈ p.1, 0 ≤ t) :
    ∃ dl, sparseOf ps = .ok dl ∧
      ∀ t : LType, 0 ≤ t →
        sparseLook dl t = mapLook (mapOf ps) t ∧ arrLook (arrOf ps) t = mapLook (mapOf ps) t := by
  obtain ⟨dl, h1, h2⟩ := sparse_map_from ps [] mapEmpty hnn (by intro n; simp [sparseLook_nat, mapLook, mapEmpty])
  refine ⟨dl, h1, ?_⟩
  intro t ht
  constructor
  · have := h2 t.toNat
    rw [Int.toNat_of_nonneg ht] at this
    exact this
  · exact arr_map_fold ps [] mapEmpty (by intro t; simp [arrLook, mapLook, mapEmpty]) t

example : ∃ ps : List PutOp, (∀ p ∈ ps, ∀ t ∈ p.1, 0 ≤ t) ∧ mapLook (mapOf ps) 7 = .found 2 :=
  ⟨[([7, 9], 1), ([3], 0), ([7], 2)], by decide, by decide⟩

/-- Array and map agree on EVERY type (negative ones included), whatever was Put. -/
theorem array_map_agree_everywhere (ps : List PutOp) (t : LType) :
    arrLook (arrOf ps) t = mapLook (mapOf ps) t :=
  arr_map_fold ps [] mapEmpty (by intro t; simp [arrLook, mapLook, mapEmpty]) t

/-- Duplicates: the LAST Put that names a type wins (in all three containers, by the two theorems above). -/
theorem lookup_last_put_wins (ps : List PutOp) (t : LType) :
    mapLook (mapOf ps) t =
      match ps.reverse.find? (fun p => p.1.contains t) with
      | some p => .found p.2
      | none => .missing := by
  rw [show mapOf ps = ps.foldl mapPut mapEmpty from rfl, mapLook_fold_last]
  cases ps.reverse.find? (fun p => p.1.contains t) <;> rfl

/-- Negative LayerTypes are where the containers differ: the sparse container panics in Put … -/
theorem sparse_put_negative_panics (dl : Sparse) (p : PutOp) (h : ∃ t ∈ p.1, t < 0) :
    sparsePut dl p = .panic .index :=
  sparsePut_neg dl p h

/-- … and in Decoder, for every negative type, whatever it holds; array and map never panic. -/
theorem sparse_look_negative_panics (dl : Sparse) (t : LType) (h : t < 0) :
    sparseLook dl t = .panic .index ∧
    (∀ ps k, mapLook (mapOf ps) t ≠ .panic k) ∧ (∀ ps k, arrLook (arrOf ps) t ≠ .panic k) := by
  refine ⟨sparseLook_neg dl t h, ?_, ?_⟩
  · intro ps k; unfold mapLook; split <;> simp
  · intro ps k; rw [array_map_agree_everywhere]; unfold mapLook; split <;> simp

/-- Witness that "whichever container" cannot be extended to negative types. -/
theorem containers_disagree_on_negative_type_counterexample :
    ¬ (∀ (ps : List PutOp) (dl : Sparse) (t : LType), sparseOf ps = .ok dl →
        sparseLook dl t = mapLook (mapOf ps) t) := by
  intro h
  have := h [([5], 0)] _ (-1) rfl
  revert this
  decide

/-! ## 3. The parser's run is the leading run of packet decoding -/

/-- A parser made by SetDecodingLayerContainer / NewDecodingLayerParser / AddDecodingLayer caches the
    decoder of `first` consistently with its container. -/
theorem mkParser_consistent (cls : Nat → DLayer σ) (look : LType → Look) (first : LType) (o : Opts)
    (p : Parser σ) (h : mkParser cls look first o = .ok p) :
    p.Consistent ∧ p.cls = cls ∧ p.look = look ∧ p.first = first ∧ p.opts = o := by
  unfold mkParser at h
  cases hl : look first with
  | panic k => simp [hl] at h
  | found i =>
    simp only [hl, Res.ok.injEq] at h
    subst h
    exact ⟨by simp [Parser.Consistent, hl], rfl, rfl, rfl, rfl⟩
  | missing =>
    simp only [hl, Res.ok.injEq] at h
    subst h
    exact ⟨by simp [Parser.Consistent, hl], rfl, rfl, rfl, rfl⟩

/-- MAIN THEOREM.  For every table whose registered packet decoders are the standard wrapper around
    the same layer implementations (`StdFor`), whose layers reset (`Resets`) and that has no decoder
    for LayerTypeZero: the layers DecodeLayers decodes — each with the state its DecodeFromBytes
    produced (fields, contents, payload, next type) and its SetTruncated contribution — and the way
    the run ends are EXACTLY the cut of packet decoding's decoder invocations at the first type the
    container does not know / the first failing or panicking layer (`cut`), for any container lookup
    (sparse, array, map, custom), any fuel, any previous state of the parser, the slice and the objects. -/
theorem dlp_is_prefix_of_packet (p : Parser σ) (reg : LType → RegEntry σ)
    (hc : p.Consistent) (hstd : StdFor p.cls p.look reg) (hr : ∀ i, Resets (p.cls i))
    (hz : p.look 0 = .missing) (fuel : Nat) (st : PState σ) (data : Bytes) :
    (decodeSteps p fuel st data, decodeStop p fuel st data) = cut p.look (chain reg fuel p.first data) := by
  unfold decodeSteps decodeStop decodeFunc
  unfold Parser.Consistent at hc
  cases hf : p.firstDec with
  | none =>
    simp only [hf] at hc ⊢
    rw [cut_chain_missing reg p.look fuel _ _ hc]
  | some i =>
    simp only [hf] at hc ⊢
    exact loop_eq_cut p.cls p.look reg hstd hr hz fuel st.store p.first i data false hc

/-- non-vacuity: a table meeting every hypothesis, with a run of two layers that ends at a type
    outside the set while packet decoding goes on. -/
example : (Ex.parserG ⟨false, false⟩).Consistent ∧ StdFor (Ex.parserG ⟨false, false⟩).cls (Ex.parserG ⟨false, false⟩).look Ex.regG ∧
    (∀ i, Resets ((Ex.parserG ⟨false, false⟩).cls i)) ∧ (Ex.parserG ⟨false, false⟩).look 0 = .missing ∧
    (decodeLayers (Ex.parserG ⟨false, false⟩) 9 Ex.st0 [11, 12, 7]).1.decoded = [10, 11] ∧
    (decodeLayers (Ex.parserG ⟨false, false⟩) 9 Ex.st0 [11, 12, 7]).2 = .unsupported 12 ∧
    (chain Ex.regG 9 10 [11, 12, 7]).length = 3 :=
  ⟨Ex.parserG_consistent _, Ex.stdG, fun _ => Ex.good_resets, by decide, by decide, by decide, by decide⟩

/-- What the caller observes, read off the packet: `decoded` = the types of the leading run, the
    returned error = the translation of how the run ended, Truncated = OR of the SetTruncated
    contributions of the layers in the run and of the attempt that ended it. -/
theorem dlp_result_from_packet (p : Parser σ) (reg : LType → RegEntry σ)
    (hc : p.Consistent) (hstd : StdFor p.cls p.look reg) (hr : ∀ i, Resets (p.cls i))
    (hz : p.look 0 = .missing) (fuel : Nat) (st : PState σ) (data : Bytes) :
    (decodeLayers p fuel st data).1.decoded = (cut p.look (chain reg fuel p.first data)).1.map (·.typ) ∧
    (decodeLayers p fuel st data).2 = retOf p.opts (cut p.look (chain reg fuel p.first data)).2 ∧
    (decodeLayers p fuel st data).1.truncated =
      ((cut p.look (chain reg fuel p.first data)).1.any (·.trunc) || stopTrunc (cut p.look (chain reg fuel p.first data)).2) := by
  have h := dlp_is_prefix_of_packet p reg hc hstd hr hz fuel st data
  rw [← h]
  refine ⟨rfl, rfl, ?_⟩
  unfold decodeLayers decodeSteps decodeStop decodeFunc
  cases hf : p.firstDec with
  | none => simp [stopTrunc]
  | some i =>
    simp only
    rw [loop_trunc]
    simp

/-- In terms of `gopacket.NewPacket(data, first, …).Layers()`: the layers the parser decoded (type and
    object state) are a PREFIX of the packet's layer list, and if the parser says Truncated so does the
    packet's metadata. -/
theorem dlp_layers_prefix_of_packet_layers (p : Parser σ) (reg : LType → RegEntry σ)
    (hc : p.Consistent) (hstd : StdFor p.cls p.look reg) (hr : ∀ i, Resets (p.cls i))
    (hz : p.look 0 = .missing) (fuel : Nat) (st : PState σ) (data : Bytes) (skip : Bool)
    (ls : List (PItem σ)) (tr : Bool) (hp : newPacket reg fuel skip p.first data = .pkt ls tr) :
    (decodeSteps p fuel st data).map stepItem <+: ls ∧
    ((decodeLayers p fuel st data).1.truncated = true → tr = true) := by
  have h := dlp_is_prefix_of_packet p reg hc hstd hr hz fuel st data
  have hres := dlp_result_from_packet p reg hc hstd hr hz fuel st data
  unfold newPacket at hp
  constructor
  · have := cut_prefix_render p.look skip _ [] false ls tr hp
    rw [← h] at this
    simpa using this
  · intro ht
    rw [hres.2.2] at ht
    exact cut_trunc_render p.look skip _ [] false ls tr hp (by simpa using ht)

example : newPacket Ex.regG 9 false 10 [11, 12, 7] =
    .pkt [.layer 10 [11, 12, 7], .layer 11 [12, 7], .layer 12 [7]] false := by decide

/-- The hypothesis "no decoder for LayerTypeZero" is needed: with one, the parser decodes a layer that
    packet decoding (decodingLayerDecoder stops on LayerTypeZero) does not have. -/
theorem zero_type_decoder_counterexample :
    (decodeLayers Ex.parserZ 9 Ex.st0 [0, 5]).1.decoded = [10, 0] ∧
    newPacket Ex.regG 9 false 10 [0, 5] = .pkt [.layer 10 [0, 5]] false := by
  decide

/-! ## 4. Panics do not leave DecodeLayers -/

/-- With IgnorePanic = false no panic of a decoding layer (or of the container lookup) propagates out
    of DecodeLayers: it is returned as an error, and `decoded` lists exactly the layers completed
    before it. -/
theorem parser_no_panic_leak (p : Parser σ) (h : p.opts.ignorePanic = false) (fuel : Nat) (st : PState σ) (data : Bytes) :
    (∀ k, (decodeLayers p fuel st data).2 ≠ .panic k) ∧
    ((∃ t s tr k, decodeStop p fuel st data = .panic t s tr k) ∨ (∃ t k, decodeStop p fuel st data = .lookPanic t k) →
        (decodeLayers p fuel st data).2 = .panicErr) ∧
    (decodeLayers p fuel st data).1.decoded = (decodeSteps p fuel st data).map (·.typ) := by
  refine ⟨?_, ?_, rfl⟩
  · intro k
    unfold decodeLayers
    simp only
    generalize (decodeFunc p fuel st.store data false).stop = s
    cases s <;> simp [retOf, h]
    · split <;> (try split) <;> simp
  · intro hs
    unfold decodeLayers decodeStop at *
    simp only
    rcases hs with ⟨t, s, tr, k, hs⟩ | ⟨t, k, hs⟩ <;> simp [hs, retOf, h]

/-- non-vacuity: a panicking layer after one good layer. -/
example : (decodeLayers (Ex.parserG ⟨false, false⟩) 9 Ex.st0 [11, 255, 1]).2 = .panicErr ∧
    (decodeLayers (Ex.parserG ⟨false, false⟩) 9 Ex.st0 [11, 255, 1]).1.decoded = [10] := by decide

/-- With IgnorePanic = true the panic does propagate (the documented meaning of the option). -/
theorem parser_panic_propagates_when_ignored :
    (decodeLayers (Ex.parserG ⟨true, false⟩) 9 Ex.st0 [11, 255, 1]).2 = .panic .index := by decide

/-! ## 5. No state of the framework survives a call; reuse = fresh objects -/

/-- Truncated is exactly the OR of the contributions of the layers decoded by THIS call (and of the
    attempt that ended it): `l.Truncated = false` at the start of DecodeLayers really resets it. -/
theorem truncated_is_or_of_contributions (p : Parser σ) (fuel : Nat) (st : PState σ) (data : Bytes) :
    (decodeLayers p fuel st data).1.truncated =
      ((decodeSteps p fuel st data).any (·.trunc) || stopTrunc (decodeStop p fuel st data)) := by
  unfold decodeLayers decodeSteps decodeStop decodeFunc
  cases hf : p.firstDec with
  | none => simp [stopTrunc]
  | some i =>
    simp only
    rw [loop_trunc]
    simp

/-- Nothing the parser or the caller's slice held before the call influences it: the previous
    Truncated flag and the previous contents of `decoded` are not read (with fix dlp-1 also when the
    first type has no decoder). -/
theorem dlp_forgets_flag_and_slice (p : Parser σ) (fuel : Nat) (store : Nat → σ) (tr tr' : Bool)
    (dec dec' : List LType) (data : Bytes) :
    decodeLayers p fuel ⟨store, tr, dec⟩ data = decodeLayers p fuel ⟨store, tr', dec'⟩ data := rfl

/-- Running the same parser on the same data twice gives the same result, whatever happened in
    between, PROVIDED the layers reset: the loop itself keeps nothing. -/
theorem dlp_deterministic_reuse (p : Parser σ) (hr : ∀ i, Resets (p.cls i)) (fuel : Nat)
    (st st' : PState σ) (data : Bytes) :
    resultOf p fuel st data = resultOf p fuel st' data := by
  unfold resultOf decodeLayers decodeSteps decodeFunc
  cases hf : p.firstDec with
  | none => rfl
  | some i =>
    simp only
    obtain ⟨h1, h2, h3⟩ := loop_indep p.cls p.look hr fuel st.store st'.store p.first i data false
    rw [h1, h2, h3]

/-- Second sentence of the property at framework level: decoding a SEQUENCE of packets into the same
    objects gives, for every packet, the result of decoding it into fresh objects. -/
theorem reuse_eq_fresh (p : Parser σ) (hr : ∀ i, Resets (p.cls i)) (fuel : Nat)
    (st fresh : PState σ) (ds : List Bytes) :
    runSeq p fuel st ds = ds.map (resultOf p fuel fresh) := by
  induction ds generalizing st with
  | nil => rfl
  | cons d ds ih =>
    simp only [runSeq, List.map_cons]
    rw [ih, dlp_deterministic_reuse p hr fuel st fresh d]

example : runSeq (Ex.parserG ⟨false, false⟩) 9 Ex.st0 [[11, 254], [11, 12, 7]] =
    [⟨.nil, [10, 11], true, [⟨10, [11, 254], false⟩, ⟨11, [254], true⟩]⟩,
     ⟨.unsupported 12, [10, 11], false, [⟨10, [11, 12, 7], false⟩, ⟨11, [12, 7], false⟩]⟩] := by decide

/-- `Resets` is needed: a layer that assigns a field only on some paths (IPv4.Padding,
    TCP.Multipath) makes the result depend on the previous packet. -/
theorem stale_without_resets_counterexample :
    ¬ (∀ (st st' : PState Nat) (data : Bytes), resultOf Ex.parserS 9 st data = resultOf Ex.parserS 9 st' data) := by
  intro h
  have := h ⟨fun _ => 5, false, []⟩ ⟨fun _ => 0, false, []⟩ [0]
  revert this
  decide

/-! ## 6. Termination -/

/-- The Go loop has no bound of its own; when every layer makes progress (hands on fewer bytes than
    it got) `len(data) + 1` iterations suffice: DecodeLayers returns. -/
theorem decode_terminates (p : Parser σ) (hp : ∀ i, Progress (p.cls i)) (fuel : Nat) (st : PState σ)
    (data : Bytes) (hf : data.length < fuel) :
    (decodeLayers p fuel st data).2 ≠ .diverge := by
  unfold decodeLayers
  simp only
  intro h
  rw [retOf_diverge] at h
  unfold decodeFunc at h
  cases hfd : p.firstDec with
  | none => simp [hfd] at h
  | some i =>
    simp only [hfd] at h
    exact loop_terminates p.cls p.look hp fuel st.store p.first i data false hf h

example : ∀ i, Progress ((Ex.parserG ⟨false, false⟩).cls i) := fun _ => Ex.good_progress

end Gp.C05.Parser
