import Gp.Lemmas.Layers.Udp
/-
  C05 for layers/udp.go (engine `ludp`): DecodeFromBytes keeps no stale state and does not
  depend on the capacity of / the foreign bytes behind the data slice.

  The only part of a UDP object that survives a decode is `tcpipchecksum.pseudoheader`
  (model field `pseudo`): it is *configuration* installed by SetNetworkLayerForChecksum, never
  assigned by any decoder, and not a decode result (fields, contents, payload, truncation).
  The theorems therefore quantify over two arbitrary old values that agree on it.
-/
namespace Gp.C05.Udp
open Gp Gp.Udp

/-- No stale state, full strength: whenever at least a header is present the COMPLETE outcome
    (every field, private port slices, contents, payload, truncation flag, error flag — also
    on the "UDP packet too small" error path) is the same for any two old layer values. -/
theorem decode_resets_all (old₁ old₂ : Layer) (hp : old₁.pseudo = old₂.pseudo) (data f₁ f₂ : Bytes)
    (h8 : 8 ≤ data.length) :
    decodeFromBytes old₁ { data := data, foreign := f₁ } = decodeFromBytes old₂ { data := data, foreign := f₂ } := by
  rw [decode_eq, decode_eq]
  match data, h8 with
  | _ :: _ :: _ :: _ :: _ :: _ :: _ :: _ :: _, _ => simp only [decodeSpec, hp]

/-- With fewer than 8 bytes the layer object is not touched at all and an error is returned
    (so nothing of it is reported as decoded); error and truncation flags do not depend on it. -/
theorem decode_short_untouched (old : Layer) (data foreign : Bytes) (h : data.length < 8) :
    decodeFromBytes old { data := data, foreign := foreign } = .ok { layer := old, trunc := true, err := true } := by
  simp [decodeFromBytes, GoSlice.len, h]

/-- `decode_resets`: decoding into a used object = decoding into a fresh one (which carries the
    same checksum configuration): equal on success — all fields, contents, payload, truncation
    contribution — and the same error otherwise. -/
theorem decode_resets (old : Layer) (data foreign : Bytes) :
    decodeUdp old data foreign = decodeUdp { Layer.fresh with pseudo := old.pseudo } data foreign := by
  by_cases h8 : 8 ≤ data.length
  · unfold decodeUdp
    rw [decode_resets_all old { Layer.fresh with pseudo := old.pseudo } rfl data foreign foreign h8]
  · have h : data.length < 8 := by omega
    unfold decodeUdp
    rw [decode_short_untouched _ _ _ h, decode_short_untouched _ _ _ h]
    rfl

/-- Any two old values: `decodeUdp` agrees (the general form of `decode_resets`). -/
theorem decode_resets_any (old₁ old₂ : Layer) (hp : old₁.pseudo = old₂.pseudo) (data foreign : Bytes) :
    decodeUdp old₁ data foreign = decodeUdp old₂ data foreign := by
  rw [decode_resets old₁, decode_resets old₂, hp]

/-- The checksum configuration is the one thing a decode leaves alone. -/
theorem decode_keeps_pseudo (old : Layer) (data foreign : Bytes) (o : DecOut)
    (h : decodeFromBytes old { data := data, foreign := foreign } = .ok o) : o.layer.pseudo = old.pseudo := by
  rw [decode_eq] at h
  cases h
  unfold decodeSpec
  split
  · dsimp only; split
    · split <;> rfl
    · split <;> rfl
  · rfl

/-- Capacity / foreign-byte independence: the outcome is a function of the visible bytes only
    (NoCopy and Pool buffers give the same layer as a private copy; needed by C04 and C02). -/
theorem decode_cap_independent (old : Layer) (data f₁ f₂ : Bytes) :
    decodeFromBytes old { data := data, foreign := f₁ } = decodeFromBytes old { data := data, foreign := f₂ } := by
  rw [decode_eq, decode_eq]

theorem decodeUdp_cap_independent (old : Layer) (data f₁ f₂ : Bytes) :
    decodeUdp old data f₁ = decodeUdp old data f₂ := by
  unfold decodeUdp; rw [decode_cap_independent old data f₁ f₂]

/-- Packet decoding = preallocated-layer decoding for this layer: the layer `decodeUDP` adds to a
    packet is exactly what DecodeFromBytes puts into a fresh object, with the same truncation
    and error outcome; on success the next decoder is chosen by NextLayerType. -/
theorem packet_decode_is_layer_decode (ov : Overrides) (data foreign : Bytes) :
    ∃ o, decodeFromBytes Layer.fresh { data := data, foreign := foreign } = .ok o ∧
      decodeUDP ov { data := data, foreign := foreign } =
        .ok { added := o.layer, transport := true, trunc := o.trunc, err := o.err,
              next := if o.err then none else some (nextLayerType ov o.layer) } := by
  refine ⟨_, decode_eq _ _ _, ?_⟩
  unfold decodeUDP; rw [decode_eq]
  simp only [bind, Res.bind, pure]
  split <;> simp_all

/-- non-vacuity: a used object holding a long payload and a jumbo datagram decoded into it -/
example :
    decodeUdp { Layer.fresh with srcPort := 9, length := 400, payload := [1, 2, 3], sPort := [0, 9], contents := [7] }
      [0, 1, 0, 2, 0, 0, 0, 0, 0xaa] [0xbb]
    = decodeUdp Layer.fresh [0, 1, 0, 2, 0, 0, 0, 0, 0xaa] [] := by decide

end Gp.C05.Udp
