import Gp.Model.Layers.Udp
namespace Gp.C05.Udp
end Gp.C05.Udp
