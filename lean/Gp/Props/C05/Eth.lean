import Gp.Lemmas.Layers.Eth
/-
  C05 (engine `leth`) — Ethernet and Dot1Q keep no stale state; results do not depend on the
  capacity of the packet buffer nor on the bytes behind the input.

  `X.decodeFromBytes old d` takes the receiver BEFORE the call (`old`) and the input as a Go slice
  with capacity (`d.vis` = data, `d.tail` = foreign bytes between len and cap).  Every field the Go
  code assigns is assigned in the model by an explicit update of `old`, so a field that the code set
  on some paths only would survive from `old` — the theorems below say that none does.
-/
namespace Gp.C05.Eth
open Gp Gp.Eth

/-! ## Ethernet -/

/-- A successful decode is a function of the visible input bytes alone: the same result (all
    fields, Contents, Payload, truncation contribution) for every previous receiver state, every
    capacity and every foreign bytes. -/
theorem decode_fn_of_bytes_eth (old : Ethernet) (d : GSlice) (h : 14 ≤ d.len) :
    old.decodeFromBytes d = .ok (ethDecSpec d.vis) := Ethernet.decode_long old d h

/-- No stale state: decoding into a re-used object = decoding into a fresh one. -/
theorem decode_resets (old : Ethernet) (data foreign : Bytes) :
    decodeEth old data foreign = decodeEth Ethernet.fresh data foreign := by
  unfold decodeEth
  by_cases h : GSlice.len ⟨data, foreign⟩ < 14
  · rw [Ethernet.decode_short old _ h, Ethernet.decode_short Ethernet.fresh _ h]; rfl
  · rw [Ethernet.decode_long old _ (by omega), Ethernet.decode_long Ethernet.fresh _ (by omega)]

/-- A failed decode leaves the receiver exactly as it was and does not set the truncation flag
    (so "same as a fresh object" is claimed for successful decodes, as the parser stops at the
    error and reports no layer). -/
theorem decode_error_keeps_receiver (old : Ethernet) (d : GSlice) (o : DecOut Ethernet)
    (h : old.decodeFromBytes d = .ok o) (he : o.err = true) : o.layer = old ∧ o.trunc = false := by
  by_cases hs : d.len < 14
  · rw [Ethernet.decode_short old d hs] at h; cases h; exact ⟨rfl, rfl⟩
  · rw [Ethernet.decode_long old d (by omega)] at h
    cases h
    unfold ethDecSpec at he
    simp only at he
    split at he
    · split at he <;> cases he
    · cases he

/-- Capacity independence (what C04 "NoCopy/Pool give identical results" and C02 "depends only on
    the bytes" need from this layer): spare capacity and its contents never influence the result. -/
theorem decode_cap_independent (old : Ethernet) (data foreign : Bytes) :
    decodeEth old data foreign = decodeEth old data [] := by
  unfold decodeEth
  by_cases h : GSlice.len ⟨data, foreign⟩ < 14
  · rw [Ethernet.decode_short old _ h, Ethernet.decode_short old ⟨data, []⟩ h]
  · have h' : 14 ≤ GSlice.len ⟨data, []⟩ := by
      have : GSlice.len ⟨data, []⟩ = GSlice.len ⟨data, foreign⟩ := rfl
      omega
    rw [Ethernet.decode_long old _ (by omega), Ethernet.decode_long old ⟨data, []⟩ h']

/-- The packet path agrees with the preallocated path: the layer `decodeEthernet` adds to a packet
    is the one a direct `DecodeFromBytes` into any re-used object yields, with the same
    truncation contribution; it is added exactly when that decode succeeds. -/
theorem packet_layer_eq_direct (old : Ethernet) (d : GSlice) :
    ∃ o, old.decodeFromBytes d = .ok o ∧
      ((o.err = true ∧ ∃ b, decodeEthernet d = .ok (b, none) ∧ b.tail = .fail) ∨
       (o.err = false ∧ ∃ b, decodeEthernet d = .ok (b, some o.layer) ∧
          b.tail = .nextEthType o.layer.ethernetType ∧
          (b.acts.contains .setTruncated = o.trunc) ∧
          b.acts.contains (.addLayer LayerTypeEthernet) = true ∧ b.acts.contains .setLinkLayer = true)) := by
  by_cases hs : d.len < 14
  · refine ⟨_, Ethernet.decode_short old d hs, Or.inl ⟨rfl, ?_⟩⟩
    unfold decodeEthernet
    rw [Ethernet.decode_short _ d hs, Res.bind_ok]
    exact ⟨_, rfl, rfl⟩
  · have hl : 14 ≤ d.len := by omega
    refine ⟨_, Ethernet.decode_long old d hl, Or.inr ?_⟩
    have herr : (ethDecSpec d.vis).err = false := by
      unfold ethDecSpec; simp only; split
      · split <;> rfl
      · rfl
    refine ⟨herr, ?_⟩
    unfold decodeEthernet
    rw [Ethernet.decode_long _ d hl, Res.bind_ok]
    simp only [herr, pure]
    cases ht : (ethDecSpec d.vis).trunc
    · exact ⟨_, rfl, rfl, by simp, by simp, by simp⟩
    · exact ⟨_, rfl, rfl, by simp, by simp, by simp⟩

/-! ## Dot1Q -/

theorem decode_fn_of_bytes_dot1q (old : Dot1Q) (d : GSlice) (h : 4 ≤ d.len) :
    old.decodeFromBytes d = .ok (dot1qDecSpec d.vis) := Dot1Q.decode_long old d h

theorem decode_resets_dot1q (old : Dot1Q) (data foreign : Bytes) :
    decodeDot1Q old data foreign = decodeDot1Q Dot1Q.fresh data foreign := by
  unfold decodeDot1Q
  by_cases h : GSlice.len ⟨data, foreign⟩ < 4
  · rw [Dot1Q.decode_short old _ h, Dot1Q.decode_short Dot1Q.fresh _ h]; rfl
  · rw [Dot1Q.decode_long old _ (by omega), Dot1Q.decode_long Dot1Q.fresh _ (by omega)]

/-- A failed Dot1Q decode leaves the receiver as it was; it DOES set the truncation flag
    (dot1q.go:32), identically for a re-used and a fresh object. -/
theorem decode_error_keeps_receiver_dot1q (old : Dot1Q) (d : GSlice) (o : DecOut Dot1Q)
    (h : old.decodeFromBytes d = .ok o) (he : o.err = true) : o.layer = old ∧ o.trunc = true := by
  by_cases hs : d.len < 4
  · rw [Dot1Q.decode_short old d hs] at h; cases h; exact ⟨rfl, rfl⟩
  · rw [Dot1Q.decode_long old d (by omega)] at h
    cases h; cases he

theorem decode_cap_independent_dot1q (old : Dot1Q) (data foreign : Bytes) :
    decodeDot1Q old data foreign = decodeDot1Q old data [] := by
  unfold decodeDot1Q
  by_cases h : GSlice.len ⟨data, foreign⟩ < 4
  · rw [Dot1Q.decode_short old _ h, Dot1Q.decode_short old ⟨data, []⟩ h]
  · have h' : 4 ≤ GSlice.len ⟨data, []⟩ := by
      have : GSlice.len ⟨data, []⟩ = GSlice.len ⟨data, foreign⟩ := rfl
      omega
    rw [Dot1Q.decode_long old _ (by omega), Dot1Q.decode_long old ⟨data, []⟩ h']

/-- The packet path of Dot1Q (`decodeDot1Q` = `decodingLayerDecoder`): the layer added to a packet is
    the one a direct `DecodeFromBytes` into any re-used object yields; it is added exactly when that
    decode succeeds; the next decoder is `LayerType(NextLayerType())`, or none when that is zero. -/
theorem packet_layer_eq_direct_dot1q (old : Dot1Q) (d : GSlice) :
    ∃ o, old.decodeFromBytes d = .ok o ∧
      ((o.err = true ∧ ∃ b, decodeDot1QFn d = .ok (b, none) ∧ b.tail = .fail ∧
          b.acts = [Act.setTruncated]) ∨
       (o.err = false ∧ o.trunc = false ∧ ∃ b, decodeDot1QFn d = .ok (b, some o.layer) ∧
          b.acts = [Act.addLayer LayerTypeDot1Q] ∧
          b.tail = (if o.layer.nextLayerType = LayerTypeZero then Tail.done
                    else Tail.nextLayerType o.layer.nextLayerType))) := by
  by_cases hs : d.len < 4
  · refine ⟨_, Dot1Q.decode_short old d hs, Or.inl ⟨rfl, ?_⟩⟩
    unfold decodeDot1QFn
    rw [Dot1Q.decode_short _ d hs, Res.bind_ok]
    exact ⟨_, rfl, rfl, rfl⟩
  · have hl : 4 ≤ d.len := by omega
    refine ⟨_, Dot1Q.decode_long old d hl, Or.inr ⟨rfl, rfl, ?_⟩⟩
    unfold decodeDot1QFn
    rw [Dot1Q.decode_long _ d hl, Res.bind_ok]
    have he : (dot1qDecSpec d.vis).err = false := rfl
    have ht : (dot1qDecSpec d.vis).trunc = false := rfl
    simp only [he, ht, pure]
    by_cases hz : (dot1qDecSpec d.vis).layer.nextLayerType = LayerTypeZero
    · simp only [hz, if_true]; exact ⟨_, rfl, rfl, rfl⟩
    · simp only [hz, if_false]; exact ⟨_, rfl, rfl, rfl⟩

/-! ## The parser over both layers (one object per type, re-used for stacked tags / Ethernet in Ethernet) -/

/-- No stale state through `DecodingLayerParser.DecodeLayers`: whatever the two layer objects held
    from earlier packets, the run returns the same error code, the same list of decoded types, the
    same truncation flag, and every layer object whose type is in that list holds the same value
    (`DlpAgree`).  (An object whose type was not decoded keeps its old value — the caller is told
    by the list not to read it.) -/
theorem dlp_resets (e1 e2 : Ethernet) (q1 q2 : Dot1Q) (d : GSlice) :
    ∃ r1 r2 c, dlpDecodeLayers e1 q1 d = .ok (r1, c) ∧ dlpDecodeLayers e2 q2 d = .ok (r2, c) ∧
      DlpAgree r1 r2 :=
  dlpLoop_agree _ _ _ _ _ ⟨rfl, rfl, fun h => absurd h (List.not_mem_nil), fun h => absurd h (List.not_mem_nil)⟩

/-- … and it does not depend on the capacity of the packet buffer or the bytes behind the input. -/
theorem dlp_cap_independent (eth : Ethernet) (dot1q : Dot1Q) (v t1 t2 : Bytes) :
    dlpDecodeLayers eth dot1q { vis := v, tail := t1 } = dlpDecodeLayers eth dot1q { vis := v, tail := t2 } :=
  dlpLoop_cap _ _ _ v t1 t2

/-- Non-vacuity: a QinQ frame — the parser's single Dot1Q object is written twice in one run and
    ends up holding the inner tag. -/
example :
    (match dlpDecodeLayers Ethernet.fresh Dot1Q.fresh
        { vis := [1,2,3,4,5,6, 7,8,9,10,11,12, 0x88,0xa8, 0x20,0x05,0x81,0x00, 0xe0,0x07,0x12,0x34, 0xAA], tail := [] } with
     | .ok (s, c) => some (s.decoded, c, s.dot1q.vlan, s.dot1q.priority, s.dot1q.type)
     | _ => none) = some ([17, 15, 15], 0, 7, 7, 0x1234) := by decide

/-! ## Non-vacuity: a receiver full of stale data, spare capacity full of foreign bytes -/

example :
    let stale : Ethernet := { contents := [1], payload := [2,3], srcMAC := [9], dstMAC := [8,8],
                              ethernetType := 0x86dd, length := 77 }
    decodeEth stale [1,2,3,4,5,6, 7,8,9,10,11,12, 0,1, 0xAA,0xBB] [0xEE,0xEE] =
      .ok ({ contents := [1,2,3,4,5,6,7,8,9,10,11,12,0,1], payload := [0xAA],
             srcMAC := [7,8,9,10,11,12], dstMAC := [1,2,3,4,5,6], ethernetType := 0, length := 1 }, false) ∧
    decodeEth stale [1,2,3,4,5,6, 7,8,9,10,11,12, 0,5, 0xAA,0xBB] [0xEE,0xEE,0xEE] =
      .ok ({ contents := [1,2,3,4,5,6,7,8,9,10,11,12,0,5], payload := [0xAA,0xBB],
             srcMAC := [7,8,9,10,11,12], dstMAC := [1,2,3,4,5,6], ethernetType := 0, length := 5 }, true) := by
  decide

end Gp.C05.Eth
