import Gp.Lemmas.Layers.Rmcp
import Gp.Lemmas.Layers.RmcpMdp
/-
  C05 (engine `lrmcp`) — RMCP, ASF, AGUEVar0 and MDP keep no stale state; results do not depend on the
  capacity of the packet buffer nor on the bytes behind the input; the packet path adds exactly the
  layer the preallocated path computes.

  `X.decodeFromBytes old d` takes the receiver BEFORE the call (`old`) and the input as a Go slice
  with capacity (`d.vis` = data, `d.tail` = foreign bytes between len and cap).  Every field the Go
  code assigns is assigned in the model by an explicit update of `old`, so a field that the code set
  on some paths only would survive from `old` — the theorems below say that none does on success.
  MDP is the code WITH the proposed fixes lrmcp-1/lrmcp-2 (`mdp_unfixed_stale_counterexample` shows
  what the shipped code does).
-/
namespace Gp.C05.Rmcp
open Gp Gp.Rmcp

/-! ## RMCP -/

/-- The outcome of `(*RMCP).DecodeFromBytes` on at least 4 bytes, for every receiver, capacity and
    foreign bytes: a function of the visible bytes alone. -/
theorem decode_fn_of_bytes_rmcp (old : RMCP) (d : GSlice) (h : 4 ≤ d.len) :
    old.decodeFromBytes d = .ok (rmcpDecSpec d.vis) := RMCP.decode_long old d h

/-- No stale state: decoding into a re-used object = decoding into a fresh one (all fields,
    Contents, Payload, truncation contribution on success; the same error otherwise). -/
theorem decode_resets (old : RMCP) (data foreign : Bytes) :
    decodeRmcp old data foreign = decodeRmcp RMCP.fresh data foreign := by
  unfold decodeRmcp
  by_cases h : GSlice.len ⟨data, foreign⟩ < 4
  · rw [RMCP.decode_short old _ h, RMCP.decode_short RMCP.fresh _ h]; rfl
  · rw [RMCP.decode_long old _ (by omega), RMCP.decode_long RMCP.fresh _ (by omega)]

/-- A failed RMCP decode leaves the receiver exactly as it was and sets the truncation flag. -/
theorem decode_error_keeps_receiver (old : RMCP) (d : GSlice) (o : DecOut RMCP)
    (h : old.decodeFromBytes d = .ok o) (he : o.err = true) : o.layer = old ∧ o.trunc = true := by
  by_cases hs : d.len < 4
  · rw [RMCP.decode_short old d hs] at h; cases h; exact ⟨rfl, rfl⟩
  · rw [RMCP.decode_long old d (by omega)] at h
    cases h; cases he

/-- Capacity independence (what C04 "NoCopy/Pool give identical results" and C02 "depends only on
    the bytes" need from this layer). -/
theorem decode_cap_independent (old : RMCP) (data foreign : Bytes) :
    old.decodeFromBytes ⟨data, foreign⟩ = old.decodeFromBytes ⟨data, []⟩ := by
  by_cases h : GSlice.len ⟨data, foreign⟩ < 4
  · rw [RMCP.decode_short old _ h, RMCP.decode_short old ⟨data, []⟩ h]
  · have h' : 4 ≤ GSlice.len ⟨data, []⟩ := by
      have : GSlice.len ⟨data, []⟩ = GSlice.len ⟨data, foreign⟩ := rfl
      omega
    rw [RMCP.decode_long old _ (by omega), RMCP.decode_long old ⟨data, []⟩ h']

/-- The packet path against the preallocated path: `decodeRMCP` adds a layer and makes it the
    application layer in EVERY case.  When the direct decode succeeds it is exactly the directly decoded
    layer (no truncation flag, next decoder = `Class.LayerType()`); when the direct decode fails (fewer than
    4 bytes) the packet still gets an RMCP layer — the untouched fresh object, all fields zero — before
    the error is returned (so the packet is [RMCP{}, DecodeFailure], truncated). -/
theorem packet_layer_eq_direct (old : RMCP) (d : GSlice) :
    ∃ o, old.decodeFromBytes d = .ok o ∧
      ((o.err = true ∧ decodeRMCPFn d =
          .ok ({ acts := [Act.setTruncated, Act.addLayer LayerTypeRMCP, Act.setApplicationLayer], tail := .fail },
               some RMCP.fresh)) ∨
       (o.err = false ∧ o.trunc = false ∧ decodeRMCPFn d =
          .ok ({ acts := [Act.addLayer LayerTypeRMCP, Act.setApplicationLayer],
                 tail := .nextLayerType (rmcpNextOf o.layer.cls) }, some o.layer))) := by
  by_cases hs : d.len < 4
  · refine ⟨_, RMCP.decode_short old d hs, Or.inl ⟨rfl, ?_⟩⟩
    unfold decodeRMCPFn
    rw [RMCP.decode_short _ d hs, Res.bind_ok]
    rfl
  · have hl : 4 ≤ d.len := by omega
    refine ⟨_, RMCP.decode_long old d hl, Or.inr ⟨rfl, rfl, ?_⟩⟩
    unfold decodeRMCPFn
    rw [RMCP.decode_long _ d hl, Res.bind_ok]
    simp only [rmcpDecSpec, Bool.false_eq_true, if_false, rmcpLayer_next d.vis, Res.bind_ok]
    rfl

set_option maxRecDepth 20000 in
/-- `RMCPClass.LayerType` over the shipped table, with the key taken from the constant REGENERATED from
    rmcp.go on every run: class 6 (ASF) → LayerTypeASF, every other class below 16 → LayerTypePayload. -/
theorem rmcp_next_layer_table :
    rmcpNextOf 6 = LayerTypeASF ∧ (∀ c, c < 16 → c ≠ 6 → rmcpNextOf c = LayerTypePayload) ∧
    (∀ c, c < 16 → rmcpClassLayerType c = .ok (rmcpNextOf c)) := by decide

/-! ## ASF -/

theorem decode_fn_of_bytes_asf (old : ASF) (d : GSlice) (h : 8 ≤ d.len) :
    old.decodeFromBytes d = .ok (asfDecSpec d.vis) := ASF.decode_long old d h

theorem decode_resets_asf (old : ASF) (data foreign : Bytes) :
    decodeAsfView old data foreign = decodeAsfView ASF.fresh data foreign := by
  unfold decodeAsfView
  by_cases h : GSlice.len ⟨data, foreign⟩ < 8
  · rw [ASF.decode_short old _ h, ASF.decode_short ASF.fresh _ h]; rfl
  · rw [ASF.decode_long old _ (by omega), ASF.decode_long ASF.fresh _ (by omega)]

theorem decode_error_keeps_receiver_asf (old : ASF) (d : GSlice) (o : DecOut ASF)
    (h : old.decodeFromBytes d = .ok o) (he : o.err = true) : o.layer = old ∧ o.trunc = true := by
  by_cases hs : d.len < 8
  · rw [ASF.decode_short old d hs] at h; cases h; exact ⟨rfl, rfl⟩
  · rw [ASF.decode_long old d (by omega)] at h
    cases h; cases he

theorem decode_cap_independent_asf (old : ASF) (data foreign : Bytes) :
    old.decodeFromBytes ⟨data, foreign⟩ = old.decodeFromBytes ⟨data, []⟩ := by
  by_cases h : GSlice.len ⟨data, foreign⟩ < 8
  · rw [ASF.decode_short old _ h, ASF.decode_short old ⟨data, []⟩ h]
  · have h' : 8 ≤ GSlice.len ⟨data, []⟩ := by
      have : GSlice.len ⟨data, []⟩ = GSlice.len ⟨data, foreign⟩ := rfl
      omega
    rw [ASF.decode_long old _ (by omega), ASF.decode_long old ⟨data, []⟩ h']

/-- `decodeASF` (= `decodingLayerDecoder`): adds the directly decoded layer (exactly when the direct decode
    succeeds), no Set*Layer call, then NextDecoder(ASFDataIdentifier.LayerType()) — never LayerTypeZero. -/
theorem packet_layer_eq_direct_asf (old : ASF) (d : GSlice) :
    ∃ o, old.decodeFromBytes d = .ok o ∧
      ((o.err = true ∧ decodeASFFn d = .ok ({ acts := [Act.setTruncated], tail := .fail }, none)) ∨
       (o.err = false ∧ o.trunc = false ∧ decodeASFFn d =
          .ok ({ acts := [Act.addLayer LayerTypeASF], tail := .nextLayerType o.layer.nextLayerType }, some o.layer))) := by
  by_cases hs : d.len < 8
  · refine ⟨_, ASF.decode_short old d hs, Or.inl ⟨rfl, ?_⟩⟩
    unfold decodeASFFn
    rw [ASF.decode_short _ d hs, Res.bind_ok]
    rfl
  · have hl : 8 ≤ d.len := by omega
    refine ⟨_, ASF.decode_long old d hl, Or.inr ⟨rfl, rfl, ?_⟩⟩
    unfold decodeASFFn
    rw [ASF.decode_long _ d hl, Res.bind_ok]
    have hz : (asfDecSpec d.vis).layer.nextLayerType ≠ LayerTypeZero := by
      unfold ASF.nextLayerType asfDataLayerType
      simp only
      split
      · assumption
      · decide
    unfold decodingLayerDecoder
    simp only [asfDecSpec, Bool.false_eq_true, if_false, List.nil_append, pure]
    exact congrArg Res.ok (if_neg hz)

/-! ## AGUEVar0 -/

theorem decode_fn_of_bytes_ague (old : AGUE) (d : GSlice) (h : 4 ≤ d.len) :
    old.decodeFromBytes d = .ok (agueDecSpec old d.vis) := AGUE.decode_long old d h

theorem decode_resets_ague (old : AGUE) (data foreign : Bytes) :
    decodeAgueView old data foreign = decodeAgueView AGUE.fresh data foreign := by
  unfold decodeAgueView
  by_cases h : GSlice.len ⟨data, foreign⟩ < 4
  · rw [AGUE.decode_short old _ h, AGUE.decode_short AGUE.fresh _ h]; rfl
  · rw [AGUE.decode_long old _ (by omega), AGUE.decode_long AGUE.fresh _ (by omega)]
    obtain ⟨x1, x2, x3⟩ := agueDecSpec_err_indep old AGUE.fresh data
    simp only
    by_cases he : (agueDecSpec old data).err = true
    · rw [if_pos he, if_pos (by rw [← x1]; exact he)]
    · rw [if_neg he, if_neg (by rw [← x1]; exact he), x2, x3 (by simpa using he)]

/-- A failed AGUEVar0 decode leaves the receiver exactly as it was and never sets the truncation flag
    (the DecodeFeedback parameter is ignored: a too-short header is an error only). -/
theorem decode_error_keeps_receiver_ague (old : AGUE) (d : GSlice) (o : DecOut AGUE)
    (h : old.decodeFromBytes d = .ok o) (he : o.err = true) : o.layer = old ∧ o.trunc = false := by
  by_cases hs : d.len < 4
  · rw [AGUE.decode_short old d hs] at h; cases h; exact ⟨rfl, rfl⟩
  · rw [AGUE.decode_long old d (by omega)] at h
    cases h
    refine ⟨agueDecSpec_err_keeps old d.vis he, ?_⟩
    unfold agueDecSpec; split <;> rfl

theorem decode_cap_independent_ague (old : AGUE) (data foreign : Bytes) :
    old.decodeFromBytes ⟨data, foreign⟩ = old.decodeFromBytes ⟨data, []⟩ := by
  by_cases h : GSlice.len ⟨data, foreign⟩ < 4
  · rw [AGUE.decode_short old _ h, AGUE.decode_short old ⟨data, []⟩ h]
  · have h' : 4 ≤ GSlice.len ⟨data, []⟩ := by
      have : GSlice.len ⟨data, []⟩ = GSlice.len ⟨data, foreign⟩ := rfl
      omega
    rw [AGUE.decode_long old _ (by omega), AGUE.decode_long old ⟨data, []⟩ h']

/-- `decodeAGUE` on a non-empty input that is not variant 1: the layer added to the packet (by value) is
    the one a direct decode into any re-used object yields; it is added exactly when that decode
    succeeds; no SetTruncated, no Set*Layer; the next decoder is `IPProtocol(l.Protocol).LayerType()`. -/
theorem packet_layer_eq_direct_ague (old : AGUE) (d : GSlice) (h0 : d.len ≠ 0)
    (hv : (byteAt d.vis 0).toNat >>> 6 ≠ 1) :
    ∃ o, old.decodeFromBytes d = .ok o ∧ o.trunc = false ∧
      ((o.err = true ∧ decodeAGUEFn d = .ok ({ acts := [], tail := .fail }, none)) ∨
       (o.err = false ∧ decodeAGUEFn d =
          .ok ({ acts := [Act.addLayer LayerTypeAGUEVar0], tail := .nextLayerType o.layer.nextLayerType },
               some o.layer))) := by
  have hd : decodeAGUEFn d = (do
      let o ← AGUE.fresh.decodeFromBytes d
      if o.err then pure ({ acts := [], tail := .fail }, none)
      else pure ({ acts := [.addLayer LayerTypeAGUEVar0], tail := .nextLayerType o.layer.nextLayerType }, some o.layer)) := by
    unfold decodeAGUEFn
    rw [if_neg h0, GSlice.index_ok d 0 (by omega), Res.bind_ok, if_neg hv]
  rw [hd]
  by_cases hs : d.len < 4
  · refine ⟨_, AGUE.decode_short old d hs, rfl, Or.inl ⟨rfl, ?_⟩⟩
    rw [AGUE.decode_short _ d hs, Res.bind_ok]
    rfl
  · have hl : 4 ≤ d.len := by omega
    refine ⟨_, AGUE.decode_long old d hl, ?_⟩
    rw [AGUE.decode_long _ d hl, Res.bind_ok]
    obtain ⟨x1, x2, x3⟩ := agueDecSpec_err_indep old AGUE.fresh d.vis
    have ht : (agueDecSpec old d.vis).trunc = false := by unfold agueDecSpec; split <;> rfl
    refine ⟨ht, ?_⟩
    by_cases he : (agueDecSpec old d.vis).err = true
    · refine Or.inl ⟨he, ?_⟩
      rw [if_pos (by rw [← x1]; exact he)]; rfl
    · have hef : (agueDecSpec old d.vis).err = false := by simpa using he
      refine Or.inr ⟨hef, ?_⟩
      rw [if_neg (by rw [← x1]; exact he), ← x3 hef]; rfl

/-! ## MDP (with the proposed fixes lrmcp-1 and lrmcp-2) -/

/-- No stale state: decoding into a re-used MDP object = decoding into a fresh one — all thirteen
    fields incl. every TLV-derived one whose TLV is absent from this packet, Contents, Payload,
    truncation contribution on success; the same error otherwise. -/
theorem decode_resets_mdp (old : MDP) (data foreign : Bytes) :
    decodeMdpView old data foreign = decodeMdpView MDP.fresh data foreign := by
  unfold decodeMdpView
  by_cases h : GSlice.len ⟨data, foreign⟩ < 28
  · rw [MDP.decode_short old _ h, MDP.decode_short MDP.fresh _ h]; rfl
  · have hl : 28 ≤ GSlice.len ⟨data, foreign⟩ := by omega
    rw [MDP.decode_long old _ hl, MDP.decode_long MDP.fresh _ hl]
    obtain ⟨o1, o2, e1, e2, x1, x2, -, x4⟩ := mdpLoop_core (GSlice.len ⟨data, foreign⟩) (mdpInit old data) (mdpInit MDP.fresh data)
      ⟨data, foreign⟩ 28 rfl rfl hl (by omega)
    rw [e1, e2]
    simp only
    by_cases he : o1.err = true
    · rw [if_pos he, if_pos (by rw [← x1]; exact he)]
    · rw [if_neg he, if_neg (by rw [← x1]; exact he), x2, x4 (by simpa using he)]

/-- What a failed MDP decode leaves behind: Contents and Payload of the previous packet (everything
    else is reset / overwritten as far as the TLV list was read); the call reports the error. -/
theorem decode_error_receiver_mdp (old : MDP) (d : GSlice) (o : DecOut MDP)
    (h : old.decodeFromBytes d = .ok o) (he : o.err = true) :
    o.trunc = true ∧ ∃ o', MDP.fresh.decodeFromBytes d = .ok o' ∧ o'.err = true ∧
      (28 ≤ d.len → mdpCore o.layer = mdpCore o'.layer) := by
  by_cases hs : d.len < 28
  · rw [MDP.decode_short old d hs] at h; cases h
    exact ⟨rfl, _, MDP.decode_short MDP.fresh d hs, rfl, fun hh => by omega⟩
  · have hl : 28 ≤ d.len := by omega
    rw [MDP.decode_long old d hl] at h
    obtain ⟨o1, o2, e1, e2, x1, x2, x3, -⟩ := mdpLoop_core d.len (mdpInit old d.vis) (mdpInit MDP.fresh d.vis) d 28 rfl rfl hl (by omega)
    rw [h] at e1; cases e1
    refine ⟨?_, o2, by rw [MDP.decode_long MDP.fresh d hl]; exact e2, by rw [← x1]; exact he, fun _ => x3⟩
    exact mdpLoop_err_trunc _ _ _ _ rfl _ h he

theorem decode_cap_independent_mdp (old : MDP) (data foreign : Bytes) :
    old.decodeFromBytes ⟨data, foreign⟩ = old.decodeFromBytes ⟨data, []⟩ := by
  by_cases h : GSlice.len ⟨data, foreign⟩ < 28
  · rw [MDP.decode_short old _ h, MDP.decode_short old ⟨data, []⟩ h]
  · have h' : 28 ≤ GSlice.len ⟨data, []⟩ := by
      have : GSlice.len ⟨data, []⟩ = GSlice.len ⟨data, foreign⟩ := rfl
      omega
    rw [MDP.decode_long old _ (by omega), MDP.decode_long old ⟨data, []⟩ h']
    exact mdpLoop_cap _ _ data foreign [] 28 rfl

/-- `decodeMDP`: the layer added to the packet is the one a direct decode into any re-used object
    yields, added exactly when that decode succeeds. -/
theorem packet_layer_eq_direct_mdp (old : MDP) (d : GSlice) :
    ∃ o o', old.decodeFromBytes d = .ok o ∧ MDP.fresh.decodeFromBytes d = .ok o' ∧ o.err = o'.err ∧ o.trunc = o'.trunc ∧
      (o.err = false → o.layer = o'.layer ∧
        decodeMDPFn d = .ok (Beh.mk ((if o.trunc then [Act.setTruncated] else []) ++ [Act.addLayer LayerTypeMDP])
                              (.nextLayerType o.layer.nextLayerType), some o.layer)) ∧
      (o.err = true → decodeMDPFn d = .ok (Beh.mk (if o.trunc then [Act.setTruncated] else []) .fail, none)) := by
  have key : ∃ o o', old.decodeFromBytes d = .ok o ∧ MDP.fresh.decodeFromBytes d = .ok o' ∧ o.err = o'.err ∧
      o.trunc = o'.trunc ∧ (o.err = false → o.layer = o'.layer) := by
    by_cases hs : d.len < 28
    · exact ⟨_, _, MDP.decode_short old d hs, MDP.decode_short MDP.fresh d hs, rfl, rfl, fun hh => by cases hh⟩
    · have hl : 28 ≤ d.len := by omega
      obtain ⟨o1, o2, e1, e2, x1, x2, -, x4⟩ := mdpLoop_core d.len (mdpInit old d.vis) (mdpInit MDP.fresh d.vis) d 28 rfl rfl hl (by omega)
      exact ⟨o1, o2, by rw [MDP.decode_long old d hl]; exact e1, by rw [MDP.decode_long MDP.fresh d hl]; exact e2, x1, x2, x4⟩
  obtain ⟨o, o', e1, e2, x1, x2, x4⟩ := key
  refine ⟨o, o', e1, e2, x1, x2, fun he => ⟨x4 he, ?_⟩, fun he => ?_⟩
  · unfold decodeMDPFn
    rw [e2, Res.bind_ok]
    have he' : o'.err = false := by rw [← x1]; exact he
    simp only [he', Bool.false_eq_true, if_false, pure, ← x2, ← x4 he]
  · unfold decodeMDPFn
    rw [e2, Res.bind_ok]
    have he' : o'.err = true := by rw [← x1]; exact he
    simp only [he', if_true, pure, ← x2]

/-- What the SHIPPED mdp.go does (without fix lrmcp-1): the eight TLV-derived fields are assigned only
    when their TLV is present, so a re-used object keeps the previous packet's DeviceInfo — shown on the
    loop of the same transcription started from a receiver that was not reset. -/
theorem mdp_unfixed_stale_counterexample :
    let stale : MDP := { MDP.fresh with deviceInfo := [0x4d, 0x52], length := 29, typ := 1810 }
    let d : GSlice := { vis := List.replicate 28 0 ++ [255], tail := [] }
    (match mdpLoop 29 stale d 28 with | .ok o => o.layer.deviceInfo | _ => []) = [0x4d, 0x52] ∧
    (match MDP.decodeFromBytes stale d with | .ok o => o.layer.deviceInfo | _ => [1]) = [] := by decide

/-! ## The parser over RMCP, ASF, AGUEVar0 (one object per type) -/

/-- No stale state through `DecodingLayerParser.DecodeLayers`: whatever the three layer objects held
    from earlier packets, the run returns the same error code, the same list of decoded types, the same
    truncation flag, and every layer object whose type is in that list holds the same value (`DlpAgree`). -/
theorem dlp_resets (r1 r2 : RMCP) (a1 a2 : ASF) (g1 g2 : AGUE) (first : Nat) (d : GSlice) :
    ∃ s1 s2 c, dlpDecodeLayers r1 a1 g1 first d = .ok (s1, c) ∧ dlpDecodeLayers r2 a2 g2 first d = .ok (s2, c) ∧
      DlpAgree s1 s2 :=
  dlpLoop_agree _ _ _ _ _ ⟨rfl, rfl, fun h => absurd h (List.not_mem_nil), fun h => absurd h (List.not_mem_nil),
    fun h => absurd h (List.not_mem_nil)⟩

/-- … and it does not depend on the capacity of the packet buffer or the bytes behind the input. -/
theorem dlp_cap_independent (r : RMCP) (a : ASF) (g : AGUE) (first : Nat) (v t1 t2 : Bytes) :
    dlpDecodeLayers r a g first { vis := v, tail := t1 } = dlpDecodeLayers r a g first { vis := v, tail := t2 } :=
  dlpLoop_cap _ _ _ v t1 t2

/-- The parser chains RMCP → ASF exactly as the packet decoders do: an RMCP header of class ASF followed
    by an ASF header gives the run [RMCP, ASF]. -/
example :
    (match dlpDecodeLayers RMCP.fresh ASF.fresh AGUE.fresh LayerTypeRMCP
        { vis := [6,0,0xff,6, 0,0,0x11,0xbe,0x80,7,0,0], tail := [] } with
     | .ok (s, c) => some (s.decoded, c, s.asf.typ, s.trunc)
     | _ => none) = some ([142, 143], 0, 0x80, false) := by decide

/-! ## Non-vacuity: receivers full of stale data, spare capacity full of foreign bytes -/

example :
    decodeRmcp { contents := [1], payload := [2,3], version := 9, sequence := 9, ack := true, cls := 9 }
        [6,0,1,7, 0x77] [0xEE,0xEE] =
      .ok ({ contents := [6,0,1,7], payload := [0x77], version := 6, sequence := 1, ack := false, cls := 7 }, false) := by
  decide

example :
    decodeAgueView { version := 3, c := true, protocol := 99, flags := 7, extensions := [1,2,3], data := [4] }
        [0x01, 4, 0, 0, 0xAB, 0x45] [9] =
      .ok ({ version := 0, c := false, protocol := 4, flags := 0, extensions := [0xAB], data := [0x45] }, false) := by
  decide

end Gp.C05.Rmcp
