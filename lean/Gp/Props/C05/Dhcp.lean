import Gp.Lemmas.Layers.Dhcp
/-
  C05 (engine `ldhcp`) — DHCPv4 keeps no stale state; results do not depend on the capacity of the
  packet buffer nor on the bytes behind the input; the packet path adds exactly the layer the
  preallocated path computes.

  `old.decodeFromBytes v d` takes the receiver BEFORE the call (`old`) and the input as a Go slice
  with capacity (`d.vis` = data, `d.tail` = foreign bytes between len and cap).  Every field the Go
  code assigns is assigned in the model by an explicit update of `old`, so a field that the code sets
  on some paths only survives from `old`.

  The pinned code (`.orig`) DOES keep stale state: `d.Contents = data` stands behind the option loop,
  and a message of exactly 240 bytes returns in front of it (`decode_resets_orig_counterexample`;
  found on the real code by the monitor as ldhcp:stale:Contents); Payload is never assigned.
  proposed_fixes/ldhcp-1 assigns the whole BaseLayer before that return; the theorems at full strength
  are about that code (`.fixed`), which is what the correspondence run drives.
-/
namespace Gp.C05.Dhcp
open Gp Gp.Dhcp

/-- The outcome of `(*DHCPv4).DecodeFromBytes`, for every receiver, capacity and foreign bytes: the
    specification `decSpec` — a function of the receiver and the VISIBLE bytes; never a panic. -/
theorem decode_fn_of_bytes (old : DHCPv4) (data foreign : Bytes) :
    old.decodeFromBytes .fixed { vis := data, tail := foreign } = .ok (decSpec old data) :=
  decode_spec_fixed old data foreign

/-- No stale state: decoding into a re-used object = decoding into a fresh one (all fields, Options,
    Contents, Payload and truncation contribution on success; the same error otherwise). -/
theorem decode_resets (old : DHCPv4) (data foreign : Bytes) :
    decodeDhcp old data foreign = decodeDhcp DHCPv4.fresh data foreign := by
  rw [decodeDhcp_eq, decodeDhcp_eq]
  obtain ⟨x1, x2⟩ := decSpec_err_indep old DHCPv4.fresh data
  by_cases he : (decSpec old data).err = true
  · rw [if_pos he, if_pos (by rw [← x1]; exact he)]
  · rw [if_neg he, if_neg (by rw [← x1]; exact he), x2,
      decSpec_layer_indep old DHCPv4.fresh data (by simpa using he)]

/-- … for any two receivers and any two capacities at once. -/
theorem decode_resets_any (old old' : DHCPv4) (data foreign foreign' : Bytes) :
    decodeDhcp old data foreign = decodeDhcp old' data foreign' := by
  rw [decode_resets old, decode_resets old', decodeDhcp_eq, decodeDhcp_eq]

/-- A successfully decoded layer, spelled out: every field is a function of the input bytes; Contents
    is the whole message and Payload is empty (DHCP has no payload: options run to the end of the
    message, bytes behind the End option are ignored); the truncation flag is not set. -/
theorem decode_success (old : DHCPv4) (data foreign : Bytes) (l : DHCPv4) (t : Bool)
    (h : decodeDhcp old data foreign = .ok (l, t)) :
    l = { hdrFixed data with options := (parseOpts (data.length - 240) (data.drop 240)).1 } ∧
    l.contents = data ∧ l.payload = [] ∧ t = false := by
  rw [decodeDhcp_eq] at h
  by_cases he : (decSpec old data).err = true
  · rw [if_pos he] at h; cases h
  · rw [if_neg he] at h
    have he' : (decSpec old data).err = false := by simpa using he
    obtain ⟨a, b, c, -, -, -, e, -⟩ := decSpec_ok_base old data he'
    cases h
    exact ⟨e, a, b, c⟩

/-- The truncation flag is set exactly when the message is shorter than 240 bytes (an error return
    that leaves the receiver untouched); the other three error returns (hardware length
    > 16, bad magic cookie, malformed option) leave a half-updated receiver whose Options were
    emptied first.  Not a violation: the call reports the error, the parser reports no layer, and
    `decode_resets` shows that the next decode does not depend on what is left. -/
theorem decode_error_receiver (old : DHCPv4) (data : Bytes) :
    ((decSpec old data).trunc = true ↔ data.length < 240) ∧
    (data.length < 240 → (decSpec old data).layer = old) := by
  unfold decSpec
  by_cases h1 : data.length < 240
  · simp [h1]
  · rw [if_neg h1]
    constructor
    · constructor
      · intro ht
        split at ht
        · cases ht
        · split at ht <;> cases ht
      · intro x; exact absurd x h1
    · intro x; exact absurd x h1

/-- Capacity independence (what C04 "NoCopy/Pool give identical results" and C02 "depends only on
    the bytes" need from this layer): spare capacity and its contents never influence the result —
    option lengths are checked against the LENGTH of what is left. -/
theorem decode_cap_independent (old : DHCPv4) (data foreign : Bytes) :
    decodeDhcp old data foreign = decodeDhcp old data [] := by
  rw [decodeDhcp_eq, decodeDhcp_eq]

/-- … for the full outcome, including the receiver left by a failed call. -/
theorem decode_cap_independent_full (old : DHCPv4) (data foreign : Bytes) :
    old.decodeFromBytes .fixed { vis := data, tail := foreign } = old.decodeFromBytes .fixed { vis := data, tail := [] } := by
  rw [decode_spec_fixed, decode_spec_fixed]

/-- The packet path: `decodeDHCPv4` (the function NewPacket calls) adds exactly the layer a direct
    DecodeFromBytes into a fresh object computes — `AddLayer(LayerTypeDHCPv4)` and nothing else (no
    Set*Layer call), then `NextDecoder(LayerTypePayload)`; on an error it adds nothing, and the
    truncation flag is raised exactly when the direct call raises it. -/
theorem packet_layer_eq_direct (data foreign : Bytes) :
    decodeDHCPv4Fn .fixed { vis := data, tail := foreign } =
      .ok (match decodeDhcp DHCPv4.fresh data foreign with
           | .ok (l, t) => ({ acts := (if t then [Act.setTruncated] else []) ++ [.addLayer LayerTypeDHCPv4],
                              tail := .nextLayerType LayerTypePayload }, some l)
           | _ => ({ acts := if data.length < 240 then [Act.setTruncated] else [], tail := .fail }, none)) := by
  rw [decodeDHCPv4Fn_eq, decodeDhcp_eq]
  by_cases he : (decSpec DHCPv4.fresh data).err = true
  · rw [if_pos he, if_pos he]
    obtain ⟨ht, -⟩ := decode_error_receiver DHCPv4.fresh data
    simp only
    by_cases hl : data.length < 240
    · rw [if_pos hl, if_pos (ht.mpr hl)]
    · rw [if_neg hl, if_neg (fun x => hl (ht.mp x))]
  · rw [if_neg he, if_neg he]

/-- The parser path (DecodingLayerParser over {DHCPv4}): the run is `[DHCPv4]` with the layer of a
    fresh direct decode exactly when the direct decode succeeds — whatever the parser's object held
    before; otherwise the run is empty and the error is reported; the fixed code never reports an
    unsupported next layer (Payload is always empty); the truncation flag is the direct call's. -/
theorem dlp_resets (obj : DHCPv4) (data foreign : Bytes) :
    ∃ o, dlpDecodeLayers .fixed obj { vis := data, tail := foreign } = .ok o ∧ o.code ≠ 2 ∧
      (match decodeDhcp DHCPv4.fresh data foreign with
       | .ok (l, t) => o.code = 0 ∧ o.decoded = [LayerTypeDHCPv4] ∧ o.layer = l ∧ o.trunc = t
       | _ => o.code = 1 ∧ o.decoded = [] ∧ (o.trunc = true ↔ data.length < 240)) := by
  rw [dlp_eq, decodeDhcp_eq]
  obtain ⟨x1, x2⟩ := decSpec_err_indep obj DHCPv4.fresh data
  by_cases he : (decSpec obj data).err = true
  · have he' : (decSpec DHCPv4.fresh data).err = true := by rw [← x1]; exact he
    rw [if_pos he, if_pos he']
    exact ⟨_, rfl, by simp, rfl, rfl, (decode_error_receiver obj data).1⟩
  · have he' : ¬ (decSpec DHCPv4.fresh data).err = true := by rw [← x1]; exact he
    rw [if_neg he, if_neg he']
    exact ⟨_, rfl, by simp, rfl, rfl, decSpec_layer_indep obj DHCPv4.fresh data (by simpa using he), x2⟩

/-- The parser run equals the packet's (single) layer: same layer, same truncation flag. -/
theorem dlp_eq_packet (obj : DHCPv4) (data foreign : Bytes) (o : DlpOut)
    (h : dlpDecodeLayers .fixed obj { vis := data, tail := foreign } = .ok o) (hc : o.code = 0) :
    ∃ b, decodeDHCPv4Fn .fixed { vis := data, tail := [] } = .ok (b, some o.layer) ∧
      b.acts.contains .setTruncated = o.trunc := by
  rw [dlp_eq] at h
  rw [decodeDHCPv4Fn_eq]
  obtain ⟨x1, x2⟩ := decSpec_err_indep obj DHCPv4.fresh data
  by_cases he : (decSpec obj data).err = true
  · rw [if_pos he] at h; cases h; cases hc
  · have he' : ¬ (decSpec DHCPv4.fresh data).err = true := by rw [← x1]; exact he
    rw [if_neg he] at h; cases h
    rw [if_neg he']
    refine ⟨{ acts := (if (decSpec DHCPv4.fresh data).trunc = true then [Act.setTruncated] else []) ++ [Act.addLayer LayerTypeDHCPv4],
              tail := .nextLayerType LayerTypePayload }, ?_, ?_⟩
    · rw [decSpec_layer_indep obj DHCPv4.fresh data (by simpa using he)]
    · simp only
      rw [← x2]
      cases (decSpec obj data).trunc <;> rfl

/-! ### The pinned code keeps stale state -/

/-- The view of the pinned decoder. -/
def decodeDhcpOrig (old : DHCPv4) (data foreign : Bytes) : Res (DHCPv4 × Bool) :=
  match old.decodeFromBytes .orig { vis := data, tail := foreign } with
  | .ok o => if o.err then .err "dhcpv4" else .ok (o.layer, o.trunc)
  | .err k => .err k
  | .panic k => .panic k

/-- The full-strength statement for the pinned code. -/
def decode_resets_orig_full : Prop :=
  ∀ (old : DHCPv4) (data foreign : Bytes), decodeDhcpOrig old data foreign = decodeDhcpOrig DHCPv4.fresh data foreign

/-- a 240-byte message: no option bytes at all -/
def noOptions240 : Bytes := [2, 1, 6, 0] ++ List.replicate 232 0 ++ [0x63, 0x82, 0x53, 0x63]

set_option maxRecDepth 8000 in
/-- It is false: a 240-byte message decoded into an object that still holds the Contents of an earlier
    packet keeps those Contents (a fresh object reports none). -/
theorem decode_resets_orig_counterexample : ¬ decode_resets_orig_full := by
  intro h
  have := h { DHCPv4.fresh with contents := [1, 2, 3] } noOptions240 []
  revert this
  decide

/-- What does hold for the pinned code: a message WITH option bytes decoded into an object whose
    Payload nobody set gives the result of a fresh object. -/
theorem decode_resets_orig_partial (old : DHCPv4) (data foreign : Bytes)
    (hp : old.payload = []) (hl : data.length ≠ 240) :
    decodeDhcpOrig old data foreign = decodeDhcpOrig DHCPv4.fresh data foreign := by
  unfold decodeDhcpOrig
  rw [decode_spec_orig, decode_spec_orig]
  unfold decSpecOrig
  by_cases h1 : data.length < 240
  · simp [h1]
  · rw [if_neg h1, if_neg h1]
    by_cases h2 : hwLenOf data > 16
    · simp [h2]
    · rw [if_neg h2, if_neg h2]
      by_cases h3 : u32At data 236 ≠ dhcpMagic
      · rw [if_pos h3, if_pos h3]; rfl
      · rw [if_neg h3, if_neg h3]
        have h4 : ¬ data.length ≤ 240 := by omega
        rw [if_neg h4, if_neg h4]
        simp only
        cases (parseOpts (data.length - 240) (List.drop 240 data)).2
        · simp only [Bool.false_eq_true, if_false]
          congr 2
          simp [hdrAll, hdr3, hp, DHCPv4.fresh]
        · simp

/-! ### Non-vacuity -/

set_option maxRecDepth 8000 in
example : (decSpec { DHCPv4.fresh with contents := [1, 2, 3], payload := [9], options := [{ typ := 1, length := 0, data := [] }] }
      noOptions240).err = false := by decide

set_option maxRecDepth 8000 in
example : (decSpecOrig DHCPv4.fresh noOptions240).err = false := by decide

end Gp.C05.Dhcp
