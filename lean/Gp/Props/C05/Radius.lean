import Gp.Lemmas.Layers.Radius
/-
  C05 (engine `lradius`) — decoding RADIUS into a re-used layer object equals decoding into a fresh
  one (no stale state), and the result is a function of the VISIBLE bytes only (not of the capacity /
  the foreign bytes behind len: NoCopy, pool blocks and copies agree).

  The property theorems are about `.fixed` = the tree with proposed_fixes/lradius-1 (the pinned
  DecodeFromBytes APPENDS to the receiver's Attributes: `decode_resets_orig_counterexample`).
-/
namespace Gp.C05.Radius
open Gp Gp.Radius

/-- The outcome of `DecodeFromBytes` (receiver afterwards, truncation flag, error) is `decSpec` of the
    receiver and the visible bytes — for both variants of the source. -/
theorem decode_fn_of_bytes (v : Variant) (old : RADIUS) (data foreign : Bytes) :
    old.decodeFromBytes v { vis := data, tail := foreign } = .ok (decSpec v old data) :=
  decode_spec v old data foreign

/-- No stale state: whatever the receiver held, a successful decode leaves exactly what a fresh
    object would hold (all fields, Contents, Payload), with the same truncation flag. -/
theorem decode_resets (old : RADIUS) (data foreign : Bytes)
    (h : (decSpec .fixed old data).err = false) :
    old.decodeFromBytes .fixed { vis := data, tail := foreign } =
      RADIUS.fresh.decodeFromBytes .fixed { vis := data, tail := foreign } := by
  rw [decode_spec, decode_spec, decSpec_fixed_resets old data h]

/-- The same in the view of the engine brief; here without a hypothesis: when the decode fails it
    fails for both objects. -/
theorem decode_resets_any (old : RADIUS) (data foreign : Bytes) :
    decodeRadius old data foreign = decodeRadius RADIUS.fresh data foreign := by
  rw [decodeRadius_eq, decodeRadius_eq]
  obtain ⟨he, _⟩ := decSpec_fixed_flags old data
  cases hb : (decSpec .fixed old data).err
  · rw [← he, hb, decSpec_fixed_resets old data hb]
  · rw [← he, hb]; rfl

/-- Error return and truncation flag never depend on the receiver (also on the failing paths). -/
theorem decode_flags_reset (old : RADIUS) (data : Bytes) :
    (decSpec .fixed old data).err = (decSpec .fixed RADIUS.fresh data).err ∧
    (decSpec .fixed old data).trunc = (decSpec .fixed RADIUS.fresh data).trunc :=
  decSpec_fixed_flags old data

/-- Every field of a successfully decoded layer, spelled out as a function of the input bytes. -/
theorem decode_success (old : RADIUS) (v : Bytes) (h : (decSpec .fixed old v).err = false) :
    (decSpec .fixed old v).layer.contents = v ∧
    (decSpec .fixed old v).layer.length = u16At v 2 ∧
    (decSpec .fixed old v).layer.code = (byteAt v 0).toNat ∧
    (decSpec .fixed old v).layer.identifier = (byteAt v 1).toNat ∧
    (decSpec .fixed old v).layer.authenticator = ((v.take (u16At v 2)).drop 4).take 16 ∧
    (decSpec .fixed old v).layer.attributes = (parseAttrs (u16At v 2) ((v.take (u16At v 2)).drop 20)).1 ∧
    (decSpec .fixed old v).layer.payload = eapPayload (decSpec .fixed old v).layer.attributes ∧
    (decSpec .fixed old v).trunc = decide (u16At v 2 < v.length) := by
  obtain ⟨-, -, -, a, b, c, d, e, f, -, g, i⟩ := decSpec_ok old v h
  exact ⟨a, b, c, d, e, f, g, i⟩

/-- Capacity / foreign bytes are irrelevant: two slices with the same visible bytes decode alike
    (copying path: no tail; NoCopy / Pool: any tail). -/
theorem decode_cap_independent (v : Variant) (old : RADIUS) (data f1 f2 : Bytes) :
    old.decodeFromBytes v { vis := data, tail := f1 } = old.decodeFromBytes v { vis := data, tail := f2 } := by
  rw [decode_spec, decode_spec]

/-- Both at once: re-used object with spare capacity = fresh object on an exact copy. -/
theorem decode_cap_independent_full (old : RADIUS) (data foreign : Bytes) :
    decodeRadius old data foreign = decodeRadius RADIUS.fresh data [] := by
  rw [decode_resets_any old data foreign, decodeRadius_eq, decodeRadius_eq]

/-- The packet path: `decodeRADIUS` hands the packet builder exactly the layer a direct decode into
    a fresh object yields (AddLayer, SetApplicationLayer; NextDecoder(EAP) iff Payload is not empty). -/
theorem packet_layer_eq_direct (data foreign : Bytes) (h : (decSpec .fixed RADIUS.fresh data).err = false) :
    ∃ b, decodeRADIUSFn .fixed { vis := data, tail := foreign } = .ok (b, some (decSpec .fixed RADIUS.fresh data).layer) ∧
      b.acts = (if (decSpec .fixed RADIUS.fresh data).trunc then [Act.setTruncated] else []) ++
        [.addLayer LayerTypeRADIUS, .setApplicationLayer] ∧
      b.tail = (if (decSpec .fixed RADIUS.fresh data).layer.payload.length > 0 then .nextLayerType LayerTypeEAP else .done) := by
  rw [decodeRADIUSFn_eq]
  unfold pktSpec
  simp only [h, Bool.false_eq_true, if_false]
  unfold RADIUS.nextLayerType
  by_cases hp : (decSpec .fixed RADIUS.fresh data).layer.payload.length > 0
  · simp [hp, LayerTypeEAP, LayerTypeZero]
  · simp [hp]

/-- A DecodingLayerParser run does not depend on what its layer object held before: on success the
    same layer, decoded list, flag and return code as with a fresh object. -/
theorem dlp_resets (obj : RADIUS) (data foreign : Bytes) (h : (decSpec .fixed obj data).err = false) :
    dlpDecodeLayers .fixed obj { vis := data, tail := foreign } =
      dlpDecodeLayers .fixed RADIUS.fresh { vis := data, tail := foreign } := by
  rw [dlp_eq, dlp_eq]
  unfold dlpSpec
  rw [decSpec_fixed_resets obj data h]

/-- … and it reports the layer the packet path adds (the leading run of the packet's layers). -/
theorem dlp_eq_packet (obj : RADIUS) (data foreign : Bytes) (h : (decSpec .fixed obj data).err = false) :
    ∃ o b, dlpDecodeLayers .fixed obj { vis := data, tail := foreign } = .ok o ∧
      decodeRADIUSFn .fixed { vis := data, tail := foreign } = .ok (b, some o.layer) ∧
      o.decoded = [LayerTypeRADIUS] ∧ (o.trunc = true ↔ Act.setTruncated ∈ b.acts) := by
  have hf : (decSpec .fixed RADIUS.fresh data).err = false := by
    rw [← (decSpec_fixed_flags obj data).1]; exact h
  rw [dlp_eq, decodeRADIUSFn_eq]
  unfold dlpSpec pktSpec
  rw [decSpec_fixed_resets obj data h]
  simp only [hf, Bool.false_eq_true, if_false]
  by_cases hp : (decSpec .fixed RADIUS.fresh data).layer.layerPayload.length = 0
  · have hn : (decSpec .fixed RADIUS.fresh data).layer.nextLayerType = LayerTypeZero := by
      unfold RADIUS.nextLayerType; unfold RADIUS.layerPayload at hp; simp [hp]
    simp only [hp, hn, if_true]
    refine ⟨_, _, rfl, rfl, rfl, ?_⟩
    cases (decSpec .fixed RADIUS.fresh data).trunc <;> simp
  · have hn : ¬ (decSpec .fixed RADIUS.fresh data).layer.nextLayerType = LayerTypeZero := by
      unfold RADIUS.nextLayerType; unfold RADIUS.layerPayload at hp
      have : (decSpec .fixed RADIUS.fresh data).layer.payload.length > 0 := by omega
      simp [this, LayerTypeEAP, LayerTypeZero]
    simp only [hp, hn, if_false]
    refine ⟨_, _, rfl, rfl, rfl, ?_⟩
    cases (decSpec .fixed RADIUS.fresh data).trunc <;> simp

/-! ### The pinned source: the defect and what holds without the patch -/

/-- a receiver that decoded an Access-Challenge with an EAP-Message attribute before -/
def staleObj : RADIUS :=
  { RADIUS.fresh with attributes := [{ typ := 79, length := 5, value := [1, 2, 3] }] }

/-- Access-Request, id 7, User-Name "alice" -/
def msg27 : Bytes :=
  [1, 7, 0, 27] ++ List.replicate 16 0xa7 ++ [1, 7, 0x61, 0x6c, 0x69, 0x63, 0x65]

/-- Pinned code: the re-used object reports the EAP-Message attribute of the EARLIER packet in front of
    the new one, and a Payload (hence NextLayerType = EAP) the new packet does not have. -/
theorem decode_resets_orig_counterexample :
    ¬ (∀ (old : RADIUS) (data : Bytes), (decSpec .orig old data).err = false →
        decSpec .orig old data = decSpec .orig RADIUS.fresh data) := by
  intro h
  have := h staleObj msg27 (by decide)
  revert this
  decide

/-- Pinned code: no stale state for receivers whose Attributes are empty (a fresh object, or one whose
    earlier packets carried no attributes). -/
theorem decode_resets_orig_partial (old : RADIUS) (data : Bytes) (ha : old.attributes = [])
    (h : (decSpec .orig old data).err = false) :
    decSpec .orig old data = decSpec .orig RADIUS.fresh data := by
  rw [decSpec_orig_of_empty old data ha] at h ⊢
  rw [decSpec_orig_of_empty RADIUS.fresh data rfl]
  exact decSpec_fixed_resets old data h

/-! ### Non-vacuity -/

example : (decSpec .fixed staleObj msg27).err = false := by decide
example : (decSpec .fixed staleObj msg27).layer.attributes =
    [{ typ := 1, length := 7, value := [0x61, 0x6c, 0x69, 0x63, 0x65] }] := by decide
example : (decSpec .orig staleObj msg27).layer.attributes.length = 2 := by decide
example : (decSpec .orig staleObj msg27).layer.payload = [1, 2, 3] := by decide

end Gp.C05.Radius
