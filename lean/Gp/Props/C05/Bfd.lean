import Gp.Lemmas.Layers.Bfd
/-
  C05 (engine `lbfd`) — BFD keeps no stale state; results do not depend on the capacity of the
  packet buffer nor on the bytes behind the input; the packet path adds exactly the layer the
  preallocated path computes.

  `BFD.decodeFromBytes old d` takes the receiver BEFORE the call (`old`) and the input as a Go slice
  with capacity (`d.vis` = data, `d.tail` = foreign bytes between len and cap).  Every field the Go
  code assigns is assigned in the model by an explicit update of `old`, so a field that the code set
  on some paths only survives from `old` — exactly what `AuthHeader` did before the proposed fix
  lbfd-2 (`prefix_stale_counterexample`).  The theorems are about the code WITH lbfd-1..3.
-/
namespace Gp.C05.Bfd
open Gp Gp.Bfd

/-- The outcome of `(*BFD).DecodeFromBytes` on at least 24 bytes, for every receiver, capacity and
    foreign bytes: the specification `bfdDecSpec`. -/
theorem decode_fn_of_bytes (old : BFD) (d : GSlice) (h : 24 ≤ d.len) :
    old.decodeFromBytes d = .ok (bfdDecSpec old d.vis) := by
  rw [BFD.decode_eq old d, if_neg (by omega)]

/-- No stale state: decoding into a re-used object = decoding into a fresh one (all fields incl.
    the AuthHeader pointer and what it points to, Contents, Payload, truncation contribution on
    success; the same error otherwise). -/
theorem decode_resets (old : BFD) (data foreign : Bytes) :
    decodeBfd old data foreign = decodeBfd BFD.fresh data foreign := by
  unfold decodeBfd
  rw [BFD.decode_eq old, BFD.decode_eq BFD.fresh]
  by_cases h : GSlice.len ⟨data, foreign⟩ < 24
  · rw [if_pos h, if_pos h]; rfl
  · rw [if_neg h, if_neg h]
    obtain ⟨x1, x2, x3⟩ := bfdDecSpec_err_indep old BFD.fresh data
    simp only
    by_cases he : (bfdDecSpec old data).err = true
    · rw [if_pos he, if_pos (by rw [← x1]; exact he)]
    · rw [if_neg he, if_neg (by rw [← x1]; exact he), x2, x3 (by simpa using he)]

/-- Stronger, for the whole outcome: once the input is at least 24 bytes long and its Length byte
    matches, everything the call does — also the receiver left behind by the keyed error path and
    the truncation flag — is a function of the bytes alone. -/
theorem decode_resets_full (old : BFD) (v t : Bytes) (h : 24 ≤ v.length) (hl : v.length = (byteAt v 3).toNat) :
    old.decodeFromBytes ⟨v, t⟩ = BFD.fresh.decodeFromBytes ⟨v, t⟩ := by
  rw [BFD.decode_long old v t h, BFD.decode_long BFD.fresh v t h, bfdDecSpec_indep old BFD.fresh v hl]

/-- What a FAILED decode leaves in the receiver: below 24 bytes (truncation flag set) and on a Length
    byte that does not match (no truncation flag) nothing is touched; on a keyed authentication
    section shorter than 8 bytes (lbfd-1; truncation flag set) all fields of the mandatory section,
    Contents and Payload are those of the new packet and AuthHeader points to a new header holding
    the type and key id read so far — nothing of the previous packet is left. -/
theorem decode_error_receiver (old : BFD) (d : GSlice) (o : DecOut BFD)
    (h : old.decodeFromBytes d = .ok o) (he : o.err = true) :
    (o.layer = old ∧ (o.trunc = true ↔ d.len < 24)) ∨
    (o.trunc = true ∧ 24 ≤ d.len ∧
      o.layer = { bfdHdr old d.vis with
                  authHeader := some { authType := (byteAt d.vis 24).toNat, keyID := (byteAt d.vis 26).toNat,
                                       sequenceNumber := 0, data := [] } }) := by
  rw [BFD.decode_eq old d] at h
  by_cases hs : d.len < 24
  · rw [if_pos hs] at h; cases h
    exact Or.inl ⟨rfl, by simp [hs]⟩
  · rw [if_neg hs] at h
    cases h
    unfold bfdDecSpec at he ⊢
    by_cases hm : d.vis.length ≠ (byteAt d.vis 3).toNat
    · rw [if_pos hm]
      exact Or.inl ⟨rfl, by simp [hs]⟩
    · rw [if_neg hm] at he ⊢
      refine Or.inr ?_
      unfold authSpec authSpec0 at he ⊢
      split at he
      · rw [if_pos (by assumption)]
        simp only at he ⊢
        have hk : ∀ (l : BFD) (hd : AuthHeader) (w : Bytes), (keyedSpec l hd w).err = true →
            (keyedSpec l hd w).trunc = true ∧ (keyedSpec l hd w).layer = { l with authHeader := some hd } := by
          intro l hd w hh
          unfold keyedSpec at hh ⊢
          split
          · exact ⟨rfl, rfl⟩
          · rename_i hn; rw [if_neg hn] at hh; cases hh
        split at he
        · cases he
        · split at he
          · rename_i h1 h2
            rw [if_neg h1, if_pos h2]
            obtain ⟨a, b⟩ := hk _ _ _ he
            refine ⟨a, by omega, ?_⟩
            rw [b]; simp only [byteAt_drop]
          · split at he
            · rename_i h1 h2 h3
              rw [if_neg h1, if_neg h2, if_pos h3]
              obtain ⟨a, b⟩ := hk _ _ _ he
              refine ⟨a, by omega, ?_⟩
              rw [b]; simp only [byteAt_drop]
            · cases he
      · cases he

/-- Capacity independence (what C04 "NoCopy/Pool give identical results" and C02 "depends only on
    the bytes" need from this layer): spare capacity and its contents never influence the result —
    in particular `data[1:5]` of the keyed branches (bound = capacity) is only reached when the five
    bytes are inside the LENGTH. -/
theorem decode_cap_independent (old : BFD) (data foreign : Bytes) :
    decodeBfd old data foreign = decodeBfd old data [] := by
  unfold decodeBfd
  rw [BFD.decode_eq old, BFD.decode_eq old]
  rfl

/-- … for the full outcome, including the receiver left by a failed call. -/
theorem decode_cap_independent_full (old : BFD) (data foreign : Bytes) :
    old.decodeFromBytes ⟨data, foreign⟩ = old.decodeFromBytes ⟨data, []⟩ := by
  rw [BFD.decode_eq old, BFD.decode_eq old]
  rfl

/-- The packet path agrees with the preallocated path: `decodeBFD` adds exactly the layer a direct
    `DecodeFromBytes` into any re-used object yields, with the same truncation contribution; it is
    added exactly when that decode succeeds, followed by SetApplicationLayer; no NextDecoder (the
    packet ends here); on an error nothing is added and a SetTruncated of the layer reaches the
    packet. -/
theorem packet_layer_eq_direct (old : BFD) (d : GSlice) :
    ∃ o, old.decodeFromBytes d = .ok o ∧
      ((o.err = true ∧ decodeBFDFn d =
          .ok ({ acts := if o.trunc then [Act.setTruncated] else [], tail := .fail }, none)) ∨
       (o.err = false ∧ o.trunc = false ∧ decodeBFDFn d =
          .ok ({ acts := [Act.addLayer LayerTypeBFD, Act.setApplicationLayer], tail := .done }, some o.layer))) := by
  refine ⟨_, BFD.decode_eq old d, ?_⟩
  unfold decodeBFDFn
  rw [BFD.decode_eq BFD.fresh d, Res.bind_ok]
  by_cases hs : d.len < 24
  · rw [if_pos hs, if_pos hs]
    exact Or.inl ⟨rfl, rfl⟩
  · rw [if_neg hs, if_neg hs]
    obtain ⟨x1, x2, x3⟩ := bfdDecSpec_err_indep old BFD.fresh d.vis
    by_cases he : (bfdDecSpec old d.vis).err = true
    · refine Or.inl ⟨he, ?_⟩
      have he' : (bfdDecSpec BFD.fresh d.vis).err = true := by rw [← x1]; exact he
      simp only [he', if_true, pure, x2]
    · have he0 : (bfdDecSpec old d.vis).err = false := by simpa using he
      have he' : (bfdDecSpec BFD.fresh d.vis).err = false := by rw [← x1]; exact he0
      have ht : (bfdDecSpec BFD.fresh d.vis).trunc = false := by
        have : ∀ (l : BFD) (hd : AuthHeader) (w : Bytes), (keyedSpec l hd w).err = false → (keyedSpec l hd w).trunc = false := by
          intro l hd w hh; unfold keyedSpec at hh ⊢; split
          · rename_i hn; rw [if_pos hn] at hh; cases hh
          · rfl
        unfold bfdDecSpec at he' ⊢
        split
        · rfl
        · rename_i hm; rw [if_neg hm] at he'
          unfold authSpec authSpec0 at he' ⊢
          split
          · rename_i hc; rw [if_pos hc] at he'
            simp only at he' ⊢
            split
            · rfl
            · rename_i h1; rw [if_neg h1] at he'
              split
              · rename_i h2; rw [if_pos h2] at he'; exact this _ _ _ he'
              · rename_i h2; rw [if_neg h2] at he'
                split
                · rename_i h3; rw [if_pos h3] at he'; exact this _ _ _ he'
                · rfl
          · rfl
      refine Or.inr ⟨he0, by rw [x2]; exact ht, ?_⟩
      simp only [he', ht, pure, x3 he0]
      rfl

/-- The first sentence of the property for this layer: a parser run over {BFD} reports exactly what
    packet decoding produces — the BFD layer with identical field values, Contents and Payload when
    (and only when) `decodeBFD` adds one, nothing otherwise — and the same truncation flag, whatever
    the parser's layer object held before. -/
theorem dlp_eq_packet (bfd : BFD) (d : GSlice) :
    ∃ st c b lo, dlpDecodeLayers bfd LayerTypeBFD d = .ok (st, c) ∧ decodeBFDFn d = .ok (b, lo) ∧
      st.trunc = b.acts.contains Act.setTruncated ∧
      ((c = 0 ∧ st.decoded = [LayerTypeBFD] ∧ lo = some st.bfd ∧ b.tail = .done) ∨
       (c = 1 ∧ st.decoded = [] ∧ lo = none ∧ b.tail = .fail)) := by
  obtain ⟨o, ho, hcase⟩ := packet_layer_eq_direct bfd d
  unfold dlpDecodeLayers
  simp only [if_true]
  rw [ho]
  simp only
  rcases hcase with ⟨he, hp⟩ | ⟨he, ht, hp⟩
  · rw [if_pos he]
    refine ⟨_, _, _, _, rfl, hp, ?_, Or.inr ⟨rfl, rfl, rfl, rfl⟩⟩
    cases o.trunc <;> rfl
  · rw [if_neg (by rw [he]; decide)]
    refine ⟨_, _, _, _, rfl, hp, ?_, Or.inl ⟨rfl, rfl, rfl, rfl⟩⟩
    rw [ht]; rfl

/-- No stale state through `DecodingLayerParser.DecodeLayers`: whatever the layer object held from
    earlier packets (including what a failed decode leaves), the run returns the same error code,
    the same list of decoded types, the same truncation flag, and — when the layer is in that list —
    the layer object holds the same value. -/
theorem dlp_resets (b1 b2 : BFD) (first : Nat) (d : GSlice) :
    ∃ r1 r2 c, dlpDecodeLayers b1 first d = .ok (r1, c) ∧ dlpDecodeLayers b2 first d = .ok (r2, c) ∧
      r1.decoded = r2.decoded ∧ r1.trunc = r2.trunc ∧ (LayerTypeBFD ∈ r1.decoded → r1.bfd = r2.bfd) := by
  unfold dlpDecodeLayers
  simp only
  by_cases hf : first = LayerTypeBFD
  · rw [if_pos hf, if_pos hf, BFD.decode_eq b1 d, BFD.decode_eq b2 d]
    by_cases hs : d.len < 24
    · rw [if_pos hs, if_pos hs]
      exact ⟨_, _, _, rfl, rfl, rfl, rfl, fun hm => absurd hm (by simp)⟩
    · rw [if_neg hs, if_neg hs]
      obtain ⟨x1, x2, x3⟩ := bfdDecSpec_err_indep b1 b2 d.vis
      simp only
      by_cases he : (bfdDecSpec b1 d.vis).err = true
      · rw [if_pos he, if_pos (by rw [← x1]; exact he)]
        exact ⟨_, _, _, rfl, rfl, rfl, by simp only [x2], fun hm => absurd hm (by simp)⟩
      · rw [if_neg he, if_neg (by rw [← x1]; exact he)]
        exact ⟨_, _, _, rfl, rfl, rfl, by simp only [x2], fun _ => x3 (by simpa using he)⟩
  · rw [if_neg hf, if_neg hf]
    by_cases hz : first = LayerTypeZero
    · rw [if_pos hz, if_pos hz]
      exact ⟨_, _, _, rfl, rfl, rfl, rfl, fun hm => absurd hm (by simp)⟩
    · rw [if_neg hz, if_neg hz]
      exact ⟨_, _, _, rfl, rfl, rfl, rfl, fun hm => absurd hm (by simp)⟩

/-- … and it does not depend on the capacity of the packet buffer or the bytes behind the input. -/
theorem dlp_cap_independent (bfd : BFD) (first : Nat) (v t1 t2 : Bytes) :
    dlpDecodeLayers bfd first { vis := v, tail := t1 } = dlpDecodeLayers bfd first { vis := v, tail := t2 } := by
  unfold dlpDecodeLayers
  rw [BFD.decode_eq bfd ⟨v, t1⟩, BFD.decode_eq bfd ⟨v, t2⟩]
  rfl

/-- The code BEFORE lbfd-2 (no `d.AuthHeader = nil`) violates the property: an object that decoded
    a packet with a Simple Password section and then decodes a 24-byte packet without
    authentication still points to the previous packet's header (`AuthPresent == false`, stale
    `AuthHeader`), a fresh object has nil. -/
theorem prefix_stale_counterexample :
    ¬ (∀ (old : BFD) (d : GSlice),
        old.decodeWith { Fix.all with resetAuth := false } d = BFD.fresh.decodeWith { Fix.all with resetAuth := false } d) := by
  intro h
  have := h { BFD.fresh with authPresent := true,
                             authHeader := some { authType := 1, keyID := 2, sequenceNumber := 0, data := [0x73, 0x65] } }
    ⟨[0x20, 0xc0, 3, 24, 0,0,0,1, 0,0,0,2, 0,0,0,3, 0,0,0,4, 0,0,0,5], []⟩
  revert this
  decide

/-! ## Non-vacuity: a receiver full of stale data, spare capacity full of foreign bytes -/

example :
    let stale : BFD :=
      { contents := [1], payload := [2, 3], version := 7, diagnostic := 31, state := 3, poll := true, final := true,
        controlPlaneIndependent := true, authPresent := true, demand := true, multipoint := true,
        detectMultiplier := 9, myDiscriminator := 9, yourDiscriminator := 9, desiredMinTxInterval := 9,
        requiredMinRxInterval := 9, requiredMinEchoRxInterval := 9,
        authHeader := some { authType := 1, keyID := 2, sequenceNumber := 77, data := [0x73, 0x65] } }
    decodeBfd stale [0x20, 0xc0, 3, 24, 0,0,0,1, 0,0,0,2, 0,0,0,3, 0,0,0,4, 0,0,0,5] [0xEE, 0xEE] =
      .ok ({ BFD.fresh with
               contents := [0x20, 0xc0, 3, 24, 0,0,0,1, 0,0,0,2, 0,0,0,3, 0,0,0,4, 0,0,0,5],
               version := 1, state := 3, detectMultiplier := 3, myDiscriminator := 1, yourDiscriminator := 2,
               desiredMinTxInterval := 3, requiredMinRxInterval := 4, requiredMinEchoRxInterval := 5 }, false) ∧
    -- the Length byte does not match: the receiver is untouched
    stale.decodeFromBytes ⟨[0x20, 0xc0, 3, 25, 0,0,0,1, 0,0,0,2, 0,0,0,3, 0,0,0,4, 0,0,0,5], [0xEE]⟩ =
      .ok { layer := stale, trunc := false, err := true } := by
  decide

/-- the parser: a failed decode (keyed section too short), then a success, in the same object -/
example :
    (match dlpDecodeLayers BFD.fresh LayerTypeBFD
        { vis := [0x20, 0xc4, 3, 27, 0,0,0,1, 0,0,0,2, 0,0,0,3, 0,0,0,4, 0,0,0,5, 2, 3, 1], tail := [] } with
     | .ok (s, c) => some (s.decoded, c, s.trunc, s.bfd.authHeader)
     | _ => none) = some ([], 1, true, some { authType := 2, keyID := 1, sequenceNumber := 0, data := [] }) := by decide

end Gp.C05.Bfd
