import Gp.Lemmas.Layers.Mld2
/-
  C05 (engine `lmld2`) — decoding into a re-used MLDv2 query / report object gives the same result as
  decoding into a fresh one, and the result depends only on the visible bytes (not on spare
  capacity / foreign bytes: NoCopy, Pool).

  The model is the code WITH proposed_fixes/lmld2-1 (the list fields are truncated to length 0 before
  the append loop) and lmld2-2 (BaseLayer assigned).  The unpatched code appended to whatever the
  receiver held: `stale_lists_unpatched` below records what the monitors `lmld2:stale:SourceAddresses` /
  `lmld2:stale:MulticastAddressRecords` report on it.
  Only property-level theorems here; helpers are in `Gp/Lemmas/Layers/Mld2.lean`.
-/
namespace Gp.C05.Mld2
open Gp Gp.Mld Gp.Mld2

/-- The outcome of `DecodeFromBytes` is a function of the receiver and the VISIBLE bytes: the pure
    specifications `queryDecSpec` / `reportDecSpec` (no panic, no dependence on capacity). -/
theorem decode_fn_of_bytes (oldq : Query) (oldr : Report) (d : GSlice) :
    oldq.decodeFromBytes d = .ok (queryDecSpec oldq d.vis) ∧
    oldr.decodeFromBytes d = .ok (reportDecSpec oldr d.vis) :=
  ⟨Query.decode_spec oldq d, Report.decode_spec oldr d⟩

/-- No stale state (query): a successful decode into ANY receiver equals the decode into a fresh
    object — all fields, the source-address list, contents, payload, truncation contribution. -/
theorem query_decode_resets (old : Query) (d : GSlice) (o : DecOut Query)
    (h : old.decodeFromBytes d = .ok o) (hok : o.err = false) :
    Query.fresh.decodeFromBytes d = .ok o := by
  rw [Query.decode_spec] at h ⊢
  cases h
  rw [queryDecSpec_fresh old d.vis hok]

/-- No stale state (report): all fields, the record list (each record with its own lists),
    contents, payload, truncation contribution. -/
theorem report_decode_resets (old : Report) (d : GSlice) (o : DecOut Report)
    (h : old.decodeFromBytes d = .ok o) (hok : o.err = false) :
    Report.fresh.decodeFromBytes d = .ok o := by
  rw [Report.decode_spec] at h ⊢
  cases h
  rw [reportDecSpec_fresh old d.vis hok]

/-- `decode_resets` in the shape of the brief: on success old and fresh receivers agree; and the
    two calls agree on whether they fail. -/
theorem decode_resets (oldq : Query) (oldr : Report) (data foreign : Bytes) :
    ((decodeQuery oldq data foreign).isOk → decodeQuery oldq data foreign = decodeQuery Query.fresh data foreign) ∧
    ((decodeReport oldr data foreign).isOk → decodeReport oldr data foreign = decodeReport Report.fresh data foreign) := by
  unfold decodeQuery decodeReport
  rw [Query.decode_spec, Report.decode_spec, Query.decode_spec, Report.decode_spec]
  simp only
  constructor
  · intro h
    cases he : (queryDecSpec oldq data).err
    · rw [← queryDecSpec_fresh oldq data he, he]
    · rw [he] at h; cases h
  · intro h
    cases he : (reportDecSpec oldr data).err
    · rw [← reportDecSpec_fresh oldr data he, he]
    · rw [he] at h; cases h

/-- The result does not depend on the capacity of the input slice or on the foreign bytes behind
    it (copying decode, NoCopy, Pool all see the same layer). -/
theorem decode_cap_independent (oldq : Query) (oldr : Report) (data f1 f2 : Bytes) :
    oldq.decodeFromBytes { vis := data, tail := f1 } = oldq.decodeFromBytes { vis := data, tail := f2 } ∧
    oldr.decodeFromBytes { vis := data, tail := f1 } = oldr.decodeFromBytes { vis := data, tail := f2 } := by
  rw [Query.decode_spec, Query.decode_spec, Report.decode_spec, Report.decode_spec]
  exact ⟨rfl, rfl⟩

/-- A failed decode never touches Contents / Payload of the receiver (it may have assigned protocol
    fields before the failing length check — the receiver after an error is not a result). -/
theorem query_error_keeps_base (old : Query) (d : GSlice) (o : DecOut Query)
    (h : old.decodeFromBytes d = .ok o) (he : o.err = true) :
    o.layer.contents = old.contents ∧ o.layer.payload = old.payload := by
  rw [Query.decode_spec] at h
  cases h
  exact queryDecSpec_err_base old d.vis he

/-- The layer NewPacket adds (registered decoder functions) is the direct decode into a fresh
    object; exact PacketBuilder actions: SetTruncated iff the decode asked for it, AddLayer, no
    Set*Layer call; the query ends the packet (`return nil`), the report hands its payload to
    LayerTypePayload. -/
theorem packet_layer_eq_direct (d : GSlice) :
    decodeQueryFn d =
      .ok (decodingLayerDecoder (queryDecSpec Query.fresh d.vis) LayerTypeMLDv2MulticastListenerQuery LayerTypeZero) ∧
    decodeReportFn d =
      .ok (decodingLayerDecoder (reportDecSpec Report.fresh d.vis) LayerTypeMLDv2MulticastListenerReport LayerTypePayload) := by
  unfold decodeQueryFn decodeReportFn
  rw [Query.decode_spec, Report.decode_spec, Res.bind_ok, Res.bind_ok]
  exact ⟨rfl, rfl⟩

/-- What the UNPATCHED code did (the append loop started from the receiver's list instead of the
    empty one): the loop's result then starts with the stale entries — decoding a packet with one
    source into an object that already holds one address yields two. -/
theorem stale_lists_unpatched :
    (srcLoopSpec ([0,0,0,0] ++ List.replicate 20 0 ++ List.replicate 16 7) 24 1 0 24 [List.replicate 16 9]).1 =
      [List.replicate 16 9, List.replicate 16 7] ∧
    (srcLoopSpec ([0,0,0,0] ++ List.replicate 20 0 ++ List.replicate 16 7) 24 1 0 24 []).1 =
      [List.replicate 16 7] := by decide

/-! Non-vacuity: a receiver full of stale state (two old sources, old payload) decodes a packet with
    zero sources to exactly the fresh result. -/
example :
    ({ Query.fresh with srcs := [[1], [2]], payload := [9, 9], n := 2 } : Query).decodeFromBytes
        { vis := [0,10, 0,0, 0xff,2,0,0,0,0,0,0,0,0,0,0,0,0,0,1, 0x0a, 60, 0,0], tail := [5] } =
      Query.fresh.decodeFromBytes { vis := [0,10, 0,0, 0xff,2,0,0,0,0,0,0,0,0,0,0,0,0,0,1, 0x0a, 60, 0,0], tail := [] } := by
  decide

end Gp.C05.Mld2
