import Gp.Lemmas.Layers.SllDlp
/-
  C05 (engine `lsll`) — LinuxSLL, LinuxSLL2 and EtherIP keep no stale state; UDPLite and RUDP have no
  state to keep; results do not depend on the capacity of the packet buffer nor on the bytes behind the
  input; the packet path adds exactly the layer the preallocated path computes.

  `X.decodeFromBytes old d` takes the receiver BEFORE the call (`old`) and the input as a Go slice
  with capacity (`d.vis` = data, `d.tail` = foreign bytes between len and cap).  Every field the Go
  code assigns is assigned in the model by an explicit update of `old`, so a field that the code set
  on some paths only would survive from `old` — the theorems below say that none does on success.

  NO REUSE CLAUSE for UDPLite and RUDP: these two types do not implement gopacket.DecodingLayer (there
  is no DecodeFromBytes / CanDecode / NextLayerType), they cannot be handed to a DecodingLayerParser and
  no caller-owned object is ever decoded into twice: `decodeUDPLite` / `decodeRUDP` allocate a new layer
  (`&UDPLite{…}`, `&RUDP{…}`) on every call.  The model reflects that (no previous layer value); what is
  stated instead is that the result is a pure function of the visible bytes (that the real functions keep
  no hidden state between calls is checked by the adapter: `lsll:stale:history`, `lsll:stale:object`).
-/
namespace Gp.C05.Sll
open Gp Gp.Sll

/-! ## LinuxSLL -/

/-- The outcome of `(*LinuxSLL).DecodeFromBytes`, for every receiver, capacity and foreign bytes: the
    specification `sllDecSpec` — on success a function of the visible bytes alone. -/
theorem decode_fn_of_bytes_sll (old : LinuxSLL) (d : GSlice) :
    old.decodeFromBytes d = .ok (sllDecSpec old d.vis) := LinuxSLL.decode_eq old d

/-- No stale state: decoding into a re-used object = decoding into a fresh one (all fields — in
    particular `Addr`, which is re-sliced from the NEW packet, never from the old value —, Contents,
    Payload, truncation contribution on success; the same error otherwise). -/
theorem decode_resets (old : LinuxSLL) (data foreign : Bytes) :
    decodeSll old data foreign = decodeSll LinuxSLL.fresh data foreign := by
  unfold decodeSll
  rw [LinuxSLL.decode_eq, LinuxSLL.decode_eq]
  obtain ⟨x1, x2, x3⟩ := sllDecSpec_indep old LinuxSLL.fresh data
  simp only
  by_cases he : (sllDecSpec old data).err = true
  · rw [if_pos he, if_pos (by rw [← x1]; exact he)]
  · rw [if_neg he, if_neg (by rw [← x1]; exact he), x2, x3 (by simpa using he)]

/-- What a FAILED decode leaves in the receiver: nothing is touched below 16 bytes; when the announced
    address length exceeds 8 (linux_sll.go:92-94) PacketType, AddrType and AddrLen are already
    overwritten while Addr, EthernetType, Contents and Payload are still those of the previous packet —
    a half-updated object; the truncation flag is never set.  (Not a violation of the property: the call
    reports the error, the parser reports no layer, and `decode_resets` shows the next successful decode
    does not depend on what is left here.) -/
theorem decode_error_receiver (old : LinuxSLL) (d : GSlice) (o : DecOut LinuxSLL)
    (h : old.decodeFromBytes d = .ok o) (he : o.err = true) :
    o.trunc = false ∧ (o.layer = old ∨ o.layer = sllHdr old d.vis) ∧
    o.layer.addr = old.addr ∧ o.layer.ethernetType = old.ethernetType ∧
    o.layer.contents = old.contents ∧ o.layer.payload = old.payload := by
  rw [LinuxSLL.decode_eq] at h; cases h
  unfold sllDecSpec at he ⊢
  by_cases h1 : d.vis.length < 16
  · rw [if_pos h1]; exact ⟨rfl, Or.inl rfl, rfl, rfl, rfl, rfl⟩
  · rw [if_neg h1] at he ⊢
    by_cases h2 : u16At d.vis 4 > 8
    · rw [if_pos h2]; exact ⟨rfl, Or.inr rfl, rfl, rfl, rfl, rfl⟩
    · rw [if_neg h2] at he; cases he

/-- Capacity independence (what C04 "NoCopy/Pool give identical results" and C02 "depends only on
    the bytes" need from this layer): spare capacity and its contents never influence the result — the
    address length taken from the packet is bounded by 8, inside the 16 bytes checked against the LENGTH. -/
theorem decode_cap_independent (old : LinuxSLL) (data foreign : Bytes) :
    decodeSll old data foreign = decodeSll old data [] := by
  unfold decodeSll; rw [LinuxSLL.decode_eq, LinuxSLL.decode_eq]

/-- … for the full outcome, including the receiver left by a failed call. -/
theorem decode_cap_independent_full (old : LinuxSLL) (data foreign : Bytes) :
    old.decodeFromBytes ⟨data, foreign⟩ = old.decodeFromBytes ⟨data, []⟩ := by
  rw [LinuxSLL.decode_eq, LinuxSLL.decode_eq]

/-- The packet path agrees with the preallocated path: `decodeLinuxSLL` adds exactly the layer a
    direct `DecodeFromBytes` into any re-used object yields; it is added exactly when that decode
    succeeds; the layer is registered as the LINK layer; no SetTruncated; the next decoder is the
    layer's EthernetType. -/
theorem packet_layer_eq_direct (old : LinuxSLL) (d : GSlice) :
    ∃ o, old.decodeFromBytes d = .ok o ∧ o.trunc = false ∧
      ((o.err = true ∧ decodeLinuxSLLFn d = .ok ({ acts := [], tail := .fail }, none)) ∨
       (o.err = false ∧ decodeLinuxSLLFn d =
          .ok ({ acts := [Act.addLayer LayerTypeLinuxSLL, Act.setLinkLayer], tail := .nextEthernetType o.layer.ethernetType },
               some o.layer))) := by
  refine ⟨_, LinuxSLL.decode_eq old d, ?_⟩
  unfold decodeLinuxSLLFn
  rw [LinuxSLL.decode_eq, Res.bind_ok]
  unfold sllDecSpec
  by_cases h1 : d.vis.length < 16
  · rw [if_pos h1, if_pos h1]; exact ⟨rfl, Or.inl ⟨rfl, rfl⟩⟩
  · rw [if_neg h1, if_neg h1]
    by_cases h2 : u16At d.vis 4 > 8
    · rw [if_pos h2, if_pos h2]; exact ⟨rfl, Or.inl ⟨rfl, rfl⟩⟩
    · rw [if_neg h2, if_neg h2]; exact ⟨rfl, Or.inr ⟨rfl, rfl⟩⟩

/-! ## LinuxSLL2 -/

theorem decode_fn_of_bytes_sll2 (old : LinuxSLL2) (d : GSlice) :
    old.decodeFromBytes d = .ok (sll2DecSpec old d.vis) := LinuxSLL2.decode_eq old d

theorem decode_resets_sll2 (old : LinuxSLL2) (data foreign : Bytes) :
    decodeSll2 old data foreign = decodeSll2 LinuxSLL2.fresh data foreign := by
  unfold decodeSll2
  rw [LinuxSLL2.decode_eq, LinuxSLL2.decode_eq]
  obtain ⟨x1, x2, x3⟩ := sll2DecSpec_indep old LinuxSLL2.fresh data
  simp only
  by_cases he : (sll2DecSpec old data).err = true
  · rw [if_pos he, if_pos (by rw [← x1]; exact he)]
  · rw [if_neg he, if_neg (by rw [← x1]; exact he), x2, x3 (by simpa using he)]

/-- A failed LinuxSLL2 decode: untouched below 20 bytes; with an address length above 8
    (linux_sll2.go:174-176) the five header fields are overwritten, Addr / Contents / Payload are still
    the previous packet's; never the truncation flag. -/
theorem decode_error_receiver_sll2 (old : LinuxSLL2) (d : GSlice) (o : DecOut LinuxSLL2)
    (h : old.decodeFromBytes d = .ok o) (he : o.err = true) :
    o.trunc = false ∧ (o.layer = old ∨ o.layer = sll2Hdr old d.vis) ∧
    o.layer.addr = old.addr ∧ o.layer.contents = old.contents ∧ o.layer.payload = old.payload := by
  rw [LinuxSLL2.decode_eq] at h; cases h
  unfold sll2DecSpec at he ⊢
  by_cases h1 : d.vis.length < 20
  · rw [if_pos h1]; exact ⟨rfl, Or.inl rfl, rfl, rfl, rfl⟩
  · rw [if_neg h1] at he ⊢
    by_cases h2 : (byteAt d.vis 11).toNat > 8
    · rw [if_pos h2]; exact ⟨rfl, Or.inr rfl, rfl, rfl, rfl⟩
    · rw [if_neg h2] at he; cases he

theorem decode_cap_independent_sll2 (old : LinuxSLL2) (data foreign : Bytes) :
    old.decodeFromBytes ⟨data, foreign⟩ = old.decodeFromBytes ⟨data, []⟩ := by
  rw [LinuxSLL2.decode_eq, LinuxSLL2.decode_eq]

/-- `decodeLinuxSLL2`: adds the directly decoded layer, registers it as the link layer, then
    `NextDecoder(sll.NextLayerType())`. -/
theorem packet_layer_eq_direct_sll2 (old : LinuxSLL2) (d : GSlice) :
    ∃ o, old.decodeFromBytes d = .ok o ∧ o.trunc = false ∧
      ((o.err = true ∧ decodeLinuxSLL2Fn d = .ok ({ acts := [], tail := .fail }, none)) ∨
       (o.err = false ∧ decodeLinuxSLL2Fn d =
          .ok ({ acts := [Act.addLayer LayerTypeLinuxSLL2, Act.setLinkLayer], tail := .nextLayerType o.layer.nextLayerType },
               some o.layer))) := by
  refine ⟨_, LinuxSLL2.decode_eq old d, ?_⟩
  unfold decodeLinuxSLL2Fn
  rw [LinuxSLL2.decode_eq, Res.bind_ok]
  unfold sll2DecSpec
  by_cases h1 : d.vis.length < 20
  · rw [if_pos h1, if_pos h1]; exact ⟨rfl, Or.inl ⟨rfl, rfl⟩⟩
  · rw [if_neg h1, if_neg h1]
    by_cases h2 : (byteAt d.vis 11).toNat > 8
    · rw [if_pos h2, if_pos h2]; exact ⟨rfl, Or.inl ⟨rfl, rfl⟩⟩
    · rw [if_neg h2, if_neg h2]; exact ⟨rfl, Or.inr ⟨rfl, rfl⟩⟩

/-! ## EtherIP -/

theorem decode_fn_of_bytes_etherip (old : EtherIP) (d : GSlice) :
    old.decodeFromBytes d = .ok (eipDecSpec old d.vis) := EtherIP.decode_eq old d

theorem decode_resets_etherip (old : EtherIP) (data foreign : Bytes) :
    decodeEtherip old data foreign = decodeEtherip EtherIP.fresh data foreign := by
  unfold decodeEtherip
  rw [EtherIP.decode_eq, EtherIP.decode_eq]
  obtain ⟨x1, x2, x3⟩ := eipDecSpec_indep old EtherIP.fresh data
  simp only
  by_cases he : (eipDecSpec old data).err = true
  · rw [if_pos he, if_pos (by rw [← x1]; exact he)]
  · rw [if_neg he, if_neg (by rw [← x1]; exact he), x2, x3 (by simpa using he)]

/-- A failed EtherIP decode leaves the receiver as it was and sets the truncation flag. -/
theorem decode_error_keeps_receiver_etherip (old : EtherIP) (d : GSlice) (o : DecOut EtherIP)
    (h : old.decodeFromBytes d = .ok o) (he : o.err = true) : o.layer = old ∧ o.trunc = true := by
  rw [EtherIP.decode_eq] at h; cases h
  unfold eipDecSpec at he ⊢
  by_cases h1 : d.vis.length < 2
  · rw [if_pos h1]; exact ⟨rfl, rfl⟩
  · rw [if_neg h1] at he; cases he

theorem decode_cap_independent_etherip (old : EtherIP) (data foreign : Bytes) :
    old.decodeFromBytes ⟨data, foreign⟩ = old.decodeFromBytes ⟨data, []⟩ := by
  rw [EtherIP.decode_eq, EtherIP.decode_eq]

/-- `decodeEtherIP` (= `decodingLayerDecoder`): SetTruncated exactly on the error path, adds the
    directly decoded layer, no Set*Layer call, then NextDecoder(LayerTypeEthernet). -/
theorem packet_layer_eq_direct_etherip (old : EtherIP) (d : GSlice) :
    ∃ o, old.decodeFromBytes d = .ok o ∧
      ((o.err = true ∧ decodeEtherIPFn d = .ok ({ acts := [Act.setTruncated], tail := .fail }, none)) ∨
       (o.err = false ∧ o.trunc = false ∧ decodeEtherIPFn d =
          .ok ({ acts := [Act.addLayer LayerTypeEtherIP], tail := .nextLayerType LayerTypeEthernet }, some o.layer))) := by
  refine ⟨_, EtherIP.decode_eq old d, ?_⟩
  unfold decodeEtherIPFn
  rw [EtherIP.decode_eq, Res.bind_ok]
  unfold eipDecSpec
  by_cases h1 : d.vis.length < 2
  · rw [if_pos h1, if_pos h1]; exact Or.inl ⟨rfl, rfl⟩
  · rw [if_neg h1, if_neg h1]; exact Or.inr ⟨rfl, rfl, rfl⟩

/-! ## UDPLite and RUDP: functions of the visible bytes (no receiver to re-use) -/

/-- `decodeUDPLite`: every PacketBuilder call, the layer added (all fields, the two private port
    slices, Contents, Payload) and the next decoder are the pure specification `udpliteSpec` of the
    visible bytes, for every capacity and foreign bytes. -/
theorem decode_fn_of_bytes_udplite (d : GSlice) : decodeUDPLite d = .ok (udpliteSpec d.vis) :=
  decodeUDPLite_eq d

/-- `decodeRUDP` likewise (`rudpSpec`): in particular the EACK sequence numbers are the consecutive
    32-bit words of the variable header area in order, SYN wins over EACK, and `SetTruncated` is called
    on the three length errors only. -/
theorem decode_fn_of_bytes_rudp (d : GSlice) : decodeRUDP d = .ok (rudpSpec d.vis) := decodeRUDP_eq d

theorem decode_cap_independent_udplite (data f1 f2 : Bytes) : decodeUdplite data f1 = decodeUdplite data f2 := by
  unfold decodeUdplite; rw [decodeUDPLite_eq, decodeUDPLite_eq]

theorem decode_cap_independent_rudp (data f1 f2 : Bytes) : decodeRudp data f1 = decodeRudp data f2 := by
  unfold decodeRudp; rw [decodeRUDP_eq, decodeRUDP_eq]

/-- Truncation contribution of the two decoder functions: `decodeUDPLite` never calls SetTruncated;
    `decodeRUDP` never does when it adds a layer (a packet whose RUDP layer decoded is not marked
    truncated by it), and both register the layer they add as the TRANSPORT layer. -/
theorem trunc_contribution (d : GSlice) :
    (∃ b o, decodeUDPLite d = .ok (b, o) ∧ b.acts.contains .setTruncated = false ∧
        b.acts.contains .setTransportLayer = o.isSome) ∧
    (∃ b o, decodeRUDP d = .ok (b, o) ∧ (o.isSome → b.acts.contains .setTruncated = false) ∧
        b.acts.contains .setTransportLayer = o.isSome) := by
  refine ⟨⟨(udpliteSpec d.vis).1, (udpliteSpec d.vis).2, decodeUDPLite_eq d, ?_⟩,
    ⟨(rudpSpec d.vis).1, (rudpSpec d.vis).2, decodeRUDP_eq d, ?_⟩⟩
  · unfold udpliteSpec; split <;> exact ⟨rfl, rfl⟩
  · unfold rudpSpec
    repeat' split
    all_goals exact ⟨fun h => (by first | rfl | cases h), rfl⟩

/-! ## The parser over the three DecodingLayers (one object per type) -/

/-- No stale state through `DecodingLayerParser.DecodeLayers`: whatever the three layer objects held
    from earlier packets (including the half-updated LinuxSLL / LinuxSLL2 objects a failed decode
    leaves), the run returns the same error code, the same list of decoded types, the same truncation
    flag, and every layer object whose type is in that list holds the same value (`DlpAgree`). -/
theorem dlp_resets (a1 a2 : LinuxSLL) (b1 b2 : LinuxSLL2) (e1 e2 : EtherIP) (first : Nat) (d : GSlice) :
    ∃ r1 r2 c, dlpDecodeLayers a1 b1 e1 first d = .ok (r1, c) ∧ dlpDecodeLayers a2 b2 e2 first d = .ok (r2, c) ∧
      DlpAgree r1 r2 :=
  dlpLoop_agree _ _ _ _ _ ⟨rfl, rfl, fun h => absurd h (List.not_mem_nil), fun h => absurd h (List.not_mem_nil),
    fun h => absurd h (List.not_mem_nil)⟩

/-- … and it does not depend on the capacity of the packet buffer or the bytes behind the input. -/
theorem dlp_cap_independent (a : LinuxSLL) (b : LinuxSLL2) (e : EtherIP) (first : Nat) (v t1 t2 : Bytes) :
    dlpDecodeLayers a b e first { vis := v, tail := t1 } = dlpDecodeLayers a b e first { vis := v, tail := t2 } :=
  dlpLoop_cap _ _ _ v t1 t2

/-- The leading run has at most ONE layer of this engine: no EtherType, ARPHRD special case or special
    protocol type leads from LinuxSLL / LinuxSLL2 / EtherIP back to one of these three types
    (`next_layer_table`, over the regenerated constants), so a parser holding exactly these three stops
    after the first — with `UnsupportedLayerType(next)`, or `nil` when the payload is empty / the next
    type is LayerTypeZero — exactly where the packet's layer of another engine begins. -/
theorem dlp_at_most_one_layer (a : LinuxSLL) (b : LinuxSLL2) (e : EtherIP) (first : Nat) (d : GSlice)
    (r : DlpState) (c : Nat) (h : dlpDecodeLayers a b e first d = .ok (r, c)) : r.decoded.length ≤ 1 := by
  have := dlpLoop_one_layer _ _ _ _ _ _ h
  simpa using this

/-- … and every next-layer type these layers can announce is outside the set. -/
theorem next_type_outside_set (l : LinuxSLL) (l2 : LinuxSLL2) (e : EtherIP) :
    notOurs l.nextLayerType ∧ notOurs l2.nextLayerType ∧ notOurs e.nextLayerType :=
  ⟨ethTypeLayerType_notOurs _, sll2_next_notOurs _, eip_next_notOurs _⟩

set_option maxRecDepth 20000 in
/-- `NextLayerType` over the shipped tables, with every key taken from the constants REGENERATED from
    enums.go / linux_sll2.go on every run: the twenty EtherTypes with a decoder and their layer types;
    LinuxSLL2's ARPHRD special cases (FRAD: none; 802.11+radiotap: RadioTap; IPGRE: Ethernet — whatever
    the protocol type) and its four special protocol types (only 0x0004 has a layer: LLC); and no
    EtherType leads back to one of this engine's three DecodingLayer types (so a parser over exactly
    these three never decodes more than one of them). -/
theorem next_layer_table :
    (ethTypeTable.map (·.1)).Nodup ∧
    ethTypeTable.map (fun r => (r.1, r.2)) =
      [(0, 22), (0x0800, 20), (0xffff, 20), (0x86dd, 21), (0x0806, 10), (0x8100, 15), (0x880b, 25), (0x8863, 26),
       (0x8864, 26), (0x9000, 12), (0x2000, 11), (0x01a2, 61), (0x88cc, 58), (0x8847, 24), (0x8848, 24),
       (0x888e, 56), (0x88a8, 15), (0x6558, 17), (0x88be, 145), (0x0712, 147)] ∧
    (∀ r ∈ ethTypeTable, r.2 ≠ LayerTypeLinuxSLL ∧ r.2 ≠ LayerTypeLinuxSLL2 ∧ r.2 ≠ LayerTypeEtherIP) ∧
    (∀ p ∈ [0, 1, 3, 4, 12, 0x0800, 0x86dd, 0xffff],
      ({ LinuxSLL2.fresh with arpHardwareType := 770, protocolType := p }).nextLayerType = LayerTypeZero ∧
      ({ LinuxSLL2.fresh with arpHardwareType := 803, protocolType := p }).nextLayerType = LayerTypeRadioTap ∧
      ({ LinuxSLL2.fresh with arpHardwareType := 778, protocolType := p }).nextLayerType = LayerTypeEthernet) ∧
    (∀ h ∈ [0, 1, 772, 65535],
      ({ LinuxSLL2.fresh with arpHardwareType := h, protocolType := 1 }).nextLayerType = LayerTypeZero ∧
      ({ LinuxSLL2.fresh with arpHardwareType := h, protocolType := 3 }).nextLayerType = LayerTypeZero ∧
      ({ LinuxSLL2.fresh with arpHardwareType := h, protocolType := 4 }).nextLayerType = LayerTypeLLC ∧
      ({ LinuxSLL2.fresh with arpHardwareType := h, protocolType := 12 }).nextLayerType = LayerTypeZero ∧
      ({ LinuxSLL2.fresh with arpHardwareType := h, protocolType := 0x0800 }).nextLayerType = LayerTypeIPv4 ∧
      ({ LinuxSLL2.fresh with arpHardwareType := h, protocolType := 0x86dd }).nextLayerType = LayerTypeIPv6 ∧
      ({ LinuxSLL2.fresh with arpHardwareType := h, protocolType := 0x1234 }).nextLayerType = LayerTypeZero) := by
  decide

/-! ## Non-vacuity: receivers full of stale data, spare capacity full of foreign bytes -/

example :
    let stale : LinuxSLL := { contents := [1], payload := [2,3], packetType := 9, addrLen := 8,
                              addr := [9,9,9,9,9,9,9,9], ethernetType := 0x86dd, addrType := 9 }
    decodeSll stale [0,4, 0,1, 0,2, 0xA,0xB,3,4,5,6,7,8, 8,0, 0x77] [0xEE,0xEE] =
      .ok ({ contents := [0,4, 0,1, 0,2, 0xA,0xB,3,4,5,6,7,8, 8,0], payload := [0x77], packetType := 4, addrLen := 2,
             addr := [0xA,0xB], ethernetType := 0x0800, addrType := 1 }, false) ∧
    -- the half-updated receiver of the second error path (AddrLen = 9)
    stale.decodeFromBytes ⟨[0,4, 0,1, 0,9, 0xA,0xB,3,4,5,6,7,8, 8,0, 0x77], [0xEE,0xEE]⟩ =
      .ok { layer := { stale with packetType := 4, addrType := 1, addrLen := 9 }, trunc := false, err := true } := by
  decide

example :
    decodeEtherip { contents := [5], payload := [6], version := 7, reserved := 77 } [0x30, 0x00, 1, 2] [9] =
      .ok ({ contents := [0x30, 0x00], payload := [1, 2], version := 3, reserved := 0 }, false) := by decide

/-- the parser: an SLL frame carrying IPv4 — one layer decoded, then `UnsupportedLayerType(IPv4)` -/
example :
    (match dlpDecodeLayers LinuxSLL.fresh LinuxSLL2.fresh EtherIP.fresh LayerTypeLinuxSLL
        { vis := [0,0, 0,1, 0,6, 1,2,3,4,5,6,0,0, 8,0, 0x45,0,0,20], tail := [] } with
     | .ok (s, c) => some (s.decoded, c, s.sll.addr, s.trunc)
     | _ => none) = some ([113], 2, [1,2,3,4,5,6], false) := by decide

end Gp.C05.Sll
