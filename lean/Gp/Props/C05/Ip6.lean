import Gp.Lemmas.Layers.Ip6Reset
/-
  C05 (layer part `lip6`) — DecodeFromBytes of the ip6.go layers keeps no stale state and does not
  depend on where the bytes live.

  `decode_resets`: decoding into ANY old layer value gives the same outcome, the same truncation
  contribution and (on success) the same public fields, contents and payload as decoding into a
  fresh object.  `IPv6.pub` erases only the private scratch field `hbh` (the object `HopByHop`
  points to after a decode; unobservable from outside the package otherwise).
  `decode_cap_independent`: the result is the same for every capacity / foreign bytes behind the
  data (this is what NoCopy/Pool vs copy, C04, and "depends only on the bytes", C02, need).

  The model is the code WITH proposed fix lip6-2 (IPv6Destination.DecodeFromBytes resets Options);
  in the unfixed tree the destination-options decoder appends to the old list (found by the
  monitor `lip6:stale:dst:opts`).
-/
namespace Gp.C05.Ip6
open Gp Gp.Ip6

/-- Outcome of a decode restricted to what a caller can observe. -/
def observe (r : Res (IPv6 × Bool)) : Res (IPv6 × Bool) :=
  match r with
  | .ok (l, tr) => .ok (l.pub, tr)
  | .err e => .err e
  | .panic k => .panic k

/-- (*IPv6).DecodeFromBytes: no stale state, for every old value of the layer object. -/
theorem decode_resets (old : IPv6) (data foreign : Bytes) :
    observe (decodeIp6 old data foreign) = observe (decodeIp6 IPv6.zero data foreign) := by
  unfold decodeIp6
  rw [decodeIPv6_eq_spec, decodeIPv6_eq_spec]
  obtain ⟨h1, h2, h3⟩ := ip6Spec_old old IPv6.zero data
  match hr : (ip6Spec old data).res with
  | .ok () =>
    have hr' : (ip6Spec IPv6.zero data).res = .ok () := by rw [← h1]; exact hr
    simp only [hr, hr', observe, h3 hr, h2]
  | .err e =>
    have hr' : (ip6Spec IPv6.zero data).res = .err e := by rw [← h1]; exact hr
    simp only [hr, hr', observe]
  | .panic k =>
    have hr' : (ip6Spec IPv6.zero data).res = .panic k := by rw [← h1]; exact hr
    simp only [hr, hr', observe]

/-- (*IPv6HopByHop) / (*IPv6Destination).DecodeFromBytes: on success every field is determined by
    the bytes alone (full equality — these layers have no private state). -/
theorem decode_ext_resets (kind : ExtKind) (old : TlvExt) (data foreign : Bytes) (l : TlvExt) (tr : Bool)
    (h : decodeExt kind old data foreign = .ok (l, tr)) :
    decodeExt kind TlvExt.zero data foreign = .ok (l, tr) := by
  unfold decodeExt at h ⊢
  rw [decodeTlvExt_eq_spec] at h ⊢
  match hr : (tlvExtSpec old data).res with
  | .ok () =>
    rw [← tlvExtSpec_old old TlvExt.zero data hr]
    exact h
  | .err e => simp [hr] at h
  | .panic k => simp [hr] at h

/-- …and conversely a decode that succeeds on a fresh object succeeds identically on any old one. -/
theorem decode_ext_resets' (kind : ExtKind) (old : TlvExt) (data foreign : Bytes) (l : TlvExt) (tr : Bool)
    (h : decodeExt kind TlvExt.zero data foreign = .ok (l, tr)) :
    decodeExt kind old data foreign = .ok (l, tr) := by
  unfold decodeExt at h ⊢
  rw [decodeTlvExt_eq_spec] at h ⊢
  match hr : (tlvExtSpec TlvExt.zero data).res with
  | .ok () =>
    rw [← tlvExtSpec_old TlvExt.zero old data hr]
    exact h
  | .err e => simp [hr] at h
  | .panic k => simp [hr] at h

/-- (*IPv6ExtensionSkipper).DecodeFromBytes: on success nothing of the old value survives. -/
theorem decode_skipper_resets (old : Skipper) (data foreign : Bytes)
    (h : (decodeSkipper old ⟨data, foreign⟩).res = .ok ()) :
    decodeSkipper old ⟨data, foreign⟩ = decodeSkipper Skipper.zero ⟨data, foreign⟩ := by
  rw [decodeSkipper_eq_spec] at h ⊢
  rw [decodeSkipper_eq_spec]
  unfold skipperSpec at h ⊢
  match hb : extBaseSpec data with
  | (.panic p, tr) => rw [hb] at h; simp at h
  | (.err e, tr) => rw [hb] at h; simp at h
  | (.ok base, tr) => rfl

/-- The result does not depend on the capacity of the packet buffer nor on the bytes behind the
    data: NoCopy / Pool / copying decode give identical results. -/
theorem decode_cap_independent (old : IPv6) (data foreign foreign' : Bytes) :
    decodeIp6 old data foreign = decodeIp6 old data foreign' := by
  unfold decodeIp6
  rw [decodeIPv6_eq_spec, decodeIPv6_eq_spec]

theorem decode_ext_cap_independent (kind : ExtKind) (old : TlvExt) (data foreign foreign' : Bytes) :
    decodeExt kind old data foreign = decodeExt kind old data foreign' := by
  unfold decodeExt
  rw [decodeTlvExt_eq_spec, decodeTlvExt_eq_spec]

theorem decode_others_cap_independent (old : Skipper) (data foreign foreign' : Bytes) :
    decodeSkipper old ⟨data, foreign⟩ = decodeSkipper old ⟨data, foreign'⟩ ∧
    decodeRouting ⟨data, foreign⟩ = decodeRouting ⟨data, foreign'⟩ ∧
    decodeFragment ⟨data, foreign⟩ = decodeFragment ⟨data, foreign'⟩ := by
  refine ⟨?_, ?_, ?_⟩
  · rw [decodeSkipper_eq_spec, decodeSkipper_eq_spec]
  · rw [decodeRouting_eq_spec, decodeRouting_eq_spec]
  · rw [decodeFragment_eq_spec, decodeFragment_eq_spec]

/-- The registered decode functions (NewPacket) see only the bytes as well. -/
theorem registered_cap_independent (ltOf : Nat → Int) (data foreign foreign' : Bytes) :
    decodeIPv6Fn ltOf ⟨data, foreign⟩ = decodeIPv6Fn ltOf ⟨data, foreign'⟩ := by
  unfold decodeIPv6Fn
  rw [decodeIPv6_eq_spec, decodeIPv6_eq_spec]

/-- Non-vacuity of `decode_resets`: an old layer full of stale state (hop-by-hop pointer, scratch
    options) and a packet without hop-by-hop header that decodes successfully. -/
example :
    let stale : IPv6 :=
      { IPv6.zero with
        version := 9, hopByHop := some TlvExt.zero,
        hbh := { base := ExtBase.zero, options := [pad1, pad1] }, payload := [1, 2, 3] }
    let pkt : Bytes := [0x60, 0, 0, 0, 0, 1, 59, 0x40, 0x20, 1, 0x0d, 0xb8, 0, 0, 0, 0, 0, 0, 0, 0, 0, 0, 0, 1,
                        0x20, 1, 0x0d, 0xb8, 0, 0, 0, 0, 0, 0, 0, 0, 0, 0, 0, 2, 0xaa]
    (decodeIp6 stale pkt []).isOk = true ∧ decodeIp6 stale pkt [] ≠ decodeIp6 IPv6.zero pkt [] := by
  decide

end Gp.C05.Ip6
