import Gp.Lemmas.Layers.TunVxlan
import Gp.Lemmas.Layers.TunGeneve
import Gp.Lemmas.Layers.TunGtpSer
/-
  C05 — "Preallocated-layer decoding equals packet decoding and keeps no stale state": VXLAN, Geneve,
  GTPv1-U (engine `ltun`).  DecodeFromBytes is modelled as `old → data → foreign → Res (new × truncated)`
  with an explicit dependence on `old` wherever the Go code assigns a field only on some paths.

  The GTPv1-U model is the tree WITH proposed_fixes/ltun-5: the original DecodeFromBytes assigns
  SequenceNumber / NPDU only under their flags and only ever APPENDS to GTPExtensionHeaders, so a
  reused object kept the sequence number of an earlier packet and accumulated extension headers
  (`decode_resets_gtp_orig_counterexample`, on `Variant.orig`).
-/
namespace Gp.C05.Tun
open Gp Gp.Tun

/-! ### VXLAN -/

/-- No stale state: decoding into an object that holds ANY earlier value gives exactly what decoding
    into a fresh object gives (same error, or same fields, contents, payload and truncation flag). -/
theorem decode_resets_vxlan (old : Vxlan.Layer) (data foreign : Bytes) :
    Vxlan.decode old data foreign = Vxlan.decode Vxlan.Layer.fresh data foreign := by
  rw [Vxlan.decode_cases, Vxlan.decode_cases]

/-- The result does not depend on the capacity of the packet buffer nor on the bytes that follow the
    packet in it (copying path, NoCopy, Pool): no read beyond `len(data)` influences the outcome. -/
theorem decode_cap_independent_vxlan (old : Vxlan.Layer) (data foreign : Bytes) :
    Vxlan.decode old data foreign = Vxlan.decode old data [] := by
  rw [Vxlan.decode_cases, Vxlan.decode_cases]

/-- …hence it is a function of the bytes alone. -/
theorem decode_depends_only_on_bytes_vxlan (old₁ old₂ : Vxlan.Layer) (data f₁ f₂ : Bytes) :
    Vxlan.decode old₁ data f₁ = Vxlan.decode old₂ data f₂ := by
  rw [Vxlan.decode_cases, Vxlan.decode_cases]

/-- A successful decode never sets the truncation flag (nor does a failing one: vxlan.go never calls
    SetTruncated). -/
theorem decode_ok_not_truncated_vxlan (old : Vxlan.Layer) (data foreign : Bytes) (l : Vxlan.Layer)
    (t : Bool) (h : Vxlan.decode old data foreign = .ok (l, t)) : t = false := by
  rw [Vxlan.decode_cases] at h
  split at h
  · simp only [Res.ok.injEq, Prod.mk.injEq] at h; exact h.2.symm
  · cases h

/-- Whole histories: decoding ANY sequence of packets into the same object — whatever a failed call
    leaves behind (`afterErr` arbitrary), whatever capacities the buffers have — gives, for every
    packet, the result of decoding it into a fresh object from an exact-size copy. -/
theorem decode_sequence_no_stale_state_vxlan (afterErr : Vxlan.Layer → Bytes → Vxlan.Layer)
    (start : Vxlan.Layer) (ps : List (Bytes × Bytes)) :
    Vxlan.decodeSeq afterErr start ps = ps.map (fun p => Vxlan.decode Vxlan.Layer.fresh p.1 []) := by
  induction ps generalizing start with
  | nil => rfl
  | cons p rest ih =>
    obtain ⟨data, foreign⟩ := p
    simp only [Vxlan.decodeSeq, List.map_cons]
    rw [ih]
    congr 1
    exact decode_depends_only_on_bytes_vxlan start Vxlan.Layer.fresh data foreign []

/-- Packet decoding equals preallocated-layer decoding: decodeVXLAN adds exactly the layer
    DecodeFromBytes computes — into any reused object, from any buffer —, with the same truncation
    contribution, fails exactly when it fails, makes no Set*Layer call and continues with
    LinkTypeEthernet. -/
theorem packet_decoder_equals_decodeFromBytes_vxlan (old : Vxlan.Layer) (data f₁ f₂ : Bytes) :
    Vxlan.decodePkt data f₁ =
      (Vxlan.decode old data f₂ >>= fun (x : Vxlan.Layer × Bool) =>
        pure { added := x.1, truncated := x.2, setCalls := [], tail := Tail.nextLinkType Vxlan.linkTypeEthernet }) := by
  unfold Vxlan.decodePkt
  rw [decode_depends_only_on_bytes_vxlan Vxlan.Layer.fresh old data f₁ f₂]

/-! ### Geneve -/

theorem decode_resets_geneve (old : Geneve.Layer) (data foreign : Bytes) :
    Geneve.decode old data foreign = Geneve.decode Geneve.Layer.fresh data foreign := by
  rw [Geneve.decode_cases, Geneve.decode_cases]

theorem decode_cap_independent_geneve (old : Geneve.Layer) (data foreign : Bytes) :
    Geneve.decode old data foreign = Geneve.decode old data [] := by
  rw [Geneve.decode_cases, Geneve.decode_cases]

theorem decode_depends_only_on_bytes_geneve (old₁ old₂ : Geneve.Layer) (data f₁ f₂ : Bytes) :
    Geneve.decode old₁ data f₁ = Geneve.decode old₂ data f₂ := by
  rw [Geneve.decode_cases, Geneve.decode_cases]

/-- A successful decode never sets the truncation flag. -/
theorem decode_ok_not_truncated_geneve (old : Geneve.Layer) (data foreign : Bytes) (l : Geneve.Layer)
    (t : Bool) (h : Geneve.decode old data foreign = .ok (l, t)) : t = false := by
  rw [Geneve.decode_cases] at h
  match data, h with
  | d0 :: d1 :: p0 :: p1 :: v0 :: v1 :: v2 :: d7 :: r0, h =>
    simp only [Geneve.spec] at h
    split at h
    · cases h
    · cases hs : Geneve.specLoop (r0.length + 8) ((d0.toNat &&& 0x3f) * 4) r0 with
      | panic k => rw [hs] at h; cases h
      | err e => rw [hs] at h; cases h
      | ok y =>
        obtain ⟨os, m⟩ := y
        rw [hs] at h
        simp only [Res.ok.injEq, Prod.mk.injEq] at h
        exact h.2.symm

/-- Every failing decode of Geneve either set the truncation flag (text ends in ":truncated") or is
    the option-overrun error of ltun-3 (nothing is missing from the packet: no flag). -/
theorem decode_err_kinds_geneve (old : Geneve.Layer) (data foreign : Bytes) (e : String)
    (h : Geneve.decode old data foreign = .err e) :
    e = "geneve:truncated" ∨ e = "geneve option exceeds the options length" := by
  rw [Geneve.decode_cases] at h
  unfold Geneve.spec at h
  split at h
  · dsimp only at h
    split at h
    · simp only [Geneve.errTruncated, Res.err.injEq] at h; left; exact h.symm
    · rename_i d0 d1 p0 p1 v0 v1 v2 d7 r0 _
      cases hs : Geneve.specLoop (r0.length + 8) ((d0.toNat &&& 0x3f) * 4) r0 with
      | panic k => rw [hs] at h; cases h
      | err e' =>
        rw [hs] at h
        simp only [Res.err.injEq] at h
        subst h
        exact Geneve.specLoop_err _ _ _ _ hs
      | ok y => rw [hs] at h; cases h
  · simp only [Geneve.errTruncated, Res.err.injEq] at h; left; exact h.symm

theorem decode_sequence_no_stale_state_geneve (afterErr : Geneve.Layer → Bytes → Geneve.Layer)
    (start : Geneve.Layer) (ps : List (Bytes × Bytes)) :
    Geneve.decodeSeq afterErr start ps = ps.map (fun p => Geneve.decode Geneve.Layer.fresh p.1 []) := by
  induction ps generalizing start with
  | nil => rfl
  | cons p rest ih =>
    obtain ⟨data, foreign⟩ := p
    simp only [Geneve.decodeSeq, List.map_cons]
    rw [ih]
    congr 1
    exact decode_depends_only_on_bytes_geneve start Geneve.Layer.fresh data foreign []

/-- decodeGeneve (base.go decodingLayerDecoder) adds exactly the DecodeFromBytes layer, no Set*Layer
    call, and continues with NextLayerType unless that is LayerTypeZero. -/
theorem packet_decoder_equals_decodeFromBytes_geneve (old : Geneve.Layer) (data f₁ f₂ : Bytes) :
    Geneve.decodePkt data f₁ =
      (Geneve.decode old data f₂ >>= fun (x : Geneve.Layer × Bool) =>
        pure { added := x.1, truncated := x.2, setCalls := [],
               tail := if Geneve.nextLayerType x.1 = LayerTypeZero then Tail.done
                       else Tail.nextLayerType (Geneve.nextLayerType x.1) }) := by
  unfold Geneve.decodePkt
  rw [decode_depends_only_on_bytes_geneve Geneve.Layer.fresh old data f₁ f₂]

/-! ### GTPv1-U -/

/-- No stale state (tree with ltun-5). -/
theorem decode_resets_gtp (old : Gtp.Layer) (data foreign : Bytes) :
    Gtp.decode old data foreign = Gtp.decode Gtp.Layer.fresh data foreign := by
  rw [Gtp.decode_cases, Gtp.decode_cases]

theorem decode_cap_independent_gtp (old : Gtp.Layer) (data foreign : Bytes) :
    Gtp.decode old data foreign = Gtp.decode old data [] := by
  rw [Gtp.decode_cases, Gtp.decode_cases]

theorem decode_depends_only_on_bytes_gtp (old₁ old₂ : Gtp.Layer) (data f₁ f₂ : Bytes) :
    Gtp.decode old₁ data f₁ = Gtp.decode old₂ data f₂ := by
  rw [Gtp.decode_cases, Gtp.decode_cases]

/-- A successful decode never sets the truncation flag (gtp.go never calls SetTruncated). -/
theorem decode_ok_not_truncated_gtp (old : Gtp.Layer) (data foreign : Bytes) (l : Gtp.Layer)
    (t : Bool) (h : Gtp.decode old data foreign = .ok (l, t)) : t = false := by
  rw [Gtp.decode_cases] at h
  exact (Gtp.spec_wfCore data l t h).2.2.1

theorem decode_sequence_no_stale_state_gtp (afterErr : Gtp.Layer → Bytes → Gtp.Layer)
    (start : Gtp.Layer) (ps : List (Bytes × Bytes)) :
    Gtp.decodeSeq afterErr start ps = ps.map (fun p => Gtp.decode Gtp.Layer.fresh p.1 []) := by
  induction ps generalizing start with
  | nil => rfl
  | cons p rest ih =>
    obtain ⟨data, foreign⟩ := p
    simp only [Gtp.decodeSeq, List.map_cons]
    rw [ih]
    congr 1
    exact decode_depends_only_on_bytes_gtp start Gtp.Layer.fresh data foreign []

/-- decodeGTPv1u adds exactly the DecodeFromBytes layer, no Set*Layer call, and continues with
    NextLayerType (also when that is LayerTypeZero: empty payload). -/
theorem packet_decoder_equals_decodeFromBytes_gtp (old : Gtp.Layer) (data f₁ f₂ : Bytes) :
    Gtp.decodePkt data f₁ =
      (Gtp.decode old data f₂ >>= fun (x : Gtp.Layer × Bool) =>
        pure { added := x.1, truncated := x.2, setCalls := [],
               tail := Tail.nextLayerType (Gtp.nextLayerType x.1) }) := by
  unfold Gtp.decodePkt
  rw [decode_depends_only_on_bytes_gtp Gtp.Layer.fresh old data f₁ f₂]

/-- **The defect ltun-5 repairs**, on the original code (`Variant.orig` = no reset): an object that
    decoded a packet with a sequence number and one extension header, reused for a bare 8-byte header,
    keeps the sequence number and the extension header. -/
theorem decode_resets_gtp_orig_counterexample :
    ¬ ∀ (old : Gtp.Layer) (data : Bytes),
        Gtp.decodeV ⟨false, true⟩ old data [] = Gtp.decodeV ⟨false, true⟩ Gtp.Layer.fresh data [] := by
  intro h
  have := h { Gtp.Layer.fresh with sequenceNumber := 0x1234, extensionHeaders := [⟨0x85, [0xaa, 0xbb]⟩] }
    [0x30, 0xff, 0, 0, 0, 0, 0, 1]
  revert this
  decide

/-! ### non-vacuity: objects that held a layer with every optional part, reused for a minimal header:
    nothing of the old value survives. -/

example : Geneve.decode
    { Geneve.Layer.fresh with
      version := 3, optionsLength := 8, oamPacket := true,
      options := [⟨1, 2, 3, 8, [9, 8, 7, 6]⟩], contents := [1], payload := [2] }
    [0, 0, 0x86, 0xdd, 0, 0, 1, 0, 0x60] [] =
    .ok ({ Geneve.Layer.fresh with
           contents := [0, 0, 0x86, 0xdd, 0, 0, 1, 0], payload := [0x60],
           protocol := 0x86dd, vni := 1 }, false) := by decide
example : Gtp.decode
    { Gtp.Layer.fresh with
      sequenceNumber := 0x1234, npdu := 9, sequenceNumberFlag := true,
      extensionHeaders := [⟨0x85, [0xaa, 0xbb]⟩], contents := [1], payload := [2] }
    [0x30, 0xff, 0, 0, 0, 0, 0, 1] [] =
    .ok ({ Gtp.Layer.fresh with
           contents := [0x30, 0xff, 0, 0, 0, 0, 0, 1], version := 1, protocolType := 1,
           messageType := 255, teid := 1 }, false) := by decide

end Gp.C05.Tun
