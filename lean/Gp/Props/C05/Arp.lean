import Gp.Lemmas.Layers.Arp
/-
  C05 (engine `larp`) — ARP, Loopback and ERSPAN II keep no stale state; results do not depend on
  the capacity of the packet buffer nor on the bytes behind the input; the packet path adds exactly
  the layer the preallocated path computes.

  `X.decodeFromBytes old d` takes the receiver BEFORE the call (`old`) and the input as a Go slice
  with capacity (`d.vis` = data, `d.tail` = foreign bytes between len and cap).  Every field the Go
  code assigns is assigned in the model by an explicit update of `old`, so a field that the code set
  on some paths only would survive from `old` — the theorems below say that none does on success.
-/
namespace Gp.C05.Arp
open Gp Gp.Arp

/-! ## ARP -/

/-- The outcome of `(*ARP).DecodeFromBytes` on at least 8 bytes, for every receiver, capacity and
    foreign bytes: the specification `arpDecSpec` — on success a function of the visible bytes alone. -/
theorem decode_fn_of_bytes_arp (old : ARP) (d : GSlice) (h : 8 ≤ d.len) :
    old.decodeFromBytes d = .ok (arpDecSpec old d.vis) := ARP.decode_long old d h

/-- No stale state: decoding into a re-used object = decoding into a fresh one (all fields,
    Contents, Payload, truncation contribution on success; the same error otherwise). -/
theorem decode_resets (old : ARP) (data foreign : Bytes) :
    decodeArp old data foreign = decodeArp ARP.fresh data foreign := by
  unfold decodeArp
  by_cases h : GSlice.len ⟨data, foreign⟩ < 8
  · rw [ARP.decode_short old _ h, ARP.decode_short ARP.fresh _ h]; rfl
  · rw [ARP.decode_long old _ (by omega), ARP.decode_long ARP.fresh _ (by omega)]
    obtain ⟨x1, x2, x3⟩ := arpDecSpec_err_indep old ARP.fresh data
    simp only
    by_cases he : (arpDecSpec old data).err = true
    · rw [if_pos he, if_pos (by rw [← x1]; exact he)]
    · rw [if_neg he, if_neg (by rw [← x1]; exact he), x2, x3 (by simpa using he)]

/-- What a FAILED decode leaves in the receiver, and that it sets the truncation flag: nothing is
    touched below 8 bytes; when the announced sizes exceed the input (arp.go:55-58) the five header
    fields are already overwritten while the four addresses, Contents and Payload are still those of
    the previous packet — a half-updated object.  (Not a violation of the property: the call reports
    the error, the parser reports no layer, and `decode_resets` shows the next successful decode
    does not depend on what is left here.) -/
theorem decode_error_receiver (old : ARP) (d : GSlice) (o : DecOut ARP)
    (h : old.decodeFromBytes d = .ok o) (he : o.err = true) :
    o.trunc = true ∧ (o.layer = old ∨ o.layer = arpHdr old d.vis) ∧
    o.layer.sourceHwAddress = old.sourceHwAddress ∧ o.layer.sourceProtAddress = old.sourceProtAddress ∧
    o.layer.dstHwAddress = old.dstHwAddress ∧ o.layer.dstProtAddress = old.dstProtAddress ∧
    o.layer.contents = old.contents ∧ o.layer.payload = old.payload := by
  by_cases hs : d.len < 8
  · rw [ARP.decode_short old d hs] at h; cases h
    exact ⟨rfl, Or.inl rfl, rfl, rfl, rfl, rfl, rfl, rfl⟩
  · rw [ARP.decode_long old d (by omega)] at h
    cases h
    unfold arpDecSpec at he ⊢
    by_cases hlt : d.vis.length < arpLen d.vis
    · rw [if_pos hlt]
      exact ⟨rfl, Or.inr rfl, rfl, rfl, rfl, rfl, rfl, rfl⟩
    · rw [if_neg hlt] at he; cases he

/-- Capacity independence (what C04 "NoCopy/Pool give identical results" and C02 "depends only on
    the bytes" need from this layer): spare capacity and its contents never influence the result —
    in particular the address sizes taken from the packet are checked against the LENGTH. -/
theorem decode_cap_independent (old : ARP) (data foreign : Bytes) :
    decodeArp old data foreign = decodeArp old data [] := by
  unfold decodeArp
  by_cases h : GSlice.len ⟨data, foreign⟩ < 8
  · rw [ARP.decode_short old _ h, ARP.decode_short old ⟨data, []⟩ h]
  · have h' : 8 ≤ GSlice.len ⟨data, []⟩ := by
      have : GSlice.len ⟨data, []⟩ = GSlice.len ⟨data, foreign⟩ := rfl
      omega
    rw [ARP.decode_long old _ (by omega), ARP.decode_long old ⟨data, []⟩ h']

/-- … for the full outcome, including the receiver left by a failed call. -/
theorem decode_cap_independent_full (old : ARP) (data foreign : Bytes) :
    old.decodeFromBytes ⟨data, foreign⟩ = old.decodeFromBytes ⟨data, []⟩ := by
  by_cases h : GSlice.len ⟨data, foreign⟩ < 8
  · rw [ARP.decode_short old _ h, ARP.decode_short old ⟨data, []⟩ h]
  · have h' : 8 ≤ GSlice.len ⟨data, []⟩ := by
      have : GSlice.len ⟨data, []⟩ = GSlice.len ⟨data, foreign⟩ := rfl
      omega
    rw [ARP.decode_long old _ (by omega), ARP.decode_long old ⟨data, []⟩ h']

/-- The packet path agrees with the preallocated path: `decodeARP` (= `decodingLayerDecoder`) adds
    exactly the layer a direct `DecodeFromBytes` into any re-used object yields, with the same
    truncation contribution; it is added exactly when that decode succeeds; no Set*Layer call; the
    next decoder is `LayerTypePayload`. -/
theorem packet_layer_eq_direct (old : ARP) (d : GSlice) :
    ∃ o, old.decodeFromBytes d = .ok o ∧
      ((o.err = true ∧ ∃ b, decodeARPFn d = .ok (b, none) ∧ b.tail = .fail ∧ b.acts = [Act.setTruncated]) ∨
       (o.err = false ∧ o.trunc = false ∧ ∃ b, decodeARPFn d = .ok (b, some o.layer) ∧
          b.acts = [Act.addLayer LayerTypeARP] ∧ b.tail = .nextLayerType LayerTypePayload)) := by
  by_cases hs : d.len < 8
  · refine ⟨_, ARP.decode_short old d hs, Or.inl ⟨rfl, ?_⟩⟩
    unfold decodeARPFn
    rw [ARP.decode_short _ d hs, Res.bind_ok]
    exact ⟨_, rfl, rfl, rfl⟩
  · have hl : 8 ≤ d.len := by omega
    refine ⟨_, ARP.decode_long old d hl, ?_⟩
    obtain ⟨x1, x2, x3⟩ := arpDecSpec_err_indep old ARP.fresh d.vis
    unfold decodeARPFn
    rw [ARP.decode_long _ d hl, Res.bind_ok]
    unfold arpDecSpec at x1 x2 x3 ⊢
    by_cases hlt : d.vis.length < arpLen d.vis
    · rw [if_pos hlt, if_pos hlt]
      exact Or.inl ⟨rfl, _, rfl, rfl, rfl⟩
    · rw [if_neg hlt, if_neg hlt]
      exact Or.inr ⟨rfl, rfl, _, rfl, rfl, rfl⟩

/-! ## Loopback -/

theorem decode_fn_of_bytes_loopback (old : Loopback) (d : GSlice) (h : 4 ≤ d.len) :
    old.decodeFromBytes d = .ok (loDecSpec old d.vis) := Loopback.decode_long old d h

theorem decode_resets_loopback (old : Loopback) (data foreign : Bytes) :
    decodeLoopbackView old data foreign = decodeLoopbackView Loopback.fresh data foreign := by
  unfold decodeLoopbackView
  by_cases h : GSlice.len ⟨data, foreign⟩ < 4
  · rw [Loopback.decode_short old _ h, Loopback.decode_short Loopback.fresh _ h]; rfl
  · rw [Loopback.decode_long old _ (by omega), Loopback.decode_long Loopback.fresh _ (by omega)]
    obtain ⟨x1, x2, x3⟩ := loDecSpec_err_indep old Loopback.fresh data
    simp only
    by_cases he : (loDecSpec old data).err = true
    · rw [if_pos he, if_pos (by rw [← x1]; exact he)]
    · rw [if_neg he, if_neg (by rw [← x1]; exact he), x2, x3 (by simpa using he)]

/-- A failed Loopback decode leaves the receiver exactly as it was and never sets the truncation
    flag (loopback.go has no SetTruncated call: a too-short loopback header is an error only). -/
theorem decode_error_keeps_receiver_loopback (old : Loopback) (d : GSlice) (o : DecOut Loopback)
    (h : old.decodeFromBytes d = .ok o) (he : o.err = true) : o.layer = old ∧ o.trunc = false := by
  by_cases hs : d.len < 4
  · rw [Loopback.decode_short old d hs] at h; cases h; exact ⟨rfl, rfl⟩
  · rw [Loopback.decode_long old d (by omega)] at h
    cases h
    unfold loDecSpec at he ⊢
    by_cases hp : loProt d.vis > 0xFF
    · rw [if_pos hp]; exact ⟨rfl, rfl⟩
    · rw [if_neg hp] at he; cases he

theorem decode_cap_independent_loopback (old : Loopback) (data foreign : Bytes) :
    old.decodeFromBytes ⟨data, foreign⟩ = old.decodeFromBytes ⟨data, []⟩ := by
  by_cases h : GSlice.len ⟨data, foreign⟩ < 4
  · rw [Loopback.decode_short old _ h, Loopback.decode_short old ⟨data, []⟩ h]
  · have h' : 4 ≤ GSlice.len ⟨data, []⟩ := by
      have : GSlice.len ⟨data, []⟩ = GSlice.len ⟨data, foreign⟩ := rfl
      omega
    rw [Loopback.decode_long old _ (by omega), Loopback.decode_long old ⟨data, []⟩ h']

/-- `decodeLoopback`: the layer added to the packet is the one a direct decode into any re-used
    object yields; it is added exactly when that decode succeeds; no SetTruncated, no Set*Layer;
    the next decoder is `ProtocolFamily(l.Family)`. -/
theorem packet_layer_eq_direct_loopback (old : Loopback) (d : GSlice) :
    ∃ o, old.decodeFromBytes d = .ok o ∧ o.trunc = false ∧
      ((o.err = true ∧ decodeLoopbackFn d = .ok ({ acts := [], tail := .fail }, none)) ∨
       (o.err = false ∧ decodeLoopbackFn d =
          .ok ({ acts := [Act.addLayer LayerTypeLoopback], tail := .nextProtocolFamily o.layer.family },
               some o.layer))) := by
  by_cases hs : d.len < 4
  · refine ⟨_, Loopback.decode_short old d hs, rfl, Or.inl ⟨rfl, ?_⟩⟩
    unfold decodeLoopbackFn
    rw [Loopback.decode_short _ d hs, Res.bind_ok]
    rfl
  · have hl : 4 ≤ d.len := by omega
    refine ⟨_, Loopback.decode_long old d hl, ?_⟩
    unfold decodeLoopbackFn
    rw [Loopback.decode_long _ d hl, Res.bind_ok]
    unfold loDecSpec
    by_cases hp : loProt d.vis > 0xFF
    · rw [if_pos hp, if_pos hp]
      exact ⟨rfl, Or.inl ⟨rfl, rfl⟩⟩
    · rw [if_neg hp, if_neg hp]
      exact ⟨rfl, Or.inr ⟨rfl, rfl⟩⟩

set_option maxRecDepth 20000 in
/-- `Loopback.NextLayerType` / `ProtocolFamily.Decode` over the shipped table, with the keys taken from
    the constants REGENERATED from enums.go on every run: exactly the five known families have a
    decoder; IPv4 for PF 2, IPv6 for the four IPv6 numbers; every other family ends the packet with
    an error from `NextDecoder` (and `NextLayerType` = LayerTypeZero stops the parser). -/
theorem loopback_next_layer_table :
    (List.range 256).filter pfKnown = [2, 10, 24, 28, 30] ∧
    pfLayerType 2 = LayerTypeIPv4 ∧ pfLayerType 10 = LayerTypeIPv6 ∧ pfLayerType 24 = LayerTypeIPv6 ∧
    pfLayerType 28 = LayerTypeIPv6 ∧ pfLayerType 30 = LayerTypeIPv6 ∧
    (∀ f, f < 256 → pfKnown f = false → pfLayerType f = LayerTypeZero) := by decide

/-! ## ERSPAN II -/

/-- A successful decode is a function of the visible input bytes alone. -/
theorem decode_fn_of_bytes_erspan2 (old : ERSPANII) (d : GSlice) (h : 8 ≤ d.len) :
    old.decodeFromBytes d = .ok (erDecSpec d.vis) := ERSPANII.decode_long old d h

theorem decode_resets_erspan2 (old : ERSPANII) (data foreign : Bytes) :
    decodeErspan2View old data foreign = decodeErspan2View ERSPANII.fresh data foreign := by
  unfold decodeErspan2View
  by_cases h : GSlice.len ⟨data, foreign⟩ < 8
  · rw [ERSPANII.decode_short old _ h, ERSPANII.decode_short ERSPANII.fresh _ h]; rfl
  · rw [ERSPANII.decode_long old _ (by omega), ERSPANII.decode_long ERSPANII.fresh _ (by omega)]

/-- A failed ERSPAN II decode leaves the receiver as it was and sets the truncation flag. -/
theorem decode_error_keeps_receiver_erspan2 (old : ERSPANII) (d : GSlice) (o : DecOut ERSPANII)
    (h : old.decodeFromBytes d = .ok o) (he : o.err = true) : o.layer = old ∧ o.trunc = true := by
  by_cases hs : d.len < 8
  · rw [ERSPANII.decode_short old d hs] at h; cases h; exact ⟨rfl, rfl⟩
  · rw [ERSPANII.decode_long old d (by omega)] at h
    cases h; cases he

theorem decode_cap_independent_erspan2 (old : ERSPANII) (data foreign : Bytes) :
    old.decodeFromBytes ⟨data, foreign⟩ = old.decodeFromBytes ⟨data, []⟩ := by
  by_cases h : GSlice.len ⟨data, foreign⟩ < 8
  · rw [ERSPANII.decode_short old _ h, ERSPANII.decode_short old ⟨data, []⟩ h]
  · have h' : 8 ≤ GSlice.len ⟨data, []⟩ := by
      have : GSlice.len ⟨data, []⟩ = GSlice.len ⟨data, foreign⟩ := rfl
      omega
    rw [ERSPANII.decode_long old _ (by omega), ERSPANII.decode_long old ⟨data, []⟩ h']

/-- `decodeERSPANII` (= `decodingLayerDecoder`): adds the directly decoded layer, then
    NextDecoder(LayerTypeEthernet). -/
theorem packet_layer_eq_direct_erspan2 (old : ERSPANII) (d : GSlice) :
    ∃ o, old.decodeFromBytes d = .ok o ∧
      ((o.err = true ∧ ∃ b, decodeERSPANIIFn d = .ok (b, none) ∧ b.tail = .fail ∧ b.acts = [Act.setTruncated]) ∨
       (o.err = false ∧ o.trunc = false ∧ ∃ b, decodeERSPANIIFn d = .ok (b, some o.layer) ∧
          b.acts = [Act.addLayer LayerTypeERSPANII] ∧ b.tail = .nextLayerType LayerTypeEthernet)) := by
  by_cases hs : d.len < 8
  · refine ⟨_, ERSPANII.decode_short old d hs, Or.inl ⟨rfl, ?_⟩⟩
    unfold decodeERSPANIIFn
    rw [ERSPANII.decode_short _ d hs, Res.bind_ok]
    exact ⟨_, rfl, rfl, rfl⟩
  · have hl : 8 ≤ d.len := by omega
    refine ⟨_, ERSPANII.decode_long old d hl, Or.inr ⟨rfl, rfl, ?_⟩⟩
    unfold decodeERSPANIIFn
    rw [ERSPANII.decode_long _ d hl, Res.bind_ok]
    exact ⟨_, rfl, rfl, rfl⟩

/-! ## The parser over the three layers (one object per type) -/

/-- No stale state through `DecodingLayerParser.DecodeLayers`: whatever the three layer objects held
    from earlier packets (including the half-updated ARP object a failed decode leaves), the run
    returns the same error code, the same list of decoded types, the same truncation flag, and every
    layer object whose type is in that list holds the same value (`DlpAgree`). -/
theorem dlp_resets (a1 a2 : ARP) (l1 l2 : Loopback) (e1 e2 : ERSPANII) (first : Nat) (d : GSlice) :
    ∃ r1 r2 c, dlpDecodeLayers a1 l1 e1 first d = .ok (r1, c) ∧ dlpDecodeLayers a2 l2 e2 first d = .ok (r2, c) ∧
      DlpAgree r1 r2 :=
  dlpLoop_agree _ _ _ _ _ ⟨rfl, rfl, fun h => absurd h (List.not_mem_nil), fun h => absurd h (List.not_mem_nil),
    fun h => absurd h (List.not_mem_nil)⟩

/-- … and it does not depend on the capacity of the packet buffer or the bytes behind the input. -/
theorem dlp_cap_independent (arp : ARP) (lo : Loopback) (er : ERSPANII) (first : Nat) (v t1 t2 : Bytes) :
    dlpDecodeLayers arp lo er first { vis := v, tail := t1 } = dlpDecodeLayers arp lo er first { vis := v, tail := t2 } :=
  dlpLoop_cap _ _ _ v t1 t2

/-! ## Non-vacuity: receivers full of stale data, spare capacity full of foreign bytes -/

example :
    let stale : ARP := { contents := [1], payload := [2,3], addrType := 9, protocol := 9, hwAddressSize := 9,
                         protAddressSize := 9, operation := 9, sourceHwAddress := [9], sourceProtAddress := [8,8],
                         dstHwAddress := [7], dstProtAddress := [6,6,6] }
    decodeArp stale [0,1,8,0,1,1,0,2, 0xA, 0xB, 0xC, 0xD, 0x77] [0xEE,0xEE] =
      .ok ({ contents := [0,1,8,0,1,1,0,2, 0xA, 0xB, 0xC, 0xD], payload := [0x77], addrType := 1, protocol := 0x0800,
             hwAddressSize := 1, protAddressSize := 1, operation := 2, sourceHwAddress := [0xA],
             sourceProtAddress := [0xB], dstHwAddress := [0xC], dstProtAddress := [0xD] }, false) ∧
    -- the half-updated receiver of the second error path
    stale.decodeFromBytes ⟨[0,1,8,0,6,4,0,2, 0xA], [0xEE,0xEE]⟩ =
      .ok { layer := { stale with addrType := 1, protocol := 0x0800, hwAddressSize := 6, protAddressSize := 4,
                                  operation := 2 }, trunc := true, err := true } := by
  decide

example :
    decodeLoopbackView { contents := [5], payload := [6], family := 77 } [0,0,0,24, 1,2] [9] =
      .ok ({ contents := [0,0,0,24], payload := [1,2], family := 24 }, false) := by decide

/-- the parser: a failed ARP decode, then success, in the same objects -/
example :
    (match dlpDecodeLayers ARP.fresh Loopback.fresh ERSPANII.fresh LayerTypeLoopback
        { vis := [2,0,0,0, 0x45,0,0,20], tail := [] } with
     | .ok (s, c) => some (s.decoded, c, s.loopback.family, s.trunc)
     | _ => none) = some ([54], 2, 2, false) := by decide

end Gp.C05.Arp
