import Gp.Lemmas.Layers.TcpDecode
/-
  C05 (TCP part): DecodeFromBytes keeps no stale state and depends only on the bytes.
  `Variant.fixed` = pinned code + proposed_fixes/ltcp-1 (MPTCP length checks) + ltcp-2
  (`tcp.Multipath = false` in the reset block); `Variant.orig` = pinned code.

  `resultView r` is what a caller observes of a decode outcome `r`: panic / truncation flag /
  error status and, on success, EVERY field of the layer — the public ones, Contents, Payload
  and the port bytes behind TransportFlow (`Layer.pub` only masks the checksum pseudo-header
  installed by SetNetworkLayerForChecksum, which is configuration, not decoded state).
-/
namespace Gp.C05.Tcp
open Gp Gp.Tcp

/-- No stale state: decoding into ANY old layer value is observably the same as decoding into
    a fresh layer. -/
theorem decode_resets (old : Layer) (data foreign : Bytes) :
    resultView (decode Variant.fixed old data foreign) = resultView (decode Variant.fixed fresh data foreign) :=
  resultView_of_sim ((sim_decodeFromBytes_old old fresh data foreign foreign).mono fun _ _ h => h.1)

/-- The same, spelled out for a successful decode. -/
theorem decode_resets_fields (old : Layer) (data foreign : Bytes) (o : DecOut)
    (h : decode Variant.fixed old data foreign = .ok o) :
    ∃ o', decode Variant.fixed fresh data foreign = .ok o' ∧
      o.trunc = o'.trunc ∧ o.err = o'.err ∧ (o.err = false → o.layer.pub = o'.layer.pub) := by
  have hs := sim_decodeFromBytes_old old fresh data foreign foreign
  unfold decode at h ⊢
  rw [h] at hs
  generalize decodeFromBytes Variant.fixed fresh ⟨data, foreign⟩ = r2 at hs
  cases hs with
  | ok hr => exact ⟨_, rfl, hr.1⟩

/-- a segment with an MSS option and one payload byte -/
def segMss : Bytes :=
  [0x30, 0x39, 0xd4, 0x31, 0xde, 0xad, 0xbe, 0xef, 0, 0, 0, 0, 0x60, 0x02, 0, 0, 0, 0, 0, 0, 2, 4, 5, 0xb4, 7]

/-- non-vacuity of `decode_resets_fields`: a successful decode (one option) into a dirty layer -/
example : (match decode Variant.fixed { multipath := true, padding := [1, 2], dataOffset := 9 } segMss [] with
    | .ok o => !o.err && !o.layer.multipath && o.layer.options.length == 1
    | _ => false) = true := by decide

/-- The result does not depend on the capacity of the packet buffer nor on the foreign bytes
    behind the data (NoCopy / Pool give what the copying path gives; C04/C02 use this too). -/
theorem decode_cap_independent (old : Layer) (data f1 f2 : Bytes) :
    decode Variant.fixed old data f1 = decode Variant.fixed old data f2 :=
  (sim_decodeFromBytes old data f1 f2).eq_and_no_panic.1

/-- Pinned code: `TCP.Multipath` is only ever set to true — it is stale after an MPTCP packet.
    (Found on the real code by the monitor as ltcp:stale:Multipath.) -/
theorem decode_resets_orig_counterexample :
    ¬ ∀ (old : Layer) (data foreign : Bytes),
      resultView (decode Variant.orig old data foreign) = resultView (decode Variant.orig fresh data foreign) := by
  intro h
  have := h { multipath := true } segMss []
  revert this
  decide

end Gp.C05.Tcp
