import Gp.Lemmas.Layers.MldDlp
/-
  C05 (engine `lmld`) — the MLDv1 query / report / done layers keep no stale state; results do not
  depend on the capacity of the packet buffer nor on the bytes behind the input; the packet path adds
  exactly the layer the preallocated path computes.

  `decodeFromBytes kind old d` takes the receiver BEFORE the call (`old`) and the input as a Go slice
  with capacity (`d.vis` = data, `d.tail` = foreign bytes between len and cap).  Every field the Go
  code assigns is assigned in the model by an explicit update of `old`, so a field that the code set
  on some paths only would survive from `old` — the theorems below say that none does on success.

  The model is the code WITH proposed_fixes/lmld-1.  The unpatched `MLDv1Message.DecodeFromBytes`
  never assigned the BaseLayer; only the query type assigned `Payload`, and only for more than 20
  bytes: a re-used query object decoded from exactly 20 bytes kept the payload of the previous
  packet (`corpus/lmld/001-regressions.ops`, monitor `lmld:stale:Payload`).
-/
namespace Gp.C05.Mld
open Gp Gp.Mld

/-- The outcome of `DecodeFromBytes` of each of the three types, for every receiver, capacity and
    foreign bytes: the specification `msgDecSpec` — on success a function of the visible bytes alone
    (`msgLayer`), on failure the untouched receiver plus the truncation flag. -/
theorem decode_fn_of_bytes (kind : Kind) (old : Msg) (d : GSlice) :
    decodeFromBytes kind old d = .ok (msgDecSpec old d.vis) := decode_spec kind old d

/-- No stale state: decoding into a re-used object = decoding into a fresh one (all fields,
    Contents, Payload, truncation contribution on success; the same error otherwise). -/
theorem decode_resets (kind : Kind) (old : Msg) (data foreign : Bytes) :
    decodeMld kind old data foreign = decodeMld kind Msg.fresh data foreign := by
  unfold decodeMld
  rw [decode_spec, decode_spec]
  simp only [msgDecSpec]
  by_cases h : data.length < 20
  · simp only [if_pos h, if_true]
  · simp only [if_neg h]

/-- The same at the level of the call itself: on success the whole outcome (layer, truncation
    contribution) is that of a fresh object. -/
theorem decode_resets_call (kind : Kind) (old : Msg) (d : GSlice) (o : DecOut Msg)
    (h : decodeFromBytes kind old d = .ok o) (he : o.err = false) :
    decodeFromBytes kind Msg.fresh d = .ok o := by
  rw [decode_spec] at h ⊢
  cases h
  rw [msgDecSpec_fresh old d.vis he]

/-- What a FAILED decode leaves: the receiver is untouched and the truncation flag is set (the
    only error is "fewer than 20 bytes"). -/
theorem decode_error_keeps_receiver (kind : Kind) (old : Msg) (d : GSlice) (o : DecOut Msg)
    (h : decodeFromBytes kind old d = .ok o) (he : o.err = true) :
    o.layer = old ∧ o.trunc = true ∧ d.len < 20 := by
  rw [decode_spec] at h
  cases h
  refine ⟨msgDecSpec_err_layer old d.vis he, by rw [msgDecSpec_trunc]; exact he, ?_⟩
  rw [msgDecSpec_err] at he
  exact of_decide_eq_true he

/-- Capacity independence (what C04 "NoCopy/Pool give identical results" and C02 "depends only on
    the bytes" need from this layer): spare capacity and its contents never influence the result —
    here for the view … -/
theorem decode_cap_independent (kind : Kind) (old : Msg) (data foreign : Bytes) :
    decodeMld kind old data foreign = decodeMld kind old data [] := by
  unfold decodeMld
  rw [decode_spec, decode_spec]

/-- … and for the full outcome (receiver after an error included), any two capacities. -/
theorem decode_cap_independent_full (kind : Kind) (old : Msg) (data f1 f2 : Bytes) :
    decodeFromBytes kind old { vis := data, tail := f1 } = decodeFromBytes kind old { vis := data, tail := f2 } := by
  rw [decode_spec, decode_spec]

/-- The three wrapper types decode identically (the query override is redundant with fix lmld-1):
    the type selected by the ICMPv6 type byte only labels the layer. -/
theorem decode_kind_independent (k1 k2 : Kind) (old : Msg) (d : GSlice) :
    decodeFromBytes k1 old d = decodeFromBytes k2 old d := by
  rw [decode_spec, decode_spec]

/-- Packet path = preallocated path: the function registered for NewPacket adds exactly the layer a
    direct `DecodeFromBytes` into any (re-used) object produces; the complete list of PacketBuilder
    calls is given (no Set*Layer call, no NextDecoder: the MLDv1 message ends the packet). -/
theorem packet_layer_eq_direct (kind : Kind) (old : Msg) (d : GSlice) :
    ∃ o, decodeFromBytes kind old d = .ok o ∧
      ((o.err = true ∧ ∃ b, decodeMLDv1Fn kind d = .ok (b, none) ∧ b.tail = .fail ∧ b.acts = [Act.setTruncated]) ∨
       (o.err = false ∧ o.trunc = false ∧ ∃ b, decodeMLDv1Fn kind d = .ok (b, some o.layer) ∧
          b.acts = [Act.addLayer kind.layerType] ∧ b.tail = .done)) := by
  by_cases h : d.vis.length < 20
  · refine ⟨_, decode_spec kind old d, Or.inl ⟨?_, ?_⟩⟩
    · simp only [msgDecSpec, if_pos h]
    · unfold decodeMLDv1Fn
      rw [decode_spec, Res.bind_ok]
      simp only [msgDecSpec, if_pos h, pure, decodingLayerDecoder, if_true]
      exact ⟨_, rfl, rfl, rfl⟩
  · refine ⟨_, decode_spec kind old d, Or.inr ⟨?_, ?_, ?_⟩⟩
    · simp only [msgDecSpec, if_neg h]
    · simp only [msgDecSpec, if_neg h]
    · unfold decodeMLDv1Fn
      rw [decode_spec, Res.bind_ok]
      simp only [msgDecSpec, if_neg h, pure, decodingLayerDecoder, Msg.nextLayerType, Bool.false_eq_true,
        if_false, if_true]
      exact ⟨_, rfl, rfl, rfl⟩

/-- The selection of the layer by the ICMPv6 type byte (icmp6.go NextLayerType, over the
    REGENERATED type constants): type 130 selects the MLDv1 query for at most 20 body bytes and the
    MLDv2 query above, 131 the report, 132 the done message. -/
theorem icmp6_selects (l : Icmp6) :
    ((l.typeCode / 256) % 256 = 130 → l.payload.length ≤ 20 → l.nextLayerType = Kind.query.layerType) ∧
    ((l.typeCode / 256) % 256 = 130 → 20 < l.payload.length → l.nextLayerType = LayerTypeMLDv2MulticastListenerQuery) ∧
    ((l.typeCode / 256) % 256 = 131 → l.nextLayerType = Kind.report.layerType) ∧
    ((l.typeCode / 256) % 256 = 132 → l.nextLayerType = Kind.done.layerType) := by
  refine ⟨?_, ?_, ?_, ?_⟩
  · intro h hp
    have : ¬ (l.payload.length > 20) := by omega
    simp [Icmp6.nextLayerType, h, this, Gp.Gen.Mld.icmpv6TypeEchoRequest, Gp.Gen.Mld.icmpv6TypeEchoReply,
      Gp.Gen.Mld.icmpv6TypeRouterSolicitation, Gp.Gen.Mld.icmpv6TypeRouterAdvertisement,
      Gp.Gen.Mld.icmpv6TypeNeighborSolicitation, Gp.Gen.Mld.icmpv6TypeNeighborAdvertisement,
      Gp.Gen.Mld.icmpv6TypeRedirect, Gp.Gen.Mld.icmpv6TypeMLDv1Query, Kind.layerType]
  · intro h hp
    have : l.payload.length > 20 := hp
    simp [Icmp6.nextLayerType, h, this, Gp.Gen.Mld.icmpv6TypeEchoRequest, Gp.Gen.Mld.icmpv6TypeEchoReply,
      Gp.Gen.Mld.icmpv6TypeRouterSolicitation, Gp.Gen.Mld.icmpv6TypeRouterAdvertisement,
      Gp.Gen.Mld.icmpv6TypeNeighborSolicitation, Gp.Gen.Mld.icmpv6TypeNeighborAdvertisement,
      Gp.Gen.Mld.icmpv6TypeRedirect, Gp.Gen.Mld.icmpv6TypeMLDv1Query]
  · intro h
    simp [Icmp6.nextLayerType, h, Gp.Gen.Mld.icmpv6TypeEchoRequest, Gp.Gen.Mld.icmpv6TypeEchoReply,
      Gp.Gen.Mld.icmpv6TypeRouterSolicitation, Gp.Gen.Mld.icmpv6TypeRouterAdvertisement,
      Gp.Gen.Mld.icmpv6TypeNeighborSolicitation, Gp.Gen.Mld.icmpv6TypeNeighborAdvertisement,
      Gp.Gen.Mld.icmpv6TypeRedirect, Gp.Gen.Mld.icmpv6TypeMLDv1Query, Gp.Gen.Mld.icmpv6TypeMLDv1Done,
      Gp.Gen.Mld.icmpv6TypeMLDv1Report, Kind.layerType]
  · intro h
    simp [Icmp6.nextLayerType, h, Gp.Gen.Mld.icmpv6TypeEchoRequest, Gp.Gen.Mld.icmpv6TypeEchoReply,
      Gp.Gen.Mld.icmpv6TypeRouterSolicitation, Gp.Gen.Mld.icmpv6TypeRouterAdvertisement,
      Gp.Gen.Mld.icmpv6TypeNeighborSolicitation, Gp.Gen.Mld.icmpv6TypeNeighborAdvertisement,
      Gp.Gen.Mld.icmpv6TypeRedirect, Gp.Gen.Mld.icmpv6TypeMLDv1Query, Gp.Gen.Mld.icmpv6TypeMLDv1Done,
      Kind.layerType]

/-- The parser run does not depend on what the four re-used objects held before: from any two
    sets of objects the same result code, the same decoded types, the same truncation flag and equal
    layer objects for every decoded type. -/
theorem dlp_resets (i1 i2 : Icmp6) (q1 q2 r1 r2 d1 d2 : Msg) (first : Nat) (d : GSlice) :
    ∃ s1 s2 c, dlpDecodeLayers i1 q1 r1 d1 first d = .ok (s1, c) ∧ dlpDecodeLayers i2 q2 r2 d2 first d = .ok (s2, c) ∧
      DlpAgree s1 s2 :=
  dlpLoop_agree _ _ _ _ _ ⟨rfl, rfl, fun h => absurd h (List.not_mem_nil), fun h => absurd h (List.not_mem_nil),
    fun h => absurd h (List.not_mem_nil), fun h => absurd h (List.not_mem_nil)⟩

/-- The parser run does not depend on the capacity / foreign bytes either. -/
theorem dlp_cap_independent (ic : Icmp6) (q r dn : Msg) (first : Nat) (v t1 t2 : Bytes) :
    dlpDecodeLayers ic q r dn first { vis := v, tail := t1 } = dlpDecodeLayers ic q r dn first { vis := v, tail := t2 } :=
  dlpLoop_cap _ _ _ v t1 t2

/-! Non-vacuity.  The first example is the sequence on which the unpatched code failed: 24 bytes
    into a query object, then exactly 20 bytes into the same object — the payload is empty again. -/

example : decodeMld .query Msg.fresh
    [0x27,0x10,0,0, 0xff,2,0,0,0,0,0,0,0,0,0x0d,0xb8,0x11,0x22,0x33,0x44, 0xaa,0xbb,0xcc,0xdd] [] =
    .ok ({ contents := [0x27,0x10,0,0, 0xff,2,0,0,0,0,0,0,0,0,0x0d,0xb8,0x11,0x22,0x33,0x44],
           payload := [0xaa,0xbb,0xcc,0xdd], maximumResponseDelay := 10000000000,
           multicastAddress := [0xff,2,0,0,0,0,0,0,0,0,0x0d,0xb8,0x11,0x22,0x33,0x44] }, false) := by
  decide

example : decodeMld .query
    { contents := [0x27,0x10,0,0, 0xff,2,0,0,0,0,0,0,0,0,0x0d,0xb8,0x11,0x22,0x33,0x44],
      payload := [0xaa,0xbb,0xcc,0xdd], maximumResponseDelay := 10000000000,
      multicastAddress := [0xff,2,0,0,0,0,0,0,0,0,0x0d,0xb8,0x11,0x22,0x33,0x44] }
    [0x03,0xe8,0,0, 0,0,0,0,0,0,0,0,0,0,0,0,0,0,0,0] [] =
    .ok ({ contents := [0x03,0xe8,0,0, 0,0,0,0,0,0,0,0,0,0,0,0,0,0,0,0], payload := [],
           maximumResponseDelay := 1000000000, multicastAddress := [0,0,0,0,0,0,0,0,0,0,0,0,0,0,0,0] }, false) := by
  decide

example : (msgDecSpec Msg.fresh [0x27,0x10,0,0, 0xff,2,0,0,0,0,0,0,0,0,0x0d,0xb8,0x11,0x22,0x33,0x44]).err = false := by
  decide

end Gp.C05.Mld
