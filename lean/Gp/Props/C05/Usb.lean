import Gp.Lemmas.Layers.Usb
/-
  C05 for engine `lusb` (layers/usb.go, WITH proposed_fixes/lusb-1): decoding into a re-used USB /
  USBRequestBlockSetup / USBControl / USBInterrupt / USBBulk object gives the same result as decoding
  into a fresh one; the result is a function of the visible bytes alone (not of capacity / foreign
  bytes: NoCopy / Pool / inner-layer sub-slices); the layer NewPacket adds equals the direct in-place
  decode, for the first layer and for the layer behind the USB header.

  None of the five types implements gopacket.DecodingLayer (no CanDecode): the layer-parser clause of
  C05 has no instance; the re-use clause is about calling the public DecodeFromBytes again on the same
  object.

  Frame: DecodeFromBytes never assigns USB.UrbInterval / UrbStartFrame / UrbCopyOfTransferFlags /
  IsoNumDesc (dead `if false` block) nor the Payload of USBControl / USBInterrupt / USBBulk.  These keep
  whatever the object held; for an object that was only ever decoded into ("a sequence of packets
  decoded into the same layer objects") that is the zero value, exactly as in a fresh object
  (`decode_history_resets*`).  `decode_resets_handset_counterexample` shows the frame is real for
  values assigned BY HAND by the caller — outside the property's histories.
-/
namespace Gp.C05.Usb
open Gp Gp.Usb

/-! ### results are functions of the receiver's never-assigned fields and the visible bytes -/

theorem decode_fn_of_bytes_usb (old : USB) (d : GSlice) : old.decodeFromBytes d = .ok (usbDecSpec old d.vis) :=
  USB.decode_eq old d

theorem decode_fn_of_bytes_setup (old : Setup) (d : GSlice) : old.decodeFromBytes d = .ok (setupDecSpec old d.vis) :=
  Setup.decode_eq old d

theorem decode_fn_of_bytes_raw (old : Raw) (d : GSlice) :
    old.decodeFromBytes d = .ok { layer := { contents := d.vis, payload := old.payload }, trunc := false, err := false } :=
  rfl

/-! ### no stale state -/

/-- USB: a receiver whose four never-assigned fields hold the zero values decodes exactly like a fresh
    object — whatever its other 16 fields, Contents and Payload held (success: all fields, contents,
    payload, truncation contribution equal; error: error). -/
theorem decode_resets (old : USB) (data foreign : Bytes) (hu : old.untouched = USB.fresh.untouched) :
    decodeUsb old data foreign = decodeUsb USB.fresh data foreign := by
  unfold decodeUsb
  rw [USB.decode_eq, USB.decode_eq]
  dsimp only
  by_cases hl : data.length < 40
  · have e1 : (usbDecSpec old data).err = true := by unfold usbDecSpec; rw [if_pos hl]
    have e2 : (usbDecSpec USB.fresh data).err = true := by unfold usbDecSpec; rw [if_pos hl]
    rw [e1, e2]
    rfl
  · rw [usbDecSpec_congr old USB.fresh data hu hl]

/-- Non-vacuity of the frame hypothesis: a receiver full of an earlier setup record satisfies it. -/
example : ∃ m : USB, m.setup = true ∧ m.payload = [1, 2] ∧ m.transferType = 2 ∧ m.untouched = USB.fresh.untouched :=
  ⟨{ USB.fresh with setup := true, payload := [1, 2], transferType := 2 }, rfl, rfl, rfl, rfl⟩

/-- … for EVERY receiver: the outcome (error or not, truncation flag) never depends on the receiver,
    and every field DecodeFromBytes assigns is the same as with any other receiver. -/
theorem decode_resets_assigned (a b : USB) (d : GSlice) :
    ∃ oa ob, a.decodeFromBytes d = .ok oa ∧ b.decodeFromBytes d = .ok ob ∧ oa.err = ob.err ∧ oa.trunc = ob.trunc ∧
      (¬ d.len < 40 → { oa.layer with urbInterval := 0, urbStartFrame := 0, urbCopyOfTransferFlags := 0, isoNumDesc := 0 } =
                      { ob.layer with urbInterval := 0, urbStartFrame := 0, urbCopyOfTransferFlags := 0, isoNumDesc := 0 }) := by
  refine ⟨_, _, USB.decode_eq a d, USB.decode_eq b d, (usbDecSpec_err_congr a b d.vis).1, (usbDecSpec_err_congr a b d.vis).2, ?_⟩
  intro hl
  have hl' : ¬ d.vis.length < 40 := hl
  unfold usbDecSpec
  rw [if_neg hl', if_neg hl']
  split
  · rfl
  · split
    · split <;> rfl
    · rfl

/-- DecodeFromBytes leaves the four never-assigned fields alone, on every path. -/
theorem decode_frame (old : USB) (d : GSlice) (o : DecOut USB) (h : old.decodeFromBytes d = .ok o) :
    o.layer.untouched = old.untouched := by
  rw [USB.decode_eq] at h; cases h; exact usbDecSpec_untouched old d.vis

/-- The property's own quantifier: after ANY sequence of earlier packets decoded into the same object
    (successfully or not, any capacities), the next packet decodes exactly as into a fresh object;
    and such a history always exists as a value (no panic on the way). -/
theorem decode_history_resets (hist : List GSlice) (data foreign : Bytes) :
    ∃ m, USB.fresh.after hist = .ok m ∧ decodeUsb m data foreign = decodeUsb USB.fresh data foreign := by
  obtain ⟨m, hm⟩ := USB.after_ok hist USB.fresh
  exact ⟨m, hm, decode_resets m data foreign (USB.after_untouched hist _ _ hm)⟩

/-- The frame is real for values the caller assigned by hand (not reachable by decoding):
    the statement "for every receiver" WITHOUT the frame hypothesis is false. -/
theorem decode_resets_handset_counterexample :
    ¬ (∀ (old : USB) (data foreign : Bytes), decodeUsb old data foreign = decodeUsb USB.fresh data foreign) := by
  intro h
  have := h { USB.fresh with urbInterval := 7 } (List.replicate 40 1) []
  revert this
  decide

/-- What the late error return ("USB data length exceeds packet") leaves in the receiver: every header
    field, Contents and Payload = data[40:] of the REJECTED record (a half-updated receiver; the call
    reports the error and `decode_resets` shows nothing later depends on it). -/
theorem decode_error_receiver (old : USB) (d : GSlice) (hl : ¬ d.len < 40)
    (h14 : ((byteAt d.vis 14).toNat == 0) = false) (h15 : ((byteAt d.vis 15).toNat == 0) = true)
    (hd : leAt d.vis 36 4 > (d.len - 40) % 2 ^ 32) :
    old.decodeFromBytes d = .ok { layer := usbHdr old d.vis, trunc := true, err := true } := by
  rw [USB.decode_eq]
  unfold usbDecSpec
  have hl' : ¬ d.vis.length < 40 := hl
  have hd' : leAt d.vis 36 4 > (d.vis.length - 40) % 2 ^ 32 := hd
  simp only [hl', h14, h15, hd', ↓reduceIte, Bool.false_eq_true]

example : ∃ d : GSlice, ¬ d.len < 40 ∧ ((byteAt d.vis 14).toNat == 0) = false ∧ ((byteAt d.vis 15).toNat == 0) = true ∧
    leAt d.vis 36 4 > (d.len - 40) % 2 ^ 32 :=
  ⟨{ vis := List.replicate 14 1 ++ [45, 0] ++ List.replicate 20 1 ++ [9, 0, 0, 0] ++ [1, 2, 3], tail := [] }, by decide⟩

/-- The short-record error leaves the receiver untouched. -/
theorem decode_error_keeps_receiver (old : USB) (d : GSlice) (hl : d.len < 40) :
    old.decodeFromBytes d = .ok { layer := old, trunc := true, err := true } := by
  rw [USB.decode_eq]; unfold usbDecSpec; rw [if_pos (show d.vis.length < 40 from hl)]

/-- USBRequestBlockSetup: EVERY receiver decodes like a fresh object (all seven fields are assigned). -/
theorem decode_resets_setup (old : Setup) (data foreign : Bytes) :
    decodeSetup old data foreign = decodeSetup Setup.fresh data foreign := by
  unfold decodeSetup
  rw [Setup.decode_eq, Setup.decode_eq]
  dsimp only
  unfold setupDecSpec
  split <;> rfl

/-- USBControl / USBInterrupt / USBBulk: Contents is assigned, Payload is the receiver's. -/
theorem decode_resets_raw (old : Raw) (data foreign : Bytes) (hp : old.payload = Raw.fresh.payload) :
    decodeRaw old data foreign = decodeRaw Raw.fresh data foreign := by
  unfold decodeRaw Raw.decodeFromBytes
  dsimp only
  rw [hp]

example : ({ contents := [1, 2, 3], payload := [] } : Raw).payload = Raw.fresh.payload := rfl

/-- … and after any sequence of packets decoded into a fresh object the Payload is still nil. -/
theorem raw_history_payload_nil (hist : List GSlice) :
    ∃ m, Raw.fresh.after hist = .ok m ∧ m.payload = [] := by
  obtain ⟨m, hm⟩ := Raw.after_ok hist Raw.fresh
  exact ⟨m, hm, Raw.after_payload hist _ _ hm⟩

theorem decode_history_resets_raw (hist : List GSlice) (data foreign : Bytes) :
    ∃ m, Raw.fresh.after hist = .ok m ∧ decodeRaw m data foreign = decodeRaw Raw.fresh data foreign := by
  obtain ⟨m, hm, hp⟩ := raw_history_payload_nil hist
  exact ⟨m, hm, decode_resets_raw m data foreign hp⟩

theorem decode_history_resets_setup (hist : List GSlice) (data foreign : Bytes) :
    ∃ m, Setup.fresh.after hist = .ok m ∧ decodeSetup m data foreign = decodeSetup Setup.fresh data foreign := by
  obtain ⟨m, hm⟩ := Setup.after_ok hist Setup.fresh
  exact ⟨m, hm, decode_resets_setup m data foreign⟩

/-! ### capacity / foreign bytes -/

/-- The result does not depend on capacity or on the bytes between len and cap (C04's "NoCopy / Pool
    give identical results", C02's "depends only on the bytes"). -/
theorem decode_cap_independent (old : USB) (data f1 f2 : Bytes) : decodeUsb old data f1 = decodeUsb old data f2 := by
  unfold decodeUsb; rw [USB.decode_eq, USB.decode_eq]

theorem decode_cap_independent_full (old : USB) (d1 d2 : GSlice) (h : d1.vis = d2.vis) :
    old.decodeFromBytes d1 = old.decodeFromBytes d2 := by
  rw [USB.decode_eq, USB.decode_eq, h]

theorem decode_cap_independent_setup (old : Setup) (d1 d2 : GSlice) (h : d1.vis = d2.vis) :
    old.decodeFromBytes d1 = old.decodeFromBytes d2 := by
  rw [Setup.decode_eq, Setup.decode_eq, h]

theorem decode_cap_independent_raw (old : Raw) (d1 d2 : GSlice) (h : d1.vis = d2.vis) :
    old.decodeFromBytes d1 = old.decodeFromBytes d2 := by
  rw [Raw.decode_eq, Raw.decode_eq, h]

theorem packet_cap_independent (d1 d2 : GSlice) (h : d1.vis = d2.vis) : packetUSB d1 = packetUSB d2 := by
  rw [packetUSB_eq, packetUSB_eq, h]

/-! ### packet path = direct in-place decode -/

/-- The registered decoder `decodeUSB` adds exactly the layer a direct fresh DecodeFromBytes produces,
    SetTruncated exactly when that call did, and hands over to `NextLayerType()` (or returns nil when
    that is LayerTypeZero — an unknown / isochronous transfer type). -/
theorem packet_layer_eq_direct (d : GSlice) :
    decodeUSBFn d = .ok (decodingLayerDecoder (usbDecSpec USB.fresh d.vis) LayerTypeUSB
                          (usbDecSpec USB.fresh d.vis).layer.nextLayerType) := by
  unfold decodeUSBFn; rw [USB.decode_eq, Res.bind_ok]; rfl

theorem packet_layer_eq_direct_setup (d : GSlice) :
    decodeSetupFn d = .ok (decodingLayerDecoder (setupDecSpec Setup.fresh d.vis) LayerTypeUSBRequestBlockSetup LayerTypePayload) := by
  unfold decodeSetupFn; rw [Setup.decode_eq, Res.bind_ok]; rfl

theorem packet_layer_eq_direct_raw (t : Nat) (d : GSlice) :
    decodeRawFn t d = .ok ({ acts := [.addLayer t], tail := .nextLayerType LayerTypePayload },
                           some { contents := d.vis, payload := [] }) := by
  unfold decodeRawFn; rw [Raw.decode_eq, Res.bind_ok]; rfl

/-- The whole packet: first layer = the direct decode of the packet data; the layer behind it = the
    direct fresh decode of the USB layer's Payload as the type `NextLayerType()` names (the setup
    packet, or the transfer type's layer, or nothing); a failure of either decoder ends the packet with
    a DecodeFailure holding exactly the undecoded bytes and sets the error flag; otherwise no error. -/
theorem packet_eq_direct (d : GSlice) : packetUSB d = .ok (packetUSBSpec d.vis) := packetUSB_eq d

/-- An error layer is present iff the last layer is the DecodeFailure (C01's "the packet says so"). -/
theorem packet_failed_iff (d : GSlice) (p : Pkt) (h : packetUSB d = .ok p) :
    p.failed = true ↔ ∃ b, p.layers.getLast? = some (.failure b) := by
  rw [packetUSB_eq] at h
  cases h
  unfold packetUSBSpec
  simp only
  split
  · simp
  · split
    · simp [Pkt.empty]
    · split
      · unfold nextSetupSpec
        split
        · simp [Pkt.empty]
        · split
          · simp
          · unfold nextPayload
            split <;> simp [Pkt.empty]
      · unfold nextRawSpec
        split <;> simp [Pkt.empty]

/-- `USB.NextLayerType` over the REGENERATED transfer-type constants: interrupt / control / bulk have a
    layer, every other value of the byte (isochronous included) has none. -/
theorem next_layer_table :
    (transportLayerType 1 = LayerTypeUSBInterrupt ∧ transportLayerType 2 = LayerTypeUSBControl ∧
     transportLayerType 3 = LayerTypeUSBBulk) ∧
    ∀ t, t ≠ 1 → t ≠ 2 → t ≠ 3 → transportLayerType t = LayerTypeZero := by
  refine ⟨by decide, ?_⟩
  intro t h1 h2 h3
  unfold transportLayerType
  rw [if_neg (show ¬ t = Gp.Gen.Usb.usbTransportTypeInterrupt from h1),
      if_neg (show ¬ t = Gp.Gen.Usb.usbTransportTypeControl from h2),
      if_neg (show ¬ t = Gp.Gen.Usb.usbTransportTypeBulk from h3)]

/-- The setup packet wins over the transfer type. -/
theorem next_layer_setup_first (m : USB) (h : m.setup = true) : m.nextLayerType = LayerTypeUSBRequestBlockSetup := by
  unfold USB.nextLayerType; rw [if_pos h]

/-- Direction is always one of In / Out after a decode (never the zero value "unknown"), over the
    regenerated constants. -/
theorem direction_in_or_out (old : USB) (v : Bytes) :
    (usbHdr old v).direction = Gp.Gen.Usb.usbDirectionTypeIn ∨ (usbHdr old v).direction = Gp.Gen.Usb.usbDirectionTypeOut := by
  simp only [usbHdr]
  split
  · exact Or.inl rfl
  · exact Or.inr rfl

end Gp.C05.Usb
