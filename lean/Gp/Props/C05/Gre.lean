import Gp.Lemmas.Layers.Gre
/-
  C05 — "Preallocated-layer decoding equals packet decoding and keeps no stale state": the GRE
  layer (engine `lgre`).  DecodeFromBytes is modelled as `old → data → foreign → Res (new × truncated)`.
-/
namespace Gp.C05.Gre
open Gp Gp.Gre

/-- No stale state: decoding into an object that holds ANY earlier value gives exactly what decoding
    into a fresh object gives (same error, or same fields, contents, payload and truncation flag). -/
theorem decode_resets (old : Layer) (data foreign : Bytes) :
    decodeGre old data foreign = decodeGre Layer.fresh data foreign := by
  rw [decode_cases, decode_cases]

/-- The result does not depend on the capacity of the packet buffer nor on the bytes that follow the
    packet in it (copying path, NoCopy, Pool): no read beyond `len(data)` influences the outcome. -/
theorem decode_cap_independent (old : Layer) (data foreign : Bytes) :
    decodeGre old data foreign = decodeGre old data [] := by
  rw [decode_cases, decode_cases]

/-- …hence it is a function of the bytes alone. -/
theorem decode_depends_only_on_bytes (old₁ old₂ : Layer) (data f₁ f₂ : Bytes) :
    decodeGre old₁ data f₁ = decodeGre old₂ data f₂ := by
  rw [decode_cases, decode_cases]

/-- A successful decode never sets the truncation flag (every error path sets it: `Res.err`). -/
theorem decode_ok_not_truncated (old : Layer) (data foreign : Bytes) (l : Layer) (t : Bool)
    (h : decodeGre old data foreign = .ok (l, t)) : t = false := by
  rw [decode_cases] at h
  split at h
  · cases h
  · split at h
    · simp only [Res.ok.injEq, Prod.mk.injEq] at h; exact h.2.symm
    · cases h

/-- Whole histories: decoding ANY sequence of packets into the same object — whatever a failed call
    leaves behind (`afterErr` arbitrary), whatever capacities the buffers have — gives, for every
    packet, the result of decoding it into a fresh object from an exact-size copy. -/
theorem decode_sequence_no_stale_state (afterErr : Layer → Bytes → Layer) (start : Layer)
    (ps : List (Bytes × Bytes)) :
    decodeSeq afterErr start ps = ps.map (fun p => decodeGre Layer.fresh p.1 []) := by
  induction ps generalizing start with
  | nil => rfl
  | cons p rest ih =>
    obtain ⟨data, foreign⟩ := p
    simp only [decodeSeq, List.map_cons]
    rw [ih]
    congr 1
    exact decode_depends_only_on_bytes start Layer.fresh data foreign []

/-- Packet decoding equals preallocated-layer decoding: the decoder NewPacket uses (decodeGRE) adds
    exactly the layer DecodeFromBytes computes — into any reused object, from any buffer — with the
    same truncation contribution, fails exactly when it fails, and hands the payload to the decoder
    of NextLayerType. -/
theorem packet_decoder_equals_decodeFromBytes (old : Layer) (data f₁ f₂ : Bytes) :
    decodeGREPkt data f₁ =
      (decodeGre old data f₂ >>= fun (x : Layer × Bool) =>
        pure { added := x.1, truncated := x.2, setCalls := [],
               tail := if nextLayerType x.1 = 0 then Tail.done else Tail.next (nextLayerType x.1) x.1.payload }) := by
  unfold decodeGREPkt
  rw [decode_depends_only_on_bytes Layer.fresh old data f₁ f₂]

/- non-vacuity: an object that held a layer with every optional field and two SREs, reused for a
   bare 4-byte header: nothing of the old value survives. -/
example : decodeGre { Layer.fresh with
      checksumPresent := true, routingPresent := true, keyPresent := true, seqPresent := true,
      ackPresent := true, checksum := 7, offset := 8, key := 9, seq := 10, ack := 11, flags := 16,
      routing := [⟨1, 2, 1, [0xaa]⟩, ⟨5, 0, 0, []⟩], contents := [1, 2, 3], payload := [4] }
    [0, 0, 0x86, 0xdd, 0x60] [] =
    .ok ({ Layer.fresh with contents := [0, 0, 0x86, 0xdd], payload := [0x60], protocol := 0x86dd }, false) := by
  decide

end Gp.C05.Gre
