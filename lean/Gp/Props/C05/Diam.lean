import Gp.Lemmas.Layers.Diam
/-
  C05 (engine `ldiam`) — decoding Diameter into a re-used object leaves no stale state, and the
  result is a function of the visible bytes alone (capacity / foreign bytes never matter).

  Model: `Gp/Model/Layers/Diam.lean`.  The receiver before the call is an explicit argument `old`
  of `Diameter.decodeFromBytes`; every Go assignment is an explicit update of it (d.AVPs is re-made
  with `[]DiameterAVP{}`, BaseLayer is replaced as a whole: Payload becomes nil).  Only
  property-level theorems here; helpers are in `Gp/Lemmas/Layers/Diam.lean`.
-/
namespace Gp.C05.Diam
open Gp Gp.Arp Gp.Diam

/-- The outcome of DecodeFromBytes is the specification `diamDecSpec`: on success a function of the
    visible bytes (and the Grouped table) only. -/
theorem decode_fn_of_bytes (grp : Nat → Nat → Bool) (old : Diameter) (data foreign : Bytes) :
    old.decodeFromBytes grp { vis := data, tail := foreign } = .ok (diamDecSpec grp old data) :=
  decode_refines grp old data foreign

/-- No stale state: decoding into a re-used object = decoding into a fresh one (all fields, the AVP
    list with its nested Grouped lists, Contents, Payload, truncation contribution on success; an
    error otherwise). -/
theorem decode_resets (grp : Nat → Nat → Bool) (old : Diameter) (data foreign : Bytes) :
    decodeDiam grp old data foreign = decodeDiam grp Diameter.fresh data foreign := by
  unfold decodeDiam
  rw [decode_refines grp old, decode_refines grp Diameter.fresh]
  obtain ⟨x1, x2, x3⟩ := diamDecSpec_indep grp old Diameter.fresh data
  simp only
  by_cases he : (diamDecSpec grp old data).err = true
  · rw [if_pos he, if_pos (by rw [← x1]; exact he)]
  · rw [if_neg he, if_neg (by rw [← x1]; exact he), x2, x3 (by simpa using he)]

/-- What a FAILED decode leaves in the receiver: it never sets the truncation flag, and the receiver
    is untouched (input shorter than 20 bytes), or has only Version overwritten (version ≠ 1), or
    only Version and MessageLength (length below 20 / beyond the input) — flags, codes, ids, AVPs,
    Contents and Payload are still those of the previous packet.  (Not a violation: the call reports
    the error, no layer is added, and `decode_resets` shows the next successful decode does not
    depend on what is left here.) -/
theorem decode_error_receiver (grp : Nat → Nat → Bool) (old : Diameter) (d : GSlice) (o : DecOut Diameter)
    (h : old.decodeFromBytes grp d = .ok o) (he : o.err = true) :
    o.trunc = false ∧
    (o.layer = old ∨ o.layer = { old with version := (byteAt d.vis 0).toNat } ∨
     o.layer = { old with version := (byteAt d.vis 0).toNat, messageLength := u24At d.vis 1 }) := by
  obtain ⟨v, t⟩ := d
  rw [decode_refines grp old v t] at h
  cases h
  exact diamDecSpec_err grp old v he

/-- Capacity independence (what C04 "NoCopy/Pool give identical results" and C02 "depends only on
    the bytes" need from this layer): spare capacity and its contents never influence the result —
    MessageLength and every AVP length are checked against the LENGTH of the slice. -/
theorem decode_cap_independent (grp : Nat → Nat → Bool) (old : Diameter) (data foreign : Bytes) :
    decodeDiam grp old data foreign = decodeDiam grp old data [] := by
  unfold decodeDiam
  rw [decode_refines grp old data foreign, decode_refines grp old data []]

/-- … for the full outcome, including the receiver left by a failed call. -/
theorem decode_cap_independent_full (grp : Nat → Nat → Bool) (old : Diameter) (data foreign : Bytes) :
    old.decodeFromBytes grp ⟨data, foreign⟩ = old.decodeFromBytes grp ⟨data, []⟩ := by
  rw [decode_refines grp old data foreign, decode_refines grp old data []]

/-- The packet path agrees with the preallocated path: `decodeDiameter` adds exactly the layer a
    direct `DecodeFromBytes` into ANY re-used object yields, with the same truncation contribution
    (SetTruncated reaches the packet exactly when the direct call sets it); the layer is added
    exactly when that decode succeeds, followed by SetApplicationLayer; no NextDecoder call. -/
theorem packet_layer_eq_direct (grp : Nat → Nat → Bool) (old : Diameter) (d : GSlice) :
    ∃ o, old.decodeFromBytes grp d = .ok o ∧
      ((o.err = true ∧ o.trunc = false ∧ decodeDiameterFn grp d = .ok ({ acts := [], tail := .fail }, none)) ∨
       (o.err = false ∧ decodeDiameterFn grp d =
          .ok ({ acts := (if o.trunc then [DAct.setTruncated] else []) ++
                           [.addLayer LayerTypeDiameter, .setApplicationLayer], tail := .done },
               some o.layer))) := by
  obtain ⟨v, t⟩ := d
  refine ⟨_, decode_refines grp old v t, ?_⟩
  obtain ⟨x1, x2, x3⟩ := diamDecSpec_indep grp old Diameter.fresh v
  unfold decodeDiameterFn
  rw [decode_refines grp _ v t, Res.bind_ok]
  by_cases he : (diamDecSpec grp old v).err = true
  · have hf : (diamDecSpec grp Diameter.fresh v).err = true := by rw [← x1]; exact he
    have ht := (diamDecSpec_err grp Diameter.fresh v hf).1
    refine Or.inl ⟨he, (diamDecSpec_err grp old v he).1, ?_⟩
    simp only [hf, ht, if_true]
    rfl
  · have he' : (diamDecSpec grp old v).err = false := by simpa using he
    have hf : (diamDecSpec grp Diameter.fresh v).err = false := by rw [← x1]; exact he'
    refine Or.inr ⟨he', ?_⟩
    simp only [hf, ← x2, ← x3 he']
    rfl

/-- The DecodingLayerParser run does not depend on what its Diameter object held before … -/
theorem dlp_resets (grp : Nat → Nat → Bool) (a b : Diameter) (d : GSlice) :
    (∃ oa ob, Diam.dlpDecodeLayers grp a d = .ok oa ∧ Diam.dlpDecodeLayers grp b d = .ok ob ∧
      oa.code = ob.code ∧ oa.decoded = ob.decoded ∧ oa.trunc = ob.trunc ∧
      (oa.code = 0 → oa.layer = ob.layer)) := by
  obtain ⟨v, t⟩ := d
  obtain ⟨x1, x2, x3⟩ := diamDecSpec_indep grp a b v
  unfold Diam.dlpDecodeLayers
  rw [decode_refines grp a v t, decode_refines grp b v t, Res.bind_ok, Res.bind_ok]
  by_cases he : (diamDecSpec grp a v).err = true
  · have hb : (diamDecSpec grp b v).err = true := by rw [← x1]; exact he
    simp only [he, hb, if_true]
    exact ⟨_, _, rfl, rfl, rfl, rfl, x2, fun h => by cases h⟩
  · have he' : (diamDecSpec grp a v).err = false := by simpa using he
    have hb : (diamDecSpec grp b v).err = false := by rw [← x1]; exact he'
    simp only [he', hb, ← x3 he', Bool.false_eq_true, if_false]
    split
    · exact ⟨_, _, rfl, rfl, rfl, rfl, x2, fun _ => rfl⟩
    · exact ⟨_, _, rfl, rfl, rfl, rfl, x2, fun _ => rfl⟩

/-- … nor on the capacity / foreign bytes of the input. -/
theorem dlp_cap_independent (grp : Nat → Nat → Bool) (a : Diameter) (v t1 t2 : Bytes) :
    Diam.dlpDecodeLayers grp a ⟨v, t1⟩ = Diam.dlpDecodeLayers grp a ⟨v, t2⟩ := by
  unfold Diam.dlpDecodeLayers
  rw [decode_refines grp a v t1, decode_refines grp a v t2]

/-- Every successful decode leaves an empty Payload and the parser stops after this layer. -/
theorem decoded_payload_empty (grp : Nat → Nat → Bool) (old : Diameter) (d : GSlice) (o : DecOut Diameter)
    (h : old.decodeFromBytes grp d = .ok o) (he : o.err = false) : o.layer.layerPayload = [] := by
  obtain ⟨v, t⟩ := d
  rw [decode_refines grp old v t] at h
  cases h
  unfold diamDecSpec at he ⊢
  by_cases h1 : v.length < 20
  · rw [if_pos h1] at he; cases he
  · rw [if_neg h1] at he ⊢
    by_cases h2 : (byteAt v 0).toNat ≠ 1
    · rw [if_pos h2] at he; cases he
    · rw [if_neg h2] at he ⊢
      by_cases h3 : u24At v 1 < 20 ∨ v.length < u24At v 1
      · rw [if_pos h3] at he; cases he
      · rw [if_neg h3]; rfl

/-! Non-vacuity of the hypotheses of `decode_error_receiver`: a 3-byte input is an error. -/
example (grp : Nat → Nat → Bool) (old : Diameter) :
    ∃ o, old.decodeFromBytes grp ⟨[1, 2, 3], [7]⟩ = .ok o ∧ o.err = true :=
  ⟨{ layer := old, trunc := false, err := true }, by simp [Diameter.decodeFromBytes, GSlice.len], rfl⟩

end Gp.C05.Diam
