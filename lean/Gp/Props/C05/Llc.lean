import Gp.Lemmas.Layers.LlcDlp
/-
  C05 (engine `lllc`) — LLC, SNAP and STP keep no stale state; results do not depend on the capacity
  of the packet buffer nor on the bytes behind the input.

  `X.decodeFromBytes old d` takes the receiver BEFORE the call (`old`) and the input as a Go slice
  with capacity (`d.vis` = data, `d.tail` = foreign bytes between len and cap).  Every field the Go
  code assigns is assigned in the model by an explicit update of `old`, so a field that the code set
  on some paths only would survive from `old` — the theorems below say that none does on success.
-/
namespace Gp.C05.Llc
open Gp Gp.Llc

/-! ## LLC -/

/-- The outcome is a function of the receiver and the visible input bytes alone (no capacity, no
    foreign bytes) … -/
theorem decode_fn_of_bytes_llc (old : LLC) (d : GSlice) (h : 3 ≤ d.len) :
    old.decodeFromBytes d = .ok (llcDecSpec old d.vis) := LLC.decode_long old d h

/-- … and a SUCCESSFUL decode does not depend on the receiver either: all fields, Contents, Payload
    and the truncation contribution are those of a decode into any other object. -/
theorem decode_ok_indep_llc (o1 o2 : LLC) (d : GSlice) (r : DecOut LLC)
    (h : o1.decodeFromBytes d = .ok r) (he : r.err = false) : o2.decodeFromBytes d = .ok r := by
  by_cases hs : d.len < 3
  · rw [LLC.decode_short o1 d hs] at h; cases h; cases he
  · rw [LLC.decode_long o1 d (by omega)] at h; cases h
    rw [LLC.decode_long o2 d (by omega), llcDecSpec_ok_indep o1 o2 d.vis he]

/-- No stale state: decoding into a re-used object = decoding into a fresh one. -/
theorem decode_resets (old : LLC) (data foreign : Bytes) :
    decodeLlc old data foreign = decodeLlc LLC.fresh data foreign := by
  unfold decodeLlc
  by_cases h : GSlice.len ⟨data, foreign⟩ < 3
  · rw [LLC.decode_short old _ h, LLC.decode_short LLC.fresh _ h]; rfl
  · rw [LLC.decode_long old _ (by omega), LLC.decode_long LLC.fresh _ (by omega)]
    simp only
    have herr := llcDecSpec_err_indep old LLC.fresh data
    cases he : (llcDecSpec old data).err
    · rw [← herr, he, llcDecSpec_ok_indep old LLC.fresh data he]
    · rw [← herr, he]; rfl

/-- A failed LLC decode never sets the truncation flag and leaves Contents/Payload as they were; the
    five header fields may already have been overwritten (llc.go assigns them before the second
    length check) — "same as a fresh object" is therefore claimed for successful decodes, as the
    parser stops at the error and reports no layer. -/
theorem decode_error_keeps_base (old : LLC) (d : GSlice) (o : DecOut LLC)
    (h : old.decodeFromBytes d = .ok o) (he : o.err = true) :
    o.trunc = false ∧ o.layer.contents = old.contents ∧ o.layer.payload = old.payload := by
  by_cases hs : d.len < 3
  · rw [LLC.decode_short old d hs] at h; cases h; exact ⟨rfl, rfl, rfl⟩
  · rw [LLC.decode_long old d (by omega)] at h
    cases h
    unfold llcDecSpec at he ⊢
    simp only at he ⊢
    split at he
    · split at he
      · rename_i hc h4; rw [if_pos hc, if_pos h4]; exact ⟨rfl, rfl, rfl⟩
      · cases he
    · cases he

/-- Capacity independence (what C04 "NoCopy/Pool give identical results" and C02 "depends only on
    the bytes" need from this layer): spare capacity and its contents never influence the result. -/
theorem decode_cap_independent (old : LLC) (data foreign : Bytes) :
    decodeLlc old data foreign = decodeLlc old data [] := by
  unfold decodeLlc
  by_cases h : GSlice.len ⟨data, foreign⟩ < 3
  · rw [LLC.decode_short old _ h, LLC.decode_short old ⟨data, []⟩ h]
  · have h' : 3 ≤ GSlice.len ⟨data, []⟩ := by
      have : GSlice.len ⟨data, []⟩ = GSlice.len ⟨data, foreign⟩ := rfl
      omega
    rw [LLC.decode_long old _ (by omega), LLC.decode_long old ⟨data, []⟩ h']

/-- The packet path agrees with the preallocated path: the layer `decodeLLC` adds to a packet is
    the one a direct `DecodeFromBytes` into any re-used object yields; it is added exactly when
    that decode succeeds, and the next decoder is `LayerType(NextLayerType())`. -/
theorem packet_layer_eq_direct (old : LLC) (d : GSlice) :
    ∃ o, old.decodeFromBytes d = .ok o ∧
      ((o.err = true ∧ ∃ b, decodeLLCFn d = .ok (b, none) ∧ b.tail = .fail ∧ b.acts = []) ∨
       (o.err = false ∧ o.trunc = false ∧ ∃ b, decodeLLCFn d = .ok (b, some o.layer) ∧
          b.acts = [Act.addLayer LayerTypeLLC] ∧ b.tail = .nextLayerType o.layer.nextLayerType)) := by
  by_cases hs : d.len < 3
  · refine ⟨_, LLC.decode_short old d hs, Or.inl ⟨rfl, ?_⟩⟩
    unfold decodeLLCFn
    rw [LLC.decode_short _ d hs, Res.bind_ok]
    exact ⟨_, rfl, rfl, rfl⟩
  · have hl : 3 ≤ d.len := by omega
    refine ⟨_, LLC.decode_long old d hl, ?_⟩
    have herr := llcDecSpec_err_indep old LLC.fresh d.vis
    have htr := llcDecSpec_trunc LLC.fresh d.vis
    unfold decodeLLCFn
    rw [LLC.decode_long _ d hl, Res.bind_ok]
    cases he : (llcDecSpec old d.vis).err
    · right
      have he' : (llcDecSpec LLC.fresh d.vis).err = false := by rw [← herr]; exact he
      refine ⟨rfl, llcDecSpec_trunc old d.vis, ?_⟩
      rw [llcDecSpec_ok_indep old LLC.fresh d.vis he]
      simp only [he', htr, pure]
      exact ⟨_, rfl, rfl, rfl⟩
    · left
      have he' : (llcDecSpec LLC.fresh d.vis).err = true := by rw [← herr]; exact he
      refine ⟨rfl, ?_⟩
      simp only [he', htr, pure]
      exact ⟨_, rfl, rfl, rfl⟩

/-! ## SNAP -/

theorem decode_fn_of_bytes_snap (old : SNAP) (d : GSlice) (h : 5 ≤ d.len) :
    old.decodeFromBytes d = .ok (snapDecSpec d.vis) := SNAP.decode_long old d h

theorem decode_resets_snap (old : SNAP) (data foreign : Bytes) :
    decodeSnap old data foreign = decodeSnap SNAP.fresh data foreign := by
  unfold decodeSnap
  by_cases h : GSlice.len ⟨data, foreign⟩ < 5
  · rw [SNAP.decode_short old _ h, SNAP.decode_short SNAP.fresh _ h]; rfl
  · rw [SNAP.decode_long old _ (by omega), SNAP.decode_long SNAP.fresh _ (by omega)]

/-- A failed SNAP decode leaves the receiver exactly as it was and does not set the truncation flag. -/
theorem decode_error_keeps_receiver_snap (old : SNAP) (d : GSlice) (o : DecOut SNAP)
    (h : old.decodeFromBytes d = .ok o) (he : o.err = true) : o.layer = old ∧ o.trunc = false := by
  by_cases hs : d.len < 5
  · rw [SNAP.decode_short old d hs] at h; cases h; exact ⟨rfl, rfl⟩
  · rw [SNAP.decode_long old d (by omega)] at h
    cases h; cases he

theorem decode_cap_independent_snap (old : SNAP) (data foreign : Bytes) :
    decodeSnap old data foreign = decodeSnap old data [] := by
  unfold decodeSnap
  by_cases h : GSlice.len ⟨data, foreign⟩ < 5
  · rw [SNAP.decode_short old _ h, SNAP.decode_short old ⟨data, []⟩ h]
  · have h' : 5 ≤ GSlice.len ⟨data, []⟩ := by
      have : GSlice.len ⟨data, []⟩ = GSlice.len ⟨data, foreign⟩ := rfl
      omega
    rw [SNAP.decode_long old _ (by omega), SNAP.decode_long old ⟨data, []⟩ h']

/-- The packet path of SNAP: the added layer is the directly decoded one; next decoder = the
    EthernetType `s.Type`. -/
theorem packet_layer_eq_direct_snap (old : SNAP) (d : GSlice) :
    ∃ o, old.decodeFromBytes d = .ok o ∧
      ((o.err = true ∧ ∃ b, decodeSNAPFn d = .ok (b, none) ∧ b.tail = .fail ∧ b.acts = []) ∨
       (o.err = false ∧ o.trunc = false ∧ ∃ b, decodeSNAPFn d = .ok (b, some o.layer) ∧
          b.acts = [Act.addLayer LayerTypeSNAP] ∧ b.tail = .nextEthType o.layer.type)) := by
  by_cases hs : d.len < 5
  · refine ⟨_, SNAP.decode_short old d hs, Or.inl ⟨rfl, ?_⟩⟩
    unfold decodeSNAPFn
    rw [SNAP.decode_short _ d hs, Res.bind_ok]
    exact ⟨_, rfl, rfl, rfl⟩
  · have hl : 5 ≤ d.len := by omega
    refine ⟨_, SNAP.decode_long old d hl, Or.inr ⟨rfl, rfl, ?_⟩⟩
    unfold decodeSNAPFn
    rw [SNAP.decode_long _ d hl, Res.bind_ok]
    exact ⟨_, rfl, rfl, rfl⟩

/-! ## STP -/

theorem decode_fn_of_bytes_stp (old : STP) (d : GSlice) (h : 35 ≤ d.len) :
    old.decodeFromBytes d = .ok (stpDecSpec d.vis) := STP.decode_long old d h

theorem decode_resets_stp (old : STP) (data foreign : Bytes) :
    decodeStp old data foreign = decodeStp STP.fresh data foreign := by
  unfold decodeStp
  by_cases h : GSlice.len ⟨data, foreign⟩ < 35
  · rw [STP.decode_short old _ h, STP.decode_short STP.fresh _ h]; rfl
  · rw [STP.decode_long old _ (by omega), STP.decode_long STP.fresh _ (by omega)]

/-- A failed STP decode leaves the receiver as it was; it DOES set the truncation flag (stp.go:54),
    identically for a re-used and a fresh object. -/
theorem decode_error_keeps_receiver_stp (old : STP) (d : GSlice) (o : DecOut STP)
    (h : old.decodeFromBytes d = .ok o) (he : o.err = true) : o.layer = old ∧ o.trunc = true := by
  by_cases hs : d.len < 35
  · rw [STP.decode_short old d hs] at h; cases h; exact ⟨rfl, rfl⟩
  · rw [STP.decode_long old d (by omega)] at h
    cases h; cases he

theorem decode_cap_independent_stp (old : STP) (data foreign : Bytes) :
    decodeStp old data foreign = decodeStp old data [] := by
  unfold decodeStp
  by_cases h : GSlice.len ⟨data, foreign⟩ < 35
  · rw [STP.decode_short old _ h, STP.decode_short old ⟨data, []⟩ h]
  · have h' : 35 ≤ GSlice.len ⟨data, []⟩ := by
      have : GSlice.len ⟨data, []⟩ = GSlice.len ⟨data, foreign⟩ := rfl
      omega
    rw [STP.decode_long old _ (by omega), STP.decode_long old ⟨data, []⟩ h']

/-- The packet path of STP (`decodeSTP` = `decodingLayerDecoder`): a failed decode sets the packet's
    truncation flag and adds nothing; otherwise the directly decoded layer is added and decoding
    continues with LayerTypePayload. -/
theorem packet_layer_eq_direct_stp (old : STP) (d : GSlice) :
    ∃ o, old.decodeFromBytes d = .ok o ∧
      ((o.err = true ∧ ∃ b, decodeSTPFn d = .ok (b, none) ∧ b.tail = .fail ∧ b.acts = [Act.setTruncated]) ∨
       (o.err = false ∧ o.trunc = false ∧ ∃ b, decodeSTPFn d = .ok (b, some o.layer) ∧
          b.acts = [Act.addLayer LayerTypeSTP] ∧ b.tail = .nextLayerType LayerTypePayload)) := by
  by_cases hs : d.len < 35
  · refine ⟨_, STP.decode_short old d hs, Or.inl ⟨rfl, ?_⟩⟩
    unfold decodeSTPFn
    rw [STP.decode_short _ d hs, Res.bind_ok]
    exact ⟨_, rfl, rfl, rfl⟩
  · have hl : 35 ≤ d.len := by omega
    refine ⟨_, STP.decode_long old d hl, Or.inr ⟨rfl, rfl, ?_⟩⟩
    unfold decodeSTPFn
    rw [STP.decode_long _ d hl, Res.bind_ok]
    exact ⟨_, rfl, rfl, rfl⟩

/-! ## The parser over the three layers (one object per type; LLC / SNAP(type 0) / LLC re-uses one) -/

/-- No stale state through `DecodingLayerParser.DecodeLayers`: whatever the three layer objects held
    from earlier packets, the run returns the same error code, the same list of decoded types, the
    same truncation flag, and every layer object whose type is in that list holds the same value
    (`DlpAgree`).  (An object whose type was not decoded keeps its old value, or — LLC — a half
    updated one after a failed decode; the caller is told by the list not to read it.) -/
theorem dlp_resets (l1 l2 : LLC) (s1 s2 : SNAP) (p1 p2 : STP) (d : GSlice) :
    ∃ r1 r2 c, dlpDecodeLayers l1 s1 p1 d = .ok (r1, c) ∧ dlpDecodeLayers l2 s2 p2 d = .ok (r2, c) ∧
      DlpAgree r1 r2 :=
  dlpLoop_agree _ _ _ _ _ ⟨rfl, rfl, fun h => absurd h (List.not_mem_nil), fun h => absurd h (List.not_mem_nil),
    fun h => absurd h (List.not_mem_nil)⟩

/-- … and it does not depend on the capacity of the packet buffer or the bytes behind the input. -/
theorem dlp_cap_independent (llc : LLC) (snap : SNAP) (stp : STP) (v t1 t2 : Bytes) :
    dlpDecodeLayers llc snap stp { vis := v, tail := t1 } = dlpDecodeLayers llc snap stp { vis := v, tail := t2 } :=
  dlpLoop_cap _ _ _ v t1 t2

/-- Non-vacuity: LLC / SNAP with type 0 (= LLC) / LLC / BPDU prefix — the parser's single LLC object is
    written twice in one run and ends up holding the inner header. -/
example :
    (match dlpDecodeLayers LLC.fresh SNAP.fresh STP.fresh
        { vis := [0xaa, 0xaa, 0x03, 1, 2, 3, 0x00, 0x00, 0x42, 0x42, 0x03, 0x00, 0x00], tail := [] } with
     | .ok (s, c) => some (s.decoded, c, s.llc.dsap, s.snap.org, s.trunc)
     | _ => none) = some ([22, 23, 22], 1, 0x42, [1, 2, 3], true) := by decide

/-! ## Non-vacuity: receivers full of stale data, spare capacity full of foreign bytes -/

example :
    let stale : LLC := { contents := [1], payload := [2, 3], dsap := 0xfe, ig := true, ssap := 0xfe, cr := true, control := 0xffff }
    decodeLlc stale [0xaa, 0xaa, 0x03, 0x09] [0xEE, 0xEE] =
      .ok ({ contents := [0xaa, 0xaa, 0x03], payload := [0x09], dsap := 0xaa, ig := false, ssap := 0xaa,
             cr := false, control := 3 }, false) ∧
    decodeLlc stale [0x04, 0x05, 0x10, 0x22] [0xEE] =
      .ok ({ contents := [0x04, 0x05, 0x10, 0x22], payload := [], dsap := 4, ig := false, ssap := 4,
             cr := true, control := 0x1022 }, false) := by
  decide

/-- The half-updated receiver after a failed LLC decode (`decode_error_keeps_base` is sharp). -/
example :
    let stale : LLC := { contents := [1], payload := [2, 3], dsap := 0xfe, ig := true, ssap := 0xfe, cr := true, control := 0xffff }
    stale.decodeFromBytes { vis := [0x04, 0x05, 0x10], tail := [] } =
      .ok { layer := { stale with dsap := 4, ig := false, ssap := 4, cr := true, control := 0x10 }, trunc := false, err := true } := by
  decide

end Gp.C05.Llc
