import Gp.Lemmas.Layers.Ip4
/-
  C05 (no stale state in reused layer objects; result depends only on the bytes) — layer IPv4
  (layers/ip4.go, engine `lip4`), for the tree with fix lip4-1 (`ip.Padding = nil` in
  DecodeFromBytes).  The unpatched code is `Orig.decodeIp4`: its defect is the
  machine-checked counterexample below.
-/
namespace Gp.C05.Ip4
open Gp Gp.Ip4

/-- Decoding into a reused object gives the same result as decoding into a fresh one: same
    error, same truncation contribution and — on success — the same value of EVERY field
    (contents and payload included), for every previous state `old` of the object. -/
theorem decode_resets (old : Layer) (data foreign : Bytes) :
    ∃ o o', decodeIp4 old data foreign = .ok o ∧ decodeIp4 fresh data foreign = .ok o' ∧
      o.err = o'.err ∧ o.trunc = o'.trunc ∧ (o.err = false → o.layer = o'.layer) :=
  ⟨_, _, decodeWith_eq_spec true old data foreign, decodeWith_eq_spec true fresh data foreign,
    decodeSpec_old_indep old fresh data⟩

/-- The result does not depend on the capacity of the data slice nor on the bytes beyond its
    length (NoCopy / Pool / DecodingLayerParser on a larger buffer). -/
theorem decode_cap_independent (old : Layer) (data foreign foreign' : Bytes) :
    decodeIp4 old data foreign = decodeIp4 old data foreign' := by
  simp [decodeIp4, decodeWith_eq_spec]

/-- A whole history of packets decoded into one object: the last result equals the result of
    decoding the last packet into a fresh object. -/
theorem decode_history (history : List (Bytes × Bytes)) (data foreign : Bytes) :
    let old := history.foldl (fun l p => match decodeIp4 l p.1 p.2 with | .ok o => o.layer | _ => l) fresh
    ∃ o o', decodeIp4 old data foreign = .ok o ∧ decodeIp4 fresh data [] = .ok o' ∧
      o.err = o'.err ∧ o.trunc = o'.trunc ∧ (o.err = false → o.layer = o'.layer) := by
  intro old
  obtain ⟨o, o', h1, h2, h3⟩ := decode_resets old data foreign
  exact ⟨o, o', h1, by rw [decode_cap_independent fresh data [] foreign]; exact h2, h3⟩

/-- The UNPATCHED code keeps stale state: after a packet whose options end with an
    end-of-list option followed by padding aa bb cc, a packet without options decodes with
    Padding = aa bb cc instead of empty. -/
theorem decode_resets_counterexample_unpatched :
    ¬ ∀ (old : Layer) (data : Bytes), ∀ o o', Orig.decodeIp4 old data [] = .ok o →
        Orig.decodeIp4 fresh data [] = .ok o' → o.err = false → o.layer = o'.layer := by
  intro h
  have := h { padding := [0xaa, 0xbb, 0xcc] }
    [0x45, 0, 0, 20, 0, 0, 0, 0, 64, 17, 0, 0, 1, 2, 3, 4, 5, 6, 7, 8] _ _
    (decodeWith_eq_spec false _ _ _) (decodeWith_eq_spec false _ _ _)
  revert this
  decide

/-- What the unpatched code does guarantee: only Padding can be stale. -/
theorem decode_resets_partial_unpatched (old : Layer) (data foreign : Bytes) (hp : old.padding = []) :
    ∃ o o', Orig.decodeIp4 old data foreign = .ok o ∧ Orig.decodeIp4 fresh data foreign = .ok o' ∧
      o.err = o'.err ∧ o.trunc = o'.trunc ∧ (o.err = false → o.layer = o'.layer) :=
  ⟨_, _, decodeWith_eq_spec false old data foreign, decodeWith_eq_spec false fresh data foreign,
    decodeSpec_old_indep_orig old fresh data hp⟩

/-- Non-vacuity of `decode_resets`: a dirty old object and a packet with options. -/
example : (decodeIp4 { padding := [1, 2, 3], options := [⟨7, 4, [1, 2]⟩], version := 9 }
    [0x46, 0, 0, 25, 0, 0, 0, 0, 64, 17, 0, 0, 1, 2, 3, 4, 5, 6, 7, 8, 1, 1, 0, 0xff, 0x99] []) =
    decodeIp4 fresh [0x46, 0, 0, 25, 0, 0, 0, 0, 64, 17, 0, 0, 1, 2, 3, 4, 5, 6, 7, 8, 1, 1, 0, 0xff, 0x99] [] := by
  decide

end Gp.C05.Ip4
