import Gp.Lemmas.Layers.IgmpFn
/-
  C05 (engine `ligmp`) — IGMPv1or2, IGMP (IGMPv3), IPSecAH, IPSecESP, GTPv2: decoding into a re-used object
  gives what decoding into a fresh object gives; the result is a function of the visible bytes alone
  (capacity / foreign bytes behind the input do not matter: NoCopy / Pool / inner layers); the layer that the
  registered decoder function adds to a packet is the layer a direct fresh DecodeFromBytes produces.

  Model: `Gp/Model/Layers/Igmp.lean` WITH proposed_fixes/ligmp-2 (GTPv2 resets TEID / IEs), ligmp-3 (IGMP
  resets the whole struct), ligmp-4 (IGMPv1or2 assigns Version / BaseLayer itself), ligmp-5.
  Only property-level theorems here; helpers are in `Gp/Lemmas/Layers/Igmp*.lean`.
-/
namespace Gp.C05.Igmp
open Gp Gp.Igmp

/-! ## The outcome is a function of the receiver-before and the VISIBLE bytes (model = specification) -/

theorem decode_fn_of_bytes_igmp12 (old : IGMPv1or2) (d : GSlice) :
    old.decodeFromBytes d = .ok (igmp12DecSpec old d.vis) := IGMPv1or2.decode_eq old d

theorem decode_fn_of_bytes_igmp3 (old : IGMP) (d : GSlice) :
    old.decodeFromBytes d = .ok (igmp3DecSpec old d.vis) := IGMP.decode_eq old d

theorem decode_fn_of_bytes_ah (old : IPSecAH) (d : GSlice) :
    old.decodeFromBytes d = .ok (ahDecSpec old d.vis) := IPSecAH.decode_eq old d

theorem decode_fn_of_bytes_esp (old : IPSecESP) (d : GSlice) :
    old.decodeFromBytes d = .ok (espDecSpec old d.vis) := IPSecESP.decode_eq old d

theorem decode_fn_of_bytes_gtp2 (old : GTPv2) (d : GSlice) :
    old.decodeFromBytes d = .ok (gtpDecSpec old d.vis) := GTPv2.decode_eq old d

/-! ## No stale state: a re-used object decodes like a fresh one -/

/-- IGMP (IGMPv3): for EVERY state of the receiver (any earlier packets: queries with sources, reports with
    records …) the call returns the same error verdict and truncation contribution as on a fresh object and,
    on success, the same layer — all fields, source list, record list in order, Contents, Payload.
    (Before proposed_fixes/ligmp-3 sources and records of all earlier packets accumulated and a report kept the
    previous query's fields.) -/
theorem decode_resets (old : IGMP) (d : GSlice) :
    ∃ o o', old.decodeFromBytes d = .ok o ∧ IGMP.fresh.decodeFromBytes d = .ok o' ∧
      o.err = o'.err ∧ o.trunc = o'.trunc ∧ (o.err = false → o.layer = o'.layer) :=
  ⟨_, _, IGMP.decode_eq old d, IGMP.decode_eq _ d, igmp3DecSpec_indep old IGMP.fresh d.vis⟩

/-- IGMPv1or2 (with ligmp-4 also Version, Contents, Payload are assigned by the call). -/
theorem decode_resets_igmp12 (old : IGMPv1or2) (d : GSlice) :
    ∃ o o', old.decodeFromBytes d = .ok o ∧ IGMPv1or2.fresh.decodeFromBytes d = .ok o' ∧
      o.err = o'.err ∧ o.trunc = o'.trunc ∧ (o.err = false → o.layer = o'.layer) :=
  ⟨_, _, IGMPv1or2.decode_eq old d, IGMPv1or2.decode_eq _ d, igmp12DecSpec_indep old IGMPv1or2.fresh d.vis⟩

theorem decode_resets_ah (old : IPSecAH) (d : GSlice) :
    ∃ o o', old.decodeFromBytes d = .ok o ∧ IPSecAH.fresh.decodeFromBytes d = .ok o' ∧
      o.err = o'.err ∧ o.trunc = o'.trunc ∧ (o.err = false → o.layer = o'.layer) :=
  ⟨_, _, IPSecAH.decode_eq old d, IPSecAH.decode_eq _ d, ahDecSpec_indep old IPSecAH.fresh d.vis⟩

theorem decode_resets_esp (old : IPSecESP) (d : GSlice) :
    ∃ o o', old.decodeFromBytes d = .ok o ∧ IPSecESP.fresh.decodeFromBytes d = .ok o' ∧
      o.err = o'.err ∧ o.trunc = o'.trunc ∧ (o.err = false → o.layer = o'.layer) :=
  ⟨_, _, IPSecESP.decode_eq old d, IPSecESP.decode_eq _ d, espDecSpec_indep old IPSecESP.fresh d.vis⟩

/-- GTPv2 (with ligmp-2: TEID of a message without the T flag is 0, the IE list holds this message's IEs only). -/
theorem decode_resets_gtp2 (old : GTPv2) (d : GSlice) :
    ∃ o o', old.decodeFromBytes d = .ok o ∧ GTPv2.fresh.decodeFromBytes d = .ok o' ∧
      o.err = o'.err ∧ o.trunc = o'.trunc ∧ (o.err = false → o.layer = o'.layer) :=
  ⟨_, _, GTPv2.decode_eq old d, GTPv2.decode_eq _ d, gtpDecSpec_indep old GTPv2.fresh d.vis⟩

/-- Non-vacuity: there are successful decodes of every kind (so the `err = false →` clauses speak about something). -/
example : (igmp3DecSpec IGMP.fresh [0x11, 10, 0, 0, 224, 0, 0, 1, 0x0a, 125, 0, 1, 1, 2, 3, 4]).err = false := by decide
example : (igmp3DecSpec IGMP.fresh [0x22, 0, 0, 0, 0, 0, 0, 1, 1, 0, 0, 1, 224, 0, 0, 1, 9, 9, 9, 9]).err = false := by decide
example : (igmp12DecSpec IGMPv1or2.fresh [0x16, 0, 0, 0, 224, 0, 0, 1]).err = false := by decide
example : (ahDecSpec IPSecAH.fresh [59, 1, 0, 0, 0, 0, 0, 1, 0, 0, 0, 2, 7]).err = false := by decide
example : (espDecSpec IPSecESP.fresh [0, 0, 0, 1, 0, 0, 0, 2, 7]).err = false := by decide
example : (gtpDecSpec GTPv2.fresh [0x48, 1, 0, 13, 1, 2, 3, 4, 0, 0, 1, 0, 7, 0, 1, 0, 9]).err = false := by decide

/-- What a FAILED decode leaves in a re-used AH object: the header fields of the failed packet, BaseLayer
    zeroed, and the AuthenticationData of the PREVIOUS packet — a half-updated receiver; the call reports the
    error, and `decode_resets_ah` shows nothing later depends on it. -/
theorem decode_error_receiver_ah (old : IPSecAH) (d : GSlice) (h12 : 12 ≤ d.len)
    (hbad : ahLen d.vis < 12 ∨ d.len < ahLen d.vis) :
    old.decodeFromBytes d = .ok { layer := ahHdr old d.vis, trunc := true, err := true } ∧
    (ahHdr old d.vis).authenticationData = old.authenticationData := by
  rw [IPSecAH.decode_eq]
  unfold ahDecSpec
  have hl : d.len = d.vis.length := rfl
  rw [if_neg (by omega)]
  rcases hbad with hb | hb
  · rw [if_pos hb]; exact ⟨rfl, rfl⟩
  · by_cases h : ahLen d.vis < 12
    · rw [if_pos h]; exact ⟨rfl, rfl⟩
    · rw [if_neg h, if_pos (by omega)]; exact ⟨rfl, rfl⟩

example : ∃ d : GSlice, 12 ≤ d.len ∧ (ahLen d.vis < 12 ∨ d.len < ahLen d.vis) :=
  ⟨{ vis := [17, 0, 0, 0, 0, 0, 0, 0, 0, 0, 0, 0], tail := [] }, by decide, Or.inl (by decide)⟩

/-! ## Capacity independence (NoCopy / Pool / inner layers give identical results) -/

theorem decode_cap_independent (old : IGMP) (v t₁ t₂ : Bytes) :
    old.decodeFromBytes { vis := v, tail := t₁ } = old.decodeFromBytes { vis := v, tail := t₂ } := by
  rw [IGMP.decode_eq, IGMP.decode_eq]

theorem decode_cap_independent_igmp12 (old : IGMPv1or2) (v t₁ t₂ : Bytes) :
    old.decodeFromBytes { vis := v, tail := t₁ } = old.decodeFromBytes { vis := v, tail := t₂ } := by
  rw [IGMPv1or2.decode_eq, IGMPv1or2.decode_eq]

theorem decode_cap_independent_ah (old : IPSecAH) (v t₁ t₂ : Bytes) :
    old.decodeFromBytes { vis := v, tail := t₁ } = old.decodeFromBytes { vis := v, tail := t₂ } := by
  rw [IPSecAH.decode_eq, IPSecAH.decode_eq]

theorem decode_cap_independent_esp (old : IPSecESP) (v t₁ t₂ : Bytes) :
    old.decodeFromBytes { vis := v, tail := t₁ } = old.decodeFromBytes { vis := v, tail := t₂ } := by
  rw [IPSecESP.decode_eq, IPSecESP.decode_eq]

theorem decode_cap_independent_gtp2 (old : GTPv2) (v t₁ t₂ : Bytes) :
    old.decodeFromBytes { vis := v, tail := t₁ } = old.decodeFromBytes { vis := v, tail := t₂ } := by
  rw [GTPv2.decode_eq, GTPv2.decode_eq]

/-- … and the registered decoder functions likewise. -/
theorem decoder_fn_cap_independent (v t₁ t₂ : Bytes) :
    decodeIGMPFn { vis := v, tail := t₁ } = decodeIGMPFn { vis := v, tail := t₂ } ∧
    decodeIPSecAHFn { vis := v, tail := t₁ } = decodeIPSecAHFn { vis := v, tail := t₂ } ∧
    decodeIPSecESPFn { vis := v, tail := t₁ } = decodeIPSecESPFn { vis := v, tail := t₂ } ∧
    decodeGTPv2Fn { vis := v, tail := t₁ } = decodeGTPv2Fn { vis := v, tail := t₂ } := by
  refine ⟨?_, ?_, ?_, ?_⟩
  · rw [decodeIGMPFn_eq, decodeIGMPFn_eq]
  · rw [decodeIPSecAHFn_eq, decodeIPSecAHFn_eq]
  · rw [decodeIPSecESPFn_eq, decodeIPSecESPFn_eq]
  · rw [decodeGTPv2Fn_eq, decodeGTPv2Fn_eq]

/-! ## Packet decoding = preallocated decoding (the layer added by the registered decoder) -/

/-- `decodeIPSecAH` adds exactly the layer a direct fresh DecodeFromBytes produces (none on an error), reports
    its truncation, and continues with `NextHeader.LayerType()` (returns when that is LayerTypeZero). -/
theorem packet_layer_eq_direct_ah (d : GSlice) :
    decodeIPSecAHFn d = .ok (ahFnSpec d.vis) ∧
    ((ahFnSpec d.vis).2 = if (ahDecSpec IPSecAH.fresh d.vis).err then none else some (ahDecSpec IPSecAH.fresh d.vis).layer) := by
  refine ⟨decodeIPSecAHFn_eq d, ?_⟩
  unfold ahFnSpec decodingLayerDecoder
  cases (ahDecSpec IPSecAH.fresh d.vis).err <;> simp <;> split <;> rfl

theorem packet_layer_eq_direct_esp (d : GSlice) :
    decodeIPSecESPFn d = .ok (espFnSpec d.vis) ∧
    ((espFnSpec d.vis).2 = if (espDecSpec IPSecESP.fresh d.vis).err then none else some (espDecSpec IPSecESP.fresh d.vis).layer) := by
  refine ⟨decodeIPSecESPFn_eq d, ?_⟩
  unfold espFnSpec decodingLayerDecoder
  cases (espDecSpec IPSecESP.fresh d.vis).err <;> simp [LayerTypePayload, LayerTypeZero]

theorem packet_layer_eq_direct_gtp2 (d : GSlice) :
    decodeGTPv2Fn d = .ok (gtpFnSpec d.vis) ∧
    ((gtpFnSpec d.vis).2 = if (gtpDecSpec GTPv2.fresh d.vis).err then none else some (gtpDecSpec GTPv2.fresh d.vis).layer) := by
  refine ⟨decodeGTPv2Fn_eq d, ?_⟩
  unfold gtpFnSpec
  cases (gtpDecSpec GTPv2.fresh d.vis).err <;> simp [failed]

/-- `decodeIGMP`: the struct is chosen by `igmpChoice` (type byte and, for a query, the length); the layer added
    is the chosen struct decoded FRESH — in particular IGMPv1or2.Version, which decodeIGMP writes into the
    struct before the call, is what DecodeFromBytes itself computes (proposed_fixes/ligmp-4), so a
    DecodingLayerParser holding the chosen struct reports identical field values. -/
theorem packet_layer_eq_direct_igmp (d : GSlice) : decodeIGMPFn d = .ok (igmpFnSpec d.vis) := decodeIGMPFn_eq d

/-- The version a successful IGMPv1or2 decode reports is a function of the message alone (1 for a query with
    max-response 0 and for a v1 report, 2 for other queries, leave and v2 report, 0 for any other type). -/
theorem igmp12_version_of_bytes (old : IGMPv1or2) (d : GSlice) (h8 : 8 ≤ d.len) :
    ∃ o, old.decodeFromBytes d = .ok o ∧ o.err = false ∧ o.layer.version = igmp12Version d.vis := by
  refine ⟨_, IGMPv1or2.decode_eq old d, ?_, ?_⟩ <;>
  · unfold igmp12DecSpec
    rw [if_neg (show ¬ d.vis.length < 8 from by have : d.len = d.vis.length := rfl; omega)]
    try rfl

/-- The known finding `ligmp:dlp-differs:igmp-variant`, in the model: ONE layer type, TWO structs.  On an
    IGMPv2 report decodeIGMP adds an IGMPv1or2 layer, while a DecodingLayerParser that holds the IGMP (v3)
    struct for LayerTypeIGMP reports an error for the same bytes. -/
theorem igmp_variant_counterexample :
    ¬ (∀ v : Bytes, (igmpFnSpec v).2.isSome = true → (igmp3DecSpec IGMP.fresh v).err = false) := by
  intro h
  have := h [0x16, 0, 0, 0, 224, 0, 0, 1] (by decide)
  revert this
  decide

/-- … where decodeIGMP chooses the struct the parser holds, the two agree (the layer added = the fresh decode). -/
theorem igmp_variant_partial (v : Bytes) (hc : igmpChoice v = some true) :
    (igmpFnSpec v).2 = if (igmp3DecSpec IGMP.fresh v).err then none else some (.v3 (igmp3DecSpec IGMP.fresh v).layer) := by
  unfold igmpFnSpec
  rw [hc]
  simp only [liftV3, decodingLayerDecoder]
  cases (igmp3DecSpec IGMP.fresh v).err <;> simp

example : igmpChoice [0x22, 0, 0, 0, 0, 0, 0, 0] = some true := by decide

/-! ## Contents of a decoded IGMPv3 report -/

/-- Every group record of a decoded report carries exactly `NumberOfSources` source addresses (no stale or
    missing entries). -/
theorem igmp3_records_wf (v : Bytes) (n ro : Nat) (l : IGMP)
    (hl : ∀ g ∈ l.groupRecords, g.sourceAddresses.length = g.numberOfSources) :
    ∀ g ∈ (recSpec v n ro l).layer.groupRecords, g.sourceAddresses.length = g.numberOfSources :=
  recSpec_records_wf v n ro l hl

end Gp.C05.Igmp
