import Gp.Lemmas.Layers.ModDlp
/-
  C05 (engine `lmod`) — ModbusTCP, LCM (with proposed_fixes/lmod-1) and PFLog keep no stale state; FDDI
  has no state to keep; results do not depend on the capacity of the packet buffer nor on the bytes
  behind the input; the packet path adds exactly the layer the preallocated path computes.

  `X.decodeFromBytes old d` takes the receiver BEFORE the call (`old`) and the input as a Go slice
  with capacity (`d.vis` = data, `d.tail` = foreign bytes between len and cap).  Every field the Go
  code assigns is assigned in the model by an explicit update of `old`, so a field that the code set
  on some paths only would survive from `old` — the theorems below say that none does on success.

  LCM BEFORE the fix (the tree without proposed_fixes/lmod-1) violated this: PayloadSize,
  FragmentOffset, FragmentNumber, TotalFragments were assigned only for a fragmented header, ChannelName
  only when a name is present, the private fingerprint (and with it NextLayerType) only when 8 bytes
  follow the name: `decode_resets_lcm_unfixed_counterexample`.  The model is the FIXED code.

  NO REUSE CLAUSE for FDDI: the type does not implement gopacket.DecodingLayer (no DecodeFromBytes /
  CanDecode / NextLayerType); `decodeFDDI` allocates a new layer on every call.  What is stated instead
  is that the result is a pure function of the visible bytes (that the real function keeps no hidden
  state between calls is checked by the adapter: `lmod:stale:history`, `lmod:stale:object`).
-/
namespace Gp.C05.Mod
open Gp Gp.Mod

/-! ## ModbusTCP -/

/-- The outcome of `(*ModbusTCP).DecodeFromBytes`, for every receiver, capacity and foreign bytes: the
    specification `modbusDecSpec` — on success a function of the visible bytes alone. -/
theorem decode_fn_of_bytes_modbus (old : ModbusTCP) (d : GSlice) :
    old.decodeFromBytes d = .ok (modbusDecSpec old d.vis) := ModbusTCP.decode_eq old d

/-- No stale state: decoding into a re-used object = decoding into a fresh one (all fields, Contents,
    Payload, truncation contribution on success; the same error otherwise). -/
theorem decode_resets (old : ModbusTCP) (data foreign : Bytes) :
    decodeModbus old data foreign = decodeModbus ModbusTCP.fresh data foreign := by
  unfold decodeModbus
  rw [ModbusTCP.decode_eq, ModbusTCP.decode_eq]
  obtain ⟨x1, x2, x3⟩ := modbusDecSpec_indep old ModbusTCP.fresh data
  simp only
  by_cases he : (modbusDecSpec old data).err = true
  · rw [if_pos he, if_pos (by rw [← x1]; exact he)]
  · rw [if_neg he, if_neg (by rw [← x1]; exact he), x2, x3 (by simpa using he)]

/-- What a FAILED decode leaves in the receiver: nothing is touched by the two size errors; when the
    Length field disagrees with the bytes present (modbustcp.go:128-131) Contents, Payload,
    TransactionIdentifier, ProtocolIdentifier and Length are already overwritten while UnitIdentifier
    is still the previous packet's — a half-updated object; the truncation flag is ALWAYS set.  (Not a
    violation: the call reports the error, the parser reports no layer, and `decode_resets` shows the
    next successful decode does not depend on what is left here.) -/
theorem decode_error_receiver (old : ModbusTCP) (d : GSlice) (o : DecOut ModbusTCP)
    (h : old.decodeFromBytes d = .ok o) (he : o.err = true) :
    o.trunc = true ∧ (o.layer = old ∨ o.layer = modbusHdr old d.vis) ∧
    o.layer.unitIdentifier = old.unitIdentifier := by
  rw [ModbusTCP.decode_eq] at h; cases h
  unfold modbusDecSpec at he ⊢
  by_cases h1 : d.vis.length < 9
  · rw [if_pos h1]; exact ⟨rfl, Or.inl rfl, rfl⟩
  · rw [if_neg h1] at he ⊢
    by_cases h2 : d.vis.length > 260
    · rw [if_pos h2]; exact ⟨rfl, Or.inl rfl, rfl⟩
    · rw [if_neg h2] at he ⊢
      by_cases h3 : u16At d.vis 4 ≠ d.vis.length - 6
      · rw [if_pos h3]; exact ⟨rfl, Or.inr rfl, rfl⟩
      · rw [if_neg h3] at he; cases he

/-- Capacity independence (what C04 "NoCopy/Pool give identical results" and C02 "depends only on
    the bytes" need from this layer): spare capacity and its contents never influence the result. -/
theorem decode_cap_independent (old : ModbusTCP) (data foreign : Bytes) :
    decodeModbus old data foreign = decodeModbus old data [] := by
  unfold decodeModbus; rw [ModbusTCP.decode_eq, ModbusTCP.decode_eq]

/-- … for the full outcome, including the receiver left by a failed call. -/
theorem decode_cap_independent_full (old : ModbusTCP) (data foreign : Bytes) :
    old.decodeFromBytes ⟨data, foreign⟩ = old.decodeFromBytes ⟨data, []⟩ := by
  rw [ModbusTCP.decode_eq, ModbusTCP.decode_eq]

/-- The packet path agrees with the preallocated path: `decodeModbusTCP` adds exactly the layer a
    direct `DecodeFromBytes` into any re-used object yields; it is added exactly when that decode
    succeeds; SetTruncated exactly on the error paths; the layer is registered as the APPLICATION
    layer; the next decoder is LayerTypePayload. -/
theorem packet_layer_eq_direct (old : ModbusTCP) (d : GSlice) :
    ∃ o, old.decodeFromBytes d = .ok o ∧
      ((o.err = true ∧ o.trunc = true ∧ decodeModbusTCPFn d = .ok ({ acts := [Act.setTruncated], tail := .fail }, none)) ∨
       (o.err = false ∧ o.trunc = false ∧ decodeModbusTCPFn d =
          .ok ({ acts := [Act.addLayer LayerTypeModbusTCP, Act.setApplicationLayer], tail := .nextLayerType LayerTypePayload },
               some o.layer))) := by
  refine ⟨_, ModbusTCP.decode_eq old d, ?_⟩
  unfold decodeModbusTCPFn
  rw [ModbusTCP.decode_eq, Res.bind_ok]
  unfold modbusDecSpec
  by_cases h1 : d.vis.length < 9
  · rw [if_pos h1, if_pos h1]; exact Or.inl ⟨rfl, rfl, rfl⟩
  · rw [if_neg h1, if_neg h1]
    by_cases h2 : d.vis.length > 260
    · rw [if_pos h2, if_pos h2]; exact Or.inl ⟨rfl, rfl, rfl⟩
    · rw [if_neg h2, if_neg h2]
      by_cases h3 : u16At d.vis 4 ≠ d.vis.length - 6
      · rw [if_pos h3, if_pos h3]; exact Or.inl ⟨rfl, rfl, rfl⟩
      · rw [if_neg h3, if_neg h3]; exact Or.inr ⟨rfl, rfl, rfl⟩

/-! ## LCM (with proposed_fixes/lmod-1) -/

theorem decode_fn_of_bytes_lcm (old : LCM) (d : GSlice) :
    old.decodeFromBytes d = .ok (lcmDecSpec old d.vis) := LCM.decode_eq old d

/-- No stale state in the FIXED LCM decoder: re-used = fresh — in particular the four fragment fields
    after a short header, ChannelName in a later fragment, and the fingerprint (hence NextLayerType)
    of a message with fewer than 8 bytes behind the channel name. -/
theorem decode_resets_lcm (old : LCM) (data foreign : Bytes) :
    decodeLcm old data foreign = decodeLcm LCM.fresh data foreign := by
  unfold decodeLcm
  rw [LCM.decode_eq, LCM.decode_eq]
  obtain ⟨x1, x2, x3⟩ := lcmDecSpec_indep old LCM.fresh data
  simp only
  by_cases he : (lcmDecSpec old data).err = true
  · rw [if_pos he, if_pos (by rw [← x1]; exact he)]
  · rw [if_neg he, if_neg (by rw [← x1]; exact he), x2, x3 (by simpa using he)]

/-- … and so is the next layer type, for every content of the fingerprint registry. -/
theorem next_layer_resets_lcm (reg : List (Nat × Nat)) (a b : LCM) (d : GSlice) (oa ob : DecOut LCM)
    (ha : a.decodeFromBytes d = .ok oa) (hb : b.decodeFromBytes d = .ok ob) (he : oa.err = false) :
    ob.err = false ∧ oa.layer.nextLayerType reg = ob.layer.nextLayerType reg := by
  rw [LCM.decode_eq] at ha hb; cases ha; cases hb
  obtain ⟨x1, _, x3⟩ := lcmDecSpec_indep a b d.vis
  exact ⟨by rw [← x1]; exact he, by rw [x3 he]⟩

/-- Why the fix is needed: without the reset a short message with fewer than 8 bytes behind its channel
    name, decoded into an object that last held a fragment, keeps that fragment's PayloadSize and
    fingerprint — the result differs from a fresh decode (reproduced on the unfixed tree by the
    monitors `lmod:stale:PayloadSize`, `lmod:stale:ChannelName`, `lmod:stale:fingerprint`). -/
theorem decode_resets_lcm_unfixed_counterexample :
    ¬ ∀ (old : LCM) (v : Bytes), tailLayer (lcmPreUnfixedShort old v) v 8 = tailLayer (lcmPreUnfixedShort LCM.fresh v) v 8 := by
  intro h
  have := h { LCM.fresh with payloadSize := 1000, fingerprint := 0x1122334455667788 }
    [0x4c,0x43,0x30,0x32, 0,0,0,1, 0x41,0]
  revert this
  decide

/-- What a FAILED LCM decode leaves: nothing is touched below 8 bytes (flag set); an unknown magic
    leaves Magic overwritten and the flag clear; a fragmented header cut below 20 bytes leaves Magic,
    SequenceNumber, the reset fields and Fragmented = true, flag set.  Contents / Payload are never touched. -/
theorem decode_error_receiver_lcm (old : LCM) (d : GSlice) (o : DecOut LCM)
    (h : old.decodeFromBytes d = .ok o) (he : o.err = true) :
    (o.layer = old ∧ o.trunc = true) ∨
    (o.layer = { old with magic := u32At d.vis 0 } ∧ o.trunc = false) ∨
    (o.layer = { lcmCommon old d.vis with fragmented := true } ∧ o.trunc = true) := by
  rw [LCM.decode_eq] at h; cases h
  unfold lcmDecSpec at he ⊢
  by_cases h1 : d.vis.length < 8
  · rw [if_pos h1]; exact Or.inl ⟨rfl, rfl⟩
  · rw [if_neg h1] at he ⊢
    by_cases h2 : u32At d.vis 0 ≠ Gp.Gen.Mod.lcmShortHeaderMagic ∧ u32At d.vis 0 ≠ Gp.Gen.Mod.lcmFragmentedHeaderMagic
    · rw [if_pos h2]; exact Or.inr (Or.inl ⟨rfl, rfl⟩)
    · rw [if_neg h2] at he ⊢
      by_cases h3 : u32At d.vis 0 = Gp.Gen.Mod.lcmFragmentedHeaderMagic ∧ d.vis.length < 20
      · rw [if_pos h3]; exact Or.inr (Or.inr ⟨rfl, rfl⟩)
      · rw [if_neg h3] at he; cases he

theorem decode_cap_independent_lcm (old : LCM) (data foreign : Bytes) :
    old.decodeFromBytes ⟨data, foreign⟩ = old.decodeFromBytes ⟨data, []⟩ := by
  rw [LCM.decode_eq, LCM.decode_eq]

/-- `decodeLCM`: adds the directly decoded layer, registers it as the application layer, then
    `NextDecoder(lcm.NextLayerType())` — a READ of the fingerprint registry; the flag is set exactly on
    the two length errors. -/
theorem packet_layer_eq_direct_lcm (reg : List (Nat × Nat)) (old : LCM) (d : GSlice) :
    ∃ o, old.decodeFromBytes d = .ok o ∧
      ((o.err = true ∧ decodeLCMFn reg d = .ok ({ acts := if o.trunc then [Act.setTruncated] else [], tail := .fail }, none)) ∨
       (o.err = false ∧ o.trunc = false ∧ decodeLCMFn reg d =
          .ok ({ acts := [Act.addLayer LayerTypeLCM, Act.setApplicationLayer], tail := .nextLayerType (o.layer.nextLayerType reg) },
               some o.layer))) := by
  refine ⟨_, LCM.decode_eq old d, ?_⟩
  unfold decodeLCMFn
  rw [LCM.decode_eq, Res.bind_ok]
  obtain ⟨x1, x2, x3⟩ := lcmDecSpec_indep LCM.fresh old d.vis
  by_cases he : (lcmDecSpec old d.vis).err = true
  · refine Or.inl ⟨he, ?_⟩
    simp only [x1, x2, he, if_true, pure, failed]
  · have hef : (lcmDecSpec old d.vis).err = false := by simpa using he
    have htr : (lcmDecSpec old d.vis).trunc = false := by
      unfold lcmDecSpec at hef ⊢
      repeat' split at hef
      all_goals first | (cases hef; done) | skip
      repeat' split
      all_goals first | rfl | (rename_i hh; exact absurd hh (by assumption)) | skip
    refine Or.inr ⟨hef, htr, ?_⟩
    have hef' : (lcmDecSpec LCM.fresh d.vis).err = false := by rw [x1]; exact hef
    simp only [hef', x2, htr, x3 hef', Bool.false_eq_true, if_false, pure, List.nil_append]

/-! ## PFLog -/

theorem decode_fn_of_bytes_pflog (old : PFLog) (d : GSlice) :
    old.decodeFromBytes d = .ok (pflogDecSpec old d.vis) := PFLog.decode_eq old d

theorem decode_resets_pflog (old : PFLog) (data foreign : Bytes) :
    decodePflog old data foreign = decodePflog PFLog.fresh data foreign := by
  unfold decodePflog
  rw [PFLog.decode_eq, PFLog.decode_eq]
  obtain ⟨x1, x2, x3⟩ := pflogDecSpec_indep old PFLog.fresh data
  simp only
  by_cases he : (pflogDecSpec old data).err = true
  · rw [if_pos he, if_pos (by rw [← x1]; exact he)]
  · rw [if_neg he, if_neg (by rw [← x1]; exact he), x2, x3 (by simpa using he)]

/-- A failed PFLog decode: untouched (flag set) below 61 bytes; when the announced header length
    exceeds the data (pflog.go:66-68) all thirteen fields are overwritten, Contents / Payload are still
    the previous packet's, and the flag is NOT set. -/
theorem decode_error_receiver_pflog (old : PFLog) (d : GSlice) (o : DecOut PFLog)
    (h : old.decodeFromBytes d = .ok o) (he : o.err = true) :
    (o.layer = old ∧ o.trunc = true) ∨
    (o.layer = pflogHdr old d.vis ∧ o.trunc = false ∧ o.layer.contents = old.contents ∧ o.layer.payload = old.payload) := by
  rw [PFLog.decode_eq] at h; cases h
  unfold pflogDecSpec at he ⊢
  by_cases h1 : d.vis.length < 61
  · rw [if_pos h1]; exact Or.inl ⟨rfl, rfl⟩
  · rw [if_neg h1] at he ⊢
    by_cases h2 : d.vis.length < pfActual d.vis
    · rw [if_pos h2]; exact Or.inr ⟨rfl, rfl, rfl, rfl⟩
    · rw [if_neg h2] at he; cases he

theorem decode_cap_independent_pflog (old : PFLog) (data foreign : Bytes) :
    old.decodeFromBytes ⟨data, foreign⟩ = old.decodeFromBytes ⟨data, []⟩ := by
  rw [PFLog.decode_eq, PFLog.decode_eq]

/-- `decodePFLog` (= `decodingLayerDecoder`): SetTruncated exactly on the short-input error, adds the
    directly decoded layer, no Set*Layer call, then NextDecoder(family's layer type) — or nothing at
    all for a family without a decoder. -/
theorem packet_layer_eq_direct_pflog (old : PFLog) (d : GSlice) :
    ∃ o, old.decodeFromBytes d = .ok o ∧
      ((o.err = true ∧ decodePFLogFn d = .ok ({ acts := if o.trunc then [Act.setTruncated] else [], tail := .fail }, none)) ∨
       (o.err = false ∧ o.trunc = false ∧ decodePFLogFn d =
          .ok ({ acts := [Act.addLayer LayerTypePFLog],
                 tail := if o.layer.nextLayerType = LayerTypeZero then .done else .nextLayerType o.layer.nextLayerType },
               some o.layer))) := by
  refine ⟨_, PFLog.decode_eq old d, ?_⟩
  unfold decodePFLogFn
  rw [PFLog.decode_eq, Res.bind_ok]
  unfold pflogDecSpec decodingLayerDecoder
  by_cases h1 : d.vis.length < 61
  · rw [if_pos h1, if_pos h1]; exact Or.inl ⟨rfl, rfl⟩
  · rw [if_neg h1, if_neg h1]
    by_cases h2 : d.vis.length < pfActual d.vis
    · rw [if_pos h2, if_pos h2]; exact Or.inl ⟨rfl, rfl⟩
    · rw [if_neg h2, if_neg h2]
      refine Or.inr ⟨rfl, rfl, ?_⟩
      simp only [pure, Bool.false_eq_true, if_false, List.nil_append]
      split <;> rfl

/-! ## FDDI: a function of the visible bytes (no receiver to re-use) -/

/-- `decodeFDDI`: every PacketBuilder call (SetLinkLayer BEFORE AddLayer, never SetTruncated), the
    layer added (all fields, Contents, Payload) and the next decoder (the frame-control value) are the
    pure specification `fddiSpec` of the visible bytes, for every capacity and foreign bytes. -/
theorem decode_fn_of_bytes_fddi (d : GSlice) : decodeFDDI d = .ok (fddiSpec d.vis) := decodeFDDI_eq d

theorem decode_cap_independent_fddi (data f1 f2 : Bytes) : decodeFddi data f1 = decodeFddi data f2 := by
  unfold decodeFddi; rw [decodeFDDI_eq, decodeFDDI_eq]

/-! ## The parser over the three DecodingLayers (one object per type) -/

/-- No stale state through `DecodingLayerParser.DecodeLayers`: whatever the three layer objects held
    from earlier packets (including half-updated ones), the run returns the same error code, the same
    list of decoded types, the same truncation flag, and every layer object whose type is in that
    list holds the same value (`DlpAgree`). -/
theorem dlp_resets (reg : List (Nat × Nat)) (a1 a2 : ModbusTCP) (b1 b2 : LCM) (e1 e2 : PFLog) (first : Nat) (d : GSlice) :
    ∃ r1 r2 c, dlpDecodeLayers reg a1 b1 e1 first d = .ok (r1, c) ∧ dlpDecodeLayers reg a2 b2 e2 first d = .ok (r2, c) ∧
      DlpAgree r1 r2 :=
  dlpLoop_agree reg _ _ _ _ _ ⟨rfl, rfl, fun h => absurd h (List.not_mem_nil), fun h => absurd h (List.not_mem_nil),
    fun h => absurd h (List.not_mem_nil)⟩

/-- … and it does not depend on the capacity of the packet buffer or the bytes behind the input. -/
theorem dlp_cap_independent (reg : List (Nat × Nat)) (a : ModbusTCP) (b : LCM) (e : PFLog) (first : Nat) (v t1 t2 : Bytes) :
    dlpDecodeLayers reg a b e first { vis := v, tail := t1 } = dlpDecodeLayers reg a b e first { vis := v, tail := t2 } :=
  dlpLoop_cap reg _ _ _ v t1 t2

/-- `NextLayerType` over the shipped tables, with every key taken from the constants REGENERATED from
    enums.go / lcm.go / modbustcp.go on every run: the five protocol families with a decoder; LLC as the
    only FDDI frame control with one; ModbusTCP always hands on to Payload; LCM to the registered type
    of its fingerprint, Payload when unregistered, Fragment for a later fragment. -/
theorem next_layer_table :
    (familyTable.map (·.1)).Nodup ∧
    familyTable = [(2, 20), (24, 21), (28, 21), (30, 21), (10, 21)] ∧
    (List.range 256).filter frameControlKnown = [0x50] ∧
    (∀ m : ModbusTCP, m.nextLayerType = LayerTypePayload) ∧
    ({ LCM.fresh with fingerprint := 7 }).nextLayerType [(7, 1999)] = 1999 ∧
    ({ LCM.fresh with fingerprint := 8 }).nextLayerType [(7, 1999)] = LayerTypePayload ∧
    ({ LCM.fresh with fragmented := true, fragmentNumber := 0, fingerprint := 7 }).nextLayerType [(7, 1999)] = 1999 ∧
    ({ LCM.fresh with fragmented := true, fragmentNumber := 1, fingerprint := 7 }).nextLayerType [(7, 1999)] = LayerTypeFragment := by
  refine ⟨by decide, by decide, by decide, fun _ => rfl, by decide, by decide, by decide, by decide⟩

/-! ## Non-vacuity: receivers full of stale data, spare capacity full of foreign bytes -/

example :
    let stale : LCM := { magic := 0x4c433033, sequenceNumber := 9, payloadSize := 1000, fragmentOffset := 400,
                         fragmentNumber := 1, totalFragments := 3, channelName := [0x58], fragmented := true,
                         fingerprint := 0x1122334455667788, contents := [1], payload := [2] }
    decodeLcm stale [0x4c,0x43,0x30,0x32, 0,0,0,1, 0x41,0, 5] [0xEE,0xEE] =
      .ok ({ magic := 0x4c433032, sequenceNumber := 1, payloadSize := 0, fragmentOffset := 0, fragmentNumber := 0,
             totalFragments := 0, channelName := [0x41], fragmented := false, fingerprint := 0,
             contents := [0x4c,0x43,0x30,0x32, 0,0,0,1, 0x41,0], payload := [5] }, false) := by
  decide

example :
    let stale : ModbusTCP := { contents := [1], payload := [2,3], transactionIdentifier := 9, protocolIdentifier := 9,
                               length := 9, unitIdentifier := 99 }
    -- the half-updated receiver of the Length error path
    stale.decodeFromBytes ⟨[0,1, 0,0, 0,9, 17, 3,0,0,0], [0xEE]⟩ =
      .ok { layer := { stale with contents := [0,1, 0,0, 0,9, 17], payload := [3,0,0,0], transactionIdentifier := 1,
                                  protocolIdentifier := 0, length := 9 }, trunc := true, err := true } := by
  decide

end Gp.C05.Mod
