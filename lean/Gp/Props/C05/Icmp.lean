import Gp.Lemmas.Layers.IcmpChain
/-
  C05 for layers/icmp4.go, icmp6.go, icmp6msg.go (engine `licmp`): decoding into a REUSED layer
  object gives the same result as decoding into a fresh one, and the result does not depend on
  the capacity of / the foreign bytes behind the input slice.

  `SameResult a b` (Gp/Lemmas/Layers/Icmp.lean): both calls return normally with equal error
  status and truncation flag and, on success, equal layer values (every field, Contents,
  Payload; option lists in order).

  * `decode_history` is the property as quantified ("all sequences of earlier packets decoded
    into the same layer objects"): after ANY history of DecodeFromBytes calls on the object —
    successful or failed, any capacities — the next decode equals a fresh object's.
  * For ICMPv4, Echo, RA, NS, NA, Redirect the stronger `∀ old` form holds (every field is
    assigned on the success path).  ICMPv6 never assigns the public field TypeBytes (documented
    "deprecated and always nil") nor the embedded checksum pseudo-header, and
    RouterSolicitation never assigns its BaseLayer: for these the `∀ old` form is false
    (`…_resets_full`, `…_counterexample`) and the `_partial` theorems state exactly which fields
    survive; since no decoder ever writes those fields they keep their zero value along every
    decode history, which is why `decode_history` holds for all eight kinds.
-/
namespace Gp.C05.Icmp
open Gp Gp.Icmp

/-! ### the property: any decode history, then one more decode -/

theorem decode_history (k : Kind) (hist : List CSlice) (data foreign : Bytes) :
    SameResult ((runHist (fresh k) hist).decode ⟨data, foreign⟩) ((fresh k).decode ⟨data, foreign⟩) := by
  have hu := untouched_runHist (fresh k) hist (untouched_fresh k)
  have hk : (runHist (fresh k) hist).kind = k := by
    rw [runHist_kind]; cases k <;> rfl
  rw [decodeAny_eq, decodeAny_eq]
  have := pure_untouched_eq_fresh (runHist (fresh k) hist) data hu
  rw [hk] at this
  exact this

/-- The same through the layer parser's view: the object state reached by any history is one
    whose never-assigned fields are untouched, whatever happened in between. -/
theorem history_invariant (k : Kind) (hist : List CSlice) : Untouched (runHist (fresh k) hist) :=
  untouched_runHist (fresh k) hist (untouched_fresh k)

/-! ### the layer parser over reused objects reports the leading run of the packet's layers -/

/-- First sentence of C05 for the ICMP chain (ICMPv4|ICMPv6 → message → Payload): a
    DecodingLayerParser built over the eight (reused, `AllUntouched` = reached by any decode
    history) objects and a Payload decodes exactly the layers NewPacket produces from the same
    bytes — same values, same order, same truncation flag — up to: nothing more (complete), the
    packet's DecodeFailure layer (the parser returns the decoder's error instead), or a layer type
    outside the set (the parser returns UnsupportedLayerType).  `Agree` is defined in
    Gp/Lemmas/Layers/IcmpChain.lean. -/
theorem parser_is_prefix_of_packet (k : Kind) (o : Objs) (data : Bytes) (r : DlpOut) (q : PktOut)
    (ho : AllUntouched o) (hd : dlpRun 3 k o data [] false = .ok r) (hp : pktRun 3 k data = .ok q) :
    r.trunc = q.trunc ∧
    match r.status with
    | .ok => q.layers = r.decoded ∧ q.err = false
    | .err => q.layers = r.decoded ++ [.failure] ∧ q.err = true
    | .unsupported => ∃ t, q.layers = r.decoded ++ [.other t] ∧ q.err = false := by
  obtain ⟨h1, h2⟩ := (dlp_agrees 3 k o data [] false r q ho hd hp).1
  refine ⟨by simpa using h1, ?_⟩
  cases hs : r.status <;> rw [hs] at h2 <;> simpa using h2

/-- … and leaves the objects in a state from which the next packet again decodes as if fresh. -/
theorem parser_keeps_objects_clean (k : Kind) (o : Objs) (data : Bytes) (r : DlpOut) (q : PktOut)
    (ho : AllUntouched o) (hd : dlpRun 3 k o data [] false = .ok r) (hp : pktRun 3 k data = .ok q) :
    AllUntouched r.objs :=
  (dlp_agrees 3 k o data [] false r q ho hd hp).2

/-! ### `∀ old`: no field of the old value survives a successful decode -/

theorem decodeICMPv4_resets (old : ICMPv4) (data foreign : Bytes) :
    SameResult (decodeICMPv4 old ⟨data, foreign⟩) (decodeICMPv4 {} ⟨data, foreign⟩) := by
  rw [decodeICMPv4_eq, decodeICMPv4_eq]; simp only [SameResult, pureICMPv4]; split <;> simp

theorem decodeEcho_resets (old : Echo) (data foreign : Bytes) :
    SameResult (decodeEcho old ⟨data, foreign⟩) (decodeEcho {} ⟨data, foreign⟩) := by
  rw [decodeEcho_eq, decodeEcho_eq]; simp only [SameResult, pureEcho]; split <;> simp

theorem decodeRA_resets (old : RA) (data foreign : Bytes) :
    SameResult (decodeRA old ⟨data, foreign⟩) (decodeRA {} ⟨data, foreign⟩) := by
  rw [decodeRA_eq, decodeRA_eq]; simp only [SameResult, pureRA]; split <;> simp

theorem decodeNS_resets (old : NS) (data foreign : Bytes) :
    SameResult (decodeNS old ⟨data, foreign⟩) (decodeNS {} ⟨data, foreign⟩) := by
  rw [decodeNS_eq, decodeNS_eq]; simp only [SameResult, pureNS]; split <;> simp

theorem decodeNA_resets (old : NA) (data foreign : Bytes) :
    SameResult (decodeNA old ⟨data, foreign⟩) (decodeNA {} ⟨data, foreign⟩) := by
  rw [decodeNA_eq, decodeNA_eq]; simp only [SameResult, pureNA]; split <;> simp

theorem decodeRedirect_resets (old : Redirect) (data foreign : Bytes) :
    SameResult (decodeRedirect old ⟨data, foreign⟩) (decodeRedirect {} ⟨data, foreign⟩) := by
  rw [decodeRedirect_eq, decodeRedirect_eq]; simp only [SameResult, pureRedirect]; split <;> simp

/-! ### ICMPv6 and RouterSolicitation: fields the decoder never assigns -/

def decodeICMPv6_resets_full : Prop :=
  ∀ (old : ICMPv6) (data foreign : Bytes),
    SameResult (decodeICMPv6 old ⟨data, foreign⟩) (decodeICMPv6 {} ⟨data, foreign⟩)

/-- TypeBytes (public, "always nil") set by hand survives a decode. -/
theorem decodeICMPv6_resets_counterexample : ¬ decodeICMPv6_resets_full := by
  intro h
  have := h { typeBytes := [1] } [128, 0, 0, 0] []
  rw [decodeICMPv6_eq, decodeICMPv6_eq] at this
  simp [SameResult, pureICMPv6] at this

/-- Everything but TypeBytes and the (unexported) pseudo-header is reset. -/
theorem decodeICMPv6_resets_partial (old : ICMPv6) (data foreign : Bytes) :
    SameResult (decodeICMPv6 old ⟨data, foreign⟩)
      (decodeICMPv6 { typeBytes := old.typeBytes, pseudo := old.pseudo } ⟨data, foreign⟩) := by
  rw [decodeICMPv6_eq, decodeICMPv6_eq]; simp only [SameResult, pureICMPv6]; split <;> simp

def decodeRS_resets_full : Prop :=
  ∀ (old : RS) (data foreign : Bytes),
    SameResult (decodeRS old ⟨data, foreign⟩) (decodeRS {} ⟨data, foreign⟩)

/-- RouterSolicitation.DecodeFromBytes does not assign BaseLayer (unlike the other NDP
    messages): Contents/Payload put there by hand survive. -/
theorem decodeRS_resets_counterexample : ¬ decodeRS_resets_full := by
  intro h
  have := h { contents := [1] } [0, 0, 0, 0] []
  rw [decodeRS_eq, decodeRS_eq] at this
  simp [SameResult, pureRS, parseOpts] at this

theorem decodeRS_resets_partial (old : RS) (data foreign : Bytes) :
    SameResult (decodeRS old ⟨data, foreign⟩)
      (decodeRS { contents := old.contents, payload := old.payload } ⟨data, foreign⟩) := by
  rw [decodeRS_eq, decodeRS_eq]; simp only [SameResult, pureRS]; split <;> simp

/-! ### independence from capacity and foreign bytes (also what C04 / C02 need) -/

/-- Any two buffers holding the same `len` bytes — whatever their capacity and whatever lies
    behind `len` — give the same outcome, for every kind and every old object. -/
theorem decode_cap_independent (old : AnyLayer) (data foreign foreign' : Bytes) :
    old.decode ⟨data, foreign⟩ = old.decode ⟨data, foreign'⟩ := by
  rw [decodeAny_eq, decodeAny_eq]

theorem decodeOpts_cap_independent (data foreign foreign' : Bytes) (acc : List Opt) :
    decodeOpts data.length ⟨data, foreign⟩ acc = decodeOpts data.length ⟨data, foreign'⟩ acc := by
  rw [decodeOpts_eq _ _ _ _ (Nat.le_refl _), decodeOpts_eq _ _ _ _ (Nat.le_refl _)]

/-! ### non-vacuity: a reused object with two stale options, then a packet with one -/

example : (decodeNS { targetAddress := [9], options := [⟨1, [1, 2, 3, 4, 5, 6]⟩, ⟨5, [0, 0, 0, 0, 5, 220]⟩],
                      contents := [1, 2], payload := [3] }
            ⟨List.replicate 20 7 ++ [2, 1, 10, 11, 12, 13, 14, 15], [0xee, 0xee]⟩) =
    .ok ⟨{ contents := List.replicate 20 7 ++ [2, 1, 10, 11, 12, 13, 14, 15], payload := [],
           targetAddress := List.replicate 16 7, options := [⟨2, [10, 11, 12, 13, 14, 15]⟩] },
         false, false⟩ := by decide

end Gp.C05.Icmp
