import Gp.Lemmas.Layers.Ntp
/-
  C05 (engine `lntp`) — NTP and VRRPv2 keep no stale state; results do not depend on the capacity of
  the packet buffer nor on the bytes behind the input; the packet path adds exactly the layer the
  preallocated path computes, with the same truncation flag.

  `X.decodeFromBytes old d` takes the receiver BEFORE the call (`old`) and the input as a Go slice
  with capacity (`d.vis` = data, `d.tail` = foreign bytes between len and cap).  Every field the Go
  code assigns is assigned in the model by an explicit update of `old`, so a field that the code set
  on some paths only would survive from `old` — the theorems below say that none does on success.

  `decodeVRRPFn` is `decodeVRRP` WITH proposed_fixes/lntp-1 (see `packet_layer_eq_direct_vrrp`).
-/
namespace Gp.C05.Ntp
open Gp Gp.Ntp

/-! ## NTP -/

/-- The outcome of `(*NTP).DecodeFromBytes` on at least 48 bytes, for every receiver, capacity and
    foreign bytes: the layer `ntpLayer` — a function of the visible bytes alone (the receiver does not
    occur in it: every field of the struct, the BaseLayer included, is assigned). -/
theorem decode_fn_of_bytes_ntp (old : NTP) (d : GSlice) (h : 48 ≤ d.len) :
    old.decodeFromBytes d = .ok { layer := ntpLayer d.vis, trunc := false, err := false } :=
  NTP.decode_long old d h

/-- No stale state: decoding into a re-used object = decoding into a fresh one (all fields,
    Contents, Payload, ExtensionBytes, truncation contribution on success; the same error otherwise). -/
theorem decode_resets (old : NTP) (data foreign : Bytes) :
    decodeNtp old data foreign = decodeNtp NTP.fresh data foreign := by
  unfold decodeNtp
  by_cases h : GSlice.len ⟨data, foreign⟩ < 48
  · rw [NTP.decode_short old _ h, NTP.decode_short NTP.fresh _ h]; rfl
  · rw [NTP.decode_long old _ (by omega), NTP.decode_long NTP.fresh _ (by omega)]

/-- A failed NTP decode leaves the receiver exactly as it was and sets the truncation flag. -/
theorem decode_error_keeps_receiver_ntp (old : NTP) (d : GSlice) (o : DecOut NTP)
    (h : old.decodeFromBytes d = .ok o) (he : o.err = true) : o.layer = old ∧ o.trunc = true := by
  by_cases hs : d.len < 48
  · rw [NTP.decode_short old d hs] at h; cases h; exact ⟨rfl, rfl⟩
  · rw [NTP.decode_long old d (by omega)] at h
    cases h; cases he

/-- Capacity independence (what C04 "NoCopy/Pool give identical results" and C02 "depends only on
    the bytes" need from this layer): spare capacity and its contents never influence the result —
    `data[48:]` ends at the LENGTH, the extension bytes never include foreign bytes. -/
theorem decode_cap_independent (old : NTP) (data foreign : Bytes) :
    decodeNtp old data foreign = decodeNtp old data [] := by
  unfold decodeNtp
  by_cases h : GSlice.len ⟨data, foreign⟩ < 48
  · rw [NTP.decode_short old _ h, NTP.decode_short old ⟨data, []⟩ h]
  · have h' : 48 ≤ GSlice.len ⟨data, []⟩ := by
      have : GSlice.len ⟨data, []⟩ = GSlice.len ⟨data, foreign⟩ := rfl
      omega
    rw [NTP.decode_long old _ (by omega), NTP.decode_long old ⟨data, []⟩ h']

/-- … for the full outcome, including the receiver left by a failed call. -/
theorem decode_cap_independent_full (old : NTP) (data foreign : Bytes) :
    old.decodeFromBytes ⟨data, foreign⟩ = old.decodeFromBytes ⟨data, []⟩ := by
  by_cases h : GSlice.len ⟨data, foreign⟩ < 48
  · rw [NTP.decode_short old _ h, NTP.decode_short old ⟨data, []⟩ h]
  · have h' : 48 ≤ GSlice.len ⟨data, []⟩ := by
      have : GSlice.len ⟨data, []⟩ = GSlice.len ⟨data, foreign⟩ := rfl
      omega
    rw [NTP.decode_long old _ (by omega), NTP.decode_long old ⟨data, []⟩ h']

/-- The packet path agrees with the preallocated path: `decodeNTP` adds exactly the layer a direct
    `DecodeFromBytes` into any re-used object yields, exactly when that decode succeeds, calls
    `SetTruncated` exactly when that decode does, registers the layer as application layer and ends
    the packet (no NextDecoder). -/
theorem packet_layer_eq_direct_ntp (old : NTP) (d : GSlice) :
    ∃ o, old.decodeFromBytes d = .ok o ∧
      ((o.err = true ∧ o.trunc = true ∧ decodeNTPFn d = .ok ({ acts := [Act.setTruncated], tail := .fail }, none)) ∨
       (o.err = false ∧ o.trunc = false ∧ decodeNTPFn d =
          .ok ({ acts := [Act.addLayer LayerTypeNTP, Act.setApplicationLayer LayerTypeNTP], tail := .done },
               some o.layer))) := by
  by_cases hs : d.len < 48
  · refine ⟨_, NTP.decode_short old d hs, Or.inl ⟨rfl, rfl, ?_⟩⟩
    unfold decodeNTPFn
    rw [NTP.decode_short _ d hs, Res.bind_ok]
    rfl
  · have hl : 48 ≤ d.len := by omega
    refine ⟨_, NTP.decode_long old d hl, Or.inr ⟨rfl, rfl, ?_⟩⟩
    unfold decodeNTPFn
    rw [NTP.decode_long _ d hl, Res.bind_ok]
    rfl

/-! ## VRRPv2 -/

/-- The outcome of `(*VRRPv2).DecodeFromBytes` on at least 8 bytes: the specification `vrrpDecSpec` —
    on success (`vrrpLayer`) a function of the visible bytes alone; `IPAddress` is rebuilt from nil. -/
theorem decode_fn_of_bytes_vrrp (old : VRRP) (d : GSlice) (h : 8 ≤ d.len) :
    old.decodeFromBytes d = .ok (vrrpDecSpec old d.vis) := VRRP.decode_long old d h

/-- No stale state (in particular no stale `IPAddress` entries: the slice is reset to nil before the
    address loop appends). -/
theorem decode_resets_vrrp (old : VRRP) (data foreign : Bytes) :
    decodeVrrpView old data foreign = decodeVrrpView VRRP.fresh data foreign := by
  unfold decodeVrrpView
  by_cases h : GSlice.len ⟨data, foreign⟩ < 8
  · rw [VRRP.decode_short old _ h, VRRP.decode_short VRRP.fresh _ h]; rfl
  · rw [VRRP.decode_long old _ (by omega), VRRP.decode_long VRRP.fresh _ (by omega)]
    obtain ⟨x1, x2, x3⟩ := vrrpDecSpec_err_indep old VRRP.fresh data
    simp only
    by_cases he : (vrrpDecSpec old data).err = true
    · rw [if_pos he, if_pos (by rw [← x1]; exact he)]
    · rw [if_neg he, if_neg (by rw [← x1]; exact he), x2, x3 (by simpa using he)]

/-- On success the address list has exactly `CountIPAddr` entries, entry `i` being the four input
    bytes at offset `8 + 4i`. -/
theorem decode_addresses_vrrp (old : VRRP) (d : GSlice) (o : DecOut VRRP)
    (h : old.decodeFromBytes d = .ok o) (he : o.err = false) :
    o.layer.ipAddress.length = o.layer.countIPAddr ∧ 1 ≤ o.layer.countIPAddr ∧
    ∀ i, i < o.layer.countIPAddr → o.layer.ipAddress[i]? = some ((d.vis.drop (8 + 4 * i)).take 4) := by
  by_cases hs : d.len < 8
  · rw [VRRP.decode_short old d hs] at h; cases h; cases he
  · rw [VRRP.decode_long old d (by omega)] at h; cases h
    unfold vrrpDecSpec at he ⊢
    split at he
    · cases he
    · split at he
      · cases he
      · split at he
        · cases he
        · rename_i h1 h2 h3
          rw [if_neg h1, if_neg h2, if_neg h3]
          exact ⟨vrrpAddrs_length _ _ _, by simp only [vrrpLayer]; omega, fun i hi => vrrpAddrs_get _ _ _ i hi⟩

/-- The decoder's type check (the literal `1` in vrrp.go) is the REGENERATED constant
    `VRRPv2Advertisement`: every successfully decoded message is an advertisement with at least one
    address, and `VRRPv2Type.String()` / `VRRPv2AuthType.String()` name exactly the values the shipped
    constants define (tables over the regenerated constants). -/
theorem decoded_type_is_advertisement (old : VRRP) (d : GSlice) (o : DecOut VRRP)
    (h : old.decodeFromBytes d = .ok o) (he : o.err = false) :
    o.layer.type = Gp.Gen.Ntp.vrrpv2Advertisement ∧ vrrpTypeString o.layer.type = 1 ∧
    (List.range 256).filter (fun v => vrrpTypeString v ≠ 0) = [1] ∧
    (List.range 256).filter (fun v => vrrpAuthTypeString v ≠ 0) = [0, 1, 2] := by
  have htab : (List.range 256).filter (fun v => vrrpTypeString v ≠ 0) = [1] ∧
      (List.range 256).filter (fun v => vrrpAuthTypeString v ≠ 0) = [0, 1, 2] := by decide
  by_cases hs : d.len < 8
  · rw [VRRP.decode_short old d hs] at h; cases h; cases he
  · rw [VRRP.decode_long old d (by omega)] at h; cases h
    unfold vrrpDecSpec at he ⊢
    split at he
    · cases he
    · split at he
      · cases he
      · split at he
        · cases he
        · rename_i h1 h2 h3
          rw [if_neg h1, if_neg h2, if_neg h3]
          have ht : (byteAt d.vis 0).toNat &&& 0x0F = 1 := by
            by_cases hx : (byteAt d.vis 0).toNat &&& 0x0F = 1
            · exact hx
            · exact absurd hx h1
          refine ⟨?_, ?_, htab.1, htab.2⟩
          · show (byteAt d.vis 0).toNat &&& 0x0F = Gp.Gen.Ntp.vrrpv2Advertisement
            rw [ht]; rfl
          · show vrrpTypeString ((byteAt d.vis 0).toNat &&& 0x0F) = 1
            rw [ht]; rfl

/-- What a FAILED decode leaves in the receiver: nothing is touched below 8 bytes; otherwise
    Contents/Payload/Version/Type are already overwritten ("unrecognized type"), and for the two
    count-related errors VirtualRtrID/Priority/CountIPAddr too — while AuthType, AdverInt, Checksum and
    the IPAddress list are still those of the previous packet: a half-updated object.  (Not a
    violation of the property: the call reports the error, the parser reports no layer, and
    `decode_resets_vrrp` shows the next successful decode does not depend on what is left here.) -/
theorem decode_error_receiver_vrrp (old : VRRP) (d : GSlice) (o : DecOut VRRP)
    (h : old.decodeFromBytes d = .ok o) (he : o.err = true) :
    (o.layer = old ∨ o.layer = vrrpHdr1 old d.vis ∨ o.layer = vrrpHdr2 old d.vis) ∧
    o.layer.authType = old.authType ∧ o.layer.adverInt = old.adverInt ∧
    o.layer.checksum = old.checksum ∧ o.layer.ipAddress = old.ipAddress := by
  by_cases hs : d.len < 8
  · rw [VRRP.decode_short old d hs] at h; cases h
    exact ⟨Or.inl rfl, rfl, rfl, rfl, rfl⟩
  · rw [VRRP.decode_long old d (by omega)] at h
    cases h
    unfold vrrpDecSpec at he ⊢
    split
    · exact ⟨Or.inr (Or.inl rfl), rfl, rfl, rfl, rfl⟩
    · split
      · exact ⟨Or.inr (Or.inr rfl), rfl, rfl, rfl, rfl⟩
      · split
        · exact ⟨Or.inr (Or.inr rfl), rfl, rfl, rfl, rfl⟩
        · rename_i h1 h2 h3
          rw [if_neg h1, if_neg h2, if_neg h3] at he; cases he

/-- Capacity independence: the address count taken from the packet is checked against the LENGTH,
    so spare capacity is never read — for the full outcome, including a failed call's receiver. -/
theorem decode_cap_independent_vrrp (old : VRRP) (data foreign : Bytes) :
    old.decodeFromBytes ⟨data, foreign⟩ = old.decodeFromBytes ⟨data, []⟩ := by
  by_cases h : GSlice.len ⟨data, foreign⟩ < 8
  · rw [VRRP.decode_short old _ h, VRRP.decode_short old ⟨data, []⟩ h]
  · have h' : 8 ≤ GSlice.len ⟨data, []⟩ := by
      have : GSlice.len ⟨data, []⟩ = GSlice.len ⟨data, foreign⟩ := rfl
      omega
    rw [VRRP.decode_long old _ (by omega), VRRP.decode_long old ⟨data, []⟩ h']

/-- `decodeVRRP` (with proposed_fixes/lntp-1) = `decodingLayerDecoder`: it adds exactly the layer a
    direct `DecodeFromBytes` into any re-used object yields, exactly when that decode succeeds; it
    calls `SetTruncated` exactly when the direct decode does (BEFORE the fix a too short input was
    rejected by a duplicated check without `SetTruncated`: the packet was not flagged, the parser
    was); no Set*Layer call; the packet ends (NextLayerType = Zero). -/
theorem packet_layer_eq_direct_vrrp (old : VRRP) (d : GSlice) :
    ∃ o, old.decodeFromBytes d = .ok o ∧
      ((o.err = true ∧ decodeVRRPFn d =
          .ok ({ acts := if o.trunc then [Act.setTruncated] else [], tail := .fail }, none)) ∨
       (o.err = false ∧ o.trunc = false ∧ decodeVRRPFn d =
          .ok ({ acts := [Act.addLayer LayerTypeVRRP], tail := .done }, some o.layer))) := by
  by_cases hs : d.len < 8
  · refine ⟨_, VRRP.decode_short old d hs, Or.inl ⟨rfl, ?_⟩⟩
    unfold decodeVRRPFn
    rw [VRRP.decode_short _ d hs, Res.bind_ok]
    rfl
  · have hl : 8 ≤ d.len := by omega
    refine ⟨_, VRRP.decode_long old d hl, ?_⟩
    obtain ⟨x1, x2, x3⟩ := vrrpDecSpec_err_indep old VRRP.fresh d.vis
    unfold decodeVRRPFn
    rw [VRRP.decode_long _ d hl, Res.bind_ok]
    by_cases he : (vrrpDecSpec old d.vis).err = true
    · refine Or.inl ⟨he, ?_⟩
      have he2 : (vrrpDecSpec VRRP.fresh d.vis).err = true := by rw [← x1]; exact he
      simp only [decodingLayerDecoder, pure, he2, if_true, x2]
    · have hef : (vrrpDecSpec old d.vis).err = false := by simpa using he
      have he2 : (vrrpDecSpec VRRP.fresh d.vis).err = false := by rw [← x1]; exact hef
      have ht : (vrrpDecSpec VRRP.fresh d.vis).trunc = false := by
        unfold vrrpDecSpec at he2 ⊢
        split
        · rfl
        · split
          · rfl
          · split
            · rename_i h1 h2 h3; rw [if_neg h1, if_neg h2, if_pos h3] at he2; cases he2
            · rfl
      refine Or.inr ⟨hef, by rw [x2]; exact ht, ?_⟩
      simp only [decodingLayerDecoder, pure, he2, ht, VRRP.nextLayerType, x3 hef]
      rfl

/-! ## The parser over the two layers (one object per type) -/

/-- No stale state through `DecodingLayerParser.DecodeLayers`: whatever the two layer objects held
    from earlier packets (including the half-updated VRRPv2 object a failed decode leaves), the run
    returns the same error code, the same list of decoded types, the same truncation flag, and every
    layer object whose type is in that list holds the same value (`DlpAgree`). -/
theorem dlp_resets (n1 n2 : NTP) (v1 v2 : VRRP) (first : Nat) (d : GSlice) :
    ∃ r1 r2 c, dlpDecodeLayers n1 v1 first d = .ok (r1, c) ∧ dlpDecodeLayers n2 v2 first d = .ok (r2, c) ∧
      DlpAgree r1 r2 :=
  dlpLoop_agree _ _ _ _ _ ⟨rfl, rfl, fun h => absurd h (List.not_mem_nil), fun h => absurd h (List.not_mem_nil)⟩

/-- … and it does not depend on the capacity of the packet buffer or the bytes behind the input. -/
theorem dlp_cap_independent (ntp : NTP) (vrrp : VRRP) (first : Nat) (v t1 t2 : Bytes) :
    dlpDecodeLayers ntp vrrp first { vis := v, tail := t1 } = dlpDecodeLayers ntp vrrp first { vis := v, tail := t2 } :=
  dlpLoop_cap _ _ _ v t1 t2

/-- The parser run from NTP equals the packet decoded from NTP: same (empty or one-element) run of
    layers, the same layer value, the same truncation flag (`SetTruncated` ∈ the decoder's actions);
    error code 1 exactly when the packet's decoder fails. -/
theorem dlp_eq_packet_ntp (ntp : NTP) (vrrp : VRRP) (d : GSlice) :
    ∃ r c b ol, dlpDecodeLayers ntp vrrp LayerTypeNTP d = .ok (r, c) ∧ decodeNTPFn d = .ok (b, ol) ∧
      r.trunc = b.acts.contains Act.setTruncated ∧
      ((ol = none ∧ r.decoded = [] ∧ c = 1 ∧ b.tail = .fail) ∨
       (ol = some r.ntp ∧ r.decoded = [LayerTypeNTP] ∧ c = 0 ∧ b.tail = .done)) := by
  unfold dlpDecodeLayers decodeNTPFn
  rw [dlpLoop_ntp]
  by_cases hs : d.len < 48
  · rw [if_pos hs, NTP.decode_short _ d hs, Res.bind_ok]
    exact ⟨_, _, _, _, rfl, rfl, rfl, Or.inl ⟨rfl, rfl, rfl, rfl⟩⟩
  · rw [if_neg hs, NTP.decode_long _ d (by omega), Res.bind_ok]
    exact ⟨_, _, _, _, rfl, rfl, rfl, Or.inr ⟨rfl, rfl, rfl, rfl⟩⟩

/-- The same for VRRPv2 (with proposed_fixes/lntp-1; without it the flags differ below 8 bytes). -/
theorem dlp_eq_packet_vrrp (ntp : NTP) (vrrp : VRRP) (d : GSlice) :
    ∃ r c b ol, dlpDecodeLayers ntp vrrp LayerTypeVRRP d = .ok (r, c) ∧ decodeVRRPFn d = .ok (b, ol) ∧
      r.trunc = b.acts.contains Act.setTruncated ∧
      ((ol = none ∧ r.decoded = [] ∧ c = 1 ∧ b.tail = .fail) ∨
       (ol = some r.vrrp ∧ r.decoded = [LayerTypeVRRP] ∧ c = 0 ∧ b.tail = .done)) := by
  unfold dlpDecodeLayers decodeVRRPFn
  rw [dlpLoop_vrrp]
  by_cases hs : d.len < 8
  · rw [if_pos hs, VRRP.decode_short _ d hs, Res.bind_ok]
    exact ⟨_, _, _, _, rfl, rfl, rfl, Or.inl ⟨rfl, rfl, rfl, rfl⟩⟩
  · rw [if_neg hs, VRRP.decode_long _ d (by omega), Res.bind_ok]
    obtain ⟨x1, x2, x3⟩ := vrrpDecSpec_err_indep vrrp VRRP.fresh d.vis
    simp only [pure, decodingLayerDecoder, VRRP.nextLayerType, Bool.false_or, if_true]
    by_cases he : (vrrpDecSpec vrrp d.vis).err = true
    · have he2 : (vrrpDecSpec VRRP.fresh d.vis).err = true := by rw [← x1]; exact he
      rw [if_pos he, if_pos he2]
      refine ⟨_, _, _, _, rfl, rfl, ?_, Or.inl ⟨rfl, rfl, rfl, rfl⟩⟩
      simp only [x2]
      cases (vrrpDecSpec VRRP.fresh d.vis).trunc <;> decide
    · have hef : (vrrpDecSpec vrrp d.vis).err = false := by simpa using he
      have he2 : ¬ (vrrpDecSpec VRRP.fresh d.vis).err = true := by rw [← x1]; exact he
      rw [if_neg he, if_neg he2]
      refine ⟨_, _, _, _, rfl, rfl, ?_, Or.inr ⟨by simp only [x3 hef], rfl, rfl, rfl⟩⟩
      simp only [x2]
      cases (vrrpDecSpec VRRP.fresh d.vis).trunc <;> decide

/-! ## Non-vacuity: receivers full of stale data, spare capacity full of foreign bytes -/

example :
    let stale : VRRP := { contents := [1], payload := [2, 3], version := 9, type := 9, virtualRtrID := 9, priority := 9,
                          countIPAddr := 3, authType := 9, adverInt := 9, checksum := 9,
                          ipAddress := [[9, 9, 9, 9], [8, 8, 8, 8], [7, 7, 7, 7]] }
    decodeVrrpView stale [0x21, 1, 100, 1, 0, 1, 0xba, 0x52, 192, 168, 0, 1] [0xEE, 0xEE] =
      .ok ({ contents := [0x21, 1, 100, 1, 0, 1, 0xba, 0x52, 192, 168, 0, 1], payload := [], version := 2, type := 1,
             virtualRtrID := 1, priority := 100, countIPAddr := 1, authType := 0, adverInt := 1, checksum := 0xba52,
             ipAddress := [[192, 168, 0, 1]] }, false) ∧
    -- the half-updated receivers of the three late error paths
    stale.decodeFromBytes ⟨[0x22, 1, 100, 1, 0, 1, 0, 0], []⟩ =
      .ok { layer := { stale with contents := [0x22, 1, 100, 1, 0, 1, 0, 0], payload := [], version := 2, type := 2 },
            trunc := false, err := true } ∧
    stale.decodeFromBytes ⟨[0x21, 1, 100, 0, 0, 1, 0, 0], []⟩ =
      .ok { layer := { stale with contents := [0x21, 1, 100, 0, 0, 1, 0, 0], payload := [], version := 2, type := 1,
                                  virtualRtrID := 1, priority := 100, countIPAddr := 0 },
            trunc := false, err := true } ∧
    stale.decodeFromBytes ⟨[0x21, 1, 100, 5, 0, 1, 0, 0], [1, 2, 3, 4]⟩ =
      .ok { layer := { stale with contents := [0x21, 1, 100, 5, 0, 1, 0, 0], payload := [], version := 2, type := 1,
                                  virtualRtrID := 1, priority := 100, countIPAddr := 5 },
            trunc := true, err := true } := by
  decide

/-- the parser: a failed VRRP decode (count too large), then NTP too short, in the same objects -/
example :
    (match dlpDecodeLayers NTP.fresh VRRP.fresh LayerTypeVRRP { vis := [0x21, 1, 100, 5, 0, 1, 0, 0, 1, 2, 3, 4], tail := [] } with
     | .ok (s, c) => some (s.decoded, c, s.vrrp.countIPAddr, s.trunc)
     | _ => none) = some ([], 1, 5, true) ∧
    (match dlpDecodeLayers NTP.fresh VRRP.fresh LayerTypeVRRP { vis := [0x21, 1, 100, 1, 0, 1, 0, 0, 1, 2, 3, 4], tail := [] } with
     | .ok (s, c) => some (s.decoded, c, s.vrrp.ipAddress, s.trunc)
     | _ => none) = some ([119], 0, [[1, 2, 3, 4]], false) ∧
    (match dlpDecodeLayers NTP.fresh VRRP.fresh 17 { vis := [1, 2, 3], tail := [] } with
     | .ok (s, c) => some (s.decoded, c)
     | _ => none) = some ([], 2) := by decide

end Gp.C05.Ntp
