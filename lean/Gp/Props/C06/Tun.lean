import Gp.Lemmas.Layers.TunRt
/-
  C06 — "Serialize then decode returns the same layers and payload": VXLAN, Geneve, GTPv1-U
  (engine `ltun`).  The models are the tree WITH proposed_fixes/ltun-1…6; the `_orig_counterexample`
  theorems are machine-checked witnesses that the unpatched decoders (`Variant` with the fix switched
  off) violate the property:
    ltun-1  Geneve Version decoded with `>> 7` but written with `<< 6`;
    ltun-3  a Geneve option may run past OptionsLength (the decoded layer then holds more option
            bytes than it announces; with > 252 bytes it cannot be written back);
    ltun-6  GTPv1-U: E flag with next-extension-type 0 is what SerializeTo writes for a layer with the
            flag and no headers, and the decoder rejected / misread it.
    ltun-2  the uint8 running offset wraps at 256: a VALID header with the maximal 252 bytes of options
            is split into a 4-byte Contents and a 258-byte Payload;

  NOT repaired, modelled as it is (known finding `ltun:roundtrip:GTPv1U:ProtocolType|Reserved`):
  GTPv1U.SerializeTo hard-codes protocol type 1 and never writes the reserved bit.  Hence
  `decoded_wf_gtp_full` / `roundtrip_decoded_gtp_full` are FALSE (counterexamples below) and the proved
  statements are `decoded_wf_gtp_partial`, `roundtrip_gtp` (under `wf`, which fixes the two bits) and
  `roundtrip_gtp_core` (every in-range layer comes back with exactly these two fields overwritten).
-/
namespace Gp.C06.Tun
open Gp Gp.Tun Gp.SBuf

/-! ### VXLAN -/

/-- a concrete, non-trivial well-formed layer (GBP extension in use). -/
def sampleVxlan : Vxlan.Layer :=
  { Vxlan.Layer.fresh with validIDFlag := true, vni := 0xabcdef, gbpExtension := true,
                           gbpApplied := true, gbpGroupPolicyID := 0x1234 }

example : Vxlan.wf sampleVxlan := by decide
example : ¬ Vxlan.wf { sampleVxlan with vni := 0x1000000 } := by decide

/-- Every layer DecodeFromBytes produces is well-formed. -/
theorem decoded_wf_vxlan (old : Vxlan.Layer) (data foreign : Bytes) (l : Vxlan.Layer) (t : Bool)
    (h : Vxlan.decode old data foreign = .ok (l, t)) : Vxlan.wf l := by
  rw [Vxlan.decode_cases] at h
  cases hs : Vxlan.spec data with
  | none => rw [hs] at h; cases h
  | some l' =>
    rw [hs] at h
    simp only [Res.ok.injEq, Prod.mk.injEq] at h
    rw [← h.1]
    exact Vxlan.spec_wf data l' hs

/-- **Round trip.**  For every well-formed layer, every payload already in the buffer, every buffer
    history (`Inv`), all four option sets, decoding into any object from a buffer of any capacity:
    SerializeTo succeeds and leaves the layer alone; decoding the produced bytes succeeds without
    error and without the truncation flag; the decoded layer has the same field values, its payload
    is the original payload and Contents ++ Payload are the bytes. -/
theorem roundtrip_vxlan (l : Vxlan.Layer) (b : SBuf) (opts : Opts) (old : Vxlan.Layer) (foreign : Bytes)
    (hwf : Vxlan.wf l) (hb : Gp.C18.Inv b) :
    ∃ b' d, Vxlan.serialize l b opts = .ok (b', l) ∧
      Vxlan.decode old (contents b') foreign = .ok (d, false) ∧
      Vxlan.sameFields d l ∧ d.payload = contents b ∧ d.contents ++ d.payload = contents b' := by
  obtain ⟨b', hser, _, hcont⟩ := Vxlan.serialize_spec l b opts hb
  have herr : Vxlan.serErr l = false := by
    unfold Vxlan.serErr; have := hwf.1; simp only [decide_eq_false_iff_not]; omega
  have hc := hcont herr
  refine ⟨b', { l with contents := Vxlan.encode l, payload := contents b }, ?_, ?_, ?_, rfl, ?_⟩
  · unfold Vxlan.serialize serView; rw [hser, herr]; rfl
  · rw [Vxlan.decode_cases, hc, Vxlan.spec_encode l (contents b) hwf]
  · exact ⟨rfl, rfl, rfl, rfl, rfl, rfl⟩
  · rw [hc]

/-- **Re-serialization fixpoint.**  Writing the decoded layer once more — into ANY buffer that holds
    the decoded payload — reproduces the same bytes. -/
theorem reserialize_fixpoint_vxlan (l : Vxlan.Layer) (b b₂ : SBuf) (opts : Opts) (old : Vxlan.Layer)
    (foreign : Bytes) (hwf : Vxlan.wf l) (hb : Gp.C18.Inv b) (hb₂ : Gp.C18.Inv b₂) :
    ∃ b' d, Vxlan.serialize l b opts = .ok (b', l) ∧
      Vxlan.decode old (contents b') foreign = .ok (d, false) ∧
      (contents b₂ = d.payload →
        ∃ b₃, Vxlan.serialize d b₂ opts = .ok (b₃, d) ∧ contents b₃ = contents b') := by
  obtain ⟨b', hser, _, hcont⟩ := Vxlan.serialize_spec l b opts hb
  have herr : Vxlan.serErr l = false := by
    unfold Vxlan.serErr; have := hwf.1; simp only [decide_eq_false_iff_not]; omega
  have hc := hcont herr
  refine ⟨b', { l with contents := Vxlan.encode l, payload := contents b }, ?_, ?_, ?_⟩
  · unfold Vxlan.serialize serView; rw [hser, herr]; rfl
  · rw [Vxlan.decode_cases, hc, Vxlan.spec_encode l (contents b) hwf]
  · intro hp
    obtain ⟨b₃, hs3, _, hc3⟩ := Vxlan.serialize_spec { l with contents := Vxlan.encode l, payload := contents b } b₂ opts hb₂
    have herr3 : Vxlan.serErr { l with contents := Vxlan.encode l, payload := contents b } = false := herr
    refine ⟨b₃, ?_, ?_⟩
    · unfold Vxlan.serialize serView; rw [hs3, herr3]; rfl
    · rw [hc3 herr3, hc, hp]; rfl

/-! ### Geneve -/

/-- a concrete, non-trivial well-formed layer: version 2, both flags, three options (0, 4 and 8 data
    bytes), length fields deliberately wrong (FixLengths repairs them). -/
def sampleGeneve : Geneve.Layer :=
  { Geneve.Layer.fresh with
    version := 2, optionsLength := 77, oamPacket := true, criticalOption := true,
    protocol := 0x6558, vni := 0xffffff,
    options := [⟨0x0102, 0x80, 5, 0, [1, 2, 3, 4]⟩, ⟨0xffff, 1, 0, 99, []⟩, ⟨3, 2, 7, 12, [1, 2, 3, 4, 5, 6, 7, 8]⟩] }

example : Geneve.wf sampleGeneve := by decide
example : ¬ Geneve.wf { sampleGeneve with version := 4 } := by decide
example : ¬ Geneve.wf { sampleGeneve with options := [⟨1, 1, 0, 0, [1, 2, 3]⟩] } := by decide

/-- Every layer DecodeFromBytes produces is well-formed — even canonical: its OptionsLength is the sum
    of its option sizes and every option's Length is 4 + |Data| (needs ltun-3). -/
theorem decoded_wf_geneve (old : Geneve.Layer) (data foreign : Bytes) (l : Geneve.Layer) (t : Bool)
    (h : Geneve.decode old data foreign = .ok (l, t)) : Geneve.wf l ∧ Geneve.canonical l := by
  rw [Geneve.decode_cases] at h
  have hc := (Geneve.spec_canonical data l t h).1
  exact ⟨Geneve.canonical_wf l hc, hc⟩

/-- **Round trip** (FixLengths on, as the property states; ComputeChecksums is not consulted). -/
theorem roundtrip_geneve (l : Geneve.Layer) (b : SBuf) (csum : Bool) (old : Geneve.Layer) (foreign : Bytes)
    (hwf : Geneve.wf l) (hb : Gp.C18.Inv b) :
    ∃ b' d, Geneve.serialize l b ⟨true, csum⟩ = .ok (b', Geneve.mutated l ⟨true, csum⟩) ∧
      Geneve.decode old (contents b') foreign = .ok (d, false) ∧
      Geneve.sameFields d (Geneve.mutated l ⟨true, csum⟩) ∧
      d.payload = contents b ∧ d.contents ++ d.payload = contents b' := by
  obtain ⟨b', hser, _, hcont⟩ := Geneve.serialize_spec l b ⟨true, csum⟩ hb
  have herr := Geneve.wf_serErr l hwf
  have hc := hcont herr
  have hcan := Geneve.mutated_canonical l csum hwf
  have hafter : Geneve.after l ⟨true, csum⟩ = Geneve.mutated l ⟨true, csum⟩ := by
    unfold Geneve.after; rw [herr]; rfl
  generalize Geneve.mutated l ⟨true, csum⟩ = l' at hc hcan hafter
  refine ⟨b', { l' with contents := Geneve.encode l', payload := contents b }, ?_, ?_, ?_, rfl, ?_⟩
  · unfold Geneve.serialize serView; rw [hser, herr, hafter]; rfl
  · rw [Geneve.decode_cases, hc, Geneve.spec_encode l' (contents b) hcan]
  · exact ⟨rfl, rfl, rfl, rfl, rfl, rfl, rfl⟩
  · rw [hc]

/-- For a canonical layer — in particular for every DECODED layer — the round trip holds for all four
    option sets and returns the fields exactly (no mutation at all). -/
theorem roundtrip_canonical_geneve (l : Geneve.Layer) (b : SBuf) (opts : Opts) (old : Geneve.Layer)
    (foreign : Bytes) (hcan : Geneve.canonical l) (hb : Gp.C18.Inv b) :
    ∃ b' d, Geneve.serialize l b opts = .ok (b', l) ∧
      Geneve.decode old (contents b') foreign = .ok (d, false) ∧
      Geneve.sameFields d l ∧ d.payload = contents b ∧ d.contents ++ d.payload = contents b' := by
  obtain ⟨b', hser, _, hcont⟩ := Geneve.serialize_spec l b opts hb
  have herr := Geneve.wf_serErr l (Geneve.canonical_wf l hcan)
  have hc := hcont herr
  have hmut := Geneve.canonical_mutated l opts hcan
  have hafter : Geneve.after l opts = l := by unfold Geneve.after; rw [herr, ← hmut]; simp [hmut]
  rw [hmut] at hc
  refine ⟨b', { l with contents := Geneve.encode l, payload := contents b }, ?_, ?_, ?_, rfl, ?_⟩
  · unfold Geneve.serialize serView; rw [hser, herr, hafter]; rfl
  · rw [Geneve.decode_cases, hc, Geneve.spec_encode l (contents b) hcan]
  · exact ⟨rfl, rfl, rfl, rfl, rfl, rfl, rfl⟩
  · rw [hc]

/-- **Re-serialization fixpoint**: the decoded layer, written again into any buffer holding its
    payload, reproduces the bytes and is left unchanged. -/
theorem reserialize_fixpoint_geneve (l : Geneve.Layer) (b b₂ : SBuf) (csum : Bool) (old : Geneve.Layer)
    (foreign : Bytes) (hwf : Geneve.wf l) (hb : Gp.C18.Inv b) (hb₂ : Gp.C18.Inv b₂) :
    ∃ b' d, Geneve.serialize l b ⟨true, csum⟩ = .ok (b', Geneve.mutated l ⟨true, csum⟩) ∧
      Geneve.decode old (contents b') foreign = .ok (d, false) ∧
      (contents b₂ = d.payload →
        ∃ b₃, Geneve.serialize d b₂ ⟨true, csum⟩ = .ok (b₃, d) ∧ contents b₃ = contents b') := by
  obtain ⟨b', hser, _, hcont⟩ := Geneve.serialize_spec l b ⟨true, csum⟩ hb
  have herr := Geneve.wf_serErr l hwf
  have hc := hcont herr
  have hcan := Geneve.mutated_canonical l csum hwf
  have hafter : Geneve.after l ⟨true, csum⟩ = Geneve.mutated l ⟨true, csum⟩ := by
    unfold Geneve.after; rw [herr]; rfl
  generalize Geneve.mutated l ⟨true, csum⟩ = l' at hc hcan hafter
  refine ⟨b', { l' with contents := Geneve.encode l', payload := contents b }, ?_, ?_, ?_⟩
  · unfold Geneve.serialize serView; rw [hser, herr, hafter]; rfl
  · rw [Geneve.decode_cases, hc, Geneve.spec_encode l' (contents b) hcan]
  · intro hp
    have hp' : contents b₂ = contents b := hp
    have hcan3 : Geneve.canonical { l' with contents := Geneve.encode l', payload := contents b } := hcan
    obtain ⟨b₃, hs3, _, hc3⟩ := Geneve.serialize_spec
      { l' with contents := Geneve.encode l', payload := contents b } b₂ ⟨true, csum⟩ hb₂
    have herr3 := Geneve.wf_serErr _ (Geneve.canonical_wf _ hcan3)
    have hmut3 := Geneve.canonical_mutated _ ⟨true, csum⟩ hcan3
    have hafter3 : Geneve.after { l' with contents := Geneve.encode l', payload := contents b } ⟨true, csum⟩
        = { l' with contents := Geneve.encode l', payload := contents b } := by
      unfold Geneve.after; rw [herr3]
      simp only [Bool.false_eq_true, if_false]
      exact hmut3
    refine ⟨b₃, ?_, ?_⟩
    · unfold Geneve.serialize serView; rw [hs3, herr3, hafter3]; rfl
    · rw [hc3 herr3, hmut3, hc, hp']
      rfl

/-! #### witnesses for the defects of the unpatched Geneve decoder -/

/-- ltun-1, ORIGINAL shift: Geneve{Version: 1} is written as 0x40 and read back as version 0. -/
theorem roundtrip_geneve_orig_counterexample_version :
    ∃ l bytes d, Geneve.wf l ∧ outBytes (Geneve.serializeTo l (SBuf.new 0 0) ⟨true, true⟩) = some bytes ∧
      Geneve.decodeV ⟨false, true, true⟩ Geneve.Layer.fresh bytes [] = .ok (d, false) ∧ d.version ≠ l.version :=
  ⟨{ Geneve.Layer.fresh with version := 1, protocol := 0x6558, vni := 5 },
   [0x40, 0, 0x65, 0x58, 0, 0, 5, 0],
   { Geneve.Layer.fresh with contents := [0x40, 0, 0x65, 0x58, 0, 0, 5, 0], protocol := 0x6558, vni := 5 },
   by decide, by decide, by decide, by decide⟩

/-- ltun-3, ORIGINAL loop (no overrun check): a header announcing 4 bytes of options followed by an
    8-byte option decodes without error into a layer that holds MORE option bytes than it announces —
    which `decoded_wf_geneve` (canonical) excludes for the patched code. -/
theorem decoded_canonical_geneve_orig_counterexample :
    ∃ data l, Geneve.decodeV ⟨true, true, false⟩ Geneve.Layer.fresh data [] = .ok (l, false) ∧
      Geneve.optsSize l.options > l.optionsLength :=
  ⟨[1, 0, 0x65, 0x58, 0, 0, 1, 0, 0, 1, 2, 1, 9, 9, 9, 9, 0xaa],
   { Geneve.Layer.fresh with
     contents := [1, 0, 0x65, 0x58, 0, 0, 1, 0, 0, 1, 2, 1, 9, 9, 9, 9], payload := [0xaa],
     optionsLength := 4, protocol := 0x6558, vni := 1, options := [⟨1, 2, 0, 8, [9, 9, 9, 9]⟩] },
   by decide, by decide⟩

/-- a valid Geneve packet with the largest options area the format admits: 63 four-byte options. -/
def maxOptsPacket : Bytes :=
  [63, 0, 8, 0, 0, 0, 9, 0] ++ (List.replicate 63 [0, 1, 2, 0]).flatten ++ [0xaa, 0xbb]

set_option maxRecDepth 100000 in
/-- ltun-2, ORIGINAL uint8 offset: after 62 options the offset is 256 ≡ 0, the loop parses the start
    of the packet as the 63rd option and the layer is split at offset 4 — (|Contents|, |Payload|,
    #options) = (4, 258, 63); the patched decoder gives (260, 2, 63). -/
theorem roundtrip_geneve_orig_counterexample_offset_wrap :
    (match Geneve.decodeV ⟨true, false, false⟩ Geneve.Layer.fresh maxOptsPacket [] with
      | .ok (l, _) => (l.contents.length, l.payload.length, l.options.length)
      | _ => (0, 0, 0)) = (4, 258, 63) ∧
    (match Geneve.decode Geneve.Layer.fresh maxOptsPacket [] with
      | .ok (l, _) => (l.contents.length, l.payload.length, l.options.length)
      | _ => (0, 0, 0)) = (260, 2, 63) := by
  decide

/-- …and the patched decoder rejects that packet (no truncation flag: nothing is missing). -/
example : Geneve.decode Geneve.Layer.fresh [1, 0, 0x65, 0x58, 0, 0, 1, 0, 0, 1, 2, 1, 9, 9, 9, 9, 0xaa] [] =
    .err "geneve option exceeds the options length" := by decide

/-! ### GTPv1-U -/

/-- a concrete, non-trivial well-formed layer: sequence number, N-PDU, two extension headers, the
    E flag NOT set by the caller and a wrong MessageLength (SerializeTo repairs both). -/
def sampleGtp : Gtp.Layer :=
  { Gtp.Layer.fresh with
    version := 1, protocolType := 1, sequenceNumberFlag := true, npduFlag := true,
    messageType := 255, messageLength := 3, teid := 0xdeadbeef, sequenceNumber := 0xbeef, npdu := 0x7f,
    extensionHeaders := [⟨0x85, [0x10, 0x09]⟩, ⟨0xc0, [1, 2, 3, 4, 5, 6]⟩] }

example : Gtp.wf sampleGtp := by decide
example : ¬ Gtp.wf { sampleGtp with protocolType := 0 } := by decide
example : ¬ Gtp.wf { sampleGtp with sequenceNumberFlag := false } := by decide
example : ¬ Gtp.wf { sampleGtp with extensionHeaders := [⟨0, [1, 2]⟩] } := by decide

/-- Every layer DecodeFromBytes produces is in range (wfCore) and consistent (needs ltun-5: without
    the reset a reused object could carry a sequence number with the S flag clear; and ltun-6). -/
theorem decoded_wfCore_gtp (old : Gtp.Layer) (data foreign : Bytes) (l : Gtp.Layer) (t : Bool)
    (h : Gtp.decode old data foreign = .ok (l, t)) :
    Gtp.wfCore l ∧ Gtp.consistent l ∧ l.protocolType ≤ 1 ∧ l.reserved ≤ 1 := by
  rw [Gtp.decode_cases] at h
  obtain ⟨h1, h2, _, _, _, h6, h7, _⟩ := Gtp.spec_wfCore data l t h
  exact ⟨h1, h2, h6, h7⟩

/-- full strength ("every decoded layer is wf", wf fixing ProtocolType = 1 and Reserved = 0, the only
    values SerializeTo writes) — FALSE for the code as it is: -/
def decoded_wf_gtp_full : Prop :=
  ∀ (old : Gtp.Layer) (data foreign : Bytes) (l : Gtp.Layer) (t : Bool),
    Gtp.decode old data foreign = .ok (l, t) → Gtp.wf l

theorem decoded_wf_gtp_counterexample : ¬ decoded_wf_gtp_full := by
  intro h
  have := h Gtp.Layer.fresh [0x20, 0xff, 0, 0, 0, 0, 0, 1] []
    { Gtp.Layer.fresh with contents := [0x20, 0xff, 0, 0, 0, 0, 0, 1], version := 1, messageType := 255, teid := 1 }
    false (by decide)
  revert this
  decide

/-- what IS true: a decoded layer is wf whenever bits 4 and 3 of the first input byte are 1 and 0
    (GTP, spare bit clear) — all other clauses of `wf` hold for every decoded layer. -/
theorem decoded_wf_gtp_partial (old : Gtp.Layer) (d0 : UInt8) (rest foreign : Bytes) (l : Gtp.Layer) (t : Bool)
    (h : Gtp.decode old (d0 :: rest) foreign = .ok (l, t))
    (hpt : (d0.toNat >>> 4) &&& 0x01 = 1) (hr : (d0.toNat >>> 3) &&& 0x01 = 0) : Gtp.wf l := by
  rw [Gtp.decode_cases] at h
  obtain ⟨h1, _, _, _, _, _, _, h8⟩ := Gtp.spec_wfCore (d0 :: rest) l t h
  obtain ⟨e1, e2⟩ := h8 d0 rest rfl
  exact ⟨h1, by rw [e1, hpt], by rw [e2, hr]⟩

/-- **Round trip, every in-range layer** (FixLengths on): SerializeTo succeeds; the bytes decode
    without error and without truncation flag into the serialized (mutated) layer with ProtocolType
    and Reserved overwritten by 1 and 0 — every other field, the extension headers in order, and the
    payload come back exactly. -/
theorem roundtrip_gtp_core (l : Gtp.Layer) (b : SBuf) (csum : Bool) (old : Gtp.Layer) (foreign : Bytes)
    (hwf : Gtp.wfCore l) (hb : Gp.C18.Inv b) :
    ∃ b' d, Gtp.serialize l b ⟨true, csum⟩ = .ok (b', Gtp.mutated l ⟨true, csum⟩ (contents b)) ∧
      Gtp.decode old (contents b') foreign = .ok (d, false) ∧
      Gtp.sameFields d (Gtp.asWritten (Gtp.mutated l ⟨true, csum⟩ (contents b))) ∧
      d.payload = contents b ∧ d.contents ++ d.payload = contents b' := by
  obtain ⟨b', hser, _, hcont⟩ := Gtp.serialize_spec l b ⟨true, csum⟩ hb
  have herr := Gtp.wfCore_serErr l hwf
  have hc := hcont herr
  obtain ⟨hw', hcons, hml⟩ := Gtp.mutated_fix_ok l csum (contents b) hwf
  generalize Gtp.mutated l ⟨true, csum⟩ (contents b) = l' at hser hc hw' hcons hml
  refine ⟨b', { Gtp.asWritten l' with contents := Gtp.encode l', payload := contents b }, ?_, ?_, ?_, rfl, ?_⟩
  · unfold Gtp.serialize serView; rw [hser, herr]; rfl
  · rw [Gtp.decode_cases, hc, Gtp.spec_encode l' (contents b) hw' hcons hml]
  · exact ⟨rfl, rfl, rfl, rfl, rfl, rfl, rfl, rfl, rfl, rfl, rfl, rfl⟩
  · rw [hc]

/-- **Round trip** for well-formed layers: all fields. -/
theorem roundtrip_gtp (l : Gtp.Layer) (b : SBuf) (csum : Bool) (old : Gtp.Layer) (foreign : Bytes)
    (hwf : Gtp.wf l) (hb : Gp.C18.Inv b) :
    ∃ b' d, Gtp.serialize l b ⟨true, csum⟩ = .ok (b', Gtp.mutated l ⟨true, csum⟩ (contents b)) ∧
      Gtp.decode old (contents b') foreign = .ok (d, false) ∧
      Gtp.sameFields d (Gtp.mutated l ⟨true, csum⟩ (contents b)) ∧
      d.payload = contents b ∧ d.contents ++ d.payload = contents b' := by
  obtain ⟨b', d, h1, h2, h3, h4, h5⟩ := roundtrip_gtp_core l b csum old foreign hwf.1 hb
  refine ⟨b', d, h1, h2, ?_, h4, h5⟩
  have : Gtp.asWritten (Gtp.mutated l ⟨true, csum⟩ (contents b)) = Gtp.mutated l ⟨true, csum⟩ (contents b) := by
    rw [← Gtp.mutated_asWritten, Gtp.wf_asWritten l hwf]
  rw [this] at h3
  exact h3

/-- full strength for DECODED layers ("a layer obtained by decoding comes back with the same field
    values") — FALSE for the code as it is (known finding): -/
def roundtrip_decoded_gtp_full : Prop :=
  ∀ (data : Bytes) (l : Gtp.Layer), Gtp.decode Gtp.Layer.fresh data [] = .ok (l, false) →
    ∀ bytes, outBytes (Gtp.serializeTo l (putPayload (SBuf.new 0 0) l.payload) ⟨true, true⟩) = some bytes →
      ∃ d, Gtp.decode Gtp.Layer.fresh bytes [] = .ok (d, false) ∧ Gtp.sameFields d l

set_option maxRecDepth 4000 in
/-- a GTP' header (protocol type 0) is decoded as such and written back as GTP (protocol type 1). -/
theorem roundtrip_decoded_gtp_counterexample : ¬ roundtrip_decoded_gtp_full := by
  intro h
  obtain ⟨d, hd, hs⟩ := h [0x20, 0xff, 0, 0, 0, 0, 0, 1]
    { Gtp.Layer.fresh with contents := [0x20, 0xff, 0, 0, 0, 0, 0, 1], version := 1, messageType := 255, teid := 1 }
    (by decide) [0x30, 0xff, 0, 0, 0, 0, 0, 1] (by decide)
  have hd' : Gtp.decode Gtp.Layer.fresh [0x30, 0xff, 0, 0, 0, 0, 0, 1] [] =
      .ok ({ Gtp.Layer.fresh with contents := [0x30, 0xff, 0, 0, 0, 0, 0, 1], version := 1, protocolType := 1,
                                   messageType := 255, teid := 1 }, false) := by decide
  rw [hd'] at hd
  simp only [Res.ok.injEq, Prod.mk.injEq, and_true] at hd
  rw [← hd] at hs
  exact absurd hs.2.1 (by decide)

/-- what IS true for decoded layers (`_partial`): everything except the two bits comes back. -/
theorem roundtrip_decoded_gtp_partial (old : Gtp.Layer) (data foreign : Bytes) (l : Gtp.Layer) (t : Bool)
    (b : SBuf) (csum : Bool) (hdec : Gtp.decode old data foreign = .ok (l, t)) (hb : Gp.C18.Inv b) :
    ∃ b' d, Gtp.serialize l b ⟨true, csum⟩ = .ok (b', Gtp.mutated l ⟨true, csum⟩ (contents b)) ∧
      Gtp.decode old (contents b') foreign = .ok (d, false) ∧
      Gtp.sameFields d (Gtp.asWritten (Gtp.mutated l ⟨true, csum⟩ (contents b))) ∧
      d.payload = contents b ∧ d.contents ++ d.payload = contents b' :=
  roundtrip_gtp_core l b csum old foreign (decoded_wfCore_gtp old data foreign l t hdec).1 hb

/-- **Re-serialization fixpoint**, every in-range layer: the decoded layer, written again over its
    payload, reproduces the bytes (protocol type / reserved do not reach the wire either time). -/
theorem reserialize_fixpoint_gtp (l : Gtp.Layer) (b b₂ : SBuf) (csum : Bool) (old : Gtp.Layer)
    (foreign : Bytes) (hwf : Gtp.wfCore l) (hb : Gp.C18.Inv b) (hb₂ : Gp.C18.Inv b₂) :
    ∃ b' d, Gtp.serialize l b ⟨true, csum⟩ = .ok (b', Gtp.mutated l ⟨true, csum⟩ (contents b)) ∧
      Gtp.decode old (contents b') foreign = .ok (d, false) ∧
      (contents b₂ = d.payload →
        ∃ b₃, Gtp.serialize d b₂ ⟨true, csum⟩ = .ok (b₃, d) ∧ contents b₃ = contents b') := by
  obtain ⟨b', hser, _, hcont⟩ := Gtp.serialize_spec l b ⟨true, csum⟩ hb
  have herr := Gtp.wfCore_serErr l hwf
  have hc := hcont herr
  obtain ⟨hw', hcons, hml⟩ := Gtp.mutated_fix_ok l csum (contents b) hwf
  have hidem := Gtp.mutated_idem l ⟨true, csum⟩ (contents b)
  generalize Gtp.mutated l ⟨true, csum⟩ (contents b) = l' at hser hc hw' hcons hml hidem
  refine ⟨b', { Gtp.asWritten l' with contents := Gtp.encode l', payload := contents b }, ?_, ?_, ?_⟩
  · unfold Gtp.serialize serView; rw [hser, herr]; rfl
  · rw [Gtp.decode_cases, hc, Gtp.spec_encode l' (contents b) hw' hcons hml]
  · intro hp
    have hp' : contents b₂ = contents b := hp
    obtain ⟨b₃, hs3, _, hc3⟩ := Gtp.serialize_spec
      { Gtp.asWritten l' with contents := Gtp.encode l', payload := contents b } b₂ ⟨true, csum⟩ hb₂
    have herr3 : Gtp.serErr { Gtp.asWritten l' with contents := Gtp.encode l', payload := contents b } = false := by
      have : Gtp.serErr { Gtp.asWritten l' with contents := Gtp.encode l', payload := contents b } = Gtp.serErr l' := rfl
      rw [this]; exact Gtp.wfCore_serErr l' hw'
    have hmut3 : Gtp.mutated { Gtp.asWritten l' with contents := Gtp.encode l', payload := contents b } ⟨true, csum⟩ (contents b₂)
        = { Gtp.asWritten l' with contents := Gtp.encode l', payload := contents b } := by
      rw [hp']
      have h1 : ∀ (x : Gtp.Layer) (c p : Bytes), Gtp.mutated { x with contents := c, payload := p } ⟨true, csum⟩ (contents b)
          = { Gtp.mutated x ⟨true, csum⟩ (contents b) with contents := c, payload := p } := by
        intro x c p
        unfold Gtp.mutated Gtp.fixML Gtp.serErr
        simp only
        split <;> rfl
      rw [h1, Gtp.mutated_asWritten, hidem]
    refine ⟨b₃, ?_, ?_⟩
    · unfold Gtp.serialize serView; rw [hs3, herr3, hmut3]; rfl
    · rw [hc3 herr3, hmut3, hc, hp']
      rfl

/-! #### witness for the defect of the unpatched GTPv1-U decoder -/

set_option maxRecDepth 4000 in
/-- ltun-6, ORIGINAL loop entry (`extensionFlag := true`): what SerializeTo writes for a well-formed
    layer with the E flag and no extension header does not decode. -/
theorem roundtrip_gtp_orig_counterexample_eflag :
    ∃ l bytes, Gtp.wf l ∧
      outBytes (Gtp.serializeTo l (putPayload (SBuf.new 0 0) [1, 2, 3, 4, 5]) ⟨true, true⟩) = some bytes ∧
      Gtp.decodeV ⟨true, false⟩ Gtp.Layer.fresh bytes [] = .err "GTP packet with invalid extension header" :=
  ⟨{ Gtp.Layer.fresh with version := 1, protocolType := 1, extensionHeaderFlag := true, messageType := 255, teid := 1 },
   [0x34, 0xff, 0, 9, 0, 0, 0, 1, 0, 0, 0, 0, 1, 2, 3, 4, 5], by decide, by decide, by decide⟩

set_option maxRecDepth 8000 in
/-- concrete instances with everything switched on: the witnesses of `wf` round-trip through a buffer
    that held 0xA5 bytes before. -/
example :
    (match Geneve.serializeTo sampleGeneve (putPayload (SBuf.clear (SBuf.fill (SBuf.prepend (SBuf.new 0 0) 40).1
        (SBuf.prepend (SBuf.new 0 0) 40).2 (List.replicate 40 0xA5))) [1, 2, 3]) ⟨true, true⟩ with
     | .ok o =>
       (match Geneve.decode Geneve.Layer.fresh (contents o.buf) [] with
        | .ok (d, t) => decide (Geneve.sameFields d o.layer) && !t && d.payload == [1, 2, 3] && o.layer.optionsLength == 24
        | _ => false)
     | _ => false) = true := by decide
set_option maxRecDepth 8000 in
example :
    (match Gtp.serializeTo sampleGtp (putPayload (SBuf.clear (SBuf.fill (SBuf.prepend (SBuf.new 0 0) 40).1
        (SBuf.prepend (SBuf.new 0 0) 40).2 (List.replicate 40 0xA5))) [0x45, 2, 3]) ⟨true, true⟩ with
     | .ok o =>
       (match Gtp.decode Gtp.Layer.fresh (contents o.buf) [] with
        | .ok (d, t) => decide (Gtp.sameFields d o.layer) && !t && d.payload == [0x45, 2, 3] &&
                        o.layer.extensionHeaderFlag && o.layer.messageLength == 19
        | _ => false)
     | _ => false) = true := by decide

end Gp.C06.Tun
