import Gp.Lemmas.Layers.RadiusRt
/-
  C06 (engine `lradius`) — serialize then decode returns the same RADIUS layer.

  `wfRadius` (Gp/Lemmas/Layers/RadiusRt.lean) is the explicit, decidable in-range predicate: uint8
  Code/Identifier and attribute types, the 16 authenticator bytes, attribute values of 1..253 bytes,
  at most 4096 bytes in all.  The Length fields (of the message and of each attribute) are free:
  FixLengths sets them.  `radiusWant l` is `l` with those fields fixed.

  The payload of a RADIUS layer travels INSIDE the message: `Payload()` is the concatenation of the
  EAP-Message attribute values (`eapPayload`).  Bytes already in the serialize buffer end up BEHIND the
  message, where the decoder treats them as padding (RFC 2865 §3; Contents keeps them, the truncation
  flag is set).  `roundtrip` states what happens for every buffer content; the property's clause
  (same layer, same payload, no error, no truncation flag) is `roundtrip_leaf` (empty buffer).

  The theorems are about `.fixed` = the tree with proposed_fixes/lradius-2: the pinned SerializeTo
  writes `len(Value)` instead of `len(Value)+2` into the attribute Length octet under FixLengths and
  its own decoder rejects / mis-frames the result (`roundtrip_orig_counterexample`).
-/
namespace Gp.C06.Radius
open Gp Gp.SBuf Gp.Radius Gp.C18

/-- Every successfully decoded layer (any receiver, any input) is in range, its Length covers its
    attributes, and its attribute Length fields are already what FixLengths would write. -/
theorem decoded_wf (old : RADIUS) (v : Bytes) (h : (decSpec .fixed old v).err = false) :
    wfRadius (decSpec .fixed old v).layer ∧
    20 + attrsWidth (decSpec .fixed old v).layer.attributes ≤ (decSpec .fixed old v).layer.length ∧
    fixAttrs (decSpec .fixed old v).layer.attributes = (decSpec .fixed old v).layer.attributes :=
  decoded_wfRadius old v h

/-- Round trip, for every buffer (any history satisfying the C18 invariant), any bytes `P` already in
    it, any receiver of the decode, any capacity / foreign bytes behind the decoded slice, both values
    of ComputeChecksums: SerializeTo(FixLengths) returns no error; decoding `Bytes()` returns no error
    and yields `radiusWant l` (Attributes in order, Length fields fixed) with Contents = all the bytes
    and Payload = the EAP-Message values of `l`; the truncation flag is set iff `P` is not empty. -/
theorem roundtrip (l : RADIUS) (b : SBuf) (csum : Bool) (hw : wfRadius l) (hb : Inv b)
    (hP : 20 + attrsWidth l.attributes + (contents b).length ≤ 4096) :
    ∃ o, l.serializeTo .fixed b true csum = .ok o ∧ o.err = false ∧
      ∀ (old : RADIUS) (foreign : Bytes),
        old.decodeFromBytes .fixed { vis := contents o.buf, tail := foreign } =
          .ok { layer := { radiusWant l with contents := contents o.buf, payload := eapPayload l.attributes },
                trunc := decide (0 < (contents b).length), err := false } := by
  obtain ⟨o, ho, -, he, hbts⟩ := serializeTo_refines .fixed l b true csum hb hw.2.2.1
  have hv : valsOk .fixed l.attributes := wfAttrs_valsOk _ hw.2.2.2.1
  have hs : serSpec .fixed l (contents b) true =
      { layer := radiusFixed l (20 + attrsWidth l.attributes) true, err := false,
        bytes := radiusEncode .fixed true (radiusFixed l (20 + attrsWidth l.attributes) true) ++ contents b } := by
    unfold serSpec; simp only [hv, if_true]
  rw [hs] at he hbts
  refine ⟨o, ho, he, ?_⟩
  intro old foreign
  obtain ⟨-, hc⟩ := hbts rfl
  simp only at hc
  rw [decode_spec, hc, decSpec_encode old l (contents b) hw hP]

/-- The property's clause: written into an empty buffer, the layer decodes back to an equal layer
    (`≈` ignores Contents/Payload), the same payload (the EAP-Message bytes), no error, no truncation
    flag; Contents are exactly the bytes written. -/
theorem roundtrip_leaf (l : RADIUS) (b : SBuf) (csum : Bool) (hw : wfRadius l) (hb : Inv b) (he : contents b = []) :
    ∃ o d, l.serializeTo .fixed b true csum = .ok o ∧ o.err = false ∧
      RADIUS.fresh.decodeFromBytes .fixed { vis := contents o.buf, tail := [] } = .ok d ∧
      d.err = false ∧ d.trunc = false ∧ RadiusEquiv d.layer (radiusWant l) ∧
      d.layer.payload = eapPayload l.attributes ∧ d.layer.contents = contents o.buf := by
  obtain ⟨o, ho, hoe, hd⟩ := roundtrip l b csum hw hb (by rw [he]; simp; exact hw.2.2.2.2)
  refine ⟨o, _, ho, hoe, hd RADIUS.fresh [], rfl, ?_, ⟨rfl, rfl, rfl, rfl, rfl⟩, rfl, rfl⟩
  rw [he]; rfl

/-- What FixLengths repairs: whatever the Length fields of the layer said, the decoded layer carries
    Length = 20 + Σ(len(Value)+2) and, per attribute, Length = len(Value)+2. -/
theorem roundtrip_lengths (l : RADIUS) :
    (radiusWant l).length = 20 + attrsWidth l.attributes ∧
    (radiusWant l).attributes = fixAttrs l.attributes ∧
    (radiusWant l).code = l.code ∧ (radiusWant l).identifier = l.identifier ∧
    (radiusWant l).authenticator = l.authenticator := ⟨rfl, rfl, rfl, rfl, rfl⟩

/-- A layer obtained by decoding ANY bytes round-trips to itself, up to its Length field: that becomes
    the size of the attributes actually kept (the decoder drops attributes with an empty value and
    ignores padding, so it can only be ≤ the decoded Length). -/
theorem roundtrip_decoded (old : RADIUS) (v : Bytes) (b : SBuf) (csum : Bool)
    (h : (decSpec .fixed old v).err = false) (hb : Inv b) (he : contents b = []) :
    ∃ o d, (decSpec .fixed old v).layer.serializeTo .fixed b true csum = .ok o ∧ o.err = false ∧
      RADIUS.fresh.decodeFromBytes .fixed { vis := contents o.buf, tail := [] } = .ok d ∧
      d.err = false ∧ d.trunc = false ∧
      d.layer.attributes = (decSpec .fixed old v).layer.attributes ∧
      d.layer.payload = (decSpec .fixed old v).layer.payload ∧
      d.layer.code = (decSpec .fixed old v).layer.code ∧
      d.layer.identifier = (decSpec .fixed old v).layer.identifier ∧
      d.layer.authenticator = (decSpec .fixed old v).layer.authenticator ∧
      d.layer.length = 20 + attrsWidth (decSpec .fixed old v).layer.attributes ∧
      d.layer.length ≤ (decSpec .fixed old v).layer.length := by
  obtain ⟨hw, hlen, hfix⟩ := decoded_wfRadius old v h
  obtain ⟨o, d, ho, hoe, hd, hde, hdt, ⟨q1, q2, q3, q4, q5⟩, hp, -⟩ :=
    roundtrip_leaf (decSpec .fixed old v).layer b csum hw hb he
  have hpay : (decSpec .fixed old v).layer.payload = eapPayload (decSpec .fixed old v).layer.attributes :=
    (decSpec_ok old v h).2.2.2.2.2.2.2.2.2.2.1
  refine ⟨o, d, ho, hoe, hd, hde, hdt, ?_, ?_, q1, q2, q4, q3, ?_⟩
  · rw [q5]; exact hfix
  · rw [hp, hpay]
  · rw [q3]; exact hlen

/-- Writing the decoded layer once more — over the same buffer contents, in any buffer — reproduces
    the same bytes. -/
theorem reserialize_fixpoint (l : RADIUS) (b b' : SBuf) (csum : Bool) (hw : wfRadius l) (hb : Inv b) (hb' : Inv b')
    (hc : contents b' = contents b) (hP : 20 + attrsWidth l.attributes + (contents b).length ≤ 4096) :
    ∃ o d o', l.serializeTo .fixed b true csum = .ok o ∧
      RADIUS.fresh.decodeFromBytes .fixed { vis := contents o.buf, tail := [] } = .ok d ∧ d.err = false ∧
      d.layer.serializeTo .fixed b' true csum = .ok o' ∧ o'.err = false ∧ contents o'.buf = contents o.buf := by
  obtain ⟨o, ho, hoe, hd⟩ := roundtrip l b csum hw hb hP
  have hdl := hd RADIUS.fresh []
  -- the bytes of the first serialization
  obtain ⟨o1, ho1, -, he1, hb1⟩ := serializeTo_refines .fixed l b true csum hb hw.2.2.1
  rw [ho] at ho1; cases ho1
  have hv : valsOk .fixed l.attributes := wfAttrs_valsOk _ hw.2.2.2.1
  have hs : serSpec .fixed l (contents b) true =
      { layer := radiusFixed l (20 + attrsWidth l.attributes) true, err := false,
        bytes := radiusEncode .fixed true (radiusFixed l (20 + attrsWidth l.attributes) true) ++ contents b } := by
    unfold serSpec; simp only [hv, if_true]
  rw [hs] at hb1
  obtain ⟨-, hc1⟩ := hb1 rfl
  simp only at hc1
  -- the decoded layer is in range as well
  generalize hdd : ({ radiusWant l with contents := contents o.buf, payload := eapPayload l.attributes } : RADIUS) = dl at hdl
  have hda : dl.attributes = fixAttrs l.attributes := by rw [← hdd]; rfl
  have hdau : dl.authenticator = l.authenticator := by rw [← hdd]; rfl
  have hvd : valsOk .fixed dl.attributes := by
    rw [hda]
    have : ∀ as : List Attr, valsOk .fixed as → valsOk .fixed (fixAttrs as) := by
      intro as
      induction as with
      | nil => intro _; trivial
      | cons a rest ih => intro h; exact ⟨h.1, ih h.2⟩
    exact this _ hv
  obtain ⟨o', ho', -, he', hb2⟩ := serializeTo_refines .fixed dl b' true csum hb' (by unfold RADIUS.typed; rw [hdau]; exact hw.2.2.1)
  have hs2 : serSpec .fixed dl (contents b') true =
      { layer := radiusFixed dl (20 + attrsWidth dl.attributes) true, err := false,
        bytes := radiusEncode .fixed true (radiusFixed dl (20 + attrsWidth dl.attributes) true) ++ contents b' } := by
    unfold serSpec; simp only [hvd, if_true]
  rw [hs2] at he' hb2
  obtain ⟨-, hc2⟩ := hb2 rfl
  simp only at hc2
  refine ⟨o, _, o', ho, hdl, rfl, ho', he', ?_⟩
  rw [hc2, hc1, hc, hda, attrsWidth_fix]
  congr 1
  have hab : ∀ as : List Attr, attrsBytes .fixed true (fixAttrs as) = attrsBytes .fixed true as := by
    intro as
    induction as with
    | nil => rfl
    | cons a rest ih => simp only [fixAttrs, attrsBytes, ih]; rfl
  unfold radiusEncode radiusFixed hdrBytes
  simp only [if_true, hda, hab]
  rw [← hdd]; rfl

/-! ### The pinned source: the defect; sharpness of `wfRadius` -/

/-- Access-Request with a User-Name; Length fields left to FixLengths -/
def sample : RADIUS :=
  { RADIUS.fresh with
      code := 1
      identifier := 7
      authenticator := List.replicate 16 0xa7
      attributes := [{ typ := 1, length := 0, value := [0x61, 0x6c, 0x69, 0x63, 0x65] },
                     { typ := 79, length := 0, value := [2, 9, 0, 4] }] }

def roundtrip_orig_full : Prop :=
  ∀ (l : RADIUS), wfRadius l → ∀ o, l.serializeTo .orig (new 0 0) true true = .ok o →
    (decSpec .orig RADIUS.fresh (contents o.buf)).err = false

/-- Pinned code: the attribute Length octets come out as len(Value) (5 and 4 instead of 7 and 6); the
    decoder then takes "alice\x4f" … as attributes and fails (found on the real code by the monitors as
    `lradius:roundtrip:decode-error`; engine `all` knew it as all:c06:roundtrip:RADIUS:decode-error). -/
theorem roundtrip_orig_counterexample : ¬ roundtrip_orig_full := by
  intro h
  have := h sample (by decide) _ rfl
  revert this
  decide

/-- Sharpness: an attribute with an EMPTY value is written (Type, Length 2) and dropped by the decoder —
    in-range values need at least one byte. -/
theorem roundtrip_empty_value_counterexample :
    ¬ (∀ (l : RADIUS), l.typed → ∀ o, l.serializeTo .fixed (new 0 0) true true = .ok o →
        (decSpec .fixed RADIUS.fresh (contents o.buf)).layer.attributes.length = l.attributes.length) := by
  intro h
  have := h { sample with attributes := [{ typ := 1, length := 0, value := [] }] } (by decide) _ rfl
  revert this
  decide

/-! ### Non-vacuity -/

example : wfRadius sample ∧ Inv (new 0 0) ∧ contents (new 0 0) = [] := ⟨by decide, inv_new' 0 0, by decide⟩
example : ∃ o, sample.serializeTo .fixed (new 0 0) true true = .ok o ∧
    contents o.buf = [1, 7, 0, 33] ++ List.replicate 16 0xa7 ++ [1, 7, 0x61, 0x6c, 0x69, 0x63, 0x65, 79, 6, 2, 9, 0, 4] :=
  ⟨_, rfl, by decide⟩
example : (radiusWant sample).length = 33 ∧ eapPayload sample.attributes = [2, 9, 0, 4] := by decide

end Gp.C06.Radius
