import Gp.Lemmas.Layers.Ip4Rt3
/-
  C06 (serialize then decode returns the same layer and payload) — layer IPv4
  (layers/ip4.go, engine `lip4`), for the tree with fixes lip4-1 … lip4-5.

  `wf` (Gp/Lemmas/Layers/Ip4Rt.lean) is the explicit in-range predicate; `fieldsEq` compares
  every public field (list-valued ones in order) and ignores BaseLayer.Contents/Payload.
  The layer after SerializeTo(FixLengths) is `finalLayer l …` ("fixed l"): IHL, Length and
  (under ComputeChecksums) Checksum are rewritten, nothing else changes
  (`finalLayer_other_fields`).
-/
namespace Gp.C06.Ip4
open Gp Gp.Ip4 Gp.SBuf

/-- `wf` is decidable and has a non-trivial inhabitant: options NOP, record-route (7 bytes),
    end-of-list followed by three padding bytes — 12 bytes in all. -/
example : wf { version := 4, ihl := 8, tos := 16, length := 45, id := 4660, flags := 2, fragOffset := 0, ttl := 64, protocol := 17, checksum := 1, srcIP := [10, 0, 0, 1], dstIP := [10, 0, 0, 2], options := [⟨1, 1, []⟩, ⟨7, 7, [4, 1, 2, 3, 4]⟩, ⟨0, 1, []⟩], padding := [0, 9, 0] } := by decide

/-- Every successfully decoded layer is well formed, and its encoding together with its
    payload fits the 16-bit Length field — for every byte string, receiver state, capacity. -/
theorem decoded_wf (old : Layer) (data foreign : Bytes) (o : DecOut)
    (h : decodeIp4 old data foreign = .ok o) (he : o.err = false) :
    wf o.layer ∧ 20 + optionSize o.layer + o.layer.payload.length ≤ 65535 := by
  rw [decodeIp4, decodeWith_eq_spec] at h
  cases h
  exact decodeSpec_wf old data he

/-- Round trip.  Writing a well-formed layer over any payload that fits (buffer in any state)
    with FixLengths (ComputeChecksums on or off) succeeds, and decoding the produced bytes —
    into any layer object, with any spare capacity — returns, without error and without the
    truncation flag, exactly the written ("fixed") layer: all public fields equal, options in
    order, Contents = the header bytes, Payload = the payload. -/
theorem roundtrip (l : Layer) (b : SBuf) (csum : Bool) (hb : C18.Inv b) (hwf : wf l)
    (hp : 20 + optionSize l + (contents b).length ≤ 65535) (old : Layer) (foreign : Bytes) :
    ∃ b' l' o, serializeIp4 l b true csum = .ok (b', l') ∧
      l' = finalLayer l (contents b).length true csum l.srcIP l.dstIP ∧
      decodeIp4 old (contents b') foreign = .ok o ∧
      o.err = false ∧ o.trunc = false ∧ fieldsEq o.layer l' ∧
      o.layer.payload = contents b ∧ o.layer.contents ++ o.layer.payload = contents b' := by
  obtain ⟨b', hs, hc, -⟩ := serialize_accepts l b true csum hb (wf_accepts hwf)
  obtain ⟨e1, e2⟩ := src4_of_wf hwf
  rw [e1, e2] at hs hc
  have hw := wireOk_final l (contents b).length csum hwf hp
  refine ⟨b', _, ⟨{ finalLayer l (contents b).length true csum l.srcIP l.dstIP with
      contents := hdrBytes (finalLayer l (contents b).length true csum l.srcIP l.dstIP),
      payload := contents b }, false, false⟩, hs, rfl, ?_, rfl, rfl, rfl, rfl, hc.symm⟩
  rw [decodeIp4, decodeWith_eq_spec, hc, decodeSpec_hdrBytes old _ _ hw]

/-- Writing the decoded layer once more (over the decoded payload, any buffer) reproduces the
    same bytes. -/
theorem reserialize_fixpoint (l : Layer) (b : SBuf) (csum : Bool) (hb : C18.Inv b) (hwf : wf l)
    (hp : 20 + optionSize l + (contents b).length ≤ 65535) (old : Layer) (foreign : Bytes)
    (b' : SBuf) (l' : Layer) (o : DecOut)
    (hs : serializeIp4 l b true csum = .ok (b', l'))
    (hd : decodeIp4 old (contents b') foreign = .ok o)
    (b2 : SBuf) (h2 : C18.Inv b2) (hc2 : contents b2 = o.layer.payload) :
    ∃ b2' l2', serializeIp4 o.layer b2 true csum = .ok (b2', l2') ∧ contents b2' = contents b' := by
  obtain ⟨b0, hs0, hc0, -⟩ := serialize_accepts l b true csum hb (wf_accepts hwf)
  obtain ⟨e1, e2⟩ := src4_of_wf hwf
  rw [e1, e2] at hs0 hc0
  have hpair : (b', l') = (b0, finalLayer l (contents b).length true csum l.srcIP l.dstIP) := by
    rw [hs] at hs0; exact Res.ok.inj hs0
  have hb' : b0 = b' := (congrArg Prod.fst hpair).symm
  have hl1 : l' = finalLayer l (contents b).length true csum l.srcIP l.dstIP := congrArg Prod.snd hpair
  subst hb'
  have hw := wireOk_final l (contents b).length csum hwf hp
  have hdec : o = ⟨{ l' with contents := hdrBytes l', payload := contents b }, false, false⟩ := by
    rw [decodeIp4, decodeWith_eq_spec, hc0, decodeSpec_hdrBytes old _ _ hw, ← hl1] at hd
    exact (Res.ok.inj hd).symm
  subst hdec
  have hfin := accepts_final l (contents b).length true csum (wf_accepts hwf)
  rw [e1, e2, ← hl1] at hfin
  obtain ⟨hacc, hs4, hd4⟩ := hfin
  obtain ⟨b2', hs2, hc2', -⟩ := serialize_accepts _ b2 true csum h2
    (accepts_setCP l' (hdrBytes l') (contents b) hacc)
  refine ⟨b2', _, hs2, ?_⟩
  have hs4' : src4 { l' with contents := hdrBytes l', payload := contents b } = l.srcIP := hs4
  have hd4' : dst4 { l' with contents := hdrBytes l', payload := contents b } = l.dstIP := hd4
  rw [hc2', hs4', hd4', finalLayer_setCP, hdrBytes_setCP, hc2]
  show hdrBytes (finalLayer l' (contents b).length true csum l.srcIP l.dstIP) ++ contents b = _
  rw [hl1, finalLayer_idem, hc0]

/-- Layers obtained by decoding ANY byte string round-trip: decode, write with FixLengths over
    the decoded payload, decode again. -/
theorem roundtrip_of_decoded (old0 : Layer) (data foreign0 : Bytes) (o0 : DecOut)
    (h0 : decodeIp4 old0 data foreign0 = .ok o0) (he : o0.err = false)
    (b : SBuf) (hb : C18.Inv b) (hc : contents b = o0.layer.payload) (csum : Bool)
    (old : Layer) (foreign : Bytes) :
    ∃ b' l' o, serializeIp4 o0.layer b true csum = .ok (b', l') ∧
      decodeIp4 old (contents b') foreign = .ok o ∧
      o.err = false ∧ o.trunc = false ∧ fieldsEq o.layer l' ∧ o.layer.payload = o0.layer.payload ∧
      l'.options = o0.layer.options ∧ l'.padding = o0.layer.padding ∧ l'.srcIP = o0.layer.srcIP ∧
      l'.dstIP = o0.layer.dstIP ∧ l'.version = o0.layer.version ∧ l'.tos = o0.layer.tos ∧
      l'.id = o0.layer.id ∧ l'.flags = o0.layer.flags ∧ l'.fragOffset = o0.layer.fragOffset ∧
      l'.ttl = o0.layer.ttl ∧ l'.protocol = o0.layer.protocol := by
  obtain ⟨hwf, hp⟩ := decoded_wf old0 data foreign0 o0 h0 he
  rw [← hc] at hp
  obtain ⟨b', l', o, hs, hl, hd, e1, e2, e3, e4, -⟩ := roundtrip o0.layer b csum hb hwf hp old foreign
  obtain ⟨f1, f2, f3, f4, f5, f6, f7, f8, f9, f10, f11, -⟩ :=
    finalLayer_other_fields o0.layer (contents b).length true csum o0.layer.srcIP o0.layer.dstIP
  rw [← hl] at f1 f2 f3 f4 f5 f6 f7 f8 f9 f10 f11
  exact ⟨b', l', o, hs, hd, e1, e2, e3, by rw [e4, hc], f8, f9, f10, f11, f1, f2, f3, f4, f5, f6, f7⟩

/-- Non-vacuity of `roundtrip`: its hypotheses hold for a layer with options and padding, a
    dirty buffer holding a 3-byte payload. -/
example : wf { version := 4, ttl := 64, protocol := 17, srcIP := [10, 0, 0, 1], dstIP := [10, 0, 0, 2], options := [⟨0x83, 7, [4, 1, 2, 3, 4]⟩, ⟨0, 1, []⟩] } ∧
    C18.Inv (step (clear (step (new 0 0) (.prepend [0xa5, 0xa5, 0xa5, 0xa5]))) (.prepend [1, 2, 3])) :=
  ⟨by decide, C18.inv_step' _ _ (C18.inv_clear' _ (C18.inv_step' _ _ (C18.inv_new' 0 0)))⟩

end Gp.C06.Ip4
