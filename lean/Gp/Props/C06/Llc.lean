import Gp.Lemmas.Layers.LlcRt3
/-
  C06 (engine `lllc`) — LLC, SNAP and STP: serialize then decode returns the same field values and
  the same payload, with no error and no truncation flag; serialising the decoded layer once more
  reproduces the same bytes.

  Definitions (Gp/Lemmas/Layers/LlcRt.lean):
    wfLlc l    : DSAP, SSAP < 256 and even (the flag bit is IG / CR); Control < 2^16; a two-octet control
                 field (Control ≥ 0x100) does not start with the U-format marker ((Control/256) % 4 ≠ 3)
    wfSnap l   : |OrganizationalCode| = 3 ∧ Type < 2^16
    wfSwitch s : Priority % 4096 = 0 ∧ Priority < 2^16 (0 included) ∧ SysID < 4096 ∧ |HwAddr| = 6
    wfStp l    : both switch ids well-formed, every integer field inside its Go type
    LlcEquiv / SnapEquiv / StpEquiv : all public fields equal (≈ ignores Contents/Payload)
  None of the three layers has a length or checksum field: the claims hold for EVERY payload (any
  size) and every {FixLengths, ComputeChecksums}.  The buffer `b` holds the payload (`contents b = p`)
  and is otherwise arbitrary (any C18-reachable buffer); the decoder's receiver `old`, the capacity of
  the packet buffer and the foreign bytes behind the bytes are arbitrary too.

  The models are the code WITH proposed_fixes/lllc-1 (LLC control length) and lllc-4 (STP priority 0);
  `prefix_llc_roundtrip_counterexample` / `prefix_stp_priority0_counterexample` state the two defects
  on the models of the code before the fixes.
-/
namespace Gp.C06.Llc
open Gp Gp.SBuf Gp.Llc Gp.C18

/-! ## LLC -/

/-- Every successfully decoded LLC layer has in-range field values. -/
theorem decoded_wf (old : LLC) (d : GSlice) (o : DecOut LLC)
    (h : old.decodeFromBytes d = .ok o) (he : o.err = false) : wfLlc o.layer := by
  by_cases hs : d.len < 3
  · rw [LLC.decode_short old d hs] at h; cases h; cases he
  · rw [LLC.decode_long old d (by omega)] at h; cases h
    exact llcDecSpec_wf old d.vis he

/-- Round trip: a well-formed LLC layer over ANY payload is written without error and unchanged, and
    decoding the produced bytes (into any receiver, in a packet buffer of any capacity) yields —
    without error and without truncation flag — a layer ≈ the written one whose payload is exactly
    `p` and whose Contents ++ Payload are the produced bytes. -/
theorem roundtrip (l : LLC) (p : Bytes) (b : SBuf) (fix csum : Bool) (old : LLC) (foreign : Bytes)
    (hw : wfLlc l) (hb : Inv b) (hc : contents b = p) :
    ∃ o l', l.serializeTo b fix csum = .ok o ∧ o.err = false ∧ o.layer = l ∧
      old.decodeFromBytes { vis := contents o.buf, tail := foreign } =
        .ok { layer := l', trunc := false, err := false } ∧
      LlcEquiv l' l ∧ l'.payload = p ∧ l'.contents ++ l'.payload = contents o.buf := by
  obtain ⟨o, ho, he, hl, -, hbytes⟩ := llc_ser_wf l b fix csum hw hb
  rw [hc] at hbytes
  refine ⟨o, { l with contents := llcHdr l (llcLen l), payload := p }, ho, he, hl, ?_, ⟨rfl, rfl, rfl, rfl, rfl⟩, rfl, ?_⟩
  · rw [hbytes, LLC.decode_vis old _ _ (by rw [List.length_append]; have := llcHdr_length l (llcLen l); omega),
      llcDecSpec_frame old l p hw]
  · rw [hbytes]

/-- Writing the decoded layer again (over the decoded payload, in any buffer, with any options) gives
    the same bytes. -/
theorem reserialize_fixpoint (l : LLC) (p : Bytes) (b b2 : SBuf) (fix csum fix2 csum2 : Bool)
    (old : LLC) (foreign : Bytes) (hw : wfLlc l) (hb : Inv b) (hc : contents b = p) (hb2 : Inv b2) :
    ∃ o l', l.serializeTo b fix csum = .ok o ∧
      old.decodeFromBytes { vis := contents o.buf, tail := foreign } =
        .ok { layer := l', trunc := false, err := false } ∧
      (contents b2 = l'.payload →
        ∃ o2, l'.serializeTo b2 fix2 csum2 = .ok o2 ∧ o2.err = false ∧ contents o2.buf = contents o.buf) := by
  obtain ⟨o, ho, -, -, -, hbytes⟩ := llc_ser_wf l b fix csum hw hb
  rw [hc] at hbytes
  refine ⟨o, { l with contents := llcHdr l (llcLen l), payload := p }, ho, ?_, fun hc2 => ?_⟩
  · rw [hbytes, LLC.decode_vis old _ _ (by rw [List.length_append]; have := llcHdr_length l (llcLen l); omega),
      llcDecSpec_frame old l p hw]
  · have hw' : wfLlc { l with contents := llcHdr l (llcLen l), payload := p } := hw
    obtain ⟨o2, ho2, he2, -, -, hbytes2⟩ := llc_ser_wf _ b2 fix2 csum2 hw' hb2
    refine ⟨o2, ho2, he2, ?_⟩
    rw [hbytes2, hbytes, hc2]; rfl

/-- The defect removed by proposed_fixes/lllc-1, on the model of the code BEFORE the fix: the I-format
    frame `aa aa 00 00 | 01 02 03` (N(S) = 0, N(R) = 0) decodes to Control = 0; the old serializer chose
    the header length by `Control & 0xFF00 != 0` and wrote a ONE-octet control field, so decoding its
    output takes the first payload byte for the second control octet: Control 0 → 1, payload
    01 02 03 → 02 03. -/
theorem prefix_llc_roundtrip_counterexample :
    let input : Bytes := [0xaa, 0xaa, 0x00, 0x00, 0x01, 0x02, 0x03]
    let d := llcDecSpec LLC.fresh input
    d.err = false ∧ wfLlc d.layer ∧ d.layer.control = 0 ∧ d.layer.payload = [1, 2, 3] ∧
    (llcSerSpecWith d.layer (llcLenPreFix d.layer) d.layer.payload).bytes = [0xaa, 0xaa, 0x00, 0x01, 0x02, 0x03] ∧
    (llcDecSpec LLC.fresh (llcSerSpecWith d.layer (llcLenPreFix d.layer) d.layer.payload).bytes).layer.control = 1 ∧
    (llcDecSpec LLC.fresh (llcSerSpecWith d.layer (llcLenPreFix d.layer) d.layer.payload).bytes).layer.payload = [2, 3] ∧
    -- … and over an empty payload the output of the old serializer does not decode at all
    (llcDecSpec LLC.fresh (llcSerSpecWith d.layer (llcLenPreFix d.layer) []).bytes).err = true := by
  decide

/-- `llcLenPreFix` is the length the pre-fix model `LLC.serializeToPreFix` uses (ties the statement
    above to the executable model). -/
theorem prefix_llc_model_agrees :
    serView (({ LLC.fresh with dsap := 0xaa, ssap := 0xaa } : LLC).serializeToPreFix
      (step (new 0 0) (.prepend [1, 2, 3])) true true) =
      .ok { layer := { LLC.fresh with dsap := 0xaa, ssap := 0xaa }, err := false, bytes := [0xaa, 0xaa, 0x00, 1, 2, 3] } := by
  decide

/-- `wfLlc`'s last clause is needed (also for the fixed code): a two-octet control field whose first
    octet looks like a U-format one (0x0300) is written as `03 00` and read back as the one-octet
    control field 0x03 with the second octet pushed into the payload — such values are never produced
    by decoding (`decoded_wf`) and are outside "in-range field values". -/
theorem roundtrip_llc_uformat_marker_counterexample :
    let l : LLC := { LLC.fresh with control := 0x0300 }
    (llcSerSpec l [7]).err = false ∧ (llcSerSpec l [7]).bytes = [0, 0, 3, 0, 7] ∧
    (llcDecSpec LLC.fresh (llcSerSpec l [7]).bytes).layer.control = 3 ∧
    (llcDecSpec LLC.fresh (llcSerSpec l [7]).bytes).layer.payload = [0, 7] := by
  decide

/-! ## SNAP -/

theorem decoded_wf_snap (old : SNAP) (d : GSlice) (o : DecOut SNAP)
    (h : old.decodeFromBytes d = .ok o) (he : o.err = false) : wfSnap o.layer := by
  by_cases hs : d.len < 5
  · rw [SNAP.decode_short old d hs] at h; cases h; cases he
  · rw [SNAP.decode_long old d (by omega)] at h; cases h
    exact snapDecSpec_wf d.vis (by unfold GSlice.len at hs; omega)

theorem roundtrip_snap (l : SNAP) (p : Bytes) (b : SBuf) (fix csum : Bool) (old : SNAP) (foreign : Bytes)
    (hw : wfSnap l) (hb : Inv b) (hc : contents b = p) :
    ∃ o l', l.serializeTo b fix csum = .ok o ∧ o.err = false ∧ o.layer = l ∧
      old.decodeFromBytes { vis := contents o.buf, tail := foreign } =
        .ok { layer := l', trunc := false, err := false } ∧
      SnapEquiv l' l ∧ l'.payload = p ∧ l'.contents ++ l'.payload = contents o.buf := by
  obtain ⟨o, ho, he, hl, -, hbytes⟩ := snap_ser_wf l b fix csum hw hb
  rw [hc] at hbytes
  have h5 : 5 ≤ (l.org.take 3 ++ putBe16 l.type ++ p).length := by
    simp only [List.length_append, List.length_take, putBe16_length]; have := hw.1; omega
  have ht3 : l.org.take 3 = l.org := List.take_of_length_le (by have := hw.1; omega)
  refine ⟨o, { l with contents := l.org ++ putBe16 l.type, payload := p }, ho, he, hl, ?_, ⟨rfl, rfl⟩, rfl, ?_⟩
  · rw [hbytes, SNAP.decode_vis old _ _ h5, snapDecSpec_frame l p hw]
  · rw [hbytes, ht3]

theorem reserialize_fixpoint_snap (l : SNAP) (p : Bytes) (b b2 : SBuf) (fix csum fix2 csum2 : Bool)
    (old : SNAP) (foreign : Bytes) (hw : wfSnap l) (hb : Inv b) (hc : contents b = p) (hb2 : Inv b2) :
    ∃ o l', l.serializeTo b fix csum = .ok o ∧
      old.decodeFromBytes { vis := contents o.buf, tail := foreign } =
        .ok { layer := l', trunc := false, err := false } ∧
      (contents b2 = l'.payload →
        ∃ o2, l'.serializeTo b2 fix2 csum2 = .ok o2 ∧ o2.err = false ∧ contents o2.buf = contents o.buf) := by
  obtain ⟨o, ho, -, -, -, hbytes⟩ := snap_ser_wf l b fix csum hw hb
  rw [hc] at hbytes
  have h5 : 5 ≤ (l.org.take 3 ++ putBe16 l.type ++ p).length := by
    simp only [List.length_append, List.length_take, putBe16_length]; have := hw.1; omega
  refine ⟨o, { l with contents := l.org ++ putBe16 l.type, payload := p }, ho, ?_, fun hc2 => ?_⟩
  · rw [hbytes, SNAP.decode_vis old _ _ h5, snapDecSpec_frame l p hw]
  · have hw' : wfSnap { l with contents := l.org ++ putBe16 l.type, payload := p } := hw
    obtain ⟨o2, ho2, he2, -, -, hbytes2⟩ := snap_ser_wf _ b2 fix2 csum2 hw' hb2
    refine ⟨o2, ho2, he2, ?_⟩
    rw [hbytes2, hbytes, hc2]

/-- `wfSnap` is needed: an OrganizationalCode longer than 3 bytes is accepted and silently cut. -/
theorem roundtrip_snap_long_org_counterexample :
    let l : SNAP := { SNAP.fresh with org := [1, 2, 3, 4], type := 0x0800 }
    (snapSerSpec l []).err = false ∧ (snapDecSpec (snapSerSpec l []).bytes).layer.org = [1, 2, 3] := by
  decide

/-! ## STP -/

theorem decoded_wf_stp (old : STP) (d : GSlice) (o : DecOut STP)
    (h : old.decodeFromBytes d = .ok o) (he : o.err = false) : wfStp o.layer := by
  by_cases hs : d.len < 35
  · rw [STP.decode_short old d hs] at h; cases h; cases he
  · rw [STP.decode_long old d (by omega)] at h; cases h
    exact stpDecSpec_wf d.vis (by unfold GSlice.len at hs; omega)

theorem roundtrip_stp (l : STP) (p : Bytes) (b : SBuf) (fix csum : Bool) (old : STP) (foreign : Bytes)
    (hw : wfStp l) (hb : Inv b) (hc : contents b = p) :
    ∃ o l', l.serializeTo b fix csum = .ok o ∧ o.err = false ∧ o.layer = l ∧
      old.decodeFromBytes { vis := contents o.buf, tail := foreign } =
        .ok { layer := l', trunc := false, err := false } ∧
      StpEquiv l' l ∧ l'.payload = p ∧ l'.contents ++ l'.payload = contents o.buf := by
  obtain ⟨o, ho, he, hl, -, hbytes⟩ := stp_ser_wf l b fix csum hw hb
  rw [hc] at hbytes
  have hlen := stpHdr_length l hw.2.2.2.1.2.2.2 hw.2.2.2.2.2.1.2.2.2
  refine ⟨o, { l with contents := stpHdr l, payload := p }, ho, he, hl, ?_,
    ⟨rfl, rfl, rfl, rfl, rfl, rfl, rfl, rfl, rfl, rfl, rfl, rfl, rfl⟩, rfl, ?_⟩
  · rw [hbytes, STP.decode_vis old _ _ (by rw [List.length_append, hlen]; omega), stpDecSpec_frame l p hw]
  · rw [hbytes]

theorem reserialize_fixpoint_stp (l : STP) (p : Bytes) (b b2 : SBuf) (fix csum fix2 csum2 : Bool)
    (old : STP) (foreign : Bytes) (hw : wfStp l) (hb : Inv b) (hc : contents b = p) (hb2 : Inv b2) :
    ∃ o l', l.serializeTo b fix csum = .ok o ∧
      old.decodeFromBytes { vis := contents o.buf, tail := foreign } =
        .ok { layer := l', trunc := false, err := false } ∧
      (contents b2 = l'.payload →
        ∃ o2, l'.serializeTo b2 fix2 csum2 = .ok o2 ∧ o2.err = false ∧ contents o2.buf = contents o.buf) := by
  obtain ⟨o, ho, -, -, -, hbytes⟩ := stp_ser_wf l b fix csum hw hb
  rw [hc] at hbytes
  have hlen := stpHdr_length l hw.2.2.2.1.2.2.2 hw.2.2.2.2.2.1.2.2.2
  refine ⟨o, { l with contents := stpHdr l, payload := p }, ho, ?_, fun hc2 => ?_⟩
  · rw [hbytes, STP.decode_vis old _ _ (by rw [List.length_append, hlen]; omega), stpDecSpec_frame l p hw]
  · have hw' : wfStp { l with contents := stpHdr l, payload := p } := hw
    obtain ⟨o2, ho2, he2, -, -, hbytes2⟩ := stp_ser_wf _ b2 fix2 csum2 hw' hb2
    refine ⟨o2, ho2, he2, ?_⟩
    rw [hbytes2, hbytes, hc2]; rfl

set_option maxRecDepth 20000 in
/-- The defect removed by proposed_fixes/lllc-4, on the model of the code BEFORE the fix: the all-zero
    BPDU (bridge priority 0 — the best priority there is, and what every BPDU of a priority-0 root
    decodes to) is decoded without error, but `checkPriority` rejected 0, so the decoded layer could
    not be written; the fixed serializer reproduces the 35 bytes. -/
theorem prefix_stp_priority0_counterexample :
    let input : Bytes := List.replicate 35 0
    let d := stpDecSpec input
    d.err = false ∧ wfStp d.layer ∧ d.layer.routeID.priority = 0 ∧
    (match serView (d.layer.serializeToPreFix (new 0 0) true true) with
     | .ok s => some s.err | _ => none) = some true ∧
    (match serView (d.layer.serializeTo (new 0 0) true true) with
     | .ok s => some (s.err, s.bytes) | _ => none) = some (false, input) := by
  intro input d
  exact ⟨by decide, by decide, by decide, by decide, by decide⟩

/-- `wfSwitch` requires a 6-byte address: a shorter one comes back zero padded (lllc-3), a longer one cut. -/
theorem roundtrip_stp_short_hwaddr_counterexample :
    let l : STP := { STP.fresh with routeID := { priority := 4096, sysID := 7, hwAddr := [1, 2] } }
    (stpSerSpec l []).err = false ∧
    (stpDecSpec (stpSerSpec l []).bytes).layer.routeID = { priority := 4096, sysID := 7, hwAddr := [1, 2, 0, 0, 0, 0] } := by
  intro l
  exact ⟨by decide, by decide⟩

/-! ## Non-vacuity: concrete well-formed layers inside the claims -/

example : wfLlc { LLC.fresh with dsap := 0xaa, ig := true, ssap := 0xaa, cr := true, control := 3 } ∧
    wfLlc { LLC.fresh with dsap := 0x42, ssap := 0x42, control := 0 } ∧
    wfLlc { LLC.fresh with dsap := 0xfe, ssap := 0x02, control := 0xfeff } ∧
    ¬ wfLlc { LLC.fresh with dsap := 0xab } ∧ ¬ wfLlc { LLC.fresh with control := 0x0300 } := by decide

example : wfSnap { SNAP.fresh with org := [0, 0, 0x0c], type := 0x2000 } ∧ ¬ wfSnap SNAP.fresh := by decide

example : wfStp { STP.fresh with tc := true,
                                 routeID := { priority := 0, sysID := 4095, hwAddr := [1, 2, 3, 4, 5, 6] },
                                 bridgeID := { priority := 61440, sysID := 1, hwAddr := [6, 5, 4, 3, 2, 1] },
                                 cost := 4294967295, portID := 0x8001, maxAge := 5120 } ∧
    ¬ wfStp STP.fresh := by decide

end Gp.C06.Llc
