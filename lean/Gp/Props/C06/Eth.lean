import Gp.Lemmas.Layers.Eth
/-
  C06 (engine `leth`) — Ethernet and Dot1Q: serialize (FixLengths on) then decode returns the same
  field values and the same payload, with no error and no truncation flag; serialising the decoded
  layer once more reproduces the same bytes.

  Definitions (Gp/Lemmas/Layers/Eth.lean):
    wfEth l        :  |DstMAC| = |SrcMAC| = 6 ∧ ((EthernetType = LLC ∧ Length < 0x0600) ∨
                                                 (0x0600 ≤ EthernetType < 2^16 ∧ Length = 0))
    payloadOkEth l p : 802.3 (LLC): |p| < 0x0600;  Ethernet II: 46 ≤ |p|   (DESIGN §5 C06 scope decision:
                       Ethernet pads frames to 60 bytes, `roundtrip_eth_pad` says what comes back below 46)
    fixedEth l p   :  the layer after FixLengths (802.3: Length := |p|; Ethernet II: unchanged)
    EthEquiv a b   :  SrcMAC, DstMAC, EthernetType, Length equal (≈ ignores Contents/Payload)
    wfDot1Q l      :  Priority ≤ 7 ∧ VLANIdentifier ≤ 0xFFF ∧ Type < 2^16
    padBody p      :  p ++ zeros (46 - |p|) when |p| < 46, else p
  The buffer `b` holds the payload (`contents b = p`) and is otherwise arbitrary (any C18-reachable
  buffer: capacity, stale bytes, history); the decoder's receiver `old`, the capacity of the packet
  buffer and the foreign bytes behind the frame are arbitrary too.
-/
namespace Gp.C06.Eth
open Gp Gp.SBuf Gp.Eth Gp.C18 Gp.Gen.Eth

/-! ## Ethernet -/

/-- Every successfully decoded Ethernet layer has in-range field values … -/
theorem decoded_wf (old : Ethernet) (d : GSlice) (o : DecOut Ethernet)
    (h : old.decodeFromBytes d = .ok o) (he : o.err = false) : wfEth o.layer := by
  by_cases hs : d.len < 14
  · rw [Ethernet.decode_short old d hs] at h; cases h; cases he
  · rw [Ethernet.decode_long old d (by omega)] at h; cases h
    exact (ethDecSpec_wf d.vis (by unfold GSlice.len at hs; omega)).1

/-- … and an 802.3 frame's decoded payload is delimited by the length field (< 0x0600 bytes), so
    decoded 802.3 layers are inside the round-trip claim together with their own payload. -/
theorem decoded_llc_payload_ok (old : Ethernet) (d : GSlice) (o : DecOut Ethernet)
    (h : old.decodeFromBytes d = .ok o) (he : o.err = false)
    (hl : o.layer.ethernetType = ethernetTypeLLC) : payloadOkEth o.layer o.layer.payload := by
  by_cases hs : d.len < 14
  · rw [Ethernet.decode_short old d hs] at h; cases h; cases he
  · rw [Ethernet.decode_long old d (by omega)] at h; cases h
    unfold payloadOkEth; rw [if_pos hl]
    exact ((ethDecSpec_wf d.vis (by unfold GSlice.len at hs; omega)).2.2 hl).1

/-- Round trip: a well-formed layer over an allowed payload is written without error, FixLengths
    turns it into `fixedEth l p`, and decoding the produced bytes (into any receiver, in a packet
    buffer of any capacity) yields — without error and without truncation flag — a layer ≈ the fixed
    one, whose payload is exactly `p`. -/
theorem roundtrip (l : Ethernet) (p : Bytes) (b : SBuf) (csum : Bool) (old : Ethernet) (foreign : Bytes)
    (hw : wfEth l) (hp : payloadOkEth l p) (hb : Inv b) (hc : contents b = p) :
    ∃ o l', l.serializeTo b true csum = .ok o ∧ o.err = false ∧ o.layer = fixedEth l p ∧
      old.decodeFromBytes { vis := contents o.buf, tail := foreign } =
        .ok { layer := l', trunc := false, err := false } ∧
      EthEquiv l' (fixedEth l p) ∧ l'.payload = p := by
  obtain ⟨o, ho, -, hl, he, hbytes⟩ := eth_serializeTo_refines l b true csum hb
  rw [hc] at hl he hbytes
  obtain ⟨hd, hs, hk⟩ := hw
  by_cases hllc : l.ethernetType = ethernetTypeLLC
  · have hp' : p.length < 0x0600 := by unfold payloadOkEth at hp; rwa [if_pos hllc] at hp
    rw [ethSerSpec_llc l p ⟨hd, hs, hk⟩ hllc hp'] at hl he hbytes
    simp only at hl he hbytes
    have hfix : fixedEth l p = { l with length := p.length } := by unfold fixedEth; rw [if_pos hllc]
    refine ⟨o, (Ethernet.mk (l.dstMAC ++ l.srcMAC ++ putBe16 p.length) p l.srcMAC l.dstMAC ethernetTypeLLC p.length), ho, he, by rw [hl, hfix], ?_, ?_, ?_⟩
    · rw [hbytes (by first | rfl | trivial)]
      have h14 := (eth_frame_parts l.dstMAC l.srcMAC (padBody p) p.length hd hs (by omega)).2.2.2.2.2
      rw [Ethernet.decode_vis old _ _ h14,
        ethDecSpec_llc _ _ _ _ hd hs hp' (padBody_length p), padBody_take]
    · rw [hfix]; exact ⟨rfl, rfl, hllc.symm, rfl⟩
    · rfl
  · have h6 : 0x0600 ≤ l.ethernetType := by
      rcases hk with ⟨h, -⟩ | ⟨h, -, -⟩
      · exact absurd h hllc
      · exact h
    have hty : l.ethernetType < 65536 := by
      rcases hk with ⟨h, -⟩ | ⟨-, h, -⟩
      · exact absurd h hllc
      · exact h
    have hl0 : l.length = 0 := by
      rcases hk with ⟨h, -⟩ | ⟨-, -, h⟩
      · exact absurd h hllc
      · exact h
    have hp' : 46 ≤ p.length := by unfold payloadOkEth at hp; rwa [if_neg hllc] at hp
    rw [ethSerSpec_ethII l p true ⟨hd, hs, hk⟩ h6, padBody_of_ge p hp'] at hl he hbytes
    simp only at hl he hbytes
    have hfix : fixedEth l p = l := by unfold fixedEth; rw [if_neg hllc]
    refine ⟨o, (Ethernet.mk (l.dstMAC ++ l.srcMAC ++ putBe16 l.ethernetType) p l.srcMAC l.dstMAC l.ethernetType 0), ho, he, by rw [hl, hfix], ?_, ?_, ?_⟩
    · rw [hbytes (by first | rfl | trivial)]
      have h14 := (eth_frame_parts l.dstMAC l.srcMAC p l.ethernetType hd hs hty).2.2.2.2.2
      rw [Ethernet.decode_vis old _ _ h14, ethDecSpec_ethII _ _ _ _ hd hs hty h6]
    · rw [hfix]; exact ⟨rfl, rfl, rfl, hl0.symm⟩
    · rfl

/-- Below the minimum frame size (Ethernet II, payload shorter than 46 bytes) everything above still
    holds except that the payload comes back with the padding attached: `p ++ zeros (46 - |p|)`. -/
theorem roundtrip_eth_pad (l : Ethernet) (p : Bytes) (b : SBuf) (fix csum : Bool) (old : Ethernet)
    (foreign : Bytes) (hw : wfEth l) (h6 : 0x0600 ≤ l.ethernetType) (hp : p.length < 46)
    (hb : Inv b) (hc : contents b = p) :
    ∃ o l', l.serializeTo b fix csum = .ok o ∧ o.err = false ∧ o.layer = l ∧
      (contents o.buf).length = 60 ∧
      old.decodeFromBytes { vis := contents o.buf, tail := foreign } =
        .ok { layer := l', trunc := false, err := false } ∧
      EthEquiv l' l ∧ l'.payload = p ++ zeros (46 - p.length) := by
  obtain ⟨o, ho, -, hl, he, hbytes⟩ := eth_serializeTo_refines l b fix csum hb
  rw [hc, ethSerSpec_ethII l p fix hw h6] at hl he hbytes
  simp only at hl he hbytes
  obtain ⟨hd, hs, hk⟩ := hw
  have hty : l.ethernetType < 65536 := by
    rcases hk with ⟨h, -⟩ | ⟨-, h, -⟩
    · have : l.ethernetType = 0 := h; omega
    · exact h
  have hl0 : l.length = 0 := by
    rcases hk with ⟨h, -⟩ | ⟨-, -, h⟩
    · have : l.ethernetType = 0 := h; omega
    · exact h
  have hpb : padBody p = p ++ zeros (46 - p.length) := by unfold padBody; rw [if_pos hp]
  refine ⟨o, (Ethernet.mk (l.dstMAC ++ l.srcMAC ++ putBe16 l.ethernetType) (padBody p) l.srcMAC l.dstMAC l.ethernetType 0), ho, he, hl, ?_, ?_, ⟨rfl, rfl, rfl, hl0.symm⟩, hpb⟩
  · rw [hbytes (by first | rfl | trivial), hpb]; simp [hd, hs, putBe16, zeros_length]; omega
  · rw [hbytes (by first | rfl | trivial)]
    have h14 := (eth_frame_parts l.dstMAC l.srcMAC (padBody p) l.ethernetType hd hs hty).2.2.2.2.2
    rw [Ethernet.decode_vis old _ _ h14, ethDecSpec_ethII _ _ _ _ hd hs hty h6]

/-- Writing the decoded layer once more reproduces the same bytes — for every well-formed layer,
    including the padded short-payload case (the decoded payload then already carries the padding). -/
theorem reserialize_fixpoint (l : Ethernet) (p : Bytes) (b b2 : SBuf) (csum csum2 : Bool)
    (old : Ethernet) (foreign : Bytes)
    (hw : wfEth l) (hp : l.ethernetType = ethernetTypeLLC → p.length < 0x0600)
    (hb : Inv b) (hc : contents b = p) (hb2 : Inv b2) :
    ∃ o l', l.serializeTo b true csum = .ok o ∧ o.err = false ∧
      old.decodeFromBytes { vis := contents o.buf, tail := foreign } =
        .ok { layer := l', trunc := false, err := false } ∧
      (contents b2 = l'.payload →
        ∃ o2, l'.serializeTo b2 true csum2 = .ok o2 ∧ o2.err = false ∧ contents o2.buf = contents o.buf) := by
  obtain ⟨o, ho, -, hl, he, hbytes⟩ := eth_serializeTo_refines l b true csum hb
  rw [hc] at hl he hbytes
  obtain ⟨hd, hs, hk⟩ := hw
  by_cases hllc : l.ethernetType = ethernetTypeLLC
  · have hp' := hp hllc
    rw [ethSerSpec_llc l p ⟨hd, hs, hk⟩ hllc hp'] at hl he hbytes
    simp only at hl he hbytes
    have h14 := (eth_frame_parts l.dstMAC l.srcMAC (padBody p) p.length hd hs (by omega)).2.2.2.2.2
    refine ⟨o, (Ethernet.mk (l.dstMAC ++ l.srcMAC ++ putBe16 p.length) p l.srcMAC l.dstMAC ethernetTypeLLC p.length), ho, he, ?_, ?_⟩
    · rw [hbytes (by first | rfl | trivial), Ethernet.decode_vis old _ _ h14,
        ethDecSpec_llc _ _ _ _ hd hs hp' (padBody_length p), padBody_take]
    · intro hc2
      simp only at hc2
      obtain ⟨o2, ho2, -, -, he2, hbytes2⟩ := eth_serializeTo_refines
        { contents := l.dstMAC ++ l.srcMAC ++ putBe16 p.length, payload := p, srcMAC := l.srcMAC,
          dstMAC := l.dstMAC, ethernetType := ethernetTypeLLC, length := p.length } b2 true csum2 hb2
      have hw2 : wfEth (Ethernet.mk (l.dstMAC ++ l.srcMAC ++ putBe16 p.length) p l.srcMAC l.dstMAC ethernetTypeLLC p.length) :=
        ⟨hd, hs, Or.inl ⟨rfl, hp'⟩⟩
      rw [hc2, ethSerSpec_llc _ p hw2 rfl hp'] at he2 hbytes2
      simp only at he2 hbytes2
      exact ⟨o2, ho2, he2, by rw [hbytes2 (by first | rfl | trivial), hbytes (by first | rfl | trivial)]⟩
  · have h6 : 0x0600 ≤ l.ethernetType := by
      rcases hk with ⟨h, -⟩ | ⟨h, -, -⟩
      · exact absurd h hllc
      · exact h
    have hty : l.ethernetType < 65536 := by
      rcases hk with ⟨h, -⟩ | ⟨-, h, -⟩
      · exact absurd h hllc
      · exact h
    rw [ethSerSpec_ethII l p true ⟨hd, hs, hk⟩ h6] at hl he hbytes
    simp only at hl he hbytes
    have h14 := (eth_frame_parts l.dstMAC l.srcMAC (padBody p) l.ethernetType hd hs hty).2.2.2.2.2
    refine ⟨o, (Ethernet.mk (l.dstMAC ++ l.srcMAC ++ putBe16 l.ethernetType) (padBody p) l.srcMAC l.dstMAC l.ethernetType 0), ho, he, ?_, ?_⟩
    · rw [hbytes (by first | rfl | trivial), Ethernet.decode_vis old _ _ h14, ethDecSpec_ethII _ _ _ _ hd hs hty h6]
    · intro hc2
      simp only at hc2
      obtain ⟨o2, ho2, -, -, he2, hbytes2⟩ := eth_serializeTo_refines
        { contents := l.dstMAC ++ l.srcMAC ++ putBe16 l.ethernetType, payload := padBody p,
          srcMAC := l.srcMAC, dstMAC := l.dstMAC, ethernetType := l.ethernetType, length := 0 } b2 true csum2 hb2
      have hw2 : wfEth (Ethernet.mk (l.dstMAC ++ l.srcMAC ++ putBe16 l.ethernetType) (padBody p) l.srcMAC l.dstMAC l.ethernetType 0) :=
        ⟨hd, hs, Or.inr ⟨h6, hty, rfl⟩⟩
      rw [hc2, ethSerSpec_ethII _ (padBody p) true hw2 h6] at he2 hbytes2
      simp only at he2 hbytes2
      have hpp : padBody (padBody p) = padBody p := by
        unfold padBody
        by_cases h46 : p.length < 46
        · rw [if_pos h46, if_neg (by simp [zeros_length]; omega)]
        · rw [if_neg h46, if_neg h46]
      exact ⟨o2, ho2, he2, by rw [hbytes2 (by first | rfl | trivial), hbytes (by first | rfl | trivial), hpp]⟩

set_option maxRecDepth 20000 in
/-- The payload bound of the 802.3 clause is sharp: an LLC frame over a payload of exactly 0x0600
    bytes is accepted by the serializer (length field 0x0600) and decodes as EtherType 0x0600 with
    Length 0 — the serializer's `> 0x0600` and the decoder's `< 0x0600` disagree on that one value. -/
theorem roundtrip_llc_0600_counterexample :
    let l : Ethernet := { Ethernet.fresh with dstMAC := [1,2,3,4,5,6], srcMAC := [7,8,9,10,11,12] }
    let s := ethSerSpec l (List.replicate 0x0600 0) true
    s.err = false ∧ (ethDecSpec s.bytes).layer.ethernetType = 0x0600 ∧ (ethDecSpec s.bytes).layer.length = 0 := by
  decide

/-! ## Dot1Q -/

theorem decoded_wf_dot1q (old : Dot1Q) (d : GSlice) (o : DecOut Dot1Q)
    (h : old.decodeFromBytes d = .ok o) (he : o.err = false) : wfDot1Q o.layer := by
  by_cases hs : d.len < 4
  · rw [Dot1Q.decode_short old d hs] at h; cases h; cases he
  · rw [Dot1Q.decode_long old d (by omega)] at h; cases h
    exact dot1qDecSpec_wf d.vis

/-- Round trip for every well-formed tag over EVERY payload (Dot1Q has no length field and no
    padding): all four fields and the payload come back, no error, no truncation flag. -/
theorem roundtrip_dot1q (l : Dot1Q) (p : Bytes) (b : SBuf) (fix csum : Bool) (old : Dot1Q) (foreign : Bytes)
    (hw : wfDot1Q l) (hb : Inv b) (hc : contents b = p) :
    ∃ o l', l.serializeTo b fix csum = .ok o ∧ o.err = false ∧ o.layer = l ∧
      old.decodeFromBytes { vis := contents o.buf, tail := foreign } =
        .ok { layer := l', trunc := false, err := false } ∧
      Dot1QEquiv l' l ∧ l'.payload = p ∧ l'.contents ++ l'.payload = contents o.buf := by
  obtain ⟨o, ho, -, hl, he, hbytes⟩ := dot1q_serializeTo_refines l b fix csum hb
  rw [hc] at hl he hbytes
  have hv : ¬ l.vlan > 0xFFF := by have := hw.2.1; omega
  unfold dot1qSerSpec at hl he hbytes
  rw [if_neg hv] at hl he hbytes
  simp only at hl he hbytes
  refine ⟨o, (Dot1Q.mk (putBe16 (dot1qFirst l) ++ putBe16 l.type) p l.priority l.dropEligible l.vlan l.type), ho, he, hl, ?_, ⟨rfl, rfl, rfl, rfl⟩, rfl, ?_⟩
  · rw [hbytes (by first | rfl | trivial), Dot1Q.decode_vis old _ _ (by simp [putBe16]), dot1qDecSpec_frame l p hw]
  · rw [hbytes (by first | rfl | trivial)]

/-- Writing the decoded tag again (over the decoded payload, in any buffer) gives the same bytes. -/
theorem reserialize_fixpoint_dot1q (l : Dot1Q) (p : Bytes) (b b2 : SBuf) (fix csum fix2 csum2 : Bool)
    (old : Dot1Q) (foreign : Bytes) (hw : wfDot1Q l) (hb : Inv b) (hc : contents b = p) (hb2 : Inv b2) :
    ∃ o l', l.serializeTo b fix csum = .ok o ∧
      old.decodeFromBytes { vis := contents o.buf, tail := foreign } =
        .ok { layer := l', trunc := false, err := false } ∧
      (contents b2 = l'.payload →
        ∃ o2, l'.serializeTo b2 fix2 csum2 = .ok o2 ∧ o2.err = false ∧ contents o2.buf = contents o.buf) := by
  obtain ⟨o, l', ho, he, -, hdec, -, hpay, -⟩ := roundtrip_dot1q l p b fix csum old foreign hw hb hc
  refine ⟨o, l', ho, hdec, fun hc2 => ?_⟩
  obtain ⟨o1, ho1, -, -, he1, hbytes1⟩ := dot1q_serializeTo_refines l b fix csum hb
  rw [ho] at ho1; cases ho1
  have hv : ¬ l.vlan > 0xFFF := by have := hw.2.1; omega
  unfold dot1qSerSpec at he1 hbytes1
  rw [if_neg hv, hc] at he1 hbytes1
  simp only at he1 hbytes1
  -- identify l'
  rw [hbytes1 (by first | rfl | trivial), Dot1Q.decode_vis old _ _ (by simp [putBe16]), dot1qDecSpec_frame l p hw] at hdec
  cases hdec
  simp only at hc2
  obtain ⟨o2, ho2, -, -, he2, hbytes2⟩ := dot1q_serializeTo_refines
    { contents := putBe16 (dot1qFirst l) ++ putBe16 l.type, payload := p, priority := l.priority,
      dropEligible := l.dropEligible, vlan := l.vlan, type := l.type } b2 fix2 csum2 hb2
  unfold dot1qSerSpec at he2 hbytes2
  rw [if_neg hv, hc2] at he2 hbytes2
  simp only at he2 hbytes2
  refine ⟨o2, ho2, he2, ?_⟩
  rw [hbytes2 (by first | rfl | trivial), hbytes1 (by first | rfl | trivial)]; rfl

/-- `wfDot1Q` is needed: a Priority above 7 does not fit its 3 bits and is silently truncated by
    `uint16(d.Priority)<<13` (9 comes back as 1) — such values are outside "in-range field values". -/
theorem roundtrip_dot1q_priority_counterexample :
    let l : Dot1Q := { Dot1Q.fresh with priority := 9, vlan := 5, type := 0x0800 }
    (dot1qSerSpec l []).err = false ∧ (dot1qDecSpec (dot1qSerSpec l []).bytes).layer.priority = 1 := by
  decide

/-! ## The stack Ethernet / Dot1Q / payload through the layer parser -/

/-- Stack round trip through the layer parser: Ethernet(type 802.1Q or QinQ) / Dot1Q / payload written
    innermost-first (as SerializeLayers does) decodes — with the DecodingLayerParser over both layers,
    whatever its two layer objects held before — to exactly [Ethernet, Dot1Q], no error from either
    decoder, no truncation, fields ≈ the written layers, and the tag's payload is `p`.  (`42 ≤ |p|`:
    the Ethernet payload is then ≥ 46 bytes, no padding; the tag's Type must not itself continue the
    parser into one of its two layers.) -/
theorem stack_roundtrip (e : Ethernet) (q : Dot1Q) (p : Bytes) (b : SBuf) (fix csum csum2 : Bool)
    (e0 : Ethernet) (q0 : Dot1Q) (foreign : Bytes)
    (he : wfEth e) (het : e.ethernetType = ethernetTypeDot1Q ∨ e.ethernetType = ethernetTypeQinQ)
    (hq : wfDot1Q q) (hn1 : q.nextLayerType ≠ LayerTypeEthernet) (hn2 : q.nextLayerType ≠ LayerTypeDot1Q)
    (hp : 42 ≤ p.length) (hb : Inv b) (hc : contents b = p) :
    ∃ o1 o2 st code, q.serializeTo b fix csum = .ok o1 ∧ o1.err = false ∧
      e.serializeTo o1.buf true csum2 = .ok o2 ∧ o2.err = false ∧
      dlpDecodeLayers e0 q0 { vis := contents o2.buf, tail := foreign } = .ok (st, code) ∧
      st.decoded = [LayerTypeEthernet, LayerTypeDot1Q] ∧ st.trunc = false ∧
      EthEquiv st.eth e ∧ Dot1QEquiv st.dot1q q ∧ st.dot1q.payload = p ∧
      code = (if q.nextLayerType = LayerTypeZero then 0 else 2) := by
  -- inner layer
  obtain ⟨o1, ho1, hi1, -, he1, hb1⟩ := dot1q_serializeTo_refines q b fix csum hb
  have hv : ¬ q.vlan > 0xFFF := by have := hq.2.1; omega
  unfold dot1qSerSpec at he1 hb1
  rw [if_neg hv, hc] at he1 hb1
  simp only at he1 hb1
  have hP1 := hb1 trivial
  have hlen1 : (contents o1.buf).length = 4 + p.length := by rw [hP1]; simp [putBe16]; omega
  -- outer layer
  obtain ⟨hd, hs, hk⟩ := he
  have h6 : 0x0600 ≤ e.ethernetType := by
    rcases het with h | h <;> rw [h] <;> decide
  have hty : e.ethernetType < 65536 := by
    rcases het with h | h <;> rw [h] <;> decide
  have hl0 : e.length = 0 := by
    rcases hk with ⟨h, -⟩ | ⟨-, -, h⟩
    · have : e.ethernetType = 0 := h; omega
    · exact h
  obtain ⟨o2, ho2, -, -, he2, hb2⟩ := eth_serializeTo_refines e o1.buf true csum2 hi1
  rw [ethSerSpec_ethII e _ true ⟨hd, hs, hk⟩ h6, padBody_of_ge _ (by omega)] at he2 hb2
  simp only at he2 hb2
  have hB := hb2 trivial
  refine ⟨o1, o2, ?_⟩
  -- the parser run
  have hnextE : ethTypeLayerType e.ethernetType = LayerTypeDot1Q := by
    rcases het with h | h <;> rw [h] <;> decide
  have h14 := (eth_frame_parts e.dstMAC e.srcMAC (contents o1.buf) e.ethernetType hd hs hty).2.2.2.2.2
  have hdecE := ethDecSpec_ethII e.dstMAC e.srcMAC (contents o1.buf) e.ethernetType hd hs hty h6
  have hdecQ := dot1qDecSpec_frame q p hq
  unfold dlpDecodeLayers
  rw [hB, dlpLoop_eth, if_neg (by unfold GSlice.len; simp only; omega)]
  simp only [hdecE, Ethernet.nextLayerType, hnextE]
  rw [if_neg (by unfold GSlice.len; simp only; omega)]
  rw [dlpLoop_fuel _ ((GSlice.len { vis := contents o1.buf, tail := _ }) + 1) _ _ _
    (by unfold GSlice.len; simp only [List.length_append]; omega) (Nat.lt_succ_self _)]
  rw [dlpLoop_dot1q, if_neg (by unfold GSlice.len; simp only; omega)]
  simp only [hP1, hdecQ]
  rw [if_neg (by unfold GSlice.len; simp only; omega)]
  simp only [Dot1Q.nextLayerType] at hn1 hn2 ⊢
  generalize hf : GSlice.len (GSlice.mk (putBe16 (dot1qFirst q) ++ putBe16 q.type ++ p) _) = f
  have hf' : f = (3 + p.length) + 1 := by
    rw [← hf]; unfold GSlice.len; simp [putBe16]; omega
  rw [hf', dlpLoop_other _ _ _ _ hn1 hn2]
  by_cases hz : ethTypeLayerType q.type = LayerTypeZero
  · rw [if_pos hz]
    exact ⟨_, 0, ho1, he1, ho2, he2, rfl, rfl, rfl, ⟨rfl, rfl, rfl, hl0.symm⟩, ⟨rfl, rfl, rfl, rfl⟩, rfl, by simp [hz]⟩
  · rw [if_neg hz]
    exact ⟨_, 2, ho1, he1, ho2, he2, rfl, rfl, rfl, ⟨rfl, rfl, rfl, hl0.symm⟩, ⟨rfl, rfl, rfl, rfl⟩, rfl, by simp [hz]⟩

/-! ## Non-vacuity: concrete well-formed layers inside the claims -/

example : wfEth { Ethernet.fresh with dstMAC := [0xff,0xff,0xff,0xff,0xff,0xff], srcMAC := [0,0x1b,0x21,0x3c,0xab,0x10],
                                      ethernetType := 0x86dd } := by decide

example : wfEth { Ethernet.fresh with dstMAC := [1,2,3,4,5,6], srcMAC := [7,8,9,10,11,12], length := 0x05ff } ∧
    payloadOkEth { Ethernet.fresh with dstMAC := [1,2,3,4,5,6], srcMAC := [7,8,9,10,11,12], length := 0x05ff } [1,2,3] := by
  decide

example : wfDot1Q { Dot1Q.fresh with priority := 7, dropEligible := true, vlan := 0xFFF, type := 0x88a8 } := by decide

/-- The hypotheses of `stack_roundtrip` are satisfiable (a VLAN-tagged IPv4 frame). -/
example :
    let e : Ethernet := { Ethernet.fresh with dstMAC := [1,2,3,4,5,6], srcMAC := [7,8,9,10,11,12], ethernetType := 0x8100 }
    let q : Dot1Q := { Dot1Q.fresh with priority := 5, dropEligible := true, vlan := 100, type := 0x0800 }
    wfEth e ∧ e.ethernetType = ethernetTypeDot1Q ∧ wfDot1Q q ∧
    q.nextLayerType ≠ LayerTypeEthernet ∧ q.nextLayerType ≠ LayerTypeDot1Q ∧ q.nextLayerType = LayerTypeIPv4 := by
  decide

end Gp.C06.Eth
