import Gp.Lemmas.Layers.EapRt2
/-
  C06 (engine `leap`) — EAP, EAPOL, EAPOL-Key: serialize (FixLengths on) then decode returns the same
  field values and the same payload, with no error and no truncation flag; serialising the decoded
  layer once more reproduces the same bytes.

  The model is the code WITH patches leap-1 (EAP.SerializeTo: header size and Length), leap-2
  (EAP.DecodeFromBytes: TypeData ends at Length), leap-3 and leap-4 (EAPOL-Key).  For the code before
  leap-1 / leap-2 the property FAILS: `prefix_eap_fixlengths_counterexample`,
  `prefix_eap_type_without_data_counterexample`, `prefix_eap_typedata_overrun_counterexample`.

  Definitions (Gp/Lemmas/Layers/EapRt.lean, EapSer.lean):
    wfEap l        : Code, Id, Type < 2^8; Length < 2^16; 5 + |TypeData| ≤ 65535 (the Length FIELD may disagree)
    eapFixed l fix : the layer after FixLengths (Length := 4, or 5 + |TypeData| when there is a Type or TypeData)
    eapLenAgrees l : Length is the size the serializer writes (true after FixLengths)
    EapEquiv a b   : all five public fields equal (≈ ignores Contents/Payload)
    wfEapol l      : Version, Type < 2^8; Length < 2^16 (Length is carried, never used)
    wfKey l p      : bit-field widths, 16/64-bit integers, |Nonce| = 32, |IV| = |MIC| = 16, and KeyDataLength =
                     |EncryptedKeyData| when encrypted, else no EncryptedKeyData and KeyDataLength ≤ |p|
  The buffer `b` holds the payload (`contents b = p`) and is otherwise arbitrary (any buffer with the
  C18 invariant: capacity, stale bytes, history); the decoder's receiver `old`, the capacity of the
  packet buffer and the foreign bytes behind the packet are arbitrary too.  The payload may have any
  size (also beyond 64 KiB: the EAP Length field covers the EAP packet only).
-/
namespace Gp.C06.Eap
open Gp Gp.SBuf Gp.Eap Gp.C18

/-! ## EAP -/

/-- Every successfully decoded EAP layer has in-range field values. -/
theorem decoded_wf (old : EAP) (d : GSlice) (o : DecOut EAP)
    (h : old.decodeFromBytes d = .ok o) (he : o.err = false) : wfEap o.layer := by
  unfold EAP.decodeFromBytes at h
  by_cases hs : d.len < 4
  · rw [EAP.decode_short true old d hs] at h; cases h; cases he
  · rw [EAP.decode_long true old d (by omega)] at h; cases h
    unfold eapDecSpec at he ⊢
    by_cases hlt : d.vis.length < eapLen d.vis
    · rw [if_pos hlt] at he; cases he
    · rw [if_neg hlt] at he ⊢
      by_cases h4 : eapLen d.vis < 4
      · rw [if_pos h4] at he; cases he
      · rw [if_neg h4]; exact eapLayer_wf d.vis hlt

/-- Round trip: a well-formed layer over ANY payload is written without error, FixLengths turns it
    into `eapFixed l true`, and decoding the produced bytes (into any receiver, in a packet buffer of
    any capacity) yields — without error and without truncation flag — a layer ≈ the fixed one whose
    payload is exactly `p` and whose Contents ++ Payload are the bytes written. -/
theorem roundtrip (l : EAP) (p : Bytes) (b : SBuf) (csum : Bool) (old : EAP) (foreign : Bytes)
    (hw : wfEap l) (hb : Inv b) (hc : contents b = p) :
    ∃ o l', l.serializeTo b true csum = .ok o ∧ o.err = false ∧ o.layer = eapFixed l true ∧
      old.decodeFromBytes { vis := contents o.buf, tail := foreign } =
        .ok { layer := l', trunc := false, err := false } ∧
      EapEquiv l' (eapFixed l true) ∧ l'.payload = p ∧ l'.contents ++ l'.payload = contents o.buf := by
  obtain ⟨o, ho, -, hl, he, hby⟩ := eap_serializeTo_refines l b true csum hb
  rw [hc] at hby
  obtain ⟨hw2, hs2⟩ := eapFixed_wf l hw
  have h4 : 4 ≤ (eapEncode (eapFixed l true) ++ p).length := by
    rw [List.length_append, eapEncode_length]
    have : 4 ≤ eapSize (eapFixed l true) := by unfold eapSize; split <;> omega
    omega
  refine ⟨o, { eapFixed l true with contents := eapEncode (eapFixed l true), payload := p }, ho, he, hl, ?_,
    ⟨rfl, rfl, rfl, rfl, rfl⟩, rfl, by rw [hby]⟩
  unfold EAP.decodeFromBytes
  rw [hby, EAP.decode_vis true old _ _ h4, eapDecSpec_encode old _ p hw2 hs2]

/-- Without FixLengths the same holds for layers whose Length field already is the size written:
    nothing is mutated and all fields come back exactly. -/
theorem roundtrip_nofix (l : EAP) (p : Bytes) (b : SBuf) (fix csum : Bool) (old : EAP) (foreign : Bytes)
    (hw : wfEap l) (hs : eapLenAgrees l) (hb : Inv b) (hc : contents b = p) :
    ∃ o l', l.serializeTo b fix csum = .ok o ∧ o.err = false ∧ o.layer = l ∧
      old.decodeFromBytes { vis := contents o.buf, tail := foreign } =
        .ok { layer := l', trunc := false, err := false } ∧
      EapEquiv l' l ∧ l'.payload = p := by
  obtain ⟨o, ho, -, hl, he, hby⟩ := eap_serializeTo_refines l b fix csum hb
  rw [hc, eapFixed_of_agree l fix hw hs] at hby
  rw [eapFixed_of_agree l fix hw hs] at hl
  have h4 : 4 ≤ (eapEncode l ++ p).length := by
    rw [List.length_append, eapEncode_length]
    have : 4 ≤ eapSize l := by unfold eapSize; split <;> omega
    omega
  refine ⟨o, { l with contents := eapEncode l, payload := p }, ho, he, hl, ?_, ⟨rfl, rfl, rfl, rfl, rfl⟩, rfl⟩
  unfold EAP.decodeFromBytes
  rw [hby, EAP.decode_vis true old _ _ h4, eapDecSpec_encode old _ p hw hs]

/-- Writing the decoded layer once more (over its own payload, into any buffer, any options)
    reproduces the same bytes and does not change the layer. -/
theorem reserialize_fixpoint (l : EAP) (p : Bytes) (b b2 : SBuf) (csum fix2 csum2 : Bool)
    (old : EAP) (foreign : Bytes) (hw : wfEap l) (hb : Inv b) (hc : contents b = p) (hb2 : Inv b2) :
    ∃ o l', l.serializeTo b true csum = .ok o ∧ o.err = false ∧
      old.decodeFromBytes { vis := contents o.buf, tail := foreign } =
        .ok { layer := l', trunc := false, err := false } ∧
      (contents b2 = l'.payload →
        ∃ o2, l'.serializeTo b2 fix2 csum2 = .ok o2 ∧ o2.err = false ∧ o2.layer = l' ∧
          contents o2.buf = contents o.buf) := by
  obtain ⟨o, ho, -, hl, he, hby⟩ := eap_serializeTo_refines l b true csum hb
  rw [hc] at hby
  obtain ⟨hw2, hs2⟩ := eapFixed_wf l hw
  have h4 : 4 ≤ (eapEncode (eapFixed l true) ++ p).length := by
    rw [List.length_append, eapEncode_length]
    have : 4 ≤ eapSize (eapFixed l true) := by unfold eapSize; split <;> omega
    omega
  refine ⟨o, { eapFixed l true with contents := eapEncode (eapFixed l true), payload := p }, ho, he, ?_, ?_⟩
  · unfold EAP.decodeFromBytes
    rw [hby, EAP.decode_vis true old _ _ h4, eapDecSpec_encode old _ p hw2 hs2]
  · intro hc2
    simp only at hc2
    have hw3 : wfEap { eapFixed l true with contents := eapEncode (eapFixed l true), payload := p } := hw2
    have hs3 : eapLenAgrees { eapFixed l true with contents := eapEncode (eapFixed l true), payload := p } := hs2
    obtain ⟨o2, ho2, -, hl2, he2, hby2⟩ := eap_serializeTo_refines
      { eapFixed l true with contents := eapEncode (eapFixed l true), payload := p } b2 fix2 csum2 hb2
    rw [hc2, eapFixed_of_agree _ fix2 hw3 hs3] at hby2
    rw [eapFixed_of_agree _ fix2 hw3 hs3] at hl2
    exact ⟨o2, ho2, he2, hl2, by rw [hby2, hby]; rfl⟩

/-- The serializer BEFORE leap-1, FixLengths: Length = |TypeData| + 1.  A Response/Identity "bob"
    is written with Length 4 and decodes as a type-less EAP with the Type byte and the identity as
    payload (the property fails for every layer with TypeData). -/
theorem prefix_eap_fixlengths_counterexample :
    let l : EAP := { EAP.fresh with code := 2, id := 9, typ := 1, typeData := [0x62, 0x6f, 0x62] }
    wfEap l ∧
    serView (l.serializeToPreFix (new 0 0) true true) =
      .ok { layer := { l with length := 4 }, err := false, bytes := [2, 9, 0, 4, 1, 0x62, 0x6f, 0x62] } ∧
    decodeEap EAP.fresh [2, 9, 0, 4, 1, 0x62, 0x6f, 0x62] [] =
      .ok ({ contents := [2, 9, 0, 4], payload := [1, 0x62, 0x6f, 0x62], code := 2, id := 9, length := 4,
             typ := 0, typeData := [] }, false) := by decide

/-- The serializer BEFORE leap-1 wrote the Type byte only when TypeData is non-empty: a
    Request/Identity without data (`01 07 00 05 01` on the wire, decodes fine) is written as four
    bytes — Length 1 under FixLengths ("invalid EAP length"), Length 5 without it (truncated). -/
theorem prefix_eap_type_without_data_counterexample :
    let l : EAP := { EAP.fresh with code := 1, id := 7, length := 5, typ := 1 }
    wfEap l ∧
    decodeEap EAP.fresh [1, 7, 0, 5, 1] [] = .ok ({ l with contents := [1, 7, 0, 5, 1] }, false) ∧
    serView (l.serializeToPreFix (new 0 0) true true) =
      .ok { layer := { l with length := 1 }, err := false, bytes := [1, 7, 0, 1] } ∧
    decodeEap EAP.fresh [1, 7, 0, 1] [] = .err "eap" ∧
    serView (l.serializeToPreFix (new 0 0) false false) = .ok { layer := l, err := false, bytes := [1, 7, 0, 5] } ∧
    decodeEap EAP.fresh [1, 7, 0, 5] [] = .err "eap" := by decide

/-- The decoder BEFORE leap-2 ran TypeData to the end of the input: trailing bytes (Ethernet padding)
    are part of TypeData AND of Payload, so they do not survive a round trip over that payload. -/
theorem prefix_eap_typedata_overrun_counterexample :
    EAP.decodeFromBytesPreFix EAP.fresh ⟨[2, 9, 0, 8, 1, 0x62, 0x6f, 0x62, 0, 0, 0], []⟩ =
      .ok { layer := { contents := [2, 9, 0, 8, 1, 0x62, 0x6f, 0x62], payload := [0, 0, 0], code := 2, id := 9,
                       length := 8, typ := 1, typeData := [0x62, 0x6f, 0x62, 0, 0, 0] },
            trunc := false, err := false } ∧
    EAP.fresh.decodeFromBytes ⟨[2, 9, 0, 8, 1, 0x62, 0x6f, 0x62, 0, 0, 0], []⟩ =
      .ok { layer := { contents := [2, 9, 0, 8, 1, 0x62, 0x6f, 0x62], payload := [0, 0, 0], code := 2, id := 9,
                       length := 8, typ := 1, typeData := [0x62, 0x6f, 0x62] },
            trunc := false, err := false } := by decide

/-- The bound of `wfEap` on TypeData is sharp: with 65531 bytes of TypeData FixLengths stores
    `uint16(65536) = 0` in Length (silently). -/
theorem roundtrip_eap_long_data_counterexample (d : Bytes) (h : d.length = 65531) :
    (eapFixed { EAP.fresh with code := 2, typ := 13, typeData := d } true).length = 0 := by
  have hs : eapSize { EAP.fresh with code := 2, typ := 13, typeData := d } = 5 + d.length := by
    unfold eapSize; rw [if_pos (Or.inl (show (13 : Nat) ≠ Gen.Eap.eapTypeNone by decide))]
  unfold eapFixed
  simp only [if_true]
  rw [hs, h]

example : (List.replicate 65531 (0 : UInt8)).length = 65531 := List.length_replicate

/-! ## EAPOL -/

theorem decoded_wf_eapol (old : EAPOL) (d : GSlice) (o : DecOut EAPOL)
    (h : old.decodeFromBytes d = .ok o) (he : o.err = false) : wfEapol o.layer := by
  by_cases hs : d.len < 4
  · rw [EAPOL.decode_short old d hs] at h; cases h; cases he
  · rw [EAPOL.decode_long old d (by omega)] at h; cases h
    exact eapolLayer_wf d.vis

/-- Round trip for every Version / Type / Length and every payload (the Length field is carried as it
    is — EAPOL.SerializeTo has no FixLengths handling and the decoder does not use it). -/
theorem roundtrip_eapol (l : EAPOL) (p : Bytes) (b : SBuf) (fix csum : Bool) (old : EAPOL)
    (foreign : Bytes) (hw : wfEapol l) (hb : Inv b) (hc : contents b = p) :
    ∃ o l', l.serializeTo b fix csum = .ok o ∧ o.err = false ∧ o.layer = l ∧
      old.decodeFromBytes { vis := contents o.buf, tail := foreign } =
        .ok { layer := l', trunc := false, err := false } ∧
      EapolEquiv l' l ∧ l'.payload = p ∧ l'.contents ++ l'.payload = contents o.buf := by
  obtain ⟨o, ho, -, hl, he, hby⟩ := eapol_serializeTo_refines l b fix csum hb
  rw [hc] at hby
  have h4 : 4 ≤ (eapolEncode l ++ p).length := by
    rw [List.length_append]; have : (eapolEncode l).length = 4 := rfl; omega
  refine ⟨o, { l with contents := eapolEncode l, payload := p }, ho, he, hl, ?_, ⟨rfl, rfl, rfl⟩, rfl, by rw [hby]⟩
  rw [hby, EAPOL.decode_vis old _ _ h4]
  unfold eapolDecSpec
  rw [eapolLayer_encode l p hw]

theorem reserialize_fixpoint_eapol (l : EAPOL) (p : Bytes) (b b2 : SBuf) (fix csum fix2 csum2 : Bool)
    (old : EAPOL) (foreign : Bytes) (hw : wfEapol l) (hb : Inv b) (hc : contents b = p) (hb2 : Inv b2) :
    ∃ o l', l.serializeTo b fix csum = .ok o ∧ o.err = false ∧
      old.decodeFromBytes { vis := contents o.buf, tail := foreign } =
        .ok { layer := l', trunc := false, err := false } ∧
      (contents b2 = l'.payload →
        ∃ o2, l'.serializeTo b2 fix2 csum2 = .ok o2 ∧ o2.err = false ∧ contents o2.buf = contents o.buf) := by
  obtain ⟨o, ho, -, hl, he, hby⟩ := eapol_serializeTo_refines l b fix csum hb
  rw [hc] at hby
  have h4 : 4 ≤ (eapolEncode l ++ p).length := by
    rw [List.length_append]; have : (eapolEncode l).length = 4 := rfl; omega
  refine ⟨o, { l with contents := eapolEncode l, payload := p }, ho, he, ?_, ?_⟩
  · rw [hby, EAPOL.decode_vis old _ _ h4]
    unfold eapolDecSpec
    rw [eapolLayer_encode l p hw]
  · intro hc2
    simp only at hc2
    obtain ⟨o2, ho2, -, -, he2, hby2⟩ := eapol_serializeTo_refines
      { l with contents := eapolEncode l, payload := p } b2 fix2 csum2 hb2
    rw [hc2] at hby2
    exact ⟨o2, ho2, he2, by rw [hby2, hby]; rfl⟩

/-! ## EAPOL-Key -/

/-- Every successfully decoded EAPOL-Key layer (with leap-3) is well-formed over its own payload:
    bit fields within their widths, Nonce/IV/MIC of their field sizes, and KeyDataLength consistent
    with where the key data went (EncryptedKeyData, or the leading part of the payload). -/
theorem decoded_wf_eapolkey (old : EAPOLKey) (d : GSlice) (o : DecOut EAPOLKey)
    (h : old.decodeFromBytes d = .ok o) (he : o.err = false) : wfKey o.layer o.layer.payload := by
  unfold EAPOLKey.decodeFromBytes at h
  by_cases hs : d.len < 95
  · rw [EAPOLKey.decode_short true old d hs] at h; cases h; cases he
  · rw [EAPOLKey.decode_long true old d (by omega)] at h; cases h
    exact keyDecSpec_wf old d.vis (by unfold GSlice.len at hs; omega) he

/-- Round trip of the whole frame incl. the bit packing of the key-information word: every field of a
    well-formed layer comes back exactly, the payload is `p` (for unencrypted key data: the key data
    IS the leading part of `p`, handed on to the Dot11InformationElement decoder), no error, no
    truncation flag; for every option set (the layer has no length fixing). -/
theorem roundtrip_eapolkey (l : EAPOLKey) (p : Bytes) (b : SBuf) (fix csum : Bool) (old : EAPOLKey)
    (foreign : Bytes) (hw : wfKey l p) (hb : Inv b) (hc : contents b = p) :
    ∃ o l', l.serializeTo b fix csum = .ok o ∧ o.err = false ∧ o.layer = l ∧
      old.decodeFromBytes { vis := contents o.buf, tail := foreign } =
        .ok { layer := l', trunc := false, err := false } ∧
      KeyEquiv l' l ∧ l'.payload = p ∧ l'.contents ++ l'.payload = contents o.buf := by
  obtain ⟨o, ho, -, hl, he, hby⟩ := key_serializeTo_refines l b fix csum hb
  rw [hc] at hby
  have h95 : 95 ≤ (keyEncode l ++ p).length := by rw [List.length_append, keyEncode_length]; omega
  refine ⟨o, { l with contents := keyEncode l, payload := p }, ho, he, hl, ?_,
    ⟨rfl, rfl, rfl, rfl, rfl, rfl, rfl, rfl, rfl, rfl, rfl, rfl, rfl, rfl, rfl, rfl, rfl, rfl, rfl, rfl, rfl⟩, rfl,
    by rw [hby]⟩
  unfold EAPOLKey.decodeFromBytes
  rw [hby, EAPOLKey.decode_vis true old _ _ h95, keyDecSpec_encode old l p hw]

theorem reserialize_fixpoint_eapolkey (l : EAPOLKey) (p : Bytes) (b b2 : SBuf) (fix csum fix2 csum2 : Bool)
    (old : EAPOLKey) (foreign : Bytes) (hw : wfKey l p) (hb : Inv b) (hc : contents b = p) (hb2 : Inv b2) :
    ∃ o l', l.serializeTo b fix csum = .ok o ∧ o.err = false ∧
      old.decodeFromBytes { vis := contents o.buf, tail := foreign } =
        .ok { layer := l', trunc := false, err := false } ∧
      (contents b2 = l'.payload →
        ∃ o2, l'.serializeTo b2 fix2 csum2 = .ok o2 ∧ o2.err = false ∧ o2.layer = l' ∧
          contents o2.buf = contents o.buf) := by
  obtain ⟨o, ho, -, hl, he, hby⟩ := key_serializeTo_refines l b fix csum hb
  rw [hc] at hby
  have h95 : 95 ≤ (keyEncode l ++ p).length := by rw [List.length_append, keyEncode_length]; omega
  refine ⟨o, { l with contents := keyEncode l, payload := p }, ho, he, ?_, ?_⟩
  · unfold EAPOLKey.decodeFromBytes
    rw [hby, EAPOLKey.decode_vis true old _ _ h95, keyDecSpec_encode old l p hw]
  · intro hc2
    simp only at hc2
    obtain ⟨o2, ho2, -, hl2, he2, hby2⟩ := key_serializeTo_refines
      { l with contents := keyEncode l, payload := p } b2 fix2 csum2 hb2
    rw [hc2] at hby2
    exact ⟨o2, ho2, he2, hl2, by rw [hby2, hby]; rfl⟩

/-- The widths of `wfKey` are sharp: the serializer does not mask, so a KeyDescriptorVersion of 8
    sets the KeyType bit and comes back as version 0 / type 1. -/
theorem roundtrip_eapolkey_version_counterexample :
    let l : EAPOLKey := { EAPOLKey.fresh with keyDescriptorVersion := 8 }
    keyInfo l = 8 ∧ (keyInfoFields EAPOLKey.fresh (keyInfo l)).keyDescriptorVersion = 0 ∧
    (keyInfoFields EAPOLKey.fresh (keyInfo l)).keyType = 1 := by decide

/-- … and so are the field sizes: a 2-byte Nonce comes back as 32 bytes (zero padded with leap-4). -/
theorem roundtrip_eapolkey_short_nonce_counterexample :
    pad 32 [1, 2] = [1, 2] ++ List.replicate 30 0 := by decide

/-! ## Non-vacuity: concrete non-trivial inhabitants of the hypotheses -/

example : wfEap { EAP.fresh with code := 2, id := 9, length := 77, typ := 1, typeData := [0x62, 0x6f, 0x62] } := by decide

example : wfEapol { EAPOL.fresh with version := 2, typ := 3, length := 117 } := by decide

/-- message 1 of a WPA2 handshake: unencrypted key data (22 bytes) travelling as payload -/
example : wfKey { EAPOLKey.fresh with keyDescriptorType := 2, keyDescriptorVersion := 2, keyType := 1, keyACK := true,
                                      keyLength := 16, replayCounter := 1, nonce := List.replicate 32 0x3e,
                                      iv := List.replicate 16 0, mic := List.replicate 16 0, keyDataLength := 22 }
    (List.replicate 22 0xdd) := by decide

/-- message 3: encrypted key data in the layer -/
example : wfKey { EAPOLKey.fresh with keyDescriptorType := 2, keyDescriptorVersion := 2, keyType := 1, install := true,
                                      keyACK := true, keyMIC := true, secure := true, hasEncryptedKeyData := true,
                                      keyLength := 16, replayCounter := 2, nonce := List.replicate 32 0x3e,
                                      iv := List.replicate 16 0, mic := List.replicate 16 0x77, keyDataLength := 3,
                                      encryptedKeyData := [1, 2, 3] } [] := by decide

/-- the whole round trip computed on a concrete layer whose Length field (77) is wrong on entry -/
example :
    serView (({ EAP.fresh with code := 2, id := 9, length := 77, typ := 1, typeData := [0x62, 0x6f, 0x62] } : EAP).serializeTo
              (step (new 0 0) (.prepend [0xAA, 0xBB])) true true) =
      .ok { layer := { EAP.fresh with code := 2, id := 9, length := 8, typ := 1, typeData := [0x62, 0x6f, 0x62] },
            err := false, bytes := [2, 9, 0, 8, 1, 0x62, 0x6f, 0x62, 0xAA, 0xBB] } ∧
    decodeEap EAP.fresh [2, 9, 0, 8, 1, 0x62, 0x6f, 0x62, 0xAA, 0xBB] [0xEE] =
      .ok ({ contents := [2, 9, 0, 8, 1, 0x62, 0x6f, 0x62], payload := [0xAA, 0xBB], code := 2, id := 9, length := 8,
             typ := 1, typeData := [0x62, 0x6f, 0x62] }, false) := by decide

/-- Observation (inside the property, via FixLengths): a packet with Length 5 and a Type byte 0
    decodes to Type = EAPTypeNone without data; the serializer treats that as "no Type" and writes
    the four-byte form (Length fixed to 4), which decodes to the same field values. -/
example :
    decodeEap EAP.fresh [1, 7, 0, 5, 0] [] =
      .ok ({ contents := [1, 7, 0, 5, 0], payload := [], code := 1, id := 7, length := 5, typ := 0, typeData := [] }, false) ∧
    (eapSerSpec { contents := [1, 7, 0, 5, 0], payload := [], code := 1, id := 7, length := 5, typ := 0, typeData := [] } [] true).bytes =
      [1, 7, 0, 4] := by decide

end Gp.C06.Eap
