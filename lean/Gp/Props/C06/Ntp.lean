import Gp.Lemmas.Layers.NtpRt
/-
  C06 (engine `lntp`) — NTP: serialize then decode returns the same field values, with no error and no
  truncation flag; serialising the decoded layer once more reproduces the same bytes.  (VRRPv2 has no
  SerializeTo and is outside this property.)

  Definitions (Gp/Lemmas/Layers/NtpRt.lean, NtpSer.lean):
    wfNtp l       : LI ≤ 3, Version ≤ 7, Mode ≤ 7 (the bit-field widths) and every other field within the
                    range of its Go type (uint8 / int8 / uint32 / uint64); ExtensionBytes arbitrary
    NtpHdrEquiv   : the thirteen header fields equal;  NtpEquiv = NtpHdrEquiv ∧ ExtensionBytes equal
                    (≈ ignores Contents/Payload)
    ntpEncode l   : the 48 header bytes
  NTP is a LEAF layer: NextLayerType = LayerTypeZero, `LayerPayload()`/`Payload()` are always empty,
  decodeNTP never calls NextDecoder, and the protocol has no length field — everything behind the 48
  header bytes IS the extension/authenticator area.  The payload "where the protocol allows" is
  therefore the empty one (`roundtrip`); `roundtrip_general` states exactly what happens over any
  payload `p` (SerializeTo writes header ++ p ++ ExtensionBytes, which decodes with
  ExtensionBytes = p ++ ext), and `roundtrip_any_payload_counterexample` records that the full-strength
  statement over non-empty payloads is false for this layer type.
  The buffer `b` holds the payload (`contents b = p`) and is otherwise arbitrary (any buffer with the
  C18 invariant); the decoder's receiver `old`, the capacity of the packet buffer and the foreign bytes
  behind the packet are arbitrary too.
-/
namespace Gp.C06.Ntp
open Gp Gp.SBuf Gp.Ntp Gp.C18

/-- Every successfully decoded NTP layer has in-range field values. -/
theorem decoded_wf (old : NTP) (d : GSlice) (o : DecOut NTP)
    (h : old.decodeFromBytes d = .ok o) (he : o.err = false) : wfNtp o.layer := by
  by_cases hs : d.len < 48
  · rw [NTP.decode_short old d hs] at h; cases h; cases he
  · rw [NTP.decode_long old d (by omega)] at h; cases h
    exact ntpLayer_wf d.vis

/-- Round trip over ANY buffer contents `p`: a well-formed layer is written without error and without
    being modified; decoding the produced bytes (into any receiver, in a packet buffer of any
    capacity) yields — without error and without truncation flag — a layer with the same thirteen
    header fields, empty payload, Contents = all bytes written and ExtensionBytes = p ++ ext. -/
theorem roundtrip_general (l : NTP) (p : Bytes) (b : SBuf) (fix csum : Bool) (old : NTP) (foreign : Bytes)
    (hw : wfNtp l) (hb : Inv b) (hc : contents b = p) :
    ∃ o l', l.serializeTo b fix csum = .ok o ∧ o.err = false ∧ o.layer = l ∧
      old.decodeFromBytes { vis := contents o.buf, tail := foreign } =
        .ok { layer := l', trunc := false, err := false } ∧
      NtpHdrEquiv l' l ∧ l'.extensionBytes = p ++ l.extensionBytes ∧ l'.layerPayload = [] ∧
      l'.contents = contents o.buf := by
  obtain ⟨o, ho, -, hl, he, hby⟩ := ntp_serializeTo_refines l b fix csum hb
  rw [hc, List.append_assoc] at hby
  have h48 : 48 ≤ (ntpEncode l ++ (p ++ l.extensionBytes)).length := by
    rw [List.length_append, ntpEncode_length]; omega
  refine ⟨o, { l with contents := ntpEncode l ++ (p ++ l.extensionBytes), payload := [],
                       extensionBytes := p ++ l.extensionBytes }, ho, he, hl, ?_,
    ⟨rfl, rfl, rfl, rfl, rfl, rfl, rfl, rfl, rfl, rfl, rfl, rfl, rfl⟩, rfl, rfl, by rw [hby]⟩
  rw [hby, NTP.decode_vis old _ _ h48]
  unfold ntpDecSpec
  rw [ntpLayer_encode l _ hw]

/-- Round trip (the property for this leaf layer: written over the empty payload, with FixLengths and
    ComputeChecksums on or off): all public fields — the header fields AND ExtensionBytes — come back,
    the payload is the (empty) payload, no error, no truncation flag. -/
theorem roundtrip (l : NTP) (b : SBuf) (fix csum : Bool) (old : NTP) (foreign : Bytes)
    (hw : wfNtp l) (hb : Inv b) (hc : contents b = []) :
    ∃ o l', l.serializeTo b fix csum = .ok o ∧ o.err = false ∧ o.layer = l ∧
      old.decodeFromBytes { vis := contents o.buf, tail := foreign } =
        .ok { layer := l', trunc := false, err := false } ∧
      NtpEquiv l' l ∧ l'.layerPayload = [] ∧ l'.appPayload = [] ∧ l'.contents = contents o.buf := by
  obtain ⟨o, l', h1, h2, h3, h4, h5, h6, h7, h8⟩ := roundtrip_general l [] b fix csum old foreign hw hb hc
  exact ⟨o, l', h1, h2, h3, h4, ⟨h5, by rw [h6, List.nil_append]⟩, h7, rfl, h8⟩

/-- Writing the decoded layer once more (over its own — empty — payload, into any buffer, any
    options) reproduces the same bytes and does not change the layer; this holds whatever payload the
    first serialisation was made over. -/
theorem reserialize_fixpoint (l : NTP) (p : Bytes) (b b2 : SBuf) (fix csum fix2 csum2 : Bool)
    (old : NTP) (foreign : Bytes) (hw : wfNtp l) (hb : Inv b) (hc : contents b = p) (hb2 : Inv b2) :
    ∃ o l', l.serializeTo b fix csum = .ok o ∧ o.err = false ∧
      old.decodeFromBytes { vis := contents o.buf, tail := foreign } =
        .ok { layer := l', trunc := false, err := false } ∧
      (contents b2 = l'.layerPayload →
        ∃ o2, l'.serializeTo b2 fix2 csum2 = .ok o2 ∧ o2.err = false ∧ o2.layer = l' ∧
          contents o2.buf = contents o.buf) := by
  obtain ⟨o, ho, -, hl, he, hby⟩ := ntp_serializeTo_refines l b fix csum hb
  rw [hc, List.append_assoc] at hby
  have h48 : 48 ≤ (ntpEncode l ++ (p ++ l.extensionBytes)).length := by
    rw [List.length_append, ntpEncode_length]; omega
  refine ⟨o, { l with contents := ntpEncode l ++ (p ++ l.extensionBytes), payload := [],
                       extensionBytes := p ++ l.extensionBytes }, ho, he, ?_, ?_⟩
  · rw [hby, NTP.decode_vis old _ _ h48]
    unfold ntpDecSpec
    rw [ntpLayer_encode l _ hw]
  · intro hc2
    obtain ⟨o2, ho2, -, hl2, he2, hby2⟩ := ntp_serializeTo_refines
      { l with contents := ntpEncode l ++ (p ++ l.extensionBytes), payload := [],
               extensionBytes := p ++ l.extensionBytes } b2 fix2 csum2 hb2
    refine ⟨o2, ho2, he2, hl2, ?_⟩
    rw [hby2, hc2, hby]
    show ntpEncode l ++ [] ++ (p ++ l.extensionBytes) = _
    rw [List.append_nil]

/-- Decode then serialize is the identity on bytes: every input of at least 48 bytes decodes, and
    writing the decoded layer over its (empty) payload — any buffer, any options — gives exactly the
    input bytes back (bit fields, signed Poll/Precision and all extension/authenticator bytes). -/
theorem decode_serialize_identity (old : NTP) (v foreign : Bytes) (b : SBuf) (fix csum : Bool)
    (h : 48 ≤ v.length) (hb : Inv b) (hc : contents b = []) :
    ∃ l o, old.decodeFromBytes { vis := v, tail := foreign } = .ok { layer := l, trunc := false, err := false } ∧
      l.layerPayload = [] ∧ l.serializeTo b fix csum = .ok o ∧ o.err = false ∧ contents o.buf = v := by
  obtain ⟨o, ho, -, -, he, hby⟩ := ntp_serializeTo_refines (ntpLayer v) b fix csum hb
  refine ⟨ntpLayer v, o, NTP.decode_vis old v foreign h, rfl, ho, he, ?_⟩
  rw [hby, hc]
  exact ntp_reencode v h

/-- The full-strength round trip over an ARBITRARY payload — kept as a statement. -/
def roundtrip_any_payload_full : Prop :=
  ∀ (l : NTP) (p : Bytes), wfNtp l →
    NtpEquiv (ntpLayer (ntpSerSpec l p).bytes) l ∧ (ntpLayer (ntpSerSpec l p).bytes).layerPayload = p

set_option maxRecDepth 20000 in
/-- … it is FALSE for this layer type: NTP has no payload (everything behind the header is
    ExtensionBytes, `LayerPayload()` is always empty), so bytes written under an NTP header come back
    as extension bytes.  Scoped by the property's "where the protocol allows" (the in-scope payload of
    a leaf layer is the empty one, `roundtrip`), not a defect of the code; `roundtrip_general` is the
    exact statement for every payload. -/
theorem roundtrip_any_payload_counterexample : ¬ roundtrip_any_payload_full := by
  intro h
  have h1 := (h NTP.fresh [1] (by decide)).2
  revert h1
  decide

set_option maxRecDepth 20000 in
/-- The bit-field bounds of `wfNtp` are sharp: a LeapIndicator of 4 is silently masked to 0 by the
    serializer (`(uint8(LI) << 6) & 0xC0`), a Version of 9 comes back as 1, a Mode of 15 as 7. -/
theorem roundtrip_bitfield_counterexample :
    let l : NTP := { NTP.fresh with leapIndicator := 4, version := 9, mode := 15 }
    (ntpLayer (ntpEncode l)).leapIndicator = 0 ∧ (ntpLayer (ntpEncode l)).version = 1 ∧
    (ntpLayer (ntpEncode l)).mode = 7 := by decide

/-! ## Non-vacuity: concrete non-trivial inhabitants of the hypotheses -/

example : wfNtp { NTP.fresh with leapIndicator := 3, version := 4, mode := 3, stratum := 2, poll := -6,
                                 precision := -20, rootDelay := 1, rootDispersion := 2, referenceID := 3,
                                 referenceTimestamp := 4, originTimestamp := 5, receiveTimestamp := 6,
                                 transmitTimestamp := 18446744073709551615,
                                 extensionBytes := [0, 0, 0, 1, 0xAA, 0xBB] } := by decide

set_option maxRecDepth 20000 in
/-- the whole round trip computed on a concrete layer with a key id + (shortened) digest -/
example :
    let l : NTP := { NTP.fresh with leapIndicator := 3, version := 4, mode := 3, stratum := 2, poll := -6,
                                    precision := -20, rootDelay := 1, rootDispersion := 2, referenceID := 3,
                                    referenceTimestamp := 4, originTimestamp := 5, receiveTimestamp := 6,
                                    transmitTimestamp := 72057594037927943, extensionBytes := [0, 0, 0, 1, 0xAA] }
    let bytes : Bytes := [0xE3, 2, 0xFA, 0xEC] ++ [0,0,0,1] ++ [0,0,0,2] ++ [0,0,0,3] ++ [0,0,0,0,0,0,0,4] ++
      [0,0,0,0,0,0,0,5] ++ [0,0,0,0,0,0,0,6] ++ [1,0,0,0,0,0,0,7] ++ [0, 0, 0, 1, 0xAA]
    serView (l.serializeTo (new 0 0) true true) = .ok { layer := l, err := false, bytes := bytes } ∧
    decodeNtp NTP.fresh bytes [0xEE] = .ok ({ l with contents := bytes }, false) := by decide

end Gp.C06.Ntp
